package p9

// C02 correspondence harness: the real recv fed arbitrary byte streams through a
// counting reader, and whole sessions against Server.Handle.

import (
	"strings"
	"encoding/binary"
	"encoding/json"
	"errors"
	"io"
	"math/rand"
	"net"
	"os"
	"path/filepath"
	"runtime"
	"strconv"
	"sync"
	"testing"
	"time"

	"github.com/u-root/uio/ulog"

	"github.com/hugelgupf/p9/linux"
)

type vh02Case struct {
	Kind   string        `json:"kind"` // loop
	ID     int           `json:"id"`
	What   string        `json:"what"`
	MSize  uint32        `json:"msize"`
	Max    int           `json:"max"`
	Stream []int         `json:"stream"`
	Script []vh02Step    `json:"script"`
	Oracle []vh02Oracle  `json:"oracle"`
	Events []vh02Event   `json:"events"`
	Reads  []int         `json:"reads"`
}

var vh02id int

func vh02Run(o *vhOut, what string, msize uint32, stream []byte, script []vh02Step, max int) {
	rd := &vh02Reader{data: stream, script: script}
	evs := vh02Loop(rd, msize, func() int { return rd.pos }, max)
	vh02id++
	o.Emit(vh02Case{Kind: "loop", ID: vh02id, What: what, MSize: msize, Max: max, Stream: vhBytes(stream), Script: script,
		Oracle: vh02Oracles(stream, msize), Events: evs, Reads: rd.reads})
}

// vh02Big: frames too large to evaluate inside Coq: only the observed numbers are kept.
type vh02BigCase struct {
	Kind     string `json:"kind"` // big
	ID       int    `json:"id"`
	MSize    uint32 `json:"msize"`
	Size     uint32 `json:"size"`
	Avail    int    `json:"avail"` // bytes in the stream
	Ev       string `json:"ev"`
	Consumed int    `json:"consumed"`
	MaxRead  int    `json:"maxread"`
	SumFirst int    `json:"nreads"`
}

func vh02Big(o *vhOut, msize, size uint32, typ byte, avail int) {
	stream := make([]byte, avail)
	if avail >= 7 {
		binary.LittleEndian.PutUint32(stream, size)
		stream[4] = typ
		stream[5] = 3
	}
	rd := &vh02Reader{data: stream}
	ev := vh02RecvOnce(rd, msize, func() int { return rd.pos })
	mx := 0
	for _, n := range rd.reads {
		if n > mx {
			mx = n
		}
	}
	vh02id++
	o.Emit(vh02BigCase{Kind: "big", ID: vh02id, MSize: msize, Size: size, Avail: avail, Ev: ev.Kind, Consumed: ev.Consumed, MaxRead: mx, SumFirst: len(rd.reads)})
}

type vh02Attacher struct{}

func (vh02Attacher) Attach() (File, error) { return nil, linux.ENOSYS }

type vh02Reply struct {
	Typ   int `json:"typ"`
	Tag   int `json:"tag"`
	Errno int `json:"errno"` // of an Rlerror
}

type vh02Session struct {
	Kind     string       `json:"kind"` // session
	ID       int          `json:"id"`
	Path     string       `json:"path"` // vec | generic
	MSize    uint32       `json:"msize"`
	Stream   []int        `json:"stream"`
	Oracle   []vh02Oracle `json:"oracle"`
	Replies  []vh02Reply  `json:"replies"`
	Hang     bool         `json:"hang"`
	Returned bool         `json:"returned"` // Handle returned
	VerOK    bool         `json:"verok"`
}

// vh02Sess: Tversion(msize) first (reply awaited), then the stream written in pieces,
// write side closed, replies read until the server closes.
// vh02Sess: a session that appears to hang is replayed; only a hang seen three times in a row is reported
// (the model says every such session ends: "blocked" is concluded from a timeout only in that direction).
func vh02Sess(o *vhOut, r *rand.Rand, path string, msize uint32, stream []byte, sample bool) {
	var res vh02Session
	for try := 0; try < 3; try++ {
		res = vh02SessOnce(r, path, msize, stream)
		if !res.Hang {
			break
		}
	}
	if !sample && !res.Hang && res.Returned && res.VerOK {
		return // fuzz sessions: only every n-th uneventful one goes through the reply comparison
	}
	vh02id++
	res.ID = vh02id
	o.Emit(res)
}

// vh02SessCuts: when non-nil the session's stream is written in segments ending at these offsets, with a
// pause after each (so that one recvmsg / Read returns exactly that segment); nil = random pieces, no pause
var vh02SessCuts []int

func vh02SessOnce(r *rand.Rand, path string, msize uint32, stream []byte) vh02Session {
	a, b, err := vh02SocketPair()
	if err != nil {
		panic(err)
	}
	srv := NewServer(vh02Attacher{})
	done := make(chan struct{})
	go func() {
		if path == "vec" {
			srv.Handle(b, b)
		} else {
			p := vh02Plain{b}
			srv.Handle(p, p)
		}
		close(done)
	}()
	res := vh02Session{Kind: "session", Path: path, MSize: msize, Stream: vhBytes(stream)}
	eff := msize
	if eff > maximumLength {
		eff = maximumLength
	}
	res.Oracle = vh02Oracles(stream, eff)
	body := vhLE32(msize)
	body = vhPutString(body, "9P2000.L.Google.7")
	a.Write(vhFrame(byte(msgTversion), 0xffff, body))
	typ, _, _, err := vhReadFrame(a, 10*time.Second)
	res.VerOK = err == nil && typ == byte(msgRversion)
	if ne, ok := err.(net.Error); ok && ne.Timeout() {
		res.Hang = true
	}
	var wg sync.WaitGroup
	wg.Add(1)
	go func() {
		defer wg.Done()
		cuts := vh02SessCuts
		for off := 0; off < len(stream); {
			n := 1 + r.Intn(len(stream))
			if len(cuts) > 0 { // gated: write up to the next cut position, then pause so that the segment is received alone
				n = cuts[0] - off
				cuts = cuts[1:]
				if n <= 0 {
					continue
				}
			} else if vh02SessCuts != nil {
				n = len(stream) - off
			}
			if off+n > len(stream) {
				n = len(stream) - off
			}
			if _, err := a.Write(stream[off : off+n]); err != nil {
				break
			}
			off += n
			if vh02SessCuts != nil {
				time.Sleep(3 * time.Millisecond)
			}
		}
		a.CloseWrite()
	}()
	for {
		typ, tg, rbody, err := vhReadFrame(a, 10*time.Second)
		if err != nil {
			if ne, ok := err.(net.Error); ok && ne.Timeout() {
				res.Hang = true
			}
			break
		}
		rep := vh02Reply{Typ: int(typ), Tag: int(tg)}
		if typ == byte(msgRlerror) && len(rbody) >= 4 {
			rep.Errno = int(binary.LittleEndian.Uint32(rbody))
		}
		res.Replies = append(res.Replies, rep)
	}
	a.Close()
	wg.Wait()
	select {
	case <-done:
		res.Returned = true
	case <-time.After(10 * time.Second):
		res.Hang = true
	}
	return res
}

// vh02Flush makes everything observed so far durable (a crash of the test binary must not lose it).
func vh02Flush(o *vhOut) {
	o.mu.Lock()
	o.w.Flush()
	o.mu.Unlock()
}

// vh02Inflight records the input about to be fed to code that may crash the process (server
// goroutines are not under our recover); the check reads it back when the test binary died.
func vh02Inflight(what string, msize uint32, stream []byte) {
	d := os.Getenv("VERIF_RUNDIR")
	if d == "" {
		return
	}
	b, _ := json.Marshal(map[string]interface{}{"what": what, "msize": msize, "stream": vhBytes(stream)})
	os.WriteFile(filepath.Join(d, "c02_inflight.json"), b, 0o644)
}

func vh02InflightDone() {
	if d := os.Getenv("VERIF_RUNDIR"); d != "" {
		os.Remove(filepath.Join(d, "c02_inflight.json"))
	}
}

// vh02AllocOnce: bytes allocated (runtime.MemStats.TotalAlloc delta; ReadMemStats stops the world and
// flushes the allocation caches, so the figure is exact) while recv handles the stream once.  Nothing
// else runs in the test at that moment; the minimum of three runs discards stray allocations.
func vh02AllocOnce(stream []byte, msize uint32) uint64 {
	best := ^uint64(0)
	for rep := 0; rep < 3; rep++ {
		rd := &vh02Reader{data: stream, reads: make([]int, 0, 1024)}
		var m0, m1 runtime.MemStats
		runtime.ReadMemStats(&m0)
		func() {
			defer func() { recover() }()
			recv(ulog.Null, rd, msize, msgDotLRegistry.get)
		}()
		runtime.ReadMemStats(&m1)
		if d := m1.TotalAlloc - m0.TotalAlloc; d < best {
			best = d
		}
	}
	return best
}

func vh02Alloc(o *vhOut, what string, msize uint32, stream []byte) {
	vh02id++
	o.Emit(map[string]interface{}{"kind": "alloc", "id": vh02id, "what": what, "msize": msize, "stream": vhBytes(stream),
		"alloc": vh02AllocOnce(stream, msize)})
}

// vh02Hostile: short frames whose counts / lengths promise far more than the body holds.
func vh02Hostile() [][]byte {
	var out [][]byte
	ff := []byte{0xff, 0xff}
	for _, typ := range []msgType{msgTwalk, msgTwalkgetattr} {
		out = append(out, vhFrame(byte(typ), 9, append(append(vhLE32(1), vhLE32(2)...), ff...)))             // 17 bytes: fid newfid nwname=0xffff
		out = append(out, vhFrame(byte(typ), 9, append(append(vhLE32(1), vhLE32(2)...), 0xff, 0x7f, 1, 0))) // one byte of the first name
	}
	out = append(out, vhFrame(byte(msgRwalk), 9, ff))                                  // 9 bytes: nwqid=0xffff
	out = append(out, vhFrame(byte(msgRwalk), 9, append(ff, make([]byte, 13)...)))     // one QID then nothing
	out = append(out, vhFrame(byte(msgRwalkgetattr), 9, ff))
	out = append(out, vhFrame(byte(msgRwalkgetattr), 9, append(make([]byte, 160), ff...)))
	out = append(out, vhFrame(byte(msgTversion), 9, append(vhLE32(8192), ff...)))      // string length 0xffff, no bytes
	out = append(out, vhFrame(byte(msgTattach), 9, append(append(vhLE32(1), vhLE32(2)...), ff...)))
	out = append(out, vhFrame(byte(msgTsymlink), 9, append(vhLE32(1), ff...)))
	out = append(out, vhFrame(byte(msgTmkdir), 9, append(vhLE32(1), 0xfe, 0xff, 'a')))
	out = append(out, vhFrame(byte(msgRreaddir), 9, append(vhLE32(0xffffffff), make([]byte, 30)...)))
	out = append(out, vhFrame(byte(msgRreaddir), 9, append(vhLE32(24), append(make([]byte, 22), ff...)...))) // entry name length 0xffff
	out = append(out, vhFrame(byte(msgRread), 9, vhLE32(0xffffffff)))
	out = append(out, vhFrame(byte(msgTwrite), 9, append(append(vhLE32(1), vhLE64(0)...), vhLE32(0xfffffff0)...)))
	out = append(out, vhFrame(byte(msgTxattrcreate), 9, append(vhLE32(1), ff...)))
	return out
}

// vh02BadCounts: payload-carrying messages whose count field disagrees with the payload that follows.
func vh02BadCounts() [][]byte {
	var out [][]byte
	for _, plen := range []int{0, 1, 10} {
		pay := make([]byte, plen)
		for i := range pay {
			pay[i] = byte(i + 1)
		}
		for _, cnt := range []uint32{uint32(plen) + 1, uint32(plen) - 1, uint32(plen) + 1000, 0xffffffff, 0, uint32(plen)} {
			out = append(out, vhFrame(byte(msgRread), 21, append(vhLE32(cnt), pay...)))
			tw := append(append(vhLE32(3), vhLE64(5)...), vhLE32(cnt)...)
			out = append(out, vhFrame(byte(msgTwrite), 22, append(tw, pay...)))
			out = append(out, vhFrame(byte(msgRreaddir), 23, append(vhLE32(cnt), pay...)))
		}
	}
	return out
}

// ---- the client's receiver: the real Client.handleOne on a Client built around the scripted reader ----

type vh02Conn struct{ *vh02Reader }

func (vh02Conn) Write(p []byte) (int, error) { return len(p), nil }
func (vh02Conn) Close() error                { return nil }

type vh02Pending struct {
	Tag int `json:"tag"`
	Typ int `json:"typ"` // the R type the call expects
}

// vh02ClientRun registers one pending call per entry and lets handleOne consume the stream frame by frame.
// A rejection is visible only as the error every pending call gets (no tag), as in the real client.
func vh02ClientRun(o *vhOut, what string, msize uint32, stream []byte, pend []vh02Pending, max int) {
	rd := &vh02Reader{data: stream}
	c := &Client{conn: vh02Conn{rd}, pending: map[tag]*response{}, messageSize: msize, log: ulog.Null, recvr: make(chan bool, 1)}
	vh02ClientDrive(o, what, msize, c, rd, stream, pend, max)
}

// vh02ClientRunNeg: the Client is built by the real NewClient, which proposes `proposed` and is granted the smaller
// `granted` by the (scripted) server; the frames that follow are judged by the GRANTED size: that is the msize of the
// session, whatever the client asked for.
func vh02ClientRunNeg(o *vhOut, proposed, granted uint32, stream []byte, pend []vh02Pending, max int) {
	rv := vh02Encode(1, &rversion{MSize: granted, Version: HighestVersionString()}) // NewClient's Tversion carries the first tag of its pool: 1
	rd := &vh02Reader{data: append(append([]byte{}, rv...), stream...)}
	c, err := NewClient(vh02Conn{rd}, WithMessageSize(proposed))
	if err != nil || rd.pos != len(rv) {
		vh02id++
		o.Emit(map[string]interface{}{"kind": "flag", "id": vh02id, "what": "client-negotiated: NewClient over a scripted Rversion", "ok": false, "pos": rd.pos})
		return
	}
	limit := granted // the msize of the session: what the server announced, never more than what the client proposed
	if proposed < limit {
		limit = proposed
	}
	vh02ClientDrive(o, "client-negotiated", limit, c, rd, stream, pend, max)
}

func vh02ClientDrive(o *vhOut, what string, msize uint32, c *Client, rd *vh02Reader, stream []byte, pend []vh02Pending, max int) {
	resps := map[int]*response{}
	for _, p := range pend {
		m, err := msgDotLRegistry.get(0, msgType(p.Typ))
		if err != nil {
			continue
		}
		if pl, ok := m.(payloader); ok {
			pl.SetPayload(nil)
		}
		rs := &response{r: m, done: make(chan error, 4)}
		c.pending[tag(p.Tag)] = rs
		resps[p.Tag] = rs
	}
	var evs []vh02Event
	for i := 0; i < max; i++ {
		before := rd.pos
		var ev vh02Event
		func() {
			defer func() {
				if recover() != nil {
					ev.Kind = "panic"
				}
			}()
			c.handleOne()
		}()
		ev.Consumed = rd.pos - before
		if ev.Kind != "panic" {
			ev.Kind = "reject" // nobody completed and no connection error: a frame nobody waits for
			ev.Tag = int(noTag)
			for tg, rs := range resps {
				select {
				case err := <-rs.done:
					var ce ConnError
					switch {
					case err == nil:
						ev = vh02Event{Kind: "deliver", Tag: tg, Typ: int(rs.r.typ()), Consumed: ev.Consumed}
						if pl, ok := rs.r.(payloader); ok {
							ev.HasPay = true
							ev.Payload = vhBytes(pl.Payload())
						}
						delete(resps, tg)
					case errors.As(err, &ce):
						ev.Kind = "conn"
					}
					if err != nil {
						delete(resps, tg)
					}
				default:
				}
			}
		}
		if ev.Kind == "reject" && c.broken != nil {
			ev.Kind = "conn" // a connection error with no call left to tell: the client marks itself broken
		}
		evs = append(evs, ev)
		if ev.Kind == "conn" || ev.Kind == "panic" {
			break
		}
	}
	vh02id++
	o.Emit(map[string]interface{}{"kind": "client", "id": vh02id, "what": what, "msize": msize, "max": max, "stream": vhBytes(stream),
		"pending": pend, "events": evs})
}

func vh02FuzzSeconds(def int) int {
	if v, err := strconv.Atoi(os.Getenv("VERIF_FUZZ_SECONDS")); err == nil {
		return v
	}
	return def
}

// vh02Fuzz: random and mutated streams through the real recv for a fixed time; a Go panic or a recv that
// does not return is reported with the stream.  (The observed half of "never panics": in the model that
// clause holds by construction.)
func vh02Fuzz(o *vhOut, r *rand.Rand, corpus [][]byte, seconds int) {
	deadline := time.Now().Add(time.Duration(seconds) * time.Second)
	iters, fails := 0, 0
	kinds := map[string]int{}
	for time.Now().Before(deadline) && fails < 5 {
		var stream []byte
		k := 1 + r.Intn(4)
		for j := 0; j < k; j++ {
			g := append([]byte{}, corpus[r.Intn(len(corpus))]...)
			for m := r.Intn(4); m > 0; m-- {
				g = vh02Mutate(r, g)
			}
			if r.Intn(8) == 0 {
				g = make([]byte, r.Intn(40))
				r.Read(g)
			}
			stream = append(stream, g...)
		}
		msize := []uint32{65536, 1024, 64, maximumLength, 1<<32 - 1, uint32(len(stream))}[r.Intn(6)]
		var sc []vh02Step
		if r.Intn(3) == 0 {
			sc = vh02Cuts(r, len(stream))
		}
		var evs []vh02Event
		for try := 0; try < 3; try++ { // a recv that does not return within 20 s, three times in a row, is a hang
			res := make(chan []vh02Event, 1)
			rd := &vh02Reader{data: stream, script: sc}
			go func() { res <- vh02Loop(rd, msize, func() int { return rd.pos }, 16) }()
			select {
			case evs = <-res:
			case <-time.After(20 * time.Second):
				evs = []vh02Event{{Kind: "hang"}}
			}
			if evs[0].Kind != "hang" {
				break
			}
		}
		iters++
		for _, e := range evs {
			kinds[e.Kind]++
			if e.Kind == "panic" || e.Kind == "hang" {
				fails++
				vh02id++
				o.Emit(map[string]interface{}{"kind": "fuzzfail", "id": vh02id, "what": "recv " + e.Kind, "msize": msize, "stream": vhBytes(stream), "script": sc})
			}
		}
	}
	vh02id++
	o.Emit(map[string]interface{}{"kind": "fuzz", "id": vh02id, "what": "recv", "iterations": iters, "seconds": seconds, "outcomes": kinds, "failures": fails})
}

func TestVerifC02(t *testing.T) {
	o := vhOpen(t)
	defer o.Close()
	r := vhRand()
	thorough := vhThorough()

	o.Emit(map[string]interface{}{"kind": "registry", "id": 0, "entries": vh02Registry(),
		"headerLength": headerLength, "maximumLength": maximumLength, "noTag": uint16(noTag)})

	corpus := vh02Corpus(r)
	full := func() []vh02Step { return nil }

	// 1. every valid frame, alone, msize on both sides of its length
	for _, f := range corpus {
		n := uint32(len(f))
		mss := []uint32{n, n - 1, n + 1, 7, 65536, maximumLength, 1<<32 - 1}
		if !thorough {
			mss = []uint32{n, n - 1, 65536, 1<<32 - 1}
		}
		for _, ms := range mss {
			vh02Run(o, "valid", ms, f, full(), 1)
		}
	}
	// 1b. inconsistent counts for every payload-carrying type, alone and followed by a good frame
	for _, f := range vh02BadCounts() {
		vh02Run(o, "badcount", 65536, f, full(), 1)
		vh02Run(o, "badcount", 65536, append(append([]byte{}, f...), corpus[3]...), full(), 3)
	}
	// 1c. counts and lengths far larger than the body, and what recv allocates for them
	for _, f := range vh02Hostile() {
		for _, ms := range []uint32{4096, uint32(len(f)), 65536} {
			vh02Run(o, "hostile", ms, f, full(), 1)
			vh02Alloc(o, "hostile", ms, f)
		}
		vh02Run(o, "hostile", 4096, append(append([]byte{}, f...), corpus[5]...), full(), 3)
	}
	// 1d. allocation for valid frames and for size fields between msize and 4 MiB (nothing may be
	// allocated for a refused header)
	for i, f := range corpus {
		if thorough || i%4 == 0 {
			vh02Alloc(o, "valid", 65536, f)
			vh02Alloc(o, "valid", uint32(len(f)), f)
		}
	}
	for _, sz := range []uint32{65, 4096, 1 << 20, maximumLength, maximumLength + 1, 1<<32 - 1} {
		for _, typ := range []byte{byte(msgTwrite), byte(msgTwalk), 3} {
			vh02Alloc(o, "refused-size", 64, vh02SetSize(vhFrame(typ, 5, make([]byte, 40)), sz))
		}
	}
	// 2. size fields around the limits, body unchanged (stream shorter or longer than the size says)
	sizeReps := 8
	if thorough {
		sizeReps = len(corpus)
	}
	for i := 0; i < sizeReps; i++ {
		f := corpus[r.Intn(len(corpus))]
		for _, ms := range []uint32{64, 512, 65536} {
			for _, sz := range []uint32{0, 6, 7, 8, ms - 1, ms, ms + 1, maximumLength, maximumLength + 1, 1<<32 - 1, uint32(len(f)) - 1, uint32(len(f)) + 1} {
				vh02Run(o, "sizefield", ms, vh02SetSize(f, sz), full(), 2)
			}
		}
	}
	// 3. truncation of frames at every offset
	truncReps := 10
	if thorough {
		truncReps = len(corpus)
	}
	for i := 0; i < truncReps; i++ {
		f := corpus[(i*7+int(r.Int31n(3)))%len(corpus)]
		if len(f) > 120 {
			f = corpus[i%40]
		}
		for k := 0; k < len(f); k++ {
			vh02Run(o, "trunc", 65536, f[:k], full(), 2)
		}
	}
	// 4. mutated frames, alone and inside sequences of good frames (resynchronisation)
	nmut := 360
	if thorough {
		nmut = 8000
	}
	for i := 0; i < nmut; i++ {
		f := vh02Mutate(r, corpus[r.Intn(len(corpus))])
		if r.Intn(3) == 0 {
			f = vh02Mutate(r, f)
		}
		ms := []uint32{65536, 65536, 1024, uint32(len(f)), uint32(len(f)) + 3}[r.Intn(5)]
		if r.Intn(2) == 0 {
			if r.Intn(4) == 0 { // short reads (a discarded body must still be consumed exactly)
				vh02Run(o, "mutant-cut", ms, f, vh02Cuts(r, len(f)), 1)
			} else {
				vh02Run(o, "mutant", ms, f, full(), 1)
			}
			continue
		}
		var stream []byte
		k := 1 + r.Intn(4)
		for j := 0; j < k; j++ {
			g := corpus[r.Intn(len(corpus))]
			if len(g) > 200 {
				g = corpus[r.Intn(40)]
			}
			if r.Intn(2) == 0 {
				g = vh02Mutate(r, g)
			}
			stream = append(stream, g...)
		}
		stream = append(stream, f...)
		stream = append(stream, corpus[r.Intn(40)]...)
		vh02Run(o, "sequence", ms, stream, full(), 12)
	}
	// 5. random bytes
	nrand := 100
	if thorough {
		nrand = 2000
	}
	for i := 0; i < nrand; i++ {
		b := make([]byte, r.Intn(64))
		r.Read(b)
		if len(b) >= 4 && r.Intn(2) == 0 {
			binary.LittleEndian.PutUint32(b, uint32(r.Intn(80)))
		}
		vh02Run(o, "random", 65536, b, full(), 8)
	}
	// 6. payloaders whose fixed part does not fit, and unknown types with a body to drain
	for _, typ := range []byte{byte(msgTwrite), byte(msgRread), byte(msgRreaddir)} {
		for n := 0; n <= 18; n++ {
			vh02Run(o, "payloader-short", 65536, append(vhFrame(typ, 77, make([]byte, n)), corpus[3]...), full(), 3)
		}
	}
	for _, n := range []int{0, 1, 100, 8191, 8192, 8193, 20000} {
		st := append(vhFrame(3, 1234, make([]byte, n)), corpus[5]...)
		vh02Run(o, "unknown-type", 65536, st, full(), 3)
		if n <= 8193 {
			vh02Run(o, "unknown-type-cut", 65536, st, vh02Cuts(r, len(st)), 3)
		}
	}
	// 6b. the client's receiver (Client.handleOne): replies for pending and non-pending tags, wrong R type,
	// Rlerror, damaged replies, a client created with msize above 4 MiB
	rframes := func() [][]byte {
		var out [][]byte
		data := make([]byte, 20)
		r.Read(data)
		out = append(out, vh02Encode(31, &rread{Data: data}), vh02Encode(32, &rwalk{QIDs: []QID{{Path: 1}}}), vh02Encode(33, &rlopen{}),
			vh02Encode(34, &rlerror{Error: 2}), vh02Encode(35, &rreaddir{Count: 100, Entries: []Dirent{{Name: "x"}}}), vh02Encode(36, &rclunk{}),
			vh02Encode(37, &rwrite{Count: 9}), vh02Encode(38, &rgetattr{}))
		return out
	}()
	pendAll := []vh02Pending{{31, int(msgRread)}, {32, int(msgRwalk)}, {33, int(msgRlopen)}, {34, int(msgRlopen)}, {35, int(msgRreaddir)},
		{36, int(msgRclunk)}, {37, int(msgRwrite)}, {38, int(msgRgetattr)}}
	ncl := 60
	if thorough {
		ncl = 600
	}
	for i := 0; i < ncl; i++ {
		var stream []byte
		for j := 1 + r.Intn(4); j > 0; j-- {
			g := append([]byte{}, rframes[r.Intn(len(rframes))]...)
			switch r.Intn(6) {
			case 0:
				g = vh02Mutate(r, g)
			case 1:
				binary.LittleEndian.PutUint16(g[5:], uint16(31+r.Intn(12))) // another call's tag, or nobody's
			case 2:
				g[4] = []byte{byte(msgRread), byte(msgRlerror), byte(msgRwalk), byte(msgTread), 3}[r.Intn(5)]
			}
			stream = append(stream, g...)
		}
		pend := pendAll
		if i%3 == 0 {
			pend = pendAll[:4]
		}
		ms := []uint32{65536, 8 << 20, uint32(len(stream)), 64}[r.Intn(4)]
		vh02ClientRun(o, "client", ms, stream, pend, 8)
	}
	for _, sz := range []uint32{maximumLength, maximumLength + 1, 8 << 20, 8<<20 + 1, 1<<32 - 1, 6} {
		vh02ClientRun(o, "client-size", 8<<20, vh02SetSize(rframes[0], sz), pendAll, 2)
	}
	// 6b. the limit is the msize of the SESSION: a client that proposed more and was granted less refuses (at the header) a
	// reply longer than what was granted
	// ... and a server that announces MORE than was proposed does not raise it either (the last two pairs)
	for _, pg := range [][2]uint32{{8192, 200}, {65536, 4096}, {8192, 8191}, {4096, 4096}, {4096, 8192}, {8192, 1 << 20}} {
		proposed, granted := pg[0], pg[1]
		for _, total := range []uint32{granted - 1, granted, granted + 1, granted + 12, proposed - 1, proposed, proposed + 1, proposed + 12} {
			if total > 70000 {
				continue
			}
			pay := make([]byte, total-11)
			for i := range pay {
				pay[i] = byte(i)
			}
			fr := vhFrame(byte(msgRread), 41, append(vhLE32(uint32(len(pay))), pay...))
			good := vhFrame(byte(msgRclunk), 42, nil)
			vh02ClientRunNeg(o, proposed, granted, append(append([]byte{}, fr...), good...), []vh02Pending{{41, int(msgRread)}, {42, int(msgRclunk)}}, 3)
		}
	}
	// 7. frames too large for the Coq evaluation: observed numbers only
	for _, c := range [][3]uint32{
		{maximumLength, maximumLength, maximumLength}, {maximumLength, maximumLength, 1000}, {1<<32 - 1, maximumLength, maximumLength},
		{1<<32 - 1, maximumLength + 1, 64}, {1<<32 - 1, 1<<32 - 1, 64}, {1 << 20, 1 << 20, 1 << 20}, {1 << 20, 1<<20 + 1, 64},
		{maximumLength, maximumLength - 1, maximumLength + 10},
		// a client created WithMessageSize(> 4 MiB): frames between 4 MiB and msize are refused after the header
		{1<<32 - 1, maximumLength + 1, maximumLength + 20}, {8 << 20, maximumLength + 1, maximumLength + 20}, {8 << 20, 8 << 20, 64},
		{8 << 20, 5 << 20, 5<<20 + 3},
	} {
		for _, typ := range []byte{byte(msgTwrite), byte(msgTclunk), 3} {
			vh02Big(o, c[0], c[1], typ, int(c[2]))
		}
	}
	// 8. whole sessions against Server.Handle
	nsess := 40
	if thorough {
		nsess = 400
	}
	tagno := uint16(100)
	for i := 0; i < nsess; i++ {
		ms := []uint32{65536, 1024, 256, 8192}[r.Intn(4)]
		var stream []byte
		k := 2 + r.Intn(8)
		for j := 0; j < k; j++ {
			g := append([]byte{}, corpus[r.Intn(len(corpus))]...)
			if len(g) > 200 {
				g = append([]byte{}, corpus[r.Intn(40)]...)
			}
			switch r.Intn(5) {
			case 0, 1:
				g = vh02Mutate(r, g)
			case 2:
				if r.Intn(4) == 0 { // a size field that ends the connection
					g = vh02SetSize(g, []uint32{0, 6, ms + 1, maximumLength + 1, 1<<32 - 1}[r.Intn(5)])
				}
			}
			if len(g) >= 7 {
				if g[4] == byte(msgTversion) {
					g[4] = byte(msgTclunk)
				}
				tagno++
				binary.LittleEndian.PutUint16(g[5:], tagno) // distinct tags: no "tag in use" races
			}
			stream = append(stream, g...)
		}
		path := "vec"
		if i%2 == 1 {
			path = "generic"
		}
		vh02Flush(o)
		vh02Inflight("session "+path, ms, stream)
		vh02Sess(o, r, path, ms, stream, true)
		vh02InflightDone()
	}
	// 8b. live sessions over a real socket pair with a payload-carrying frame split at EVERY position (inside the
	// header, the fixed part, at the fixed/payload boundary and -- the case one recvmsg fills the fixed-part vector
	// and part of the payload vector -- inside the payload), a good frame behind it: both must be answered
	{
		tw := vh02Encode(901, &twrite{fid: 1, Offset: 0, Data: []byte{1, 2, 3, 4, 5, 6, 7, 8, 9, 10, 11, 12}})
		stream := append(append([]byte{}, tw...), vh02Encode(902, &tclunk{fid: 1})...)
		for cut := 1; cut < len(tw); cut++ {
			for _, path := range []string{"vec", "generic"} {
				if path == "generic" && cut%4 != 0 {
					continue
				}
				vh02SessCuts = []int{cut}
				vh02Flush(o)
				vh02Inflight("session "+path+" gated cut="+strconv.Itoa(cut), 8192, stream)
				vh02Sess(o, r, path, 8192, stream, true)
				vh02InflightDone()
			}
		}
		vh02SessCuts = nil
	}
	// 8c. a tag used by a REJECTED frame is free again at once: the rejection is answered from the receive
	// path (own tag for an unknown type, NOTAG for a bad body) and never activates the tag, so a later good
	// frame under the same tag -- or under NOTAG -- must be answered like any other
	{
		short := vhFrame(byte(msgTwalk), 80, []byte{1, 0, 0, 0}) // body too short for fid, newfid, nwname
		badcount := vh02Encode(81, &twrite{fid: 1, Offset: 0, Data: []byte{1, 2, 3}})
		badcount[7+12] = 200 // count[4] larger than the payload that follows
		for _, c := range [][][]byte{
			{vhFrame(3, 77, []byte{9, 9, 9}), vh02Encode(77, &tclunk{fid: 9}), vh02Encode(78, &tclunk{fid: 9})},
			{vhFrame(54, 77, nil), vh02Encode(77, &tclunk{fid: 9}), vhFrame(54, 77, nil), vh02Encode(77, &tclunk{fid: 8})},
			{short, vh02Encode(80, &tclunk{fid: 9}), vh02Encode(0xffff, &tclunk{fid: 9})},
			{badcount, vh02Encode(0xffff, &tclunk{fid: 9}), vh02Encode(81, &tclunk{fid: 9})},
			{short, short, vh02Encode(0xffff, &tgetattr{fid: 3}), vhFrame(3, 0xffff, nil), vh02Encode(0xffff, &tclunk{fid: 9})},
		} {
			var stream []byte
			for _, f := range c {
				stream = append(stream, f...)
			}
			for _, path := range []string{"vec", "generic"} {
				// written frame by frame with a pause: each good frame is answered before the next arrives, so the
				// tag it used is idle again (a tag reused while in flight is legitimately dropped, not what is tested)
				cuts, off := []int{}, 0
				for _, f := range c {
					off += len(f)
					cuts = append(cuts, off)
				}
				vh02SessCuts = cuts
				vh02Flush(o)
				vh02Inflight("session "+path+" tag reuse after rejection", 8192, stream)
				vh02Sess(o, r, path, 8192, stream, true)
				vh02InflightDone()
			}
		}
		vh02SessCuts = nil
	}
	// 8e. resynchronisation must not depend on what earlier traffic left in the recycled buffers: replies with an EMPTY
	// body (Rflush) go out first, then a rejected frame WITH a body (unknown type / body shorter than the fixed part),
	// then good frames, which must be answered one by one.  Written frame by frame so that the replies (and whatever
	// they recycle) are complete before the rejected frame arrives; repeated, because sync.Pool is per-P.
	{
		junk := func(n int) []byte {
			b := make([]byte, n)
			for i := range b {
				b[i] = 9
			}
			return b
		}
		fl := func(tg uint16) []byte { return vh02Encode(tg, &tflush{OldTag: 7}) }
		shortw := func(tg uint16, n int) []byte { return vhFrame(byte(msgTwalk), tg, junk(n)[:n]) } // n < 10: shorter than fid, newfid, nwname
		for rep := 0; rep < 4; rep++ {
			for _, c := range [][][]byte{
				{fl(60), fl(61), fl(62), vhFrame(3, 63, junk(40)), vh02Encode(64, &tclunk{fid: 9}), vh02Encode(65, &tclunk{fid: 9})},
				{fl(60), fl(61), shortw(63, 9), vh02Encode(64, &tclunk{fid: 9}), fl(66), vhFrame(54, 67, junk(300)), vh02Encode(68, &tgetattr{fid: 3})},
				{fl(60), vhFrame(3, 63, junk(1)), fl(61), vhFrame(3, 64, junk(7)), fl(62), vhFrame(3, 65, junk(23)), vh02Encode(69, &tclunk{fid: 9})},
			} {
				var stream []byte
				cuts, off := []int{}, 0
				for _, f := range c {
					stream = append(stream, f...)
					off += len(f)
					cuts = append(cuts, off)
				}
				for _, path := range []string{"vec", "generic"} {
					vh02SessCuts = cuts
					vh02Flush(o)
					vh02Inflight("session "+path+" rejected frame after empty-body replies", 8192, stream)
					vh02Sess(o, r, path, 8192, stream, true)
					vh02InflightDone()
				}
			}
		}
		vh02SessCuts = nil
	}
	// 8d. renegotiation: the frame that follows an Rversion is judged by the msize that Rversion announced,
	// whatever the scheduling of the receiver goroutines.  The second Tversion carries a 65,000-digit
	// (zero-padded) version number: parsing it keeps its handler busy while the next receiver starts.
	{
		nren := 120
		if thorough {
			nren = 1500
		}
		long := "9P2000.L.Google." + strings.Repeat("0", 65000) + "7"
		for i := 0; i < nren; i++ {
			first, second, size := uint32(0), uint32(1024), uint32(2000) // lowered: a 2000-byte frame must be refused
			if i%2 == 1 {
				first, second, size = 1024, 16384, 9000 // raised: a 9000-byte frame must be accepted
			}
			ver := long
			if first != 0 {
				ver = "9P2000.L.Google.7" // the second Tversion must itself fit in the first msize
			}
			vh02Reneg(o, first, second, ver, size)
		}
	}
	// 9. fuzz-style loop (thorough: minutes; quick: seconds)
	secs := vh02FuzzSeconds(4)
	if thorough {
		secs = vh02FuzzSeconds(150)
	}
	vh02Flush(o)
	vh02Fuzz(o, r, corpus, secs)
	// ... and through a live Server.Handle
	sessSecs := secs / 3
	end := time.Now().Add(time.Duration(sessSecs) * time.Second)
	nfs := 0
	for time.Now().Before(end) {
		var stream []byte
		for j := 1 + r.Intn(6); j > 0; j-- {
			g := append([]byte{}, corpus[r.Intn(len(corpus))]...)
			for m := r.Intn(3); m > 0; m-- {
				g = vh02Mutate(r, g)
			}
			if len(g) >= 7 {
				if g[4] == byte(msgTversion) {
					g[4] = byte(msgTclunk)
				}
				tagno++
				binary.LittleEndian.PutUint16(g[5:], tagno)
			}
			stream = append(stream, g...)
		}
		ms := []uint32{65536, 1024, 256}[r.Intn(3)]
		vh02Flush(o)
		vh02Inflight("fuzz session", ms, stream)
		vh02Sess(o, r, []string{"vec", "generic"}[nfs%2], ms, stream, nfs%40 == 0)
		vh02InflightDone()
		nfs++
	}
	vh02id++
	o.Emit(map[string]interface{}{"kind": "fuzz", "id": vh02id, "what": "session", "iterations": nfs, "seconds": sessSecs, "failures": 0})
	_ = io.EOF
}

// vh02Reneg: [Tversion(first) answered,] Tversion(second, version string ver) answered, then one Tclunk-typed
// frame of `size` bytes (trailing bytes after the last field are ignored by the decoder): is it answered?
func vh02Reneg(o *vhOut, first, second uint32, ver string, size uint32) {
	a, b, err := vh02SocketPair()
	if err != nil {
		panic(err)
	}
	srv := NewServer(vh02Attacher{})
	done := make(chan struct{})
	go func() { srv.Handle(b, b); close(done) }()
	announced := uint32(0)
	ok := true
	for _, tv := range []struct {
		m uint32
		v string
	}{{first, "9P2000.L.Google.7"}, {second, ver}} {
		if tv.m == 0 {
			continue
		}
		a.Write(vhFrame(byte(msgTversion), 0xffff, vhPutString(vhLE32(tv.m), tv.v)))
		typ, _, rb, err := vhReadFrame(a, 10*time.Second)
		if err != nil || typ != byte(msgRversion) || len(rb) < 4 {
			ok = false
			break
		}
		announced = binary.LittleEndian.Uint32(rb)
	}
	answered := false
	if ok {
		body := make([]byte, size-7)
		binary.LittleEndian.PutUint32(body, 12345) // fid
		go a.Write(vhFrame(byte(msgTclunk), 7, body))
		if typ, tg, _, err := vhReadFrame(a, 10*time.Second); err == nil && tg == 7 && (typ == byte(msgRlerror) || typ == byte(msgRclunk)) {
			answered = true
		}
	}
	a.Close()
	returned := false
	select {
	case <-done:
		returned = true
	case <-time.After(10 * time.Second):
	}
	vh02id++
	o.Emit(map[string]interface{}{"kind": "reneg", "id": vh02id, "what": "frame after renegotiation", "first": first, "announced": announced,
		"size": size, "answered": answered, "returned": returned, "verok": ok})
}
