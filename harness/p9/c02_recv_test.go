package p9

// C02 correspondence harness: the real recv fed arbitrary byte streams through a
// counting reader, and whole sessions against Server.Handle.

import (
	"encoding/binary"
	"io"
	"math/rand"
	"net"
	"sync"
	"testing"
	"time"

	"github.com/hugelgupf/p9/linux"
)

type vh02Case struct {
	Kind   string        `json:"kind"` // loop
	ID     int           `json:"id"`
	What   string        `json:"what"`
	MSize  uint32        `json:"msize"`
	Max    int           `json:"max"`
	Stream []int         `json:"stream"`
	Script []vh02Step    `json:"script"`
	Oracle []vh02Oracle  `json:"oracle"`
	Events []vh02Event   `json:"events"`
	Reads  []int         `json:"reads"`
}

var vh02id int

func vh02Run(o *vhOut, what string, msize uint32, stream []byte, script []vh02Step, max int) {
	rd := &vh02Reader{data: stream, script: script}
	evs := vh02Loop(rd, msize, func() int { return rd.pos }, max)
	vh02id++
	o.Emit(vh02Case{Kind: "loop", ID: vh02id, What: what, MSize: msize, Max: max, Stream: vhBytes(stream), Script: script,
		Oracle: vh02Oracles(stream, msize), Events: evs, Reads: rd.reads})
}

// vh02Big: frames too large to evaluate inside Coq: only the observed numbers are kept.
type vh02BigCase struct {
	Kind     string `json:"kind"` // big
	ID       int    `json:"id"`
	MSize    uint32 `json:"msize"`
	Size     uint32 `json:"size"`
	Avail    int    `json:"avail"` // bytes in the stream
	Ev       string `json:"ev"`
	Consumed int    `json:"consumed"`
	MaxRead  int    `json:"maxread"`
	SumFirst int    `json:"nreads"`
}

func vh02Big(o *vhOut, msize, size uint32, typ byte, avail int) {
	stream := make([]byte, avail)
	if avail >= 7 {
		binary.LittleEndian.PutUint32(stream, size)
		stream[4] = typ
		stream[5] = 3
	}
	rd := &vh02Reader{data: stream}
	ev := vh02RecvOnce(rd, msize, func() int { return rd.pos })
	mx := 0
	for _, n := range rd.reads {
		if n > mx {
			mx = n
		}
	}
	vh02id++
	o.Emit(vh02BigCase{Kind: "big", ID: vh02id, MSize: msize, Size: size, Avail: avail, Ev: ev.Kind, Consumed: ev.Consumed, MaxRead: mx, SumFirst: len(rd.reads)})
}

type vh02Attacher struct{}

func (vh02Attacher) Attach() (File, error) { return nil, linux.ENOSYS }

type vh02Reply struct {
	Typ   int `json:"typ"`
	Tag   int `json:"tag"`
	Errno int `json:"errno"` // of an Rlerror
}

type vh02Session struct {
	Kind     string       `json:"kind"` // session
	ID       int          `json:"id"`
	Path     string       `json:"path"` // vec | generic
	MSize    uint32       `json:"msize"`
	Stream   []int        `json:"stream"`
	Oracle   []vh02Oracle `json:"oracle"`
	Replies  []vh02Reply  `json:"replies"`
	Hang     bool         `json:"hang"`
	Returned bool         `json:"returned"` // Handle returned
	VerOK    bool         `json:"verok"`
}

// vh02Sess: Tversion(msize) first (reply awaited), then the stream written in pieces,
// write side closed, replies read until the server closes.
func vh02Sess(o *vhOut, r *rand.Rand, path string, msize uint32, stream []byte) {
	a, b, err := vh02SocketPair()
	if err != nil {
		panic(err)
	}
	srv := NewServer(vh02Attacher{})
	done := make(chan struct{})
	go func() {
		if path == "vec" {
			srv.Handle(b, b)
		} else {
			p := vh02Plain{b}
			srv.Handle(p, p)
		}
		close(done)
	}()
	res := vh02Session{Kind: "session", Path: path, MSize: msize, Stream: vhBytes(stream)}
	eff := msize
	if eff > maximumLength {
		eff = maximumLength
	}
	res.Oracle = vh02Oracles(stream, eff)
	body := vhLE32(msize)
	body = vhPutString(body, "9P2000.L.Google.7")
	a.Write(vhFrame(byte(msgTversion), 0xffff, body))
	typ, _, _, err := vhReadFrame(a, 5*time.Second)
	res.VerOK = err == nil && typ == byte(msgRversion)
	var wg sync.WaitGroup
	wg.Add(1)
	go func() {
		defer wg.Done()
		for off := 0; off < len(stream); {
			n := 1 + r.Intn(len(stream))
			if off+n > len(stream) {
				n = len(stream) - off
			}
			if _, err := a.Write(stream[off : off+n]); err != nil {
				break
			}
			off += n
		}
		a.CloseWrite()
	}()
	for {
		typ, tg, rbody, err := vhReadFrame(a, 10*time.Second)
		if err != nil {
			if ne, ok := err.(net.Error); ok && ne.Timeout() {
				res.Hang = true
			}
			break
		}
		rep := vh02Reply{Typ: int(typ), Tag: int(tg)}
		if typ == byte(msgRlerror) && len(rbody) >= 4 {
			rep.Errno = int(binary.LittleEndian.Uint32(rbody))
		}
		res.Replies = append(res.Replies, rep)
	}
	a.Close()
	wg.Wait()
	select {
	case <-done:
		res.Returned = true
	case <-time.After(10 * time.Second):
		res.Hang = true
	}
	vh02id++
	res.ID = vh02id
	o.Emit(res)
}

func TestVerifC02(t *testing.T) {
	o := vhOpen(t)
	defer o.Close()
	r := vhRand()
	thorough := vhThorough()

	o.Emit(map[string]interface{}{"kind": "registry", "id": 0, "entries": vh02Registry(),
		"headerLength": headerLength, "maximumLength": maximumLength, "noTag": uint16(noTag)})

	corpus := vh02Corpus(r)
	full := func() []vh02Step { return nil }

	// 1. every valid frame, alone, msize on both sides of its length
	for _, f := range corpus {
		n := uint32(len(f))
		mss := []uint32{n, n - 1, n + 1, 7, 65536, maximumLength, 1<<32 - 1}
		if !thorough {
			mss = []uint32{n, n - 1, 65536, 1<<32 - 1}
		}
		for _, ms := range mss {
			vh02Run(o, "valid", ms, f, full(), 1)
		}
	}
	// 2. size fields around the limits, body unchanged (stream shorter or longer than the size says)
	sizeReps := 8
	if thorough {
		sizeReps = len(corpus)
	}
	for i := 0; i < sizeReps; i++ {
		f := corpus[r.Intn(len(corpus))]
		for _, ms := range []uint32{64, 512, 65536} {
			for _, sz := range []uint32{0, 6, 7, 8, ms - 1, ms, ms + 1, maximumLength, maximumLength + 1, 1<<32 - 1, uint32(len(f)) - 1, uint32(len(f)) + 1} {
				vh02Run(o, "sizefield", ms, vh02SetSize(f, sz), full(), 2)
			}
		}
	}
	// 3. truncation of frames at every offset
	truncReps := 10
	if thorough {
		truncReps = len(corpus)
	}
	for i := 0; i < truncReps; i++ {
		f := corpus[(i*7+int(r.Int31n(3)))%len(corpus)]
		if len(f) > 120 {
			f = corpus[i%40]
		}
		for k := 0; k < len(f); k++ {
			vh02Run(o, "trunc", 65536, f[:k], full(), 2)
		}
	}
	// 4. mutated frames, alone and inside sequences of good frames (resynchronisation)
	nmut := 360
	if thorough {
		nmut = 8000
	}
	for i := 0; i < nmut; i++ {
		f := vh02Mutate(r, corpus[r.Intn(len(corpus))])
		if r.Intn(3) == 0 {
			f = vh02Mutate(r, f)
		}
		ms := []uint32{65536, 65536, 1024, uint32(len(f)), uint32(len(f)) + 3}[r.Intn(5)]
		if r.Intn(2) == 0 {
			vh02Run(o, "mutant", ms, f, full(), 1)
			continue
		}
		var stream []byte
		k := 1 + r.Intn(4)
		for j := 0; j < k; j++ {
			g := corpus[r.Intn(len(corpus))]
			if len(g) > 200 {
				g = corpus[r.Intn(40)]
			}
			if r.Intn(2) == 0 {
				g = vh02Mutate(r, g)
			}
			stream = append(stream, g...)
		}
		stream = append(stream, f...)
		stream = append(stream, corpus[r.Intn(40)]...)
		vh02Run(o, "sequence", ms, stream, full(), 12)
	}
	// 5. random bytes
	nrand := 100
	if thorough {
		nrand = 2000
	}
	for i := 0; i < nrand; i++ {
		b := make([]byte, r.Intn(64))
		r.Read(b)
		if len(b) >= 4 && r.Intn(2) == 0 {
			binary.LittleEndian.PutUint32(b, uint32(r.Intn(80)))
		}
		vh02Run(o, "random", 65536, b, full(), 8)
	}
	// 6. payloaders whose fixed part does not fit, and unknown types with a body to drain
	for _, typ := range []byte{byte(msgTwrite), byte(msgRread), byte(msgRreaddir)} {
		for n := 0; n <= 18; n++ {
			vh02Run(o, "payloader-short", 65536, append(vhFrame(typ, 77, make([]byte, n)), corpus[3]...), full(), 3)
		}
	}
	for _, n := range []int{0, 1, 100, 8191, 8192, 8193, 20000} {
		vh02Run(o, "unknown-type", 65536, append(vhFrame(3, 1234, make([]byte, n)), corpus[5]...), full(), 3)
	}
	// 7. frames too large for the Coq evaluation: observed numbers only
	for _, c := range [][3]uint32{
		{maximumLength, maximumLength, maximumLength}, {maximumLength, maximumLength, 1000}, {1<<32 - 1, maximumLength, maximumLength},
		{1<<32 - 1, maximumLength + 1, 64}, {1<<32 - 1, 1<<32 - 1, 64}, {1 << 20, 1 << 20, 1 << 20}, {1 << 20, 1<<20 + 1, 64},
		{maximumLength, maximumLength - 1, maximumLength + 10},
		// a client created WithMessageSize(> 4 MiB): frames between 4 MiB and msize are refused after the header
		{1<<32 - 1, maximumLength + 1, maximumLength + 20}, {8 << 20, maximumLength + 1, maximumLength + 20}, {8 << 20, 8 << 20, 64},
		{8 << 20, 5 << 20, 5<<20 + 3},
	} {
		for _, typ := range []byte{byte(msgTwrite), byte(msgTclunk), 3} {
			vh02Big(o, c[0], c[1], typ, int(c[2]))
		}
	}
	// 8. whole sessions against Server.Handle
	nsess := 40
	if thorough {
		nsess = 400
	}
	tagno := uint16(100)
	for i := 0; i < nsess; i++ {
		ms := []uint32{65536, 1024, 256, 8192}[r.Intn(4)]
		var stream []byte
		k := 2 + r.Intn(8)
		for j := 0; j < k; j++ {
			g := append([]byte{}, corpus[r.Intn(len(corpus))]...)
			if len(g) > 200 {
				g = append([]byte{}, corpus[r.Intn(40)]...)
			}
			switch r.Intn(5) {
			case 0, 1:
				g = vh02Mutate(r, g)
			case 2:
				if r.Intn(4) == 0 { // a size field that ends the connection
					g = vh02SetSize(g, []uint32{0, 6, ms + 1, maximumLength + 1, 1<<32 - 1}[r.Intn(5)])
				}
			}
			if len(g) >= 7 {
				if g[4] == byte(msgTversion) {
					g[4] = byte(msgTclunk)
				}
				tagno++
				binary.LittleEndian.PutUint16(g[5:], tagno) // distinct tags: no "tag in use" races
			}
			stream = append(stream, g...)
		}
		path := "vec"
		if i%2 == 1 {
			path = "generic"
		}
		vh02Sess(o, r, path, ms, stream)
	}
	_ = io.EOF
}
