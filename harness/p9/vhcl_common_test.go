package p9

// Helpers shared by the client-side property harnesses (C03, C10, C11): a stub
// File, a connection wrapper that forces the negotiated version, a real
// client/server pair over net.Pipe, error classification.

import (
	"errors"
	"io"
	"net"
	"sync"
	"syscall"
	"time"

	"github.com/hugelgupf/p9/linux"
)

// vhclStub implements File with ENOSYS everywhere; harness backends embed it.
type vhclStub struct{}

func (vhclStub) Walk(names []string) ([]QID, File, error) { return nil, nil, linux.ENOSYS }
func (vhclStub) WalkGetAttr([]string) ([]QID, File, AttrMask, Attr, error) {
	return nil, nil, AttrMask{}, Attr{}, linux.ENOSYS
}
func (vhclStub) StatFS() (FSStat, error)                         { return FSStat{}, linux.ENOSYS }
func (vhclStub) GetAttr(AttrMask) (QID, AttrMask, Attr, error)   { return QID{}, AttrMask{}, Attr{}, linux.ENOSYS }
func (vhclStub) SetAttr(SetAttrMask, SetAttr) error              { return linux.ENOSYS }
func (vhclStub) Close() error                                    { return nil }
func (vhclStub) Open(OpenFlags) (QID, uint32, error)             { return QID{}, 0, linux.ENOSYS }
func (vhclStub) ReadAt([]byte, int64) (int, error)               { return 0, linux.ENOSYS }
func (vhclStub) WriteAt([]byte, int64) (int, error)              { return 0, linux.ENOSYS }
func (vhclStub) SetXattr(string, []byte, XattrFlags) error       { return linux.ENOSYS }
func (vhclStub) GetXattr(string) ([]byte, error)                 { return nil, linux.ENOSYS }
func (vhclStub) ListXattrs() ([]string, error)                   { return nil, linux.ENOSYS }
func (vhclStub) RemoveXattr(string) error                        { return linux.ENOSYS }
func (vhclStub) FSync() error                                    { return linux.ENOSYS }
func (vhclStub) Lock(int, LockType, LockFlags, uint64, uint64, string) (LockStatus, error) {
	return LockStatusError, linux.ENOSYS
}
func (vhclStub) Create(string, OpenFlags, FileMode, UID, GID) (File, QID, uint32, error) {
	return nil, QID{}, 0, linux.ENOSYS
}
func (vhclStub) Mkdir(string, FileMode, UID, GID) (QID, error)                 { return QID{}, linux.ENOSYS }
func (vhclStub) Symlink(string, string, UID, GID) (QID, error)                 { return QID{}, linux.ENOSYS }
func (vhclStub) Link(File, string) error                                       { return linux.ENOSYS }
func (vhclStub) Mknod(string, FileMode, uint32, uint32, UID, GID) (QID, error) { return QID{}, linux.ENOSYS }
func (vhclStub) Rename(File, string) error                                     { return linux.ENOSYS }
func (vhclStub) RenameAt(string, File, string) error                           { return linux.ENOSYS }
func (vhclStub) UnlinkAt(string, uint32) error                                 { return linux.ENOSYS }
func (vhclStub) Readdir(uint64, uint32) (Dirents, error)                       { return nil, linux.ENOSYS }
func (vhclStub) Readlink() (string, error)                                     { return "", linux.ENOSYS }
func (vhclStub) Renamed(File, string)                                          {}

type vhclAttacher struct{ f func() (File, error) }

func (a vhclAttacher) Attach() (File, error) { return a.f() }

// vhclVerConn rewrites the version digit of the client's Tversion so that the
// real server negotiates version v (the client always asks for the highest).
// send() writes header, body and payload with separate Write calls.
type vhclVerConn struct {
	net.Conn
	v      int    // < 0: leave alone
	grant  uint32 // != 0: the msize the server is asked for (and so announces) instead of the client's
	mu     sync.Mutex
	writes int
}

func (c *vhclVerConn) Write(b []byte) (int, error) {
	c.mu.Lock()
	c.writes++
	n := c.writes
	c.mu.Unlock()
	if n == 2 && len(b) > 6 && (c.v >= 0 || c.grant != 0) {
		nb := append([]byte(nil), b...)
		if c.v >= 0 && b[len(b)-1] == '0'+byte(highestSupportedVersion) {
			nb[len(nb)-1] = '0' + byte(c.v)
		}
		if c.grant != 0 {
			nb[0], nb[1], nb[2], nb[3] = byte(c.grant), byte(c.grant>>8), byte(c.grant>>16), byte(c.grant>>24)
		}
		return c.Conn.Write(nb)
	}
	return c.Conn.Write(b)
}

type vhclPairT struct {
	c       *Client
	cconn   net.Conn
	sconn   net.Conn
	srvDone chan struct{}
}

// vhclPair starts a real Server on one end of a pipe and a real Client on the other.
func vhclPair(att Attacher, msize uint32, version int) (*vhclPairT, error) {
	return vhclPairGrant(att, msize, 0, version)
}

// vhclPairGrant: the client asks for msize, the server is made to announce grant (0: whatever it does by itself).
func vhclPairGrant(att Attacher, msize uint32, grant uint32, version int) (*vhclPairT, error) {
	cc, sc := net.Pipe()
	srv := NewServer(att)
	p := &vhclPairT{cconn: cc, sconn: sc, srvDone: make(chan struct{})}
	go func() { srv.Handle(sc, sc); close(p.srvDone) }()
	var opts []ClientOpt
	if msize != 0 {
		opts = append(opts, WithMessageSize(msize))
	}
	c, err := NewClient(&vhclVerConn{Conn: cc, v: version, grant: grant}, opts...)
	if err != nil {
		cc.Close()
		<-p.srvDone
		return nil, err
	}
	p.c = c
	return p, nil
}

func (p *vhclPairT) Close() {
	p.cconn.Close()
	select {
	case <-p.srvDone:
	case <-time.After(10 * time.Second):
	}
}

// vhclErr is the canonical rendering of an error returned by a client call.
type vhclErr struct {
	K string `json:"k"` // nil, eof (== io.EOF), errno (linux.Errno), conn (anything else)
	N uint32 `json:"n"`
}

func vhclClassify(err error) vhclErr {
	if err == nil {
		return vhclErr{K: "nil"}
	}
	if err == io.EOF {
		return vhclErr{K: "eof"}
	}
	var le linux.Errno
	if errors.As(err, &le) {
		return vhclErr{K: "errno", N: uint32(le)}
	}
	var se syscall.Errno
	if errors.As(err, &se) {
		return vhclErr{K: "sys", N: uint32(se)}
	}
	return vhclErr{K: "conn"}
}

// vhclWithin runs f and reports whether it returned within d.
func vhclWithin(d time.Duration, f func()) bool {
	done := make(chan struct{})
	go func() { f(); close(done) }()
	select {
	case <-done:
		return true
	case <-time.After(d):
		return false
	}
}
