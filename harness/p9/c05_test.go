package p9

// C05 harness: File lifecycle.  Real Server.Handle over net.Pipe against the
// counting/path backend vhfs: scripted failures at chosen backend-call indexes
// (incl. walks failing at component i and Walk results with a wrong QID
// count), connection cuts after every byte of short sessions and random bytes
// of long ones, fid replacement, xattr fids, create-rebinding; gated scenarios
// (rename vs parked Close, rename vs disconnect) and a panic injected into the
// Renamed notification of a directory rename followed by a disconnect.

import (
	"testing"
)

func vh05Corpus() [][]vhsOp {
	at := func(c, f int, names ...int) vhsOp { return vhsOp{K: "attach", A: []int{c, f}, Names: names} }
	wk := func(c, f, nf int, names ...int) vhsOp { return vhsOp{K: "walk", A: []int{c, f, nf}, Names: names} }
	wg := func(c, f, nf int, names ...int) vhsOp { return vhsOp{K: "walk", A: []int{c, f, nf}, Names: names, G: true} }
	o := func(k string, a ...int) vhsOp { return vhsOp{K: k, A: a} }
	return [][]vhsOp{
		// xattr fid borrowing the origin's File: clunk the xattr fid first, then use and clunk the origin
		{at(0, 0), o("mk", 0, 0, 0, 1), wk(0, 0, 1, 1), o("xattrwalk", 0, 1, 2), o("io", 0, 0, 2), o("clunk", 0, 2), o("getattr", 0, 1), o("clunk", 0, 1), o("clunk", 0, 0)},
		// origin clunked first: the xattr fid keeps the File alive
		{at(0, 0), o("mk", 0, 0, 0, 1), wk(0, 0, 1, 1), o("xattrwalk", 0, 1, 2), o("clunk", 0, 1), o("getattr", 0, 2), o("io", 0, 0, 2), o("clunk", 0, 2), o("clunk", 0, 0)},
		// xattr fid replaces its origin's fid; xattr of xattr; clone of an xattr fid
		{at(0, 0), o("xattrwalk", 0, 0, 0), o("getattr", 0, 0), o("xattrwalk", 0, 0, 1), wk(0, 1, 2), o("getattr", 0, 2), o("clunk", 0, 0), o("getattr", 0, 1)},
		// multi-step walk failing at component 0, 1, 2 and succeeding
		{at(0, 0), o("mk", 0, 0, 0, 0), wk(0, 0, 1, 0), o("mk", 0, 0, 1, 1), wk(0, 1, 2, 1), o("mk", 0, 0, 2, 2),
			wk(0, 0, 3, 3, 1, 2), wk(0, 0, 3, 0, 3, 2), wk(0, 0, 3, 0, 1, 3), wg(0, 0, 3, 0, 1, 2), wk(0, 0, 3, 0, 1, 2, 3), o("getattr", 0, 3)},
		// fid replacement by walk, clone onto itself, attach over a bound fid
		{at(0, 0), o("mk", 0, 0, 0, 0), wk(0, 0, 1, 0), wk(0, 0, 1, 0), wk(0, 1, 1), wg(0, 1, 1), at(0, 1), at(0, 0, 0), o("getattr", 0, 0), o("getattr", 0, 1)},
		// create rebinding, walk through a file, open twice, EBUSY clone
		{at(0, 0), wk(0, 0, 1), o("create", 0, 1, 0, 2), o("io", 1, 0, 1), o("io", 0, 0, 1), wk(0, 1, 2, 0), wk(0, 1, 1), wk(0, 1, 2), o("open", 0, 2, 0), o("open", 0, 2, 0), o("clunk", 0, 1), o("io", 0, 0, 2)},
		// attach with a path, failing and succeeding; two connections sharing the tree; disconnect of one
		{at(0, 0, 0, 1), at(0, 0), o("mk", 0, 0, 0, 0), wk(0, 0, 1, 0), o("mk", 0, 0, 1, 1), at(1, 0, 0, 1), at(1, 1, 0, 2), o("getattr", 1, 0), o("stop", 0), o("getattr", 1, 0), wk(1, 0, 2)},
		// clone of a fid whose entry was unlinked (no addChild, but the parent reference is still taken), both clunked, directory used after
		{at(0, 0), o("mk", 0, 0, 0, 1), wk(0, 0, 1, 1), o("unlinkat", 0, 0, 1), wk(0, 1, 2), wg(0, 1, 3), o("clunk", 0, 2), o("clunk", 0, 1), o("getattr", 0, 0), o("clunk", 0, 3), o("getattr", 0, 0), o("clunk", 0, 0)},
		// remove: of a root, of a file, of an already removed file; xattrcreate then clunk
		{at(0, 0), o("remove", 0, 0), at(0, 0), wk(0, 0, 1), o("create", 0, 1, 0, 2), wk(0, 0, 2, 0), o("remove", 0, 1), o("remove", 0, 2), wk(0, 0, 3), o("xattrcreate", 0, 3), o("io", 1, 0, 3), o("clunk", 0, 3)},
	}
}

func TestVerifC05(t *testing.T) {
	out := vhOpen(t)
	defer out.Close()
	r := vhRand()
	thorough := vhThorough()

	emit := func(rec map[string]interface{}) {
		out.Emit(rec)
		out.Flush()
	}
	// calls returns the backend calls (tags) of a history without injection
	calls := func(ops []vhsOp, wga bool) []int {
		rec := vhsReplay("c05", ops, wga, nil, false, -1, 0, true)
		var tags []int
		for _, st := range rec["steps"].([]vhsStep) {
			for _, k := range st.Log {
				tags = append(tags, k[0])
			}
		}
		emit(rec)
		return tags
	}

	// 1. fixed corpus: every history plain, with both walk flavours, and a failure at EVERY backend call index
	//    (EIO at every call; a QID list of the wrong length at every Walk / WalkGetAttr)
	for _, ops := range vh05Corpus() {
		if vhsTooStuck() {
			break
		}
		for _, wga := range []bool{true, false} {
			for idx, tag := range calls(ops, wga) {
				if vhsTooStuck() {
					break
				}
				if tag == 10 {
					continue // Renamed has no result
				}
				emit(vhsReplay("c05", ops, wga, map[int]int{idx: 5}, false, -1, 0, true))
				if tag == 1 || tag == 2 {
					emit(vhsReplay("c05", ops, wga, map[int]int{idx: vhfsBadQ}, false, -1, 0, true))
				}
			}
		}
	}

	// 1b. gated: a rename runs while the last DecRef of a fid on the entry is parked in the backend's Close
	for _, wga := range []bool{true, false} {
		for _, dir := range []bool{true, false} {
			for _, same := range []bool{true, false} {
				emit(vhgCloseVsRename(wga, dir, same, false))
				emit(vhgCloseVsRename(wga, dir, same, true))
			}
			emit(vhgRenameVsDisconnect(wga, dir))
		}
	}

	// 1c. fault: the backend panics inside a Renamed notification below a renamed directory; then everything disconnects
	for _, wga := range []bool{true, false} {
		for _, deep := range []bool{false, true} {
			for _, cross := range []bool{false, true} {
				emit(vhgRenamedPanic(wga, deep, cross))
			}
		}
	}

	// 2. short sessions cut after every byte of every frame
	nshort := 2
	if thorough {
		nshort = 12
	}
	for i := 0; i < nshort && !vhsTooStuck(); i++ {
		ops := vhgHistory(r, 7, "life", i%2 == 0, 1, 4, 2)
		for at := range ops {
			_, m, _ := vhsNewSess(true, nil).build(ops[at])
			if m == nil {
				continue
			}
			for n := 0; n < len(vhsFrameOf(m)); n++ {
				emit(vhsReplay("c05", ops, i%2 == 0, nil, false, at, n, true))
			}
		}
	}

	// 3. random histories: plain, injected failures, random cuts; some left incomplete (no disconnect)
	nhist := 30
	if thorough {
		nhist = 400
	}
	for i := 0; i < nhist && !vhsTooStuck(); i++ {
		wga := r.Intn(2) == 0
		ops := vhgHistory(r, 15+r.Intn(25), "life", wga, 2, 6, 3)
		n := len(calls(ops, wga))
		ninj := 3
		if thorough {
			ninj = 8
		}
		for j := 0; j < ninj && n > 0; j++ {
			inj := map[int]int{}
			for k := 0; k <= r.Intn(2); k++ {
				code := []int{5, 5, 2, vhfsBadQ}[r.Intn(4)]
				inj[r.Intn(n)] = code
			}
			emit(vhsReplay("c05", ops, wga, inj, false, -1, 0, true))
		}
		at := r.Intn(len(ops))
		emit(vhsReplay("c05", ops, wga, nil, false, at, 1+r.Intn(12), true))
		if i%5 == 0 {
			emit(vhsReplay("c05", ops, wga, nil, false, -1, 0, false))
		}
	}
}
