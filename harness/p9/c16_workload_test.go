package p9

// C16: random concurrent workloads (2..64 client goroutines over 1..8 connections) on the
// gated/monitoring in-memory backend, with scheduling perturbation in every backend call.
// Emits: the overlap monitor's event log, per-client reply sequences (concurrent and alone),
// and answered/issued counts under a watchdog.

import (
	"errors"
	"fmt"
	"hash/fnv"
	"io"
	"math/rand"
	"os"
	"runtime"
	"sort"
	"sync"
	"sync/atomic"
	"testing"
	"time"

	"github.com/hugelgupf/p9/linux"
)

type vh16Op struct {
	Kind string `json:"k"`
	A    string `json:"a,omitempty"`
	B    string `json:"b,omitempty"`
	Sub  bool   `json:"sub,omitempty"`  // act in the client's subdirectory
	Sub2 bool   `json:"sub2,omitempty"` // rename target directory is the subdirectory
}

type vh16Obs struct {
	Kind     string     `json:"kind"` // log | iso | answered
	Run      int        `json:"run"`
	Cfg      string     `json:"cfg"`
	Events   []vhgEvent `json:"events,omitempty"`
	Client   int        `json:"client"`
	Conc     []int      `json:"conc,omitempty"`
	Alone    []int      `json:"alone,omitempty"`
	Ops      []vh16Op   `json:"ops,omitempty"`
	Issued   int        `json:"issued"`
	Answered int        `json:"answered"`
	Shutdown bool       `json:"shutdown"`
}

func vh16Errno(err error) int {
	if err == nil {
		return 0
	}
	if errors.Is(err, io.EOF) {
		return 0
	}
	return int(linux.ExtractErrno(err))
}

func vh16Hash(s string) int {
	h := fnv.New32a()
	h.Write([]byte(s))
	return int(h.Sum32()%100000) + 1000
}

var vh16Names = []string{"a", "b", "c", "d"}

func vh16Gen(rng *rand.Rand, n int, cross bool) []vh16Op {
	kinds := []string{"create", "write", "read", "getattr", "setattr", "mkdir", "unlink", "rename", "readdir", "walk", "clone", "symlink", "readlink"}
	var ops []vh16Op
	for i := 0; i < n; i++ {
		o := vh16Op{Kind: kinds[rng.Intn(len(kinds))], A: vh16Names[rng.Intn(4)], B: vh16Names[rng.Intn(4)], Sub: rng.Intn(3) == 0}
		if o.Kind == "rename" && cross {
			o.Sub2 = rng.Intn(2) == 0
		} else {
			o.Sub2 = o.Sub
		}
		ops = append(ops, o)
	}
	return ops
}

// vh16Do performs one operation from the client's directory fid; every request it issues counts.
func vh16Do(dir File, o vh16Op, issued, answered *int64) int {
	call := func(f func() error) error {
		atomic.AddInt64(issued, 1)
		err := f()
		atomic.AddInt64(answered, 1)
		return err
	}
	walk := func(from File, names ...string) (File, error) {
		var f File
		err := call(func() (e error) { _, f, e = from.Walk(names); return })
		vhgDefuse(f)
		return f, err
	}
	base, err := walk(dir)
	if err != nil {
		return 900 + vh16Errno(err)
	}
	defer call(base.Close)
	if o.Sub {
		sb, err := walk(base, "sub")
		if err != nil {
			return 800 + vh16Errno(err)
		}
		call(base.Close)
		base = sb
	}
	switch o.Kind {
	case "create":
		var nf File
		err := call(func() (e error) { nf, _, _, e = base.Create(o.A, ReadWrite, 0o644, 0, 0); return })
		if err == nil {
			// on the client Create re-points base at the new file; nf is that file
			_ = nf
		}
		return vh16Errno(err)
	case "mkdir":
		return vh16Errno(call(func() (e error) { _, e = base.Mkdir(o.A+"dir", 0o755, 0, 0); return }))
	case "symlink":
		return vh16Errno(call(func() (e error) { _, e = base.Symlink(o.B, o.A+"lnk", 0, 0); return }))
	case "unlink":
		return vh16Errno(call(func() error { return base.UnlinkAt(o.A, 0) }))
	case "rename":
		target := base
		if o.Sub2 != o.Sub {
			var err error
			if o.Sub2 {
				target, err = walk(base, "sub")
			} else {
				target, err = walk(dir)
			}
			if err != nil {
				return 700 + vh16Errno(err)
			}
			defer call(target.Close)
		}
		return vh16Errno(call(func() error { return base.RenameAt(o.A, target, o.B) }))
	case "readdir":
		f, err := walk(base)
		if err != nil {
			return 600 + vh16Errno(err)
		}
		defer call(f.Close)
		if err := call(func() (e error) { _, _, e = f.Open(ReadOnly); return }); err != nil {
			return 500 + vh16Errno(err)
		}
		var ents Dirents
		if err := call(func() (e error) { ents, e = f.Readdir(0, 1000); return }); err != nil {
			return 400 + vh16Errno(err)
		}
		var names []string
		for _, e := range ents {
			names = append(names, e.Name)
		}
		sort.Strings(names)
		return vh16Hash(fmt.Sprint(names))
	case "clone":
		f, err := walk(base)
		if err != nil {
			return vh16Errno(err)
		}
		call(f.Close)
		return 0
	}
	// operations on the entry o.A
	name := o.A
	if o.Kind == "readlink" {
		name = o.A + "lnk"
	}
	f, err := walk(base, name)
	if err != nil {
		return 300 + vh16Errno(err)
	}
	defer call(f.Close)
	switch o.Kind {
	case "walk":
		return 0
	case "getattr":
		var attr Attr
		if err := call(func() (e error) { _, _, attr, e = f.GetAttr(AttrMaskAll); return }); err != nil {
			return vh16Errno(err)
		}
		return 1000 + int(attr.Size)
	case "setattr":
		return vh16Errno(call(func() error { return f.SetAttr(SetAttrMask{Size: true}, SetAttr{Size: 1}) }))
	case "readlink":
		var s string
		if err := call(func() (e error) { s, e = f.Readlink(); return }); err != nil {
			return vh16Errno(err)
		}
		return vh16Hash(s)
	case "write", "read":
		if err := call(func() (e error) { _, _, e = f.Open(ReadWrite); return }); err != nil {
			return 200 + vh16Errno(err)
		}
		if o.Kind == "write" {
			return vh16Errno(call(func() (e error) { _, e = f.WriteAt([]byte("x"+o.B), 0); return }))
		}
		buf := make([]byte, 16)
		var n int
		if err := call(func() (e error) { n, e = f.ReadAt(buf, 0); return }); err != nil && !errors.Is(err, io.EOF) {
			return vh16Errno(err)
		}
		return vh16Hash(string(buf[:n]))
	}
	return -1
}

func vh16Seed(fs *vhgFS, nclients int) {
	for c := 0; c < nclients; c++ {
		d := fmt.Sprintf("/c%d", c)
		fs.add(d, ModeDirectory|0o755, "")
		fs.add(d+"/sub", ModeDirectory|0o755, "")
		fs.add(d+"/a", ModeRegular|0o644, "init")
	}
	fs.add("/shared", ModeDirectory|0o755, "")
	fs.add("/shared/sub", ModeDirectory|0o755, "")
	fs.add("/shared/a", ModeRegular|0o644, "init")
}

// vh16Run runs the given clients' operation lists concurrently (client i on connection i % nconn);
// clients >= nclients-shared work in /shared.  Returns replies per client, counts, the event log.
func vh16Run(ops [][]vh16Op, nconn, shared int, only int, keepLog bool) (replies [][]int, issued, answered int64, shutdown bool, events []vhgEvent, err error) {
	fs := vhgNewFS()
	fs.keepLog = keepLog
	vh16Seed(fs, len(ops))
	atomic.StoreUint32(&fs.yield, 1)
	env, err := vhgStart(fs, nconn)
	if err != nil {
		return nil, 0, 0, false, nil, err
	}
	roots := make([]File, nconn)
	for i := range roots {
		if roots[i], err = vhgAttach(env.clients[i]); err != nil {
			return nil, 0, 0, false, nil, err
		}
	}
	replies = make([][]int, len(ops))
	var wg sync.WaitGroup
	for c := range ops {
		if only >= 0 && c != only {
			continue
		}
		wg.Add(1)
		go func(c int) {
			defer wg.Done()
			dirName := fmt.Sprintf("c%d", c)
			if c >= len(ops)-shared {
				dirName = "shared"
			}
			atomic.AddInt64(&issued, 1)
			_, dir, err := roots[c%nconn].Walk([]string{dirName})
			vhgDefuse(dir)
			atomic.AddInt64(&answered, 1)
			if err != nil {
				replies[c] = []int{-2}
				return
			}
			for _, o := range ops[c] {
				replies[c] = append(replies[c], vh16Do(dir, o, &issued, &answered))
			}
			atomic.AddInt64(&issued, 1)
			dir.Close()
			atomic.AddInt64(&answered, 1)
		}(c)
	}
	if only < 0 {
		// Tflush traffic on every connection, naming tags that are (often) in flight: a flush waits for the
		// request it names and must itself be answered (lost wake-ups show as requests never answered)
		for ci := range env.clients {
			wg.Add(1)
			go func(ci int) {
				defer wg.Done()
				for k := 0; k < 24; k++ {
					atomic.AddInt64(&issued, 1)
					env.clients[ci].sendRecv(&tflush{OldTag: tag((k*7 + ci) % 12)}, &rflush{})
					atomic.AddInt64(&answered, 1)
					if k%3 == 0 {
						runtime.Gosched()
					}
				}
			}(ci)
		}
	}
	done := make(chan struct{})
	go func() { wg.Wait(); close(done) }()
	select {
	case <-done:
	case <-time.After(60 * time.Second): // watchdog: far above the few ms a request takes
	}
	shutdown = env.stop(20 * time.Second)
	i, a := atomic.LoadInt64(&issued), atomic.LoadInt64(&answered)
	return replies, i, a, shutdown, fs.snapshot(), nil
}

func TestVerifC16(t *testing.T) {
	out := vhOpen(t)
	defer out.Close()
	rng := vhRand()
	runs := 6
	if vhThorough() {
		runs = 60
	}
	if os.Getenv("VERIF_C16_RUNS") != "" {
		fmt.Sscan(os.Getenv("VERIF_C16_RUNS"), &runs)
	}
	sizes := []int{2, 3, 4, 8, 16, 32, 64}
	for r := 0; r < runs; r++ {
		nclients := sizes[rng.Intn(len(sizes))]
		if r == 0 {
			nclients = 64
		}
		nconn := 1 + rng.Intn(8)
		if nconn > nclients {
			nconn = nclients
		}
		cross := r%2 == 1
		shared := 0
		if nclients >= 4 {
			shared = nclients / 4
		}
		nops := 6 + rng.Intn(10)
		if nclients >= 32 {
			nops = 4 + rng.Intn(4)
		}
		ops := make([][]vh16Op, nclients)
		for c := range ops {
			ops[c] = vh16Gen(rng, nops, cross)
		}
		cfg := fmt.Sprintf("clients=%d conns=%d cross=%v shared=%d ops=%d", nclients, nconn, cross, shared, nops)
		replies, issued, answered, shutdown, events, err := vh16Run(ops, nconn, shared, -1, true)
		if err != nil {
			t.Fatalf("run %d: %v", r, err)
		}
		out.Emit(vh16Obs{Kind: "answered", Run: r, Cfg: cfg, Issued: int(issued), Answered: int(answered), Shutdown: shutdown})
		const chunk = 3000
		if len(events) > 4000 {
			events = events[:4000] // the monitor checks a prefix of very long logs (a prefix of a log is a log)
		}
		out.Emit(vh16Obs{Kind: "log", Run: r, Cfg: cfg, Events: events})
		// isolation: each disjoint client alone, on a fresh server with the same initial state
		check := nclients - shared
		if check > 6 {
			check = 6
		}
		for c := 0; c < check; c++ {
			alone, _, _, _, _, err := vh16Run(ops, 1, shared, c, false)
			if err != nil {
				t.Fatalf("alone run %d/%d: %v", r, c, err)
			}
			out.Emit(vh16Obs{Kind: "iso", Run: r, Cfg: cfg, Client: c, Conc: replies[c], Alone: alone[c], Ops: ops[c]})
		}
	}
}

// TestVerifC16Stall: a backend Close that does not return must not stall other requests of the
// same connection (fid table lock not held across Close).  "Stalled" is inferred by timeout only
// in the direction "it should have been answered", confirmed 3 x 1.1 s.
func TestVerifC16Stall(t *testing.T) {
	out := vhOpen(t)
	defer out.Close()
	answered := false
	for try := 0; try < 3 && !answered; try++ {
		fs := vhgNewFS()
		vh16Seed(fs, 1)
		env, err := vhgStart(fs, 1)
		if err != nil {
			t.Fatal(err)
		}
		root, err := vhgAttach(env.clients[0])
		if err != nil {
			t.Fatal(err)
		}
		_, f1, err := root.Walk([]string{"c0", "a"})
		vhgDefuse(f1)
		if err != nil {
			t.Fatal(err)
		}
		_, f2, err := root.Walk([]string{"c0", "sub"})
		vhgDefuse(f2)
		if err != nil {
			t.Fatal(err)
		}
		g := fs.arm("Close", "/c0/a", 0)
		d1, d2 := make(chan struct{}), make(chan struct{})
		go func() { f1.Close(); close(d1) }()
		select {
		case <-g.reached:
		case <-time.After(10 * time.Second):
			t.Fatal("Close not reached")
		}
		go func() { f2.GetAttr(AttrMaskAll); close(d2) }()
		select {
		case <-d2:
			answered = true
		case <-time.After(1100 * time.Millisecond):
		}
		close(g.release)
		<-d1
		<-d2
		env.stop(10 * time.Second)
	}
	out.Emit(map[string]interface{}{"kind": "stall", "answered": answered, "what": "Tgetattr on another fid of the connection while the backend holds Tclunk's Close"})
}

// TestVerifC16RenameDisconnect: a rename inside one directory while the only other reference to
// the renamed entry (a fid of another connection) goes away with its connection.  The rename
// must be answered (no re-locking of the directory's childMu under renameMu.W).
func TestVerifC16RenameDisconnect(t *testing.T) {
	out := vhOpen(t)
	defer out.Close()
	fs := vhgNewFS()
	vh16Seed(fs, 1)
	env, err := vhgStart(fs, 2)
	if err != nil {
		t.Fatal(err)
	}
	r0, err := vhgAttach(env.clients[0])
	if err != nil {
		t.Fatal(err)
	}
	r1, err := vhgAttach(env.clients[1])
	if err != nil {
		t.Fatal(err)
	}
	_, dir, err := r0.Walk([]string{"c0"})
	vhgDefuse(dir)
	if err != nil {
		t.Fatal(err)
	}
	_, vanishing, err := r1.Walk([]string{"c0", "a"}) // the fid that will vanish with connection 1
	if err != nil {
		t.Fatal(err)
	}
	vhgDefuse(vanishing)
	g := fs.arm("Renamed", "/c0/a", 0)
	done := make(chan struct{})
	go func() { dir.RenameAt("a", dir, "z"); close(done) }()
	answered, reached := false, false
	select {
	case <-g.reached:
		reached = true
	case <-done:
		answered = true
	case <-time.After(10 * time.Second):
	}
	if reached {
		env.conns[1].Close() // connection 1 goes away: stop() drops its fids
		select {
		case <-env.done[1]:
		case <-time.After(10 * time.Second):
		}
		close(g.release)
		select {
		case <-done:
			answered = true
		case <-time.After(3300 * time.Millisecond): // 3 x 1.1 s
		}
	}
	out.Emit(map[string]interface{}{"kind": "renamedisc", "answered": answered, "reached": reached,
		"what": "Trenameat a->z in /c0 while connection 1, holding the only fid on /c0/a, disconnects during the Renamed callback"})
	if answered {
		env.stop(5 * time.Second)
	}
}

// TestVerifC16RenameTwoFids: a rename inside one directory that names the directory through two
// different fids, with a live fid on the renamed entry, must be answered.
// TestVerifC16 probes share vh16Probe: run fn, report whether it returned within 3 x 1.1 s.
func vh16Probe(fn func()) bool {
	done := make(chan struct{})
	go func() { fn(); close(done) }()
	select {
	case <-done:
		return true
	case <-time.After(3300 * time.Millisecond):
		return false
	}
}

func TestVerifC16Probes(t *testing.T) {
	out := vhOpen(t)
	defer out.Close()
	{ // rename through two fids of one directory
		fs := vhgNewFS()
		vh16Seed(fs, 1)
		env, err := vhgStart(fs, 1)
		if err != nil {
			t.Fatal(err)
		}
		root, _ := vhgAttach(env.clients[0])
		_, d1, err1 := root.Walk([]string{"c0"})
		vhgDefuse(d1)
		_, d2, err2 := root.Walk([]string{"c0"})
		vhgDefuse(d2)
		_, held3, err3 := root.Walk([]string{"c0", "a"}) // a live fid on the entry being renamed
		vhgDefuse(held3)
		if err1 != nil || err2 != nil || err3 != nil {
			t.Fatal(err1, err2, err3)
		}
		ok := vh16Probe(func() { d1.RenameAt("a", d2, "z") })
		out.Emit(map[string]interface{}{"kind": "probe", "name": "rename-two-fids", "answered": ok,
			"what": "Trenameat a->z with old and new directory given by two fids of /c0 while a third fid is on /c0/a"})
		if ok {
			env.stop(5 * time.Second)
		}
	}
	{ // isolation of data: two reads of different files in flight on one connection after a zero-byte end-of-file read
		ok, valid, detail := vhReadAfterEOFProbe(8)
		if !valid {
			t.Fatalf("C16 read-after-EOF probe could not run: %s", detail)
		}
		out.Emit(map[string]interface{}{"kind": "probe", "name": "reads-after-eof-read", "answered": ok, "detail": detail,
			"what": "after a zero-byte read at end of file, a read held in the backend and a second read of another file on the same connection: each must deliver its own file's bytes"})
	}
	{ // clone-with-attributes (Twalkgetattr, no names) held in Walk(nil) while a writer queues on the same node
		ok := false
		for try := 0; try < 3 && !ok; try++ {
			fs := vhgNewFS()
			vh16Seed(fs, 1)
			env, err := vhgStart(fs, 2)
			if err != nil {
				t.Fatal(err)
			}
			r0, _ := vhgAttach(env.clients[0])
			r1, _ := vhgAttach(env.clients[1])
			_, f1, err1 := r0.Walk([]string{"c0", "a"})
			vhgDefuse(f1)
			_, f2, err2 := r1.Walk([]string{"c0", "a"})
			vhgDefuse(f2)
			if err1 != nil || err2 != nil {
				t.Fatal(err1, err2)
			}
			g := fs.arm("Walk", "/c0/a", 0)
			dA, dB := make(chan struct{}), make(chan struct{})
			go func() { f1.WalkGetAttr(nil); close(dA) }()
			select {
			case <-g.reached:
			case <-time.After(10 * time.Second):
				t.Fatal("Walk(nil) not reached")
			}
			go func() { f2.SetAttr(SetAttrMask{Size: true}, SetAttr{Size: 1}); close(dB) }()
			time.Sleep(300 * time.Millisecond) // let the writer queue on the node lock (it cannot be observed)
			close(g.release)
			ok = vh16Probe(func() { <-dA; <-dB })
			if ok {
				env.stop(5 * time.Second)
			}
		}
		out.Emit(map[string]interface{}{"kind": "probe", "name": "clone-getattr-vs-writer", "answered": ok,
			"what": "Twalkgetattr with no names held in Walk(nil) while Tsetattr on the same path (other connection) queues for the node lock; then released"})
	}
	{ // a backend panic inside the walk fallback's GetAttr (EFAULT) must not leave the child's node locked
		fs := vhgNewFS()
		vh16Seed(fs, 1)
		env, err := vhgStart(fs, 1)
		if err != nil {
			t.Fatal(err)
		}
		root, _ := vhgAttach(env.clients[0])
		_, dir, err1 := root.Walk([]string{"c0"})
		vhgDefuse(dir)
		_, f, err2 := root.Walk([]string{"c0", "a"})
		vhgDefuse(f)
		if err1 != nil || err2 != nil {
			t.Fatal(err1, err2)
		}
		fs.mu.Lock()
		fs.panicOn = &vhgGate{method: "GetAttr", path: "/c0/a"}
		fs.mu.Unlock()
		_, _, _, _, werr := dir.WalkGetAttr([]string{"a"})
		ok := vh16Probe(func() { f.SetAttr(SetAttrMask{Size: true}, SetAttr{Size: 1}) })
		out.Emit(map[string]interface{}{"kind": "probe", "name": "panic-in-walk-getattr", "answered": ok, "walk_errno": vh16Errno(werr),
			"what": "backend panics in GetAttr of the Walk+GetAttr fallback (Twalkgetattr a from /c0); then Tsetattr on /c0/a through another fid"})
		if ok {
			env.stop(5 * time.Second)
		}
	}
	{ // a backend panic inside the Renamed notification of a fid below a renamed directory must not leave childMu locked
		fs := vhgNewFS()
		vh16Seed(fs, 1)
		fs.add("/c0/sub/f", ModeRegular|0o644, "x")
		fs.dirMove = true
		env, err := vhgStart(fs, 1)
		if err != nil {
			t.Fatal(err)
		}
		root, _ := vhgAttach(env.clients[0])
		_, dir, err1 := root.Walk([]string{"c0"})
		vhgDefuse(dir)
		_, below, err2 := root.Walk([]string{"c0", "sub", "f"})
		vhgDefuse(below)
		if err1 != nil || err2 != nil {
			t.Fatal(err1, err2)
		}
		fs.mu.Lock()
		fs.panicOn = &vhgGate{method: "Renamed", path: "/c0/sub/f"}
		fs.mu.Unlock()
		rerr := dir.RenameAt("sub", dir, "sub2")
		ok := vh16Probe(func() { below.Close() })
		unclosed := -1
		if ok {
			// after the connection is gone every File the backend handed out must have been closed
			env.stop(5 * time.Second)
			closed := map[int]bool{}
			for _, e := range fs.snapshot() {
				if e.Enter && e.Method == "Close" {
					closed[e.Handle] = true
				}
			}
			fs.mu.Lock()
			unclosed = fs.nextH - len(closed)
			fs.mu.Unlock()
		}
		out.Emit(map[string]interface{}{"kind": "probe", "name": "panic-in-renamed-notification", "answered": ok, "rename_errno": vh16Errno(rerr), "unclosed": unclosed,
			"what": "backend panics in Renamed of a fid below a renamed directory (Trenameat sub->sub2 in /c0); then Tclunk of that fid, then disconnect"})
	}
	// File lifecycle under rename: the Close of a clunked fid is parked in the backend while a rename
	// touches its entry (file rename) / its directory (directory rename); the monitor log is checked.
	for _, dirRename := range []bool{false, true} {
		fs := vhgNewFS()
		vh16Seed(fs, 1)
		fs.add("/c0/sub/f", ModeRegular|0o644, "x")
		fs.dirMove = true
		env, err := vhgStart(fs, 2)
		if err != nil {
			t.Fatal(err)
		}
		r0, _ := vhgAttach(env.clients[0])
		r1, _ := vhgAttach(env.clients[1])
		_, dir, err1 := r0.Walk([]string{"c0"})
		vhgDefuse(dir)
		target := []string{"c0", "a"}
		if dirRename {
			target = []string{"c0", "sub", "f"}
		}
		_, victim, err2 := r1.Walk(target)
		vhgDefuse(victim)
		if err1 != nil || err2 != nil {
			t.Fatal(err1, err2)
		}
		gp := "/c0/a"
		if dirRename {
			gp = "/c0/sub/f"
		}
		g := fs.arm("Close", gp, 0)
		dC := make(chan struct{})
		go func() { victim.Close(); close(dC) }()
		select {
		case <-g.reached:
		case <-time.After(10 * time.Second):
			t.Fatal("Close not reached")
		}
		from := fs.logLen()
		name := "lifecycle-file-rename"
		ok := true
		if dirRename {
			name = "lifecycle-dir-rename"
			ok = vh16Probe(func() { dir.RenameAt("sub", dir, "sub2") })
		} else {
			ok = vh16Probe(func() { dir.RenameAt("a", dir, "z") })
		}
		close(g.release)
		<-dC
		ev := fs.snapshot()
		out.Emit(vh16Obs{Kind: "log", Run: -1, Cfg: name, Events: ev})
		_ = from
		out.Emit(map[string]interface{}{"kind": "probe", "name": name, "answered": ok, "what": "rename answered while a clunked fid's Close is parked in the backend"})
		if ok {
			env.stop(5 * time.Second)
		}
	}
	vh16QueuedWriter(out)
}

// TestVerifC16Race: the workload alone (no isolation re-runs, short logs), meant to run under -race.
func TestVerifC16Race(t *testing.T) {
	out := vhOpen(t)
	defer out.Close()
	rng := vhRandSeed(vhSeed() + 77)
	runs := 4
	if os.Getenv("VERIF_C16_RUNS") != "" {
		fmt.Sscan(os.Getenv("VERIF_C16_RUNS"), &runs)
	}
	for r := 0; r < runs; r++ {
		nclients := []int{4, 8, 16, 32}[rng.Intn(4)]
		nconn := 1 + rng.Intn(4)
		ops := make([][]vh16Op, nclients)
		for c := range ops {
			ops[c] = vh16Gen(rng, 5+rng.Intn(4), r%2 == 1)
		}
		_, issued, answered, shutdown, _, err := vh16Run(ops, nconn, nclients/4, -1, false)
		if err != nil {
			t.Fatalf("run %d: %v", r, err)
		}
		out.Emit(vh16Obs{Kind: "answered", Run: r, Cfg: fmt.Sprintf("race clients=%d conns=%d", nclients, nconn), Issued: int(issued), Answered: int(answered), Shutdown: shutdown})
	}
}
