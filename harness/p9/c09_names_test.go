package p9

// C09 correspondence harness: hostile strings in every name position of every
// name-bearing request, attach names, walks through files / symlinks / devices.

import (
	"fmt"
	"strings"
	"testing"
)

func vh09Corpus() [][]vhsrvReq {
	nf := uint64(noFID)
	v := vhsrvReq{T: "Tversion", N: []uint64{1 << 20}, S: vhsrvH("9P2000.L")}
	at := vhsrvReq{T: "Tattach", N: []uint64{0, nf, 0}, S: vhsrvH("u", "")}
	var hs [][]vhsrvReq
	hostile := append([]string{}, vhsrvHostileNames...)
	hostile = append(hostile, strings.Repeat("a", 65535), strings.Repeat("b", 65534)+"/", "ok\x00/..", "d1")
	// high bytes around '/': checkSafeName works on BYTES. A 0x2f anywhere (also where a UTF-8 continuation byte is
	// expected) must be refused; multi-byte code points that merely look like a slash must be accepted.
	hostile = append(hostile,
		"\xc3/", "a\xff/b", "\xe2/\x95", "\xf0\x9f/\x80", "/\xc3", "\xff/", // 0x2f next to / inside broken UTF-8: refused
		"\xe2\x88\x95", "\xef\xbc\x8f", "\xc0\xaf", "\xe2\x81\x84", "\xc3", "a\xffb") // DIVISION SLASH, FULLWIDTH SOLIDUS, overlong '/', FRACTION SLASH, lone lead byte: accepted
	// every name position x every hostile string (chunks of 6 strings per history)
	for i := 0; i < len(hostile); i += 6 {
		h := []vhsrvReq{v, at, {T: "Twalk", N: []uint64{0, 1}, S: vhsrvH("d1")}, {T: "Twalk", N: []uint64{0, 2}, S: vhsrvH("f1")}}
		for _, s := range hostile[i:min(i+6, len(hostile))] {
			h = append(h,
				vhsrvReq{T: "Twalk", N: []uint64{0, 3}, S: vhsrvH(s)},
				vhsrvReq{T: "Twalk", N: []uint64{0, 3}, S: vhsrvH("d1", s)},
				vhsrvReq{T: "Twalk", N: []uint64{0, 3}, S: vhsrvH(s, "d1")},
				vhsrvReq{T: "Twalkgetattr", N: []uint64{0, 3}, S: vhsrvH("d1", "d2", s)},
				vhsrvReq{T: "Tlcreate", N: []uint64{1, 2, 0o600, 0}, S: vhsrvH(s)},
				vhsrvReq{T: "Tmkdir", N: []uint64{0, 0o700, 0}, S: vhsrvH(s)},
				vhsrvReq{T: "Tsymlink", N: []uint64{0, 0}, S: vhsrvH(s, "../..")},
				vhsrvReq{T: "Tlink", N: []uint64{0, 2}, S: vhsrvH(s)},
				vhsrvReq{T: "Tmknod", N: []uint64{0, 0o20600, 1, 2, 0}, S: vhsrvH(s)},
				vhsrvReq{T: "Trenameat", N: []uint64{0, 0}, S: vhsrvH(s, "f5")},
				vhsrvReq{T: "Trenameat", N: []uint64{0, 0}, S: vhsrvH("f1", s)},
				vhsrvReq{T: "Tunlinkat", N: []uint64{0, 0}, S: vhsrvH(s)},
				vhsrvReq{T: "Trename", N: []uint64{2, 0}, S: vhsrvH(s)},
				vhsrvReq{T: "Tattach", N: []uint64{4, nf, 0}, S: vhsrvH("u", s)},
			)
			if len(s) < 60000 { // a 9P string holds at most 65535 bytes
				h = append(h, vhsrvReq{T: "Tattach", N: []uint64{4, nf, 0}, S: vhsrvH("u", "/d1/"+s)})
			}
			u := uint64(7)
			h = append(h, vhsrvReq{T: "Tlcreate", N: []uint64{0, 2, 0o600, 0}, S: vhsrvH(s), U: &u}, vhsrvReq{T: "Tmkdir", N: []uint64{0, 0o700, 0}, S: vhsrvH(s), U: &u},
				vhsrvReq{T: "Tsymlink", N: []uint64{0, 0}, S: vhsrvH(s, "t"), U: &u}, vhsrvReq{T: "Tmknod", N: []uint64{0, 0o20600, 1, 2, 0}, S: vhsrvH(s), U: &u})
		}
		hs = append(hs, h)
	}
	// attach names
	h := []vhsrvReq{v}
	for i, an := range append(append([]string{}, vhsrvAttachNames...), "d1/d2/d3/f1", "/f1/x", "/s1/x", "/c1/x", "/p1/x", "/k1/x", "/b1/x", "///", "/.", "/..", "d1/..") {
		h = append(h, vhsrvReq{T: "Tattach", N: []uint64{uint64(i % 5), nf, 0}, S: vhsrvH("u", an)})
	}
	hs = append(hs, h)
	// attach names on a server whose root the backend reports as a NON-directory (regular file, symlink): a name may
	// not be walked from it; the bare root may still be attached
	h = []vhsrvReq{v}
	for i, md := range []uint32{uint32(ModeRegular) | 0o644, uint32(ModeSymlink) | 0o777, 0o644, uint32(ModeDirectory) | 0o755} {
		for _, an := range []string{"x", "/d1", "d1/f1", "", "/"} {
			h = append(h, vhsrvReq{T: "Tattach", N: []uint64{uint64(i), nf, 0}, S: vhsrvH("u", an),
				FaultAns: &vhsrvAns{Valid: true, Mode: md, Qids: []uint64{uint64(40 + i)}}, FaultCall: 1})
		}
		h = append(h, vhsrvReq{T: "Twalk", N: []uint64{uint64(i), 5}, S: vhsrvH("d1")}, vhsrvReq{T: "Twalkgetattr", N: []uint64{uint64(i), 5}, S: vhsrvH("f1")})
	}
	hs = append(hs, h)
	// walks whose intermediate components are files, symlinks, devices
	h = []vhsrvReq{v, at}
	for _, mid := range []string{"f1", "s1", "c1", "b1", "p1", "k1", "d1", "n1"} {
		h = append(h, vhsrvReq{T: "Twalk", N: []uint64{0, 1}, S: vhsrvH(mid, "d2")}, vhsrvReq{T: "Twalkgetattr", N: []uint64{0, 1}, S: vhsrvH("d1", mid, "f1")},
			vhsrvReq{T: "Twalk", N: []uint64{0, 2}, S: vhsrvH(mid)}, vhsrvReq{T: "Twalk", N: []uint64{2, 3}, S: vhsrvH("f1")}, vhsrvReq{T: "Twalk", N: []uint64{2, 3}})
	}
	hs = append(hs, h)
	return hs
}

func TestVerifC09(t *testing.T) {
	out := vhOpen(t)
	defer out.Close()
	seed := vhSeed()
	for i, c := range vh09Corpus() {
		h := vhsrvRunFixed(c, seed+int64(i))
		h.ID = fmt.Sprintf("corpus-%d", i)
		out.Emit(h)
	}
	n := 50
	if vhThorough() {
		n = 400
	}
	tune := func(g *vhsrvGen, b *vhsrvBackend) {
		g.hostile = 0.45
		g.focus = []string{"Twalk", "Twalkgetattr", "Tattach", "Tlcreate", "Tmkdir", "Tsymlink", "Tlink", "Tmknod", "Trenameat", "Tunlinkat", "Trename"}
	}
	for i := 0; i < n; i++ {
		h := vhsrvRun(seed*7000003+int64(i), 20+(i*11)%41, tune, 0, 0, nil)
		h.ID = fmt.Sprintf("gen-%d-%d", seed, i)
		out.Emit(h)
	}
}
