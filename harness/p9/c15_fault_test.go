package p9

// C15 correspondence harness: an error or a panic injected at every backend
// call index of generated histories (first call, n-th, inside multi-step walks,
// in rename notifications, in Close), followed by the rest of the history on
// the same fids and on a second connection.

import (
	"fmt"
	"testing"
)

func TestVerifC15(t *testing.T) {
	out := vhOpen(t)
	defer out.Close()
	seed := vhSeed()
	bases, perBase := 6, 14
	if vhThorough() {
		bases, perBase = 10, 50
	}
	tune := func(g *vhsrvGen, b *vhsrvBackend) {
		b.errProb = 0.01 // few spontaneous errors so that histories get deep
		g.hostile = 0.05
		g.junkFid = 0.05
	}
	// fixed histories first: a panic inside the Walk+GetAttr fallback, inside rename notifications, in Close,
	// each followed by requests that need the locks the failed request held
	for i, c := range vh15Corpus() {
		h := vhsrvRunFixedOpt(c, seed+int64(i), true)
		h.ID = fmt.Sprintf("corpus-%d", i)
		out.Emit(h)
	}
	rng := vhRand()
	for bi := 0; bi < bases; bi++ {
		hseed := seed*9000011 + int64(bi)
		steps := 24 + (bi*5)%20
		base := vhsrvRun(hseed, steps, tune, 0, 0, nil)
		base.ID = fmt.Sprintf("base-%d-%d", seed, bi)
		out.Emit(base)
		type site struct{ step, call int }
		var sites []site
		for si, st := range base.Steps {
			for ci := range st.Calls {
				sites = append(sites, site{si, ci})
			}
		}
		rng.Shuffle(len(sites), func(i, j int) { sites[i], sites[j] = sites[j], sites[i] })
		// every site gets an error and a panic (quick: a sample; sites in walks, renames and Close first)
		prio := func(s site) bool {
			m := base.Steps[s.step].Calls[s.call].M
			return m == vhsrvMClose || m == vhsrvMRenamed || m == vhsrvMRenameAt || s.call > 0
		}
		var ordered []site
		for _, s := range sites {
			if prio(s) {
				ordered = append(ordered, s)
			}
		}
		for _, s := range sites {
			if !prio(s) {
				ordered = append(ordered, s)
			}
		}
		if len(ordered) > perBase {
			ordered = ordered[:perBase]
		}
		for k, s := range ordered {
			for kind := 0; kind < 2; kind++ {
				ans := vhsrvAns{Panic: kind == 1}
				if kind == 0 {
					ans.Err = vhsrvErrAlphabet[(k*7+bi)%len(vhsrvErrAlphabet)]
				}
				h := vhsrvRun(hseed, steps, tune, s.step, s.call, &ans)
				h.ID = fmt.Sprintf("fault-%d-%d-s%d-c%d-k%d", seed, bi, s.step, s.call, kind)
				h.Fault = map[string]int{"step": s.step, "call": s.call, "panic": kind}
				out.Emit(h)
			}
		}
	}
}

func vh15Corpus() [][]vhsrvReq {
	nf := uint64(noFID)
	v := vhsrvReq{T: "Tversion", N: []uint64{8192}, S: vhsrvH("9P2000.L")}
	at := vhsrvReq{T: "Tattach", N: []uint64{0, nf, 0}, S: vhsrvH("u", "")}
	w := func(f, n uint64, names ...string) vhsrvReq {
		return vhsrvReq{T: "Twalk", N: []uint64{f, n}, S: vhsrvHexs(names)}
	}
	pan := &vhsrvAns{Panic: true}
	return [][]vhsrvReq{
		// GetAttr of the walk fallback panics (calls: WalkGetAttr=ENOSYS, Walk, GetAttr); then the same child is walked and written
		{v, at, {T: "Twalk", N: []uint64{0, 1}, S: vhsrvH("f1"), FaultAns: pan, FaultCall: 2}, w(0, 1, "f1"), {T: "Tsetattr", N: []uint64{1, 1}},
			{T: "Tunlinkat", N: []uint64{0, 0}, S: vhsrvH("f1")}, {T: "Tclunk", N: []uint64{1}}},
		// same inside a multi-component walk, second component
		{v, at, {T: "Twalk", N: []uint64{0, 1}, S: vhsrvH("d1", "f1"), FaultAns: pan, FaultCall: 5}, w(0, 1, "d1", "f1"), {T: "Tsetattr", N: []uint64{1, 1}},
			w(0, 2, "d1"), {T: "Tunlinkat", N: []uint64{2, 0}, S: vhsrvH("f1")}, {T: "Tclunk", N: []uint64{1}}, {T: "Tclunk", N: []uint64{2}}},
		// Renamed panics on a fid below the renamed directory (rename notification of a subtree member);
		// then that fid is clunked and the renamed directory walked: both need its child lock
		{v, at, w(0, 1, "d1"), w(1, 2, "f1"), {T: "Trenameat", N: []uint64{0, 0}, S: vhsrvH("d1", "d2"), FaultAns: pan, FaultCall: 2},
			{T: "Tclunk", N: []uint64{2}}, w(0, 3, "d2"), w(3, 4, "f2"), {T: "Tclunk", N: []uint64{1}}},
		// ... and on the renamed entry itself
		{v, at, w(0, 1, "d1"), w(1, 2, "f1"), {T: "Trenameat", N: []uint64{0, 0}, S: vhsrvH("d1", "d2"), FaultAns: pan, FaultCall: 1},
			{T: "Tclunk", N: []uint64{2}}, w(0, 3, "d2"), {T: "Tclunk", N: []uint64{1}}},
		// Close panics inside a rename: d1 is held only by its child f1 (fid 1 clunked), fid 3 is another fid of d1;
		// renaming f1 out of d1 drops d1's last reference -> Close(d1) panics.  Afterwards fid 2 (the moved file)
		// must still be usable: clone, getattr, remove
		{v, at, w(0, 1, "d1"), w(1, 2, "f1"), {T: "Tclunk", N: []uint64{1}}, w(0, 3, "d1"),
			{T: "Trenameat", N: []uint64{3, 0}, S: vhsrvH("f1", "f2"), FaultAns: pan, FaultMeth: vhsrvMClose + 1},
			{T: "Tgetattr", N: []uint64{2, 1}}, w(2, 4), {T: "Tclunk", N: []uint64{4}}, {T: "Tremove", N: []uint64{2}}},
		// Close panics while a replaced binding is released; the fid table stays usable
		{v, at, w(0, 1, "f1"), {T: "Twalk", N: []uint64{0, 1}, S: vhsrvH("f2"), FaultAns: pan, FaultCall: 3}, {T: "Tgetattr", N: []uint64{1, 1}}, {T: "Tclunk", N: []uint64{1}}, {T: "Tclunk", N: []uint64{0}}},
		// UnlinkAt / Create / Open panic; then the same directory is used again (its write lock must be free)
		{v, at, w(0, 1, "d1"), {T: "Tunlinkat", N: []uint64{1, 0}, S: vhsrvH("f1"), FaultAns: pan}, {T: "Tmkdir", N: []uint64{1, 0o755, 0}, S: vhsrvH("d2")},
			{T: "Tlcreate", N: []uint64{1, 2, 0o644, 0}, S: vhsrvH("f3"), FaultAns: pan}, w(0, 2, "d1"), {T: "Tmkdir", N: []uint64{2, 0o755, 0}, S: vhsrvH("d3")},
			{T: "Trenameat", N: []uint64{2, 0}, S: vhsrvH("f1", "f2"), FaultAns: pan}, {T: "Trenameat", N: []uint64{2, 0}, S: vhsrvH("f1", "f2")}, {T: "Tsetattr", N: []uint64{2, 1}}},
		// an ERROR (not a panic) in UnlinkAt / RenameAt / Mkdir / Link while other fids are bound to the entry or below it; afterwards
		// those fids and paths are used again: "only that request is affected" (nothing is fenced, moved or unbound by a refused call)
		{v, at, w(0, 1, "d1"), w(1, 2, "f1"), w(2, 3), {T: "Tunlinkat", N: []uint64{1, 0}, S: vhsrvH("f1"), FaultAns: &vhsrvAns{Err: []vhsrvLeaf{{"L", 39}}}},
			{T: "Tgetattr", N: []uint64{2, 1}}, {T: "Tgetattr", N: []uint64{3, 1}}, w(2, 4), {T: "Tsetattr", N: []uint64{4, 1}}, w(1, 5, "f1"), {T: "Tlopen", N: []uint64{2, 0}},
			{T: "Tunlinkat", N: []uint64{1, 0}, S: vhsrvH("f1")}, {T: "Tgetattr", N: []uint64{3, 1}}, {T: "Tclunk", N: []uint64{2}}},
		{v, at, w(0, 1, "d1"), w(1, 2, "f1"), {T: "Tunlinkat", N: []uint64{0, 0x200}, S: vhsrvH("d1"), FaultAns: &vhsrvAns{Err: []vhsrvLeaf{{"S", 39}}}},
			{T: "Tgetattr", N: []uint64{1, 1}}, {T: "Tgetattr", N: []uint64{2, 1}}, w(1, 3, "f2"), {T: "Tmkdir", N: []uint64{1, 0o755, 0}, S: vhsrvH("d9")}, w(0, 4, "d1", "f1")},
		{v, at, w(0, 1, "d1"), w(1, 2, "f1"), w(0, 3, "d2"), {T: "Trenameat", N: []uint64{0, 0}, S: vhsrvH("d1", "d2"), FaultAns: &vhsrvAns{Err: []vhsrvLeaf{{"L", 39}}}},
			{T: "Tgetattr", N: []uint64{1, 1}}, {T: "Tgetattr", N: []uint64{2, 1}}, {T: "Tgetattr", N: []uint64{3, 1}}, w(3, 4, "f2"), w(0, 5, "d1", "f1"),
			{T: "Trenameat", N: []uint64{1, 0}, S: vhsrvH("f1", "f3"), FaultAns: &vhsrvAns{Err: []vhsrvLeaf{{"OP", 0}, {"L", 13}}}}, {T: "Tgetattr", N: []uint64{2, 1}}, w(1, 6, "f1"),
			{T: "Trename", N: []uint64{2, 3}, S: vhsrvH("f9"), FaultAns: &vhsrvAns{Err: []vhsrvLeaf{{"L", 18}}}}, {T: "Tgetattr", N: []uint64{2, 1}}, w(1, 7, "f1"), {T: "Tremove", N: []uint64{2}}},
		// Tclunk of a fid with a pending xattr create: SetXattr / RemoveXattr fails or panics, or the Close that follows
		// fails too -- "Tclunk still unbinds": the fid is gone afterwards (EBADF), its File closed
		{v, at, w(0, 1, "f1"), {T: "Txattrcreate", N: []uint64{1, 3, 0}, S: vhsrvH("user.a")}, {T: "Twrite", N: []uint64{1, 0, 3}},
			{T: "Tclunk", N: []uint64{1}, FaultAns: &vhsrvAns{Err: []vhsrvLeaf{{"L", 28}}}, FaultMeth: vhsrvMSetXattr + 1}, {T: "Tgetattr", N: []uint64{1, 1}}, {T: "Tclunk", N: []uint64{1}},
			w(0, 1, "f2"), {T: "Txattrcreate", N: []uint64{1, 0, 2}, S: vhsrvH("user.b")},
			{T: "Tclunk", N: []uint64{1}, FaultAns: &vhsrvAns{Err: []vhsrvLeaf{{"OP", 0}, {"S", 13}}}, FaultMeth: vhsrvMRemoveXattr + 1}, {T: "Tgetattr", N: []uint64{1, 1}},
			w(0, 1, "f3"), {T: "Txattrcreate", N: []uint64{1, 0, 0}, S: vhsrvH("user.c")}, {T: "Tclunk", N: []uint64{1}, FaultAns: pan, FaultMeth: vhsrvMSetXattr + 1},
			{T: "Tclunk", N: []uint64{1}}, {T: "Tclunk", N: []uint64{0}}},
	}
}
