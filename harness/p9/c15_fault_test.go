package p9

// C15 correspondence harness: an error or a panic injected at every backend
// call index of generated histories (first call, n-th, inside multi-step walks,
// in rename notifications, in Close), followed by the rest of the history on
// the same fids and on a second connection.

import (
	"fmt"
	"testing"
)

func TestVerifC15(t *testing.T) {
	out := vhOpen(t)
	defer out.Close()
	seed := vhSeed()
	bases, perBase := 6, 14
	if vhThorough() {
		bases, perBase = 60, 1 << 30
	}
	tune := func(g *vhsrvGen, b *vhsrvBackend) {
		b.errProb = 0.01 // few spontaneous errors so that histories get deep
		g.hostile = 0.05
		g.junkFid = 0.05
	}
	rng := vhRand()
	for bi := 0; bi < bases; bi++ {
		hseed := seed*9000011 + int64(bi)
		steps := 24 + (bi*5)%20
		base := vhsrvRun(hseed, steps, tune, 0, 0, nil)
		base.ID = fmt.Sprintf("base-%d-%d", seed, bi)
		out.Emit(base)
		type site struct{ step, call int }
		var sites []site
		for si, st := range base.Steps {
			for ci := range st.Calls {
				sites = append(sites, site{si, ci})
			}
		}
		rng.Shuffle(len(sites), func(i, j int) { sites[i], sites[j] = sites[j], sites[i] })
		// every site gets an error and a panic (quick: a sample; sites in walks, renames and Close first)
		prio := func(s site) bool {
			m := base.Steps[s.step].Calls[s.call].M
			return m == vhsrvMClose || m == vhsrvMRenamed || m == vhsrvMRenameAt || s.call > 0
		}
		var ordered []site
		for _, s := range sites {
			if prio(s) {
				ordered = append(ordered, s)
			}
		}
		for _, s := range sites {
			if !prio(s) {
				ordered = append(ordered, s)
			}
		}
		if len(ordered) > perBase {
			ordered = ordered[:perBase]
		}
		for k, s := range ordered {
			for kind := 0; kind < 2; kind++ {
				ans := vhsrvAns{Panic: kind == 1}
				if kind == 0 {
					ans.Err = vhsrvErrAlphabet[(k*7+bi)%len(vhsrvErrAlphabet)]
				}
				h := vhsrvRun(hseed, steps, tune, s.step, s.call, &ans)
				h.ID = fmt.Sprintf("fault-%d-%d-s%d-c%d-k%d", seed, bi, s.step, s.call, kind)
				h.Fault = map[string]int{"step": s.step, "call": s.call, "panic": kind}
				out.Emit(h)
			}
		}
	}
}
