package p9

// C04 correspondence harness: generated request histories (two connections,
// fid re-use, operations on clunked fids, xattr sub-protocol, Tauth, auth-fid
// attaches, every request type) lock-step against the real server with the
// scripted recording backend.

import (
	"fmt"
	"testing"
	"time"
)

// vh04Corpus: fixed boundary histories that run first (each entry: list of requests on connection 0).
func vh04Corpus() [][]vhsrvReq {
	nf := uint64(noFID)
	v := vhsrvReq{T: "Tversion", N: []uint64{8192}, S: vhsrvH("9P2000.L")}
	at := vhsrvReq{T: "Tattach", N: []uint64{0, nf, 0}, S: vhsrvH("u", "")}
	w := func(f, n uint64, names ...string) vhsrvReq {
		return vhsrvReq{T: "Twalk", N: []uint64{f, n}, S: vhsrvHexs(names)}
	}
	return [][]vhsrvReq{
		// every abstract fid state: unbound, dir, file, opened RO/WO/RW, created, xattr walk, xattr create, fenced
		{v, at, w(0, 1, "d1"), w(1, 2, "f1"), {T: "Tlopen", N: []uint64{2, 0}}, {T: "Tread", N: []uint64{2, 0, 10}}, {T: "Twrite", N: []uint64{2, 0, 3}},
			w(1, 3, "f2"), {T: "Tlopen", N: []uint64{3, 1}}, {T: "Tread", N: []uint64{3, 0, 10}}, {T: "Twrite", N: []uint64{3, 0, 3}},
			{T: "Tlopen", N: []uint64{3, 2}}, {T: "Tlcreate", N: []uint64{1, 2, 0o644, 0}, S: vhsrvH("f3")}, {T: "Tread", N: []uint64{1, 0, 4}},
			{T: "Txattrwalk", N: []uint64{2, 4}, S: vhsrvH("user.a")}, {T: "Tread", N: []uint64{4, 0, 4}}, {T: "Twrite", N: []uint64{4, 0, 1}},
			{T: "Tread", N: []uint64{4, 1<<64 - 1, 4}}, {T: "Tread", N: []uint64{4, 1<<64 - 2, 2}}, {T: "Tread", N: []uint64{4, 1, 1<<32 - 1}}, {T: "Tread", N: []uint64{4, 0, 0}},
			{T: "Txattrcreate", N: []uint64{3, 4, 0}, S: vhsrvH("user.b")}, {T: "Twrite", N: []uint64{3, 0, 4}}, {T: "Tread", N: []uint64{3, 0, 4}}, {T: "Tclunk", N: []uint64{3}},
			{T: "Tunlinkat", N: []uint64{0, 0}, S: vhsrvH("d1")}, {T: "Tlopen", N: []uint64{1, 0}}, w(1, 5, "f1"), {T: "Tgetattr", N: []uint64{2, 1}},
			{T: "Tclunk", N: []uint64{4}}, {T: "Tclunk", N: []uint64{2}}, {T: "Tclunk", N: []uint64{2}}, {T: "Tremove", N: []uint64{1}}, {T: "Tremove", N: []uint64{1}}},
		// a Tlopen whose backend Open fails leaves the fid unopened: I/O refused, a second Tlopen goes through
		{v, at, w(0, 1, "f1"), {T: "Tlopen", N: []uint64{1, 2}, FaultAns: &vhsrvAns{Err: []vhsrvLeaf{{"L", 13}}}}, {T: "Tread", N: []uint64{1, 0, 8}}, {T: "Twrite", N: []uint64{1, 0, 3}},
			{T: "Tfsync", N: []uint64{1}}, {T: "Tlopen", N: []uint64{1, 0}}, {T: "Tread", N: []uint64{1, 0, 8}},
			w(0, 2, "d1"), {T: "Tlopen", N: []uint64{2, 0}, FaultAns: &vhsrvAns{Err: []vhsrvLeaf{{"S", 24}}}}, {T: "Treaddir", N: []uint64{2, 0, 64}},
			{T: "Tmkdir", N: []uint64{2, 0o755, 0}, S: vhsrvH("d3")}, w(2, 2), {T: "Tlopen", N: []uint64{2, 0}}, {T: "Treaddir", N: []uint64{2, 0, 64}}},
		// no Tversion: Tread panics (nil buffer pool) -> EFAULT
		{at, w(0, 1, "f1"), {T: "Tlopen", N: []uint64{1, 0}}, {T: "Tread", N: []uint64{1, 0, 4}}, {T: "Tread", N: []uint64{1, 0, 1<<22 + 1}}, {T: "Tread", N: []uint64{9, 0, 4}}},
		// opened directory refusals
		{v, at, w(0, 1, "d1"), {T: "Tlopen", N: []uint64{1, 1}}, {T: "Tlopen", N: []uint64{1, 0}}, {T: "Tlopen", N: []uint64{1, 0}}, w(1, 1), w(1, 1, "f1"), w(1, 2),
			{T: "Tmkdir", N: []uint64{1, 0o755, 0}, S: vhsrvH("d2")}, {T: "Tlcreate", N: []uint64{1, 0, 0, 0}, S: vhsrvH("f1")}, {T: "Tsymlink", N: []uint64{1, 0}, S: vhsrvH("s1", "x")},
			{T: "Tlink", N: []uint64{1, 0}, S: vhsrvH("f1")}, {T: "Tmknod", N: []uint64{1, 0, 0, 0, 0}, S: vhsrvH("c1")}, {T: "Trenameat", N: []uint64{1, 0}, S: vhsrvH("f1", "f2")},
			{T: "Trenameat", N: []uint64{0, 1}, S: vhsrvH("f1", "f2")}, {T: "Tunlinkat", N: []uint64{1, 0}, S: vhsrvH("f1")}, {T: "Treaddir", N: []uint64{1, 0, 100}}, {T: "Tfsync", N: []uint64{1}}, {T: "Tfsync", N: []uint64{0}}},
		// auth, attach with auth fid, symlink / socket open, remove of root, rename
		{v, {T: "Tauth", N: []uint64{1, 0}, S: vhsrvH("u", "")}, {T: "Tattach", N: []uint64{0, 3, 0}, S: vhsrvH("u", "")}, at, {T: "Tattach", N: []uint64{1, nf, 0}, S: vhsrvH("u", "/d1/s1")},
			{T: "Tlopen", N: []uint64{1, 0}}, {T: "Treadlink", N: []uint64{1}}, {T: "Treadlink", N: []uint64{0}}, w(0, 2, "k1"), {T: "Tlopen", N: []uint64{2, 0}}, {T: "Tremove", N: []uint64{0}},
			at, w(0, 3, "d1", "f1"), {T: "Trename", N: []uint64{3, 0}, S: vhsrvH("f2")}, {T: "Trename", N: []uint64{0, 0}, S: vhsrvH("f2")}, {T: "Tremove", N: []uint64{3}}, {T: "Tother", N: []uint64{121}}, {T: "Tflush", N: []uint64{7}}},
		// "only if its type can be opened": fids whose recorded type is none of the openable ones.  An xattr fid
		// (Txattrwalk records no type) before and after the fid it was walked from is opened; a root and a walked
		// file for which the backend reported a mode WITHOUT type bits / with an unknown type; every other type once
		{v, at, w(0, 1, "f1"), {T: "Txattrwalk", N: []uint64{1, 2}, S: vhsrvH("user.a")}, {T: "Tlopen", N: []uint64{2, 0}}, {T: "Tlopen", N: []uint64{2, 2}},
			{T: "Tlopen", N: []uint64{1, 0}}, {T: "Tlopen", N: []uint64{2, 0}}, {T: "Tread", N: []uint64{2, 0, 4}}, {T: "Tclunk", N: []uint64{2}},
			{T: "Txattrwalk", N: []uint64{1, 2}, S: vhsrvH("")}, {T: "Tlopen", N: []uint64{2, 1}}, {T: "Tclunk", N: []uint64{2}},
			{T: "Tattach", N: []uint64{3, nf, 0}, S: vhsrvH("u", ""), FaultAns: &vhsrvAns{Valid: true, Mode: 0o644, Qids: []uint64{7}}, FaultCall: 1},
			{T: "Tlopen", N: []uint64{3, 0}}, {T: "Treaddir", N: []uint64{3, 0, 64}}, {T: "Tclunk", N: []uint64{3}},
			{T: "Twalkgetattr", N: []uint64{0, 4}, S: vhsrvH("f2"), FaultAns: &vhsrvAns{Valid: true, Mode: 0o170000 | 0o600, Qids: []uint64{8}}, FaultCall: 0},
			{T: "Tlopen", N: []uint64{4, 0}}, {T: "Tclunk", N: []uint64{4}},
			w(0, 4, "s1"), {T: "Tlopen", N: []uint64{4, 0}}, w(0, 4, "k1"), {T: "Tlopen", N: []uint64{4, 0}}, w(0, 4, "p1"), {T: "Tlopen", N: []uint64{4, 0}},
			w(0, 4, "b1"), {T: "Tlopen", N: []uint64{4, 0}}, w(0, 4, "c1"), {T: "Tlopen", N: []uint64{4, 0}}, {T: "Tlopen", N: []uint64{4, 0}}},
		// clunk with a pending xattr create whose size does not match / whose SetXattr fails: the fid is unbound all the same
		{v, at, w(0, 1, "f1"), {T: "Txattrcreate", N: []uint64{1, 4, 0}, S: vhsrvH("user.a")}, {T: "Twrite", N: []uint64{1, 0, 2}}, {T: "Tclunk", N: []uint64{1}}, {T: "Tgetattr", N: []uint64{1, 1}}, {T: "Tclunk", N: []uint64{1}},
			w(0, 1, "f1"), {T: "Txattrcreate", N: []uint64{1, 3, 0}, S: vhsrvH("user.a")}, {T: "Twrite", N: []uint64{1, 0, 3}},
			{T: "Tclunk", N: []uint64{1}, FaultAns: &vhsrvAns{Err: []vhsrvLeaf{{"L", 28}}}, FaultMeth: vhsrvMSetXattr + 1}, {T: "Tgetattr", N: []uint64{1, 1}}, {T: "Tclunk", N: []uint64{1}}},
	}
}

func vhsrvRunFixed(reqs []vhsrvReq, seed int64) vhsrvHist { return vhsrvRunFixedOpt(reqs, seed, false) }

// vhsrvRunFixedOpt: wga = the backend answers WalkGetAttr with ENOSYS (Walk + GetAttr fallback).
func vhsrvRunFixedOpt(reqs []vhsrvReq, seed int64, wga bool) vhsrvHist {
	r := vhRandSeed(seed)
	w := vhsrvNewWorld(r, 2)
	w.b.errProb = 0
	w.b.weirdProb = 0
	w.b.wgaEnosys = wga
	w.timeout = 6 * time.Second
	h := vhsrvHist{Kind: "hist", Steps: []vhsrvStep{}}
	defer func() { w.close(); w.finish(&h) }()
	probing := false
	for _, q := range reqs {
		if q.N == nil {
			q.N = []uint64{}
		}
		if q.S == nil {
			q.S = []string{}
		}
		if q.FaultAns != nil {
			w.b.mu.Lock()
			w.b.faultArmed, w.b.faultCall, w.b.faultAns, w.b.faultMeth = true, q.FaultCall, *q.FaultAns, q.FaultMeth
			w.b.mu.Unlock()
			h.Fault = map[string]int{"step": len(h.Steps), "call": q.FaultCall, "panic": map[bool]int{false: 0, true: 1}[q.FaultAns.Panic]}
		}
		st, err := w.do(q)
		w.b.mu.Lock()
		w.b.faultArmed = false
		w.b.faultMeth = 0
		w.b.mu.Unlock()
		if err != nil {
			h.Broken = fmt.Sprintf("%v on request %+v", err, q)
			return h
		}
		if !probing {
			h.Steps = append(h.Steps, st)
		} else if st.RT == int(msgRlerror) && st.Errno == uint64(linux_EFAULT_vhsrv) && q.FaultAns == nil && q.T != "Tread" {
			// no fault was injected into this request, yet the server panicked while handling it
			h.Broken = fmt.Sprintf("after the injected fault an unrelated later request was answered EFAULT (server-side panic): %+v", q)
			return h
		}
		if st.Reduced {
			probing = true // the model cannot follow; the remaining requests only probe for a reply
		}
	}
	return h
}

func TestVerifC04(t *testing.T) {
	out := vhOpen(t)
	defer out.Close()
	seed := vhSeed()
	for i, c := range vh04Corpus() {
		h := vhsrvRunFixed(c, seed)
		h.ID = fmt.Sprintf("corpus-%d", i)
		out.Emit(h)
	}
	// two Tlopen in flight together on one fid (gated backend Open)
	for i := 0; i < 4; i++ {
		p := vh04Par(seed+int64(i), i)
		p.ID = fmt.Sprintf("par-%d", i)
		out.Emit(p)
	}
	n := 110
	if vhThorough() {
		n = 600
	}
	for i := 0; i < n; i++ {
		steps := 20 + (i*7)%41
		h := vhsrvRun(seed*1000003+int64(i), steps, nil, 0, 0, nil)
		h.ID = fmt.Sprintf("gen-%d-%d", seed, i)
		out.Emit(h)
	}
}

// vh04Par: Tversion, Tattach, Twalk to a regular file, then Tlopen A and Tlopen B on that fid so that B is received
// while A is inside File.Open.  variant 1, 3: A's Open fails (B may then open); variant 2, 3: B is a duplicate of A's flags.
func vh04Par(seed int64, variant int) vhsrvPar {
	r := vhRandSeed(seed)
	w := vhsrvNewWorld(r, 1)
	w.b.errProb = 0
	w.b.weirdProb = 0
	defer w.close()
	nf := uint64(noFID)
	for _, q := range []vhsrvReq{{T: "Tversion", N: []uint64{8192}, S: vhsrvH("9P2000.L")}, {T: "Tattach", N: []uint64{0, nf, 0}, S: vhsrvH("u", "")},
		{T: "Twalk", N: []uint64{0, 1}, S: vhsrvH("f1")}} {
		if q.S == nil {
			q.S = []string{}
		}
		if _, err := w.do(q); err != nil {
			return vhsrvPar{Kind: "par", Steps: []vhsrvStep{}, Calls: []vhsrvCall{}}
		}
	}
	qa := vhsrvReq{T: "Tlopen", N: []uint64{1, 0}, S: []string{}}
	qb := vhsrvReq{T: "Tlopen", N: []uint64{1, 2}, S: []string{}}
	if variant&1 == 1 {
		qa.FaultAns = &vhsrvAns{Err: []vhsrvLeaf{{"L", 13}}}
	}
	if variant&2 == 2 {
		qb.N[1] = 0
	}
	p, err := w.doPar(qa, qb, vhsrvMOpen, 150*time.Millisecond)
	if err != nil {
		p.Steps = []vhsrvStep{}
		p.Gated = false
	}
	return p
}
