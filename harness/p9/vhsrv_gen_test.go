package p9

// Structured history generator for the C04/C09/C15 harnesses: a small fid and
// name alphabet, mostly valid requests chosen with the help of a shadow of
// what the replies said is bound, plus hostile names / junk fids.

import (
	"fmt"
	"time"
	"math/rand"
	"strings"
)

type vhsrvShadow struct {
	root    bool   // bound by an attach of the root or a clone of such a fid
	last    string // last path component ("" for roots / unknown)
	unknown bool   // reply was EFAULT: binding uncertain
	xattr   bool // bound by Txattrwalk (no place in the tree)
	xcreate bool // Txattrcreate pending on it
	opened  bool
}

type vhsrvGen struct {
	r       *rand.Rand
	hostile float64 // probability of a hostile string in a name position
	junkFid float64
	nconn   int
	shadow  []map[uint64]*vhsrvShadow
	versed  []bool
	msize   []uint64 // negotiated msize per connection (frames above it end the connection)
	focus   []string // when set, request kinds are drawn from here most of the time
}

func vhsrvNewGen(r *rand.Rand, nconn int) *vhsrvGen {
	g := &vhsrvGen{r: r, hostile: 0.12, junkFid: 0.07, nconn: nconn}
	for i := 0; i < nconn; i++ {
		g.shadow = append(g.shadow, map[uint64]*vhsrvShadow{})
		g.versed = append(g.versed, false)
		g.msize = append(g.msize, 1<<22)
	}
	return g
}

var vhsrvSafeNames = []string{"d1", "d2", "d3", "f1", "f2", "s1", "p1", "k1", "b1", "c1", "n1", "f3"}
var vhsrvHostileNames = []string{"", ".", "..", "a/b", "/", "d1/", "/d1", "d1/..", "\x00", "f\x00", "\xff\xfe", "..\x00", ". ", "...", "f1/.", "//"}
var vhsrvAttachNames = []string{"", "/", "d1", "/d1", "d1/d2", "/d1/f1", "a//b", "/../x", "a/./b", "a/", "//", "/d1/", "..", ".", "d1/../d2", "f1/d1", "s1/d1", "d1/n1", "/d2/d1/d3", "\x00"}

func (g *vhsrvGen) name(c int) string {
	if g.r.Float64() < g.hostile {
		if g.msize[c] > 140000 && g.r.Intn(40) == 0 {
			return strings.Repeat("a", 65535)
		}
		if g.msize[c] > 140000 && g.r.Intn(40) == 0 {
			return strings.Repeat("a", 65534) + "/"
		}
		return vhsrvHostileNames[g.r.Intn(len(vhsrvHostileNames))]
	}
	return vhsrvSafeNames[g.r.Intn(len(vhsrvSafeNames))]
}

func vhsrvSafe(n string) bool {
	return n != "" && n != "." && n != ".." && !strings.Contains(n, "/")
}

func (g *vhsrvGen) anyFid() uint64 {
	switch g.r.Intn(12) {
	case 0:
		return uint64(noFID)
	case 1:
		return 1<<32 - 2
	}
	return uint64(g.r.Intn(6))
}

// fid picks a bound fid satisfying want (when one exists), else any.
func (g *vhsrvGen) fid(c int, want func(*vhsrvShadow) bool) uint64 {
	if g.r.Float64() >= g.junkFid {
		var cand []uint64
		for f := uint64(0); f < 6; f++ {
			if s, ok := g.shadow[c][f]; ok && (want == nil || want(s)) {
				cand = append(cand, f)
			}
		}
		if len(cand) > 0 {
			return cand[g.r.Intn(len(cand))]
		}
		for f := uint64(0); f < 6; f++ {
			if _, ok := g.shadow[c][f]; ok {
				cand = append(cand, f)
			}
		}
		if len(cand) > 0 && g.r.Intn(3) > 0 {
			return cand[g.r.Intn(len(cand))]
		}
	}
	return g.anyFid()
}

func vhsrvIsDirName(s *vhsrvShadow) bool { return s.root || strings.HasPrefix(s.last, "d") }
func vhsrvIsFile(s *vhsrvShadow) bool   { return !s.root && !s.xattr && !strings.HasPrefix(s.last, "d") }

var vhsrvKinds = []struct {
	k string
	w int
}{
	{"Tattach", 6}, {"Twalk", 16}, {"Twalkgetattr", 7}, {"Tclunk", 6}, {"Tremove", 2}, {"Tlopen", 8}, {"Tlcreate", 4},
	{"Tsymlink", 2}, {"Tmknod", 2}, {"Tmkdir", 3}, {"Tlink", 2}, {"Trenameat", 5}, {"Tunlinkat", 4}, {"Trename", 4},
	{"Treadlink", 2}, {"Tread", 7}, {"Twrite", 6}, {"Tgetattr", 3}, {"Tsetattr", 2}, {"Txattrwalk", 4}, {"Txattrcreate", 3},
	{"Treaddir", 3}, {"Tfsync", 2}, {"Tstatfs", 1}, {"Tlock", 1}, {"Tversion", 1}, {"Tflush", 1}, {"Tauth", 1}, {"Tother", 1},
}

func (g *vhsrvGen) kind() string {
	if len(g.focus) > 0 && g.r.Intn(10) < 7 {
		return g.focus[g.r.Intn(len(g.focus))]
	}
	tot := 0
	for _, k := range vhsrvKinds {
		tot += k.w
	}
	x := g.r.Intn(tot)
	for _, k := range vhsrvKinds {
		if x < k.w {
			return k.k
		}
		x -= k.w
	}
	return "Tclunk"
}

func vhsrvH(ss ...string) []string { return vhsrvHexs(ss) }

func (g *vhsrvGen) uid() *uint64 {
	if g.r.Intn(3) == 0 {
		u := uint64(g.r.Intn(2000))
		return &u
	}
	return nil
}

func (g *vhsrvGen) flags() uint64 {
	f := uint64(g.r.Intn(3))
	if g.r.Intn(8) == 0 {
		f = 3
	}
	if g.r.Intn(4) == 0 {
		f |= 0o1000 // O_TRUNC-like high bits
	}
	return f
}

// renameOK: never ask for a rename that could move a directory into its own subtree (assumption B2 is the
// backend's duty; the scripted backend has no tree, so the generator keeps it).
func (g *vhsrvGen) renameOK(c int, old string, nd uint64, neu string) bool {
	if !vhsrvSafe(old) || !vhsrvSafe(neu) {
		return true // rejected with EINVAL before anything happens
	}
	t, ok := g.shadow[c][nd]
	if !ok {
		return true // EBADF
	}
	if old[0] != neu[0] {
		return false
	}
	if t.unknown {
		return false
	}
	return t.root || old[0] != 'd'
}

// next generates the next request for connection c.
func (g *vhsrvGen) next(c int) vhsrvReq {
	for {
		q, ok := g.try(c)
		if ok {
			return q
		}
	}
}

func (g *vhsrvGen) try(c int) (vhsrvReq, bool) {
	k := g.kind()
	if len(g.shadow[c]) == 0 && g.r.Intn(5) > 0 {
		k = "Tattach"
	}
	q := vhsrvReq{C: c, T: k, N: []uint64{}, S: []string{}}
	switch k {
	case "Tversion":
		ms := []uint64{8192, 65536, 0, 4096, 1 << 22, 1<<22 + 5, 300, 1 << 20}
		vs := []string{"9P2000.L", "9P2000.L.Google.7", "9P2000.L.Google.12", "9P2000", "9P2000.u", "junk", ""}
		q.N = []uint64{ms[g.r.Intn(len(ms))]}
		q.S = vhsrvH(vs[g.r.Intn(len(vs))])
	case "Tflush":
		q.N = []uint64{uint64(g.r.Intn(4))}
	case "Tauth":
		q.N = []uint64{g.anyFid(), uint64(g.r.Intn(100))}
		q.S = vhsrvH("user", vhsrvAttachNames[g.r.Intn(len(vhsrvAttachNames))])
	case "Tattach":
		afid := uint64(noFID)
		if g.r.Intn(8) == 0 {
			afid = g.anyFid()
		}
		an := vhsrvAttachNames[g.r.Intn(len(vhsrvAttachNames))]
		if g.r.Intn(3) == 0 {
			an = ""
		}
		q.N = []uint64{uint64(g.r.Intn(6)), afid, uint64(g.r.Intn(100))}
		q.S = vhsrvH("user", an)
	case "Twalk", "Twalkgetattr":
		n := []int{0, 1, 1, 1, 2, 2, 3, 5}[g.r.Intn(8)]
		var names []string
		for i := 0; i < n; i++ {
			if i+1 < n && g.r.Intn(4) > 0 {
				names = append(names, []string{"d1", "d2", "d3"}[g.r.Intn(3)])
			} else {
				names = append(names, g.name(c))
			}
		}
		f := g.fid(c, func(s *vhsrvShadow) bool { return n == 0 || vhsrvIsDirName(s) })
		nf := uint64(g.r.Intn(6))
		if g.r.Intn(6) == 0 {
			nf = f
		}
		q.N = []uint64{f, nf}
		q.S = vhsrvHexs(names)
	case "Tclunk", "Tremove", "Treadlink", "Tfsync", "Tstatfs":
		want := func(s *vhsrvShadow) bool { return true }
		if k == "Treadlink" {
			want = func(s *vhsrvShadow) bool { return strings.HasPrefix(s.last, "s") }
		}
		if k == "Tfsync" {
			want = func(s *vhsrvShadow) bool { return s.opened }
		}
		q.N = []uint64{g.fid(c, want)}
	case "Tlopen":
		q.N = []uint64{g.fid(c, func(s *vhsrvShadow) bool { return !s.opened && !s.xattr }), g.flags()}
	case "Tlcreate":
		q.N = []uint64{g.fid(c, vhsrvIsDirName), g.flags(), uint64(g.r.Intn(0o1000)), uint64(g.r.Intn(50))}
		q.S = vhsrvH(g.name(c))
		q.U = g.uid()
	case "Tsymlink":
		q.N = []uint64{g.fid(c, vhsrvIsDirName), uint64(g.r.Intn(50))}
		q.S = vhsrvH(g.name(c), []string{"../../etc/passwd", "/abs", "", "x"}[g.r.Intn(4)])
		q.U = g.uid()
	case "Tmknod":
		q.N = []uint64{g.fid(c, vhsrvIsDirName), uint64(ModeCharacterDevice) | 0o600, uint64(g.r.Intn(10)), uint64(g.r.Intn(10)), uint64(g.r.Intn(50))}
		q.S = vhsrvH(g.name(c))
		q.U = g.uid()
	case "Tmkdir":
		q.N = []uint64{g.fid(c, vhsrvIsDirName), uint64(g.r.Intn(0o1000)), uint64(g.r.Intn(50))}
		q.S = vhsrvH(g.name(c))
		q.U = g.uid()
	case "Tlink":
		q.N = []uint64{g.fid(c, vhsrvIsDirName), g.fid(c, vhsrvIsFile)}
		q.S = vhsrvH(g.name(c))
	case "Trenameat":
		od := g.fid(c, vhsrvIsDirName)
		nd := g.fid(c, func(s *vhsrvShadow) bool { return s.root })
		if g.r.Intn(3) == 0 {
			nd = g.fid(c, vhsrvIsDirName)
		}
		old := g.name(c)
		neu := g.name(c)
		if vhsrvSafe(old) && g.r.Intn(4) > 0 {
			neu = old[:1] + []string{"1", "2", "7"}[g.r.Intn(3)]
		}
		if !g.renameOK(c, old, nd, neu) {
			return q, false
		}
		q.N = []uint64{od, nd}
		q.S = vhsrvH(old, neu)
	case "Tunlinkat":
		q.N = []uint64{g.fid(c, vhsrvIsDirName), uint64(g.r.Intn(2)) * 0x200}
		q.S = vhsrvH(g.name(c))
	case "Trename":
		f := g.fid(c, func(s *vhsrvShadow) bool { return !s.root && !s.xattr })
		d := g.fid(c, func(s *vhsrvShadow) bool { return s.root })
		if g.r.Intn(3) == 0 {
			d = g.fid(c, vhsrvIsDirName)
		}
		neu := g.name(c)
		s, bound := g.shadow[c][f]
		if bound && !s.root && !s.xattr {
			if s.unknown || s.last == "" {
				return q, false
			}
			if g.r.Intn(4) > 0 {
				neu = s.last[:1] + []string{"1", "2", "8"}[g.r.Intn(3)]
			}
			if !g.renameOK(c, s.last, d, neu) {
				return q, false
			}
		}
		q.N = []uint64{f, d}
		q.S = vhsrvH(neu)
	case "Tread":
		f := g.fid(c, func(s *vhsrvShadow) bool { return s.opened || s.xattr || s.xcreate })
		off := []uint64{0, 0, 0, 1, 5, 100, 1<<64 - 1, 1<<64 - 4, 1 << 63}[g.r.Intn(9)]
		cnt := []uint64{0, 1, 4, 16, 100, 8181, 8192, 65536, 1 << 22, 1<<22 + 1, 1<<32 - 1}[g.r.Intn(11)]
		q.N = []uint64{f, off, cnt}
	case "Twrite":
		f := g.fid(c, func(s *vhsrvShadow) bool { return s.opened || s.xattr || s.xcreate })
		q.N = []uint64{f, []uint64{0, 0, 0, 3, 4, 8, 1<<64 - 1}[g.r.Intn(7)], []uint64{0, 1, 3, 4, 8, 100}[g.r.Intn(6)]}
		if g.msize[c] < 200 {
			q.N[2] = 1
		}
	case "Tgetattr":
		q.N = []uint64{g.fid(c, nil), uint64(g.r.Intn(0x4000))}
	case "Tsetattr":
		q.N = []uint64{g.fid(c, nil), uint64(g.r.Intn(0x200))}
	case "Txattrwalk":
		q.N = []uint64{g.fid(c, func(s *vhsrvShadow) bool { return !s.xattr }), uint64(g.r.Intn(6))}
		q.S = vhsrvH([]string{"", "user.a", "security.selinux", "a/b", ".."}[g.r.Intn(5)])
	case "Txattrcreate":
		q.N = []uint64{g.fid(c, nil), []uint64{0, 0, 3, 4, 8, 1 << 40}[g.r.Intn(6)], uint64(g.r.Intn(3))}
		q.S = vhsrvH([]string{"user.a", "", "../x"}[g.r.Intn(3)])
	case "Treaddir":
		q.N = []uint64{g.fid(c, func(s *vhsrvShadow) bool { return s.opened && vhsrvIsDirName(s) }), uint64(g.r.Intn(5)), []uint64{0, 64, 4096, 1 << 30}[g.r.Intn(4)]}
	case "Tlock":
		q.N = []uint64{g.fid(c, nil), uint64(g.r.Intn(3)), uint64(g.r.Intn(3)), uint64(g.r.Intn(100)), uint64(g.r.Intn(100)), uint64(g.r.Intn(1000))}
		q.S = vhsrvH("client")
	case "Tother":
		q.N = []uint64{uint64(msgRclunk)}
	}
	return q, true
}

// update feeds a reply back into the shadow.
func (g *vhsrvGen) update(st vhsrvStep) {
	q := st.Req
	sh := g.shadow[q.C]
	okReply := st.RT != int(msgRlerror)
	fault := st.RT == int(msgRlerror) && st.Errno == uint64(linux_EFAULT_vhsrv)
	switch q.T {
	case "Tversion":
		if st.RT == int(msgRversion) && len(st.Vals) > 0 && st.Vals[0] != 0 {
			g.msize[q.C] = st.Vals[0]
		}
	case "Tclunk", "Tremove":
		delete(sh, q.n(0))
	case "Tattach":
		if okReply {
			an := q.s(1)
			an = strings.TrimPrefix(an, "/")
			if an == "" {
				sh[q.n(0)] = &vhsrvShadow{root: true}
			} else {
				ps := strings.Split(an, "/")
				sh[q.n(0)] = &vhsrvShadow{last: ps[len(ps)-1]}
			}
		} else if fault {
			sh[q.n(0)] = &vhsrvShadow{unknown: true}
		}
	case "Twalk", "Twalkgetattr":
		if okReply {
			if len(q.S) == 0 {
				if s, ok := sh[q.n(0)]; ok {
					cp := *s
					cp.opened = false
					sh[q.n(1)] = &cp
				} else {
					sh[q.n(1)] = &vhsrvShadow{unknown: true}
				}
			} else {
				sh[q.n(1)] = &vhsrvShadow{last: q.s(len(q.S) - 1)}
			}
		} else if fault {
			if _, ok := sh[q.n(1)]; ok {
				sh[q.n(1)].unknown = true
			}
		}
	case "Tlcreate":
		if okReply {
			sh[q.n(0)] = &vhsrvShadow{last: q.s(0), opened: true}
		} else if fault {
			if _, ok := sh[q.n(0)]; ok {
				sh[q.n(0)].unknown = true
			}
		}
	case "Tlopen":
		if okReply {
			if s, ok := sh[q.n(0)]; ok {
				s.opened = true
			}
		}
	case "Txattrwalk":
		if okReply {
			sh[q.n(1)] = &vhsrvShadow{xattr: true}
		} else if fault {
			if _, ok := sh[q.n(1)]; ok {
				sh[q.n(1)].unknown = true
			}
		}
	case "Txattrcreate":
		if okReply {
			if s, ok := sh[q.n(0)]; ok {
				s.xcreate = true
			}
		}
	case "Trename":
		if okReply {
			if s, ok := sh[q.n(0)]; ok {
				s.last = q.s(0)
			}
		} else if fault {
			if s, ok := sh[q.n(0)]; ok {
				s.unknown = true
			}
		}
	}
}

const linux_EFAULT_vhsrv = 14

// vhsrvRun runs one history of n generated requests on a fresh server with nconn connections.
// fault (optional): step index, call index and answer to force.
func vhsrvRun(seed int64, n int, tune func(*vhsrvGen, *vhsrvBackend), faultStep, faultCall int, faultAns *vhsrvAns) vhsrvHist {
	r := rand.New(rand.NewSource(seed))
	nconn := 2
	w := vhsrvNewWorld(r, nconn)
	g := vhsrvNewGen(rand.New(rand.NewSource(seed^0x5eed)), nconn)
	w.b.wgaEnosys = r.Intn(3) == 0
	if tune != nil {
		tune(g, w.b)
	}
	h := vhsrvHist{Kind: "hist", Steps: []vhsrvStep{}}
	defer func() {
		w.b.mu.Lock()
		w.b.faultArmed = false
		w.b.errProb = 0
		w.b.mu.Unlock()
		w.close()
		w.finish(&h)
	}()
	var pre []vhsrvReq
	if r.Intn(10) > 0 {
		pre = append(pre, vhsrvReq{C: 0, T: "Tversion", N: []uint64{8192}, S: vhsrvH("9P2000.L")})
	}
	pre = append(pre, vhsrvReq{C: 0, T: "Tattach", N: []uint64{0, uint64(noFID), 0}, S: vhsrvH("u", "")})
	if r.Intn(5) > 0 {
		pre = append(pre, vhsrvReq{C: 1, T: "Tversion", N: []uint64{65536}, S: vhsrvH("9P2000.L.Google.7")},
			vhsrvReq{C: 1, T: "Tattach", N: []uint64{0, uint64(noFID), 0}, S: vhsrvH("u", "/")})
	}
	for i := 0; i < n; i++ {
		var q vhsrvReq
		if i < len(pre) {
			q = pre[i]
		} else {
			c := 0
			if g.r.Intn(4) == 0 {
				c = 1
			}
			q = g.next(c)
		}
		if faultAns != nil && i == faultStep {
			w.b.mu.Lock()
			w.b.faultArmed, w.b.faultCall, w.b.faultAns = true, faultCall, *faultAns
			w.b.mu.Unlock()
		}
		st, err := w.do(q)
		w.b.mu.Lock()
		w.b.faultArmed = false
		w.b.mu.Unlock()
		if err != nil {
			h.Broken = fmt.Sprintf("%v on request %+v", err, q)
			return h
		}
		h.Steps = append(h.Steps, st)
		g.update(st)
		if st.Reduced {
			// The panic hit the map-order dependent part of a rename: the model cannot follow the state,
			// but the server must keep answering.  Probe (not compared): clunk every fid the shadow knows;
			// a request that gets no reply (3 x 2 s) means a lock was left behind.
			w.b.mu.Lock()
			w.b.errProb = 0
			w.b.mu.Unlock()
			w.timeout = 2 * time.Second
			for c := 0; c < nconn; c++ {
				for f := uint64(0); f < 6; f++ {
					if _, ok := g.shadow[c][f]; !ok {
						continue
					}
					var err error
					for try := 0; try < 3; try++ {
						if _, err = w.do(vhsrvReq{C: c, T: "Tclunk", N: []uint64{f}, S: []string{}}); err == nil || !strings.Contains(err.Error(), "timeout") {
							break
						}
					}
					if err != nil {
						h.Broken = fmt.Sprintf("after a panic inside a rename notification the server stopped answering: %v (Tclunk fid %d on connection %d)", err, f, c)
						return h
					}
				}
			}
			break
		}
	}
	return h
}
