package p9

// vhg: history generator for the C05 / C08 harnesses.  A history is generated
// adaptively against a live session without failure injection (so that most
// requests are valid), and is then a fixed list of requests that can be
// replayed with injected failures, connection cuts and probes.

import (
	"math/rand"
	"sort"
)

type vhgFid struct {
	dir, opened, x bool
}

type vhgState struct {
	r     *rand.Rand
	s     *vhsSess
	fids  map[[2]int]*vhgFid
	ops   []vhsOp
	nconn int
	nfid  int
	nname int
	mode  string // "paths" (C08 mix) or "life" (C05 mix)
}

func (g *vhgState) keys(pred func(*vhgFid) bool) [][2]int {
	var ks [][2]int
	for k, f := range g.fids {
		if pred == nil || pred(f) {
			ks = append(ks, k)
		}
	}
	sort.Slice(ks, func(i, j int) bool { return ks[i][0] < ks[j][0] || (ks[i][0] == ks[j][0] && ks[i][1] < ks[j][1]) })
	return ks
}

func (g *vhgState) pick(pred func(*vhgFid) bool) ([2]int, bool) {
	ks := g.keys(pred)
	if len(ks) == 0 {
		return [2]int{}, false
	}
	return ks[g.r.Intn(len(ks))], true
}

// newFid prefers a free fid of connection c, sometimes a bound one (replacement).
func (g *vhgState) newFid(c int) int {
	if g.r.Intn(8) == 0 {
		return g.r.Intn(g.nfid)
	}
	for try := 0; try < 8; try++ {
		f := g.r.Intn(g.nfid)
		if _, ok := g.fids[[2]int{c, f}]; !ok {
			return f
		}
	}
	return g.r.Intn(g.nfid)
}

func (g *vhgState) name() int { return g.r.Intn(g.nname) }

func (g *vhgState) do(op vhsOp) int {
	g.ops = append(g.ops, op)
	e, _ := g.s.exec(op)
	return e
}

func isDir(f *vhgFid) bool  { return f.dir && !f.x }
func notX(f *vhgFid) bool   { return !f.x }
func isFile(f *vhgFid) bool { return !f.dir && !f.x }

// step generates and executes one request.
func (g *vhgState) step() {
	r := g.r
	if len(g.fids) == 0 || r.Intn(40) == 0 {
		c := r.Intn(g.nconn)
		f := g.newFid(c)
		var names []int
		if r.Intn(4) == 0 {
			for i := 0; i <= r.Intn(3); i++ {
				names = append(names, g.name())
			}
		}
		if g.do(vhsOp{K: "attach", A: []int{c, f}, Names: names}) == 0 {
			b := g.s.bound[[2]int{c, f}]
			g.fids[[2]int{c, f}] = &vhgFid{dir: b.dir}
		}
		return
	}
	w := r.Intn(100)
	if g.mode == "life" {
		// more binding / unbinding / failing walks, fewer renames
		w = r.Intn(130)
		if w >= 100 {
			w = []int{5, 12, 25, 40, 70, 90, 93, 96}[r.Intn(8)]
		}
	}
	switch {
	case w < 10: // mkdir
		if k, ok := g.pick(isDir); ok {
			g.do(vhsOp{K: "mk", A: []int{0, k[0], k[1], g.name()}})
		}
	case w < 24: // walk 1..3 names
		if k, ok := g.pick(notX); ok {
			nf := g.newFid(k[0])
			var names []int
			n := 1 + r.Intn(3)
			if r.Intn(3) > 0 {
				n = 1
			}
			for i := 0; i < n; i++ {
				names = append(names, g.name())
			}
			old := g.fids[[2]int{k[0], nf}]
			if g.do(vhsOp{K: "walk", A: []int{k[0], k[1], nf}, Names: names, G: r.Intn(3) == 0}) == 0 {
				b := g.s.bound[[2]int{k[0], nf}]
				g.fids[[2]int{k[0], nf}] = &vhgFid{dir: b.dir}
			} else {
				_ = old
			}
		}
	case w < 30: // clone (of an xattr fid: refused)
		if k, ok := g.pick(nil); ok {
			nf := g.newFid(k[0])
			src := *g.fids[k]
			if g.do(vhsOp{K: "walk", A: []int{k[0], k[1], nf}, G: r.Intn(2) == 0}) == 0 {
				g.fids[[2]int{k[0], nf}] = &vhgFid{dir: src.dir}
			}
		}
	case w < 38: // create: needs a directory fid that can be given up
		if k, ok := g.pick(isDir); ok {
			if g.do(vhsOp{K: "create", A: []int{k[0], k[1], g.name(), []int{0, 1, 2}[r.Intn(3)]}}) == 0 {
				g.fids[k] = &vhgFid{opened: true}
			}
		}
	case w < 43: // open
		if k, ok := g.pick(notX); ok {
			fl := 0
			if !g.fids[k].dir {
				fl = r.Intn(3)
			} else if r.Intn(6) == 0 {
				fl = 2
			}
			if g.do(vhsOp{K: "open", A: []int{k[0], k[1], fl}}) == 0 {
				g.fids[k].opened = true
			}
		}
	case w < 53: // renameat
		k1, ok1 := g.pick(isDir)
		if !ok1 {
			return
		}
		k2, ok2 := g.pick(func(f *vhgFid) bool { return f.dir && !f.x })
		if !ok2 {
			return
		}
		if k2[0] != k1[0] {
			k2 = k1
		}
		g.do(vhsOp{K: "renameat", A: []int{k1[0], k1[1], g.name(), k2[1], g.name()}})
	case w < 60: // rename
		k1, ok1 := g.pick(notX)
		if !ok1 {
			return
		}
		var ds []int
		for _, k := range g.keys(isDir) {
			if k[0] == k1[0] {
				ds = append(ds, k[1])
			}
		}
		if len(ds) == 0 {
			return
		}
		g.do(vhsOp{K: "rename", A: []int{k1[0], k1[1], ds[r.Intn(len(ds))], g.name()}})
	case w < 68: // unlinkat
		if k, ok := g.pick(isDir); ok {
			g.do(vhsOp{K: "unlinkat", A: []int{k[0], k[1], g.name()}})
		}
	case w < 72: // remove
		if k, ok := g.pick(nil); ok {
			if g.do(vhsOp{K: "remove", A: []int{k[0], k[1]}}) != 9 {
				delete(g.fids, k)
			}
		}
	case w < 80: // clunk
		if k, ok := g.pick(nil); ok {
			if g.do(vhsOp{K: "clunk", A: []int{k[0], k[1]}}) != 9 {
				delete(g.fids, k)
			}
		}
	case w < 84: // io on some fid
		if k, ok := g.pick(nil); ok {
			g.do(vhsOp{K: "io", A: []int{r.Intn(3), k[0], k[1]}})
		}
	case w < 87: // xattrwalk
		if k, ok := g.pick(nil); ok {
			nf := g.newFid(k[0])
			if g.do(vhsOp{K: "xattrwalk", A: []int{k[0], k[1], nf}}) == 0 {
				g.fids[[2]int{k[0], nf}] = &vhgFid{x: true}
			}
		}
	case w < 89: // xattrcreate
		if k, ok := g.pick(nil); ok {
			g.do(vhsOp{K: "xattrcreate", A: []int{k[0], k[1]}})
		}
	case w < 93: // the other path-dependent requests
		if k, ok := g.pick(nil); ok {
			switch r.Intn(6) {
			case 0:
				g.do(vhsOp{K: "setattr", A: []int{k[0], k[1]}})
			case 1:
				g.do(vhsOp{K: "readdir", A: []int{k[0], k[1]}})
			case 2:
				g.do(vhsOp{K: "readlink", A: []int{k[0], k[1]}})
			case 3:
				g.do(vhsOp{K: "mk", A: []int{1 + r.Intn(2), k[0], k[1], g.name()}})
			case 4:
				if k2, ok := g.pick(nil); ok && k2[0] == k[0] {
					g.do(vhsOp{K: "link", A: []int{k[0], k[1], k2[1], g.name()}})
				}
			default:
				g.do(vhsOp{K: "use", A: []int{5 + r.Intn(2), k[0], k[1]}})
			}
		}
	case w < 96: // getattr
		if k, ok := g.pick(nil); ok {
			g.do(vhsOp{K: "getattr", A: []int{k[0], k[1]}})
		}
	case w < 98: // an unbound fid
		c := r.Intn(g.nconn)
		f := g.nfid + r.Intn(3)
		switch r.Intn(4) {
		case 0:
			g.do(vhsOp{K: "clunk", A: []int{c, f}})
		case 1:
			g.do(vhsOp{K: "walk", A: []int{c, f, 0}, Names: []int{0}})
		case 2:
			g.do(vhsOp{K: "getattr", A: []int{c, f}})
		default:
			g.do(vhsOp{K: "remove", A: []int{c, f}})
		}
	default: // disconnect one connection
		c := r.Intn(g.nconn)
		if _, ok := g.s.conns[c]; ok {
			g.do(vhsOp{K: "stop", A: []int{c}})
			for k := range g.fids {
				if k[0] == c {
					delete(g.fids, k)
				}
			}
		}
	}
}

// vhgHistory generates a history of about n requests.
func vhgHistory(r *rand.Rand, n int, mode string, wga bool, nconn, nfid, nname int) []vhsOp {
	g := &vhgState{r: r, s: vhsNewSess(wga, nil), fids: map[[2]int]*vhgFid{}, nconn: nconn, nfid: nfid, nname: nname, mode: mode}
	for tries := 0; len(g.ops) < n && tries < 4*n && g.s.broken == "" && !vhsTooStuck(); tries++ {
		g.step()
	}
	g.s.abandon()
	return g.ops
}

var vhsMutating = map[string]bool{"mk": true, "create": true, "rename": true, "renameat": true, "unlinkat": true, "remove": true, "attach": true}

// vhsReplay runs a fixed history; with probes, every bound fid is asked for its
// attributes after each request that changes the tree.  cutAt >= 0: the
// request with that index is cut after cutBytes bytes and the history ends.
func vhsReplay(kind string, ops []vhsOp, wga bool, inject map[int]int, probes bool, cutAt, cutBytes int, complete bool) map[string]interface{} {
	s := vhsNewSess(wga, inject)
	for i, op := range ops {
		if i == cutAt {
			s.cut(op, cutBytes)
			break
		}
		s.exec(op)
		if probes && vhsMutating[op.K] {
			var ks [][2]int
			for k := range s.bound {
				ks = append(ks, k)
			}
			sort.Slice(ks, func(i, j int) bool { return ks[i][0] < ks[j][0] || (ks[i][0] == ks[j][0] && ks[i][1] < ks[j][1]) })
			for _, k := range ks {
				if _, ok := s.conns[k[0]]; ok {
					s.exec(vhsOp{K: "getattr", A: []int{k[0], k[1]}})
				}
			}
		}
		if s.broken != "" {
			break
		}
	}
	if s.broken != "" {
		complete = false // do not wait for a wedged server connection by connection
	}
	return s.finish(kind, wga, inject, complete)
}
