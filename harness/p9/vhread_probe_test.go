package p9

// Shared probe (C11, C16, C18): reads on ONE connection after a read that ended with zero bytes at end of
// file.  A zero-byte Rread is the normal end of every read-until-EOF loop; what it leaves in the connection's
// buffer pool is what the following reads get.  Afterwards two reads of different files are in flight
// together -- the first is held inside the backend AFTER it has filled its buffer, the second is received,
// served and answered meanwhile -- and each caller must get the bytes of its own file.

import (
	"fmt"
	"io"
	"net"
	"runtime"
	"sync/atomic"
	"time"

	"github.com/hugelgupf/p9/linux"
)

type vhrpFS struct {
	hold    int32 // atomic: 1 = a ReadAt of file A waits after filling its buffer
	entered chan struct{}
	release chan struct{}
}

type vhrpNode struct {
	File
	fs   *vhrpFS
	name string
	data []byte
}

func (n *vhrpNode) Attach() (File, error) { return &vhrpNode{fs: n.fs}, nil }
func (n *vhrpNode) Walk(names []string) ([]QID, File, error) {
	if len(names) == 0 {
		c := *n
		return nil, &c, nil
	}
	if len(names) != 1 || n.name != "" || len(names[0]) != 1 {
		return nil, nil, linux.ENOENT
	}
	d := make([]byte, 4096)
	for i := range d {
		d[i] = names[0][0]
	}
	return []QID{{Type: TypeRegular, Path: uint64(names[0][0])}}, &vhrpNode{fs: n.fs, name: names[0], data: d}, nil
}
func (n *vhrpNode) WalkGetAttr([]string) ([]QID, File, AttrMask, Attr, error) {
	return nil, nil, AttrMask{}, Attr{}, linux.ENOSYS
}
func (n *vhrpNode) GetAttr(AttrMask) (QID, AttrMask, Attr, error) {
	if n.name == "" {
		return QID{Type: TypeDir, Path: 1}, AttrMask{Mode: true}, Attr{Mode: ModeDirectory | 0o755}, nil
	}
	return QID{Type: TypeRegular, Path: uint64(n.name[0])}, AttrMask{Mode: true, Size: true}, Attr{Mode: ModeRegular | 0o644, Size: uint64(len(n.data))}, nil
}
func (n *vhrpNode) Open(OpenFlags) (QID, uint32, error) {
	return QID{Type: TypeRegular, Path: uint64(n.name[0])}, 0, nil
}
func (n *vhrpNode) Close() error         { return nil }
func (n *vhrpNode) Renamed(File, string) {}
func (n *vhrpNode) ReadAt(p []byte, off int64) (int, error) {
	if off >= int64(len(n.data)) {
		return 0, io.EOF
	}
	c := copy(p, n.data[off:])
	if n.name == "A" && atomic.LoadInt32(&n.fs.hold) == 1 {
		n.fs.entered <- struct{}{}
		<-n.fs.release
	}
	return c, nil
}

// vhReadAfterEOFProbe returns ok=false (and what went wrong) if a read delivered bytes that are not its file's.
// valid=false: the scenario could not be set up or a request was not answered in time (reported by the caller
// as a broken harness, not as a violation of the data clause).
func vhReadAfterEOFProbe(rounds int) (ok, valid bool, detail string) {
	prev := runtime.GOMAXPROCS(1) // one P: sync.Pool hands what was just put back to the next Get
	defer runtime.GOMAXPROCS(prev)
	entered, release := make(chan struct{}, 1), make(chan struct{})
	fs := &vhrpFS{entered: entered, release: release}
	srv := NewServer(&vhrpNode{fs: fs})
	a, b := net.Pipe()
	done := make(chan struct{})
	go func() { srv.Handle(a, a); close(done) }()
	defer func() {
		b.Close()
		select {
		case <-done:
		case <-time.After(5 * time.Second):
		}
	}()
	c, err := NewClient(b)
	if err != nil {
		return true, false, "NewClient: " + err.Error()
	}
	root, err := c.Attach("")
	if err != nil {
		return true, false, "attach: " + err.Error()
	}
	open := func(name string) File {
		_, f, err := root.Walk([]string{name})
		if err != nil {
			return nil
		}
		if _, _, err := f.Open(ReadOnly); err != nil {
			return nil
		}
		return f
	}
	fa, fb := open("A"), open("B")
	if fa == nil || fb == nil {
		return true, false, "walk/open failed"
	}
	all := func(p []byte, ch byte) bool {
		for _, x := range p {
			if x != ch {
				return false
			}
		}
		return true
	}
	for round := 0; round < rounds; round++ {
		// the end of a read-until-EOF loop: zero bytes, io.EOF
		z := make([]byte, 512)
		if n, err := fa.ReadAt(z, 4096); n != 0 || err != io.EOF {
			return true, false, fmt.Sprintf("read at end of file returned (%d, %v)", n, err)
		}
		atomic.StoreInt32(&fs.hold, 1)
		bufA, bufB := make([]byte, 2048), make([]byte, 2048)
		resA := make(chan error, 1)
		go func() { _, err := fa.ReadAt(bufA, 0); resA <- err }()
		select {
		case <-entered:
		case <-time.After(10 * time.Second):
			return true, false, "held read did not reach the backend"
		}
		resB := make(chan error, 1)
		go func() { _, err := fb.ReadAt(bufB, 1024); resB <- err }()
		select {
		case err := <-resB:
			if err != nil {
				release <- struct{}{}
				return true, false, "second read failed: " + err.Error()
			}
		case <-time.After(10 * time.Second):
			release <- struct{}{}
			return true, false, "second read not answered while the first is held in the backend"
		}
		time.Sleep(2 * time.Millisecond) // let the second reply's cleanup finish
		atomic.StoreInt32(&fs.hold, 0)
		release <- struct{}{}
		select {
		case err := <-resA:
			if err != nil {
				return true, false, "held read failed: " + err.Error()
			}
		case <-time.After(10 * time.Second):
			return true, false, "held read not answered"
		}
		if !all(bufB, 'B') {
			return false, true, fmt.Sprintf("round %d: the read of file B (2048 bytes at 1024) delivered bytes that are not B's", round)
		}
		if !all(bufA, 'A') {
			return false, true, fmt.Sprintf("round %d: the read of file A (2048 bytes at 0), held in the backend while B was read, delivered bytes that are not A's", round)
		}
	}
	return true, true, ""
}
