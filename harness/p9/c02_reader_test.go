package p9

// Shared by the C02 and C17 harnesses: a scripted, counting io.Reader, the recv
// loop that records what the real recv did, the decode oracle, frame corpus.

import (
	"bytes"
	"encoding/binary"
	"errors"
	"fmt"
	"io"
	"math/rand"
	"net"
	"os"
	"syscall"

	"github.com/u-root/uio/ulog"
)

// vh02Step is one script entry: the next Read hands over at most K bytes; EOF:
// if it hands over the last byte of the stream it returns io.EOF with the data.
type vh02Step struct {
	K   int  `json:"k"`
	EOF bool `json:"eof"`
	Err bool `json:"err,omitempty"` // this Read returns its bytes together with a non-EOF error
}

var vh02ErrInjected = errors.New("vh: injected read error")

type vh02Reader struct {
	data   []byte
	pos    int
	script []vh02Step
	si     int
	reads  []int // len(p) of every Read
	failed bool  // an injected error is permanent, like an error of a real connection
}

func (r *vh02Reader) Read(p []byte) (int, error) {
	r.reads = append(r.reads, len(p))
	if len(p) == 0 {
		return 0, nil
	}
	var st *vh02Step
	if r.si < len(r.script) {
		st = &r.script[r.si]
		r.si++
	}
	if r.failed {
		return 0, vh02ErrInjected
	}
	if r.pos >= len(r.data) {
		return 0, io.EOF
	}
	n := len(p)
	if rem := len(r.data) - r.pos; rem < n {
		n = rem
	}
	if st != nil && st.K < n {
		n = st.K
	}
	copy(p, r.data[r.pos:r.pos+n])
	r.pos += n
	if st != nil && st.Err {
		r.failed = true
		return n, vh02ErrInjected
	}
	if st != nil && st.EOF && n > 0 && r.pos == len(r.data) {
		return n, io.EOF
	}
	return n, nil
}

type vh02Event struct {
	Kind     string `json:"kind"` // deliver | reject | conn | panic
	Tag      int    `json:"tag"`
	Typ      int    `json:"typ"`
	Payload  []int  `json:"payload"`
	HasPay   bool   `json:"haspay"`
	Consumed int    `json:"consumed"`
}

// vh02RecvOnce runs the real recv once; a Go panic is reported as kind "panic".
func vh02RecvOnce(r io.Reader, msize uint32, consumed func() int) (ev vh02Event) {
	before := consumed()
	defer func() {
		if x := recover(); x != nil {
			ev = vh02Event{Kind: "panic", Consumed: consumed() - before}
		}
	}()
	tg, m, err := recv(ulog.Null, r, msize, msgDotLRegistry.get)
	ev.Consumed = consumed() - before
	ev.Tag = int(tg)
	if err != nil {
		var ce ConnError
		if errors.As(err, &ce) {
			ev.Kind = "conn"
		} else {
			ev.Kind = "reject"
		}
		return ev
	}
	ev.Kind = "deliver"
	ev.Typ = int(m.typ())
	if p, ok := m.(payloader); ok {
		ev.HasPay = true
		ev.Payload = vhBytes(p.Payload())
	}
	msgDotLRegistry.put(m)
	return ev
}

// vh02Loop calls recv until a connection error (or max calls).
func vh02Loop(r io.Reader, msize uint32, consumed func() int, max int) []vh02Event {
	var evs []vh02Event
	for i := 0; i < max; i++ {
		ev := vh02RecvOnce(r, msize, consumed)
		evs = append(evs, ev)
		if ev.Kind == "conn" || ev.Kind == "panic" {
			break
		}
	}
	return evs
}

type vh02Oracle struct {
	Off int  `json:"off"` // offset of the frame's body in the stream
	Len int  `json:"len"`
	Typ int  `json:"typ"`
	OK  bool `json:"ok"`
}

// vh02DecodeOK: does a fresh message of this type decode the body without overrun?
// (the decoder is called directly, not through recv)
func vh02DecodeOK(typ byte, body []byte) (ok bool) {
	defer func() {
		if recover() != nil {
			ok = false
		}
	}()
	m, err := msgDotLRegistry.get(0, msgType(typ))
	if err != nil {
		return false
	}
	b := append([]byte{}, body...)
	var buf buffer
	if p, isp := m.(payloader); isp {
		fs := int(p.FixedSize())
		if fs > len(b) {
			return false
		}
		p.SetPayload(b[fs:])
		buf = buffer{data: b[:fs]}
	} else {
		buf = buffer{data: b}
	}
	m.decode(&buf)
	return !buf.isOverrun()
}

// vh02Oracles walks the stream the way a receiver does (size fields) and asks the
// decoder about every complete frame with an acceptable size.
func vh02Oracles(stream []byte, msize uint32) []vh02Oracle {
	var out []vh02Oracle
	off := 0
	for off+7 <= len(stream) {
		size := binary.LittleEndian.Uint32(stream[off:])
		if size < 7 || size > msize || size > maximumLength || off+int(size) > len(stream) {
			break
		}
		typ := stream[off+4]
		body := stream[off+7 : off+int(size)]
		out = append(out, vh02Oracle{Off: off + 7, Len: len(body), Typ: int(typ), OK: vh02DecodeOK(typ, body)})
		off += int(size)
	}
	return out
}

type vh02RegEntry struct {
	Typ      int    `json:"typ"`
	Kind     int    `json:"kind"` // 1 plain, 2 payloader
	Fixed    int    `json:"fixed"`
	Name     string `json:"name"`
	TestOnly bool   `json:"testonly"` // registered by the package's own _test.go files, not by messages.go
}

// types the package's own tests add to msgDotLRegistry (transport_test.go)
var vh02TestOnly = map[string]bool{"*p9.badDecode": true}

func vh02Registry() []vh02RegEntry {
	var out []vh02RegEntry
	for t := 0; t < 256; t++ {
		m, err := msgDotLRegistry.get(0, msgType(t))
		if err != nil {
			continue
		}
		e := vh02RegEntry{Typ: t, Kind: 1, Name: fmt.Sprintf("%T", m)}
		e.TestOnly = vh02TestOnly[e.Name]
		if p, ok := m.(payloader); ok {
			e.Kind = 2
			e.Fixed = int(p.FixedSize())
		}
		out = append(out, e)
	}
	return out
}

func vh02Encode(tg uint16, m message) []byte {
	var b bytes.Buffer
	if err := send(ulog.Null, &b, tag(tg), m); err != nil {
		panic(err)
	}
	return b.Bytes()
}

func vh02RandName(r *rand.Rand) string {
	n := r.Intn(12)
	b := make([]byte, n)
	for i := range b {
		b[i] = byte('a' + r.Intn(26))
	}
	return string(b)
}

// vh02Corpus: valid frames: one zero-valued message of every registered type plus
// messages with strings, lists and payloads.
func vh02Corpus(r *rand.Rand) [][]byte {
	var out [][]byte
	tg := uint16(1)
	for _, e := range vh02Registry() {
		m, _ := msgDotLRegistry.get(0, msgType(e.Typ))
		if p, ok := m.(payloader); ok {
			p.SetPayload(nil)
		}
		out = append(out, vh02Encode(tg, m))
		tg++
	}
	data := make([]byte, 1+r.Intn(300))
	r.Read(data)
	names := []string{vh02RandName(r), vh02RandName(r), "x"}
	extra := []message{
		&tversion{MSize: 8192, Version: "9P2000.L.Google.7"},
		&twalk{fid: 1, newFID: 2, Names: names},
		&twalkgetattr{fid: 1, newFID: 2, Names: names[:2]},
		&twrite{fid: 3, Offset: 1 << 40, Data: data},
		&twrite{fid: 3, Offset: 0, Data: nil},
		&rread{Data: data[:len(data)/2]},
		&tread{fid: 4, Offset: 77, Count: 4096},
		&tlopen{fid: 5, Flags: ReadWrite},
		&tmkdir{Directory: 6, Name: vh02RandName(r) + "d", Permissions: 0o755, GID: 100},
		&tsymlink{Directory: 6, Name: "lnk", Target: "/some/where/else", GID: 5},
		&trenameat{OldDirectory: 1, OldName: "a", NewDirectory: 2, NewName: "bb"},
		&tflush{OldTag: 9},
		&tclunk{fid: 12},
		&rlerror{Error: 5},
		&tattach{fid: 1, Auth: tauth{Authenticationfid: noFID, UserName: "u", AttachName: "/", UID: 0}},
		&rreaddir{Count: 4096, Entries: []Dirent{{Name: "a", Offset: 1, Type: 4}, {Name: "bcd", Offset: 2}}},
		&rwalk{QIDs: []QID{{Type: 1, Version: 2, Path: 3}, {Path: 9}}},
		&txattrcreate{fid: 3, Name: "user.x", AttrSize: 10, Flags: 1},
	}
	for _, m := range extra {
		out = append(out, vh02Encode(tg, m))
		tg++
	}
	return out
}

func vh02SetSize(f []byte, size uint32) []byte {
	g := append([]byte{}, f...)
	if len(g) >= 4 {
		binary.LittleEndian.PutUint32(g, size)
	}
	return g
}

// vh02Mutate returns a damaged copy of a valid frame; keepSize: the size field still
// equals the length (a well-delimited frame).
func vh02Mutate(r *rand.Rand, f []byte) []byte {
	g := append([]byte{}, f...)
	switch r.Intn(9) {
	case 0: // bit flip in the body
		if len(g) > 7 {
			i := 7 + r.Intn(len(g)-7)
			g[i] ^= 1 << uint(r.Intn(8))
		}
	case 1: // bit flip anywhere (including the size field)
		i := r.Intn(len(g))
		g[i] ^= 1 << uint(r.Intn(8))
	case 2: // a 16-bit field becomes huge (string length / list count > rest)
		if len(g) > 9 {
			i := 7 + r.Intn(len(g)-8)
			g[i], g[i+1] = 0xff, byte(r.Intn(256))
		}
	case 3: // a 32-bit field becomes huge
		if len(g) > 11 {
			i := 7 + r.Intn(len(g)-10)
			binary.LittleEndian.PutUint32(g[i:], 0xfffffff0+uint32(r.Intn(16)))
		}
	case 4: // body cut short, size adjusted (well-delimited, body too short)
		if len(g) > 7 {
			g = g[:7+r.Intn(len(g)-7)]
			binary.LittleEndian.PutUint32(g, uint32(len(g)))
		}
	case 5: // trailing bytes inside the frame
		ex := make([]byte, 1+r.Intn(9))
		r.Read(ex)
		g = append(g, ex...)
		binary.LittleEndian.PutUint32(g, uint32(len(g)))
	case 6: // unknown or other type
		g[4] = byte(r.Intn(256))
	case 7: // random body of the same length
		r.Read(g[7:])
	default: // tag
		g[5], g[6] = byte(r.Intn(256)), byte(r.Intn(256))
	}
	return g
}

// vh02Cuts: a random script for a stream of n bytes.
func vh02Cuts(r *rand.Rand, n int) []vh02Step {
	var sc []vh02Step
	switch r.Intn(4) {
	case 0: // single bytes
		for i := 0; i < n+2; i++ {
			sc = append(sc, vh02Step{K: 1, EOF: r.Intn(2) == 0})
		}
	case 1: // random small pieces
		for left := n; left > 0; {
			k := 1 + r.Intn(9)
			sc = append(sc, vh02Step{K: k, EOF: r.Intn(2) == 0})
			left -= k
		}
	case 2: // random large pieces
		for left := n; left > 0; {
			k := 1 + r.Intn(n+1)
			sc = append(sc, vh02Step{K: k, EOF: r.Intn(2) == 0})
			left -= k
		}
	default: // a few cuts, then full reads; last read carries EOF
		for i := 0; i < 3; i++ {
			sc = append(sc, vh02Step{K: 1 + r.Intn(n+1), EOF: true})
		}
		for i := 0; i < 6; i++ {
			sc = append(sc, vh02Step{K: n + 1, EOF: true})
		}
	}
	return sc
}

// vh02SocketPair returns two connected unix stream sockets as *net.UnixConn.
func vh02SocketPair() (*net.UnixConn, *net.UnixConn, error) {
	fds, err := syscall.Socketpair(syscall.AF_UNIX, syscall.SOCK_STREAM, 0)
	if err != nil {
		return nil, nil, err
	}
	mk := func(fd int) (*net.UnixConn, error) {
		f := os.NewFile(uintptr(fd), "vhsock")
		defer f.Close()
		c, err := net.FileConn(f)
		if err != nil {
			return nil, err
		}
		return c.(*net.UnixConn), nil
	}
	a, err := mk(fds[0])
	if err != nil {
		return nil, nil, err
	}
	b, err := mk(fds[1])
	if err != nil {
		a.Close()
		return nil, nil, err
	}
	return a, b, nil
}

// vh02Plain hides syscall.Conn so that vecnet takes the generic io.Reader path.
type vh02Plain struct{ c net.Conn }

func (p vh02Plain) Read(b []byte) (int, error)  { return p.c.Read(b) }
func (p vh02Plain) Write(b []byte) (int, error) { return p.c.Write(b) }
func (p vh02Plain) Close() error                { return p.c.Close() }
