package p9

// vhloop driver: runs one scripted scenario (phases of "send these frames" /
// "release this gate") against the real Server.Handle and records, per phase, the
// reply frames that arrived.  A small bookkeeping twin tells the driver how many
// replies / backend entries to wait for in a phase (so that waiting is event
// based); the JUDGE is the Coq side (Loop/Cases.v), which recomputes the
// prediction with the model and evaluates the property on the observation.

import (
	"encoding/json"
	"fmt"
	"math/rand"
	"os"
	"sort"
)

type vhloopFrame struct {
	K    string `json:"k"` // read | clunk | flush | badtype | short | rmsg
	Tag  int    `json:"tag"`
	Gate int    `json:"gate"` // read/clunk: gate id, -1 = not gated
	Mode int    `json:"mode"` // not gated: 0 ok, 1 backend error, 2 backend panic
	Old  int    `json:"old"`  // flush
	Fid  int    `json:"fid"`
}

type vhloopStep struct {
	Op     string        `json:"op"` // send | release
	Frames []vhloopFrame `json:"frames,omitempty"`
	Gate   int           `json:"gate"`
	Mode   int           `json:"mode"`
}

type vhloopScn struct {
	Name  string       `json:"name"`
	Frag  bool         `json:"frag"`
	NFid  int          `json:"nfid"`
	Steps []vhloopStep `json:"steps"`
}

type vhloopPhase struct {
	Replies []vhloopReply `json:"replies"`
	Missing int           `json:"missing"` // replies the twin expected that did not arrive within 3 x 1 s
	Stall   bool          `json:"stall"`   // the server stopped taking frames
	NoEnter []int         `json:"noenter"` // gated requests that never reached the backend
}

type vhloopObs struct {
	Kind     string        `json:"kind"`
	Prop     string        `json:"prop"`
	Scn      vhloopScn     `json:"scn"`
	Setup    bool          `json:"setup"` // handshake (Tversion, Tattach, Tlopen per fid) answered as expected
	Phases   []vhloopPhase `json:"phases"`
	Trailing []vhloopReply `json:"trailing"`
	Left     int           `json:"left"`
	Bad      bool          `json:"bad"`
	Returned bool          `json:"returned"`
	Hung     bool          `json:"hung"`
}

func vhloopBytes(f vhloopFrame) []byte {
	switch f.K {
	case "read":
		off := uint64(f.Gate)
		if f.Gate < 0 {
			off = uint64(1<<40) + uint64(f.Mode) // fresh, never shut: returns at once
		}
		return vhloopEnc(uint16(f.Tag), &tread{fid: fid(f.Fid), Offset: off, Count: vhloopReadCount})
	case "clunk":
		return vhloopEnc(uint16(f.Tag), &tclunk{fid: fid(f.Fid)})
	case "flush":
		return vhloopEnc(uint16(f.Tag), &tflush{OldTag: tag(f.Old)})
	case "badtype": // unknown message type: recv returns the frame's tag with an error
		return vhFrame(99, uint16(f.Tag), []byte{1, 2, 3})
	case "short": // Tread with a truncated body: recv returns NOTAG with an error
		return vhFrame(byte(msgTread), uint16(f.Tag), []byte{1, 2, 3})
	case "rmsg": // an R-message: decodes, has no handler
		return vhloopEnc(uint16(f.Tag), &rflush{})
	}
	panic("vhloop: frame kind " + f.K)
}

// ---------------------------------------------------------------------------
// the twin

type vhloopEntry struct {
	tag, gate, rtyp int
	flush           bool
	waits           *vhloopEntry
	done            bool
}

type vhloopTwin struct {
	holder  map[int]*vhloopEntry // tag -> request surely in flight
	unsure  []*vhloopEntry       // accepted in this phase, will finish within it
	pending []*vhloopEntry
}

type vhloopWant struct {
	replies map[[2]int]int // (tag, 0 = any of {rtyp, Rlerror}) -> count ; we only count per tag
	enters  []int
}

func (t *vhloopTwin) send(f vhloopFrame, w *vhloopWant) {
	switch f.K {
	case "badtype":
		w.replies[[2]int{f.Tag, 0}]++
		return
	case "short":
		w.replies[[2]int{int(noTag), 0}]++
		return
	}
	if h := t.holder[f.Tag]; h != nil {
		return // tag in flight: dropped without a reply
	}
	e := &vhloopEntry{tag: f.Tag, gate: -1}
	t.holder[f.Tag] = e
	switch f.K {
	case "read", "clunk":
		if f.Gate >= 0 {
			e.gate = f.Gate
			t.pending = append(t.pending, e)
			w.enters = append(w.enters, f.Gate)
			return
		}
	case "flush":
		e.flush = true
		if h := t.holder[f.Old]; h != nil && f.Old != f.Tag && t.isPending(h) {
			e.waits = h
			t.pending = append(t.pending, e)
			return
		}
	}
	w.replies[[2]int{f.Tag, 0}]++
	t.unsure = append(t.unsure, e)
}

func (t *vhloopTwin) isPending(e *vhloopEntry) bool {
	for _, p := range t.pending {
		if p == e {
			return true
		}
	}
	return false
}

func (t *vhloopTwin) release(g int, w *vhloopWant) {
	var fin func(e *vhloopEntry)
	fin = func(e *vhloopEntry) {
		e.done = true
		w.replies[[2]int{e.tag, 0}]++
		if t.holder[e.tag] == e {
			delete(t.holder, e.tag)
		}
		var rest []*vhloopEntry
		for _, p := range t.pending {
			if p != e {
				rest = append(rest, p)
			}
		}
		t.pending = rest
		for _, p := range append([]*vhloopEntry(nil), t.pending...) {
			if p.waits == e && !p.done {
				fin(p)
			}
		}
	}
	for _, p := range append([]*vhloopEntry(nil), t.pending...) {
		if !p.flush && p.gate == g && !p.done {
			fin(p)
		}
	}
}

func (t *vhloopTwin) endPhase() {
	for _, e := range t.unsure {
		if t.holder[e.tag] == e {
			delete(t.holder, e.tag)
		}
	}
	t.unsure = nil
}

// ---------------------------------------------------------------------------

// vhloopBarriers makes a script race free with respect to dropped frames: nothing tells the peer that
// the server has finished StartTag for a frame it drops, so every send step containing such a frame
// ends with an ungated read on a fresh tag; its reply shows that the receive lock has moved on (a
// frame is received only after the previous receiver has done StartTag and unlocked recvMu).
func vhloopBarriers(scn vhloopScn) vhloopScn {
	tw := &vhloopTwin{holder: map[int]*vhloopEntry{}}
	n := 0
	for si, st := range scn.Steps {
		w := &vhloopWant{replies: map[[2]int]int{}}
		if st.Op == "release" {
			tw.release(st.Gate, w)
			tw.endPhase()
			continue
		}
		dropped, lastUngated := false, false
		for _, f := range st.Frames {
			isDrop := f.K != "badtype" && f.K != "short" && tw.holder[f.Tag] != nil
			before := len(tw.unsure)
			tw.send(f, w)
			dropped = dropped || isDrop
			lastUngated = len(tw.unsure) > before || f.K == "badtype" || f.K == "short"
		}
		if dropped && !lastUngated {
			b := vhloopRead(60000+n, -1)
			n++
			tw.send(b, w)
			scn.Steps[si].Frames = append(append([]vhloopFrame{}, st.Frames...), b)
		}
		tw.endPhase()
	}
	return scn
}

func vhloopRun(prop string, scn vhloopScn) vhloopObs {
	o := vhloopObs{Kind: "scn", Prop: prop, Scn: scn, Phases: []vhloopPhase{}, Trailing: []vhloopReply{}}
	v := vhloopDial(scn.Frag)
	// handshake
	o.Setup = true
	hs := [][]byte{vhloopEnc(uint16(noTag), &tversion{MSize: 8192, Version: "9P2000.L"})}
	want := []msgType{msgRversion}
	for k := 0; k < scn.NFid; k++ {
		hs = append(hs, vhloopEnc(1, &tattach{fid: fid(k), Auth: tauth{Authenticationfid: noFID, UserName: "u", AttachName: "", UID: NoUID}}))
		hs = append(hs, vhloopEnc(1, &tlopen{fid: fid(k), Flags: ReadOnly}))
		want = append(want, msgRattach, msgRlopen)
	}
	for i, b := range hs {
		if err := v.write(b); err != nil {
			o.Setup = false
			break
		}
		r, ok := v.next()
		if !ok || msgType(r.Typ) != want[i] {
			o.Setup = false
			break
		}
	}
	tw := &vhloopTwin{holder: map[int]*vhloopEntry{}}
	for _, st := range scn.Steps {
		if !o.Setup || o.Hung {
			break
		}
		ph := vhloopPhase{Replies: []vhloopReply{}, NoEnter: []int{}}
		w := &vhloopWant{replies: map[[2]int]int{}}
		switch st.Op {
		case "send":
			for _, f := range st.Frames {
				if (f.K == "read" || f.K == "clunk") && f.Gate >= 0 {
					v.bk.shut(f.Gate)
				}
				if f.K == "read" && f.Gate < 0 && f.Mode != 0 {
					g := int(uint64(1<<40) + uint64(f.Mode))
					v.bk.shut(g)
					v.bk.release(g, f.Mode)
				}
				if f.K == "flush" {
					// which backend call must be over before this flush is answered: the one of the
					// request in flight with tag Old (if it is a gated backend request)
					if tw.holder[f.Tag] == nil {
						g := -1
						if h := tw.holder[f.Old]; h != nil && f.Old != f.Tag {
							g = h.gate
						}
						v.mu.Lock()
						v.targets[f.Tag] = g
						v.mu.Unlock()
					}
				}
				tw.send(f, w)
				if err := v.write(vhloopBytes(f)); err != nil {
					ph.Stall = true
					break
				}
			}
		case "release":
			tw.release(st.Gate, w)
			v.bk.release(st.Gate, st.Mode)
		}
		need := 0
		for _, n := range w.replies {
			need += n
		}
		for need > 0 && !ph.Stall {
			r, ok := v.next()
			if !ok {
				ph.Missing = need
				o.Hung = true
				break
			}
			ph.Replies = append(ph.Replies, r)
			k := [2]int{r.Tag, 0}
			if w.replies[k] > 0 {
				w.replies[k]--
				need--
			}
		}
		if !o.Hung && !ph.Stall {
			for _, g := range w.enters {
				if !v.waitEnter(g) {
					ph.NoEnter = append(ph.NoEnter, g)
					o.Hung = true
				}
			}
		}
		for {
			r, ok := v.poll()
			if !ok {
				break
			}
			ph.Replies = append(ph.Replies, r)
		}
		if ph.Stall {
			o.Hung = true
		}
		tw.endPhase()
		o.Phases = append(o.Phases, ph)
	}
	o.Returned, o.Trailing, o.Left, o.Bad = v.finish()
	if o.Trailing == nil {
		o.Trailing = []vhloopReply{}
	}
	return o
}

// ---------------------------------------------------------------------------
// scenario construction helpers

func vhloopSend(fs ...vhloopFrame) vhloopStep { return vhloopStep{Op: "send", Frames: fs} }
func vhloopRel(g, mode int) vhloopStep        { return vhloopStep{Op: "release", Gate: g, Mode: mode} }
func vhloopRead(tag, gate int) vhloopFrame    { return vhloopFrame{K: "read", Tag: tag, Gate: gate} }
func vhloopFlush(tag, old int) vhloopFrame    { return vhloopFrame{K: "flush", Tag: tag, Old: old} }
func vhloopClunk(tag, fid int, gated bool) vhloopFrame {
	g := -1
	if gated {
		g = vhloopCloseBase + fid
	}
	return vhloopFrame{K: "clunk", Tag: tag, Gate: g, Fid: fid}
}

func vhloopPerms(n int) [][]int {
	if n == 0 {
		return [][]int{{}}
	}
	var out [][]int
	for _, p := range vhloopPerms(n - 1) {
		for i := 0; i <= len(p); i++ {
			q := append(append(append([]int{}, p[:i]...), n-1), p[i:]...)
			out = append(out, q)
		}
	}
	return out
}

// vhloopRandom builds a race-free random scenario: tags are re-used only when their previous user is
// surely finished (reply seen in an earlier phase) or surely still in flight (gated / waiting flush).
func vhloopRandom(r *rand.Rand, name string, nact, maxInFlight int, frag bool) vhloopScn {
	return vhloopRandomW(r, name, nact, maxInFlight, frag, false)
}

// vhloopRandomFlush: the same with every second action a flush.
func vhloopRandomFlush(r *rand.Rand, name string) vhloopScn {
	return vhloopRandomW(r, name, 6+r.Intn(20), 1+r.Intn(3), r.Intn(8) == 0, true)
}

func vhloopRandomW(r *rand.Rand, name string, nact, maxInFlight int, frag, flushHeavy bool) vhloopScn {
	scn := vhloopScn{Name: name, Frag: frag, NFid: 6}
	tw := &vhloopTwin{holder: map[int]*vhloopEntry{}}
	nextGate := 1
	nextTag := 1
	nextClunk := 1
	var answered []int
	var closed []int // gates shut and not yet released
	pickFree := func() int {
		for {
			var t int
			switch {
			case len(answered) > 0 && r.Intn(3) == 0:
				t = answered[r.Intn(len(answered))] // immediate re-use of an answered tag
			case r.Intn(40) == 0:
				t = []int{0, 65534, 65535}[r.Intn(3)]
			default:
				t = nextTag
				nextTag++
			}
			if tw.holder[t] == nil {
				return t
			}
		}
	}
	inFlightTags := func() []int {
		var l []int
		for t := range tw.holder {
			l = append(l, t)
		}
		sort.Ints(l)
		return l
	}
	for a := 0; a < nact; a++ {
		w := &vhloopWant{replies: map[[2]int]int{}}
		c := r.Intn(100)
		if flushHeavy && r.Intn(2) == 0 {
			c = 40 + r.Intn(22)
		}
		var st vhloopStep
		switch {
		case c < 30 && len(closed) < maxInFlight: // gated read
			f := vhloopRead(pickFree(), nextGate)
			closed = append(closed, nextGate)
			nextGate++
			st = vhloopSend(f)
		case c < 40: // ungated read, sometimes failing
			f := vhloopRead(pickFree(), -1)
			if r.Intn(4) == 0 {
				f.Mode = 1 + r.Intn(2)
			}
			st = vhloopSend(f)
		case c < 62: // flush
			var old int
			fl := inFlightTags()
			switch k := r.Intn(6); {
			case k < 3 && len(fl) > 0:
				old = fl[r.Intn(len(fl))]
			case k == 3 && len(answered) > 0:
				old = answered[r.Intn(len(answered))]
			case k == 4:
				old = -1 // own tag
			default:
				old = nextTag + 100 + r.Intn(50) // idle
			}
			t := pickFree()
			if old < 0 {
				old = t
			}
			st = vhloopSend(vhloopFlush(t, old))
		case c < 68 && len(inFlightTags()) > 0: // duplicate of a tag in flight: must be dropped
			fl := inFlightTags()
			t := fl[r.Intn(len(fl))]
			if r.Intn(2) == 0 {
				st = vhloopSend(vhloopRead(t, -1))
			} else {
				st = vhloopSend(vhloopFlush(t, t))
			}
		case c < 74: // rejected frames
			k := []string{"badtype", "short", "rmsg"}[r.Intn(3)]
			t := pickFree()
			st = vhloopSend(vhloopFrame{K: k, Tag: t})
		case c < 78 && nextClunk < scn.NFid && len(closed) < maxInFlight: // gated clunk
			f := vhloopClunk(pickFree(), nextClunk, true)
			closed = append(closed, f.Gate)
			nextClunk++
			st = vhloopSend(f)
		case len(closed) > 0: // release
			i := r.Intn(len(closed))
			g := closed[i]
			closed = append(closed[:i], closed[i+1:]...)
			mode := 0
			if g < vhloopCloseBase && r.Intn(5) == 0 {
				mode = 1 + r.Intn(2)
			}
			st = vhloopRel(g, mode)
		default:
			st = vhloopSend(vhloopRead(pickFree(), -1))
		}
		if st.Op == "send" {
			for _, f := range st.Frames {
				tw.send(f, w)
			}
		} else {
			tw.release(st.Gate, w)
		}
		for k := range w.replies {
			if k[0] != int(noTag) {
				answered = append(answered, k[0])
			}
		}
		tw.endPhase()
		scn.Steps = append(scn.Steps, st)
	}
	for _, g := range closed {
		scn.Steps = append(scn.Steps, vhloopRel(g, 0))
	}
	return scn
}

// vhloopBatch: n gated reads in flight at once (tags adversarial), then released in the given order.
func vhloopBatch(name string, n int, order []int, frag bool, together bool) vhloopScn {
	scn := vhloopScn{Name: name, Frag: frag, NFid: 1}
	var fs []vhloopFrame
	for i := 0; i < n; i++ {
		fs = append(fs, vhloopRead(40000+i, i+1))
	}
	if together {
		scn.Steps = append(scn.Steps, vhloopSend(fs...))
	} else {
		for _, f := range fs {
			scn.Steps = append(scn.Steps, vhloopSend(f))
		}
	}
	for _, i := range order {
		scn.Steps = append(scn.Steps, vhloopRel(i+1, 0))
		// immediate re-use of the tag just answered, not gated
		scn.Steps = append(scn.Steps, vhloopSend(vhloopRead(40000+i, -1)))
	}
	return scn
}

func vhloopName(s string, a ...interface{}) string { return fmt.Sprintf(s, a...) }

// vhloopLoadReplay reads a replay file written by ./check (the scenario is under replay.scn).
func vhloopLoadReplay(p string) (vhloopScn, bool) {
	b, err := os.ReadFile(p)
	if err != nil {
		return vhloopScn{}, false
	}
	var x struct {
		Replay struct {
			Scn vhloopScn `json:"scn"`
		} `json:"replay"`
	}
	if json.Unmarshal(b, &x) != nil || len(x.Replay.Scn.Steps) == 0 {
		return vhloopScn{}, false
	}
	return x.Replay.Scn, true
}

// vhloopRunB runs a generated scenario after making it race free (replays are run as recorded).
func vhloopRunB(prop string, scn vhloopScn) vhloopObs { return vhloopRun(prop, vhloopBarriers(scn)) }

// vhloopEmit writes an observation through to the file at once (a later hang must not lose it) and
// counts the scenarios in which the server got stuck: each costs seconds of watchdog time, and three
// are evidence enough, so the tests stop generating after that.
var vhloopStuck int

func vhloopEmit(out *vhOut, o vhloopObs) bool {
	out.Emit(o)
	out.mu.Lock()
	out.w.Flush()
	out.mu.Unlock()
	if o.Hung || !o.Returned || !o.Setup {
		vhloopStuck++
	}
	return vhloopStuck < 3
}
