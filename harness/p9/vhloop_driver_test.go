package p9

// vhloop driver: runs one scripted scenario (phases of "send these frames on
// connection c" / "release this gate" / "peer of c stops reading" / "peer of c
// hangs up") against the real Server.Handle (one Server, one gated backend, one
// or two connections) and records, per phase, the reply frames that arrived.  A
// small bookkeeping twin tells the driver how many replies / backend entries to
// wait for in a phase (so that waiting is event based); the JUDGE is the Coq side
// (Loop/Cases.v), which recomputes the prediction with the model and evaluates
// the property on the observation.

import (
	"encoding/json"
	"fmt"
	"math/rand"
	"os"
	"sort"
	"time"
)

type vhloopFrame struct {
	K       string `json:"k"` // read | clunk | attach | getattr | setattr | clone | flush | badtype | short | rmsg
	Tag     int    `json:"tag"`
	Gate    int    `json:"gate"`    // the gate whose release lets this request finish, -1 = none
	NoEnter bool   `json:"noenter"` // the gate is not its own backend call: it waits (lock order) for the request that is in it
	Mode    int    `json:"mode"`    // not gated: 0 ok, 1 backend error, 2 backend panic
	Old     int    `json:"old"`     // flush
	Fid     int    `json:"fid"`
	NewFid  int    `json:"newfid"` // clone, walk1, xattrwalk
	Fid2    int    `json:"fid2"`   // second fid (target directory, link target)
	Files   []int  `json:"files"`  // Files this request has to itself: every backend call on them is made on its behalf
}

type vhloopStep struct {
	Op     string        `json:"op"` // send | release | break | hangup | hold (Mode = milliseconds)
	Conn   int           `json:"conn"`
	Frames []vhloopFrame `json:"frames,omitempty"`
	Gate   int           `json:"gate"` // release: the gate; hangup: gate of a Close the server's stop() will block in (0 none)
	Mode   int           `json:"mode"`
}

type vhloopScn struct {
	Name  string       `json:"name"`
	Frag  bool         `json:"frag"`
	NConn int          `json:"nconn"`
	NFid  int          `json:"nfid"`
	Kinds string       `json:"kinds"` // per fid: r regular opened read-write (default), u regular not opened, d directory not opened, D directory opened, l symlink
	Steps []vhloopStep `json:"steps"`
}

type vhloopPhase struct {
	Replies []vhloopReply `json:"replies"`
	Missing int           `json:"missing"` // replies the twin expected that did not arrive within 3 x 1 s
	Stall   bool          `json:"stall"`   // the server stopped taking frames
	NoEnter []int         `json:"noenter"` // gated requests that never reached the backend
}

type vhloopObs struct {
	Kind     string        `json:"kind"`
	Prop     string        `json:"prop"`
	Scn      vhloopScn     `json:"scn"`
	Setup    bool          `json:"setup"` // handshake (Tversion, Tattach, Tlopen per fid) answered as expected
	Phases   []vhloopPhase `json:"phases"`
	Trailing []vhloopReply `json:"trailing"`
	Left     int           `json:"left"` // bytes of an incomplete frame at the end of a stream we did not cut ourselves
	Bad      bool          `json:"bad"`
	Returned bool          `json:"returned"` // every Server.Handle returned after its peer closed
	Hung     bool          `json:"hung"`
}

func vhloopBytes(f vhloopFrame) []byte {
	tg := uint16(f.Tag)
	switch f.K {
	case "read", "write":
		off := uint64(f.Gate)
		if f.Gate < 0 {
			off = uint64(1<<40) + uint64(f.Mode) // fresh, never shut: returns at once
		}
		if f.K == "write" {
			return vhloopEnc(tg, &twrite{fid: fid(f.Fid), Offset: off, Data: []byte("0123456789")})
		}
		return vhloopEnc(tg, &tread{fid: fid(f.Fid), Offset: off, Count: vhloopReadCount})
	case "clunk":
		return vhloopEnc(tg, &tclunk{fid: fid(f.Fid)})
	case "attach":
		return vhloopEnc(tg, &tattach{fid: fid(f.Fid), Auth: tauth{Authenticationfid: noFID, UserName: "u", AttachName: "", UID: NoUID}})
	case "getattr":
		return vhloopEnc(tg, &tgetattr{fid: fid(f.Fid), AttrMask: AttrMaskAll})
	case "setattr":
		return vhloopEnc(tg, &tsetattr{fid: fid(f.Fid)})
	case "clone":
		return vhloopEnc(tg, &twalkgetattr{fid: fid(f.Fid), newFID: fid(f.NewFid)})
	case "walk1":
		return vhloopEnc(tg, &twalk{fid: fid(f.Fid), newFID: fid(f.NewFid), Names: []string{"a"}})
	case "lopen":
		return vhloopEnc(tg, &tlopen{fid: fid(f.Fid), Flags: ReadOnly})
	case "fsync":
		return vhloopEnc(tg, &tfsync{fid: fid(f.Fid)})
	case "statfs":
		return vhloopEnc(tg, &tstatfs{fid: fid(f.Fid)})
	case "readlink":
		return vhloopEnc(tg, &treadlink{fid: fid(f.Fid)})
	case "lock":
		return vhloopEnc(tg, &tlock{fid: fid(f.Fid), Type: WriteLock, Client: "c"})
	case "xattrwalk":
		return vhloopEnc(tg, &txattrwalk{fid: fid(f.Fid), newFID: fid(f.NewFid), Name: "user.a"})
	case "readdir":
		return vhloopEnc(tg, &treaddir{Directory: fid(f.Fid), Offset: 0, Count: 512})
	case "lcreate":
		return vhloopEnc(tg, &tlcreate{fid: fid(f.Fid), Name: "n", OpenFlags: ReadWrite, Permissions: 0o644, GID: NoGID})
	case "mkdir":
		return vhloopEnc(tg, &tmkdir{Directory: fid(f.Fid), Name: "n", Permissions: 0o755, GID: NoGID})
	case "symlink":
		return vhloopEnc(tg, &tsymlink{Directory: fid(f.Fid), Name: "n", Target: "x", GID: NoGID})
	case "mknod":
		return vhloopEnc(tg, &tmknod{Directory: fid(f.Fid), Name: "n", Mode: ModeRegular | 0o644, GID: NoGID})
	case "link":
		return vhloopEnc(tg, &tlink{Directory: fid(f.Fid), Target: fid(f.Fid2), Name: "n"})
	case "unlinkat":
		return vhloopEnc(tg, &tunlinkat{Directory: fid(f.Fid), Name: "n"})
	case "renameat":
		return vhloopEnc(tg, &trenameat{OldDirectory: fid(f.Fid), OldName: "n", NewDirectory: fid(f.Fid2), NewName: "m"})
	case "rename":
		return vhloopEnc(tg, &trename{fid: fid(f.Fid), Directory: fid(f.Fid2), Name: "m"})
	case "flush":
		return vhloopEnc(tg, &tflush{OldTag: tag(f.Old)})
	case "badtype": // unknown message type: recv returns the frame's tag with an error
		return vhFrame(99, tg, []byte{1, 2, 3})
	case "short": // Tread with a truncated body: recv returns NOTAG with an error
		return vhFrame(byte(msgTread), tg, []byte{1, 2, 3})
	case "rmsg": // an R-message: decodes, has no handler
		return vhloopEnc(tg, &rflush{})
	}
	panic("vhloop: frame kind " + f.K)
}

func vhloopIsOp(k string) bool {
	switch k {
	case "flush", "badtype", "short", "rmsg":
		return false
	}
	return true
}

// ---------------------------------------------------------------------------
// the twin

type vhloopEntry struct {
	conn, tag, gate int
	flush           bool
	waits           *vhloopEntry
	done            bool
	frame           vhloopFrame
}

// root follows a chain of flushes down to the request they all wait for.
func (e *vhloopEntry) root() *vhloopEntry {
	for e != nil && e.flush {
		e = e.waits
	}
	return e
}

type vhloopTwin struct {
	holder  map[[2]int]*vhloopEntry // (conn, tag) -> request surely in flight
	unsure  []*vhloopEntry          // accepted in this phase, will finish within it
	pending []*vhloopEntry
	dead    map[int]bool // connections whose peer stopped reading: no reply can arrive
}

func vhloopNewTwin() *vhloopTwin {
	return &vhloopTwin{holder: map[[2]int]*vhloopEntry{}, dead: map[int]bool{}}
}

type vhloopWant struct {
	replies map[[2]int]int // (conn, tag) -> count
	enters  []int
}

func (w *vhloopWant) reply(t *vhloopTwin, c, tg int) {
	if !t.dead[c] {
		w.replies[[2]int{c, tg}]++
	}
}

func (t *vhloopTwin) send(c int, f vhloopFrame, w *vhloopWant) {
	switch f.K {
	case "badtype":
		w.reply(t, c, f.Tag)
		return
	case "short":
		w.reply(t, c, int(noTag))
		return
	}
	k := [2]int{c, f.Tag}
	if h := t.holder[k]; h != nil {
		return // tag in flight: dropped without a reply
	}
	e := &vhloopEntry{conn: c, tag: f.Tag, gate: -1, frame: f}
	t.holder[k] = e
	switch {
	case vhloopIsOp(f.K):
		if f.Gate >= 0 {
			e.gate = f.Gate
			t.pending = append(t.pending, e)
			if !f.NoEnter {
				w.enters = append(w.enters, f.Gate)
			}
			return
		}
	case f.K == "flush":
		e.flush = true
		if h := t.holder[[2]int{c, f.Old}]; h != nil && f.Old != f.Tag && t.isPending(h) {
			e.waits = h
			t.pending = append(t.pending, e)
			return
		}
	}
	w.reply(t, c, f.Tag)
	t.unsure = append(t.unsure, e)
}

func (t *vhloopTwin) isPending(e *vhloopEntry) bool {
	for _, p := range t.pending {
		if p == e {
			return true
		}
	}
	return false
}

func (t *vhloopTwin) release(g int, w *vhloopWant) {
	var fin func(e *vhloopEntry)
	fin = func(e *vhloopEntry) {
		e.done = true
		w.reply(t, e.conn, e.tag)
		k := [2]int{e.conn, e.tag}
		if t.holder[k] == e {
			delete(t.holder, k)
		}
		var rest []*vhloopEntry
		for _, p := range t.pending {
			if p != e {
				rest = append(rest, p)
			}
		}
		t.pending = rest
		for _, p := range append([]*vhloopEntry(nil), t.pending...) {
			if p.waits == e && !p.done {
				fin(p)
			}
		}
	}
	for _, p := range append([]*vhloopEntry(nil), t.pending...) {
		if !p.flush && p.gate == g && !p.done {
			fin(p)
		}
	}
}

func (t *vhloopTwin) endPhase() {
	for _, e := range t.unsure {
		k := [2]int{e.conn, e.tag}
		if t.holder[k] == e {
			delete(t.holder, k)
		}
	}
	t.unsure = nil
}

// vhloopBarriers makes a script race free with respect to dropped frames: nothing tells the peer that
// the server has finished StartTag for a frame it drops, so every send step containing such a frame
// ends with an ungated read on a fresh tag; its reply shows that the receive lock has moved on (a
// frame is received only after the previous receiver has done StartTag and unlocked recvMu).
func vhloopBarriers(scn vhloopScn) vhloopScn {
	tw := vhloopNewTwin()
	n := 0
	for si, st := range scn.Steps {
		w := &vhloopWant{replies: map[[2]int]int{}}
		switch st.Op {
		case "release":
			tw.release(st.Gate, w)
			tw.endPhase()
			continue
		case "break":
			tw.dead[st.Conn] = true
			continue
		case "hangup", "hold":
			continue
		}
		dropped, lastUngated := false, false
		for _, f := range st.Frames {
			isDrop := f.K != "badtype" && f.K != "short" && tw.holder[[2]int{st.Conn, f.Tag}] != nil
			before := len(tw.unsure)
			tw.send(st.Conn, f, w)
			dropped = dropped || isDrop
			lastUngated = len(tw.unsure) > before || f.K == "badtype" || f.K == "short"
		}
		if dropped && !lastUngated && !tw.dead[st.Conn] {
			b := vhloopRead(60000+n, -1)
			n++
			tw.send(st.Conn, b, w)
			scn.Steps[si].Frames = append(append([]vhloopFrame{}, st.Frames...), b)
		}
		tw.endPhase()
	}
	return scn
}

// ---------------------------------------------------------------------------

func vhloopRun(prop string, scn vhloopScn) vhloopObs {
	if scn.NConn < 1 {
		scn.NConn = 1
	}
	o := vhloopObs{Kind: "scn", Prop: prop, Scn: scn, Phases: []vhloopPhase{}, Trailing: []vhloopReply{}}
	bk := vhloopNewBackend()
	srv := NewServer(bk)
	frames := make(chan vhloopReply, 8192)
	var conns []*vhloopConn
	o.Setup = true
	for c := 0; c < scn.NConn && o.Setup; c++ {
		v := vhloopDial(srv, bk, c, scn.Frag, frames)
		conns = append(conns, v)
		// handshake
		hs := [][]byte{vhloopEnc(uint16(noTag), &tversion{MSize: 8192, Version: "9P2000.L"})}
		want := []msgType{msgRversion}
		for k := 0; k < scn.NFid; k++ {
			kind := byte('r')
			if k < len(scn.Kinds) {
				kind = scn.Kinds[k]
			}
			bk.mu.Lock()
			switch kind {
			case 'd', 'D':
				bk.modes[c*scn.NFid+k] = ModeDirectory
			case 'l':
				bk.modes[c*scn.NFid+k] = ModeSymlink
			}
			bk.mu.Unlock()
			hs = append(hs, vhloopBytes(vhloopFrame{K: "attach", Tag: 1, Fid: k}))
			want = append(want, msgRattach)
			switch kind {
			case 'r':
				hs = append(hs, vhloopEnc(2, &tlopen{fid: fid(k), Flags: ReadWrite}))
				want = append(want, msgRlopen)
			case 'D':
				hs = append(hs, vhloopEnc(2, &tlopen{fid: fid(k), Flags: ReadOnly}))
				want = append(want, msgRlopen)
			}
		}
		for i, b := range hs {
			if err := v.write(b); err != nil {
				o.Setup = false
				break
			}
			r, ok := vhloopNext(frames)
			if !ok || msgType(r.Typ) != want[i] || r.Conn != c {
				o.Setup = false
				break
			}
		}
	}
	tw := vhloopNewTwin()
	for _, st := range scn.Steps {
		if !o.Setup || o.Hung {
			break
		}
		ph := vhloopPhase{Replies: []vhloopReply{}, NoEnter: []int{}}
		w := &vhloopWant{replies: map[[2]int]int{}}
		switch st.Op {
		case "send":
			v := conns[st.Conn]
			for _, f := range st.Frames {
				if vhloopIsOp(f.K) && f.Gate >= 0 && !f.NoEnter {
					bk.shut(f.Gate)
				}
				if (f.K == "read" || f.K == "write") && f.Gate < 0 && f.Mode != 0 {
					g := int(uint64(1<<40) + uint64(f.Mode))
					bk.shut(g)
					bk.release(g, f.Mode)
				}
				if f.K == "flush" && tw.holder[[2]int{st.Conn, f.Tag}] == nil {
					// which backend call must be over before this flush is answered: the one made on behalf
					// of the request in flight with tag Old (if it is in a gated backend call of its own)
					var wt *vhloopWatch
					if h := tw.holder[[2]int{st.Conn, f.Old}]; h != nil && f.Old != f.Tag {
						if e := h.root(); e != nil {
							wt = &vhloopWatch{Files: e.frame.Files, Off: -1, Gate: e.gate}
							if (e.frame.K == "read" || e.frame.K == "write") && e.frame.Gate >= 0 && !e.frame.NoEnter && e.frame.Fid < scn.NFid {
								wt.OffFile, wt.Off = e.conn*scn.NFid+e.frame.Fid, int64(e.frame.Gate)
							}
						}
					}
					v.mu.Lock()
					v.targets[f.Tag] = wt
					v.mu.Unlock()
				}
				tw.send(st.Conn, f, w)
				if err := v.write(vhloopBytes(f)); err != nil {
					ph.Stall = true
					break
				}
			}
		case "release":
			tw.release(st.Gate, w)
			bk.release(st.Gate, st.Mode)
		case "hold": // keep every gate as it is for Mode milliseconds; whatever arrives meanwhile is recorded
			time.Sleep(time.Duration(st.Mode) * time.Millisecond)
		case "break":
			tw.dead[st.Conn] = true
			conns[st.Conn].stopReading()
		case "hangup":
			if st.Gate > 0 {
				bk.shut(st.Gate)
				w.enters = append(w.enters, st.Gate)
			}
			conns[st.Conn].hangup()
		}
		need := 0
		for _, n := range w.replies {
			need += n
		}
		for need > 0 && !ph.Stall {
			r, ok := vhloopNext(frames)
			if !ok {
				ph.Missing = need
				o.Hung = true
				break
			}
			ph.Replies = append(ph.Replies, r)
			k := [2]int{r.Conn, r.Tag}
			if w.replies[k] > 0 {
				w.replies[k]--
				need--
			}
		}
		if !o.Hung && !ph.Stall {
			for _, g := range w.enters {
				if !bk.waitEnter(g) {
					ph.NoEnter = append(ph.NoEnter, g)
					o.Hung = true
				}
			}
		}
		for {
			r, ok := vhloopPoll(frames)
			if !ok {
				break
			}
			ph.Replies = append(ph.Replies, r)
		}
		if ph.Stall {
			o.Hung = true
		}
		tw.endPhase()
		o.Phases = append(o.Phases, ph)
	}
	// "no backend call made on behalf of the flushed request starts after its Rflush": look at the monitor's log
	// (up to here: the teardown closes every File, which is nobody's request)
	bk.openAll()
	for pi := range o.Phases {
		for ri := range o.Phases[pi].Replies {
			if r := &o.Phases[pi].Replies[ri]; r.watch != nil {
				r.Late = bk.lateFor(r.watch, r.seq)
			}
		}
	}
	// teardown: nothing blocks any more, every peer closes, every Handle must return
	o.Returned = true
	for _, v := range conns {
		v.q.Close()
	}
	for _, v := range conns {
		if !v.waitDone() {
			o.Returned = false
		}
	}
	for _, v := range conns {
		select {
		case <-v.rdone:
		case <-time.After(2 * time.Second):
			v.r.Close()
		}
		v.mu.Lock()
		if !v.broken {
			o.Left += v.left
		}
		o.Bad = o.Bad || v.bad
		v.mu.Unlock()
	}
	for {
		r, ok := vhloopPoll(frames)
		if !ok {
			break
		}
		o.Trailing = append(o.Trailing, r)
	}
	return o
}

// vhloopRunB runs a generated scenario after making it race free (replays are run as recorded).
func vhloopRunB(prop string, scn vhloopScn) vhloopObs { return vhloopRun(prop, vhloopBarriers(scn)) }

// vhloopEmit writes an observation through to the file at once (a later hang must not lose it) and
// counts the scenarios in which the server got stuck: each costs seconds of watchdog time, and three
// are evidence enough, so the tests stop generating after that.
var vhloopStuck int

func vhloopEmit(out *vhOut, o vhloopObs) bool {
	out.Emit(o)
	out.mu.Lock()
	out.w.Flush()
	out.mu.Unlock()
	if o.Hung || !o.Returned || !o.Setup {
		vhloopStuck++
	}
	return vhloopStuck < 3
}

// ---------------------------------------------------------------------------
// scenario construction helpers

func vhloopSend(fs ...vhloopFrame) vhloopStep { return vhloopStep{Op: "send", Frames: fs} }
func vhloopSendC(c int, fs ...vhloopFrame) vhloopStep {
	return vhloopStep{Op: "send", Conn: c, Frames: fs}
}
func vhloopRel(g, mode int) vhloopStep     { return vhloopStep{Op: "release", Gate: g, Mode: mode} }
func vhloopRead(tag, gate int) vhloopFrame { return vhloopFrame{K: "read", Tag: tag, Gate: gate} }
func vhloopReadF(tag, fid, gate int) vhloopFrame {
	return vhloopFrame{K: "read", Tag: tag, Gate: gate, Fid: fid}
}
func vhloopFlush(tag, old int) vhloopFrame { return vhloopFrame{K: "flush", Tag: tag, Old: old} }

// vhloopClunk: Tclunk of a fid whose File is `file`; gated = the backend's Close blocks.
func vhloopClunk(tag, fid int, gated bool) vhloopFrame { return vhloopClunkF(tag, fid, fid, gated) }
func vhloopClunkF(tag, fid, file int, gated bool) vhloopFrame {
	g := -1
	if gated {
		g = vhloopCloseBase + file
	}
	return vhloopFrame{K: "clunk", Tag: tag, Gate: g, Fid: fid}
}

// vhloopAttachOver: Tattach onto a fid that is in use; the replaced File (`file`) is closed, gated or not.
func vhloopAttachOver(tag, fid, file int, gated bool) vhloopFrame {
	g := -1
	if gated {
		g = vhloopCloseBase + file
	}
	return vhloopFrame{K: "attach", Tag: tag, Gate: g, Fid: fid}
}

// vhloopOnFile: Tgetattr / Tsetattr / zero-name Twalkgetattr on a fid whose File is `file`, gated in that backend method or not.
func vhloopOnFile(k string, tag, fid, file int, gated bool) vhloopFrame {
	g := -1
	if gated {
		g = map[string]int{"getattr": vhloopGetAttrBase, "setattr": vhloopSetAttrBase, "clone": vhloopWalkBase}[k] + file
	}
	return vhloopFrame{K: k, Tag: tag, Gate: g, Fid: fid, NewFid: 500 + tag}
}

// vhloopWith: the request has these Files to itself (every backend call on them is made on its behalf).
func vhloopWith(f vhloopFrame, files ...int) vhloopFrame {
	f.Files = files
	return f
}

// vhloopBehind: a request that the lock order puts after the request sitting in gate g.
func vhloopBehind(f vhloopFrame, g int) vhloopFrame {
	f.Gate = g
	f.NoEnter = true
	return f
}

func vhloopPerms(n int) [][]int {
	if n == 0 {
		return [][]int{{}}
	}
	var out [][]int
	for _, p := range vhloopPerms(n - 1) {
		for i := 0; i <= len(p); i++ {
			q := append(append(append([]int{}, p[:i]...), n-1), p[i:]...)
			out = append(out, q)
		}
	}
	return out
}

// vhloopRandom builds a race-free random scenario: tags are re-used only when their previous user is
// surely finished (reply seen in an earlier phase) or surely still in flight (gated / waiting flush).
func vhloopRandom(r *rand.Rand, name string, nact, maxInFlight int, frag bool) vhloopScn {
	return vhloopRandomW(r, name, nact, maxInFlight, frag, false)
}

// vhloopRandomFlush: the same with every second action a flush.
func vhloopRandomFlush(r *rand.Rand, name string) vhloopScn {
	return vhloopRandomW(r, name, 6+r.Intn(20), 1+r.Intn(3), r.Intn(8) == 0, true)
}

func vhloopRandomW(r *rand.Rand, name string, nact, maxInFlight int, frag, flushHeavy bool) vhloopScn {
	scn := vhloopScn{Name: name, Frag: frag, NConn: 1, NFid: 6}
	tw := vhloopNewTwin()
	nextGate := 1
	nextTag := 1
	nextClunk := 1
	var answered []int
	var closed []int // gates shut and not yet released
	boundary := []int{0, 65534, 65535}
	pickFree := func() int {
		for {
			var t int
			switch {
			case len(answered) > 0 && r.Intn(3) == 0:
				t = answered[r.Intn(len(answered))] // immediate re-use of an answered tag
			case r.Intn(12) == 0:
				t = boundary[r.Intn(3)]
			default:
				t = nextTag
				nextTag++
			}
			if tw.holder[[2]int{0, t}] == nil {
				return t
			}
		}
	}
	inFlightTags := func() []int {
		var l []int
		for k := range tw.holder {
			l = append(l, k[1])
		}
		sort.Ints(l)
		return l
	}
	for a := 0; a < nact; a++ {
		w := &vhloopWant{replies: map[[2]int]int{}}
		c := r.Intn(100)
		if flushHeavy && r.Intn(2) == 0 {
			c = 40 + r.Intn(22)
		}
		var st vhloopStep
		switch {
		case c < 30 && len(closed) < maxInFlight: // gated read
			f := vhloopRead(pickFree(), nextGate)
			if r.Intn(3) == 0 {
				f.K = "write"
			}
			closed = append(closed, nextGate)
			nextGate++
			st = vhloopSend(f)
		case c < 40: // ungated read, sometimes failing
			f := vhloopRead(pickFree(), -1)
			if r.Intn(4) == 0 {
				f.Mode = 1 + r.Intn(2)
			}
			st = vhloopSend(f)
		case c < 62: // flush
			var old int
			fl := inFlightTags()
			switch k := r.Intn(6); {
			case k < 3 && len(fl) > 0:
				old = fl[r.Intn(len(fl))]
			case k == 3 && len(answered) > 0:
				old = answered[r.Intn(len(answered))]
			case k == 4:
				old = -1 // own tag
			default:
				old = nextTag + 100 + r.Intn(50) // idle
			}
			t := pickFree()
			if old < 0 {
				old = t
			}
			st = vhloopSend(vhloopFlush(t, old))
		case c < 68 && len(inFlightTags()) > 0: // duplicate of a tag in flight: must be dropped
			fl := inFlightTags()
			t := fl[r.Intn(len(fl))]
			if r.Intn(2) == 0 {
				st = vhloopSend(vhloopRead(t, -1))
			} else {
				st = vhloopSend(vhloopFlush(t, t))
			}
		case c < 74: // rejected frames
			k := []string{"badtype", "short", "rmsg"}[r.Intn(3)]
			t := pickFree()
			st = vhloopSend(vhloopFrame{K: k, Tag: t})
		case c < 78 && nextClunk < scn.NFid && len(closed) < maxInFlight: // gated clunk
			f := vhloopClunk(pickFree(), nextClunk, true)
			closed = append(closed, f.Gate)
			nextClunk++
			st = vhloopSend(f)
		case len(closed) > 0: // release
			i := r.Intn(len(closed))
			g := closed[i]
			closed = append(closed[:i], closed[i+1:]...)
			mode := 0
			if g < vhloopCloseBase && r.Intn(5) == 0 {
				mode = 1 + r.Intn(2)
			}
			st = vhloopRel(g, mode)
		default:
			st = vhloopSend(vhloopRead(pickFree(), -1))
		}
		if st.Op == "send" {
			for _, f := range st.Frames {
				tw.send(0, f, w)
			}
		} else {
			tw.release(st.Gate, w)
		}
		for k := range w.replies {
			if k[1] != int(noTag) {
				answered = append(answered, k[1])
			}
		}
		tw.endPhase()
		scn.Steps = append(scn.Steps, st)
	}
	for _, g := range closed {
		scn.Steps = append(scn.Steps, vhloopRel(g, 0))
	}
	return scn
}

// vhloopBatch: n gated reads in flight at once (tags adversarial), then released in the given order.
func vhloopBatch(name string, n int, order []int, frag bool, together bool) vhloopScn {
	scn := vhloopScn{Name: name, Frag: frag, NConn: 1, NFid: 1}
	tagOf := func(i int) int {
		switch i {
		case 0:
			return 65535
		case 1:
			return 0
		case 2:
			return 65534
		}
		return 40000 + i
	}
	var fs []vhloopFrame
	for i := 0; i < n; i++ {
		fs = append(fs, vhloopRead(tagOf(i), i+1))
	}
	if together {
		scn.Steps = append(scn.Steps, vhloopSend(fs...))
	} else {
		for _, f := range fs {
			scn.Steps = append(scn.Steps, vhloopSend(f))
		}
	}
	for _, i := range order {
		scn.Steps = append(scn.Steps, vhloopRel(i+1, 0))
		// immediate re-use of the tag just answered, not gated
		scn.Steps = append(scn.Steps, vhloopSend(vhloopRead(tagOf(i), -1)))
	}
	return scn
}

func vhloopName(s string, a ...interface{}) string { return fmt.Sprintf(s, a...) }

// vhloopLoadReplay reads a replay file written by ./check (the scenario is under replay.scn).
func vhloopLoadReplay(p string) (vhloopScn, bool) {
	b, err := os.ReadFile(p)
	if err != nil {
		return vhloopScn{}, false
	}
	var x struct {
		Replay struct {
			Scn vhloopScn `json:"scn"`
		} `json:"replay"`
	}
	if json.Unmarshal(b, &x) != nil || len(x.Replay.Scn.Steps) == 0 {
		return vhloopScn{}, false
	}
	return x.Replay.Scn, true
}
