package p9

// C06 harness: exactly one tagged reply per request, contiguous frames, no
// unsolicited reply, concurrent service.  Real Server.Handle over net.Pipe (and
// over the fragmenting writer) with the gated backend of vhloop_backend_test.go.

import (
	"os"
	"testing"
)

func vh06Corpus() []vhloopScn {
	var l []vhloopScn
	add := func(name string, nfid int, steps ...vhloopStep) {
		l = append(l, vhloopScn{Name: name, NFid: nfid, Steps: steps})
	}
	// flush shapes (shared with C14): own tag, idle tag, answered tag
	add("flush-own", 1, vhloopSend(vhloopFlush(5, 5)))
	add("flush-idle", 1, vhloopSend(vhloopFlush(5, 9)))
	add("flush-answered", 1, vhloopSend(vhloopRead(1, -1)), vhloopSend(vhloopFlush(2, 1)))
	add("flush-mutual", 1, vhloopSend(vhloopFlush(2, 3), vhloopFlush(3, 2)))
	add("flush-gated", 1, vhloopSend(vhloopRead(1, 1)), vhloopSend(vhloopFlush(2, 1)), vhloopRel(1, 0))
	// duplicate active tag: dropped; then the tag is free again
	add("dup-active", 1, vhloopSend(vhloopRead(1, 1)), vhloopSend(vhloopRead(1, -1)), vhloopRel(1, 0), vhloopSend(vhloopRead(1, -1)))
	// immediate re-use, many times
	add("reuse", 1, vhloopSend(vhloopRead(7, -1)), vhloopSend(vhloopRead(7, -1)), vhloopSend(vhloopRead(7, -1)), vhloopSend(vhloopRead(7, -1)),
		vhloopSend(vhloopFlush(7, 7)), vhloopSend(vhloopRead(7, -1)))
	// rejected frames: unknown type (tag kept), undecodable body (NOTAG), R-message (ENOSYS); also while the tag is in flight
	add("rejects", 1, vhloopSend(vhloopFrame{K: "badtype", Tag: 7}), vhloopSend(vhloopFrame{K: "short", Tag: 8}), vhloopSend(vhloopFrame{K: "rmsg", Tag: 9}),
		vhloopSend(vhloopRead(3, 1)), vhloopSend(vhloopFrame{K: "badtype", Tag: 3}), vhloopSend(vhloopFrame{K: "rmsg", Tag: 3}), vhloopRel(1, 0))
	// backend error and panic
	add("errors", 1, vhloopSend(vhloopFrame{K: "read", Tag: 1, Gate: -1, Mode: 1}), vhloopSend(vhloopFrame{K: "read", Tag: 2, Gate: -1, Mode: 2}),
		vhloopSend(vhloopRead(3, 1)), vhloopRel(1, 2), vhloopSend(vhloopRead(4, 2)), vhloopRel(2, 1))
	// a request blocked in the backend (ReadAt, then Close) delays nobody else
	add("blocked-read", 1, vhloopSend(vhloopRead(1, 1)), vhloopSend(vhloopRead(2, -1)), vhloopSend(vhloopRead(3, -1)), vhloopRel(1, 0))
	add("blocked-close", 3, vhloopSend(vhloopClunk(1, 1, true)), vhloopSend(vhloopRead(2, -1)), vhloopSend(vhloopClunk(3, 2, false)),
		vhloopSend(vhloopRead(4, 2)), vhloopSend(vhloopFlush(5, 1)), vhloopRel(2, 0), vhloopRel(vhloopCloseBase+1, 0))
	// batches of 2..4 gated requests, every release order, frames sent one by one and back to back
	for n := 2; n <= 4; n++ {
		for pi, p := range vhloopPerms(n) {
			l = append(l, vhloopBatch(vhloopName("batch%d-perm%d", n, pi), n, p, false, pi%2 == 0))
		}
	}
	// bursts: many requests sent back to back, answered concurrently (large replies, flushes in between),
	// over the plain pipe and over the fragmenting writer: torn frames show up here
	for _, n := range []int{8, 32} {
		for _, frag := range []bool{false, true} {
			var fs []vhloopFrame
			for i := 0; i < n; i++ {
				fs = append(fs, vhloopRead(30000+i, -1))
				if i%4 == 3 {
					fs = append(fs, vhloopFlush(31000+i, 30000+i-1))
				}
			}
			l = append(l, vhloopScn{Name: vhloopName("burst%d-frag%v", n, frag), Frag: frag, NFid: 1,
				Steps: []vhloopStep{vhloopSend(vhloopRead(1, 1)), vhloopSend(fs...), vhloopSend(fs...), vhloopRel(1, 0)}})
		}
	}
	return l
}

func TestVerifC06(t *testing.T) {
	out := vhOpen(t)
	defer out.Close()
	if p := os.Getenv("VERIF_REPLAY"); p != "" {
		if scn, ok := vhloopLoadReplay(p); ok {
			if !vhloopEmit(out, vhloopRun("C06", scn)) {
				return
			}
			return
		}
	}
	r := vhRand()
	for _, scn := range vh06Corpus() {
		if !vhloopEmit(out, vhloopRunB("C06", scn)) {
			return
		}
	}
	// larger batches, random release order; the biggest ones once over the fragmenting writer
	sizes := []int{8, 16, 32, 64}
	for _, n := range sizes {
		reps := 2
		if vhThorough() {
			reps = 8
		}
		for k := 0; k < reps; k++ {
			if !vhloopEmit(out, vhloopRunB("C06", vhloopBatch(vhloopName("batch%d-rand%d", n, k), n, r.Perm(n), k == 1 && n <= 16, k%2 == 0))) {
				return
			}
		}
	}
	nrand := 60
	if vhThorough() {
		nrand = 600
	}
	for k := 0; k < nrand; k++ {
		if !vhloopEmit(out, vhloopRunB("C06", vhloopRandom(r, vhloopName("rand%d", k), 10+r.Intn(40), 2+r.Intn(12), k%10 == 9))) {
			return
		}
	}
}
