package p9

// C06 harness: exactly one tagged reply per request, contiguous frames, no
// unsolicited reply, concurrent service (unrelated fids, two connections), send
// errors.  Real Server.Handle over pipes (and over the fragmenting writer) with
// the gated backend of vhloop_backend_test.go.

import (
	"os"
	"testing"
)

func vh06Corpus() []vhloopScn {
	var l []vhloopScn
	add := func(name string, nfid int, steps ...vhloopStep) {
		l = append(l, vhloopScn{Name: name, NConn: 1, NFid: nfid, Steps: steps})
	}
	add2 := func(name string, nfid int, steps ...vhloopStep) {
		l = append(l, vhloopScn{Name: name, NConn: 2, NFid: nfid, Steps: steps})
	}
	// flush shapes (shared with C14): own tag, idle tag, answered tag
	add("flush-own", 1, vhloopSend(vhloopFlush(5, 5)))
	add("flush-idle", 1, vhloopSend(vhloopFlush(5, 9)))
	add("flush-answered", 1, vhloopSend(vhloopRead(1, -1)), vhloopSend(vhloopFlush(2, 1)))
	add("flush-mutual", 1, vhloopSend(vhloopFlush(2, 3), vhloopFlush(3, 2)))
	add("flush-gated", 1, vhloopSend(vhloopRead(1, 1)), vhloopSend(vhloopFlush(2, 1)), vhloopRel(1, 0))
	// duplicate active tag: dropped; then the tag is free again (also with the boundary tags)
	for _, t := range []int{1, 0, 65534, 65535} {
		add(vhloopName("dup-active-tag%d", t), 1, vhloopSend(vhloopRead(t, 1)), vhloopSend(vhloopRead(t, -1)), vhloopRel(1, 0), vhloopSend(vhloopRead(t, -1)))
	}
	// immediate re-use, many times
	add("reuse", 1, vhloopSend(vhloopRead(7, -1)), vhloopSend(vhloopRead(7, -1)), vhloopSend(vhloopRead(7, -1)), vhloopSend(vhloopRead(7, -1)),
		vhloopSend(vhloopFlush(7, 7)), vhloopSend(vhloopRead(7, -1)))
	// rejected frames: unknown type (tag kept), undecodable body (NOTAG), R-message (ENOSYS); also while the tag is in flight
	add("rejects", 1, vhloopSend(vhloopFrame{K: "badtype", Tag: 7}), vhloopSend(vhloopFrame{K: "short", Tag: 8}), vhloopSend(vhloopFrame{K: "rmsg", Tag: 9}),
		vhloopSend(vhloopRead(3, 1)), vhloopSend(vhloopFrame{K: "badtype", Tag: 3}), vhloopSend(vhloopFrame{K: "rmsg", Tag: 3}), vhloopRel(1, 0))
	// backend error and panic
	add("errors", 1, vhloopSend(vhloopFrame{K: "read", Tag: 1, Gate: -1, Mode: 1}), vhloopSend(vhloopFrame{K: "read", Tag: 2, Gate: -1, Mode: 2}),
		vhloopSend(vhloopRead(3, 1)), vhloopRel(1, 2), vhloopSend(vhloopRead(4, 2)), vhloopRel(2, 1))

	// --- concurrency on one connection: a request blocked in a backend method delays no unrelated request ---
	unrelated := func(c, base int) []vhloopStep { // traffic on other fids, each answered before the next is sent
		return []vhloopStep{
			vhloopSendC(c, vhloopReadF(base, 0, -1)),
			vhloopSendC(c, vhloopOnFile("getattr", base+1, 2, 0, false)),
			vhloopSendC(c, vhloopFlush(base+2, 777)),
			vhloopSendC(c, vhloopFrame{K: "badtype", Tag: base + 3}),
			vhloopSendC(c, vhloopOnFile("clone", base+4, 0, 0, false)),
		}
	}
	blockers := []struct {
		name string
		f    vhloopFrame
	}{
		{"read", vhloopReadF(1, 1, 1)},
		{"write", vhloopFrame{K: "write", Tag: 1, Fid: 1, Gate: 2}},
		{"fsync", vhloopFrame{K: "fsync", Tag: 1, Fid: 1, Gate: vhloopFileBase + 1}},
		{"getattr", vhloopOnFile("getattr", 1, 1, 1, true)},
		{"walk", vhloopOnFile("clone", 1, 1, 1, true)},
		{"close-clunk", vhloopClunkF(1, 1, 1, true)},
		{"close-replaced-fid", vhloopAttachOver(1, 1, 1, true)},
	}
	for _, b := range blockers {
		steps := []vhloopStep{vhloopSend(b.f)}
		steps = append(steps, unrelated(0, 10)...)
		steps = append(steps, vhloopSend(vhloopFlush(2, 1)), vhloopSend(vhloopClunkF(20, 3, 3, false)), vhloopRel(b.f.Gate, 0), vhloopSend(vhloopReadF(1, 0, -1)))
		add("blocked-"+b.name, 4, steps...)
	}
	// SetAttr holds the write lock of the (shared root) path node: read-class operations on that node (Tread, and Tclunk,
	// which looks at the fid's pending xattr under the node's read lock) ARE ordered after it; everything else is not
	{
		sa := vhloopOnFile("setattr", 1, 1, 1, true)
		add("blocked-setattr", 4, vhloopSend(sa), vhloopSend(vhloopFlush(10, 777)), vhloopSend(vhloopFrame{K: "badtype", Tag: 11}), vhloopSend(vhloopFrame{K: "rmsg", Tag: 12}),
			vhloopSend(vhloopBehind(vhloopClunkF(13, 3, 3, false), sa.Gate)), vhloopSend(vhloopBehind(vhloopReadF(14, 0, -1), sa.Gate)), vhloopSend(vhloopFlush(15, 14)),
			vhloopSend(vhloopFlush(16, 888)), vhloopRel(sa.Gate, 0))
	}
	// a writer queued behind a reader that sits in the backend: both finish after the release (lock hand-over)
	for _, k := range []string{"clone", "getattr", "read"} {
		var rd vhloopFrame
		if k == "read" {
			rd = vhloopReadF(1, 1, 1)
		} else {
			rd = vhloopOnFile(k, 1, 1, 1, true)
		}
		add("writer-behind-"+k, 3, vhloopSend(rd), vhloopSend(vhloopBehind(vhloopOnFile("setattr", 2, 2, 2, false), rd.Gate)),
			vhloopSend(vhloopFlush(10, 777)), vhloopSend(vhloopFlush(11, 777)), vhloopSend(vhloopFrame{K: "badtype", Tag: 12}), vhloopSend(vhloopFlush(13, 777)),
			vhloopRel(rd.Gate, 0), vhloopSend(vhloopReadF(3, 0, -1)))
	}

	// --- two connections on one server ---
	for _, b := range blockers {
		// the blocker on connection 0 (fid 1 = file 1), unrelated traffic on both, same tag numbers on both
		steps := []vhloopStep{vhloopSendC(0, b.f)}
		steps = append(steps, unrelated(1, 1)...)
		steps = append(steps, unrelated(0, 10)...)
		steps = append(steps, vhloopSendC(1, vhloopFlush(9, 1)), vhloopRel(b.f.Gate, 0), vhloopSendC(1, vhloopReadF(1, 0, -1)), vhloopSendC(0, vhloopReadF(1, 0, -1)))
		add2("twoconn-blocked-"+b.name, 4, steps...)
	}
	{
		// connection 1 goes away while its stop() is blocked in the Close of one of its files (file 4 = conn 1 fid 0)
		steps := []vhloopStep{{Op: "hangup", Conn: 1, Gate: vhloopCloseBase + 4}}
		steps = append(steps, unrelated(0, 10)...)
		steps = append(steps, vhloopSendC(0, vhloopClunkF(20, 3, 3, false)), vhloopRel(vhloopCloseBase+4, 0), vhloopSendC(0, vhloopReadF(1, 0, -1)))
		add2("twoconn-blocked-close-stop", 4, steps...)
		// a hang-up with requests still running: they are answered, then Handle returns
		add2("twoconn-hangup-busy", 2, vhloopSendC(1, vhloopRead(1, 1)), vhloopSendC(1, vhloopFlush(2, 1)), vhloopStep{Op: "hangup", Conn: 1},
			vhloopSendC(0, vhloopRead(1, -1)), vhloopRel(1, 0), vhloopSendC(0, vhloopRead(1, -1)))
	}

	// --- send errors: the peer stops reading; the server logs, carries on, and returns after EOF ---
	add("peer-stops-reading", 2, vhloopSend(vhloopRead(1, 1)), vhloopSend(vhloopRead(2, -1)), vhloopStep{Op: "break"},
		vhloopSend(vhloopRead(3, -1)), vhloopSend(vhloopRead(4, 2)), vhloopSend(vhloopFlush(5, 4)), vhloopSend(vhloopFrame{K: "badtype", Tag: 6}),
		vhloopRel(1, 0), vhloopRel(2, 0), vhloopSend(vhloopRead(7, 3)), vhloopRel(3, 0))
	add2("peer-stops-reading-other-conn", 2, vhloopSendC(1, vhloopRead(1, 1)), vhloopStep{Op: "break", Conn: 1}, vhloopRel(1, 0), vhloopSendC(1, vhloopRead(2, -1)),
		vhloopSendC(0, vhloopRead(1, -1)), vhloopSendC(0, vhloopRead(2, 2)), vhloopSendC(0, vhloopFlush(3, 2)), vhloopRel(2, 0))
	l = append(l, vhloopScn{Name: "peer-stops-reading-frag", Frag: true, NConn: 1, NFid: 1, Steps: []vhloopStep{
		vhloopSend(vhloopRead(1, 1), vhloopRead(2, 1), vhloopRead(3, 1), vhloopRead(4, 1)), vhloopRel(1, 0), vhloopStep{Op: "break"},
		vhloopSend(vhloopRead(5, -1)), vhloopSend(vhloopRead(6, 2)), vhloopRel(2, 0)}})

	// batches of 2..4 gated requests, every release order, frames sent one by one and back to back
	for n := 2; n <= 4; n++ {
		for pi, p := range vhloopPerms(n) {
			l = append(l, vhloopBatch(vhloopName("batch%d-perm%d", n, pi), n, p, false, pi%2 == 0))
		}
	}
	// bursts: many requests sent back to back, answered concurrently (large replies, flushes and undecodable
	// frames in between), over the plain pipe and over the fragmenting writer: torn frames show up here
	for _, n := range []int{8, 32} {
		for _, frag := range []bool{false, true} {
			var fs []vhloopFrame
			for i := 0; i < n; i++ {
				fs = append(fs, vhloopRead(30000+i, -1))
				if i%4 == 3 {
					fs = append(fs, vhloopFlush(31000+i, 30000+i-1))
				}
				if i%4 == 1 {
					fs = append(fs, vhloopFrame{K: "badtype", Tag: 32000 + i})
				}
				if i%8 == 6 {
					fs = append(fs, vhloopFrame{K: "short", Tag: 33000 + i})
				}
			}
			l = append(l, vhloopScn{Name: vhloopName("burst%d-frag%v", n, frag), Frag: frag, NConn: 1, NFid: 1,
				Steps: []vhloopStep{vhloopSend(vhloopRead(1, 1)), vhloopSend(fs...), vhloopSend(fs...), vhloopRel(1, 0)}})
		}
	}
	return l
}

func TestVerifC06(t *testing.T) {
	out := vhOpen(t)
	defer out.Close()
	if p := os.Getenv("VERIF_REPLAY"); p != "" {
		if scn, ok := vhloopLoadReplay(p); ok {
			vhloopEmit(out, vhloopRun("C06", scn))
			return
		}
	}
	r := vhRand()
	for _, scn := range vh06Corpus() {
		if !vhloopEmit(out, vhloopRunB("C06", scn)) {
			return
		}
	}
	// larger batches, random release order; once over the fragmenting writer
	sizes := []int{8, 16, 32, 64}
	for _, n := range sizes {
		reps := 1
		if vhThorough() {
			reps = 8
		}
		if n <= 16 {
			reps++
		}
		for k := 0; k < reps; k++ {
			if !vhloopEmit(out, vhloopRunB("C06", vhloopBatch(vhloopName("batch%d-rand%d", n, k), n, r.Perm(n), k == 1 && n <= 16, k%2 == 0))) {
				return
			}
		}
	}
	nrand := 40
	if vhThorough() {
		nrand = 600
	}
	for k := 0; k < nrand; k++ {
		if !vhloopEmit(out, vhloopRunB("C06", vhloopRandom(r, vhloopName("rand%d", k), 10+r.Intn(40), 2+r.Intn(12), k%10 == 9))) {
			return
		}
	}
}
