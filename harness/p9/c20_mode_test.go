package p9

// C20 harness, modes: every valid file type x every 12-bit permission value
// through OSMode / ModeFromOS / QIDType, and ModeFromOS on other os.FileMode values.

import (
	"os"
	"testing"
)

func TestVerifC20Mode(t *testing.T) {
	out := vhOpen(t)
	defer out.Close()
	r := vhRand()
	types := []FileMode{ModeSocket, ModeSymlink, ModeRegular, ModeBlockDevice, ModeDirectory, ModeCharacterDevice, ModeNamedPipe}
	for _, ty := range types {
		rows := make([][3]uint64, 0, 4096)
		for p := FileMode(0); p < 4096; p++ {
			m := ty | p
			o := m.OSMode()
			rows = append(rows, [3]uint64{uint64(o), uint64(ModeFromOS(o)), uint64(m.QIDType())})
		}
		out.Emit(map[string]interface{}{"kind": "modes", "t": uint64(ty), "rows": rows})
	}
	var rows [][3]uint64
	add := func(o os.FileMode) {
		m := ModeFromOS(o)
		rows = append(rows, [3]uint64{uint64(o), uint64(m), uint64(m.QIDType())})
	}
	bits := []os.FileMode{os.ModeDir, os.ModeAppend, os.ModeExclusive, os.ModeTemporary, os.ModeSymlink, os.ModeDevice,
		os.ModeNamedPipe, os.ModeSocket, os.ModeSetuid, os.ModeSetgid, os.ModeCharDevice, os.ModeSticky, os.ModeIrregular}
	for _, b := range bits {
		add(b)
		add(b | 0o777)
		for _, c := range bits {
			add(b | c | 0o640)
		}
	}
	n := 300
	if vhThorough() {
		n = 5000
	}
	for i := 0; i < n; i++ {
		add(os.FileMode(r.Uint32()))
	}
	out.Emit(map[string]interface{}{"kind": "fromos", "rows": rows})
}
