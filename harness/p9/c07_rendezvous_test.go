package p9

// C07 rendezvous battery: every ordered pair of backend-reaching requests x path relation.
// The first request is held inside the backend; the observation is whether the second one
// enters the backend meanwhile (event based).  The verdict is computed in Coq.

import (
	"fmt"
	"os"
	"sort"
	"strings"
	"sync"
	"testing"
	"time"
)

type vh07Ctx struct {
	f    File   // target fid
	dirf File   // a second fid on the same directory (rename target)
	side string // "a" or "b": names used by this request
	x    File   // prepared by vh07Prep (the xattr fid of setxattr)
}

// vh07Prep: steps of a request that are made before the rendezvous (they are requests of their own).
var vh07Prep = map[string]func(c *vh07Ctx) error{
	"setxattr": func(c *vh07Ctx) error { // Txattrcreate + Twrite on a clone; the Tclunk of that fid is the request under test
		_, x, err := c.f.Walk(nil)
		if err != nil {
			return err
		}
		vhgDefuse(x)
		if err := vh07Send(x, &txattrcreate{fid: vh07Fid(x), Name: "user.x", AttrSize: 1}, &rxattrcreate{}); err != nil {
			return err
		}
		if err := vh07Send(x, &twrite{fid: vh07Fid(x), Data: []byte{1}}, &rwrite{}); err != nil {
			return err
		}
		c.x = x
		return nil
	},
}

// A request is tied to the generated table by protocol-level keys only: the handler, the backend method,
// the T-message field that carries the fid the backend call is made on (fidf), the role of the
// receiver relative to that fid (self / child named by namef / parent) — never by names of locals.
type vh07Req struct {
	name    string
	root    string // handler in the generated table
	method  string // backend method observed / gated
	role    string // self | child | parent
	fidf    string // T-message field of the fid
	namef   string // T-message field of the entry name ("" if none)
	fid2f   string // T-message field of a second fid ("" if none); it is bound to the aux fid
	aux     string // "" (second fid on the same node) | file (/d/g) | otherdir (/d/e)
	target  string // dir | dir2 | file | link | any
	open    int    // 1: fid must be opened, -1: must not be, 0: either
	gate    string // self | parent | child | child2
	entry   func(side string) string
	run     func(c *vh07Ctx) error
	consume bool // the request destroys the fid
}

func vh07Send(f File, t message, r message) error {
	cf := f.(*clientFile)
	return cf.client.sendRecv(t, r)
}

func vh07Fid(f File) fid { return f.(*clientFile).fid }

func vh07Reqs() []vh07Req {
	nm := func(p string) func(string) string { return func(s string) string { return p + s } }
	none := func(string) string { return "" }
	return []vh07Req{
		{"getattr", "tgetattr.handle", "GetAttr", "self", "fid", "", "", "", "any", 0, "self", none, func(c *vh07Ctx) error { _, _, _, err := c.f.GetAttr(AttrMaskAll); return err }, false},
		{"setattr", "tsetattr.handle", "SetAttr", "self", "fid", "", "", "", "any", 0, "self", none, func(c *vh07Ctx) error { return c.f.SetAttr(SetAttrMask{Size: true}, SetAttr{Size: 1}) }, false},
		{"clone", "twalk.handle", "Walk", "self", "fid", "", "", "", "any", -1, "self", none, func(c *vh07Ctx) error { _, nf, err := c.f.Walk(nil); vhgDefuse(nf); return err }, false},
		{"walk", "twalk.handle", "Walk", "self", "fid", "Names[*]", "", "", "dir", -1, "self", nm("w"), func(c *vh07Ctx) error { _, nf, err := c.f.Walk([]string{"w" + c.side}); vhgDefuse(nf); return err }, false},
		{"walkgetattr", "twalkgetattr.handle", "GetAttr", "child", "fid", "Names[*]", "", "", "dir", -1, "child", nm("w"), func(c *vh07Ctx) error {
			_, nf, _, _, err := c.f.WalkGetAttr([]string{"w" + c.side})
			vhgDefuse(nf)
			return err
		}, false},
		{"clonegetattr", "twalkgetattr.handle", "Walk", "self", "fid", "", "", "", "any", -1, "self", none, func(c *vh07Ctx) error { _, nf, _, _, err := c.f.WalkGetAttr(nil); vhgDefuse(nf); return err }, false},
		{"walkgetattr2", "twalkgetattr.handle", "GetAttr", "child", "fid", "Names[*]", "", "", "dir2", -1, "child2", nm("w"), func(c *vh07Ctx) error {
			_, nf, _, _, err := c.f.WalkGetAttr([]string{"c", "w" + c.side})
			vhgDefuse(nf)
			return err
		}, false},
		{"open", "tlopen.handle", "Open", "self", "fid", "", "", "", "any", -1, "self", none, func(c *vh07Ctx) error { _, _, err := c.f.Open(ReadOnly); return err }, false},
		{"read", "tread.handle", "ReadAt", "self", "fid", "", "", "", "file", 1, "self", none, func(c *vh07Ctx) error { _, err := c.f.ReadAt(make([]byte, 4), 0); return err }, false},
		{"write", "twrite.handle", "WriteAt", "self", "fid", "", "", "", "file", 1, "self", none, func(c *vh07Ctx) error { _, err := c.f.WriteAt([]byte("zz"), 0); return err }, false},
		{"fsync", "tfsync.handle", "FSync", "self", "fid", "", "", "", "file", 1, "self", none, func(c *vh07Ctx) error { return c.f.FSync() }, false},
		{"readdir", "treaddir.handle", "Readdir", "self", "Directory", "", "", "", "dir", 1, "self", none, func(c *vh07Ctx) error { _, err := c.f.Readdir(0, 64); return err }, false},
		{"readlink", "treadlink.handle", "Readlink", "self", "fid", "", "", "", "link", 0, "self", none, func(c *vh07Ctx) error { _, err := c.f.Readlink(); return err }, false},
		{"statfs", "tstatfs.handle", "StatFS", "self", "fid", "", "", "", "any", 0, "self", none, func(c *vh07Ctx) error { _, err := c.f.StatFS(); return err }, false},
		{"lock", "tlock.handle", "Lock", "self", "fid", "", "", "", "file", 1, "self", none, func(c *vh07Ctx) error { _, err := c.f.Lock(1, ReadLock, 0, 0, 0, "c"); return err }, false},
		{"getxattr", "txattrwalk.handle", "GetXattr", "self", "fid", "", "", "", "any", 0, "self", none, func(c *vh07Ctx) error { _, err := c.f.GetXattr("user.x"); return err }, false},
		{"listxattr", "txattrwalk.handle", "ListXattrs", "self", "fid", "", "", "", "any", 0, "self", none, func(c *vh07Ctx) error { _, err := c.f.ListXattrs(); return err }, false},
		{"setxattr", "tclunk.handle", "SetXattr", "self", "fid", "", "", "", "any", -1, "self", none, func(c *vh07Ctx) error { return c.x.Close() }, false},
		{"create", "tlcreate.handle", "Create", "self", "fid", "Name", "", "", "dir", -1, "self", nm("n"), func(c *vh07Ctx) error {
			return vh07Send(c.f, &tlcreate{fid: vh07Fid(c.f), Name: "n" + c.side, OpenFlags: ReadWrite, Permissions: 0o644}, &rlcreate{})
		}, true},
		{"ucreate", "tucreate.handle", "Create", "self", "tlcreate.fid", "tlcreate.Name", "", "", "dir", -1, "self", nm("n"), func(c *vh07Ctx) error {
			return vh07Send(c.f, &tucreate{tlcreate: tlcreate{fid: vh07Fid(c.f), Name: "n" + c.side, OpenFlags: ReadWrite, Permissions: 0o644}}, &rucreate{})
		}, true},
		{"mkdir", "tmkdir.handle", "Mkdir", "self", "Directory", "Name", "", "", "dir", -1, "self", nm("n"), func(c *vh07Ctx) error {
			return vh07Send(c.f, &tmkdir{Directory: vh07Fid(c.f), Name: "n" + c.side, Permissions: 0o755}, &rmkdir{})
		}, false},
		{"umkdir", "tumkdir.handle", "Mkdir", "self", "tmkdir.Directory", "tmkdir.Name", "", "", "dir", -1, "self", nm("n"), func(c *vh07Ctx) error {
			return vh07Send(c.f, &tumkdir{tmkdir: tmkdir{Directory: vh07Fid(c.f), Name: "n" + c.side, Permissions: 0o755}}, &rumkdir{})
		}, false},
		{"symlink", "tsymlink.handle", "Symlink", "self", "Directory", "Name", "", "", "dir", -1, "self", nm("n"), func(c *vh07Ctx) error {
			return vh07Send(c.f, &tsymlink{Directory: vh07Fid(c.f), Name: "n" + c.side, Target: "t"}, &rsymlink{})
		}, false},
		{"usymlink", "tusymlink.handle", "Symlink", "self", "tsymlink.Directory", "tsymlink.Name", "", "", "dir", -1, "self", nm("n"), func(c *vh07Ctx) error {
			return vh07Send(c.f, &tusymlink{tsymlink: tsymlink{Directory: vh07Fid(c.f), Name: "n" + c.side, Target: "t"}}, &rusymlink{})
		}, false},
		{"mknod", "tmknod.handle", "Mknod", "self", "Directory", "Name", "", "", "dir", -1, "self", nm("n"), func(c *vh07Ctx) error {
			return vh07Send(c.f, &tmknod{Directory: vh07Fid(c.f), Name: "n" + c.side, Mode: ModeNamedPipe | 0o644}, &rmknod{})
		}, false},
		{"umknod", "tumknod.handle", "Mknod", "self", "tmknod.Directory", "tmknod.Name", "", "", "dir", -1, "self", nm("n"), func(c *vh07Ctx) error {
			return vh07Send(c.f, &tumknod{tmknod: tmknod{Directory: vh07Fid(c.f), Name: "n" + c.side, Mode: ModeNamedPipe | 0o644}}, &rumknod{})
		}, false},
		{"link", "tlink.handle", "Link", "self", "Directory", "Name", "Target", "file", "dir", -1, "self", nm("n"), func(c *vh07Ctx) error { return c.f.Link(c.dirf, "n"+c.side) }, false},
		{"unlinkat", "tunlinkat.handle", "UnlinkAt", "self", "Directory", "Name", "", "", "dir", -1, "self", nm("u"), func(c *vh07Ctx) error { return c.f.UnlinkAt("u"+c.side, 0) }, false},
		{"renameat", "trenameat.handle", "RenameAt", "self", "OldDirectory", "OldName", "NewDirectory", "otherdir", "dir", -1, "self", nm("r"), func(c *vh07Ctx) error { return c.f.RenameAt("r"+c.side, c.dirf, "m"+c.side) }, false},
		{"rename", "trename.handle", "RenameAt", "parent", "fid", "", "Directory", "otherdir", "file", 0, "parent", none, func(c *vh07Ctx) error { return c.f.Rename(c.dirf, "m"+c.side) }, false},
		{"remove", "tremove.handle", "UnlinkAt", "parent", "fid", "", "", "", "file", 0, "parent", none, func(c *vh07Ctx) error { return c.f.(*clientFile).Remove() }, true},
		{"clunk", "tclunk.handle", "Close", "self", "fid", "", "", "", "any", 0, "self", none, func(c *vh07Ctx) error { return c.f.Close() }, true},
	}
}

type vh07Rq struct {
	Root   string            `json:"root"`
	Method string            `json:"method"`
	Role   string            `json:"role"`  // self | child | parent
	FidF   string            `json:"fidf"`  // T-message field of the fid the call is made on
	NameF  string            `json:"namef"` // T-message field of the entry name
	Refs   map[string]string `json:"refs"`  // symbolic ref -> path ("/d/c")
	Names  map[string]string `json:"names"` // symbolic name -> entry
	Conn   int               `json:"conn"`
	Fid    string            `json:"fid"` // identity of the fidRef
	Probe  *vhgProbe         `json:"probe,omitempty"` // lock states seen from inside the gated call (first request only)
	Node   string            `json:"node"`
	Entry  string            `json:"entry"`
}

type vh07Obs struct {
	Kind    string  `json:"kind"` // rv | invalid | hang
	Key     string  `json:"key"`
	Rel     string  `json:"rel"`
	A       vh07Rq  `json:"a"`
	B       vh07Rq  `json:"b"`
	AName   string  `json:"aname"`
	BName   string  `json:"bname"`
	Entered bool    `json:"entered"`
	BDone   bool    `json:"bdone"` // the second request returned before the first was released
	Tries   int     `json:"tries"`
	WaitMs  int     `json:"wait_ms"`
	Why     string  `json:"why,omitempty"`
	Opens   int     `json:"opens"` // File.Open calls on one handle (max)
	_       float64 `json:"-"`
}

var vh07Rels = []string{"samefid", "twofids", "crossconn", "parentchild", "childparent", "siblings", "entrychild", "entryparent", "createdfid", "root"}

func vh07Seed(fs *vhgFS) {
	fs.add("/d", ModeDirectory|0o755, "")
	for _, d := range []string{"", "/d", "/d/c", "/d/e"} {
		if d != "/d" && d != "" {
			fs.add(d, ModeDirectory|0o755, "")
		}
		for _, n := range []string{"wa", "wb", "ua", "ub", "ra", "rb"} {
			fs.add(d+"/"+n, ModeRegular|0o644, "data")
		}
	}
	fs.add("/d/f", ModeRegular|0o644, "hello")
	fs.add("/d/g", ModeRegular|0o644, "world")
	fs.add("/d/l", ModeSymlink|0o777, "f")
	fs.add("/d/k", ModeSymlink|0o777, "g")
}

// vh07Pick chooses the paths of the two requests for a relation; ok=false when the pair does not fit.
func vh07Pick(a, b *vh07Req, rel string) (pa, pb string, ok bool) {
	// the two-component walk starts at /d and ends at /d/c/<w>: it is paired with requests on that entry
	if a.target == "dir2" || b.target == "dir2" {
		switch {
		case a.target == "dir2" && b.target != "dir2" && rel == "entrychild" && (b.target == "file" || b.target == "any"):
			return "/d", "/d/c/" + a.entry("a"), true
		case b.target == "dir2" && a.target != "dir2" && rel == "entryparent" && (a.target == "file" || a.target == "any"):
			return "/d/c/" + b.entry("b"), "/d", true
		}
		return "", "", false
	}
	byType := func(t string, second bool) string {
		switch t {
		case "dir":
			if second {
				return "/d/e"
			}
			return "/d/c"
		case "link":
			if second {
				return "/d/k"
			}
			return "/d/l"
		default:
			if second {
				return "/d/g"
			}
			return "/d/f"
		}
	}
	switch rel {
	case "createdfid": // the first request uses the fid a Tlcreate produced, the second a fid walked to the same path
		if (a.target != "file" && a.target != "any") || a.open < 0 || (b.target != "file" && b.target != "any") {
			return "", "", false
		}
		return "/d/c/zf", "/d/c/zf", true
	case "root": // both on the attach point (two attaches)
		if (a.target != "dir" && a.target != "any") || (b.target != "dir" && b.target != "any") {
			return "", "", false
		}
		return "", "", true
	case "samefid", "twofids", "crossconn":
		t := a.target
		if t == "any" {
			t = b.target
		}
		if b.target != "any" && b.target != t {
			return "", "", false
		}
		if t == "any" {
			t = "file"
		}
		p := byType(t, false)
		return p, p, true
	case "entrychild": // the second request works on the very entry the first one names
		if a.entry("a") == "" || strings.HasPrefix(a.entry("a"), "n") || (b.target != "file" && b.target != "any") {
			return "", "", false
		}
		return "/d/c", "/d/c/" + a.entry("a"), true
	case "entryparent":
		if b.entry("b") == "" || strings.HasPrefix(b.entry("b"), "n") || (a.target != "file" && a.target != "any") {
			return "", "", false
		}
		return "/d/c/" + b.entry("b"), "/d/c", true
	case "parentchild":
		if a.target != "dir" && a.target != "any" {
			return "", "", false
		}
		return "/d", byType(b.target, false), true
	case "childparent":
		if b.target != "dir" && b.target != "any" {
			return "", "", false
		}
		return byType(a.target, false), "/d", true
	default:
		pa, pb = byType(a.target, false), byType(b.target, true)
		return pa, pb, true
	}
}

func vh07Walk(root File, path string) (File, error) {
	var names []string
	for _, n := range strings.Split(path, "/") {
		if n != "" {
			names = append(names, n)
		}
	}
	if len(names) == 0 {
		_, f, err := root.Walk(nil)
		vhgDefuse(f)
		return f, err
	}
	_, f, err := root.Walk(names)
	vhgDefuse(f)
	return f, err
}

func vh07GatePath(r *vh07Req, p, side string) string {
	switch r.gate {
	case "child":
		return p + "/" + r.entry(side)
	case "child2":
		return p + "/c/" + r.entry(side)
	case "parent":
		if i := strings.LastIndex(p, "/"); i >= 0 {
			return p[:i]
		}
	}
	return p
}

func vh07One(a, b *vh07Req, rel string, wait time.Duration, tries int) vh07Obs {
	o := vh07Obs{Kind: "rv", Rel: rel, AName: a.name, BName: b.name, Key: a.name + "|" + b.name + "|" + rel, WaitMs: int(wait / time.Millisecond)}
	pa, pb, ok := vh07Pick(a, b, rel)
	if !ok {
		o.Kind, o.Why = "invalid", "relation does not fit the pair"
		return o
	}
	if rel == "samefid" && (a.open*b.open < 0 || a.consume) {
		o.Kind, o.Why = "invalid", "one fid cannot be both opened and unopened / is consumed"
		return o
	}
	for try := 0; try < tries; try++ {
		o.Tries = try + 1
		fs := vhgNewFS()
		vh07Seed(fs)
		env, err := vhgStart(fs, 2)
		if err != nil {
			o.Kind, o.Why = "invalid", "start: "+err.Error()
			return o
		}
		fail := func(why string) vh07Obs {
			env.stop(2 * time.Second)
			o.Kind, o.Why = "invalid", why
			return o
		}
		ra, err := vhgAttach(env.clients[0])
		if err != nil {
			return fail("attach: " + err.Error())
		}
		connB := 0
		rb := ra
		if rel == "crossconn" || rel == "root" {
			connB = 1
			if rb, err = vhgAttach(env.clients[1]); err != nil {
				return fail("attach: " + err.Error())
			}
		}
		mk := func(root File, p string, open int, wantOpenFlags OpenFlags) (File, error) {
			f, err := vh07Walk(root, p)
			if err != nil {
				return nil, err
			}
			if open > 0 {
				if _, _, err := f.Open(wantOpenFlags); err != nil {
					return nil, err
				}
			}
			return f, nil
		}
		flagsFor := func(p string) OpenFlags {
			if p == "/d/f" || p == "/d/g" || strings.HasPrefix(p, "/d/c/") {
				return ReadWrite
			}
			return ReadOnly
		}
		openA := a.open
		if rel == "samefid" && b.open > 0 {
			openA = 1
		}
		var fa File
		if rel == "createdfid" {
			d, err := vh07Walk(ra, "/d/c")
			if err != nil {
				return fail("prepare a: " + err.Error())
			}
			if fa, _, _, err = d.Create("zf", ReadWrite, 0o644, 0, 0); err != nil {
				return fail("prepare a (create): " + err.Error())
			}
		} else if fa, err = mk(ra, pa, openA, flagsFor(pa)); err != nil {
			return fail("prepare a: " + err.Error())
		}
		fb := fa
		if rel != "samefid" {
			if fb, err = mk(rb, pb, b.open, flagsFor(pb)); err != nil {
				return fail("prepare b: " + err.Error())
			}
		}
		auxPath := func(r *vh07Req, p string) string {
			switch r.aux {
			case "file":
				return "/d/g"
			case "otherdir":
				return "/d/e"
			}
			return p
		}
		auxA, auxB := auxPath(a, pa), auxPath(b, pb)
		da, err := vh07Walk(ra, auxA)
		if err != nil {
			return fail("prepare a2: " + err.Error())
		}
		db, err := vh07Walk(rb, auxB)
		if err != nil {
			return fail("prepare b2: " + err.Error())
		}
		ca := &vh07Ctx{f: fa, dirf: da, side: "a"}
		cb := &vh07Ctx{f: fb, dirf: db, side: "b"}
		for _, pc := range []struct {
			r *vh07Req
			c *vh07Ctx
		}{{a, ca}, {b, cb}} {
			if pf := vh07Prep[pc.r.name]; pf != nil {
				if err := pf(pc.c); err != nil {
					return fail("prepare " + pc.r.name + ": " + err.Error())
				}
			}
		}
		fidA, fidB := "a", "b"
		if rel == "samefid" {
			fidB = "a"
		}
		bind := func(r *vh07Req, p, aux, side string, conn int, fid string) vh07Rq {
			q := vh07Rq{Root: r.root, Method: r.method, Role: r.role, FidF: r.fidf, NameF: r.namef, Refs: map[string]string{}, Names: map[string]string{}, Conn: conn, Fid: fid}
			q.Refs[r.fidf] = p
			if r.gate == "child2" {
				q.Refs[r.fidf] = p + "/c" // the walk position when the second component is walked
			}
			if r.fid2f != "" {
				q.Refs[r.fid2f] = aux
			}
			if r.namef != "" {
				q.Names[r.namef] = r.entry(side)
			}
			q.Node = vh07GatePath(r, p, side)
			if r.method == "UnlinkAt" {
				if r.role == "parent" {
					q.Entry = p
				} else {
					q.Entry = p + "/" + r.entry(side)
				}
			}
			return q
		}
		o.A, o.B = bind(a, pa, auxA, "a", 0, fidA), bind(b, pb, auxB, "b", connB, fidB)

		g := fs.arm(a.method, vh07GatePath(a, pa, "a"), 0)
		doneA, doneB := make(chan struct{}), make(chan struct{})
		go func() { a.run(ca); close(doneA) }()
		select {
		case <-g.reached:
		case <-doneA:
			return fail("first request finished without reaching the gate")
		case <-time.After(10 * time.Second):
			close(g.release)
			env.stop(2 * time.Second)
			o.Kind, o.Why = "hang", "first request neither reached the backend nor returned"
			return o
		}
		pr := g.probe
		o.A.Probe = &pr
		from := fs.logLen()
		go func() { b.run(cb); close(doneB) }()
		entered := fs.waitEnter(b.method, vh07GatePath(b, pb, "b"), from, wait, doneB)
		select {
		case <-doneB:
			o.BDone = true
		default:
			o.BDone = false
		}
		close(g.release)
		hang := false
		for _, ch := range []chan struct{}{doneA, doneB} {
			select {
			case <-ch:
			case <-time.After(20 * time.Second):
				hang = true
			}
		}
		fs.mu.Lock()
		for _, n := range fs.opens {
			if n > o.Opens {
				o.Opens = n
			}
		}
		fs.mu.Unlock()
		if !env.stop(20*time.Second) || hang {
			o.Kind, o.Why = "hang", "request not answered / connection did not shut down within the watchdog"
			return o
		}
		o.Entered = entered
		if entered {
			return o
		}
	}
	return o
}

func TestVerifC07(t *testing.T) {
	out := vhOpen(t)
	defer out.Close()
	reqs := vh07Reqs()
	type job struct {
		a, b *vh07Req
		rel  string
	}
	var jobs []job
	confirm := map[string]bool{}
	if c := os.Getenv("VERIF_C07_CONFIRM"); c != "" {
		for _, k := range strings.Split(c, ",") {
			confirm[k] = true
		}
	}
	for i := range reqs {
		for j := range reqs {
			for _, rel := range vh07Rels {
				jobs = append(jobs, job{&reqs[i], &reqs[j], rel})
			}
		}
	}
	wait, tries := 250*time.Millisecond, 1
	if len(confirm) > 0 {
		wait, tries = 1100*time.Millisecond, 3
		var sel []job
		for _, jb := range jobs {
			if confirm[jb.a.name+"|"+jb.b.name+"|"+jb.rel] {
				sel = append(sel, jb)
			}
		}
		jobs = sel
	} else if !vhThorough() {
		// quick tier: every pair on a seeded choice of two relations, plus all pairs with a write/global class member on all relations
		rng := vhRand()
		heavy := map[string]bool{"clonegetattr": true, "walkgetattr2": true, "walkgetattr": true, "setattr": true, "create": true, "mkdir": true, "unlinkat": true, "renameat": true, "open": true, "clunk": true}
		var sel []job
		for _, jb := range jobs {
			if heavy[jb.a.name] && heavy[jb.b.name] || jb.rel == "entrychild" || jb.rel == "entryparent" || rng.Intn(6) < 2 {
				sel = append(sel, jb)
			}
		}
		jobs = sel
	}
	var wg sync.WaitGroup
	ch := make(chan job)
	res := make(chan vh07Obs, len(jobs))
	for w := 0; w < 12; w++ {
		wg.Add(1)
		go func() {
			defer wg.Done()
			for jb := range ch {
				res <- vh07One(jb.a, jb.b, jb.rel, wait, tries)
			}
		}()
	}
	for _, jb := range jobs {
		ch <- jb
	}
	close(ch)
	wg.Wait()
	close(res)
	var all []vh07Obs
	for o := range res {
		all = append(all, o)
	}
	sort.Slice(all, func(i, j int) bool { return all[i].Key < all[j].Key })
	for _, o := range all {
		out.Emit(o)
	}
	if len(confirm) == 0 {
		vh07OpenProbe(out)
		vh07StaleProbe(out)
	}
}

// vh07StaleProbe: the node a handler locks for a child must be the node the name denotes WHEN THE BACKEND CALL RUNS.
// Three requests: RenameAt(f -> x) in /d is parked inside the backend (the server holds its rename lock);
// Tunlinkat(/d, x) arrives on a second connection and has to wait for the rename; the rename is released and moves
// the entry (with a live fid) to x; the unlink's UnlinkAt is parked in the backend; GetAttr through the fid of
// the moved entry is sent.  UnlinkAt is documented exclusive on the entry: GetAttr entering the backend while
// UnlinkAt is parked is an overlap (an event).  Not entering within the window is what a correct server does.
func vh07StaleProbe(out *vhOut) {
	for rep := 0; rep < 3; rep++ {
		fs := vhgNewFS()
		vh07Seed(fs)
		env, err := vhgStart(fs, 2)
		if err != nil {
			continue
		}
		o := map[string]interface{}{"kind": "staleprobe", "key": fmt.Sprintf("staleprobe|%d", rep), "valid": false, "entered": false, "unlink_parked": false}
		func() {
			ra, err := vhgAttach(env.clients[0])
			if err != nil {
				return
			}
			rb, err := vhgAttach(env.clients[1])
			if err != nil {
				return
			}
			d1, err := vh07Walk(ra, "/d")
			if err != nil {
				return
			}
			moved, err := vh07Walk(ra, "/d/f")
			if err != nil {
				return
			}
			d2, err := vh07Walk(rb, "/d")
			if err != nil {
				return
			}
			g1 := fs.arm("RenameAt", "/d", 0)
			rdone := make(chan error, 1)
			go func() { rdone <- d1.RenameAt("f", d1, "x") }()
			select {
			case <-g1.reached:
			case <-time.After(5 * time.Second):
				return
			}
			udone := make(chan error, 1)
			go func() { udone <- d2.UnlinkAt("x", 0) }()
			time.Sleep(60 * time.Millisecond) // the unlink reaches the rename lock and waits there (if it has not yet, nothing is exposed: no alarm)
			g2 := fs.arm("UnlinkAt", "/d", 0)
			close(g1.release)
			select {
			case <-rdone:
			case <-time.After(5 * time.Second):
				return
			}
			select {
			case <-g2.reached:
				o["unlink_parked"] = true
			case <-udone: // answered without reaching the backend
				return
			case <-time.After(5 * time.Second):
				return
			}
			o["valid"] = true
			from := fs.logLen()
			gdone := make(chan struct{})
			go func() { moved.GetAttr(AttrMaskAll); close(gdone) }()
			deadline := time.Now().Add(400 * time.Millisecond)
			for time.Now().Before(deadline) {
				hit := false
				for _, e := range fs.snapshot()[from:] {
					if e.Enter && e.Method == "GetAttr" {
						hit = true
					}
				}
				if hit {
					o["entered"] = true
					break
				}
				time.Sleep(5 * time.Millisecond)
			}
			close(g2.release)
			select {
			case <-udone:
			case <-time.After(5 * time.Second):
			}
			select {
			case <-gdone:
			case <-time.After(5 * time.Second):
			}
		}()
		env.stop(5 * time.Second)
		out.Emit(o)
	}
}

// vh07OpenProbe: "Open is invoked at most once on a File" ACROSS fids.  The only way two fids stand for one
// backend File is Txattrwalk (the new fid borrows the File of the one it was walked from); Tlopen on both, in
// either order, on a file and on a directory, must not reach File.Open twice.  Raw requests through the
// client's own connection (the File API offers no Open on an xattr fid).
func vh07OpenProbe(out *vhOut) {
	for _, path := range []string{"/d/f", "/d/c"} {
		for order := 0; order < 2; order++ {
			fs := vhgNewFS()
			vh07Seed(fs)
			env, err := vhgStart(fs, 1)
			if err != nil {
				continue
			}
			c := env.clients[0]
			o := map[string]interface{}{"kind": "openprobe", "key": fmt.Sprintf("openprobe|%s|%d", path, order), "path": path, "order": order, "opens": 0, "valid": false, "entered": false, "bdone": false}
			func() {
				ra, err := vhgAttach(c)
				if err != nil {
					return
				}
				f, err := vh07Walk(ra, path)
				if err != nil {
					return
				}
				cf := f.(*clientFile)
				xf, ok := c.fidPool.Get()
				if !ok {
					return
				}
				if err := c.sendRecv(&txattrwalk{fid: cf.fid, newFID: fid(xf), Name: "user.x"}, &rxattrwalk{}); err != nil {
					return
				}
				o["valid"] = true
				openX := func() { c.sendRecv(&tlopen{fid: fid(xf), Flags: ReadOnly}, &rlopen{}) }
				openF := func() { c.sendRecv(&tlopen{fid: cf.fid, Flags: ReadOnly}, &rlopen{}) }
				if order == 0 {
					openF()
					openX()
				} else {
					openX()
					openF()
				}
			}()
			fs.mu.Lock()
			mx := 0
			for _, n := range fs.opens {
				if n > mx {
					mx = n
				}
			}
			fs.mu.Unlock()
			o["opens"] = mx
			env.stop(5 * time.Second)
			out.Emit(o)
		}
	}
}
