package p9

// C12 correspondence harness: parseVersion / versionString / tversion.handle /
// Server.Handle with a raw Tversion / NewClient against scripted fake servers.

import (
	"encoding/binary"
	"errors"
	"fmt"
	"io"
	"math/rand"
	"net"
	"testing"
	"time"

	"github.com/hugelgupf/p9/linux"
)

func vh12Strings(r *rand.Rand, n int) []string {
	fixed := []string{
		"", "9P2000", "9P2000.u", "9P2000.L", "9P2000.L.", "9P2000.L.Google", "9P2000.L.Google.",
		"9P2000.L.Google.0", "9P2000.L.Google.1", "9P2000.L.Google.7", "9P2000.L.Google.8", "9P2000.L.Google.007",
		"9P2000.L.Google.00000000000000000000000000000003", "9P2000.L.Google.4294967295", "9P2000.L.Google.4294967296",
		"9P2000.L.Google.99999999999999999999", "9P2000.L.Google.+1", "9P2000.L.Google.-1", "9P2000.L.Google.1_0",
		"9P2000.L.Google. 1", "9P2000.L.Google.1 ", "9P2000.L.Google.0x1", "9P2000.L.Google.1.2", "9P2000.L.Google.1.",
		".9P2000.L.Google.1", "9P2000.l.Google.1", "9p2000.L.Google.1", "9P2000.L.google.1", "9P2000.u.Google.1",
		"9P2000.L.Google.١", "unknown", "9P2000.L\x00", "9P2000.L.Google.1\x00", "9P2000..L.Google.1", "...", "....",
		"9P2000.L.Google.\xff", "9P2001.L", "9P2000.L.Google.18446744073709551616", "9P2000.L.Google.0000000000", "9P2000.L.Google.00",
	}
	out := append([]string{}, fixed...)
	alphabet := []string{"9P2000", "L", "Google", ".", "u", "0", "1", "7", "9", "42", "4294967295", "4294967296", "+", "-", "_", " ", "x", "\x00", "\xfe", "00"}
	for len(out) < n {
		switch r.Intn(4) {
		case 0: // valid with random number
			out = append(out, fmt.Sprintf("9P2000.L.Google.%d", r.Uint64()>>uint(r.Intn(64))))
		case 1: // valid shape with leading zeros
			out = append(out, fmt.Sprintf("9P2000.L.Google.%0*d", 1+r.Intn(12), r.Intn(20)))
		case 2: // random concatenation of tokens
			k := 1 + r.Intn(8)
			s := ""
			for i := 0; i < k; i++ {
				s += alphabet[r.Intn(len(alphabet))]
			}
			out = append(out, s)
		default: // mutate a fixed string
			b := []byte(fixed[r.Intn(len(fixed))])
			if len(b) > 0 {
				switch r.Intn(3) {
				case 0:
					b[r.Intn(len(b))] = byte(r.Intn(256))
				case 1:
					i := r.Intn(len(b))
					b = append(b[:i], b[i+1:]...)
				default:
					i := r.Intn(len(b) + 1)
					b = append(b[:i], append([]byte{byte(r.Intn(256))}, b[i:]...)...)
				}
			}
			out = append(out, string(b))
		}
	}
	return out
}

type vh12Attacher struct{}

func (vh12Attacher) Attach() (File, error) { return nil, linux.ENOSYS }

// vh12Raw sends one raw Tversion to a real Server.Handle and returns the reply.
func vh12Raw(msize uint32, version string) (typ byte, rmsize uint32, rversion []byte, err error) {
	c, s := net.Pipe()
	srv := NewServer(vh12Attacher{})
	done := make(chan struct{})
	go func() { srv.Handle(s, s); close(done) }()
	body := vhLE32(msize)
	body = vhPutString(body, version)
	go c.Write(vhFrame(byte(msgTversion), 0xffff, body))
	typ, _, rb, err := vhReadFrame(c, 5*time.Second)
	c.Close()
	<-done
	if err != nil {
		return typ, 0, nil, err
	}
	if typ == byte(msgRversion) && len(rb) >= 6 {
		rmsize = binary.LittleEndian.Uint32(rb)
		l := int(binary.LittleEndian.Uint16(rb[4:]))
		if 6+l <= len(rb) {
			rversion = rb[6 : 6+l]
		}
	}
	return typ, rmsize, rversion, nil
}

type vh12Reply struct {
	Kind    string `json:"kind"` // err, conn, rversion
	Errno   uint32 `json:"errno"`
	MSize   uint32 `json:"msize"`
	Version []int  `json:"version"`
	version string
}

// vh12Client runs NewClient against a scripted server and then lets the client write and list.
func vh12Client(o *vhOut, id int, reqMsize uint32, script []vh12Reply) {
	c, s := net.Pipe()
	type sentT struct {
		MSize   uint32 `json:"msize"`
		Version []int  `json:"version"`
	}
	var sent []sentT
	type frameT struct {
		Type  int    `json:"type"`
		Size  uint32 `json:"size"`
		Count uint32 `json:"count"` // Twrite data length / Tread count / Treaddir count
	}
	var later []frameT
	srvDone := make(chan struct{})
	// net.Pipe is synchronous: a peer that stops reading would block the fake server for ever
	swrite := func(b []byte) bool {
		s.SetWriteDeadline(time.Now().Add(3 * time.Second))
		_, err := s.Write(b)
		return err == nil
	}
	go func() {
		defer close(srvDone)
		defer s.Close()
		i := 0
		for {
			typ, tag, body, err := vhReadFrame(s, 5*time.Second)
			if err != nil {
				return
			}
			switch msgType(typ) {
			case msgTversion:
				ms := binary.LittleEndian.Uint32(body)
				l := int(binary.LittleEndian.Uint16(body[4:]))
				sent = append(sent, sentT{ms, vhBytes(body[6 : 6+l])})
				if i >= len(script) {
					return
				}
				r := script[i]
				i++
				switch r.Kind {
				case "err":
					if !swrite(vhFrame(byte(msgRlerror), tag, vhLE32(r.Errno))) {
						return
					}
				case "conn":
					return
				default:
					b := vhLE32(r.MSize)
					b = vhPutString(b, r.version)
					if !swrite(vhFrame(byte(msgRversion), tag, b)) {
						return
					}
				}
			case msgTattach:
				// qid[13]
				if !swrite(vhFrame(byte(msgRattach), tag, make([]byte, 13))) {
					return
				}
			case msgTwrite:
				cnt := binary.LittleEndian.Uint32(body[12:])
				later = append(later, frameT{int(typ), uint32(len(body) + 7), cnt})
				if !swrite(vhFrame(byte(msgRwrite), tag, vhLE32(cnt))) {
					return
				}
			case msgTread:
				cnt := binary.LittleEndian.Uint32(body[12:])
				later = append(later, frameT{int(typ), uint32(len(body) + 7), cnt})
				b := append(vhLE32(cnt), make([]byte, cnt)...)
				if !swrite(vhFrame(byte(msgRread), tag, b)) {
					return
				}
			case msgTreaddir:
				cnt := binary.LittleEndian.Uint32(body[12:])
				later = append(later, frameT{int(typ), uint32(len(body) + 7), cnt})
				if !swrite(vhFrame(byte(msgRreaddir), tag, vhLE32(0))) {
					return
				}
			case msgTclunk:
				if !swrite(vhFrame(byte(msgRclunk), tag, nil)) {
					return
				}
			default:
				if !swrite(vhFrame(byte(msgRlerror), tag, vhLE32(uint32(linux.ENOSYS)))) {
					return
				}
			}
		}
	}()
	var opts []ClientOpt
	if reqMsize != 0 {
		opts = append(opts, WithMessageSize(reqMsize))
	}
	cl, err := NewClient(c, opts...)
	res := map[string]interface{}{"kind": "client", "id": id, "req_msize": reqMsize}
	var tooLarge *ErrMessageTooLarge
	switch {
	case err == nil:
		res["result"] = "ok"
		res["version"] = cl.version
		res["msize"] = cl.messageSize
		res["payload"] = cl.payloadSize
		// let it send things
		opsDone := make(chan struct{})
		go func() {
			defer close(opsDone)
			if f, aerr := cl.Attach(""); aerr == nil {
				n := int(cl.payloadSize)*2 + 17
				if n > 3<<20 {
					n = 3 << 20
				}
				f.WriteAt(make([]byte, n), 0)
				f.ReadAt(make([]byte, n), 5)
				f.Readdir(0, 0xffffffff)
				f.Readdir(0, 100)
				f.Close()
			}
		}()
		select {
		case <-opsDone:
		case <-time.After(20 * time.Second):
			res["hang"] = true // a call did not return; closing the connection below releases it
		}
	case errors.Is(err, ErrVersionsExhausted):
		res["result"] = "exhausted"
	case errors.Is(err, ErrBadVersionString):
		res["result"] = "badversion"
	case errors.As(err, &tooLarge):
		res["result"] = "toosmall"
	default:
		var e linux.Errno
		if errors.As(err, &e) {
			res["result"] = "errno"
			res["errno"] = uint32(e)
		} else {
			res["result"] = "conn"
		}
	}
	c.Close()
	<-srvDone
	res["sent"] = sent
	res["later"] = later
	res["script"] = script
	o.Emit(res)
}

func TestVerifC12(t *testing.T) {
	o := vhOpen(t)
	defer o.Close()
	r := vhRand()
	nstr := 400
	if vhThorough() {
		nstr = 6000
	}
	o.Emit(map[string]interface{}{"kind": "consts", "largestFixedSize": msgDotLRegistry.largestFixedSize,
		"maximumLength": maximumLength, "highest": highestSupportedVersion, "defaultMsize": DefaultMessageSize})

	strs := vh12Strings(r, nstr)
	for _, s := range strs {
		b, v, ok := parseVersion(s)
		o.Emit(map[string]interface{}{"kind": "parse", "s": vhBytes([]byte(s)), "base": string(b), "ver": v, "ok": ok})
	}
	// versionString
	nums := []uint32{0, 1, 2, 7, 8, 9, 10, 99, 100, 1 << 16, 1<<31 - 1, 1 << 31, 1<<32 - 1}
	for i := 0; i < 60; i++ {
		nums = append(nums, r.Uint32()>>uint(r.Intn(32)))
	}
	for _, n := range nums {
		o.Emit(map[string]interface{}{"kind": "vstr", "n": n, "s": vhBytes([]byte(versionString(version9P2000L, n)))})
	}
	// tversion.handle white box (state) and through Server.Handle (wire)
	msizes := []uint32{0, 1, 6, 7, 8, 23, 153, 154, 4096, 65536, maximumLength - 1, maximumLength, maximumLength + 1, 1 << 31, 1<<32 - 1}
	k := 0
	for _, s := range strs {
		k++
		var ms uint32
		if k%3 == 0 {
			ms = r.Uint32() >> uint(r.Intn(32))
		} else {
			ms = msizes[r.Intn(len(msizes))]
		}
		cs := &connState{server: NewServer(vh12Attacher{}), fids: map[fid]*fidRef{}, tags: map[tag]chan struct{}{}}
		tv := &tversion{MSize: ms, Version: s}
		rm := tv.handle(cs)
		ob := map[string]interface{}{"kind": "handle", "msize": ms, "s": vhBytes([]byte(s)), "cs_msize": cs.messageSize, "cs_version": cs.version}
		if rv, ok := rm.(*rversion); ok {
			ob["rtype"] = "rversion"
			ob["rmsize"] = rv.MSize
			ob["rversion"] = vhBytes([]byte(rv.Version))
		} else {
			ob["rtype"] = fmt.Sprintf("%T", rm)
		}
		o.Emit(ob)
		if k%4 == 0 || k < 60 {
			typ, rms, rver, err := vh12Raw(ms, s)
			wo := map[string]interface{}{"kind": "wire", "msize": ms, "s": vhBytes([]byte(s)), "rtype": int(typ), "rmsize": rms, "rversion": vhBytes(rver)}
			if err != nil {
				wo["err"] = err.Error()
			}
			o.Emit(wo)
		}
	}
	// NewClient against scripted servers
	verPool := []string{"9P2000.L", "9P2000.L.Google.7", "9P2000.L.Google.6", "9P2000.L.Google.3", "9P2000.L.Google.1", "9P2000.L.Google.0", "9P2000.L.Google.9",
		"unknown", "9P2000", "9P2000.u", "9P2000.L.Google.", "9P2000.L.Google.x", "", "9P2000.L.Google.4294967296", "9P2000.L.Google.002"}
	// sessions: several Tversion on ONE connection state / ONE connection
	nsess := 60
	if vhThorough() {
		nsess = 600
	}
	sessStrs := []string{"9P2000.L", "9P2000.L.Google.7", "9P2000.L.Google.3", "9P2000.L.Google.12", "9P2000.L.Google.0", "9P2000.u", "unknown", "",
		"9P2000.L.Google.x", "9P2000.L.Google.4294967296", "9P2000.L.Google.000000000000000000000000000002", "9P2000"}
	sessMs := []uint32{0, 1, 12, 13, 20, 21, 28, 29, 30, 40, 64, 154, 4096, 8192, 65536, maximumLength, maximumLength + 1, 1<<32 - 1}
	for i := 0; i < nsess; i++ {
		k := 2 + r.Intn(4)
		type reqT struct {
			MSize uint32 `json:"msize"`
			S     []int  `json:"s"`
			s     string
		}
		var reqs []reqT
		for j := 0; j < k; j++ {
			v := sessStrs[r.Intn(len(sessStrs))]
			reqs = append(reqs, reqT{sessMs[r.Intn(len(sessMs))], vhBytes([]byte(v)), v})
		}
		// white box: one connState
		cs := &connState{server: NewServer(vh12Attacher{}), fids: map[fid]*fidRef{}, tags: map[tag]chan struct{}{}}
		var replies []map[string]interface{}
		var states [][2]uint32
		for _, q := range reqs {
			rm := (&tversion{MSize: q.MSize, Version: q.s}).handle(cs)
			if rv, ok := rm.(*rversion); ok {
				replies = append(replies, map[string]interface{}{"msize": rv.MSize, "version": vhBytes([]byte(rv.Version))})
			}
			states = append(states, [2]uint32{cs.messageSize, cs.version})
		}
		o.Emit(map[string]interface{}{"kind": "session", "reqs": reqs, "replies": replies, "states": states})
		// wire: one connection, k frames with assorted tags, read replies until the connection ends
		c, sv := net.Pipe()
		srv := NewServer(vh12Attacher{})
		done := make(chan struct{})
		go func() { srv.Handle(sv, sv); close(done) }()
		// lock step (one request in flight): concurrent Tversions would race on the connection state by design
		var wreplies []map[string]interface{}
		for j, q := range reqs {
			body := vhLE32(q.MSize)
			body = vhPutString(body, q.s)
			tg := uint16(0xffff)
			if j%2 == 1 {
				tg = uint16(j)
			}
			frame := vhFrame(byte(msgTversion), tg, body)
			werr := make(chan error, 1)
			go func() {
				c.SetWriteDeadline(time.Now().Add(3 * time.Second))
				_, err := c.Write(frame)
				werr <- err
			}()
			typ, _, rb, err := vhReadFrame(c, 3*time.Second)
			if err != nil {
				break
			}
			<-werr
			if typ == byte(msgRversion) && len(rb) >= 6 {
				l := int(binary.LittleEndian.Uint16(rb[4:]))
				wreplies = append(wreplies, map[string]interface{}{"msize": binary.LittleEndian.Uint32(rb), "version": vhBytes(rb[6 : 6+l])})
			} else {
				wreplies = append(wreplies, map[string]interface{}{"msize": 0, "version": vhBytes([]byte(fmt.Sprintf("!type%d", typ)))})
			}
		}
		c.Close()
		<-done
		o.Emit(map[string]interface{}{"kind": "wiresession", "reqs": reqs, "replies": wreplies})
	}

	// fixed scripts first: every length of EAGAIN chain, ended by each kind of reply (ErrVersionsExhausted needs 8 in a row)
	eagain := vh12Reply{Kind: "err", Errno: uint32(linux.EAGAIN)}
	fid := 100000
	for n := 0; n <= 9; n++ {
		for _, end := range []vh12Reply{
			{Kind: "rversion", MSize: 8192, Version: vhBytes([]byte("9P2000.L.Google.2")), version: "9P2000.L.Google.2"},
			{Kind: "rversion", MSize: 65536, Version: vhBytes([]byte("9P2000.u")), version: "9P2000.u"},
			{Kind: "rversion", MSize: 1 << 20, Version: vhBytes([]byte("9P2000.L.Google.9")), version: "9P2000.L.Google.9"},
			{Kind: "err", Errno: 5}, {Kind: "conn"}} {
			var script []vh12Reply
			for i := 0; i < n; i++ {
				script = append(script, eagain)
			}
			script = append(script, end)
			vh12Client(o, fid, 0, script)
			fid++
		}
	}
	ncl := 120
	if vhThorough() {
		ncl = 1500
	}
	for id := 0; id < ncl; id++ {
		var req uint32
		switch r.Intn(4) {
		case 0:
			req = 0 // default
		case 1:
			req = 154 + uint32(r.Intn(2000))
		case 2:
			req = 4096 << uint(r.Intn(9))
		default:
			req = 154 + r.Uint32()%(2<<20)
		}
		eff := req
		if eff == 0 {
			eff = DefaultMessageSize
		}
		var script []vh12Reply
		for len(script) < 10 {
			x := r.Intn(10)
			if x < 3 {
				script = append(script, vh12Reply{Kind: "err", Errno: uint32(linux.EAGAIN)})
				continue
			}
			if x == 3 {
				script = append(script, vh12Reply{Kind: "err", Errno: []uint32{1, 5, 22, 38, 95}[r.Intn(5)]})
				break
			}
			if x == 4 && r.Intn(3) == 0 {
				script = append(script, vh12Reply{Kind: "conn"})
				break
			}
			v := verPool[r.Intn(len(verPool))]
			var ms uint32
			switch r.Intn(6) {
			case 0:
				ms = eff
			case 1:
				ms = eff / 2
			case 2:
				ms = 100 + uint32(r.Intn(120))
			case 3:
				ms = eff + 1 + uint32(r.Intn(1000))
			case 4:
				ms = 0
			default:
				ms = 154 + r.Uint32()%eff
			}
			script = append(script, vh12Reply{Kind: "rversion", MSize: ms, Version: vhBytes([]byte(v)), version: v})
			break
		}
		vh12Client(o, id, req, script)
	}
	_ = io.EOF
}
