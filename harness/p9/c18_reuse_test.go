package p9

// C18 correspondence harness (uses the reflection helpers of c01_codec_test.go).
//
// (a) Sequences of same-type frames (long -> short -> empty -> ...) are decoded with the real
//     recv into the object the real registry cache hands out (the one that held the previous
//     message, put back with the real registry.put), and, for comparison, into a new object.
// (b) Two connections to one real Server (shared message cache, pooled buffers) with a
//     recording backend: what the backend saw must be what that request's frame carried,
//     what the raw peer reads must be what the backend produced for that request.

import (
	"bytes"
	"encoding/binary"
	"encoding/hex"
	"fmt"
	"io"
	"net"
	"reflect"
	"runtime"
	"sync"
	"testing"
	"time"

	"github.com/hugelgupf/p9/linux"
	"github.com/u-root/uio/ulog"
)

func vh18Frame(m message, tg tag) []byte {
	var buf bytes.Buffer
	if err := send(ulog.Null, &buf, tg, m); err != nil {
		panic(err)
	}
	return append([]byte(nil), buf.Bytes()...)
}

// vh18Reuse decodes wire into the object the registry hands out and into a new one.
func vh18Reuse(o *vhOut, ty msgType, wire []byte, last *message, what string) {
	fresh := func() map[string]interface{} {
		tg, m, err := recv(ulog.Null, bytes.NewReader(wire), maximumLength, func(_ tag, t msgType) (message, error) {
			return msgDotLRegistry.factories[t].create(), nil
		})
		return vh01Result(tg, m, err)
	}()
	obj, err := msgDotLRegistry.get(0, ty) // what recv's lookup would get
	if err != nil {
		panic(err)
	}
	old := vh01DumpMsg(obj)
	reused := *last != nil && reflect.ValueOf(obj).Pointer() == reflect.ValueOf(*last).Pointer()
	tg, m, err := recv(ulog.Null, bytes.NewReader(wire), maximumLength, func(_ tag, t msgType) (message, error) { return obj, nil })
	rec := vh01Result(tg, m, err)
	o.Emit(map[string]interface{}{"k": "reuse", "typ": uint8(ty), "msize": maximumLength, "what": what, "wire": hex.EncodeToString(wire),
		"old": old, "reused": reused, "rec": rec, "fresh": fresh})
	// the server returns the request object to the cache after replying
	msgDotLRegistry.put(obj)
	*last = obj
}

// ---- recording backend -------------------------------------------------------

type vh18Call struct {
	dirty int // non-zero bytes in the whole buffer the server handed to ReadAt
	lazy  bool
	conn  int
	op    string
	names []string
	data  []byte
	off   uint64
	count uint32
	ents  Dirents
}

type vh18World struct {
	mu    sync.Mutex
	calls []vh18Call
	nconn int
	// gated reads (offset bit 61): ReadAt fills the buffer, reports on entered and waits for gate
	entered chan uint64
	gate    chan struct{}
}

// takeRead removes and returns the recorded ReadAt call of conn at offset off.
func (w *vh18World) takeRead(conn int, off uint64) (vh18Call, bool) {
	w.mu.Lock()
	defer w.mu.Unlock()
	for i, c := range w.calls {
		if c.conn == conn && c.op == "read" && c.off == off {
			w.calls = append(w.calls[:i:i], w.calls[i+1:]...)
			return c, true
		}
	}
	return vh18Call{}, false
}

func (w *vh18World) countReads(conn int) int {
	w.mu.Lock()
	defer w.mu.Unlock()
	n := 0
	for _, c := range w.calls {
		if c.conn == conn && c.op == "read" {
			n++
		}
	}
	return n
}

func (w *vh18World) add(c vh18Call) {
	w.mu.Lock()
	w.calls = append(w.calls, c)
	w.mu.Unlock()
}

func (w *vh18World) take(conn int, op string) []vh18Call {
	w.mu.Lock()
	defer w.mu.Unlock()
	var out, rest []vh18Call
	for _, c := range w.calls {
		if c.conn == conn && c.op == op {
			out = append(out, c)
		} else {
			rest = append(rest, c)
		}
	}
	w.calls = rest
	return out
}

type vh18Attacher struct {
	w *vh18World
}

func (a *vh18Attacher) Attach() (File, error) {
	a.w.mu.Lock()
	a.w.nconn++
	c := a.w.nconn
	a.w.mu.Unlock()
	return &vh18File{w: a.w, conn: c, dir: true}, nil
}

// vh18File implements the methods the scenario uses; the embedded nil File makes any other call panic
// (the server turns that into an error reply, which the scenario would report).
type vh18File struct {
	File
	w    *vh18World
	conn int
	dir  bool
}

func (f *vh18File) attr() (QID, AttrMask, Attr) {
	mode := FileMode(ModeRegular | 0o644)
	qt := QIDType(TypeRegular)
	if f.dir {
		mode = ModeDirectory | 0o755
		qt = TypeDir
	}
	return QID{Type: qt, Path: uint64(f.conn)}, AttrMask{Mode: true}, Attr{Mode: mode}
}

func (f *vh18File) GetAttr(req AttrMask) (QID, AttrMask, Attr, error) {
	q, m, a := f.attr()
	return q, m, a, nil
}

func (f *vh18File) WalkGetAttr(names []string) ([]QID, File, AttrMask, Attr, error) {
	f.w.add(vh18Call{conn: f.conn, op: "walk", names: append([]string(nil), names...)})
	nf := &vh18File{w: f.w, conn: f.conn, dir: true}
	if len(names) == 1 && names[0] == "f" {
		nf.dir = false
	}
	q, m, a := nf.attr()
	if len(names) == 0 {
		return nil, nf, m, a, nil
	}
	return []QID{q}, nf, m, a, nil
}

func (f *vh18File) Walk(names []string) ([]QID, File, error) {
	q, nf, _, _, err := f.WalkGetAttr(names)
	return q, nf, err
}

func (f *vh18File) Open(mode OpenFlags) (QID, uint32, error) {
	q, _, _ := f.attr()
	return q, 0, nil
}

func (f *vh18File) Close() error { return nil }

func (f *vh18File) Renamed(newDir File, newName string) {}

// ReadAt: the offset encodes how many bytes to produce and with which pattern.
// Bit 62 of the offset makes it a lazy backend: it reports n bytes but writes only the first half,
// relying on the buffer being zero (a hole in a sparse file); what it means is its bytes followed by zeros.
func (f *vh18File) ReadAt(p []byte, offset int64) (int, error) {
	dirty := 0
	for _, c := range p[:cap(p)] {
		if c != 0 {
			dirty++
		}
	}
	n := int(uint64(offset) >> 16 & 0xffffff)
	if n > len(p) {
		n = len(p)
	}
	lazy := uint64(offset)>>62&1 == 1
	w := n
	if lazy {
		w = n / 2
	}
	copy(p, vh01Pattern(w, byte(offset), byte(offset>>8)|1))
	meant := append(append([]byte(nil), p[:w]...), make([]byte, n-w)...)
	f.w.add(vh18Call{conn: f.conn, op: "read", data: meant, off: uint64(offset), count: uint32(len(p)), dirty: dirty, lazy: lazy})
	if uint64(offset)>>61&1 == 1 && f.w.entered != nil {
		f.w.entered <- uint64(offset)
		<-f.w.gate
	}
	if n < len(p) {
		return n, io.EOF
	}
	return n, nil
}

func (f *vh18File) WriteAt(p []byte, offset int64) (int, error) {
	f.w.add(vh18Call{conn: f.conn, op: "write", data: append([]byte(nil), p...), off: uint64(offset)})
	return len(p), nil
}

// Readdir: the offset encodes how many entries and how long their names are; all of them fit count.
func (f *vh18File) Readdir(offset uint64, count uint32) (Dirents, error) {
	n := int(offset >> 8 & 0xff)
	nl := int(offset & 0xff)
	var ents Dirents
	size := 0
	for i := 0; i < n; i++ {
		name := string(vh01Pattern(1+(nl+i)%40, byte('a'+i%26), 0))
		if size+24+len(name) > int(count) {
			break
		}
		size += 24 + len(name)
		ents = append(ents, Dirent{QID: QID{Type: TypeRegular, Version: uint32(i), Path: offset + uint64(i)}, Offset: uint64(i + 1), Type: TypeRegular, Name: name})
	}
	f.w.add(vh18Call{conn: f.conn, op: "readdir", off: offset, count: count, ents: append(Dirents(nil), ents...)})
	return ents, nil
}

// ---- raw peer ----------------------------------------------------------------

type vh18Peer struct {
	c    net.Conn
	id   int
	tag  uint16
	fidN uint64
}

func (p *vh18Peer) send(m message) uint16 {
	p.tag++
	if err := send(ulog.Null, p.c, tag(p.tag), m); err != nil {
		panic(err)
	}
	return p.tag
}

// reply reads one reply with the real recv through the real registry (R objects are recycled too).
func (p *vh18Peer) reply() (uint16, message) {
	p.c.SetReadDeadline(time.Now().Add(20 * time.Second))
	tg, m, err := recv(ulog.Null, p.c, maximumLength, msgDotLRegistry.get)
	if err != nil {
		panic(fmt.Sprintf("peer %d: recv: %v", p.id, err))
	}
	return uint16(tg), m
}

func (p *vh18Peer) call(m message) message {
	t := p.send(m)
	rt, r := p.reply()
	if rt != t {
		panic(fmt.Sprintf("peer %d: tag %d answered as %d", p.id, t, rt))
	}
	return r
}

func vh18Strs(ss []string) interface{} {
	l := vh01List{L: [][]interface{}{}}
	for _, s := range ss {
		l.L = append(l.L, []interface{}{[]interface{}{"n", vh01Hex{hex.EncodeToString([]byte(s))}}})
	}
	return l
}

func vh18Ents(es []Dirent) interface{} {
	l := vh01List{L: [][]interface{}{}}
	for _, e := range es {
		row := []interface{}{}
		vh01Dump(reflect.ValueOf(e), "", &row)
		l.L = append(l.L, row)
	}
	return l
}

func vh18Srv(o *vhOut, op string, conn int, sent, seen []interface{}) {
	o.Emit(map[string]interface{}{"k": "srv", "op": op, "conn": conn, "sent": sent, "seen": seen})
}

type vh18Op struct {
	kind string
	n    int // names / bytes / entries
	l    int // name length / pattern
}

func TestVerifC18(t *testing.T) {
	o := vhOpen(t)
	defer o.Close()
	r := vhRand()
	thorough := vhThorough()
	types, _ := vh01Types()
	o.Emit(map[string]interface{}{"k": "registry", "schema": func() map[string]interface{} {
		sc := map[string]interface{}{}
		for _, t := range types {
			l := []interface{}{}
			vh01Schema(reflect.TypeOf(msgDotLRegistry.factories[t].create()).Elem(), "", &l)
			sc[fmt.Sprint(int(t))] = l
		}
		return sc
	}()})

	// (a) long -> short -> empty -> random ... through the registry cache
	rounds := 1
	if thorough {
		rounds = 6
	}
	for _, ty := range types {
		var last message
		mk := func(g *vh01Gen) []byte {
			m := msgDotLRegistry.factories[ty].create()
			g.fill(reflect.ValueOf(m).Elem())
			return vh18Frame(m, tag(r.Intn(65536)))
		}
		for round := 0; round < rounds; round++ {
			vh18Reuse(o, ty, mk(&vh01Gen{r: r, profile: "longlist", listLen: 16}), &last, "long-list")
			vh18Reuse(o, ty, mk(&vh01Gen{r: r, profile: "max"}), &last, "one")
			vh18Reuse(o, ty, mk(&vh01Gen{r: r, profile: "zero"}), &last, "empty")
			vh18Reuse(o, ty, mk(&vh01Gen{r: r, profile: "longstr", strLen: 300}), &last, "long-string")
			vh18Reuse(o, ty, mk(&vh01Gen{r: r, profile: "random"}), &last, "random")
			vh18Reuse(o, ty, mk(&vh01Gen{r: r, profile: "bigpay", payLen: 5000}), &last, "big-payload")
			vh18Reuse(o, ty, mk(&vh01Gen{r: r, profile: "bigpay", payLen: 5000}), &last, "same-size-payload")
			vh18Reuse(o, ty, mk(&vh01Gen{r: r, profile: "bigpay", payLen: 3}), &last, "small-payload")
			vh18Reuse(o, ty, mk(&vh01Gen{r: r, profile: "zero"}), &last, "empty")
			vh18Reuse(o, ty, mk(&vh01Gen{r: r, profile: "random"}), &last, "random")
		}
	}

	// (a') dirty pooled buffers: a frame cut mid-body (the peer closes) received after an earlier
	// complete message of the same size, twice with different earlier messages.  Whatever recv
	// makes of the cut frame must not depend on the earlier message.
	fresh := func(_ tag, t msgType) (message, error) {
		if msgDotLRegistry.factories[t].create == nil {
			return nil, &ErrInvalidMsgType{t}
		}
		return msgDotLRegistry.factories[t].create(), nil
	}
	for _, ty := range types {
		for rep := 0; rep < rounds; rep++ {
			m := msgDotLRegistry.factories[ty].create()
			g := &vh01Gen{r: r, profile: []string{"max", "random", "longlist"}[rep%3], listLen: 5}
			g.fill(reflect.ValueOf(m).Elem())
			base := vh18Frame(m, tag(r.Intn(65536)))
			body := len(base) - 7
			if body < 2 {
				continue
			}
			other := append([]byte(nil), base...)
			for i := 7; i < len(other); i++ {
				other[i] = 0
			}
			cuts := []int{1, body - 1}
			if thorough {
				cuts = []int{1, body / 2, body - 1}
			}
			for _, k := range cuts {
				if k < 1 || k >= body {
					continue
				}
				cut := base[:7+k]
				recv(ulog.Null, bytes.NewReader(base), maximumLength, fresh) // leaves base's bytes in the pooled buffer
				tg, m1, err := recv(ulog.Null, bytes.NewReader(cut), maximumLength, fresh)
				ra := vh01Result(tg, m1, err)
				recv(ulog.Null, bytes.NewReader(other), maximumLength, fresh)
				tg, m2, err := recv(ulog.Null, bytes.NewReader(cut), maximumLength, fresh)
				rb := vh01Result(tg, m2, err)
				o.Emit(map[string]interface{}{"k": "cut", "typ": uint8(ty), "msize": maximumLength, "at": k, "wire": hex.EncodeToString(cut), "a": ra, "b": rb})
			}
		}
	}

	// (a2) poisoned pool: the decode buffer recv gets from dataPool is pre-filled with a marker; complete
	// frames and frames whose body is shorter than their type needs (size field consistent) are received
	// twice, after two different markers.  The outcome must not depend on the marker.
	poison := func(marker byte) {
		pb := bytes.Repeat([]byte{marker}, 8192)
		dataPool.Put(&pb)
	}
	for _, ty := range types {
		for rep := 0; rep < rounds; rep++ {
			m := msgDotLRegistry.factories[ty].create()
			g := &vh01Gen{r: r, profile: []string{"max", "random", "longlist"}[rep%3], listLen: 3}
			g.fill(reflect.ValueOf(m).Elem())
			base := vh18Frame(m, tag(r.Intn(65536)))
			body := len(base) - 7
			ks := []int{body, 1, body / 2, body - 1}
			if thorough {
				ks = []int{body, 0, 1, body / 2, body - 1, body - 4}
			}
			for _, k := range ks {
				if k < 0 || k > body || (k == body && rep > 0) {
					continue
				}
				x := append([]byte(nil), base[:7+k]...)
				binary.LittleEndian.PutUint32(x, uint32(len(x)))
				poison(0xa5)
				tg, m1, err := recv(ulog.Null, bytes.NewReader(x), maximumLength, fresh)
				ra := vh01Result(tg, m1, err)
				poison(0x5a)
				tg, m2, err := recv(ulog.Null, bytes.NewReader(x), maximumLength, fresh)
				rb := vh01Result(tg, m2, err)
				o.Emit(map[string]interface{}{"k": "cut", "what": "poison", "typ": uint8(ty), "msize": maximumLength, "at": k, "wire": hex.EncodeToString(x), "a": ra, "b": rb})
			}
		}
	}

	// (a3) list decoders and a count the body does not back: how many elements were appended to the
	// (rejected) object.  The frame is a real one with [present] elements whose count field is raised to n.
	for _, ty := range types {
		m0 := msgDotLRegistry.factories[ty].create()
		var list reflect.Value
		rv := reflect.ValueOf(m0).Elem()
		for i := 0; i < rv.NumField(); i++ {
			if f := rv.Field(i); f.Kind() == reflect.Slice && f.Type().Elem().Kind() != reflect.Uint8 && rv.Type().Field(i).Name != "Entries" {
				list = f
			}
		}
		if !list.IsValid() {
			continue
		}
		countOff := len(vh18Frame(m0, 1)) - 2 // the list is the last field: its count[2] ends the empty message
		for _, present := range []int{0, 1, 2} {
			for _, n := range []int{present + 1, 1000, 65535} {
				m := msgDotLRegistry.factories[ty].create()
				g := &vh01Gen{r: r, profile: "longlist", listLen: present}
				g.fill(reflect.ValueOf(m).Elem())
				x := vh18Frame(m, 5)
				binary.LittleEndian.PutUint16(x[countOff:], uint16(n))
				obj := msgDotLRegistry.factories[ty].create()
				tg, mm, err := recv(ulog.Null, bytes.NewReader(x), maximumLength, func(tag, msgType) (message, error) { return obj, nil })
				res := vh01Result(tg, mm, err)
				ov := reflect.ValueOf(obj).Elem()
				appended := 0
				for i := 0; i < ov.NumField(); i++ {
					if f := ov.Field(i); f.Kind() == reflect.Slice && f.Type().Elem().Kind() != reflect.Uint8 {
						appended = f.Len()
					}
				}
				o.Emit(map[string]interface{}{"k": "over", "typ": uint8(ty), "n": n, "present": present, "appended": appended, "res": res["r"], "wire": hex.EncodeToString(x)})
			}
		}
	}

	// (b) two connections to one server
	w := &vh18World{}
	srv := NewServer(&vh18Attacher{w: w})
	var peers []*vh18Peer
	for i := 0; i < 2; i++ {
		a, b := net.Pipe()
		go srv.Handle(b, b)
		p := &vh18Peer{c: a, id: i + 1, fidN: 10}
		peers = append(peers, p)
		if rv, ok := p.call(&tversion{MSize: 1 << 20, Version: "9P2000.L"}).(*rversion); !ok || rv.MSize == 0 {
			t.Fatalf("version: %v", rv)
		}
		if _, ok := p.call(&tattach{fid: 0, Auth: tauth{Authenticationfid: noFID}}).(*rattach); !ok {
			t.Fatal("attach failed")
		}
		w.take(i+1, "walk")
		// fid 1: the root opened as directory; fid 2: file "f" opened read-write
		if _, ok := p.call(&twalk{fid: 0, newFID: 1}).(*rwalk); !ok {
			t.Fatal("clone failed")
		}
		if _, ok := p.call(&tlopen{fid: 1, Flags: ReadOnly}).(*rlopen); !ok {
			t.Fatal("open dir failed")
		}
		if _, ok := p.call(&twalk{fid: 0, newFID: 2, Names: []string{"f"}}).(*rwalk); !ok {
			t.Fatal("walk f failed")
		}
		if _, ok := p.call(&tlopen{fid: 2, Flags: ReadWrite}).(*rlopen); !ok {
			t.Fatal("open f failed")
		}
		w.take(i+1, "walk")
	}
	big := 20000
	if thorough {
		big = 66000
	}
	ops := []vh18Op{
		{"walk", 12, 30}, {"walk", 1, 1}, {"walk", 0, 0}, {"walk", 5, 200}, {"walk", 2, 3},
		{"write", big, 1}, {"write", 5, 2}, {"write", 0, 0}, {"write", big + 4000, 3}, {"write", big, 4}, {"write", 1, 5},
		{"read", big - 1000, 7}, {"read-lazy", 600, 9}, {"read", 3, 9}, {"read", 0, 0}, {"read", big - 1000, 11}, {"read-lazy", 5000, 3}, {"read", 100, 13},
		{"readdir", 40, 9}, {"readdir", 2, 1}, {"readdir", 0, 0}, {"readdir", 200, 30}, {"readdir", 1, 39},
		{"readdir-exact", 1, 4}, {"readdir-exact", 3, 0}, {"readdir-exact", 17, 11},
		{"walkgetattr", 10, 17}, {"walkgetattr", 1, 2}, {"walkgetattr", 0, 0},
	}
	nsteps := 60
	if thorough {
		nsteps = 600
	}
	type pending struct {
		op   vh18Op
		tag  uint16
		sent []interface{}
		rsz  uint32
	}
	issue := func(p *vh18Peer, op vh18Op) pending {
		switch op.kind {
		case "walk", "walkgetattr":
			names := make([]string, op.n)
			for i := range names {
				names[i] = string(vh01Pattern(1+(op.l+i*7)%250, byte('A'+(i+p.id)%50), 0))
			}
			p.fidN++
			var m message = &twalk{fid: 0, newFID: fid(p.fidN), Names: names}
			if op.kind == "walkgetattr" {
				m = &twalkgetattr{fid: 0, newFID: fid(p.fidN), Names: names}
			}
			return pending{op: op, tag: p.send(m), sent: []interface{}{[]interface{}{"names", vh18Strs(names)}}}
		case "write":
			data := vh01Pattern(op.n, byte(op.l*16+p.id), byte(op.l)|1)
			off := uint64(r.Int63())
			return pending{op: op, tag: p.send(&twrite{fid: 2, Offset: off, Data: data}),
				sent: []interface{}{[]interface{}{"off", off}, []interface{}{"data", vh01Bytes{hex.EncodeToString(data)}}}}
		case "read", "read-lazy":
			off := uint64(op.n)<<16 | uint64(op.l)<<8 | uint64(p.id*37+op.l)
			if op.kind == "read-lazy" {
				off |= 1 << 62
			}
			return pending{op: op, tag: p.send(&tread{fid: 2, Offset: off, Count: uint32(op.n + 10)})}
		default: // readdir; -exact: Count is exactly the size of the n entries the backend has
			off := uint64(op.n)<<8 | uint64(op.l)
			count := uint32(4096)
			if op.kind == "readdir-exact" {
				count = 0
				for i := 0; i < op.n; i++ {
					count += uint32(24 + 1 + (op.l+i)%40)
				}
			}
			return pending{op: op, tag: p.send(&treaddir{Directory: 1, Offset: off, Count: count})}
		}
	}
	finish := func(p *vh18Peer, q pending) {
		tg, m := p.reply()
		if tg != q.tag {
			panic(fmt.Sprintf("peer %d: reply for tag %d while waiting for %d", p.id, tg, q.tag))
		}
		if e, ok := m.(*rlerror); ok {
			panic(fmt.Sprintf("peer %d: %s failed: %v", p.id, q.op.kind, linux.Errno(e.Error)))
		}
		switch q.op.kind {
		case "walk", "walkgetattr":
			var seen []string
			for _, c := range w.take(p.id, "walk") {
				seen = append(seen, c.names...)
			}
			nq := 0
			if rw, ok := m.(*rwalk); ok {
				nq = len(rw.QIDs)
			} else if rw, ok := m.(*rwalkgetattr); ok {
				nq = len(rw.QIDs)
			}
			vh18Srv(o, q.op.kind, p.id, append(q.sent, []interface{}{"nqid", uint64(q.op.n)}),
				[]interface{}{[]interface{}{"names", vh18Strs(seen)}, []interface{}{"nqid", uint64(nq)}})
		case "write":
			cs := w.take(p.id, "write")
			if len(cs) != 1 {
				panic("write: backend calls != 1")
			}
			vh18Srv(o, "write", p.id, append(q.sent, []interface{}{"count", uint64(q.op.n)}),
				[]interface{}{[]interface{}{"off", cs[0].off}, []interface{}{"data", vh01Bytes{hex.EncodeToString(cs[0].data)}},
					[]interface{}{"count", uint64(m.(*rwrite).Count)}})
		case "read", "read-lazy":
			cs := w.take(p.id, "read")
			if len(cs) != 1 {
				panic("read: backend calls != 1")
			}
			// the buffer handed to the backend must hold nothing of an earlier reply
			vh18Srv(o, "read-handover", p.id, []interface{}{[]interface{}{"nonzero", uint64(0)}}, []interface{}{[]interface{}{"nonzero", uint64(cs[0].dirty)}})
			vh18Srv(o, q.op.kind, p.id, []interface{}{[]interface{}{"data", vh01Bytes{hex.EncodeToString(cs[0].data)}}},
				[]interface{}{[]interface{}{"data", vh01Bytes{hex.EncodeToString(m.(*rread).Data)}}})
		default:
			cs := w.take(p.id, "readdir")
			if len(cs) != 1 {
				panic("readdir: backend calls != 1")
			}
			if q.op.kind == "readdir-exact" && len(cs[0].ents) != q.op.n {
				panic("readdir-exact: backend did not fit its entries")
			}
			vh18Srv(o, q.op.kind, p.id, []interface{}{[]interface{}{"ents", vh18Ents(cs[0].ents)}},
				[]interface{}{[]interface{}{"ents", vh18Ents(m.(*rreaddir).Entries)}})
		}
		msgDotLRegistry.put(m) // as Client.sendRecv's callers do with responses
	}
	for step := 0; step < nsteps; step++ {
		a, b := peers[0], peers[1]
		opa, opb := ops[r.Intn(len(ops))], ops[r.Intn(len(ops))]
		if step < len(ops) {
			opa, opb = ops[step], ops[(step+1)%len(ops)]
		}
		switch step % 3 {
		case 0: // lock step, alternating
			finish(a, issue(a, opa))
			finish(b, issue(b, opb))
		case 1: // both in flight
			qa, qb := issue(a, opa), issue(b, opb)
			finish(b, qb)
			finish(a, qa)
		default: // same op kind on both, in flight together
			qa, qb := issue(a, opa), issue(b, opa)
			finish(a, qa)
			finish(b, qb)
		}
	}
	for _, p := range peers {
		p.c.Close()
	}

	// (c) pipelined Treads on ONE connection sharing its readBufPool: a read that is still inside its backend
	// call (gated backend) or still being written to a peer that does not read yet (slow peer) while another
	// read is received, served and answered.  Each reply must carry the bytes the backend produced for THAT
	// request, and the buffer handed to the backend must be clean.  One P, so that sync.Pool hands a buffer
	// that was just put back to the next Get (with several Ps the per-P caches hide a shared buffer by chance).
	prevProcs := runtime.GOMAXPROCS(1)
	defer runtime.GOMAXPROCS(prevProcs)
	w3 := &vh18World{entered: make(chan uint64, 4), gate: make(chan struct{})}
	srv3 := NewServer(&vh18Attacher{w: w3})
	ca, cb := net.Pipe()
	go srv3.Handle(cb, cb)
	pp := &vh18Peer{c: ca, id: 1, fidN: 10}
	if rv, ok := pp.call(&tversion{MSize: 1 << 16, Version: "9P2000.L"}).(*rversion); !ok || rv.MSize == 0 {
		t.Fatalf("version: %v", rv)
	}
	if _, ok := pp.call(&tattach{fid: 0, Auth: tauth{Authenticationfid: noFID}}).(*rattach); !ok {
		t.Fatal("attach failed")
	}
	if _, ok := pp.call(&twalk{fid: 0, newFID: 2, Names: []string{"f"}}).(*rwalk); !ok {
		t.Fatal("walk f failed")
	}
	if _, ok := pp.call(&tlopen{fid: 2, Flags: ReadWrite}).(*rlopen); !ok {
		t.Fatal("open f failed")
	}
	w3.take(1, "walk")
	type pread struct {
		off uint64
		tag uint16
	}
	seq := uint64(0)
	mkoff := func(n int, lazy, gated bool) uint64 {
		seq++
		off := uint64(n)<<16 | (seq&0xff)<<8 | (seq*37+11)&0xff
		if lazy {
			off |= 1 << 62
		}
		if gated {
			off |= 1 << 61
		}
		return off
	}
	sendRead := func(n int, lazy, gated bool) pread {
		off := mkoff(n, lazy, gated)
		return pread{off: off, tag: pp.send(&tread{fid: 2, Offset: off, Count: uint32(n + 10)})}
	}
	judge := func(what string, q pread, m message) {
		c, ok := w3.takeRead(1, q.off)
		if !ok {
			panic("pipelined read: backend call not recorded")
		}
		rr, ok := m.(*rread)
		if !ok {
			panic(fmt.Sprintf("pipelined read answered with %T", m))
		}
		vh18Srv(o, "read-handover", 1, []interface{}{[]interface{}{"nonzero", uint64(0)}}, []interface{}{[]interface{}{"nonzero", uint64(c.dirty)}})
		vh18Srv(o, what, 1, []interface{}{[]interface{}{"data", vh01Bytes{hex.EncodeToString(c.data)}}},
			[]interface{}{[]interface{}{"data", vh01Bytes{hex.EncodeToString(rr.Data)}}})
		msgDotLRegistry.put(m)
	}
	collect := func(what string, qs ...pread) {
		for range qs {
			tg, m := pp.reply()
			found := false
			for _, q := range qs {
				if q.tag == tg {
					judge(what, q, m)
					found = true
				}
			}
			if !found {
				panic(fmt.Sprintf("pipelined read: unexpected tag %d", tg))
			}
		}
	}
	waitEntered := func() {
		select {
		case <-w3.entered:
		case <-time.After(30 * time.Second):
			panic("pipelined read: gated ReadAt was not reached")
		}
	}
	prounds := 6
	if thorough {
		prounds = 60
	}
	sizes := []int{4000, 700, 9000, 33, 20000, 1200}
	for round := 0; round < prounds; round++ {
		nx, ny := sizes[round%len(sizes)], sizes[(round+1)%len(sizes)]
		lazyX, lazyY := round%3 == 1, round%3 == 2
		// a completed read first: whatever it leaves in the pool is what the next ones get
		collect("read-warm", sendRead(sizes[(round+2)%len(sizes)], false, false))
		// ... and one that ends with ZERO bytes at end of file (the last read of every read-until-EOF loop)
		collect("read-warm-eof", sendRead(0, false, false))
		// gated backend: X is inside ReadAt (buffer filled) while Y is received, served and answered
		x := sendRead(nx, lazyX, true)
		waitEntered()
		y := sendRead(ny, lazyY, false)
		collect("read-pipelined-inner", y)
		w3.gate <- struct{}{}
		collect("read-pipelined-outer", x)
		// slow peer: both requests are sent and both backend calls have returned before the peer reads a reply
		x2 := sendRead(nx, lazyY, false)
		y2 := sendRead(ny, lazyX, false)
		for dl := time.Now().Add(30 * time.Second); w3.countReads(1) < 2; {
			if time.Now().After(dl) {
				panic("pipelined read: second request was not served while the first reply was pending")
			}
			time.Sleep(200 * time.Microsecond)
		}
		collect("read-pipelined-slowpeer", x2, y2)
		// three in flight, the gated one in the middle
		a := sendRead(ny, false, false)
		g := sendRead(nx, lazyX, true)
		waitEntered()
		b := sendRead(ny/2+1, lazyY, false)
		collect("read-pipelined-three", a, b)
		w3.gate <- struct{}{}
		collect("read-pipelined-three", g)
	}
	ca.Close()
}
