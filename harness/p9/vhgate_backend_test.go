package p9

// Gated, monitoring in-memory backend for C07/C16: every File method records enter/exit
// events (method, node = path#inode, entry, handle) and can be held at a gate.

import (
	"io"
	"net"
	"reflect"
	"runtime"
	"sort"
	"strings"
	"sync"
	"sync/atomic"
	"time"

	"github.com/hugelgupf/p9/linux"
)

type vhgInode struct {
	id     uint64
	mode   FileMode
	data   []byte
	target string
}

type vhgEvent struct {
	Seq    int    `json:"seq"`
	Enter  bool   `json:"enter"`
	ID     int    `json:"id"` // call id: pairs enter with exit
	Method string `json:"m"`
	Node   string `json:"node"`
	Entry  string `json:"entry,omitempty"` // UnlinkAt: node of the entry
	Handle int    `json:"h"`
}

// vhgProbe: state of the server's locks seen from inside the gated backend call, by TryLock/TryRLock:
// 0 free, 1 held for reading only, 2 held for writing, 3 not determined.
type vhgProbe struct {
	Rename int `json:"rename"`
	Node   int `json:"node"`
	Entry  int `json:"entry"`
}

func vhgProbeRW(mu *sync.RWMutex) int {
	if mu.TryLock() {
		mu.Unlock()
		return 0
	}
	if mu.TryRLock() {
		mu.RUnlock()
		return 1
	}
	return 2
}

// vhgTreeRoot finds the root of the server's path tree by TYPE (the field of Server that is a *pathNode),
// not by name: renaming the field is harmless, and a server without such a field (tree kept elsewhere)
// only makes the white-box probes inconclusive instead of breaking the build.
func vhgTreeRoot(srv *Server) *pathNode {
	v := reflect.ValueOf(srv).Elem()
	want := reflect.TypeOf((*pathNode)(nil))
	for i := 0; i < v.NumField(); i++ {
		if f := v.Field(i); f.Type() == want {
			return (*pathNode)(f.UnsafePointer())
		}
	}
	return nil
}

// vhgFindNode walks the server's path tree without ever blocking.
func vhgFindNode(srv *Server, path string) *pathNode {
	pn := vhgTreeRoot(srv)
	if pn == nil {
		return nil // no server-wide tree root found: the probes stay "not determined"
	}
	for _, name := range strings.Split(path, "/") {
		if name == "" {
			continue
		}
		if !pn.childMu.TryRLock() {
			return nil
		}
		next := pn.childNodes[name]
		pn.childMu.RUnlock()
		if next == nil {
			return nil
		}
		pn = next
	}
	return pn
}

func (fs *vhgFS) probe(path, entry string) vhgProbe {
	p := vhgProbe{Rename: 3, Node: 3, Entry: 3}
	if fs.srv == nil {
		return p
	}
	p.Rename = vhgProbeRW(&fs.srv.renameMu)
	if pn := vhgFindNode(fs.srv, path); pn != nil {
		p.Node = vhgProbeRW(&pn.opMu)
	}
	if entry != "" {
		if pn := vhgFindNode(fs.srv, path+"/"+entry); pn != nil {
			p.Entry = vhgProbeRW(&pn.opMu)
		}
	}
	return p
}

type vhgGate struct {
	probe        vhgProbe
	method, path string
	handle       int // 0: any
	taken        bool
	reached      chan struct{}
	release      chan struct{}
}

type vhgFS struct {
	mu      sync.Mutex
	cond    *sync.Cond
	tree    map[string]*vhgInode // by absolute path, "" is the root
	nextIno uint64
	nextH   int
	nextID  int
	log     []vhgEvent
	keepLog bool
	gate    *vhgGate
	yield   uint32 // != 0: inject scheduling perturbation in every call
	srv     *Server
	panicOn *vhgGate // a call matching (method, path) panics, once
	dirMove bool     // RenameAt may move directories (with everything below)
	opens   map[int]int
}

func vhgNewFS() *vhgFS {
	fs := &vhgFS{tree: map[string]*vhgInode{}, keepLog: true, opens: map[int]int{}}
	fs.cond = sync.NewCond(&fs.mu)
	fs.nextIno = 1
	fs.tree[""] = &vhgInode{id: 1, mode: ModeDirectory | 0o755}
	return fs
}

func (fs *vhgFS) add(path string, mode FileMode, data string) {
	fs.mu.Lock()
	fs.nextIno++
	fs.tree[path] = &vhgInode{id: fs.nextIno, mode: mode, data: []byte(data), target: data}
	fs.mu.Unlock()
}

type vhgFile struct {
	DefaultWalkGetAttr
	fs     *vhgFS
	path   string
	ino    *vhgInode
	handle int
}

func (fs *vhgFS) newFile(path string, ino *vhgInode) *vhgFile {
	fs.nextH++
	return &vhgFile{fs: fs, path: path, ino: ino, handle: fs.nextH}
}

// Attach implements Attacher.
func (fs *vhgFS) Attach() (File, error) {
	fs.mu.Lock()
	defer fs.mu.Unlock()
	return fs.newFile("", fs.tree[""]), nil
}

func vhgNode(path string, ino *vhgInode) string {
	return path + "#" + itoa(ino.id)
}

func itoa(v uint64) string {
	if v == 0 {
		return "0"
	}
	var b [20]byte
	i := len(b)
	for v > 0 {
		i--
		b[i] = byte('0' + v%10)
		v /= 10
	}
	return string(b[i:])
}

// enter records the start of a backend call and waits at the gate if it is armed for it.
func (f *vhgFile) enter(method, entry string) int {
	fs := f.fs
	fs.mu.Lock()
	fs.nextID++
	id := fs.nextID
	en := ""
	if entry != "" {
		if ino := fs.tree[f.path+"/"+entry]; ino != nil {
			en = vhgNode(f.path+"/"+entry, ino)
		} else {
			en = f.path + "/" + entry + "#0"
		}
	}
	if fs.keepLog {
		fs.log = append(fs.log, vhgEvent{Seq: len(fs.log), Enter: true, ID: id, Method: method, Node: vhgNode(f.path, f.ino), Entry: en, Handle: f.handle})
	}
	if method == "Open" {
		fs.opens[f.handle]++
	}
	if pg := fs.panicOn; pg != nil && !pg.taken && pg.method == method && pg.path == f.path {
		pg.taken = true
		if fs.keepLog {
			fs.log = append(fs.log, vhgEvent{Seq: len(fs.log), Enter: false, ID: id, Method: method, Node: vhgNode(f.path, f.ino), Handle: f.handle})
		}
		fs.mu.Unlock()
		panic("vhg: injected backend panic in " + method)
	}
	fs.cond.Broadcast()
	g := fs.gate
	wait := g != nil && !g.taken && g.method == method && g.path == f.path && (g.handle == 0 || g.handle == f.handle)
	if wait {
		g.taken = true
	}
	fs.mu.Unlock()
	if wait {
		g.probe = fs.probe(f.path, entry)
		close(g.reached)
		<-g.release
	}
	if atomic.LoadUint32(&fs.yield) != 0 {
		for i := 0; i < int(id%4); i++ {
			runtime.Gosched()
		}
		if id%7 == 0 {
			time.Sleep(time.Duration(id%5) * 50 * time.Microsecond)
		}
	}
	return id
}

func (f *vhgFile) exit(id int, method string) {
	fs := f.fs
	fs.mu.Lock()
	if fs.keepLog {
		fs.log = append(fs.log, vhgEvent{Seq: len(fs.log), Enter: false, ID: id, Method: method, Node: vhgNode(f.path, f.ino), Handle: f.handle})
	}
	fs.cond.Broadcast()
	fs.mu.Unlock()
}

// arm installs a gate; the returned gate's reached channel is closed when a call waits at it.
func (fs *vhgFS) arm(method, path string, handle int) *vhgGate {
	g := &vhgGate{method: method, path: path, handle: handle, reached: make(chan struct{}), release: make(chan struct{})}
	fs.mu.Lock()
	fs.gate = g
	fs.mu.Unlock()
	return g
}

// waitEnter waits until an enter event of method on path (not call id `not`) appears after log position from.
func (fs *vhgFS) waitEnter(method, path string, from int, d time.Duration, done <-chan struct{}) bool {
	deadline := time.Now().Add(d)
	stop := make(chan struct{})
	defer close(stop)
	go func() {
		t := time.NewTicker(5 * time.Millisecond)
		defer t.Stop()
		for {
			select {
			case <-stop:
				return
			case <-t.C:
				fs.mu.Lock()
				fs.cond.Broadcast()
				fs.mu.Unlock()
			}
		}
	}()
	fs.mu.Lock()
	defer fs.mu.Unlock()
	for {
		for _, e := range fs.log[from:] {
			if e.Enter && e.Method == method && strings.HasPrefix(e.Node, path+"#") {
				return true
			}
		}
		select {
		case <-done:
			// the request finished: look once more, then give up
			for _, e := range fs.log[from:] {
				if e.Enter && e.Method == method && strings.HasPrefix(e.Node, path+"#") {
					return true
				}
			}
			return false
		default:
		}
		if time.Now().After(deadline) {
			return false
		}
		fs.cond.Wait()
	}
}

func (fs *vhgFS) logLen() int {
	fs.mu.Lock()
	defer fs.mu.Unlock()
	return len(fs.log)
}

func (fs *vhgFS) snapshot() []vhgEvent {
	fs.mu.Lock()
	defer fs.mu.Unlock()
	return append([]vhgEvent(nil), fs.log...)
}

func (f *vhgFile) qid() QID { return QID{Type: f.ino.mode.QIDType(), Path: f.ino.id} }

func vhgQID(ino *vhgInode) QID { return QID{Type: ino.mode.QIDType(), Path: ino.id} }

// ---- File ----------------------------------------------------------------------------------------

func (f *vhgFile) Walk(names []string) ([]QID, File, error) {
	id := f.enter("Walk", "")
	defer f.exit(id, "Walk")
	fs := f.fs
	fs.mu.Lock()
	defer fs.mu.Unlock()
	if len(names) == 0 {
		return nil, fs.newFile(f.path, f.ino), nil
	}
	var qids []QID
	p := f.path
	var ino *vhgInode
	for _, n := range names {
		p = p + "/" + n
		ino = fs.tree[p]
		if ino == nil {
			return nil, nil, linux.ENOENT
		}
		qids = append(qids, vhgQID(ino))
	}
	return qids, fs.newFile(p, ino), nil
}

func (f *vhgFile) StatFS() (FSStat, error) {
	id := f.enter("StatFS", "")
	defer f.exit(id, "StatFS")
	return FSStat{Type: 0x01021997, BlockSize: 4096}, nil
}

func (f *vhgFile) GetAttr(req AttrMask) (QID, AttrMask, Attr, error) {
	id := f.enter("GetAttr", "")
	defer f.exit(id, "GetAttr")
	f.fs.mu.Lock()
	defer f.fs.mu.Unlock()
	return f.qid(), AttrMask{Mode: true, Size: true}, Attr{Mode: f.ino.mode, Size: uint64(len(f.ino.data))}, nil
}

func (f *vhgFile) SetAttr(valid SetAttrMask, attr SetAttr) error {
	id := f.enter("SetAttr", "")
	defer f.exit(id, "SetAttr")
	f.fs.mu.Lock()
	defer f.fs.mu.Unlock()
	if valid.Size && int(attr.Size) <= len(f.ino.data) {
		f.ino.data = f.ino.data[:attr.Size]
	}
	return nil
}

func (f *vhgFile) Close() error {
	id := f.enter("Close", "")
	defer f.exit(id, "Close")
	return nil
}

func (f *vhgFile) Open(mode OpenFlags) (QID, uint32, error) {
	id := f.enter("Open", "")
	defer f.exit(id, "Open")
	return f.qid(), 0, nil
}

func (f *vhgFile) ReadAt(p []byte, offset int64) (int, error) {
	id := f.enter("ReadAt", "")
	defer f.exit(id, "ReadAt")
	f.fs.mu.Lock()
	defer f.fs.mu.Unlock()
	if offset >= int64(len(f.ino.data)) {
		return 0, io.EOF
	}
	return copy(p, f.ino.data[offset:]), nil
}

func (f *vhgFile) WriteAt(p []byte, offset int64) (int, error) {
	id := f.enter("WriteAt", "")
	defer f.exit(id, "WriteAt")
	f.fs.mu.Lock()
	defer f.fs.mu.Unlock()
	if need := int(offset) + len(p); need > len(f.ino.data) {
		f.ino.data = append(f.ino.data, make([]byte, need-len(f.ino.data))...)
	}
	copy(f.ino.data[offset:], p)
	return len(p), nil
}

func (f *vhgFile) SetXattr(string, []byte, XattrFlags) error {
	id := f.enter("SetXattr", "")
	defer f.exit(id, "SetXattr")
	return nil
}
func (f *vhgFile) GetXattr(string) ([]byte, error) {
	id := f.enter("GetXattr", "")
	defer f.exit(id, "GetXattr")
	return []byte("v"), nil
}
func (f *vhgFile) ListXattrs() ([]string, error) {
	id := f.enter("ListXattrs", "")
	defer f.exit(id, "ListXattrs")
	return []string{"user.x"}, nil
}
func (f *vhgFile) RemoveXattr(string) error {
	id := f.enter("RemoveXattr", "")
	defer f.exit(id, "RemoveXattr")
	return nil
}

func (f *vhgFile) FSync() error {
	id := f.enter("FSync", "")
	defer f.exit(id, "FSync")
	return nil
}

func (f *vhgFile) Lock(int, LockType, LockFlags, uint64, uint64, string) (LockStatus, error) {
	id := f.enter("Lock", "")
	defer f.exit(id, "Lock")
	return LockStatusOK, nil
}

func (f *vhgFile) mk(method, name string, mode FileMode, data string) (*vhgInode, string, error) {
	fs := f.fs
	fs.mu.Lock()
	defer fs.mu.Unlock()
	p := f.path + "/" + name
	if !f.ino.mode.IsDir() {
		return nil, "", linux.ENOTDIR
	}
	if fs.tree[f.path] != f.ino {
		return nil, "", linux.ENOENT
	}
	if fs.tree[p] != nil {
		return nil, "", linux.EEXIST
	}
	fs.nextIno++
	ino := &vhgInode{id: fs.nextIno, mode: mode, target: data}
	fs.tree[p] = ino
	return ino, p, nil
}

func (f *vhgFile) Create(name string, flags OpenFlags, permissions FileMode, uid UID, gid GID) (File, QID, uint32, error) {
	id := f.enter("Create", name)
	defer f.exit(id, "Create")
	ino, p, err := f.mk("Create", name, ModeRegular|0o644, "")
	if err != nil {
		return nil, QID{}, 0, err
	}
	f.fs.mu.Lock()
	nf := f.fs.newFile(p, ino)
	f.fs.mu.Unlock()
	return nf, vhgQID(ino), 0, nil
}

func (f *vhgFile) Mkdir(name string, permissions FileMode, uid UID, gid GID) (QID, error) {
	id := f.enter("Mkdir", name)
	defer f.exit(id, "Mkdir")
	ino, _, err := f.mk("Mkdir", name, ModeDirectory|0o755, "")
	if err != nil {
		return QID{}, err
	}
	return vhgQID(ino), nil
}

func (f *vhgFile) Symlink(oldName string, newName string, uid UID, gid GID) (QID, error) {
	id := f.enter("Symlink", newName)
	defer f.exit(id, "Symlink")
	ino, _, err := f.mk("Symlink", newName, ModeSymlink|0o777, oldName)
	if err != nil {
		return QID{}, err
	}
	return vhgQID(ino), nil
}

func (f *vhgFile) Link(target File, newName string) error {
	id := f.enter("Link", newName)
	defer f.exit(id, "Link")
	t, ok := target.(*vhgFile)
	if !ok {
		return linux.EINVAL
	}
	fs := f.fs
	fs.mu.Lock()
	defer fs.mu.Unlock()
	p := f.path + "/" + newName
	if fs.tree[p] != nil {
		return linux.EEXIST
	}
	fs.tree[p] = t.ino
	return nil
}

func (f *vhgFile) Mknod(name string, mode FileMode, major uint32, minor uint32, uid UID, gid GID) (QID, error) {
	id := f.enter("Mknod", name)
	defer f.exit(id, "Mknod")
	ino, _, err := f.mk("Mknod", name, ModeNamedPipe|0o644, "")
	if err != nil {
		return QID{}, err
	}
	return vhgQID(ino), nil
}

func (f *vhgFile) Rename(File, string) error { return linux.ENOSYS }

func (f *vhgFile) RenameAt(oldName string, newDir File, newName string) error {
	id := f.enter("RenameAt", oldName)
	defer f.exit(id, "RenameAt")
	nd, ok := newDir.(*vhgFile)
	if !ok {
		return linux.EINVAL
	}
	fs := f.fs
	fs.mu.Lock()
	defer fs.mu.Unlock()
	op, np := f.path+"/"+oldName, nd.path+"/"+newName
	ino := fs.tree[op]
	if ino == nil {
		return linux.ENOENT
	}
	if ino.mode.IsDir() {
		if !fs.dirMove || fs.tree[np] != nil {
			return linux.EPERM // the workloads move files only
		}
		for k, v := range fs.tree {
			if strings.HasPrefix(k, op+"/") {
				delete(fs.tree, k)
				fs.tree[np+k[len(op):]] = v
			}
		}
	}
	if t := fs.tree[np]; t != nil && t.mode.IsDir() {
		return linux.EISDIR
	}
	delete(fs.tree, op)
	fs.tree[np] = ino
	return nil
}

func (f *vhgFile) UnlinkAt(name string, flags uint32) error {
	id := f.enter("UnlinkAt", name)
	defer f.exit(id, "UnlinkAt")
	fs := f.fs
	fs.mu.Lock()
	defer fs.mu.Unlock()
	p := f.path + "/" + name
	ino := fs.tree[p]
	if ino == nil {
		return linux.ENOENT
	}
	if ino.mode.IsDir() {
		for k := range fs.tree {
			if strings.HasPrefix(k, p+"/") {
				return linux.ENOTEMPTY
			}
		}
	}
	delete(fs.tree, p)
	return nil
}

func (f *vhgFile) Readdir(offset uint64, count uint32) (Dirents, error) {
	id := f.enter("Readdir", "")
	defer f.exit(id, "Readdir")
	fs := f.fs
	fs.mu.Lock()
	defer fs.mu.Unlock()
	var names []string
	for k := range fs.tree {
		if strings.HasPrefix(k, f.path+"/") && !strings.Contains(k[len(f.path)+1:], "/") {
			names = append(names, k[len(f.path)+1:])
		}
	}
	sort.Strings(names)
	var out Dirents
	for i, n := range names {
		if uint64(i) < offset {
			continue
		}
		ino := fs.tree[f.path+"/"+n]
		out = append(out, Dirent{QID: vhgQID(ino), Offset: uint64(i + 1), Type: ino.mode.QIDType(), Name: n})
	}
	return out, nil
}

func (f *vhgFile) Readlink() (string, error) {
	id := f.enter("Readlink", "")
	defer f.exit(id, "Readlink")
	return f.ino.target, nil
}

func (f *vhgFile) Renamed(newDir File, newName string) {
	id := f.enter("Renamed", "")
	nd := newDir.(*vhgFile)
	f.fs.mu.Lock()
	f.path = nd.path + "/" + newName
	f.fs.mu.Unlock()
	f.exit(id, "Renamed")
}

// ---- server + clients ----------------------------------------------------------------------------

type vhgEnv struct {
	fs      *vhgFS
	srv     *Server
	panicOn *vhgGate // a call matching (method, path) panics, once
	dirMove bool     // RenameAt may move directories (with everything below)
	clients []*Client
	conns   []net.Conn
	done    []chan struct{}
}

func vhgStart(fs *vhgFS, nconn int) (*vhgEnv, error) {
	e := &vhgEnv{fs: fs, srv: NewServer(fs)}
	fs.srv = e.srv
	for i := 0; i < nconn; i++ {
		a, b := net.Pipe()
		d := make(chan struct{})
		go func() { e.srv.Handle(a, a); close(d) }()
		c, err := NewClient(b)
		if err != nil {
			return nil, err
		}
		e.clients = append(e.clients, c)
		e.conns = append(e.conns, b)
		e.done = append(e.done, d)
	}
	return e, nil
}

// stop closes the connections and reports whether every Handle returned in time.
func (e *vhgEnv) stop(d time.Duration) bool {
	for _, c := range e.conns {
		c.Close()
	}
	ok := true
	for _, ch := range e.done {
		select {
		case <-ch:
		case <-time.After(d):
			ok = false
		}
	}
	return ok
}

// vhgDefuse removes the finalizer the p9 client puts on its files (it clunks a dropped file whenever the
// garbage collector gets to it): a Tclunk must not appear at a random moment inside an observation window.
func vhgDefuse(fs ...File) {
	for _, f := range fs {
		if cf, ok := f.(*clientFile); ok && cf != nil {
			runtime.SetFinalizer(cf, nil)
		}
	}
}

// vhgAttach attaches and defuses the root file.
func vhgAttach(c *Client) (File, error) {
	f, err := c.Attach("")
	vhgDefuse(f)
	return f, err
}
