package p9

import "time"

// vh16QueuedWriter: a request that takes the server-wide rename lock for READING more than once in its life
// (one acquisition per path component) is parked inside the backend at its first component; a request that
// needs the lock for WRITING (another connection, another subtree) is sent and seen to queue; then the first
// is released.  Both must be answered: with Go's writer preference a reader that asks for the lock again
// while still holding it waits for the queued writer, which waits for the reader.  The queued writer is
// observed, not slept for: RWMutex.TryRLock fails exactly while a writer holds or waits for the lock.
func vh16QueuedWriter(out *vhOut) {
	type rd struct {
		name string
		run  func(root File)
	}
	readers := []rd{
		{"walk-2-names", func(root File) { _, f, _ := root.Walk([]string{"c0", "a"}); vhgDefuse(f) }},
		{"walkgetattr-2-names", func(root File) { _, f, _, _, _ := root.WalkGetAttr([]string{"c0", "a"}); vhgDefuse(f) }},
		{"walk-3-names", func(root File) { _, f, _ := root.Walk([]string{"c0", "sub", "f"}); vhgDefuse(f) }},
	}
	writers := []string{"renameat", "remove", "rename"}
	for ri, r := range readers {
		w := writers[ri%len(writers)]
		fs := vhgNewFS()
		vh16Seed(fs, 2)
		fs.add("/c0/sub/f", ModeRegular|0o644, "x")
		env, err := vhgStart(fs, 2)
		if err != nil {
			continue
		}
		r0, err0 := vhgAttach(env.clients[0])
		r1, err1 := vhgAttach(env.clients[1])
		if err0 != nil || err1 != nil {
			env.stop(2 * time.Second)
			continue
		}
		_, d1, errd := r1.Walk([]string{"c1"})
		vhgDefuse(d1)
		_, v1, errv := r1.Walk([]string{"c1", "a"})
		vhgDefuse(v1)
		if errd != nil || errv != nil {
			env.stop(2 * time.Second)
			continue
		}
		g := fs.arm("Walk", "", 0)
		dR, dW := make(chan struct{}), make(chan struct{})
		go func() { r.run(r0); close(dR) }()
		reached := false
		select {
		case <-g.reached:
			reached = true
		case <-dR:
		case <-time.After(10 * time.Second):
		}
		queued := false
		if reached {
			go func() {
				switch w {
				case "renameat":
					d1.RenameAt("a", d1, "z")
				case "rename":
					v1.Rename(d1, "z")
				default:
					v1.(*clientFile).Remove()
				}
				close(dW)
			}()
			for i := 0; i < 2000 && !queued; i++ { // the reader is parked holding the lock: the writer cannot get past it
				if env.srv.renameMu.TryRLock() {
					env.srv.renameMu.RUnlock()
					time.Sleep(time.Millisecond)
				} else {
					queued = true
				}
			}
			close(g.release)
		} else {
			close(dW)
		}
		ok := vh16Probe(func() { <-dR; <-dW })
		out.Emit(map[string]interface{}{"kind": "probe", "name": "queued-writer:" + r.name + "|" + w, "answered": ok, "reached": reached, "writer_queued": queued,
			"what": "T" + r.name + " parked in the backend Walk of its first component; T" + w + " (other connection, other directory) queues for the rename lock; then released"})
		if ok {
			env.stop(5 * time.Second)
		}
	}
}
