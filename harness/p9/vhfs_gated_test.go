package p9

// vhg2: two gated (event-based) concurrent scenarios the sequential histories cannot reach.
//   closeVsRename : a rename of an entry runs while the last DecRef of a fid on that entry is
//                   parked inside the backend's Close (C05: closed once, never used after Close).
//   unlinkVsWalk  : a Tunlinkat of dir/x is issued while a Twalk dir->x is parked inside the
//                   backend walk (C08: the walked fid must end up fenced, whichever order the
//                   server chose).
// Only the observed backend call log and the probe requests are judged (Refs/Cases.v CGated);
// the waits below only give the subject the chance to misbehave, they never decide a verdict.

import (
	"sort"
	"time"

	"github.com/u-root/uio/ulog"
)

func (s *vhsSess) sendOnly(c *vhsConn, m message) {
	if err := send(ulog.Null, c.c, 1, m); err != nil {
		s.broken = "send: " + err.Error()
	}
}

func (s *vhsSess) recvOnly(c *vhsConn, d time.Duration) (message, bool) {
	c.c.SetReadDeadline(time.Now().Add(d))
	_, r, err := recv(ulog.Null, c.c, vhsMsize, msgDotLRegistry.get)
	if err != nil {
		return nil, false
	}
	return r, true
}

func (s *vhsSess) gatedRecord(kind string, nprobe int, replied bool) map[string]interface{} {
	var ids []int
	for id := range s.conns {
		ids = append(ids, id)
	}
	sort.Ints(ids)
	for _, id := range ids {
		s.stopConn(id, nil)
	}
	gd := vhsSettle(s.g0)
	s.fs.mu.Lock()
	log := append([][]int{}, s.fs.log...)
	nh := s.fs.nextH
	s.fs.mu.Unlock()
	probes := s.steps[len(s.steps)-nprobe:]
	return map[string]interface{}{"kind": kind, "gated": true, "log": log, "probes": probes, "nhandles": nh,
		"returned": s.returned && replied, "gdelta": gd, "broken": s.broken, "steps": s.steps, "inject": [][]int{}}
}

// vhgCloseVsRename: fid 1 on /n1 (file or directory) is clunked; its Close parks; the entry is renamed meanwhile.
// With below, the fid is on /n1/n4 and /n1 (its parent directory) is renamed: notifyNameChange meets the fidRef being closed.
func vhgCloseVsRename(wga, dir, sameDir, below bool) map[string]interface{} {
	s := vhsNewSess(wga, nil)
	s.exec(vhsOp{K: "attach", A: []int{0, 0}})
	s.exec(vhsOp{K: "attach", A: []int{1, 0}})
	s.exec(vhsOp{K: "mk", A: []int{0, 0, 0, 2}}) // /n2: another directory
	s.exec(vhsOp{K: "walk", A: []int{1, 0, 2}, Names: []int{2}})
	if below {
		s.exec(vhsOp{K: "mk", A: []int{0, 0, 0, 1}})
		s.exec(vhsOp{K: "walk", A: []int{0, 0, 3}, Names: []int{1}})
		if dir {
			s.exec(vhsOp{K: "mk", A: []int{0, 0, 3, 4}})
		} else {
			s.exec(vhsOp{K: "mk", A: []int{1, 0, 3, 4}})
		}
		s.exec(vhsOp{K: "clunk", A: []int{0, 3}})
		s.exec(vhsOp{K: "walk", A: []int{0, 0, 1}, Names: []int{1, 4}})
	} else {
		if dir {
			s.exec(vhsOp{K: "mk", A: []int{0, 0, 0, 1}})
		} else {
			s.exec(vhsOp{K: "mk", A: []int{1, 0, 0, 1}})
		}
		s.exec(vhsOp{K: "walk", A: []int{0, 0, 1}, Names: []int{1}})
	}
	// handle of fid 1's File: the last one created
	s.fs.mu.Lock()
	h := s.fs.nextH - 1
	ent, rel := make(chan struct{}), make(chan struct{})
	s.fs.gateKey, s.fs.gateEntered, s.fs.gateRelease = [3]int{11, h, 0}, ent, rel
	s.fs.mu.Unlock()
	c0, c1 := s.conn(0), s.conn(1)
	s.sendOnly(c0, &tclunk{fid: 1})
	replied := true
	select {
	case <-ent:
		dst := fid(0)
		if !sameDir {
			dst = 2
		}
		s.sendOnly(c1, &trenameat{OldDirectory: 0, OldName: vhfsName(1), NewDirectory: dst, NewName: vhfsName(3)})
		_, ok := s.recvOnly(c1, 5*time.Second)
		replied = replied && ok
		close(rel)
	case <-time.After(5 * time.Second):
		close(rel)
		replied = false
	}
	_, ok := s.recvOnly(c0, 5*time.Second)
	replied = replied && ok
	// probes: the directory fids still work
	s.exec(vhsOp{K: "getattr", A: []int{0, 0}})
	s.exec(vhsOp{K: "getattr", A: []int{1, 2}})
	return s.gatedRecord("gated-close-rename", 2, replied)
}

// vhgRenameVsDisconnect: a same-directory rename of /n1 parks inside the Renamed callback of connection 0's
// fid on /n1; connection 0 is dropped meanwhile (its stop() takes the table reference away), so the
// rename's own temporary reference becomes the last one.  The rename has to be answered.
func vhgRenameVsDisconnect(wga, dir bool) map[string]interface{} {
	s := vhsNewSess(wga, nil)
	s.exec(vhsOp{K: "attach", A: []int{0, 0}})
	s.exec(vhsOp{K: "attach", A: []int{1, 0}})
	if dir {
		s.exec(vhsOp{K: "mk", A: []int{0, 1, 0, 1}})
	} else {
		s.exec(vhsOp{K: "mk", A: []int{1, 1, 0, 1}})
	}
	s.exec(vhsOp{K: "walk", A: []int{0, 0, 1}, Names: []int{1}})
	s.exec(vhsOp{K: "clunk", A: []int{0, 0}}) // connection 0 keeps only the fid on /n1
	s.fs.mu.Lock()
	h := s.fs.nextH - 1
	ent, rel := make(chan struct{}), make(chan struct{})
	s.fs.gateKey, s.fs.gateEntered, s.fs.gateRelease = [3]int{10, h, 0}, ent, rel
	s.fs.mu.Unlock()
	c1 := s.conn(1)
	s.sendOnly(c1, &trenameat{OldDirectory: 0, OldName: vhfsName(1), NewDirectory: 0, NewName: vhfsName(3)})
	replied := true
	select {
	case <-ent:
		s.stopConn(0, nil) // waits for Handle of connection 0 to return
		close(rel)
	case <-time.After(5 * time.Second):
		close(rel)
		replied = false
	}
	// blocked is inferred by timeout only in the direction "must proceed, did not": three waits of one second
	ok := false
	for i := 0; i < 3 && !ok; i++ {
		_, ok = s.recvOnly(c1, time.Second)
	}
	replied = replied && ok
	np := 0
	if ok { // a wedged server is reported through [returned], not by probing it
		s.exec(vhsOp{K: "getattr", A: []int{1, 0}})
		np = 1
	}
	return s.gatedRecord("gated-rename-disconnect", np, replied)
}

// vhgUnlinkVsWalk: Twalk root->n1 parks in the backend walk; Tunlinkat(root, n1) is issued meanwhile.
func vhgUnlinkVsWalk(wga, dir bool) map[string]interface{} {
	s := vhsNewSess(wga, nil)
	s.exec(vhsOp{K: "attach", A: []int{0, 0}})
	s.exec(vhsOp{K: "attach", A: []int{1, 0}})
	if dir {
		s.exec(vhsOp{K: "mk", A: []int{0, 0, 0, 1}})
	} else {
		s.exec(vhsOp{K: "mk", A: []int{1, 0, 0, 1}})
	}
	s.fs.mu.Lock()
	ino, _ := s.fs.resolve([]int{1})
	ent, rel, seen := make(chan struct{}), make(chan struct{}), make(chan struct{})
	tag := 1
	if wga {
		tag = 2
	}
	// handle 0 is connection 0's root File; name id 1 is encoded as 2 (option)
	s.fs.gateKey, s.fs.gateEntered, s.fs.gateRelease = [3]int{tag, 0, 2}, ent, rel
	s.fs.watchKey, s.fs.watched = [2]int{8, 1}, seen // UnlinkAt through connection 1's root File (handle 1)
	s.fs.mu.Unlock()
	c0, c1 := s.conn(0), s.conn(1)
	s.sendOnly(c0, &twalk{fid: 0, newFID: 1, Names: []string{vhfsName(1)}})
	replied := true
	select {
	case <-ent:
		s.sendOnly(c1, &tunlinkat{Directory: 0, Name: vhfsName(1)})
		select {
		case <-seen: // the unlink reached the backend while the walk is parked
		case <-time.After(300 * time.Millisecond): // it waits for the walk, as it should
		}
		close(rel)
	case <-time.After(5 * time.Second):
		close(rel)
		replied = false
	}
	r0, ok0 := s.recvOnly(c0, 5*time.Second)
	_, ok1 := s.recvOnly(c1, 5*time.Second)
	replied = replied && ok0 && ok1
	if _, isWalk := r0.(*rwalk); isWalk {
		s.bound[[2]int{0, 1}] = vhsBound{ino, dir}
	}
	// probes through the walked fid: its object is gone, so it has to be fenced
	np := 0
	for _, op := range []vhsOp{{K: "setattr", A: []int{0, 1}}, {K: "mk", A: []int{0, 0, 1, 2}}, {K: "walk", A: []int{0, 1, 2}, Names: []int{2}}, {K: "open", A: []int{0, 1, 0}}, {K: "getattr", A: []int{0, 0}}} {
		s.exec(op)
		np++
	}
	return s.gatedRecord("gated-unlink-walk", np, replied)
}

// vhgRenameVsBind: a request that binds a new File below /n1 - a clone (zero-name walk) of the fid on
// /n1/n4, a walk from it to its child n5, or a Tlcreate of n5 in it - is parked inside its backend call,
// after the backend made the new File (which has copied its path); a Trenameat of an ancestor (/n1) or of
// the entry itself (/n1/n4), within the directory or into /n2, is issued meanwhile on another connection.
// Whichever order the server chooses, afterwards every fid has to reach the object it was bound to (the
// probes): a rename that completes inside the window notifies only the registered fidRefs, so the File
// being bound would keep the old path.  The wait only gives the rename the chance to overtake.
func vhgRenameVsBind(wga bool, bind string, self, cross bool) map[string]interface{} {
	s := vhsNewSess(wga, nil)
	s.exec(vhsOp{K: "attach", A: []int{0, 0}})
	s.exec(vhsOp{K: "attach", A: []int{1, 0}})
	s.exec(vhsOp{K: "mk", A: []int{0, 0, 0, 1}})
	s.exec(vhsOp{K: "mk", A: []int{0, 0, 0, 2}})
	s.exec(vhsOp{K: "walk", A: []int{1, 0, 2}, Names: []int{2}}) // connection 1: fid 2 on /n2
	s.exec(vhsOp{K: "walk", A: []int{1, 0, 4}, Names: []int{1}}) // connection 1: fid 4 on /n1
	s.fs.mu.Lock()
	h14 := s.fs.nextH - 1
	s.fs.mu.Unlock()
	s.exec(vhsOp{K: "walk", A: []int{0, 0, 1}, Names: []int{1}}) // connection 0: fid 1 on /n1
	s.exec(vhsOp{K: "mk", A: []int{0, 0, 1, 4}})
	s.exec(vhsOp{K: "walk", A: []int{0, 1, 3}, Names: []int{4}}) // connection 0: fid 3 on /n1/n4
	s.fs.mu.Lock()
	h3 := s.fs.nextH - 1
	s.fs.mu.Unlock()
	s.exec(vhsOp{K: "mk", A: []int{0, 0, 3, 5}}) // /n1/n4/n5 (walk target)
	s.fs.mu.Lock()
	ino5, _ := s.fs.resolve([]int{1, 4, 5})
	s.fs.mu.Unlock()
	nf := 5
	var m message
	var key [3]int
	wtag := 1
	if wga {
		wtag = 2
	}
	switch bind {
	case "clone":
		m, key = &twalk{fid: 3, newFID: 5}, [3]int{1, h3, 0}
	case "cloneg":
		m, key = &twalkgetattr{fid: 3, newFID: 5}, [3]int{wtag, h3, 0}
	case "walk":
		m, key = &twalk{fid: 3, newFID: 5, Names: []string{vhfsName(5)}}, [3]int{wtag, h3, 6}
	default: // create n6 in a clone of fid 3 (Tlcreate rebinds its fid)
		s.exec(vhsOp{K: "walk", A: []int{0, 3, 6}})
		s.fs.mu.Lock()
		h6 := s.fs.nextH - 1
		s.fs.mu.Unlock()
		nf = 6
		m, key = &tlcreate{fid: 6, Name: vhfsName(6), OpenFlags: 2, Permissions: 0o644}, [3]int{5, h6, 6}
	}
	// the rename: of /n1 through connection 1's root fid, or of /n1/n4 through its fid on /n1
	rn := &trenameat{OldDirectory: 0, OldName: vhfsName(1), NewDirectory: 0, NewName: vhfsName(3)}
	wkey := [2]int{9, 1} // RenameAt on connection 1's root File (handle 1)
	if self {
		rn = &trenameat{OldDirectory: 4, OldName: vhfsName(4), NewDirectory: 4, NewName: vhfsName(3)}
		wkey = [2]int{9, h14}
	}
	if cross {
		rn.NewDirectory = 2
	}
	ent, rel, seen := make(chan struct{}), make(chan struct{}), make(chan struct{})
	s.fs.mu.Lock()
	s.fs.gateKey, s.fs.gateEntered, s.fs.gateRelease = key, ent, rel
	s.fs.watchKey, s.fs.watched = wkey, seen
	s.fs.mu.Unlock()
	c0, c1 := s.conn(0), s.conn(1)
	s.sendOnly(c0, m)
	replied := true
	gotRn := false
	select {
	case <-ent:
		s.sendOnly(c1, rn)
		select {
		case <-seen: // the rename reached the backend while the binding request is parked: let it finish
			_, gotRn = s.recvOnly(c1, 2*time.Second)
		case <-time.After(400 * time.Millisecond): // it waits for the binding request, as it should
		}
		close(rel)
	case <-time.After(5 * time.Second):
		close(rel)
		replied = false
	}
	r0, ok0 := s.recvOnly(c0, 5*time.Second)
	ok1 := gotRn
	if !gotRn {
		_, ok1 = s.recvOnly(c1, 5*time.Second)
	}
	replied = replied && ok0 && ok1
	switch x := r0.(type) {
	case *rwalk, *rwalkgetattr:
		if bind == "walk" {
			s.bind(0, nf, ino5)
		} else {
			s.bound[[2]int{0, nf}] = s.bound[[2]int{0, 3}]
		}
	case *rlcreate:
		s.bind(0, nf, vhsQidPath(x.QID))
	}
	np := 0
	for _, op := range []vhsOp{{K: "getattr", A: []int{0, nf}}, {K: "getattr", A: []int{0, 3}}, {K: "getattr", A: []int{0, 1}}, {K: "getattr", A: []int{1, 4}}} {
		s.exec(op)
		np++
	}
	return s.gatedRecord("gated-rename-bind", np, replied)
}

// vhgRenamedPanic: the backend panics inside the Renamed callback of a File one level (deep: two levels) below a
// directory that is renamed - inside notifyNameChange, after references were taken on the fidRefs told so far.
// The request is answered (EFAULT, recovered); then every connection is dropped.  Judged: every File closed
// exactly once, none used after its Close, Handle returned, no goroutine left - references taken for the
// notifications must be given back on the panic path too, or the Files told so far and all their ancestors
// are never closed.  Sequential; evaluated as a CGated record (property only: backend panics are outside the model).
func vhgRenamedPanic(wga, deep, cross bool) map[string]interface{} {
	s := vhsNewSess(wga, nil)
	s.exec(vhsOp{K: "attach", A: []int{0, 0}})
	s.exec(vhsOp{K: "attach", A: []int{1, 0}})
	s.exec(vhsOp{K: "mk", A: []int{0, 0, 0, 1}})
	s.exec(vhsOp{K: "mk", A: []int{0, 0, 0, 2}})
	s.exec(vhsOp{K: "walk", A: []int{0, 0, 2}, Names: []int{2}}) // fid 2 on /n2
	s.exec(vhsOp{K: "walk", A: []int{0, 0, 1}, Names: []int{1}}) // fid 1 on /n1
	s.exec(vhsOp{K: "mk", A: []int{0, 0, 1, 4}})
	s.exec(vhsOp{K: "walk", A: []int{0, 1, 3}, Names: []int{4}}) // fid 3 on /n1/n4
	s.fs.mu.Lock()
	h := s.fs.nextH - 1
	s.fs.mu.Unlock()
	s.exec(vhsOp{K: "walk", A: []int{1, 0, 6}, Names: []int{1, 4}}) // connection 1: a second fidRef on /n1/n4 (and one on /n1)
	s.exec(vhsOp{K: "mk", A: []int{1, 0, 3, 5}})
	s.exec(vhsOp{K: "walk", A: []int{0, 3, 5}, Names: []int{5}}) // fid 5 on /n1/n4/n5
	if deep {
		s.fs.mu.Lock()
		h = s.fs.nextH - 1
		s.fs.mu.Unlock()
	}
	s.exec(vhsOp{K: "walk", A: []int{0, 5, 7}}) // and a clone of it
	s.fs.mu.Lock()
	s.fs.panicRenamed = h
	s.fs.mu.Unlock()
	dst := 0
	if cross {
		dst = 2
	}
	s.exec(vhsOp{K: "renameat", A: []int{0, 0, 1, dst, 3}}) // /n1 -> /n3 or /n2/n3: answered EFAULT
	s.fs.mu.Lock()
	s.fs.panicRenamed = -1
	s.fs.mu.Unlock()
	s.exec(vhsOp{K: "getattr", A: []int{0, 0}}) // the server still serves
	s.exec(vhsOp{K: "getattr", A: []int{1, 0}})
	return s.gatedRecord("gated-renamed-panic", 2, s.broken == "")
}
