package p9

// C10 correspondence harness: (a) every disciplined Get/Put sequence on the real
// pool, (b) the real Client against a scripted fake server that answers batches
// of in-flight calls in chosen orders and injects faults, (c) send failures.

import (
	"encoding/binary"
	"errors"
	"fmt"
	"io"
	"net"
	"runtime"
	"runtime/debug"
	"sync"
	"sync/atomic"
	"testing"
	"time"

	"github.com/hugelgupf/p9/linux"
	"github.com/u-root/uio/ulog"
)

// ---- (a) allocator ----

type vh10Op struct {
	Put bool   `json:"put"`
	V   uint64 `json:"v"`
}

func vh10PoolRun(o *vhOut, start, limit uint64, ops []vh10Op) {
	p := pool{start: start, limit: limit}
	var res []interface{}
	for _, op := range ops {
		if op.Put {
			p.Put(op.V)
			continue
		}
		v, ok := p.Get()
		if ok {
			res = append(res, fmt.Sprint(v))
		} else {
			res = append(res, nil)
		}
	}
	o.Emit(map[string]interface{}{"kind": "pool", "start": fmt.Sprint(start), "limit": fmt.Sprint(limit), "ops": ops, "results": res})
}

// vh10PoolEnum enumerates every sequence of the given length in which only outstanding values are put back.
func vh10PoolEnum(o *vhOut, start, limit uint64, depth int) int {
	n := 0
	var rec func(p *pool, out []uint64, ops []vh10Op, d int)
	rec = func(p *pool, out []uint64, ops []vh10Op, d int) {
		if d == 0 {
			vh10PoolRun(o, start, limit, ops)
			n++
			return
		}
		// Get
		{
			q := pool{cache: append([]uint64(nil), p.cache...), start: p.start, limit: p.limit}
			v, ok := q.Get()
			no := out
			if ok {
				no = append(append([]uint64(nil), out...), v)
			}
			rec(&q, no, append(append([]vh10Op(nil), ops...), vh10Op{}), d-1)
		}
		for i, v := range out {
			q := pool{cache: append([]uint64(nil), p.cache...), start: p.start, limit: p.limit}
			q.Put(v)
			no := append(append([]uint64(nil), out[:i]...), out[i+1:]...)
			rec(&q, no, append(append([]vh10Op(nil), ops...), vh10Op{Put: true, V: v}), d-1)
		}
	}
	rec(&pool{start: start, limit: limit}, nil, nil, depth)
	return n
}

// ---- (b) scripted fake server ----

type vh10Item struct {
	K string `json:"k"` // reply unknown wrong garbage close short
	I int    `json:"i"`
}

type vh10Call struct {
	I    int  `json:"i"`
	Fail bool `json:"fail"` // its send is made to fail
}

type vh10Phase struct {
	Calls  []vh10Call `json:"calls"`
	Script []vh10Item `json:"script"`
}

// vh10Conn is the client's end: the next Write can be made to fail without sending anything.
type vh10Conn struct {
	net.Conn
	failNext int32
}

func (c *vh10Conn) Write(b []byte) (int, error) {
	if atomic.CompareAndSwapInt32(&c.failNext, 1, 0) {
		return 0, errors.New("injected write failure")
	}
	return c.Conn.Write(b)
}

const vh10Stride = 1000

func vh10Data(call int) []byte {
	b := make([]byte, 8)
	binary.LittleEndian.PutUint64(b, uint64(call)*0x0101010101010101+0xabcdef)
	return b
}

type vh10Srv struct {
	c    net.Conn
	mu   sync.Mutex
	tags map[int]uint16 // call index -> tag of its Tread
	got  chan int       // call indexes as their requests arrive
	dead bool
}

// net.Pipe is unbuffered: every frame sent here has a pending call to read it; the deadline is a watchdog only.
func (s *vh10Srv) reply(tg uint16, m message) error {
	s.c.SetWriteDeadline(time.Now().Add(10 * time.Second))
	return send(ulog.Null, s.c, tag(tg), m)
}

// reader: answers handshake requests at once, records Treads.
func (s *vh10Srv) reader() {
	for {
		typ, tg, body, err := vhReadFrame(s.c, 30*time.Second)
		if err != nil {
			return
		}
		switch msgType(typ) {
		case msgTversion:
			s.reply(tg, &rversion{MSize: binary.LittleEndian.Uint32(body), Version: "9P2000.L.Google.7"})
		case msgTattach:
			s.reply(tg, &rattach{})
		case msgTlopen:
			s.reply(tg, &rlopen{})
		case msgTclunk:
			s.reply(tg, &rclunk{})
		case msgTread:
			off := binary.LittleEndian.Uint64(body[4:12])
			s.mu.Lock()
			s.tags[int(off/vh10Stride)] = tg
			s.mu.Unlock()
			s.got <- int(off / vh10Stride)
		default:
			s.reply(tg, &rlerror{Error: 38})
		}
	}
}

func (s *vh10Srv) tagOf(i int) (uint16, bool) {
	s.mu.Lock()
	defer s.mu.Unlock()
	t, ok := s.tags[i]
	return t, ok
}

func (s *vh10Srv) do(it vh10Item) {
	if s.dead {
		return
	}
	switch it.K {
	case "reply":
		if t, ok := s.tagOf(it.I); ok {
			s.reply(t, &rread{Data: vh10Data(it.I)})
		}
	case "rlerror": // the call's own reply is an error message carrying a number that identifies the call
		if t, ok := s.tagOf(it.I); ok {
			s.reply(t, &rlerror{Error: uint32(100 + it.I)})
		}
	case "unknown":
		s.reply(64999, &rread{Data: vh10Data(777)})
	case "wrong":
		if t, ok := s.tagOf(it.I); ok {
			s.reply(t, &rlopen{})
		}
	case "garbage":
		s.c.SetWriteDeadline(time.Now().Add(10 * time.Second))
		s.c.Write([]byte{3, 0, 0, 0, 117, 1, 0})
		s.dead = true
		s.c.Close()
	case "close":
		s.dead = true
		s.c.Close()
	case "short":
		if t, ok := s.tagOf(it.I); ok {
			b := vhFrame(byte(msgRread), t, append(vhLE32(8), vh10Data(it.I)...))
			s.c.SetWriteDeadline(time.Now().Add(10 * time.Second))
			s.c.Write(b[:9])
		}
		s.dead = true
		s.c.Close()
	}
}

func vh10Fatal(k string) bool { return k == "garbage" || k == "close" || k == "short" }

// vh10Session runs the phases against a fresh client; outcomes per call index.
func vh10Session(t *testing.T, o *vhOut, id int, n int, phases []vh10Phase, sub string) {
	cc, sc := net.Pipe()
	srv := &vh10Srv{c: sc, tags: map[int]uint16{}, got: make(chan int, 1024)}
	go srv.reader()
	conn := &vh10Conn{Conn: cc}
	cl, err := NewClient(conn)
	if err != nil {
		t.Fatalf("C10 NewClient: %v", err)
	}
	f, err := cl.Attach("")
	if err != nil {
		t.Fatalf("C10 attach: %v", err)
	}
	if _, _, err := f.Open(ReadOnly); err != nil {
		t.Fatalf("C10 open: %v", err)
	}
	outcomes := make([]string, n)
	for i := range outcomes {
		outcomes[i] = "none"
	}
	var omu sync.Mutex
	one := func(i int, wg *sync.WaitGroup) {
		defer wg.Done()
		p := make([]byte, 8)
		k, err := f.(*clientFile).readAt(p, int64(i)*vh10Stride)
		r := "err"
		if err == nil {
			r = "foreign"
			if k == 8 && string(p) == string(vh10Data(i)) {
				r = "ok"
			}
		} else if en, isErrno := err.(linux.Errno); isErrno && en >= 100 && en < 100+1024 {
			r = "foreign" // an Rlerror: it must be the one sent to THIS call
			if int(en) == 100+i {
				r = "ok"
			}
		}
		omu.Lock()
		outcomes[i] = r
		omu.Unlock()
	}
	for _, ph := range phases {
		var wg sync.WaitGroup
		expect := 0
		arrived := func() {
			deadline := time.After(5 * time.Second)
			for expect > 0 {
				select {
				case <-srv.got:
					expect--
				case <-deadline:
					return
				}
			}
		}
		for _, c := range ph.Calls {
			wg.Add(1)
			if c.Fail {
				// once the requests started so far are in flight, this call's first Write fails
				arrived()
				atomic.StoreInt32(&conn.failNext, 1)
				one(c.I, &wg)
				continue
			}
			if !srv.dead {
				expect++
			}
			go one(c.I, &wg)
		}
		// the server acts once every request of the phase is in flight
		arrived()
		for _, it := range ph.Script {
			srv.do(it)
		}
		done := make(chan struct{})
		go func() { wg.Wait(); close(done) }()
		hung := false
		select {
		case <-done:
		case <-time.After(4 * time.Second):
			// confirm: still not back after three more seconds
			hung = true
			for k := 0; k < 3 && hung; k++ {
				select {
				case <-done:
					hung = false
				case <-time.After(time.Second):
				}
			}
		}
		if hung {
			omu.Lock()
			for _, c := range ph.Calls {
				if outcomes[c.I] == "none" {
					outcomes[c.I] = "hang"
				}
			}
			omu.Unlock()
			break
		}
	}
	cc.Close()
	sc.Close()
	omu.Lock()
	o.Emit(map[string]interface{}{"kind": "batch", "sub": sub, "id": id, "n": n, "phases": phases, "outcomes": append([]string(nil), outcomes...)})
	omu.Unlock()
}

// ---- (d) forced schedules: a gated client transport and a raw fake server ----

// vh10Gate is the client's end of the pipe.  One Write can be held and then made to fail; the harness is told
// (events, never clocks) when that Write has been entered, and every time a Read is entered.
type vh10Gate struct {
	net.Conn
	hold  int32
	gate  chan struct{}
	held  chan uint16 // the tag of the frame whose Write is being held (sent when the Write is entered)
	reads chan struct{} // one token per Read entered, when armed
	armed int32
}

func (c *vh10Gate) Write(b []byte) (int, error) {
	if atomic.CompareAndSwapInt32(&c.hold, 1, 0) {
		var tg uint16
		if len(b) >= 7 {
			tg = binary.LittleEndian.Uint16(b[5:])
		}
		c.held <- tg
		<-c.gate
		return 0, errors.New("injected write failure")
	}
	return c.Conn.Write(b)
}

func (c *vh10Gate) Read(b []byte) (int, error) {
	if atomic.LoadInt32(&c.armed) == 1 {
		c.reads <- struct{}{}
	}
	return c.Conn.Read(b)
}

func vh10NewGate(cc net.Conn) *vh10Gate {
	return &vh10Gate{Conn: cc, gate: make(chan struct{}), held: make(chan uint16, 1), reads: make(chan struct{}, 1024)}
}

// vh10Await waits for an event the model says must happen; the watchdog is confirmed (3 x 1 s) before "hang".
func vh10Await(ch <-chan struct{}) bool {
	select {
	case <-ch:
		return true
	case <-time.After(4 * time.Second):
	}
	for k := 0; k < 3; k++ {
		select {
		case <-ch:
			return true
		case <-time.After(time.Second):
		}
	}
	return false
}

func vh10Result(res chan [2]string) ([2]string, bool) {
	select {
	case r := <-res:
		return r, true
	case <-time.After(4 * time.Second):
	}
	for k := 0; k < 3; k++ {
		select {
		case r := <-res:
			return r, true
		case <-time.After(time.Second):
		}
	}
	return [2]string{}, false
}

// vh10Guard runs f, turning a Go panic in the client into an observation.
func vh10Guard(f func() error) (out string) {
	defer func() {
		if r := recover(); r != nil {
			out = "panic"
		}
	}()
	if err := f(); err != nil {
		return "err"
	}
	return "ok"
}

func vh10Handshake(t *testing.T, conn net.Conn, sc net.Conn, reqs chan [2]uint16, headerOnly *int32) (*Client, File) {
	go func() {
		for {
			sc.SetReadDeadline(time.Now().Add(30 * time.Second))
			var hdr [7]byte
			if _, err := io.ReadFull(sc, hdr[:]); err != nil {
				return
			}
			size := binary.LittleEndian.Uint32(hdr[:])
			typ, tg := msgType(hdr[4]), binary.LittleEndian.Uint16(hdr[5:])
			if atomic.LoadInt32(headerOnly) == 1 && typ == msgTfsync {
				// announce the request before its body has been read
				reqs <- [2]uint16{uint16(typ), tg}
			}
			body := make([]byte, size-7)
			if _, err := io.ReadFull(sc, body); err != nil {
				return
			}
			switch typ {
			case msgTversion:
				send(ulog.Null, sc, tag(tg), &rversion{MSize: binary.LittleEndian.Uint32(body), Version: "9P2000.L.Google.7"})
			case msgTattach:
				send(ulog.Null, sc, tag(tg), &rattach{})
			default:
				if atomic.LoadInt32(headerOnly) == 0 || typ != msgTfsync {
					reqs <- [2]uint16{uint16(typ), tg}
				}
			}
		}
	}()
	cl, err := NewClient(conn)
	if err != nil {
		t.Fatalf("C10 NewClient: %v", err)
	}
	f, err := cl.Attach("")
	if err != nil {
		t.Fatalf("C10 attach: %v", err)
	}
	return cl, f
}

func vh10Collect(res chan [2]string, n int) map[string]string {
	out := map[string]string{}
	for i := 0; i < n; i++ {
		select {
		case r := <-res:
			out[r[0]] = r[1]
		case <-time.After(6 * time.Second):
		}
	}
	return out
}

// vh10Race: call B holds the token; call A registers, its Write is held; the header of a reply carrying A's
// tag arrives (lookup succeeds, B blocks reading the body); A's send fails and A withdraws; the body arrives.
// Then B's own reply arrives.  Every step waits for the event that ends the previous one.
func vh10Race(t *testing.T, o *vhOut, id int) {
	cc, sc := net.Pipe()
	defer cc.Close()
	defer sc.Close()
	conn := vh10NewGate(cc)
	reqs := make(chan [2]uint16, 16)
	var ho int32
	_, f := vh10Handshake(t, conn, sc, reqs, &ho)
	res := make(chan [2]string, 2)
	atomic.StoreInt32(&conn.armed, 1)
	go func() { res <- [2]string{"B", vh10Guard(f.FSync)} }()
	var tb uint16
	select {
	case r := <-reqs:
		tb = r[1]
	case <-time.After(10 * time.Second):
		t.Fatalf("C10 race: B's request did not arrive")
	}
	<-conn.reads // B is inside recv (it holds the token)
	atomic.StoreInt32(&conn.hold, 1)
	go func() { res <- [2]string{"A", vh10Guard(f.FSync)} }()
	ta := <-conn.held // A: tag taken, pending registered (before send), blocked inside Write
	frame := vhFrame(byte(msgRlerror), ta, vhLE32(5))
	sc.SetWriteDeadline(time.Now().Add(10 * time.Second))
	sc.Write(frame[:7]) // returns when B has read the header
	<-conn.reads          // B has looked the tag up and is reading the body
	close(conn.gate)      // A's send fails: A withdraws pending[ta] ...
	out := []string{"hang", "hang"}
	if r, ok := vh10Result(res); ok && r[0] == "A" { // ... and returns
		out[0] = r[1]
	}
	sc.Write(frame[7:]) // completion re-reads pending[ta]
	<-conn.reads          // B is back in recv
	sc.SetWriteDeadline(time.Now().Add(10 * time.Second))
	send(ulog.Null, sc, tag(tb), &rfsync{}) // B's own reply
	if r, ok := vh10Result(res); ok && r[0] == "B" {
		out[1] = r[1]
	}
	// thread 0 = A (tag 1 in the model), thread 1 = B (tag 2)
	o.Emit(map[string]interface{}{"kind": "trace", "sub": "reply-during-failed-send", "id": id, "n": 2, "outcomes": out,
		"trace": []string{"AStart 1 2 1", "ASendOk 1", "AWaitToken 1", "AStart 0 1 0", "AFrame 1 1 true", "ASendFail 0", "ABody 1 true", "AWaitToken 1",
			"AFrame 1 2 true", "ABody 1 true", "AWaitDone 1"}})
}

// vh10Early: call X holds the token; the server answers call B as soon as it has read the header of B's
// request, i.e. while B is still inside send.  pending[t] is registered before send, so B gets its reply —
// and B must be back BEFORE anything else is sent (X is answered only afterwards).
func vh10Early(t *testing.T, o *vhOut, id int) {
	cc, sc := net.Pipe()
	defer cc.Close()
	defer sc.Close()
	conn := vh10NewGate(cc)
	reqs := make(chan [2]uint16, 16)
	var ho int32
	_, f := vh10Handshake(t, conn, sc, reqs, &ho)
	res := make(chan [2]string, 2)
	atomic.StoreInt32(&conn.armed, 1)
	go func() { res <- [2]string{"X", vh10Guard(func() error { _, err := f.Readlink(); return err })} }()
	var tx uint16
	select {
	case r := <-reqs:
		tx = r[1]
	case <-time.After(10 * time.Second):
		t.Fatalf("C10 early: X's request did not arrive")
	}
	<-conn.reads // X is inside recv
	atomic.StoreInt32(&ho, 1)
	go func() { res <- [2]string{"B", vh10Guard(f.FSync)} }()
	out := []string{"hang", "hang"}
	select {
	case r := <-reqs: // header of B's Tfsync read, body (4 bytes) not yet
		sc.SetWriteDeadline(time.Now().Add(10 * time.Second))
		send(ulog.Null, sc, tag(r[1]), &rfsync{})
	case <-time.After(10 * time.Second):
		t.Fatalf("C10 early: B's header did not arrive")
	}
	if r, ok := vh10Result(res); ok && r[0] == "B" { // B returns although no further frame arrives
		out[1] = r[1]
	}
	sc.SetWriteDeadline(time.Now().Add(10 * time.Second))
	send(ulog.Null, sc, tag(tx), &rreadlink{Target: "x"})
	if r, ok := vh10Result(res); ok && r[0] == "X" {
		out[0] = r[1]
	}
	o.Emit(map[string]interface{}{"kind": "trace", "sub": "reply-before-send-returns", "id": id, "n": 2, "outcomes": out,
		"trace": []string{"AStart 0 1 0", "ASendOk 0", "AWaitToken 0", "AStart 1 2 1", "AFrame 0 2 true", "ABody 0 true", "ASendOk 1", "AWaitDone 1",
			"AWaitToken 0", "AFrame 0 1 true", "ABody 0 true", "AWaitDone 0"}})
}

// vh10Wake: the wake-up of a parked waiter.  X holds the token for the whole session (its reply is withheld).
// In each round a call B is sent completely, the harness yields so that B parks in waitAndRecv (an aid in the
// allowed direction: if B has not parked yet it must return all the same), then B's reply is sent — it is X that
// reads it and completes B — and B must return before ANY further frame is sent.  A waiter that stops watching
// its done channel while it queues for the token never comes back here.
func vh10Wake(t *testing.T, o *vhOut, id int, rounds int) {
	cc, sc := net.Pipe()
	defer cc.Close()
	defer sc.Close()
	conn := vh10NewGate(cc)
	reqs := make(chan [2]uint16, 16)
	var ho int32
	_, f := vh10Handshake(t, conn, sc, reqs, &ho)
	res := make(chan [2]string, 2)
	xres := make(chan [2]string, 1)
	atomic.StoreInt32(&conn.armed, 1)
	go func() { xres <- [2]string{"X", vh10Guard(func() error { _, err := f.Readlink(); return err })} }()
	var tx uint16
	select {
	case r := <-reqs:
		tx = r[1]
	case <-time.After(10 * time.Second):
		t.Fatalf("C10 wake: X's request did not arrive")
	}
	<-conn.reads // X is inside recv
	out := []string{"hang"}
	trace := []string{"AStart 0 1 0", "ASendOk 0", "AWaitToken 0"}
	stuck := false
	for k := 1; k <= rounds && !stuck; k++ {
		go func() { res <- [2]string{"B", vh10Guard(f.FSync)} }()
		var tb uint16
		select {
		case r := <-reqs:
			tb = r[1]
		case <-time.After(10 * time.Second):
			t.Fatalf("C10 wake: request %d did not arrive", k)
		}
		for y := 0; y < 50; y++ {
			runtime.Gosched()
		}
		time.Sleep(time.Duration(k%4) * time.Millisecond)
		sc.SetWriteDeadline(time.Now().Add(10 * time.Second))
		if k%3 == 0 {
			send(ulog.Null, sc, tag(tb), &rlerror{Error: 5}) // an Rlerror is B's own reply too
		} else {
			send(ulog.Null, sc, tag(tb), &rfsync{})
		}
		<-conn.reads // X has completed B and is back in recv
		r, ok := vh10Result(res)
		if !ok {
			out = append(out, "hang")
			stuck = true
		} else if k%3 == 0 && r[1] == "err" {
			out = append(out, "ok") // the errno it was sent
		} else {
			out = append(out, r[1])
		}
		trace = append(trace, fmt.Sprintf("AStart %d 2 1", k), fmt.Sprintf("ASendOk %d", k), "AFrame 0 2 true", "ABody 0 true", fmt.Sprintf("AWaitDone %d", k), "AWaitToken 0")
	}
	sc.SetWriteDeadline(time.Now().Add(10 * time.Second))
	send(ulog.Null, sc, tag(tx), &rreadlink{Target: "x"})
	if r, ok := vh10Result(xres); ok {
		out[0] = r[1]
	}
	trace = append(trace, "AFrame 0 1 true", "ABody 0 true", "AWaitDone 0")
	o.Emit(map[string]interface{}{"kind": "trace", "sub": "wake-up-of-a-parked-waiter", "id": id, "n": len(out), "outcomes": out, "trace": trace})
}

// vh10Pass is a client transport whose Write can be held AFTER the bytes have gone out: the caller is then
// "still inside send" while the server already has the whole request.  Events only: held is signalled when
// the Write has delivered its bytes, release lets it return (successfully).
type vh10Pass struct {
	net.Conn
	hold    int32
	held    chan uint16
	release chan struct{}
	left    int    // bytes of the current frame still to be written (frames may be written in several pieces)
	tg      uint16 // its tag
	typ     byte   // its type: only Treadlink frames are held (call A; call B sends Tfsync)
}

func (c *vh10Pass) Write(b []byte) (int, error) {
	n, err := c.Conn.Write(b)
	if err != nil {
		return n, err
	}
	// writes are serialised by the client's sendMu
	if c.left == 0 && len(b) >= 7 {
		c.left = int(binary.LittleEndian.Uint32(b)) - len(b)
		c.tg = binary.LittleEndian.Uint16(b[5:])
		c.typ = b[4]
	} else {
		c.left -= len(b)
	}
	if c.left <= 0 {
		c.left = 0
		if msgType(c.typ) == msgTreadlink && atomic.CompareAndSwapInt32(&c.hold, 1, 0) {
			c.held <- c.tg
			<-c.release
		}
	}
	return n, err
}

// vh10Late: the hand-over of the receive token when a call arrives in waitAndRecv LATE.  Per round: call B is sent
// and holds the token; call A is sent completely but kept inside send (its Write has not returned); the server
// answers A (B reads the frame and completes A) and then B; B returns — this is the event that tells the harness
// that A's reply is in A's done channel and that the token is free; only then does A's Write return.  A now enters
// the select with BOTH cases ready and must return its reply whichever case wins; no further frame is ever sent.
func vh10Late(t *testing.T, o *vhOut, id int, rounds int) {
	cc, sc := net.Pipe()
	defer cc.Close()
	defer sc.Close()
	conn := &vh10Pass{Conn: cc, held: make(chan uint16, 1), release: make(chan struct{})}
	reqs := make(chan [2]uint16, 16)
	var ho int32
	_, f := vh10Handshake(t, conn, sc, reqs, &ho)
	out := []string{}
	trace := []string{}
	next := func(what string) uint16 {
		select {
		case r := <-reqs:
			return r[1]
		case <-time.After(10 * time.Second):
			t.Fatalf("C10 late: %s did not arrive", what)
		}
		return 0
	}
	for k := 0; k < rounds; k++ {
		a, b := 2*k, 2*k+1
		resB := make(chan [2]string, 1)
		resA := make(chan [2]string, 1)
		go func() { resB <- [2]string{"B", vh10Guard(f.FSync)} }()
		tb := next("B's request")
		atomic.StoreInt32(&conn.hold, 1)
		go func() { resA <- [2]string{"A", vh10Guard(func() error { _, err := f.Readlink(); return err })} }()
		ta := <-conn.held // A's request is out, A is inside send
		if got := next("A's request"); got != ta {
			t.Fatalf("C10 late: tags %d / %d", got, ta)
		}
		sc.SetWriteDeadline(time.Now().Add(10 * time.Second))
		send(ulog.Null, sc, tag(ta), &rreadlink{Target: "x"}) // read by B, delivered to A's done
		sc.SetWriteDeadline(time.Now().Add(10 * time.Second))
		send(ulog.Null, sc, tag(tb), &rfsync{})
		ob, oa := "hang", "hang"
		if r, ok := vh10Result(resB); ok { // B is back: A's reply is delivered, the token is free
			ob = r[1]
		}
		conn.release <- struct{}{} // A's Write returns
		if ob != "hang" {
			if r, ok := vh10Result(resA); ok {
				oa = r[1]
			}
		}
		out = append(out, oa, ob)
		trace = append(trace, fmt.Sprintf("AStart %d 2 1", b), fmt.Sprintf("ASendOk %d", b), fmt.Sprintf("AWaitToken %d", b), fmt.Sprintf("AStart %d 1 0", a),
			fmt.Sprintf("AFrame %d 1 true", b), fmt.Sprintf("ABody %d true", b), fmt.Sprintf("AWaitToken %d", b), fmt.Sprintf("AFrame %d 2 true", b),
			fmt.Sprintf("ABody %d true", b), fmt.Sprintf("AWaitDone %d", b), fmt.Sprintf("ASendOk %d", a), fmt.Sprintf("AWaitDone %d", a))
		if oa == "hang" || ob == "hang" {
			break
		}
	}
	o.Emit(map[string]interface{}{"kind": "trace", "sub": "late-waiter-token-free", "id": id, "n": len(out), "outcomes": out, "trace": trace})
}

// ---- (e) fid discipline against a scripted server ----

type vh10FidEv struct {
	K   string `json:"k"` // ok refused lost clunk-ok clunk-fail
	Fid uint64 `json:"fid"`
}

func vh10Fids(t *testing.T, o *vhOut, id int, script []string) {
	cc, sc := net.Pipe()
	defer cc.Close()
	defer sc.Close()
	type req struct {
		typ  msgType
		tg   uint16
		body []byte
	}
	reqs := make(chan req, 16)
	go func() {
		for {
			typ, tg, body, err := vhReadFrame(sc, 30*time.Second)
			if err != nil {
				return
			}
			switch msgType(typ) {
			case msgTversion:
				send(ulog.Null, sc, tag(tg), &rversion{MSize: binary.LittleEndian.Uint32(body), Version: "9P2000.L.Google.7"})
			case msgTattach:
				send(ulog.Null, sc, tag(tg), &rattach{})
			default:
				reqs <- req{msgType(typ), tg, body}
			}
		}
	}()
	cl, err := NewClient(cc)
	if err != nil {
		t.Fatalf("C10 fids NewClient: %v", err)
	}
	root, err := cl.Attach("")
	if err != nil {
		t.Fatalf("C10 fids attach: %v", err)
	}
	evs := []vh10FidEv{{K: "ok", Fid: uint64(root.(*clientFile).fid)}}
	var files []File
	for _, step := range script {
		done := make(chan struct{})
		var got File
		switch step {
		case "ok", "refused", "lost", "lost-wrong":
			go func() { _, got, _ = root.Walk([]string{"a"}); close(done) }()
			var r req
			select {
			case r = <-reqs:
			case <-time.After(5 * time.Second):
				t.Fatalf("C10 fids: no Twalk")
			}
			nf := uint64(binary.LittleEndian.Uint32(r.body[4:8]))
			sc.SetWriteDeadline(time.Now().Add(3 * time.Second))
			switch step {
			case "ok":
				send(ulog.Null, sc, tag(r.tg), &rwalk{QIDs: []QID{{}}})
			case "refused":
				send(ulog.Null, sc, tag(r.tg), &rlerror{Error: 2})
			case "lost": // the server carried the walk out, but the client is sent a frame it cannot accept
				send(ulog.Null, sc, tag(64000), &rfsync{})
			case "lost-wrong": // ... or a reply of the wrong type under the walk's own tag (ErrBadResponse, not a ConnError)
				send(ulog.Null, sc, tag(r.tg), &rfsync{})
			}
			<-done
			evs = append(evs, vh10FidEv{K: step, Fid: nf})
			if got != nil {
				files = append(files, got)
			}
		case "clunk-ok", "clunk-fail":
			if len(files) == 0 {
				continue
			}
			f := files[len(files)-1]
			files = files[:len(files)-1]
			go func() { f.Close(); close(done) }()
			r := <-reqs
			sc.SetWriteDeadline(time.Now().Add(3 * time.Second))
			if step == "clunk-ok" {
				send(ulog.Null, sc, tag(r.tg), &rclunk{})
			} else {
				send(ulog.Null, sc, tag(r.tg), &rlerror{Error: 5})
			}
			<-done
			evs = append(evs, vh10FidEv{K: step, Fid: uint64(f.(*clientFile).fid)})
		}
	}
	o.Emit(map[string]interface{}{"kind": "fids", "id": id, "events": evs})
}

// ---- (f) a frame the receiver rejects with a connection error, then later calls ----

// vh10Queue buffers the server -> client direction like a socket: the server never blocks writing.
type vh10Queue struct {
	mu   sync.Mutex
	cond *sync.Cond
	b    []byte
	eof  bool
}

func (q *vh10Queue) Write(p []byte) (int, error) {
	q.mu.Lock()
	q.b = append(q.b, p...)
	q.cond.Broadcast()
	q.mu.Unlock()
	return len(p), nil
}

func (q *vh10Queue) Read(p []byte) (int, error) {
	q.mu.Lock()
	defer q.mu.Unlock()
	for len(q.b) == 0 && !q.eof {
		q.cond.Wait()
	}
	if len(q.b) == 0 {
		return 0, io.EOF
	}
	n := copy(p, q.b)
	q.b = q.b[n:]
	return n, nil
}

type vh10QConn struct {
	net.Conn
	q *vh10Queue
}

func (c *vh10QConn) Read(p []byte) (int, error) { return c.q.Read(p) }
func (c *vh10QConn) Close() error {
	c.q.mu.Lock()
	c.q.eof = true
	c.q.cond.Broadcast()
	c.q.mu.Unlock()
	return c.Conn.Close()
}

// vh10Desync: call A is answered with a complete frame one byte longer than msize whose payload looks like
// frames; B and C are ordinary calls that the server answers correctly.  The receiver remembers its connection
// error (commit 91df8ef, fixes/C10-recv-error-not-remembered.md): B and C fail at once, without being sent.
// Before that commit B read the middle of A's frame and C hung.
func vh10Desync(t *testing.T, o *vhOut, id int) {
	cc, sc := net.Pipe()
	defer sc.Close()
	q := &vh10Queue{}
	q.cond = sync.NewCond(&q.mu)
	reqs := make(chan uint16, 16)
	go func() {
		for {
			typ, tg, body, err := vhReadFrame(sc, 30*time.Second)
			if err != nil {
				return
			}
			switch msgType(typ) {
			case msgTversion:
				send(ulog.Null, q, tag(tg), &rversion{MSize: binary.LittleEndian.Uint32(body), Version: "9P2000.L.Google.7"})
			case msgTattach:
				send(ulog.Null, q, tag(tg), &rattach{})
			default:
				reqs <- tg
			}
		}
	}()
	conn := &vh10QConn{Conn: cc, q: q}
	defer conn.Close()
	cl, err := NewClient(conn)
	if err != nil {
		t.Fatalf("C10 desync NewClient: %v", err)
	}
	f, err := cl.Attach("")
	if err != nil {
		t.Fatalf("C10 desync attach: %v", err)
	}
	msize := cl.messageSize
	call := func() chan string {
		ch := make(chan string, 1)
		go func() { ch <- vh10Guard(f.FSync) }()
		return ch
	}
	outcome := func(ch chan string) string {
		select {
		case s := <-ch:
			return s
		case <-time.After(4 * time.Second):
			return "hang"
		}
	}
	a := call()
	ta := <-reqs
	frame := make([]byte, msize+1)
	binary.LittleEndian.PutUint32(frame, msize+1)
	frame[4] = byte(msgRread)
	binary.LittleEndian.PutUint16(frame[5:], ta)
	inner := frame[7:]
	binary.LittleEndian.PutUint32(inner, msize-100)
	inner[4] = byte(msgRfsync)
	binary.LittleEndian.PutUint16(inner[5:], 0x7777)
	left := inner[msize-100:]
	binary.LittleEndian.PutUint32(left, 5000)
	left[4] = byte(msgRfsync)
	binary.LittleEndian.PutUint16(left[5:], 0x7778)
	q.Write(frame)
	out := []string{outcome(a)}
	for k := 0; k < 2; k++ {
		ch := call()
		select {
		case tg := <-reqs:
			send(ulog.Null, q, tag(tg), &rfsync{})
			out = append(out, outcome(ch))
		case s := <-ch:
			out = append(out, s)
		case <-time.After(4 * time.Second):
			out = append(out, "hang")
		}
	}
	o.Emit(map[string]interface{}{"kind": "trace", "sub": "later-calls-after-rejected-frame", "id": id, "n": 3, "outcomes": out,
		"trace": []string{"AStart 0 1 0", "ASendOk 0", "AWaitToken 0", "ARecvErr 0", "AWaitDone 0", "AStart 1 1 0", "ASendFail 1", "AStart 2 1 2", "ASendFail 2"}})
}

func vh10Perms(k int) [][]int {
	if k == 0 {
		return [][]int{{}}
	}
	var out [][]int
	for _, p := range vh10Perms(k - 1) {
		for i := 0; i <= len(p); i++ {
			q := append(append(append([]int(nil), p[:i]...), k-1), p[i:]...)
			out = append(out, q)
		}
	}
	return out
}

func TestVerifC10(t *testing.T) {
	o := vhOpen(t)
	defer o.Close()
	// clientFile has a finalizer that sends Tclunk: no collection while scripted servers count requests
	defer debug.SetGCPercent(debug.SetGCPercent(-1))
	r := vhRand()
	// (a) allocator: every disciplined sequence
	depth := 6
	if vhThorough() {
		depth = 8
	}
	vh10PoolEnum(o, 1, 4, depth)
	vh10PoolEnum(o, 65532, uint64(noTag), depth-1)
	vh10PoolEnum(o, uint64(noFID)-2, uint64(noFID), depth-2)
	vh10PoolEnum(o, 1<<64-3, 1<<64-1, depth-2)
	vh10PoolEnum(o, 5, 5, 3)

	id := 0
	calls := func(a, b int) []vh10Call {
		var c []vh10Call
		for i := a; i < b; i++ {
			c = append(c, vh10Call{I: i})
		}
		return c
	}
	replies := func(p []int) []vh10Item {
		var s []vh10Item
		for _, i := range p {
			s = append(s, vh10Item{K: "reply", I: i})
		}
		return s
	}
	// the same with every second call answered by an Rlerror (its own reply as well)
	mixed := func(p []int) []vh10Item {
		var s []vh10Item
		for _, i := range p {
			if i%2 == 1 {
				s = append(s, vh10Item{K: "rlerror", I: i})
			} else {
				s = append(s, vh10Item{K: "reply", I: i})
			}
		}
		return s
	}
	// (b1) every reply order for batches of up to 4 (5 thorough) calls in flight, then one later call
	maxk := 4
	if vhThorough() {
		maxk = 5
	}
	for k := 1; k <= maxk; k++ {
		for _, p := range vh10Perms(k) {
			vh10Session(t, o, id, k+1, []vh10Phase{{Calls: calls(0, k), Script: replies(p)}, {Calls: calls(k, k+1), Script: replies([]int{k})}}, "perm")
			id++
			if k >= 2 {
				vh10Session(t, o, id, k+1, []vh10Phase{{Calls: calls(0, k), Script: mixed(p)}, {Calls: calls(k, k+1), Script: mixed([]int{k})}}, "perm-mixed")
				id++
			}
		}
	}
	// (b2) a fault after j of k replies, at every j, for every fault kind; then a later call
	for _, kind := range []string{"unknown", "wrong", "garbage", "close", "short"} {
		for k := 1; k <= 3; k++ {
			for j := 0; j <= k; j++ {
				if kind != "close" && j == k {
					continue // no call is pending: nobody would read the frame (a socket would buffer it; see vh10Desync)
				}
				p := r.Perm(k)
				s := replies(p[:j])
				target := 0
				if j < k {
					target = p[j]
				}
				s = append(s, vh10Item{K: kind, I: target})
				later := vh10Phase{Calls: calls(k, k+1), Script: replies([]int{k})}
				if vh10Fatal(kind) {
					later = vh10Phase{Calls: []vh10Call{{I: k, Fail: false}}, Script: []vh10Item{{K: "close"}}} // the connection is dead: model it as closed
				}
				vh10Session(t, o, id, k+1, []vh10Phase{{Calls: calls(0, k), Script: s}, later}, "fault-"+kind)
				id++
			}
		}
	}
	// (b3) many goroutines, random reply order
	nbig := 3
	if vhThorough() {
		nbig = 20
	}
	for i := 0; i < nbig; i++ {
		k := []int{16, 33, 64}[i%3]
		vh10Session(t, o, id, k, []vh10Phase{{Calls: calls(0, k), Script: replies(r.Perm(k))}}, "random")
		id++
	}
	// (c) a send that fails, at every point of a small session, followed by a non-fatal and by no fault;
	// later calls on the intact connection must succeed
	reps := 3
	if vhThorough() {
		reps = 10
	}
	for rep := 0; rep < reps; rep++ {
		for pos := 0; pos < 3; pos++ {
			var ph []vh10Phase
			idx := 0
			for q := 0; q < 3; q++ {
				if q == pos {
					ph = append(ph, vh10Phase{Calls: []vh10Call{{I: idx, Fail: true}}})
					idx++
				}
				ph = append(ph, vh10Phase{Calls: calls(idx, idx+1), Script: replies([]int{idx})})
				idx++
			}
			ph = append(ph, vh10Phase{Calls: calls(idx, idx+1), Script: []vh10Item{{K: "unknown"}}})
			idx++
			for q := 0; q < 3; q++ {
				ph = append(ph, vh10Phase{Calls: calls(idx, idx+1), Script: replies([]int{idx})})
				idx++
			}
			vh10Session(t, o, id, idx, ph, "sendfail")
			id++
		}
		// a call is in flight while another call's send fails; then a frame with an unknown tag; the
		// connection stays usable: every later call that is answered must return its reply
		ph := []vh10Phase{{Calls: []vh10Call{{I: 0}, {I: 1, Fail: true}}, Script: []vh10Item{{K: "unknown"}}}}
		for q := 2; q < 10; q++ {
			ph = append(ph, vh10Phase{Calls: calls(q, q+1), Script: replies([]int{q})})
		}
		vh10Session(t, o, id, 10, ph, "sendfail-inflight")
		id++
		// the same with a connection error instead: nothing may hang
		vh10Session(t, o, id, 3, []vh10Phase{{Calls: []vh10Call{{I: 0}, {I: 1, Fail: true}}, Script: []vh10Item{{K: "close"}}},
			{Calls: calls(2, 3), Script: []vh10Item{{K: "close"}}}}, "sendfail-close")
		id++
		// (d) forced schedules
		vh10Race(t, o, id)
		id++
		vh10Early(t, o, id)
		id++
		vh10Wake(t, o, id, 12)
		id++
		vh10Late(t, o, id, 8)
		id++
	}
	// (f) later calls after a frame the receiver rejected (commit 91df8ef)
	vh10Desync(t, o, id)
	id++
	// (e) fid discipline: fixed corpus, then random scripts
	for _, sc := range [][]string{
		{"lost", "ok", "ok"}, {"ok", "lost", "clunk-ok", "ok", "ok"}, {"refused", "ok", "lost", "refused", "ok"},
		{"ok", "ok", "clunk-fail", "ok", "clunk-ok", "lost", "ok", "ok"}, {"lost-wrong", "ok", "ok"}, {"ok", "lost-wrong", "clunk-ok", "ok", "lost", "ok"}} {
		vh10Fids(t, o, id, sc)
		id++
	}
	nf := 6
	if vhThorough() {
		nf = 60
	}
	for i := 0; i < nf; i++ {
		var sc []string
		for k := 3 + r.Intn(8); k > 0; k-- {
			sc = append(sc, []string{"ok", "ok", "refused", "lost", "clunk-ok", "clunk-fail", "lost-wrong"}[r.Intn(7)])
		}
		vh10Fids(t, o, id, sc)
		id++
	}
}
