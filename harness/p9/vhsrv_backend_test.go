package p9

// Scripted recording backend and lock-step peer shared by the C04/C09/C15
// harnesses.  Every File/Attacher method consults the script for its answer,
// records the call with its arguments and the answer it gave (the oracle tape
// the Coq model replays), numbers Files in creation order, counts Close per
// handle and notes any use after Close.

import (
	"encoding/hex"
	"errors"
	"fmt"
	"io"
	"math/rand"
	"net"
	"os"
	"sort"
	"sync"
	"syscall"
	"time"

	"github.com/hugelgupf/p9/linux"
	"github.com/u-root/uio/ulog"
)

// method numbers = meth_num in coq/Server/State.v
const (
	vhsrvMAttach = iota
	vhsrvMWalk
	vhsrvMWalkGetAttr
	vhsrvMStatFS
	vhsrvMGetAttr
	vhsrvMSetAttr
	vhsrvMClose
	vhsrvMOpen
	vhsrvMReadAt
	vhsrvMWriteAt
	vhsrvMSetXattr
	vhsrvMGetXattr
	vhsrvMListXattrs
	vhsrvMRemoveXattr
	vhsrvMFSync
	vhsrvMLock
	vhsrvMCreate
	vhsrvMMkdir
	vhsrvMSymlink
	vhsrvMLink
	vhsrvMMknod
	vhsrvMRenameAt
	vhsrvMUnlinkAt
	vhsrvMReaddir
	vhsrvMReadlink
	vhsrvMRenamed
)

// vhsrvLeaf is one leaf of an error's wrap/join tree: kind L(linux.Errno) S(syscall.Errno) NE EX PM IV EOF OP.
type vhsrvLeaf struct {
	K string `json:"k"`
	N uint64 `json:"n"`
}

type vhsrvAns struct {
	Panic bool        `json:"p"`
	Err   []vhsrvLeaf `json:"e"`
	Qids  []uint64    `json:"q"`
	Valid bool        `json:"valid"`
	Mode  uint32      `json:"mode"`
	N     uint64      `json:"n"`
	Strs  []string    `json:"strs"` // hex
}

type vhsrvCall struct {
	M     int      `json:"m"`
	H     uint64   `json:"h"`
	Names []string `json:"names"` // hex; the path-component arguments
	H2    int64    `json:"h2"`    // -1: none
	A     []uint64 `json:"a"`
	S     []string `json:"s"` // hex
	Ans   vhsrvAns `json:"ans"`
}

func vhsrvHex(s string) string { return hex.EncodeToString([]byte(s)) }
func vhsrvHexs(ss []string) []string {
	out := make([]string, len(ss))
	for i, s := range ss {
		out[i] = vhsrvHex(s)
	}
	return out
}

func (l vhsrvLeaf) err() error {
	switch l.K {
	case "L":
		return linux.Errno(l.N)
	case "S":
		return syscall.Errno(l.N)
	case "NE":
		return os.ErrNotExist
	case "EX":
		return os.ErrExist
	case "PM":
		return os.ErrPermission
	case "IV":
		return os.ErrInvalid
	case "EOF":
		return io.EOF
	}
	return errors.New("opaque backend failure")
}

func vhsrvBuildErr(ls []vhsrvLeaf, wrap bool) error {
	if len(ls) == 0 {
		return nil
	}
	if len(ls) == 1 {
		if wrap {
			return fmt.Errorf("backend: %w", ls[0].err())
		}
		return ls[0].err()
	}
	var es []error
	for i, l := range ls {
		if wrap && i%2 == 0 {
			es = append(es, fmt.Errorf("part %d: %w", i, l.err()))
		} else {
			es = append(es, l.err())
		}
	}
	return errors.Join(es...)
}

var vhsrvErrAlphabet = [][]vhsrvLeaf{
	{{"L", 2}}, {{"L", 5}}, {{"L", 13}}, {{"L", 22}}, {{"L", 61}}, {{"L", 95}}, {{"S", 1}}, {{"S", 39}}, {{"S", 2}}, {{"S", 28}},
	{{"NE", 0}}, {{"EX", 0}}, {{"PM", 0}}, {{"IV", 0}}, {{"OP", 0}}, {{"EOF", 0}}, {{"L", 38}},
	{{"OP", 0}, {"L", 5}}, {{"OP", 0}, {"S", 13}}, {{"NE", 0}, {"OP", 0}}, {{"S", 17}, {"L", 1}}, {{"L", 0}}, {{"S", 0}, {"NE", 0}},
	{{"EOF", 0}, {"L", 28}}, {{"OP", 0}, {"PM", 0}, {"EX", 0}},
}

// vhsrvBackend is the Attacher; all state is guarded by mu (the harness is lock-step, the lock is for safety only).
type vhsrvBackend struct {
	mu         sync.Mutex
	rng        *rand.Rand
	next       uint64
	calls      []vhsrvCall // calls of the current request
	closed     map[uint64]int
	useAfter   []string
	wgaEnosys  bool    // WalkGetAttr answers ENOSYS (DefaultWalkGetAttr backends)
	errProb    float64 // probability of a random error per call
	weirdProb  float64 // probability of an odd but legal-typed success (0 or 2 QIDs, invalid mode mask)
	inTail     bool    // after a successful RenameAt of the current request
	tailPanic  bool    // a panic was injected into the order-dependent tail
	faultArmed bool
	faultMeth  int // > 0: first call of method faultMeth-1
	faultCall  int
	faultAns   vhsrvAns
	faultHit   bool
	// gate (overlap scenarios): the first call of method gateMeth-1 announces itself on gateEntered and
	// then waits for gateRelease before it returns
	gateMeth    int
	gateHit     bool
	gateEntered chan struct{}
	gateRelease chan struct{}
}

func vhsrvNewBackend(r *rand.Rand) *vhsrvBackend {
	return &vhsrvBackend{rng: r, next: 1, closed: map[uint64]int{}, errProb: 0.04, weirdProb: 0.03}
}

type vhsrvFile struct {
	b    *vhsrvBackend
	id   uint64
	mode FileMode
}

func vhsrvModeFor(name string) FileMode {
	if name == "" {
		return ModeRegular
	}
	switch name[0] {
	case 'd':
		return ModeDirectory
	case 's':
		return ModeSymlink
	case 'p':
		return ModeNamedPipe
	case 'k':
		return ModeSocket
	case 'b':
		return ModeBlockDevice
	case 'c':
		return ModeCharacterDevice
	}
	return ModeRegular
}

// beginRequest resets the per-request recording.
func (b *vhsrvBackend) beginRequest() {
	b.mu.Lock()
	b.calls = nil
	b.inTail = false
	b.tailPanic = false
	b.faultHit = false
	b.mu.Unlock()
}

func (b *vhsrvBackend) takeCalls() []vhsrvCall {
	b.mu.Lock()
	defer b.mu.Unlock()
	c := b.calls
	b.calls = nil
	return c
}

// consult records the call, decides the answer (forced fault, else def adjusted by random errors) and returns it.
// A panic answer panics after recording.
func (b *vhsrvBackend) consult(m int, h uint64, names []string, h2 int64, a []uint64, s []string, def vhsrvAns) (vhsrvAns, error) {
	b.mu.Lock()
	if h != 0 && b.closed[h] > 0 {
		b.useAfter = append(b.useAfter, fmt.Sprintf("method %d on handle %d after Close", m, h))
	}
	if h2 > 0 && b.closed[uint64(h2)] > 0 {
		b.useAfter = append(b.useAfter, fmt.Sprintf("method %d with closed handle %d as argument", m, h2))
	}
	ans := def
	idx := len(b.calls)
	forced := false
	if b.faultArmed && !b.faultHit && ((b.faultMeth == 0 && idx == b.faultCall) || (b.faultMeth > 0 && m == b.faultMeth-1)) {
		ans = b.faultAns
		b.faultHit = true
		forced = true
	}
	if !forced && !b.inTail && b.errProb > 0 && b.rng.Float64() < b.errProb {
		e := vhsrvErrAlphabet[b.rng.Intn(len(vhsrvErrAlphabet))]
		ans = vhsrvAns{Err: e, N: def.N}
		if m != vhsrvMReadAt && m != vhsrvMReaddir {
			ans.N = 0
		}
	}
	if m == vhsrvMRenamed && len(ans.Err) > 0 {
		ans.Err = nil // Renamed has no result
	}
	if b.inTail && ans.Panic {
		b.tailPanic = true
	}
	if m == vhsrvMClose {
		b.closed[h]++
	}
	if names == nil {
		names = []string{}
	}
	if a == nil {
		a = []uint64{}
	}
	if s == nil {
		s = []string{}
	}
	if ans.Qids == nil {
		ans.Qids = []uint64{}
	}
	if ans.Err == nil {
		ans.Err = []vhsrvLeaf{}
	}
	if ans.Strs == nil {
		ans.Strs = []string{}
	}
	b.calls = append(b.calls, vhsrvCall{M: m, H: h, Names: vhsrvHexs(names), H2: h2, A: a, S: vhsrvHexs(s), Ans: ans})
	if m == vhsrvMRenameAt && !ans.Panic && len(ans.Err) == 0 {
		b.inTail = true
	}
	wrap := b.rng.Intn(2) == 0
	var gateWait chan struct{}
	if b.gateMeth > 0 && m == b.gateMeth-1 && !b.gateHit {
		b.gateHit = true
		gateWait = b.gateRelease
		close(b.gateEntered)
	}
	b.mu.Unlock()
	if gateWait != nil {
		<-gateWait
	}
	if ans.Panic {
		panic("vhsrv: injected backend panic")
	}
	return ans, vhsrvBuildErr(ans.Err, wrap)
}

func (b *vhsrvBackend) newFile(mode FileMode) *vhsrvFile {
	b.mu.Lock()
	defer b.mu.Unlock()
	f := &vhsrvFile{b: b, id: b.next, mode: mode}
	b.next++
	return f
}

func (b *vhsrvBackend) qid() uint64 { return uint64(b.rng.Intn(1000)) }

// Attach implements Attacher.
func (b *vhsrvBackend) Attach() (File, error) {
	_, err := b.consult(vhsrvMAttach, 0, nil, -1, nil, nil, vhsrvAns{})
	if err != nil {
		return nil, err
	}
	return b.newFile(ModeDirectory), nil
}

func vhsrvQIDs(ps []uint64) []QID {
	var out []QID
	for _, p := range ps {
		out = append(out, QID{Path: p})
	}
	return out
}

func (f *vhsrvFile) walkDefault(names []string, ga bool) (vhsrvAns, FileMode) {
	b := f.b
	mode := f.mode
	def := vhsrvAns{Valid: true}
	if len(names) > 0 {
		last := names[len(names)-1]
		mode = vhsrvModeFor(last)
		if len(last) > 0 && last[0] == 'n' {
			return vhsrvAns{Err: []vhsrvLeaf{{"L", 2}}}, mode
		}
		for range names {
			def.Qids = append(def.Qids, b.qid())
		}
		if b.rng.Float64() < b.weirdProb {
			if b.rng.Intn(2) == 0 {
				def.Qids = nil
			} else {
				def.Qids = append(def.Qids, b.qid())
			}
		}
	} else if b.rng.Float64() < b.weirdProb {
		def.Qids = []uint64{b.qid()}
	}
	if ga {
		def.Mode = uint32(mode) | 0o644
		if b.rng.Float64() < b.weirdProb {
			def.Valid = false
		}
	} else {
		def.Valid = false
	}
	return def, mode
}

func (f *vhsrvFile) Walk(names []string) ([]QID, File, error) {
	def, mode := f.walkDefault(names, false)
	ans, err := f.b.consult(vhsrvMWalk, f.id, names, -1, nil, nil, def)
	if err != nil {
		return nil, nil, err
	}
	return vhsrvQIDs(ans.Qids), f.b.newFile(mode), nil
}

func (f *vhsrvFile) WalkGetAttr(names []string) ([]QID, File, AttrMask, Attr, error) {
	def, mode := f.walkDefault(names, true)
	if f.b.wgaEnosys {
		def = vhsrvAns{Err: []vhsrvLeaf{{"L", 38}}}
	}
	ans, err := f.b.consult(vhsrvMWalkGetAttr, f.id, names, -1, nil, nil, def)
	if err != nil {
		return nil, nil, AttrMask{}, Attr{}, err
	}
	nf := f.b.newFile(FileMode(ans.Mode) & FileModeMask)
	if len(names) == 0 {
		nf.mode = mode
	}
	return vhsrvQIDs(ans.Qids), nf, AttrMask{Mode: ans.Valid}, Attr{Mode: FileMode(ans.Mode)}, nil
}

func (f *vhsrvFile) StatFS() (FSStat, error) {
	_, err := f.b.consult(vhsrvMStatFS, f.id, nil, -1, nil, nil, vhsrvAns{})
	return FSStat{}, err
}

func vhsrvMaskBits(m AttrMask) uint64 {
	var b buffer
	m.encode(&b)
	rb := buffer{data: b.data}
	return rb.Read64()
}

func vhsrvAttrMask(n uint64) AttrMask {
	var b buffer
	b.Write64(n)
	var m AttrMask
	rb := buffer{data: b.data}
	m.decode(&rb)
	return m
}

func vhsrvSetAttrMask(n uint32) SetAttrMask {
	var b buffer
	b.Write32(n)
	var m SetAttrMask
	rb := buffer{data: b.data}
	m.decode(&rb)
	return m
}

func (f *vhsrvFile) GetAttr(req AttrMask) (QID, AttrMask, Attr, error) {
	def := vhsrvAns{Qids: []uint64{f.b.qid()}, Valid: true, Mode: uint32(f.mode) | 0o600}
	if f.b.rng.Float64() < f.b.weirdProb {
		def.Valid = false
	}
	ans, err := f.b.consult(vhsrvMGetAttr, f.id, nil, -1, []uint64{vhsrvMaskBits(req)}, nil, def)
	if err != nil {
		return QID{}, AttrMask{}, Attr{}, err
	}
	var q QID
	if len(ans.Qids) > 0 {
		q.Path = ans.Qids[0]
	}
	return q, AttrMask{Mode: ans.Valid}, Attr{Mode: FileMode(ans.Mode)}, nil
}

func (f *vhsrvFile) SetAttr(valid SetAttrMask, attr SetAttr) error {
	_, err := f.b.consult(vhsrvMSetAttr, f.id, nil, -1, []uint64{uint64(valid.bitmask())}, nil, vhsrvAns{})
	return err
}

func (f *vhsrvFile) Close() error {
	_, err := f.b.consult(vhsrvMClose, f.id, nil, -1, nil, nil, vhsrvAns{})
	return err
}

func (f *vhsrvFile) Open(mode OpenFlags) (QID, uint32, error) {
	ans, err := f.b.consult(vhsrvMOpen, f.id, nil, -1, []uint64{uint64(mode)}, nil, vhsrvAns{Qids: []uint64{f.b.qid()}, N: uint64(f.b.rng.Intn(3)) * 4096})
	if err != nil {
		return QID{}, 0, err
	}
	return QID{Path: ans.Qids[0]}, uint32(ans.N), nil
}

func (f *vhsrvFile) ReadAt(p []byte, offset int64) (int, error) {
	n := 0
	if len(p) > 0 {
		n = f.b.rng.Intn(len(p) + 1)
		if n > 64 {
			n = 64
		}
	}
	def := vhsrvAns{N: uint64(n)}
	if f.b.rng.Intn(6) == 0 {
		def.Err = []vhsrvLeaf{{"EOF", 0}}
	}
	ans, err := f.b.consult(vhsrvMReadAt, f.id, nil, -1, []uint64{uint64(len(p)), uint64(offset)}, nil, def)
	return int(ans.N), err
}

func (f *vhsrvFile) WriteAt(p []byte, offset int64) (int, error) {
	ans, err := f.b.consult(vhsrvMWriteAt, f.id, nil, -1, []uint64{uint64(len(p)), uint64(offset)}, nil, vhsrvAns{N: uint64(len(p))})
	return int(ans.N), err
}

func (f *vhsrvFile) SetXattr(attr string, data []byte, flags XattrFlags) error {
	_, err := f.b.consult(vhsrvMSetXattr, f.id, nil, -1, []uint64{uint64(len(data)), uint64(flags)}, []string{attr}, vhsrvAns{})
	return err
}

func (f *vhsrvFile) GetXattr(attr string) ([]byte, error) {
	ans, err := f.b.consult(vhsrvMGetXattr, f.id, nil, -1, nil, []string{attr}, vhsrvAns{N: uint64(f.b.rng.Intn(24))})
	if err != nil {
		return nil, err
	}
	return make([]byte, ans.N), nil
}

func (f *vhsrvFile) ListXattrs() ([]string, error) {
	var l []string
	for i := f.b.rng.Intn(4); i > 0; i-- {
		l = append(l, vhsrvHex("user.x"[:1+f.b.rng.Intn(6)]))
	}
	ans, err := f.b.consult(vhsrvMListXattrs, f.id, nil, -1, nil, nil, vhsrvAns{Strs: l})
	if err != nil {
		return nil, err
	}
	var out []string
	for _, h := range ans.Strs {
		s, _ := hex.DecodeString(h)
		out = append(out, string(s))
	}
	return out, nil
}

func (f *vhsrvFile) RemoveXattr(attr string) error {
	_, err := f.b.consult(vhsrvMRemoveXattr, f.id, nil, -1, nil, []string{attr}, vhsrvAns{})
	return err
}

func (f *vhsrvFile) FSync() error {
	_, err := f.b.consult(vhsrvMFSync, f.id, nil, -1, nil, nil, vhsrvAns{})
	return err
}

func (f *vhsrvFile) Lock(pid int, locktype LockType, flags LockFlags, start, length uint64, client string) (LockStatus, error) {
	ans, err := f.b.consult(vhsrvMLock, f.id, nil, -1, []uint64{uint64(pid), uint64(locktype), uint64(flags), start, length}, []string{client}, vhsrvAns{N: uint64(f.b.rng.Intn(4))})
	return LockStatus(ans.N), err
}

func (f *vhsrvFile) Create(name string, flags OpenFlags, permissions FileMode, uid UID, gid GID) (File, QID, uint32, error) {
	ans, err := f.b.consult(vhsrvMCreate, f.id, []string{name}, -1, []uint64{uint64(flags), uint64(permissions), uint64(uid), uint64(gid)}, nil,
		vhsrvAns{Qids: []uint64{f.b.qid()}, N: 8192})
	if err != nil {
		return nil, QID{}, 0, err
	}
	return f.b.newFile(ModeRegular), QID{Path: ans.Qids[0]}, uint32(ans.N), nil
}

func (f *vhsrvFile) Mkdir(name string, permissions FileMode, uid UID, gid GID) (QID, error) {
	ans, err := f.b.consult(vhsrvMMkdir, f.id, []string{name}, -1, []uint64{uint64(permissions), uint64(uid), uint64(gid)}, nil, vhsrvAns{Qids: []uint64{f.b.qid()}})
	if err != nil {
		return QID{}, err
	}
	return QID{Path: ans.Qids[0]}, nil
}

func (f *vhsrvFile) Symlink(oldName string, newName string, uid UID, gid GID) (QID, error) {
	ans, err := f.b.consult(vhsrvMSymlink, f.id, []string{newName}, -1, []uint64{uint64(uid), uint64(gid)}, []string{oldName}, vhsrvAns{Qids: []uint64{f.b.qid()}})
	if err != nil {
		return QID{}, err
	}
	return QID{Path: ans.Qids[0]}, nil
}

func vhsrvID(x File) int64 {
	if g, ok := x.(*vhsrvFile); ok && g != nil {
		return int64(g.id)
	}
	return -1
}

func (f *vhsrvFile) Link(target File, newName string) error {
	_, err := f.b.consult(vhsrvMLink, f.id, []string{newName}, vhsrvID(target), nil, nil, vhsrvAns{})
	return err
}

func (f *vhsrvFile) Mknod(name string, mode FileMode, major uint32, minor uint32, uid UID, gid GID) (QID, error) {
	ans, err := f.b.consult(vhsrvMMknod, f.id, []string{name}, -1, []uint64{uint64(mode), uint64(major), uint64(minor), uint64(uid), uint64(gid)}, nil, vhsrvAns{Qids: []uint64{f.b.qid()}})
	if err != nil {
		return QID{}, err
	}
	return QID{Path: ans.Qids[0]}, nil
}

func (f *vhsrvFile) Rename(newDir File, newName string) error { panic("vhsrv: File.Rename is never called by the server") }

func (f *vhsrvFile) RenameAt(oldName string, newDir File, newName string) error {
	_, err := f.b.consult(vhsrvMRenameAt, f.id, []string{oldName, newName}, vhsrvID(newDir), nil, nil, vhsrvAns{})
	return err
}

func (f *vhsrvFile) UnlinkAt(name string, flags uint32) error {
	_, err := f.b.consult(vhsrvMUnlinkAt, f.id, []string{name}, -1, []uint64{uint64(flags)}, nil, vhsrvAns{})
	return err
}

func (f *vhsrvFile) Readdir(offset uint64, count uint32) (Dirents, error) {
	def := vhsrvAns{N: uint64(f.b.rng.Intn(3))}
	if f.b.rng.Intn(5) == 0 {
		def.Err = []vhsrvLeaf{{"EOF", 0}}
	}
	ans, err := f.b.consult(vhsrvMReaddir, f.id, nil, -1, []uint64{offset, uint64(count)}, nil, def)
	var ds Dirents
	for i := uint64(0); i < ans.N; i++ {
		ds = append(ds, Dirent{QID: QID{Path: 100 + i}, Offset: offset + i + 1, Name: fmt.Sprintf("e%d", i)})
	}
	return ds, err
}

func (f *vhsrvFile) Readlink() (string, error) {
	ans, err := f.b.consult(vhsrvMReadlink, f.id, nil, -1, nil, nil, vhsrvAns{Strs: []string{vhsrvHex("../tgt")}})
	if err != nil || len(ans.Strs) == 0 {
		return "", err
	}
	s, _ := hex.DecodeString(ans.Strs[0])
	return string(s), nil
}

func (f *vhsrvFile) Renamed(newDir File, newName string) {
	f.b.consult(vhsrvMRenamed, f.id, []string{newName}, vhsrvID(newDir), nil, nil, vhsrvAns{})
}

// ---------------------------------------------------------------------------
// lock-step peer

// vhsrvReq is one request: T names the constructor of tmsg in coq/Server/Msg.v, N its numeric and S its
// string arguments (hex) in constructor order, U the uid of the Tu* variants.
type vhsrvReq struct {
	C int      `json:"c"`
	T string   `json:"t"`
	N []uint64 `json:"n"`
	S []string `json:"s"`
	U *uint64  `json:"u"`
	// fixed histories only: force this answer at backend call index FaultCall of this request
	FaultAns  *vhsrvAns `json:"-"`
	FaultCall int       `json:"-"`
	FaultMeth int       `json:"-"` // when > 0: force the answer at the first call of method FaultMeth-1 instead
}

type vhsrvStep struct {
	Req     vhsrvReq    `json:"req"`
	RT      int         `json:"rt"`
	Errno   uint64      `json:"errno"`
	Vals    []uint64    `json:"vals"`
	Str     string      `json:"str"`
	Calls   []vhsrvCall `json:"calls"`
	Fids    []uint64    `json:"fids"`
	Reduced bool        `json:"reduced"` // a panic hit the map-order dependent part of a rename: only reply, prefix and count compare
}

type vhsrvConn struct {
	c    net.Conn
	cs   *connState
	done chan struct{}
	tag  uint16
}

type vhsrvWorld struct {
	b       *vhsrvBackend
	srv     *Server
	conns   []*vhsrvConn
	timeout time.Duration // per request; 0 = 20 s
}

func vhsrvNewWorld(r *rand.Rand, nconn int) *vhsrvWorld {
	b := vhsrvNewBackend(r)
	w := &vhsrvWorld{b: b, srv: NewServer(b)}
	for i := 0; i < nconn; i++ {
		w.conns = append(w.conns, vhsrvServe(w.srv))
	}
	return w
}

// vhsrvServe is Server.Handle with the connState kept for inspection of the fid table.
func vhsrvServe(s *Server) *vhsrvConn {
	cc, sc := net.Pipe()
	cs := &connState{server: s, t: sc, r: sc, fids: make(map[fid]*fidRef), tags: make(map[tag]chan struct{})}
	done := make(chan struct{})
	go func() {
		defer close(done)
		defer cs.stop()
		cs.handleRequests()
	}()
	return &vhsrvConn{c: cc, cs: cs, done: done}
}

func (w *vhsrvWorld) close() {
	for _, c := range w.conns {
		c.c.Close()
	}
	for _, c := range w.conns {
		select {
		case <-c.done:
		case <-time.After(5 * time.Second):
		}
	}
}

func vhsrvStr(h string) string {
	b, _ := hex.DecodeString(h)
	return string(b)
}

func (q vhsrvReq) n(i int) uint64 {
	if i < len(q.N) {
		return q.N[i]
	}
	return 0
}
func (q vhsrvReq) s(i int) string {
	if i < len(q.S) {
		return vhsrvStr(q.S[i])
	}
	return ""
}
func (q vhsrvReq) uid() UID {
	if q.U != nil {
		return UID(*q.U)
	}
	return NoUID
}

func (q vhsrvReq) msg() message {
	switch q.T {
	case "Tversion":
		return &tversion{MSize: uint32(q.n(0)), Version: q.s(0)}
	case "Tflush":
		return &tflush{OldTag: tag(q.n(0))}
	case "Tauth":
		return &tauth{Authenticationfid: fid(q.n(0)), UserName: q.s(0), AttachName: q.s(1), UID: UID(q.n(1))}
	case "Tattach":
		return &tattach{fid: fid(q.n(0)), Auth: tauth{Authenticationfid: fid(q.n(1)), UserName: q.s(0), AttachName: q.s(1), UID: UID(q.n(2))}}
	case "Twalk", "Twalkgetattr":
		var names []string
		for i := range q.S {
			names = append(names, q.s(i))
		}
		if q.T == "Twalk" {
			return &twalk{fid: fid(q.n(0)), newFID: fid(q.n(1)), Names: names}
		}
		return &twalkgetattr{fid: fid(q.n(0)), newFID: fid(q.n(1)), Names: names}
	case "Tclunk":
		return &tclunk{fid: fid(q.n(0))}
	case "Tremove":
		return &tremove{fid: fid(q.n(0))}
	case "Tlopen":
		return &tlopen{fid: fid(q.n(0)), Flags: OpenFlags(q.n(1))}
	case "Tlcreate":
		t := tlcreate{fid: fid(q.n(0)), Name: q.s(0), OpenFlags: OpenFlags(q.n(1)), Permissions: FileMode(q.n(2)), GID: GID(q.n(3))}
		if q.U != nil {
			return &tucreate{tlcreate: t, UID: q.uid()}
		}
		return &t
	case "Tsymlink":
		t := tsymlink{Directory: fid(q.n(0)), Name: q.s(0), Target: q.s(1), GID: GID(q.n(1))}
		if q.U != nil {
			return &tusymlink{tsymlink: t, UID: q.uid()}
		}
		return &t
	case "Tmknod":
		t := tmknod{Directory: fid(q.n(0)), Name: q.s(0), Mode: FileMode(q.n(1)), Major: uint32(q.n(2)), Minor: uint32(q.n(3)), GID: GID(q.n(4))}
		if q.U != nil {
			return &tumknod{tmknod: t, UID: q.uid()}
		}
		return &t
	case "Tmkdir":
		t := tmkdir{Directory: fid(q.n(0)), Name: q.s(0), Permissions: FileMode(q.n(1)), GID: GID(q.n(2))}
		if q.U != nil {
			return &tumkdir{tmkdir: t, UID: q.uid()}
		}
		return &t
	case "Tlink":
		return &tlink{Directory: fid(q.n(0)), Target: fid(q.n(1)), Name: q.s(0)}
	case "Trenameat":
		return &trenameat{OldDirectory: fid(q.n(0)), OldName: q.s(0), NewDirectory: fid(q.n(1)), NewName: q.s(1)}
	case "Tunlinkat":
		return &tunlinkat{Directory: fid(q.n(0)), Name: q.s(0), Flags: uint32(q.n(1))}
	case "Trename":
		return &trename{fid: fid(q.n(0)), Directory: fid(q.n(1)), Name: q.s(0)}
	case "Treadlink":
		return &treadlink{fid: fid(q.n(0))}
	case "Tread":
		return &tread{fid: fid(q.n(0)), Offset: q.n(1), Count: uint32(q.n(2))}
	case "Twrite":
		return &twrite{fid: fid(q.n(0)), Offset: q.n(1), Data: make([]byte, q.n(2))}
	case "Tgetattr":
		return &tgetattr{fid: fid(q.n(0)), AttrMask: vhsrvAttrMask(q.n(1))}
	case "Tsetattr":
		return &tsetattr{fid: fid(q.n(0)), Valid: vhsrvSetAttrMask(uint32(q.n(1)))}
	case "Txattrwalk":
		return &txattrwalk{fid: fid(q.n(0)), newFID: fid(q.n(1)), Name: q.s(0)}
	case "Txattrcreate":
		return &txattrcreate{fid: fid(q.n(0)), Name: q.s(0), AttrSize: q.n(1), Flags: uint32(q.n(2))}
	case "Treaddir":
		return &treaddir{Directory: fid(q.n(0)), Offset: q.n(1), Count: uint32(q.n(2))}
	case "Tfsync":
		return &tfsync{fid: fid(q.n(0))}
	case "Tstatfs":
		return &tstatfs{fid: fid(q.n(0))}
	case "Tlock":
		return &tlock{fid: fid(q.n(0)), Type: LockType(q.n(1)), Flags: LockFlags(q.n(2)), Start: q.n(3), Length: q.n(4), PID: int32(q.n(5)), Client: q.s(0)}
	case "Tother":
		return &rclunk{}
	}
	panic("vhsrv: unknown request kind " + q.T)
}

// vhsrvDo sends one request and waits for its reply (lock step); returns the observation.
func (w *vhsrvWorld) do(q vhsrvReq) (vhsrvStep, error) {
	cn := w.conns[q.C]
	w.b.beginRequest()
	cn.tag++
	if cn.tag == uint16(noTag) {
		cn.tag = 1
	}
	st := vhsrvStep{Req: q, Vals: []uint64{}}
	m := q.msg()
	errc := make(chan error, 1)
	go func() { errc <- send(ulog.Null, cn.c, tag(cn.tag), m) }()
	to := w.timeout
	if to == 0 {
		to = 20 * time.Second
	}
	cn.c.SetReadDeadline(time.Now().Add(to))
	tg, r, err := recv(ulog.Null, cn.c, 16<<20, msgDotLRegistry.get)
	if err != nil {
		return st, fmt.Errorf("recv: %v", err)
	}
	if serr := <-errc; serr != nil {
		return st, fmt.Errorf("send: %v", serr)
	}
	if uint16(tg) != cn.tag {
		return st, fmt.Errorf("reply tag %d for request tag %d", tg, cn.tag)
	}
	st.RT = int(r.typ())
	switch x := r.(type) {
	case *rlerror:
		st.Errno = uint64(x.Error)
	case *rversion:
		st.Vals = []uint64{uint64(x.MSize)}
		st.Str = vhsrvHex(x.Version)
	case *rattach:
		st.Vals = []uint64{x.QID.Path}
	case *rwalk:
		for _, q := range x.QIDs {
			st.Vals = append(st.Vals, q.Path)
		}
	case *rwalkgetattr:
		for _, q := range x.QIDs {
			st.Vals = append(st.Vals, q.Path)
		}
		st.Vals = append(st.Vals, uint64(x.Attr.Mode))
	case *rlopen:
		st.Vals = []uint64{x.QID.Path, uint64(x.IoUnit)}
	case *rlcreate:
		st.Vals = []uint64{x.QID.Path, uint64(x.IoUnit)}
	case *rucreate:
		st.Vals = []uint64{x.QID.Path, uint64(x.IoUnit)}
	case *rsymlink:
		st.Vals = []uint64{x.QID.Path}
	case *rusymlink:
		st.Vals = []uint64{x.QID.Path}
	case *rmknod:
		st.Vals = []uint64{x.QID.Path}
	case *rumknod:
		st.Vals = []uint64{x.QID.Path}
	case *rmkdir:
		st.Vals = []uint64{x.QID.Path}
	case *rumkdir:
		st.Vals = []uint64{x.QID.Path}
	case *rreadlink:
		st.Str = vhsrvHex(x.Target)
	case *rread:
		st.Vals = []uint64{uint64(len(x.Data))}
	case *rwrite:
		st.Vals = []uint64{uint64(x.Count)}
	case *rgetattr:
		st.Vals = []uint64{x.QID.Path, uint64(x.Attr.Mode)}
	case *rxattrwalk:
		st.Vals = []uint64{x.Size}
	case *rlock:
		st.Vals = []uint64{uint64(x.Status)}
	}
	st.Calls = w.b.takeCalls()
	if st.Calls == nil {
		st.Calls = []vhsrvCall{}
	}
	st.Reduced = w.b.tailPanic
	cn.cs.fidMu.Lock()
	for f := range cn.cs.fids {
		st.Fids = append(st.Fids, uint64(f))
	}
	cn.cs.fidMu.Unlock()
	sort.Slice(st.Fids, func(i, j int) bool { return st.Fids[i] < st.Fids[j] })
	if st.Fids == nil {
		st.Fids = []uint64{}
	}
	return st, nil
}

// vhsrvHist is one observation record: a whole history against one fresh server.
type vhsrvHist struct {
	Kind       string         `json:"kind"`
	ID         string         `json:"id"`
	Steps      []vhsrvStep    `json:"steps"`
	Fault      map[string]int `json:"fault,omitempty"` // step, call, panic(0/1)
	CloseTwice []uint64       `json:"close_twice"`
	UseAfter   []string       `json:"use_after"`
	Broken     string         `json:"broken,omitempty"`
}

func (w *vhsrvWorld) finish(h *vhsrvHist) {
	w.b.mu.Lock()
	defer w.b.mu.Unlock()
	h.CloseTwice = []uint64{}
	for id, n := range w.b.closed {
		if n > 1 {
			h.CloseTwice = append(h.CloseTwice, id)
		}
	}
	sort.Slice(h.CloseTwice, func(i, j int) bool { return h.CloseTwice[i] < h.CloseTwice[j] })
	h.UseAfter = w.b.useAfter
	if h.UseAfter == nil {
		h.UseAfter = []string{}
	}
}

// ---------------------------------------------------------------------------
// two requests in flight together (C04 "a fid opens at most once" under overlap)

// vhsrvPar is the observation of two requests A, B sent on one connection so that B is received while A is
// inside the gated backend call: both replies and the backend calls of the window, in call order.
type vhsrvPar struct {
	Kind  string      `json:"kind"` // "par"
	ID    string      `json:"id"`
	A     vhsrvStep   `json:"a"`
	B     vhsrvStep   `json:"b"`
	Calls []vhsrvCall `json:"calls"`
	Steps []vhsrvStep `json:"steps"` // always empty (keeps the record shaped like a history for the evaluator)
	Gated bool        `json:"gated"` // A reached the gated call before B was sent
}

func vhsrvFillReply(st *vhsrvStep, r message) {
	st.RT = int(r.typ())
	switch x := r.(type) {
	case *rlerror:
		st.Errno = uint64(x.Error)
	case *rlopen:
		st.Vals = []uint64{x.QID.Path, uint64(x.IoUnit)}
	}
}

// doPar sends qa, waits (event, not time) until the backend is inside the first call of method gateMeth, sends qb,
// gives the server `pause` to bring qb as far as it gets, opens the gate and collects both replies.  The pause
// only decides how far qb got: whatever it is, the observation is one the model must allow.
func (w *vhsrvWorld) doPar(qa, qb vhsrvReq, gateMeth int, pause time.Duration) (vhsrvPar, error) {
	cn := w.conns[qa.C]
	w.b.beginRequest()
	entered, release := make(chan struct{}), make(chan struct{})
	w.b.mu.Lock()
	w.b.gateMeth, w.b.gateHit, w.b.gateEntered, w.b.gateRelease = gateMeth+1, false, entered, release
	if qa.FaultAns != nil {
		w.b.faultArmed, w.b.faultCall, w.b.faultAns, w.b.faultMeth = true, 0, *qa.FaultAns, gateMeth+1
	}
	w.b.mu.Unlock()
	released := false
	defer func() {
		if !released {
			close(release)
		}
		w.b.mu.Lock()
		w.b.gateMeth, w.b.faultArmed, w.b.faultMeth = 0, false, 0
		w.b.mu.Unlock()
	}()
	out := vhsrvPar{Kind: "par", A: vhsrvStep{Req: qa, Vals: []uint64{}, Calls: []vhsrvCall{}, Fids: []uint64{}}, B: vhsrvStep{Req: qb, Vals: []uint64{}, Calls: []vhsrvCall{}, Fids: []uint64{}}, Steps: []vhsrvStep{}}
	cn.tag++
	ta := cn.tag
	cn.tag++
	tb := cn.tag
	type rep struct {
		tg  tag
		m   message
		err error
	}
	reps := make(chan rep, 2)
	go func() {
		for i := 0; i < 2; i++ {
			cn.c.SetReadDeadline(time.Now().Add(20 * time.Second))
			tg, r, err := recv(ulog.Null, cn.c, 16<<20, msgDotLRegistry.get)
			reps <- rep{tg, r, err}
			if err != nil {
				return
			}
		}
	}()
	if err := send(ulog.Null, cn.c, tag(ta), qa.msg()); err != nil {
		return out, fmt.Errorf("send A: %v", err)
	}
	select {
	case <-entered:
		out.Gated = true
	case <-time.After(5 * time.Second):
	}
	if err := send(ulog.Null, cn.c, tag(tb), qb.msg()); err != nil {
		return out, fmt.Errorf("send B: %v", err)
	}
	time.Sleep(pause)
	close(release)
	released = true
	for i := 0; i < 2; i++ {
		r := <-reps
		if r.err != nil {
			return out, fmt.Errorf("recv: %v", r.err)
		}
		switch uint16(r.tg) {
		case ta:
			vhsrvFillReply(&out.A, r.m)
		case tb:
			vhsrvFillReply(&out.B, r.m)
		default:
			return out, fmt.Errorf("reply with tag %d (sent %d and %d)", r.tg, ta, tb)
		}
	}
	out.Calls = w.b.takeCalls()
	if out.Calls == nil {
		out.Calls = []vhsrvCall{}
	}
	return out, nil
}
