package p9

// vhloop: helpers of the C06/C14 harness - a gated backend (every backend call
// names a gate; a closed gate blocks the call until the test releases it; enter
// and exit of every call are recorded), a fragmenting slow writer, a raw frame
// reader that validates every reply frame byte by byte, and the driver that runs
// one scenario against the real Server.Handle.

import (
	"bytes"
	"encoding/binary"
	"errors"
	"io"
	"net"
	"runtime"
	"sync"
	"time"

	"github.com/hugelgupf/p9/linux"
	"github.com/u-root/uio/ulog"
)

const (
	vhloopFill      = 0xA5
	vhloopCloseBase = 100000 // gate id of File k's Close = vhloopCloseBase + k
	vhloopReadCount = 600    // bytes per Tread: Rread = header + count[4] + payload (three Write calls)
)

type vhloopGate struct {
	ch   chan struct{}
	mode int // 0 return ok, 1 return an error, 2 panic
}

type vhloopBackend struct {
	mu      sync.Mutex
	gates   map[int]*vhloopGate
	entered map[int]int
	exited  map[int]int
	open    bool // teardown: nothing blocks any more
	events  chan int
	nfile   int
}

func vhloopNewBackend() *vhloopBackend {
	return &vhloopBackend{gates: map[int]*vhloopGate{}, entered: map[int]int{}, exited: map[int]int{}, events: make(chan int, 4096)}
}

// close a gate before the request that will hit it is sent
func (b *vhloopBackend) shut(g int) {
	b.mu.Lock()
	b.gates[g] = &vhloopGate{ch: make(chan struct{})}
	b.mu.Unlock()
}

func (b *vhloopBackend) release(g, mode int) {
	b.mu.Lock()
	if gt := b.gates[g]; gt != nil {
		gt.mode = mode
		select {
		case <-gt.ch:
		default:
			close(gt.ch)
		}
	}
	b.mu.Unlock()
}

func (b *vhloopBackend) openAll() {
	b.mu.Lock()
	b.open = true
	for _, gt := range b.gates {
		select {
		case <-gt.ch:
		default:
			close(gt.ch)
		}
	}
	b.mu.Unlock()
}

// inside reports whether a call for gate g has begun and not yet finished.
func (b *vhloopBackend) inside(g int) bool {
	b.mu.Lock()
	defer b.mu.Unlock()
	return b.entered[g] > b.exited[g]
}

// pass is the body of every gated backend call.
func (b *vhloopBackend) pass(g int) int {
	b.mu.Lock()
	gt := b.gates[g]
	b.entered[g]++
	open := b.open
	b.mu.Unlock()
	select {
	case b.events <- g:
	default:
	}
	mode := 0
	if gt != nil {
		if !open {
			<-gt.ch
		}
		b.mu.Lock()
		mode = gt.mode
		b.mu.Unlock()
	}
	b.mu.Lock()
	b.exited[g]++
	b.mu.Unlock()
	return mode
}

func (b *vhloopBackend) Attach() (File, error) {
	b.mu.Lock()
	id := b.nfile
	b.nfile++
	b.mu.Unlock()
	return &vhloopFile{b: b, id: id}, nil
}

// vhloopFile implements the few File methods the scenarios use; every other
// method hits the nil embedded interface and panics (the server answers EFAULT).
type vhloopFile struct {
	File
	b  *vhloopBackend
	id int
}

func (f *vhloopFile) GetAttr(req AttrMask) (QID, AttrMask, Attr, error) {
	return QID{Type: TypeRegular, Path: uint64(f.id) + 1}, AttrMask{Mode: true}, Attr{Mode: ModeRegular | 0o644}, nil
}

func (f *vhloopFile) Open(mode OpenFlags) (QID, uint32, error) {
	return QID{Type: TypeRegular, Path: uint64(f.id) + 1}, 0, nil
}

var errVhloop = linux.EIO

func (f *vhloopFile) ReadAt(p []byte, offset int64) (int, error) {
	switch f.b.pass(int(offset)) {
	case 1:
		return 0, errVhloop
	case 2:
		panic("vhloop: backend panic requested")
	}
	for i := range p {
		p[i] = vhloopFill
	}
	return len(p), nil
}

func (f *vhloopFile) Close() error {
	switch f.b.pass(vhloopCloseBase + f.id) {
	case 1:
		return errVhloop
	}
	return nil
}

func (f *vhloopFile) Renamed(newDir File, newName string) {}

// ---------------------------------------------------------------------------
// fragmenting slow writer: a plain io.Writer (net.Buffers.WriteTo then issues one
// Write per buffer) that forwards 1..7 bytes at a time and yields in between.

type vhloopFrag struct {
	c net.Conn
	n int
}

func (w *vhloopFrag) Write(p []byte) (int, error) {
	done := 0
	for done < len(p) {
		w.n++
		k := 1 + (w.n*7+len(p))%7
		if k > len(p)-done {
			k = len(p) - done
		}
		n, err := w.c.Write(p[done : done+k])
		done += n
		if err != nil {
			return done, err
		}
		runtime.Gosched()
	}
	return done, nil
}

func (w *vhloopFrag) Close() error { return w.c.Close() }

// ---------------------------------------------------------------------------
// frames

func vhloopEnc(tg uint16, m message) []byte {
	var b bytes.Buffer
	if err := send(ulog.Null, &b, tag(tg), m); err != nil {
		panic(err)
	}
	return b.Bytes()
}

type vhloopReply struct {
	Typ      int  `json:"typ"`
	Tag      int  `json:"tag"`
	Valid    bool `json:"valid"`  // size and body are what this reply type must look like
	InsideBk bool `json:"inside"` // Rflush only: the flushed request was inside its backend call when the Rflush was read
	Target   int  `json:"target"` // Rflush only: gate of the flushed request (-1 none)
	eof      bool
}

// vhloopValid checks a complete reply frame (after the 7 byte header) against its type.
func vhloopValid(typ byte, body []byte) bool {
	switch msgType(typ) {
	case msgRlerror:
		return len(body) == 4
	case msgRflush, msgRclunk:
		return len(body) == 0
	case msgRread:
		if len(body) < 4 {
			return false
		}
		n := binary.LittleEndian.Uint32(body)
		if int(n) != len(body)-4 {
			return false
		}
		for _, c := range body[4:] {
			if c != vhloopFill {
				return false
			}
		}
		return true
	case msgRversion, msgRattach, msgRlopen:
		return true
	}
	return false
}

// vhloopConn is one connection to a real Server.Handle.
type vhloopConn struct {
	bk      *vhloopBackend
	c       net.Conn
	done    chan struct{}
	frames  chan vhloopReply
	mu      sync.Mutex
	targets map[int]int // flush tag -> gate of the request it has to wait for (-1: none)
	left    int         // bytes after the last whole frame at EOF
	bad     bool        // a header with an impossible size was seen
}

func vhloopDial(frag bool) *vhloopConn {
	bk := vhloopNewBackend()
	cc, sc := net.Pipe()
	v := &vhloopConn{bk: bk, c: cc, done: make(chan struct{}), frames: make(chan vhloopReply, 4096), targets: map[int]int{}}
	srv := NewServer(bk)
	go func() {
		if frag {
			srv.Handle(sc, &vhloopFrag{c: sc})
		} else {
			srv.Handle(sc, sc)
		}
		close(v.done)
	}()
	go v.reader()
	return v
}

// reader parses the raw byte stream the server writes.
func (v *vhloopConn) reader() {
	var hdr [7]byte
	for {
		n, err := io.ReadFull(v.c, hdr[:])
		if err != nil {
			v.mu.Lock()
			v.left = n
			v.mu.Unlock()
			break
		}
		size := binary.LittleEndian.Uint32(hdr[:])
		if size < 7 || size > 1<<20 {
			v.mu.Lock()
			v.bad = true
			v.mu.Unlock()
			v.frames <- vhloopReply{Typ: int(hdr[4]), Tag: int(binary.LittleEndian.Uint16(hdr[5:])), Valid: false, Target: -1}
			break
		}
		body := make([]byte, size-7)
		if n, err := io.ReadFull(v.c, body); err != nil {
			v.mu.Lock()
			v.left = 7 + n
			v.mu.Unlock()
			break
		}
		r := vhloopReply{Typ: int(hdr[4]), Tag: int(binary.LittleEndian.Uint16(hdr[5:])), Valid: vhloopValid(hdr[4], body), Target: -1}
		if msgType(hdr[4]) == msgRflush {
			v.mu.Lock()
			g, ok := v.targets[r.Tag]
			v.mu.Unlock()
			if ok && g >= 0 {
				r.Target = g
				r.InsideBk = v.bk.inside(g)
			}
		}
		v.frames <- r
	}
	v.frames <- vhloopReply{eof: true}
}

var errVhloopStall = errors.New("vhloop: the server did not take the frame (intake blocked)")

// write sends raw bytes; the pipe is synchronous, so this returns once the server's receiver has read them.
func (v *vhloopConn) write(b []byte) error {
	for try := 0; try < 3; try++ {
		v.c.SetWriteDeadline(time.Now().Add(time.Second))
		n, err := v.c.Write(b)
		b = b[n:]
		if err == nil {
			return nil
		}
		if ne, ok := err.(net.Error); !ok || !ne.Timeout() {
			return err
		}
	}
	return errVhloopStall
}

// next waits for the next reply frame: "blocked" is concluded only after 3 x 1 s.
func (v *vhloopConn) next() (vhloopReply, bool) {
	for try := 0; try < 3; try++ {
		select {
		case r := <-v.frames:
			if r.eof {
				v.frames <- r
				return r, false
			}
			return r, true
		case <-time.After(time.Second):
		}
	}
	return vhloopReply{}, false
}

// poll returns a reply that is already there, without waiting.
func (v *vhloopConn) poll() (vhloopReply, bool) {
	select {
	case r := <-v.frames:
		if r.eof {
			v.frames <- r
			return r, false
		}
		return r, true
	default:
		return vhloopReply{}, false
	}
}

// waitEnter waits until a backend call for gate g has begun (event based; 3 x 1 s before giving up).
func (v *vhloopConn) waitEnter(g int) bool {
	deadline := time.Now().Add(3 * time.Second)
	for {
		v.bk.mu.Lock()
		n := v.bk.entered[g]
		v.bk.mu.Unlock()
		if n > 0 {
			return true
		}
		if time.Now().After(deadline) {
			return false
		}
		select {
		case <-v.bk.events:
		case <-time.After(50 * time.Millisecond):
		}
	}
}

// finish opens every gate, closes the connection and waits for Handle to return.
func (v *vhloopConn) finish() (returned bool, trailing []vhloopReply, left int, bad bool) {
	v.bk.openAll()
	v.c.Close()
	for try := 0; try < 3 && !returned; try++ {
		select {
		case <-v.done:
			returned = true
		case <-time.After(time.Second):
		}
	}
	for {
		select {
		case r := <-v.frames:
			if r.eof {
				v.mu.Lock()
				left, bad = v.left, v.bad
				v.mu.Unlock()
				return
			}
			trailing = append(trailing, r)
		case <-time.After(2 * time.Second):
			v.mu.Lock()
			left, bad = v.left, v.bad
			v.mu.Unlock()
			return
		}
	}
}
