package p9

// vhloop: helpers of the C06/C14 harness - a gated backend (every backend call
// names a gate; a closed gate blocks the call until the test releases it; enter
// and exit of every call are recorded), a fragmenting slow writer, a raw frame
// reader that validates every reply frame byte by byte, and connections to a real
// Server.Handle made of two pipes (requests, replies) so that the peer can stop
// reading replies or stop sending requests independently.

import (
	"bytes"
	"encoding/binary"
	"errors"
	"io"
	"net"
	"runtime"
	"sync"
	"time"

	"github.com/hugelgupf/p9/linux"
	"github.com/u-root/uio/ulog"
)

const (
	vhloopFill        = 0xA5
	vhloopCloseBase   = 100000 // gate of File k's Close
	vhloopGetAttrBase = 200000 // gate of File k's GetAttr
	vhloopSetAttrBase = 300000 // gate of File k's SetAttr
	vhloopWalkBase    = 400000 // gate of File k's Walk(nil) (clone)
	vhloopReadCount   = 600    // bytes per Tread: Rread = header + count[4] + payload (three Write calls)
)

type vhloopGate struct {
	ch   chan struct{}
	mode int // 0 return ok, 1 return an error, 2 panic
}

type vhloopBackend struct {
	mu      sync.Mutex
	gates   map[int]*vhloopGate
	entered map[int]int
	exited  map[int]int
	open    bool // teardown: nothing blocks any more
	events  chan int
	nfile   int
}

func vhloopNewBackend() *vhloopBackend {
	return &vhloopBackend{gates: map[int]*vhloopGate{}, entered: map[int]int{}, exited: map[int]int{}, events: make(chan int, 4096)}
}

// close a gate before the request that will hit it is sent
func (b *vhloopBackend) shut(g int) {
	b.mu.Lock()
	defer b.mu.Unlock()
	if gt := b.gates[g]; gt != nil {
		select {
		case <-gt.ch: // released earlier: shut it again
		default:
			return // still shut (several requests behind one gate)
		}
	}
	b.gates[g] = &vhloopGate{ch: make(chan struct{})}
}

func (b *vhloopBackend) release(g, mode int) {
	b.mu.Lock()
	if gt := b.gates[g]; gt != nil {
		gt.mode = mode
		select {
		case <-gt.ch:
		default:
			close(gt.ch)
		}
	}
	b.mu.Unlock()
}

func (b *vhloopBackend) openAll() {
	b.mu.Lock()
	b.open = true
	for _, gt := range b.gates {
		select {
		case <-gt.ch:
		default:
			close(gt.ch)
		}
	}
	b.mu.Unlock()
}

// inside reports whether a call for gate g has begun and not yet finished.
func (b *vhloopBackend) inside(g int) bool {
	b.mu.Lock()
	defer b.mu.Unlock()
	return b.entered[g] > b.exited[g]
}

// pass is the body of every gated backend call.
func (b *vhloopBackend) pass(g int) int {
	b.mu.Lock()
	gt := b.gates[g]
	b.entered[g]++
	open := b.open
	b.mu.Unlock()
	select {
	case b.events <- g:
	default:
	}
	mode := 0
	if gt != nil {
		if !open {
			<-gt.ch
		}
		b.mu.Lock()
		mode = gt.mode
		b.mu.Unlock()
	}
	b.mu.Lock()
	b.exited[g]++
	b.mu.Unlock()
	return mode
}

func (b *vhloopBackend) newFile() *vhloopFile {
	b.mu.Lock()
	id := b.nfile
	b.nfile++
	b.mu.Unlock()
	return &vhloopFile{b: b, id: id}
}

func (b *vhloopBackend) Attach() (File, error) { return b.newFile(), nil }

// vhloopFile implements the few File methods the scenarios use; every other
// method hits the nil embedded interface and panics (the server answers EFAULT).
type vhloopFile struct {
	File
	b  *vhloopBackend
	id int
}

var errVhloop = linux.EIO

func (f *vhloopFile) qid() QID { return QID{Type: TypeRegular, Path: uint64(f.id) + 1} }

func (f *vhloopFile) GetAttr(req AttrMask) (QID, AttrMask, Attr, error) {
	if f.b.pass(vhloopGetAttrBase+f.id) == 1 {
		return QID{}, AttrMask{}, Attr{}, errVhloop
	}
	return f.qid(), AttrMask{Mode: true}, Attr{Mode: ModeRegular | 0o644}, nil
}

func (f *vhloopFile) SetAttr(valid SetAttrMask, attr SetAttr) error {
	if f.b.pass(vhloopSetAttrBase+f.id) == 1 {
		return errVhloop
	}
	return nil
}

func (f *vhloopFile) Walk(names []string) ([]QID, File, error) {
	if len(names) != 0 {
		return nil, nil, linux.ENOENT
	}
	if f.b.pass(vhloopWalkBase+f.id) == 1 {
		return nil, nil, errVhloop
	}
	return nil, f.b.newFile(), nil
}

func (f *vhloopFile) WalkGetAttr(names []string) ([]QID, File, AttrMask, Attr, error) {
	return nil, nil, AttrMask{}, Attr{}, linux.ENOSYS
}

func (f *vhloopFile) Open(mode OpenFlags) (QID, uint32, error) { return f.qid(), 0, nil }

func (f *vhloopFile) ReadAt(p []byte, offset int64) (int, error) {
	switch f.b.pass(int(offset)) {
	case 1:
		return 0, errVhloop
	case 2:
		panic("vhloop: backend panic requested")
	}
	for i := range p {
		p[i] = vhloopFill
	}
	return len(p), nil
}

func (f *vhloopFile) Close() error {
	if f.b.pass(vhloopCloseBase+f.id) == 1 {
		return errVhloop
	}
	return nil
}

func (f *vhloopFile) Renamed(newDir File, newName string) {}

// ---------------------------------------------------------------------------
// fragmenting slow writer: a plain io.Writer (net.Buffers.WriteTo then issues one
// Write per buffer) that forwards 1..7 bytes at a time and yields in between.

type vhloopFrag struct {
	c net.Conn
	n int
}

func (w *vhloopFrag) Write(p []byte) (int, error) {
	done := 0
	for done < len(p) {
		w.n++
		k := 1 + (w.n*7+len(p))%7
		if k > len(p)-done {
			k = len(p) - done
		}
		n, err := w.c.Write(p[done : done+k])
		done += n
		if err != nil {
			return done, err
		}
		runtime.Gosched()
	}
	return done, nil
}

func (w *vhloopFrag) Close() error { return w.c.Close() }

// ---------------------------------------------------------------------------
// frames

func vhloopEnc(tg uint16, m message) []byte {
	var b bytes.Buffer
	if err := send(ulog.Null, &b, tag(tg), m); err != nil {
		panic(err)
	}
	return b.Bytes()
}

type vhloopReply struct {
	Conn     int  `json:"conn"`
	Typ      int  `json:"typ"`
	Tag      int  `json:"tag"`
	Valid    bool `json:"valid"`  // size and body are what this reply type must look like
	InsideBk bool `json:"inside"` // Rflush only: a backend call made on behalf of the flushed request was still running when the Rflush was read
	Target   int  `json:"target"` // Rflush only: gate of the flushed request (-1 none)
}

var vhloopFixedLen = map[msgType]int{}

func init() {
	for _, m := range []message{&rattach{}, &rgetattr{}, &rsetattr{}, &rwalkgetattr{}, &rlopen{}, &rclunk{}, &rflush{}} {
		vhloopFixedLen[m.typ()] = len(vhloopEnc(0, m)) - 7
	}
}

// vhloopValid checks a complete reply frame (after the 7 byte header) against its type.
func vhloopValid(typ byte, body []byte) bool {
	switch msgType(typ) {
	case msgRlerror:
		return len(body) == 4
	case msgRread:
		if len(body) < 4 {
			return false
		}
		n := binary.LittleEndian.Uint32(body)
		if int(n) != len(body)-4 {
			return false
		}
		for _, c := range body[4:] {
			if c != vhloopFill {
				return false
			}
		}
		return true
	case msgRversion:
		return true
	}
	if n, ok := vhloopFixedLen[msgType(typ)]; ok {
		return len(body) == n
	}
	return false
}

// vhloopConn is one connection to Server.Handle: requests go down q, replies come up r.
type vhloopConn struct {
	id      int
	bk      *vhloopBackend
	q       net.Conn // client end of the request pipe
	r       net.Conn // client end of the reply pipe
	done    chan struct{}
	rdone   chan struct{}    // the reader saw the end of the reply stream
	frames  chan vhloopReply // shared by the connections of a scenario
	mu      sync.Mutex
	targets map[int]int // flush tag -> gate of the request it has to wait for (-1: none)
	left    int         // bytes after the last whole frame at EOF
	bad     bool        // a header with an impossible size was seen
	broken  bool        // we closed the reply pipe ourselves
	hungup  bool
}

func vhloopDial(srv *Server, bk *vhloopBackend, id int, frag bool, frames chan vhloopReply) *vhloopConn {
	qc, qs := net.Pipe()
	rc, rs := net.Pipe()
	v := &vhloopConn{id: id, bk: bk, q: qc, r: rc, done: make(chan struct{}), rdone: make(chan struct{}), frames: frames, targets: map[int]int{}}
	go func() {
		if frag {
			srv.Handle(qs, &vhloopFrag{c: rs})
		} else {
			srv.Handle(qs, rs)
		}
		close(v.done)
	}()
	go v.reader()
	return v
}

// reader parses the raw byte stream the server writes.
func (v *vhloopConn) reader() {
	var hdr [7]byte
	for {
		n, err := io.ReadFull(v.r, hdr[:])
		if err != nil {
			v.mu.Lock()
			v.left = n
			v.mu.Unlock()
			break
		}
		size := binary.LittleEndian.Uint32(hdr[:])
		if size < 7 || size > 1<<20 {
			v.mu.Lock()
			v.bad = true
			v.mu.Unlock()
			v.frames <- vhloopReply{Conn: v.id, Typ: int(hdr[4]), Tag: int(binary.LittleEndian.Uint16(hdr[5:])), Valid: false, Target: -1}
			break
		}
		body := make([]byte, size-7)
		if n, err := io.ReadFull(v.r, body); err != nil {
			v.mu.Lock()
			v.left = 7 + n
			v.mu.Unlock()
			break
		}
		r := vhloopReply{Conn: v.id, Typ: int(hdr[4]), Tag: int(binary.LittleEndian.Uint16(hdr[5:])), Valid: vhloopValid(hdr[4], body), Target: -1}
		if msgType(hdr[4]) == msgRflush {
			v.mu.Lock()
			g, ok := v.targets[r.Tag]
			v.mu.Unlock()
			if ok && g >= 0 {
				r.Target = g
				r.InsideBk = v.bk.inside(g)
			}
		}
		v.frames <- r
	}
	close(v.rdone)
}

var errVhloopStall = errors.New("vhloop: the server did not take the frame (intake blocked)")

// write sends raw bytes; the pipe is synchronous, so this returns once the server's receiver has read them.
func (v *vhloopConn) write(b []byte) error {
	for try := 0; try < 3; try++ {
		v.q.SetWriteDeadline(time.Now().Add(time.Second))
		n, err := v.q.Write(b)
		b = b[n:]
		if err == nil {
			return nil
		}
		if ne, ok := err.(net.Error); !ok || !ne.Timeout() {
			return err
		}
	}
	return errVhloopStall
}

// stopReading: the peer closes its read side; every later Write of the server fails.
func (v *vhloopConn) stopReading() {
	v.mu.Lock()
	v.broken = true
	v.mu.Unlock()
	v.r.Close()
}

// hangup: the peer closes its sending side; the server's recv sees EOF.
func (v *vhloopConn) hangup() {
	v.mu.Lock()
	v.hungup = true
	v.mu.Unlock()
	v.q.Close()
}

func (v *vhloopConn) waitDone() bool {
	for try := 0; try < 3; try++ {
		select {
		case <-v.done:
			return true
		case <-time.After(time.Second):
		}
	}
	return false
}

// vhloopNext waits for the next reply frame of any connection: "blocked" is concluded only after 3 x 1 s.
func vhloopNext(frames chan vhloopReply) (vhloopReply, bool) {
	deadline := 0
	for deadline < 3 {
		select {
		case r := <-frames:
			return r, true
		case <-time.After(time.Second):
			deadline++
		}
	}
	return vhloopReply{}, false
}

// vhloopPoll returns a reply that is already there, without waiting.
func vhloopPoll(frames chan vhloopReply) (vhloopReply, bool) {
	select {
	case r := <-frames:
		return r, true
	default:
		return vhloopReply{}, false
	}
}

// waitEnter waits until a backend call for gate g has begun (event based; 3 x 1 s before giving up).
func (b *vhloopBackend) waitEnter(g int) bool {
	deadline := time.Now().Add(3 * time.Second)
	for {
		b.mu.Lock()
		n := b.entered[g]
		b.mu.Unlock()
		if n > 0 {
			return true
		}
		if time.Now().After(deadline) {
			return false
		}
		select {
		case <-b.events:
		case <-time.After(20 * time.Millisecond):
		}
	}
}
