package p9

// vhloop: helpers of the C06/C14 harness - a gated backend (every backend call
// names a gate; a closed gate blocks the call until the test releases it; enter
// and exit of every call are recorded), a fragmenting slow writer, a raw frame
// reader that validates every reply frame byte by byte, and connections to a real
// Server.Handle made of two pipes (requests, replies) so that the peer can stop
// reading replies or stop sending requests independently.

import (
	"bytes"
	"encoding/binary"
	"errors"
	"io"
	"net"
	"runtime"
	"sync"
	"time"

	"github.com/hugelgupf/p9/linux"
	"github.com/u-root/uio/ulog"
)

const (
	vhloopFill        = 0xA5
	vhloopCloseBase   = 100000 // gate of File k's Close
	vhloopGetAttrBase = 200000 // gate of File k's GetAttr
	vhloopSetAttrBase = 300000 // gate of File k's SetAttr
	vhloopWalkBase    = 400000 // gate of File k's Walk(nil) (clone)
	vhloopFileBase    = 500000 // gate of EVERY method of File k (except the ones above, which have their own)
	vhloopReadCount   = 600    // bytes per Tread: Rread = header + count[4] + payload (three Write calls)
)

type vhloopGate struct {
	ch   chan struct{}
	mode int // 0 return ok, 1 return an error, 2 panic
}

// one entry of the monitor: every File method records its entry and its exit; the driver records
// gate releases, observed Rflush frames and the start of the teardown in the same sequence
type vhloopEv struct {
	Seq    int
	What   string // enter | exit | release | rflush | teardown
	Method string
	File   int
	Arg    int64
}

type vhloopBackend struct {
	mu       sync.Mutex
	gates    map[int]*vhloopGate
	entered  map[int]int
	exited   map[int]int
	open     bool // teardown: nothing blocks any more
	events   chan int
	nfile    int
	modes    map[int]FileMode // file id -> type (default regular)
	log      []vhloopEv
	running  map[[2]int64]int // (file, offset-or-minus-one per method class) -> calls between enter and exit; see key()
	runFile  map[int]int      // file -> calls between enter and exit
	released map[int]bool     // gates the driver has released (marked BEFORE the gate opens)
}

func vhloopNewBackend() *vhloopBackend {
	return &vhloopBackend{gates: map[int]*vhloopGate{}, entered: map[int]int{}, exited: map[int]int{}, events: make(chan int, 4096),
		modes: map[int]FileMode{}, running: map[[2]int64]int{}, runFile: map[int]int{}, released: map[int]bool{}}
}

func (b *vhloopBackend) record(what, method string, file int, arg int64) int {
	// b.mu held
	e := vhloopEv{Seq: len(b.log), What: what, Method: method, File: file, Arg: arg}
	b.log = append(b.log, e)
	return e.Seq
}

// close a gate before the request that will hit it is sent
func (b *vhloopBackend) shut(g int) {
	b.mu.Lock()
	defer b.mu.Unlock()
	if gt := b.gates[g]; gt != nil {
		select {
		case <-gt.ch: // released earlier: shut it again
		default:
			return // still shut (several requests behind one gate)
		}
	}
	b.gates[g] = &vhloopGate{ch: make(chan struct{})}
	b.released[g] = false
}

func (b *vhloopBackend) release(g, mode int) {
	b.mu.Lock()
	b.released[g] = true // event order: marked before the gate opens
	b.record("release", "", g, 0)
	if gt := b.gates[g]; gt != nil {
		gt.mode = mode
		select {
		case <-gt.ch:
		default:
			close(gt.ch)
		}
	}
	b.mu.Unlock()
}

func (b *vhloopBackend) openAll() {
	b.mu.Lock()
	b.open = true
	b.record("teardown", "", 0, 0)
	for g, gt := range b.gates {
		b.released[g] = true
		select {
		case <-gt.ch:
		default:
			close(gt.ch)
		}
	}
	b.mu.Unlock()
}

// inside reports whether a call for gate g has begun and not yet finished.
func (b *vhloopBackend) inside(g int) bool {
	b.mu.Lock()
	defer b.mu.Unlock()
	return b.entered[g] > b.exited[g]
}

// call is the body of every File method: record the entry, wait at every shut gate among gs, record the exit.
func (b *vhloopBackend) call(method string, file int, arg int64, gs ...int) int {
	b.mu.Lock()
	b.record("enter", method, file, arg)
	b.running[[2]int64{int64(file), arg}]++
	b.runFile[file]++
	var waits []*vhloopGate
	for _, g := range gs {
		b.entered[g]++
		if gt := b.gates[g]; gt != nil {
			waits = append(waits, gt)
		}
	}
	open := b.open
	b.mu.Unlock()
	for range gs {
		select {
		case b.events <- 0:
		default:
		}
	}
	mode := 0
	for _, gt := range waits {
		if !open {
			<-gt.ch
		}
		b.mu.Lock()
		if gt.mode != 0 {
			mode = gt.mode
		}
		b.mu.Unlock()
	}
	b.mu.Lock()
	for _, g := range gs {
		b.exited[g]++
	}
	b.running[[2]int64{int64(file), arg}]--
	b.runFile[file]--
	b.record("exit", method, file, arg)
	b.mu.Unlock()
	return mode
}

// a watch says which backend calls are made on behalf of one request: every call on the files in Files
// (the request has those files to itself), and the ReadAt/WriteAt at offset Off of file OffFile (Off >= 0)
type vhloopWatch struct {
	Files   []int
	OffFile int
	Off     int64
	Gate    int // the gate the request (or, for a chain of flushes, its root) is held at; -1 none
}

func (w *vhloopWatch) matches(e vhloopEv) bool {
	for _, f := range w.Files {
		if e.File == f {
			return true
		}
	}
	return w.Off >= 0 && e.File == w.OffFile && e.Arg == w.Off && (e.Method == "ReadAt" || e.Method == "WriteAt")
}

// runningFor: is a call made on behalf of the watched request between enter and exit right now?  (b.mu held)
func (b *vhloopBackend) runningFor(w *vhloopWatch) bool {
	for _, f := range w.Files {
		if b.runFile[f] > 0 {
			return true
		}
	}
	return w.Off >= 0 && b.running[[2]int64{int64(w.OffFile), w.Off}] > 0
}

// lateFor: does a call made on behalf of the watched request begin after seq (and before the teardown)?
func (b *vhloopBackend) lateFor(w *vhloopWatch, seq int) bool {
	b.mu.Lock()
	defer b.mu.Unlock()
	for _, e := range b.log {
		if e.What == "teardown" {
			break
		}
		if e.Seq > seq && e.What == "enter" && w.matches(e) {
			return true
		}
	}
	return false
}

func (b *vhloopBackend) newFile() *vhloopFile {
	b.mu.Lock()
	id := b.nfile
	b.nfile++
	b.mu.Unlock()
	return &vhloopFile{b: b, id: id}
}

func (b *vhloopBackend) Attach() (File, error) { return b.newFile(), nil }

// vhloopFile implements the few File methods the scenarios use; every other
// method hits the nil embedded interface and panics (the server answers EFAULT).
type vhloopFile struct {
	File
	b  *vhloopBackend
	id int
}

var errVhloop = linux.EIO

func (f *vhloopFile) mode() FileMode {
	f.b.mu.Lock()
	defer f.b.mu.Unlock()
	if m, ok := f.b.modes[f.id]; ok {
		return m
	}
	return ModeRegular
}

func (f *vhloopFile) qid() QID { return QID{Type: f.mode().QIDType(), Path: uint64(f.id) + 1} }

// do is one monitored backend call on this file; own = the method's own gate (0 none).
func (f *vhloopFile) do(method string, arg int64, own int) error {
	gs := []int{vhloopFileBase + f.id}
	if own != 0 {
		gs = []int{own, vhloopFileBase + f.id}
	}
	switch f.b.call(method, f.id, arg, gs...) {
	case 1:
		return errVhloop
	case 2:
		panic("vhloop: backend panic requested")
	}
	return nil
}

func (f *vhloopFile) GetAttr(req AttrMask) (QID, AttrMask, Attr, error) {
	if err := f.do("GetAttr", -1, vhloopGetAttrBase+f.id); err != nil {
		return QID{}, AttrMask{}, Attr{}, err
	}
	return f.qid(), AttrMask{Mode: true}, Attr{Mode: f.mode() | 0o644}, nil
}

func (f *vhloopFile) SetAttr(valid SetAttrMask, attr SetAttr) error {
	return f.do("SetAttr", -1, vhloopSetAttrBase+f.id)
}

func (f *vhloopFile) Walk(names []string) ([]QID, File, error) {
	if len(names) > 1 {
		return nil, nil, linux.ENOENT
	}
	own := 0
	if len(names) == 0 {
		own = vhloopWalkBase + f.id
	}
	if err := f.do("Walk", -1, own); err != nil {
		return nil, nil, err
	}
	nf := f.b.newFile()
	if len(names) == 0 {
		return nil, nf, nil
	}
	return []QID{nf.qid()}, nf, nil
}

func (f *vhloopFile) WalkGetAttr(names []string) ([]QID, File, AttrMask, Attr, error) {
	return nil, nil, AttrMask{}, Attr{}, linux.ENOSYS
}

func (f *vhloopFile) Open(mode OpenFlags) (QID, uint32, error) {
	if err := f.do("Open", -1, 0); err != nil {
		return QID{}, 0, err
	}
	return f.qid(), 0, nil
}

func (f *vhloopFile) ReadAt(p []byte, offset int64) (int, error) {
	if err := f.do("ReadAt", offset, int(offset)); err != nil {
		return 0, err
	}
	for i := range p {
		p[i] = vhloopFill
	}
	return len(p), nil
}

func (f *vhloopFile) WriteAt(p []byte, offset int64) (int, error) {
	if err := f.do("WriteAt", offset, int(offset)); err != nil {
		return 0, err
	}
	return len(p), nil
}

func (f *vhloopFile) Close() error { return f.do("Close", -1, vhloopCloseBase+f.id) }
func (f *vhloopFile) FSync() error { return f.do("FSync", -1, 0) }
func (f *vhloopFile) StatFS() (FSStat, error) {
	return FSStat{}, f.do("StatFS", -1, 0)
}
func (f *vhloopFile) SetXattr(attr string, data []byte, flags XattrFlags) error {
	return f.do("SetXattr", -1, 0)
}
func (f *vhloopFile) GetXattr(attr string) ([]byte, error) {
	return []byte("value"), f.do("GetXattr", -1, 0)
}
func (f *vhloopFile) ListXattrs() ([]string, error) {
	return []string{"user.a"}, f.do("ListXattrs", -1, 0)
}
func (f *vhloopFile) RemoveXattr(attr string) error { return f.do("RemoveXattr", -1, 0) }
func (f *vhloopFile) Lock(pid int, locktype LockType, flags LockFlags, start, length uint64, client string) (LockStatus, error) {
	return LockStatusOK, f.do("Lock", -1, 0)
}
func (f *vhloopFile) Create(name string, flags OpenFlags, permissions FileMode, uid UID, gid GID) (File, QID, uint32, error) {
	if err := f.do("Create", -1, 0); err != nil {
		return nil, QID{}, 0, err
	}
	nf := f.b.newFile()
	return nf, nf.qid(), 0, nil
}
func (f *vhloopFile) Mkdir(name string, permissions FileMode, uid UID, gid GID) (QID, error) {
	return QID{Type: TypeDir, Path: 9000}, f.do("Mkdir", -1, 0)
}
func (f *vhloopFile) Symlink(oldName string, newName string, uid UID, gid GID) (QID, error) {
	return QID{Type: TypeSymlink, Path: 9001}, f.do("Symlink", -1, 0)
}
func (f *vhloopFile) Link(target File, newName string) error { return f.do("Link", -1, 0) }
func (f *vhloopFile) Mknod(name string, mode FileMode, major uint32, minor uint32, uid UID, gid GID) (QID, error) {
	return QID{Type: TypeRegular, Path: 9002}, f.do("Mknod", -1, 0)
}
func (f *vhloopFile) Rename(newDir File, newName string) error { return f.do("Rename", -1, 0) }
func (f *vhloopFile) RenameAt(oldName string, newDir File, newName string) error {
	return f.do("RenameAt", -1, 0)
}
func (f *vhloopFile) UnlinkAt(name string, flags uint32) error { return f.do("UnlinkAt", -1, 0) }
func (f *vhloopFile) Readdir(offset uint64, count uint32) (Dirents, error) {
	return nil, f.do("Readdir", -1, 0)
}
func (f *vhloopFile) Readlink() (string, error) { return "target", f.do("Readlink", -1, 0) }

func (f *vhloopFile) Renamed(newDir File, newName string) {}

// ---------------------------------------------------------------------------
// fragmenting slow writer: a plain io.Writer (net.Buffers.WriteTo then issues one
// Write per buffer) that forwards 1..7 bytes at a time and yields in between.

type vhloopFrag struct {
	c net.Conn
	n int
}

func (w *vhloopFrag) Write(p []byte) (int, error) {
	done := 0
	for done < len(p) {
		w.n++
		k := 1 + (w.n*7+len(p))%7
		if k > len(p)-done {
			k = len(p) - done
		}
		n, err := w.c.Write(p[done : done+k])
		done += n
		if err != nil {
			return done, err
		}
		runtime.Gosched()
	}
	return done, nil
}

func (w *vhloopFrag) Close() error { return w.c.Close() }

// ---------------------------------------------------------------------------
// frames

func vhloopEnc(tg uint16, m message) []byte {
	var b bytes.Buffer
	if err := send(ulog.Null, &b, tag(tg), m); err != nil {
		panic(err)
	}
	return b.Bytes()
}

type vhloopReply struct {
	Conn      int  `json:"conn"`
	Typ       int  `json:"typ"`
	Tag       int  `json:"tag"`
	Valid     bool `json:"valid"`     // size and body are what this reply type must look like
	InsideBk  bool `json:"inside"`    // Rflush only: a backend call made on behalf of the flushed request was between enter and exit when the Rflush was read
	Premature bool `json:"premature"` // Rflush only: read BEFORE the driver released the gate the flushed request is held at (event order, no timing)
	Late      bool `json:"late"`      // Rflush only: a backend call made on behalf of the flushed request began after the Rflush was read
	Target    int  `json:"target"`    // Rflush only: gate the flushed request (or the root of the flush chain) is held at (-1 none)
	seq       int
	watch     *vhloopWatch
}

var vhloopFixedLen = map[msgType]int{}

func init() {
	for _, m := range []message{&rattach{}, &rgetattr{}, &rsetattr{}, &rwalkgetattr{}, &rlopen{}, &rclunk{}, &rflush{}, &rwrite{}, &rfsync{},
		&rlcreate{}, &rmkdir{}, &rsymlink{}, &rmknod{}, &rlink{}, &runlinkat{}, &rrenameat{}, &rrename{}, &rstatfs{}, &rxattrwalk{}, &rlock{}, &rremove{}} {
		vhloopFixedLen[m.typ()] = len(vhloopEnc(0, m)) - 7
	}
}

// vhloopValid checks a complete reply frame (after the 7 byte header) against its type.
func vhloopValid(typ byte, body []byte) bool {
	switch msgType(typ) {
	case msgRlerror:
		return len(body) == 4
	case msgRread:
		if len(body) < 4 {
			return false
		}
		n := binary.LittleEndian.Uint32(body)
		if int(n) != len(body)-4 {
			return false
		}
		for _, c := range body[4:] {
			if c != vhloopFill {
				return false
			}
		}
		return true
	case msgRversion, msgRreaddir, msgRreadlink, msgRwalk:
		return true
	}
	if n, ok := vhloopFixedLen[msgType(typ)]; ok {
		return len(body) == n
	}
	return false
}

// vhloopConn is one connection to Server.Handle: requests go down q, replies come up r.
type vhloopConn struct {
	id      int
	bk      *vhloopBackend
	q       net.Conn // client end of the request pipe
	r       net.Conn // client end of the reply pipe
	done    chan struct{}
	rdone   chan struct{}    // the reader saw the end of the reply stream
	frames  chan vhloopReply // shared by the connections of a scenario
	mu      sync.Mutex
	targets map[int]*vhloopWatch // flush tag -> the backend calls that must be over before it is answered
	left    int                  // bytes after the last whole frame at EOF
	bad     bool                 // a header with an impossible size was seen
	broken  bool                 // we closed the reply pipe ourselves
	hungup  bool
}

func vhloopDial(srv *Server, bk *vhloopBackend, id int, frag bool, frames chan vhloopReply) *vhloopConn {
	qc, qs := net.Pipe()
	rc, rs := net.Pipe()
	v := &vhloopConn{id: id, bk: bk, q: qc, r: rc, done: make(chan struct{}), rdone: make(chan struct{}), frames: frames, targets: map[int]*vhloopWatch{}}
	go func() {
		if frag {
			srv.Handle(qs, &vhloopFrag{c: rs})
		} else {
			srv.Handle(qs, rs)
		}
		close(v.done)
	}()
	go v.reader()
	return v
}

// reader parses the raw byte stream the server writes.
func (v *vhloopConn) reader() {
	var hdr [7]byte
	for {
		n, err := io.ReadFull(v.r, hdr[:])
		if err != nil {
			v.mu.Lock()
			v.left = n
			v.mu.Unlock()
			break
		}
		size := binary.LittleEndian.Uint32(hdr[:])
		if size < 7 || size > 1<<20 {
			v.mu.Lock()
			v.bad = true
			v.mu.Unlock()
			v.frames <- vhloopReply{Conn: v.id, Typ: int(hdr[4]), Tag: int(binary.LittleEndian.Uint16(hdr[5:])), Valid: false, Target: -1}
			break
		}
		body := make([]byte, size-7)
		if n, err := io.ReadFull(v.r, body); err != nil {
			v.mu.Lock()
			v.left = 7 + n
			v.mu.Unlock()
			break
		}
		r := vhloopReply{Conn: v.id, Typ: int(hdr[4]), Tag: int(binary.LittleEndian.Uint16(hdr[5:])), Valid: vhloopValid(hdr[4], body), Target: -1}
		if msgType(hdr[4]) == msgRflush {
			v.mu.Lock()
			w := v.targets[r.Tag]
			v.mu.Unlock()
			v.bk.mu.Lock()
			r.seq = v.bk.record("rflush", "", r.Tag, int64(v.id))
			if w != nil {
				r.watch = w
				r.Target = w.Gate
				r.InsideBk = v.bk.runningFor(w)
				r.Premature = w.Gate >= 0 && !v.bk.released[w.Gate]
			}
			v.bk.mu.Unlock()
		}
		v.frames <- r
	}
	close(v.rdone)
}

var errVhloopStall = errors.New("vhloop: the server did not take the frame (intake blocked)")

// write sends raw bytes; the pipe is synchronous, so this returns once the server's receiver has read them.
func (v *vhloopConn) write(b []byte) error {
	for try := 0; try < 3; try++ {
		v.q.SetWriteDeadline(time.Now().Add(time.Second))
		n, err := v.q.Write(b)
		b = b[n:]
		if err == nil {
			return nil
		}
		if ne, ok := err.(net.Error); !ok || !ne.Timeout() {
			return err
		}
	}
	return errVhloopStall
}

// stopReading: the peer closes its read side; every later Write of the server fails.
func (v *vhloopConn) stopReading() {
	v.mu.Lock()
	v.broken = true
	v.mu.Unlock()
	v.r.Close()
}

// hangup: the peer closes its sending side; the server's recv sees EOF.
func (v *vhloopConn) hangup() {
	v.mu.Lock()
	v.hungup = true
	v.mu.Unlock()
	v.q.Close()
}

func (v *vhloopConn) waitDone() bool {
	for try := 0; try < 3; try++ {
		select {
		case <-v.done:
			return true
		case <-time.After(time.Second):
		}
	}
	return false
}

// vhloopNext waits for the next reply frame of any connection: "blocked" is concluded only after 3 x 1 s.
func vhloopNext(frames chan vhloopReply) (vhloopReply, bool) {
	deadline := 0
	for deadline < 3 {
		select {
		case r := <-frames:
			return r, true
		case <-time.After(time.Second):
			deadline++
		}
	}
	return vhloopReply{}, false
}

// vhloopPoll returns a reply that is already there, without waiting.
func vhloopPoll(frames chan vhloopReply) (vhloopReply, bool) {
	select {
	case r := <-frames:
		return r, true
	default:
		return vhloopReply{}, false
	}
}

// waitEnter waits until a backend call for gate g has begun (event based; 3 x 1 s before giving up).
func (b *vhloopBackend) waitEnter(g int) bool {
	deadline := time.Now().Add(3 * time.Second)
	for {
		b.mu.Lock()
		n := b.entered[g]
		b.mu.Unlock()
		if n > 0 {
			return true
		}
		if time.Now().After(deadline) {
			return false
		}
		select {
		case <-b.events:
		case <-time.After(20 * time.Millisecond):
		}
	}
}
