package p9

// vhs: drives the real Server.Handle lock-step over net.Pipe against the vhfs
// backend, records per request the reply, the backend calls it caused and the
// harness-side ground truth about the objects its fids were bound to.

import (
	"bytes"
	"encoding/binary"
	"net"
	"runtime"
	"sort"
	"sync/atomic"
	"time"

	"github.com/u-root/uio/ulog"
)

// vhsOp is one request of a history; K and A follow Refs/Model.v's [op].
type vhsOp struct {
	K     string `json:"k"`
	A     []int  `json:"a"`
	Names []int  `json:"names,omitempty"`
	G     bool   `json:"g,omitempty"`
}

type vhsObj struct {
	Ino   int  `json:"ino"`
	Alive bool `json:"alive"`
	Dir   bool `json:"dir"`
}

type vhsStep struct {
	Op    vhsOp    `json:"op"`
	Errno int      `json:"errno"`
	Val   int      `json:"val"`
	Log   [][]int  `json:"log"`
	Objs  []vhsObj `json:"objs"`
}

type vhsDNode struct {
	Path  []int           `json:"path"`
	Del   bool            `json:"del"`
	Refs  [][]interface{} `json:"refs"`
	Names [][]interface{} `json:"names"`
}

type vhsConn struct {
	c    net.Conn
	done chan struct{}
}

type vhsBound struct {
	ino int
	dir bool
}

type vhsSess struct {
	fs       *vhfsFS
	srv      *Server
	conns    map[int]*vhsConn
	bound    map[[2]int]vhsBound
	steps    []vhsStep
	returned bool
	g0       int
	broken   string
}

func vhsNewSess(wga bool, inject map[int]int) *vhsSess {
	fs := vhfsNew(wga, inject)
	return &vhsSess{fs: fs, srv: NewServer(vhfsAttacher{fs}), conns: map[int]*vhsConn{}, bound: map[[2]int]vhsBound{},
		returned: true, g0: runtime.NumGoroutine()}
}

const vhsMsize = 8192

// watchdog: a subject that wedges or spins is given up on after three stuck scenarios
var vhsStuck int32

func vhsTooStuck() bool { return atomic.LoadInt32(&vhsStuck) >= 3 }

const vhsWait = 3 * time.Second

func (s *vhsSess) rt(c *vhsConn, m message) message {
	c.c.SetWriteDeadline(time.Now().Add(vhsWait))
	if err := send(ulog.Null, c.c, 1, m); err != nil {
		s.broken = "send: " + err.Error()
		return nil
	}
	c.c.SetReadDeadline(time.Now().Add(vhsWait))
	_, r, err := recv(ulog.Null, c.c, vhsMsize, msgDotLRegistry.get)
	if err != nil {
		if s.broken == "" {
			atomic.AddInt32(&vhsStuck, 1)
		}
		s.broken = "recv: " + err.Error()
		return nil
	}
	return r
}

func (s *vhsSess) conn(id int) *vhsConn {
	if c, ok := s.conns[id]; ok {
		return c
	}
	cl, sv := net.Pipe()
	c := &vhsConn{c: cl, done: make(chan struct{})}
	go func() { s.srv.Handle(sv, sv); close(c.done) }()
	s.conns[id] = c
	s.rt(c, &tversion{MSize: vhsMsize, Version: "9P2000.L"})
	return c
}

func vhsNames(ids []int) []string {
	var out []string
	for _, i := range ids {
		out = append(out, vhfsName(i))
	}
	return out
}

func (s *vhsSess) obj(c, fid int) vhsObj {
	b, ok := s.bound[[2]int{c, fid}]
	if !ok {
		return vhsObj{Ino: 0, Alive: true}
	}
	s.fs.mu.Lock()
	defer s.fs.mu.Unlock()
	return vhsObj{Ino: b.ino, Alive: s.fs.alive(b.ino), Dir: b.dir}
}

func (s *vhsSess) bind(c, fid, ino int) {
	s.fs.mu.Lock()
	d := s.fs.dirs[ino]
	s.fs.mu.Unlock()
	s.bound[[2]int{c, fid}] = vhsBound{ino, d}
}

// stopConn closes the client side (after optionally writing a partial frame) and waits for Handle.
func (s *vhsSess) stopConn(id int, partial []byte) {
	c, ok := s.conns[id]
	if !ok {
		return
	}
	if len(partial) > 0 {
		c.c.SetWriteDeadline(time.Now().Add(5 * time.Second))
		c.c.Write(partial)
	}
	c.c.Close()
	select {
	case <-c.done:
	case <-time.After(vhsWait):
		s.returned = false
	}
	delete(s.conns, id)
	for k := range s.bound {
		if k[0] == id {
			delete(s.bound, k)
		}
	}
}

func vhsQidPath(q QID) int { return int(q.Path) }

// build returns the connection id, the T message and the ground-truth annotation of a request.
func (s *vhsSess) build(op vhsOp) (cid int, m message, objs []vhsObj) {
	a := op.A
	cid = a[0]
	if op.K == "use" || op.K == "io" || op.K == "mk" {
		cid = a[1]
	}
	switch op.K {
	case "attach":
		objs = []vhsObj{s.obj(a[0], a[1])}
		an := ""
		for i, n := range op.Names {
			if i > 0 {
				an += "/"
			}
			an += vhfsName(n)
		}
		m = &tattach{fid: fid(a[1]), Auth: tauth{Authenticationfid: noFID, AttachName: an}}
	case "walk":
		objs = []vhsObj{s.obj(a[0], a[1])}
		if op.G {
			m = &twalkgetattr{fid: fid(a[1]), newFID: fid(a[2]), Names: vhsNames(op.Names)}
		} else {
			m = &twalk{fid: fid(a[1]), newFID: fid(a[2]), Names: vhsNames(op.Names)}
		}
	case "clunk":
		objs = []vhsObj{s.obj(a[0], a[1])}
		m = &tclunk{fid: fid(a[1])}
	case "remove":
		objs = []vhsObj{s.obj(a[0], a[1])}
		m = &tremove{fid: fid(a[1])}
	case "open":
		objs = []vhsObj{s.obj(a[0], a[1])}
		m = &tlopen{fid: fid(a[1]), Flags: OpenFlags(a[2])}
	case "create":
		objs = []vhsObj{s.obj(a[0], a[1])}
		m = &tlcreate{fid: fid(a[1]), Name: vhfsName(a[2]), OpenFlags: OpenFlags(a[3]), Permissions: 0o644}
	case "mk":
		objs = []vhsObj{s.obj(a[1], a[2])}
		switch a[0] {
		case 0:
			m = &tmkdir{Directory: fid(a[2]), Name: vhfsName(a[3]), Permissions: 0o755}
		case 1:
			m = &tmknod{Directory: fid(a[2]), Name: vhfsName(a[3]), Mode: ModeRegular | 0o644}
		default:
			m = &tsymlink{Directory: fid(a[2]), Name: vhfsName(a[3]), Target: "t"}
		}
	case "link":
		objs = []vhsObj{s.obj(a[0], a[1]), s.obj(a[0], a[2])}
		m = &tlink{Directory: fid(a[1]), Target: fid(a[2]), Name: vhfsName(a[3])}
	case "getattr":
		objs = []vhsObj{s.obj(a[0], a[1])}
		m = &tgetattr{fid: fid(a[1]), AttrMask: AttrMaskAll}
	case "use":
		objs = []vhsObj{s.obj(a[1], a[2])}
		if a[0] == 5 {
			m = &tstatfs{fid: fid(a[2])}
		} else {
			m = &tlock{fid: fid(a[2]), Client: "c"}
		}
	case "io":
		objs = []vhsObj{s.obj(a[1], a[2])}
		switch a[0] {
		case 0:
			m = &tread{fid: fid(a[2]), Offset: 0, Count: 4}
		case 1:
			m = &twrite{fid: fid(a[2]), Offset: 0, Data: []byte{1, 2, 3}}
		default:
			m = &tfsync{fid: fid(a[2])}
		}
	case "setattr":
		objs = []vhsObj{s.obj(a[0], a[1])}
		m = &tsetattr{fid: fid(a[1])}
	case "readdir":
		objs = []vhsObj{s.obj(a[0], a[1])}
		m = &treaddir{Directory: fid(a[1]), Offset: 0, Count: 512}
	case "readlink":
		objs = []vhsObj{s.obj(a[0], a[1])}
		m = &treadlink{fid: fid(a[1])}
	case "unlinkat":
		objs = []vhsObj{s.obj(a[0], a[1])}
		m = &tunlinkat{Directory: fid(a[1]), Name: vhfsName(a[2])}
	case "rename":
		objs = []vhsObj{s.obj(a[0], a[1]), s.obj(a[0], a[2])}
		m = &trename{fid: fid(a[1]), Directory: fid(a[2]), Name: vhfsName(a[3])}
	case "renameat":
		objs = []vhsObj{s.obj(a[0], a[1]), s.obj(a[0], a[3])}
		m = &trenameat{OldDirectory: fid(a[1]), OldName: vhfsName(a[2]), NewDirectory: fid(a[3]), NewName: vhfsName(a[4])}
	case "xattrwalk":
		objs = []vhsObj{s.obj(a[0], a[1])}
		m = &txattrwalk{fid: fid(a[1]), newFID: fid(a[2]), Name: "user.x"}
	case "xattrcreate":
		objs = []vhsObj{s.obj(a[0], a[1])}
		m = &txattrcreate{fid: fid(a[1]), Name: "user.x", AttrSize: 0, Flags: 0}
	case "stop":
	default:
		panic("vhs: unknown op " + op.K)
	}
	return
}

// frame returns the wire bytes of a request.
func vhsFrameOf(m message) []byte {
	var b bytes.Buffer
	send(ulog.Null, &b, 1, m)
	return b.Bytes()
}

// cut delivers the first n bytes of the request's frame, then drops the connection.
func (s *vhsSess) cut(op vhsOp, n int) {
	cid, m, _ := s.build(op)
	if m == nil {
		return
	}
	fr := vhsFrameOf(m)
	if n >= len(fr) {
		n = len(fr) - 1
	}
	s.fs.mu.Lock()
	l0 := len(s.fs.log)
	s.fs.mu.Unlock()
	s.conn(cid)
	s.stopConn(cid, fr[:n])
	s.fs.mu.Lock()
	lg := append([][]int{}, s.fs.log[l0:]...)
	s.fs.mu.Unlock()
	s.steps = append(s.steps, vhsStep{Op: vhsOp{K: "stop", A: []int{cid}}, Log: lg, Objs: []vhsObj{}})
}

// exec runs one request and records the step.
func (s *vhsSess) exec(op vhsOp) (errno, val int) {
	a := op.A
	s.fs.mu.Lock()
	l0 := len(s.fs.log)
	s.fs.mu.Unlock()
	cid, m, objs := s.build(op)
	if op.K == "stop" {
		s.stopConn(a[0], nil)
	}
	if objs == nil {
		objs = []vhsObj{}
	}
	if m != nil {
		r := s.rt(s.conn(cid), m)
		switch x := r.(type) {
		case nil:
			errno = 9999
		case *rlerror:
			errno = int(x.Error)
		case *rattach:
			val = vhsQidPath(x.QID)
		case *rwalk:
			val = len(x.QIDs)
		case *rwalkgetattr:
			val = len(x.QIDs)
		case *rgetattr:
			val = vhsQidPath(x.QID)
		case *rlopen:
			val = vhsQidPath(x.QID)
		case *rlcreate:
			val = vhsQidPath(x.QID)
		case *rread:
			if len(x.Data) >= 4 {
				val = int(binary.LittleEndian.Uint32(x.Data))
			}
		}
		// ground truth for later steps: which object is each fid bound to
		src := s.bound[[2]int{a[0], a[1]}]
		switch {
		case op.K == "attach" && errno == 0:
			s.fs.mu.Lock()
			ino, _ := s.fs.resolve(op.Names)
			s.fs.mu.Unlock()
			s.bind(a[0], a[1], ino)
		case op.K == "walk" && errno == 0:
			if len(op.Names) == 0 {
				s.bound[[2]int{a[0], a[2]}] = src
			} else {
				var last QID
				switch x := r.(type) {
				case *rwalk:
					last = x.QIDs[len(x.QIDs)-1]
				case *rwalkgetattr:
					last = x.QIDs[len(x.QIDs)-1]
				}
				s.bind(a[0], a[2], vhsQidPath(last))
			}
		case op.K == "xattrwalk" && errno == 0:
			s.bound[[2]int{a[0], a[2]}] = src
		case op.K == "create" && errno == 0:
			s.bind(a[0], a[1], val)
		case (op.K == "clunk" || op.K == "remove") && errno != 9:
			delete(s.bound, [2]int{a[0], a[1]})
		}
	}
	s.fs.mu.Lock()
	lg := append([][]int{}, s.fs.log[l0:]...)
	s.fs.mu.Unlock()
	if lg == nil {
		lg = [][]int{}
	}
	s.steps = append(s.steps, vhsStep{Op: op, Errno: errno, Val: val, Log: lg, Objs: objs})
	return
}

func vhsView(m map[int][]int) [][]interface{} {
	var ks []int
	for k, v := range m {
		if len(v) > 0 {
			ks = append(ks, k)
		}
	}
	sort.Ints(ks)
	out := [][]interface{}{}
	for _, k := range ks {
		sort.Ints(m[k])
		out = append(out, []interface{}{k, m[k]})
	}
	return out
}

// dumpNode is a read-only dump of the server's path tree (the server is idle: lock-step).
func vhsDumpNode(pn *pathNode, path []int, out *[]vhsDNode) {
	refs := map[int][]int{}
	for nm, m := range pn.childRefs {
		for r := range m {
			refs[vhfsNameID(nm)] = append(refs[vhfsNameID(nm)], r.file.(*vhfsFile).id)
		}
	}
	names := map[int][]int{}
	for r, nm := range pn.childRefNames {
		names[vhfsNameID(nm)] = append(names[vhfsNameID(nm)], r.file.(*vhfsFile).id)
	}
	p := append([]int{}, path...)
	*out = append(*out, vhsDNode{Path: p, Del: atomic.LoadUint32(&pn.deleted) != 0, Refs: vhsView(refs), Names: vhsView(names)})
	var ks []int
	for nm := range pn.childNodes {
		ks = append(ks, vhfsNameID(nm))
	}
	sort.Ints(ks)
	for _, k := range ks {
		vhsDumpNode(pn.childNodes[vhfsName(k)], append(p, k), out)
	}
}

func (s *vhsSess) dump() []vhsDNode {
	out := []vhsDNode{}
	vhsDumpNode(s.srv.pathTree, nil, &out)
	return out
}

// finish stops every connection and returns the observation record of the history.
func (s *vhsSess) finish(kind string, wga bool, inject map[int]int, complete bool) map[string]interface{} {
	dumpAt := len(s.steps)
	d := s.dump()
	if complete {
		var ids []int
		for id := range s.conns {
			ids = append(ids, id)
		}
		sort.Ints(ids)
		for _, id := range ids {
			s.exec(vhsOp{K: "stop", A: []int{id}})
		}
	}
	gd := 0
	if complete { // judged only after a complete disconnect (connections still run otherwise)
		gd = vhsSettle(s.g0)
	}
	inj := [][]int{}
	var ks []int
	for k := range inject {
		ks = append(ks, k)
	}
	sort.Ints(ks)
	for _, k := range ks {
		inj = append(inj, []int{k, inject[k]})
	}
	s.fs.mu.Lock()
	nh := s.fs.nextH
	s.fs.mu.Unlock()
	if !complete {
		defer s.abandon()
	}
	return map[string]interface{}{"kind": kind, "wga": wga, "inject": inj, "steps": s.steps, "nhandles": nh, "complete": complete,
		"dump_at": dumpAt, "dump": d, "returned": s.returned, "gdelta": gd, "broken": s.broken}
}

// vhsSettle waits for the goroutine count to come back to g0 (polling; gives up after 3 x 1 s: a loaded
// box must not turn a slow exit into a leak) and returns the remaining surplus.
func vhsSettle(g0 int) int {
	gd := 0
	for i := 0; i < 1500; i++ {
		gd = runtime.NumGoroutine() - g0
		if gd <= 0 {
			return 0
		}
		runtime.Gosched()
		time.Sleep(2 * time.Millisecond)
	}
	return gd
}

// abandon closes every connection without recording (used by recording runs).
func (s *vhsSess) abandon() {
	for id := range s.conns {
		s.stopConn(id, nil)
	}
}
