package p9

// C08 harness: path coherence and fencing.  Histories of
// create/mkdir/walk/clone/rename/renameat/unlinkat/remove/clunk against the
// path-addressed backend vhfs; after each request that changes the tree every
// bound fid is asked for its attributes (inode id), and the path tree of the
// server is dumped (read-only) at the end.  Gated scenarios: unlink vs a parked
// walk; a rename vs a parked request that binds a new File below the moved entry.

import (
	"testing"
)

func vh08Corpus() [][]vhsOp {
	at := func(c, f int, names ...int) vhsOp { return vhsOp{K: "attach", A: []int{c, f}, Names: names} }
	wk := func(c, f, nf int, names ...int) vhsOp { return vhsOp{K: "walk", A: []int{c, f, nf}, Names: names} }
	o := func(k string, a ...int) vhsOp { return vhsOp{K: k, A: a} }
	// /0/1/2/f(3): fids 1,2,3 on the directories, 4 on the file, 5 a clone of 2, 6 a second walk to /0/1
	deep := []vhsOp{at(0, 0), o("mk", 0, 0, 0, 0), wk(0, 0, 1, 0), o("mk", 0, 0, 1, 1), wk(0, 1, 2, 1), o("mk", 0, 0, 2, 2), wk(0, 2, 3, 2),
		wk(0, 3, 4), o("create", 0, 4, 3, 2), wk(0, 2, 5), wk(0, 0, 6, 0, 1), wk(0, 6, 7, 2, 3)}
	cat := func(a []vhsOp, b ...vhsOp) []vhsOp { return append(append([]vhsOp{}, a...), b...) }
	return [][]vhsOp{
		// rename of an ancestor (renameat in the root), then of the middle, then move a subtree up
		cat(deep, o("renameat", 0, 0, 0, 0, 1), o("renameat", 0, 1, 1, 1, 0), o("renameat", 0, 2, 2, 0, 2), o("io", 0, 0, 4), o("mk", 0, 0, 3, 1)),
		// Trename of a directory fid into another directory, of a file, onto itself
		cat(deep, o("mk", 0, 0, 0, 3), wk(0, 0, 8, 3), o("rename", 0, 2, 8, 0), o("rename", 0, 4, 0, 1), o("rename", 0, 4, 0, 1), o("rename", 0, 0, 8, 1)),
		// unlink of a subtree with fids at and below it; fenced requests; re-creation of the name
		cat(deep, o("unlinkat", 0, 1, 1), o("open", 0, 2, 0), wk(0, 2, 8, 2), o("mk", 0, 0, 3, 0), o("setattr", 0, 4), o("io", 0, 0, 4), o("io", 2, 0, 4),
			o("xattrwalk", 0, 3, 8), o("readdir", 0, 2), o("rename", 0, 4, 0, 2), o("renameat", 0, 2, 0, 0, 0), o("unlinkat", 0, 3, 3), o("remove", 0, 5),
			o("mk", 0, 0, 1, 1), wk(0, 1, 8, 1), o("mk", 0, 0, 8, 2), o("getattr", 0, 8), o("open", 0, 8, 0), wk(0, 2, 9)),
		// rename over an existing directory with fids below it, and over a file
		cat(deep, o("mk", 0, 0, 0, 3), wk(0, 0, 8, 3), o("mk", 0, 0, 8, 0), wk(0, 8, 9, 0), o("renameat", 0, 0, 3, 1, 1), o("open", 0, 2, 0), o("open", 0, 9, 0),
			wk(0, 1, 10, 1, 0), o("getattr", 0, 10), o("renameat", 0, 0, 0, 0, 0), o("renameat", 0, 1, 1, 0, 0)),
		// Trename refused by the backend (ENOTEMPTY: the target is an ancestor of the source): the tree must stay as it was
		cat(deep, o("rename", 0, 4, 0, 0), o("renameat", 0, 0, 0, 0, 1), o("rename", 0, 4, 0, 0), o("getattr", 0, 4)),
		// refused renames: into itself / a descendant, over an ancestor of the source; non-existing source
		cat(deep, o("renameat", 0, 0, 0, 2, 0), o("renameat", 0, 0, 0, 3, 3), o("renameat", 0, 3, 3, 0, 0), o("renameat", 0, 0, 3, 0, 2), o("rename", 0, 1, 3, 0)),
		// clone of a fenced fid: stays fenced, takes and drops its parent reference
		cat(deep, o("unlinkat", 0, 2, 2), wk(0, 3, 8), o("open", 0, 8, 0), o("clunk", 0, 8), o("clunk", 0, 3), o("clunk", 0, 7), o("getattr", 0, 2), o("mk", 0, 0, 2, 2)),
		// an xattr fid cannot be cloned (EINVAL, no backend call, nothing bound); it follows renames through its origin
		{at(0, 0), o("mk", 0, 0, 0, 1), wk(0, 0, 1, 1), o("xattrwalk", 0, 1, 2), wk(0, 2, 3), o("getattr", 0, 3), vhsOp{K: "walk", A: []int{0, 2, 3}, G: true},
			o("renameat", 0, 0, 1, 0, 2), o("getattr", 0, 1), o("getattr", 0, 2), o("getattr", 0, 3), wk(0, 2, 2), o("getattr", 0, 2)},
		// two connections: one renames what the other holds; the other disconnects; remove by Tremove uses the current name
		cat(deep, at(1, 0), wk(1, 0, 1, 0, 1, 2, 3), wk(1, 0, 2, 0, 1), o("renameat", 0, 1, 1, 0, 3), o("getattr", 1, 1), o("remove", 1, 1), o("getattr", 0, 4), o("stop", 1), o("renameat", 0, 0, 3, 1, 1)),
	}
}

func TestVerifC08(t *testing.T) {
	out := vhOpen(t)
	defer out.Close()
	r := vhRand()
	thorough := vhThorough()

	for _, ops := range vh08Corpus() {
		if vhsTooStuck() {
			break
		}
		for _, wga := range []bool{true, false} {
			out.Emit(vhsReplay("c08", ops, wga, nil, true, -1, 0, false))
			out.Emit(vhsReplay("c08", ops, wga, nil, true, -1, 0, true))
			out.Flush()
		}
	}
	// gated: Tunlinkat issued while a Twalk to the same name is parked in the backend walk
	for _, wga := range []bool{true, false} {
		for _, dir := range []bool{true, false} {
			out.Emit(vhgUnlinkVsWalk(wga, dir))
			out.Flush()
		}
	}
	// gated: a rename of an ancestor / of the entry itself is issued while a request that binds a new File
	// below it (clone, walk to a child, Tlcreate) is parked inside its backend call; every fid must still
	// reach its object afterwards (quick tier: the two walk flavours alternate over the 16 combinations)
	nb := 0
	for _, bind := range []string{"clone", "cloneg", "walk", "create"} {
		for _, self := range []bool{false, true} {
			for _, cross := range []bool{false, true} {
				for _, wga := range []bool{true, false} {
					if !thorough && wga != (nb%2 == 0) {
						continue
					}
					if vhsTooStuck() {
						break
					}
					out.Emit(vhgRenameVsBind(wga, bind, self, cross))
					out.Flush()
				}
				nb++
			}
		}
	}
	nhist := 100
	if thorough {
		nhist = 800
	}
	for i := 0; i < nhist && !vhsTooStuck(); i++ {
		wga := r.Intn(2) == 0
		n := 20 + r.Intn(20)
		nname := 3
		if i%4 == 0 {
			nname = 2 // dense: many fids on equal paths, frequent re-creation of names
		}
		ops := vhgHistory(r, n, "paths", wga, 2, 8, nname)
		rec := vhsReplay("c08", ops, wga, nil, true, -1, 0, i%2 == 0)
		out.Emit(rec)
		out.Flush()
		if i%6 == 0 {
			// a backend failure somewhere: the tree must stay coherent
			calls := 0
			for _, st := range rec["steps"].([]vhsStep) {
				calls += len(st.Log)
			}
			out.Emit(vhsReplay("c08", ops, wga, map[int]int{r.Intn(calls + 1): 5}, true, -1, 0, true))
		}
	}
}
