package p9

// Shared helpers of the /verif correspondence harness (in-package, white box).
// Every identifier starts with vh to stay clear of the package's own names.

import (
	"bufio"
	"encoding/binary"
	"encoding/json"
	"io"
	"math/rand"
	"net"
	"os"
	"strconv"
	"sync"
	"testing"
	"time"
)

type vhOut struct {
	mu sync.Mutex
	f  *os.File
	w  *bufio.Writer
	n  int
}

// vhOpen opens $VERIF_OUT for observations (one JSON object per line).
func vhOpen(t testing.TB) *vhOut {
	p := os.Getenv("VERIF_OUT")
	if p == "" {
		t.Skip("VERIF_OUT not set: not running under /verif/check")
	}
	f, err := os.OpenFile(p, os.O_CREATE|os.O_WRONLY|os.O_APPEND, 0o644)
	if err != nil {
		t.Fatal(err)
	}
	return &vhOut{f: f, w: bufio.NewWriterSize(f, 1<<20)}
}

func (o *vhOut) Emit(v interface{}) {
	b, err := json.Marshal(v)
	if err != nil {
		panic(err)
	}
	o.mu.Lock()
	o.w.Write(b)
	o.w.WriteByte('\n')
	o.n++
	o.mu.Unlock()
}

func (o *vhOut) Close() {
	o.mu.Lock()
	o.w.Flush()
	o.f.Close()
	o.mu.Unlock()
}

func vhSeed() int64 {
	s, err := strconv.ParseInt(os.Getenv("VERIF_SEED"), 10, 64)
	if err != nil {
		return 1
	}
	return s
}

func vhRand() *rand.Rand { return rand.New(rand.NewSource(vhSeed())) }

func vhThorough() bool { return os.Getenv("VERIF_TIER") == "thorough" }

// vhBytes renders arbitrary bytes as a JSON array of numbers (strings are not UTF-8 safe).
func vhBytes(b []byte) []int {
	out := make([]int, len(b))
	for i, c := range b {
		out[i] = int(c)
	}
	return out
}

// vhFrame builds size[4] type[1] tag[2] body.
func vhFrame(typ byte, tag uint16, body []byte) []byte {
	b := make([]byte, 7+len(body))
	binary.LittleEndian.PutUint32(b, uint32(len(b)))
	b[4] = typ
	binary.LittleEndian.PutUint16(b[5:], tag)
	copy(b[7:], body)
	return b
}

// vhReadFrame reads one frame from c with a deadline; returns type, tag, body.
func vhReadFrame(c net.Conn, d time.Duration) (byte, uint16, []byte, error) {
	c.SetReadDeadline(time.Now().Add(d))
	var hdr [7]byte
	if _, err := io.ReadFull(c, hdr[:]); err != nil {
		return 0, 0, nil, err
	}
	size := binary.LittleEndian.Uint32(hdr[:])
	if size < 7 || size > 64<<20 {
		return hdr[4], binary.LittleEndian.Uint16(hdr[5:]), nil, io.ErrUnexpectedEOF
	}
	body := make([]byte, size-7)
	if _, err := io.ReadFull(c, body); err != nil {
		return hdr[4], binary.LittleEndian.Uint16(hdr[5:]), nil, err
	}
	return hdr[4], binary.LittleEndian.Uint16(hdr[5:]), body, nil
}

func vhPutString(b []byte, s string) []byte {
	b = append(b, byte(len(s)), byte(len(s)>>8))
	return append(b, s...)
}

func vhLE32(v uint32) []byte { b := make([]byte, 4); binary.LittleEndian.PutUint32(b, v); return b }
func vhLE64(v uint64) []byte { b := make([]byte, 8); binary.LittleEndian.PutUint64(b, v); return b }
func vhLE16(v uint16) []byte { b := make([]byte, 2); binary.LittleEndian.PutUint16(b, v); return b }

// vhRandSeed returns a PRNG for an explicit seed (derived from VERIF_SEED by the caller).
func vhRandSeed(seed int64) *rand.Rand { return rand.New(rand.NewSource(seed)) }

// Flush writes buffered observations to the file (harnesses whose subject may crash the test binary).
func (o *vhOut) Flush() {
	o.mu.Lock()
	o.w.Flush()
	o.mu.Unlock()
}
