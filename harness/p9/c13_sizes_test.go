package p9

// C13 correspondence harness: raw Tread/Treaddir against a real Server (size field of
// every reply), and a real Client against a fake server announcing a smaller msize
// (size of every frame it sends).

import (
	"encoding/binary"
	"io"
	"net"
	"testing"
	"time"

	"github.com/hugelgupf/p9/linux"
)

// ---- server side: a minimal backend -------------------------------------------------

type vh13FS struct {
	xattr    []byte
	fsize    int64
	names    []string
	honour   bool  // Readdir honours count (otherwise returns every entry from offset on)
	lastRet  []int // encoded sizes of the Dirents the last Readdir returned
	lastRead int   // len(p) of the last ReadAt
}

type vh13File struct {
	File // nil: any other method panics (the server answers EFAULT)
	fs   *vh13FS
	kind int // 0 root, 1 file, 2 directory
}

func (f *vh13File) qid() QID {
	t := TypeRegular
	if f.kind != 1 {
		t = TypeDir
	}
	return QID{Type: t, Path: uint64(f.kind + 1)}
}

func (f *vh13File) Attach() (File, error) { return &vh13File{fs: f.fs, kind: 0}, nil }

func (f *vh13File) Walk(names []string) ([]QID, File, error) {
	if len(names) == 0 {
		return nil, &vh13File{fs: f.fs, kind: f.kind}, nil
	}
	if len(names) != 1 || f.kind != 0 {
		return nil, nil, linux.ENOENT
	}
	var n *vh13File
	switch names[0] {
	case "f":
		n = &vh13File{fs: f.fs, kind: 1}
	case "d":
		n = &vh13File{fs: f.fs, kind: 2}
	default:
		return nil, nil, linux.ENOENT
	}
	return []QID{n.qid()}, n, nil
}

func (f *vh13File) WalkGetAttr([]string) ([]QID, File, AttrMask, Attr, error) {
	return nil, nil, AttrMask{}, Attr{}, linux.ENOSYS
}

func (f *vh13File) GetAttr(req AttrMask) (QID, AttrMask, Attr, error) {
	m := FileMode(0o755) | ModeDirectory
	if f.kind == 1 {
		m = FileMode(0o644) | ModeRegular
	}
	return f.qid(), AttrMask{Mode: true, Size: true}, Attr{Mode: m, Size: uint64(f.fs.fsize)}, nil
}

func (f *vh13File) GetXattr(name string) ([]byte, error) { return f.fs.xattr, nil }

func (f *vh13File) Open(mode OpenFlags) (QID, uint32, error) { return f.qid(), 0, nil }
func (f *vh13File) Close() error                             { return nil }
func (f *vh13File) Renamed(File, string)                     {}

func (f *vh13File) ReadAt(p []byte, offset int64) (int, error) {
	f.fs.lastRead = len(p)
	if offset >= f.fs.fsize {
		return 0, io.EOF
	}
	n := int64(len(p))
	if f.fs.fsize-offset < n {
		n = f.fs.fsize - offset
	}
	for i := int64(0); i < n; i++ {
		p[i] = byte(offset + i)
	}
	return int(n), nil
}

func (f *vh13File) Readdir(offset uint64, count uint32) (Dirents, error) {
	var out Dirents
	f.fs.lastRet = nil
	total := 0
	for i := int(offset); i < len(f.fs.names); i++ {
		sz := 24 + len(f.fs.names[i])
		if f.fs.honour && total+sz > int(count) {
			break
		}
		total += sz
		out = append(out, Dirent{QID: QID{Path: uint64(100 + i)}, Offset: uint64(i + 1), Type: TypeRegular, Name: f.fs.names[i]})
		f.fs.lastRet = append(f.fs.lastRet, sz)
	}
	return out, nil
}

type vh13Conn struct {
	c    net.Conn
	done chan struct{}
	tag  uint16
}

// rpc: errk 0 answered, 1 connection lost / unreadable reply, 2 no answer within the deadline
func (v *vh13Conn) rpc(typ byte, body []byte) (byte, []byte, uint32, int) {
	v.tag++
	if _, err := v.c.Write(vhFrame(typ, v.tag, body)); err != nil {
		return 0, nil, 0, 1
	}
	v.c.SetReadDeadline(time.Now().Add(15 * time.Second))
	kind := func(err error) int {
		if ne, ok := err.(net.Error); ok && ne.Timeout() {
			return 2
		}
		return 1
	}
	var hdr [7]byte
	if _, err := io.ReadFull(v.c, hdr[:]); err != nil {
		return 0, nil, 0, kind(err)
	}
	size := binary.LittleEndian.Uint32(hdr[:])
	if size < 7 || size > 64<<20 {
		return hdr[4], nil, size, 1
	}
	rb := make([]byte, size-7)
	if _, err := io.ReadFull(v.c, rb); err != nil {
		return hdr[4], nil, size, kind(err)
	}
	return hdr[4], rb, size, 0
}

func (v *vh13Conn) close() {
	v.c.Close()
	select {
	case <-v.done:
	case <-time.After(10 * time.Second):
	}
}

type vh13TV struct {
	MSize uint32 `json:"msize"`
	OK    bool   `json:"ok"` // acceptable version string
}

// vh13S: a connection to a real Server on which a history of Tversions has been played; the first is
// followed by attach, walk+open of the file (fid 1) and the directory (fid 2) and, if the backend has
// an xattr value, Txattrwalk (fid 3); the later Tversions come after that.
type vh13S struct {
	fs        *vh13FS
	hist      []vh13TV
	v         *vh13Conn
	announced []uint32 // msize of every Rversion received
	ann       uint32   // the last one that announced an msize
	ok        bool
	stalls    int
}

func (s *vh13S) version(t vh13TV) bool {
	ver := "9P2000.L.Google.7"
	if !t.OK {
		ver = "9P1999.bogus"
	}
	typ, rb, _, ek := s.v.rpc(byte(msgTversion), vhPutString(vhLE32(t.MSize), ver))
	if ek != 0 || typ != byte(msgRversion) || len(rb) < 4 {
		return false
	}
	m := binary.LittleEndian.Uint32(rb)
	s.announced = append(s.announced, m)
	if m != 0 {
		s.ann = m
	}
	return true
}

func (s *vh13S) open() {
	s.ok = false
	s.announced = nil
	s.ann = 0
	a, b, err := vh02SocketPair()
	if err != nil {
		panic(err)
	}
	srv := NewServer(&vh13File{fs: s.fs})
	s.v = &vh13Conn{c: a, done: make(chan struct{})}
	v := s.v
	go func() { srv.Handle(b, b); close(v.done) }()
	if !s.version(s.hist[0]) {
		return
	}
	att := append(vhLE32(0), vhLE32(uint32(noFID))...)
	att = vhPutString(att, "")
	att = vhPutString(att, "")
	att = append(att, vhLE32(0)...)
	if typ, _, _, ek := v.rpc(byte(msgTattach), att); ek != 0 || typ != byte(msgRattach) {
		return
	}
	for i, name := range []string{"f", "d"} {
		w := append(vhLE32(0), vhLE32(uint32(i+1))...)
		w = append(w, vhLE16(1)...)
		w = vhPutString(w, name)
		if typ, _, _, ek := v.rpc(byte(msgTwalk), w); ek != 0 || typ != byte(msgRwalk) {
			return
		}
		if typ, _, _, ek := v.rpc(byte(msgTlopen), append(vhLE32(uint32(i+1)), vhLE32(0)...)); ek != 0 || typ != byte(msgRlopen) {
			return
		}
	}
	if s.fs.xattr != nil {
		w := append(vhLE32(1), vhLE32(3)...)
		w = vhPutString(w, "v")
		if typ, _, _, ek := v.rpc(byte(msgTxattrwalk), w); ek != 0 || typ != byte(msgRxattrwalk) {
			return
		}
	}
	for _, t := range s.hist[1:] {
		if !s.version(t) {
			return
		}
	}
	s.ok = true
}

// do sends one request.  "Blocked" is only concluded in the direction model-says-it-returns, and only
// after the same request went unanswered on three fresh connections (15 s each).
func (s *vh13S) do(typ byte, body []byte) (byte, []byte, uint32, int) {
	for try := 0; ; try++ {
		rt, rb, size, ek := s.v.rpc(typ, body)
		if ek != 2 {
			return rt, rb, size, ek
		}
		s.stalls++
		s.v.close()
		s.open()
		if try == 2 || !s.ok {
			return rt, rb, size, 2
		}
	}
}

func vh13Hist(h []vh13TV) []vh13TV { return append([]vh13TV{}, h...) }

func vh13Counts(m uint32) []uint32 {
	c := []uint32{0, 1, 12, m - 12, m - 11, m - 10, m - 1, m, m + 1, maximumLength - 11, maximumLength, maximumLength + 1, 1<<32 - 1, m / 2}
	seen := map[uint32]bool{}
	var out []uint32
	for _, x := range c {
		if !seen[x] {
			seen[x] = true
			out = append(out, x)
		}
	}
	return out
}

func vh13Errno(typ byte, rb []byte) int {
	if typ == byte(msgRlerror) && len(rb) >= 4 {
		return int(binary.LittleEndian.Uint32(rb))
	}
	return 0
}

// vh13Reads: Tread on the file and on the xattr fid, Treaddir, for the given counts, on one session.
func vh13Reads(o *vhOut, id *int, s *vh13S, counts []uint32, offs []uint64) {
	emit := func(rec map[string]interface{}) {
		*id++
		rec["id"] = *id
		rec["hist"] = vh13Hist(s.hist)
		rec["ann"] = s.ann
		rec["stalls"] = s.stalls
		o.Emit(rec)
	}
	for ci, cnt := range counts {
		for _, off := range offs {
			if !s.ok {
				return
			}
			if s.fs.xattr != nil {
				if off > 1<<40 && ci%3 != 0 && cnt != 2 { // wrapping offsets: a third of the counts
					continue
				}
				body := append(vhLE32(3), vhLE64(off)...)
				body = append(body, vhLE32(cnt)...)
				typ, rb, size, ek := s.do(byte(msgTread), body)
				rec := map[string]interface{}{"kind": "sxread", "count": cnt, "off": off, "vlen": len(s.fs.xattr),
					"rtype": int(typ), "rsize": size, "rcount": -1, "err": ek, "errno": vh13Errno(typ, rb)}
				if ek == 0 && typ == byte(msgRread) && len(rb) >= 4 {
					rec["rcount"] = binary.LittleEndian.Uint32(rb)
				}
				emit(rec)
				continue
			}
			if s.fs.names == nil {
				if off > 1<<40 {
					continue
				}
				body := append(vhLE32(1), vhLE64(off)...)
				body = append(body, vhLE32(cnt)...)
				s.fs.lastRead = -1
				typ, rb, size, ek := s.do(byte(msgTread), body)
				rec := map[string]interface{}{"kind": "sread", "count": cnt, "fsize": s.fs.fsize, "off": off,
					"rtype": int(typ), "rsize": size, "rcount": -1, "err": ek, "errno": vh13Errno(typ, rb), "asked": s.fs.lastRead}
				if ek == 0 && typ == byte(msgRread) && len(rb) >= 4 {
					rec["rcount"] = binary.LittleEndian.Uint32(rb)
				}
				emit(rec)
				continue
			}
			if off != 0 {
				continue
			}
			body := append(vhLE32(2), vhLE64(0)...)
			body = append(body, vhLE32(cnt)...)
			typ, rb, size, ek := s.do(byte(msgTreaddir), body)
			rec := map[string]interface{}{"kind": "sreaddir", "count": cnt, "honour": s.fs.honour, "nent": len(s.fs.names),
				"sizes": s.fs.lastRet, "rtype": int(typ), "rsize": size, "rcount": -1, "err": ek}
			if ek == 0 && typ == byte(msgRreaddir) && len(rb) >= 4 {
				rec["rcount"] = binary.LittleEndian.Uint32(rb)
			}
			emit(rec)
		}
	}
}

func vh13Names(nent int) []string {
	names := make([]string, nent)
	for i := range names {
		names[i] = "e" + string(rune('a'+i%26)) + string(make([]byte, (i*7)%13))
	}
	return names
}

func vh13Run(o *vhOut, id *int, fs *vh13FS, hist []vh13TV, counts []uint32, offs []uint64) {
	s := &vh13S{fs: fs, hist: hist}
	s.open()
	*id++
	if !s.ok {
		o.Emit(map[string]interface{}{"kind": "ssetup", "id": *id, "hist": hist, "ok": false})
		s.v.close()
		return
	}
	o.Emit(map[string]interface{}{"kind": "shist", "id": *id, "hist": hist, "announced": s.announced})
	vh13Reads(o, id, s, counts, offs)
	s.v.close()
}

func vh13Server(o *vhOut, thorough bool) {
	msizes := []uint32{23, 24, 34, 35, 64, 153, 154, 665, 4096, 65536, maximumLength, 1<<32 - 1}
	if !thorough {
		msizes = []uint32{23, 35, 154, 4096, 65536, maximumLength, 1<<32 - 1}
	}
	id := 0
	one := func(m uint32) []vh13TV { return []vh13TV{{m, true}} }
	for _, req := range msizes {
		eff := req
		if eff > maximumLength {
			eff = maximumLength
		}
		fsizes := []int64{0, 1, 100, int64(eff) - 12, int64(eff) - 11, int64(eff) - 10, int64(eff), int64(eff) + 100}
		if !thorough {
			fsizes = []int64{0, 100, int64(eff) - 11, int64(eff) + 100}
		}
		for _, fsz := range fsizes {
			if fsz < 0 {
				continue
			}
			vh13Run(o, &id, &vh13FS{fsize: fsz}, one(req), vh13Counts(eff), []uint64{0, 7})
		}
		// Tread on an xattr fid: values around msize-11, counts up to the value length and beyond,
		// offsets up to 2^64-1 (Offset+Count wrapping in 64 bits)
		if eff <= 1<<20 || thorough {
			vlens := []int64{0, 5, int64(eff) - 12, int64(eff) - 11, int64(eff) - 10, int64(eff), int64(eff) + 50, 2 * int64(eff)}
			if !thorough {
				vlens = []int64{0, 10, int64(eff) - 11, int64(eff), int64(eff) + 50}
			}
			for _, vl := range vlens {
				if vl < 0 || vl > int64(maximumLength) { // Txattrwalk refuses values above maximumLength (EINVAL)
					continue
				}
				counts := append(vh13Counts(eff), uint32(vl), uint32(vl)+1, uint32(vl)-7, 2)
				offs := []uint64{0, 7, uint64(vl), uint64(vl) + 1, 1<<64 - 1, 1<<64 - 2, ^uint64(0) - uint64(eff) + 1, 1<<63 + 3, 1<<32 + 1}
				if !thorough {
					offs = []uint64{0, 7, uint64(vl) + 1, 1<<64 - 1, 1<<64 - 2, ^uint64(0) - uint64(eff) + 1}
				}
				vh13Run(o, &id, &vh13FS{xattr: make([]byte, vl)}, one(req), counts, offs)
			}
		}
		// directories: entry names of mixed lengths; total size on both sides of the limit
		for _, honour := range []bool{false, true} {
			for _, nent := range []int{0, 1, 3, int(eff)/30 + 5, int(eff)/24 + 50} {
				if nent > 6000 && !(thorough && nent < 200000) {
					nent = 6000
				}
				vh13Run(o, &id, &vh13FS{names: vh13Names(nent), honour: honour}, one(req), vh13Counts(eff), []uint64{0})
			}
		}
	}
	// renegotiation: several Tversions on one connection (smaller, larger, refused ones in between);
	// the bound is the msize of the LAST Rversion that announced one
	hists := [][]vh13TV{
		{{65536, true}, {4096, true}},
		{{4096, true}, {65536, true}},
		{{65536, true}, {4096, false}, {1024, true}},
		{{65536, true}, {0, true}, {256, true}},
		{{8192, true}, {256, true}, {4096, true}},
		{{maximumLength, true}, {64, true}},
		{{1024, true}, {1<<32 - 1, true}},
		{{65536, true}, {4096, true}, {300, false}},
		{{512, true}, {512, true}},
	}
	if thorough {
		hists = append(hists, [][]vh13TV{
			{{65536, true}, {65535, true}, {65534, true}}, {{100, true}, {99, true}}, {{maximumLength, true}, {maximumLength + 1, true}, {35, true}},
			{{65536, false}, {4096, true}}, {{4096, true}, {0, false}, {8192, true}, {153, true}},
		}...)
	}
	for _, h := range hists {
		var counts []uint32
		seen := map[uint32]bool{}
		add := func(xs ...uint32) {
			for _, x := range xs {
				if !seen[x] {
					seen[x] = true
					counts = append(counts, x)
				}
			}
		}
		for _, t := range h { // counts around EVERY msize of the history, not only the last
			m := t.MSize
			if m > maximumLength {
				m = maximumLength
			}
			add(m-12, m-11, m-10, m, m+1)
		}
		add(0, 1, 60000, maximumLength, 1<<32-1)
		big := int64(70000)
		vh13Run(o, &id, &vh13FS{fsize: big}, h, counts, []uint64{0, 7})
		vh13Run(o, &id, &vh13FS{xattr: make([]byte, big)}, h, counts, []uint64{0, 1<<64 - 1})
		vh13Run(o, &id, &vh13FS{names: vh13Names(3000), honour: false}, h, counts, []uint64{0})
	}
}

// ---- client side: fake server ---------------------------------------------------------

type vh13Frame struct {
	Type  int    `json:"type"`
	Size  uint32 `json:"size"`
	Count uint32 `json:"count"`
}

type vh13Fake struct {
	announce uint32
	avail    int    // bytes a file / xattr has
	short    uint32 // if > 0: Rwrite acknowledges at most this many bytes
	frames   []vh13Frame
	answers  [][2]int // (n, failed) per Tread/Twrite, as the chunk loop sees them
	replies  []vh13Frame
}

func (f *vh13Fake) serve(c net.Conn) {
	defer c.Close()
	for {
		typ, tg, body, err := vhReadFrame(c, 20*time.Second)
		if err != nil {
			return
		}
		fr := vh13Frame{Type: int(typ), Size: uint32(7 + len(body))}
		var rt byte
		var rb []byte
		switch msgType(typ) {
		case msgTversion:
			rt = byte(msgRversion)
			rb = vhPutString(vhLE32(f.announce), "9P2000.L.Google.7")
		case msgTattach:
			rt = byte(msgRattach)
			rb = make([]byte, 13)
		case msgTxattrwalk:
			rt = byte(msgRxattrwalk)
			rb = vhLE64(uint64(f.avail))
		case msgTclunk:
			rt = byte(msgRclunk)
		case msgTwrite:
			cnt := binary.LittleEndian.Uint32(body[12:])
			fr.Count = cnt
			ack := cnt
			if f.short > 0 && ack > f.short {
				ack = f.short
			}
			f.answers = append(f.answers, [2]int{int(ack), 0})
			rt = byte(msgRwrite)
			rb = vhLE32(ack)
		case msgTread:
			off := binary.LittleEndian.Uint64(body[4:])
			cnt := binary.LittleEndian.Uint32(body[12:])
			fr.Count = cnt
			n := 0
			if int(off) < f.avail {
				n = f.avail - int(off)
			}
			if uint32(n) > cnt {
				n = int(cnt)
			}
			f.answers = append(f.answers, [2]int{n, 0})
			rt = byte(msgRread)
			rb = append(vhLE32(uint32(n)), make([]byte, n)...)
		case msgTreaddir:
			cnt := binary.LittleEndian.Uint32(body[12:])
			fr.Count = cnt
			// fill the count as far as whole 32-byte entries go
			var ents []byte
			for i := 0; len(ents)+32 <= int(cnt) && i < 20000; i++ {
				e := make([]byte, 13)
				e = append(e, vhLE64(uint64(i+1))...)
				e = append(e, 8)
				e = vhPutString(e, "entry"+string([]byte{byte('a' + i%26), byte('a' + (i/26)%26), byte('a' + (i/676)%26)}))
				ents = append(ents, e...)
			}
			rt = byte(msgRreaddir)
			rb = append(vhLE32(uint32(len(ents))), ents...)
		default:
			rt = byte(msgRlerror)
			rb = vhLE32(uint32(linux.ENOSYS))
		}
		f.frames = append(f.frames, fr)
		out := vhFrame(rt, tg, rb)
		f.replies = append(f.replies, vh13Frame{Type: int(rt), Size: uint32(len(out))})
		if _, err := c.Write(out); err != nil {
			return
		}
	}
}

// vh13Client: a client that stops answering is only reported after three attempts all ran into the
// watchdog (the model says every one of these calls returns).
func vh13Client(o *vhOut, id *int, req, announce uint32, op string, n int, avail int, short uint32) {
	var rec map[string]interface{}
	for try := 0; try < 3; try++ {
		rec = vh13ClientOnce(req, announce, op, n, avail, short)
		if rec["hang"] != true {
			break
		}
	}
	*id++
	rec["id"] = *id
	o.Emit(rec)
}

func vh13ClientOnce(req, announce uint32, op string, n int, avail int, short uint32) map[string]interface{} {
	cc, sc := net.Pipe()
	fake := &vh13Fake{announce: announce, avail: avail, short: short}
	done := make(chan struct{})
	go func() { fake.serve(sc); close(done) }()
	rec := map[string]interface{}{"kind": "client", "req": req, "announce": announce, "op": op, "n": n, "avail": avail, "short": short}
	type outT struct {
		result  string
		msize   uint32
		payload uint32
		ret     int
		operr   string
	}
	ch := make(chan outT, 1)
	// the whole client side runs under a watchdog: a client that stops answering (e.g. after it
	// refused an over-long reply) must not stall the harness; the frames it sent are still recorded
	go func() {
		var out outT
		c, err := NewClient(cc, WithMessageSize(req))
		if err != nil {
			out.result = "refused"
			if _, ok := err.(*ErrMessageTooLarge); ok {
				out.result = "toosmall"
			}
			ch <- out
			return
		}
		out.result = "ok"
		out.msize = c.messageSize
		out.payload = c.payloadSize
		root, err := c.Attach("")
		if err == nil {
			switch op {
			case "write":
				out.ret, err = root.WriteAt(make([]byte, n), 0)
			case "read":
				out.ret, err = root.ReadAt(make([]byte, n), 0)
			case "readdir":
				var d Dirents
				d, err = root.Readdir(0, uint32(n))
				out.ret = len(d)
			case "getxattr":
				var b []byte
				b, err = root.GetXattr("user.x")
				out.ret = len(b)
			}
		}
		if err != nil && err != io.EOF {
			out.operr = err.Error()
		}
		ch <- out
	}()
	var out outT
	hang := false
	select {
	case out = <-ch:
	case <-time.After(10 * time.Second):
		hang = true
		out.result = "ok"
	}
	cc.Close()
	sc.Close()
	<-done
	if hang {
		select {
		case out = <-ch:
		case <-time.After(2 * time.Second):
		}
		if out.result == "" {
			out.result = "ok"
		}
	}
	rec["result"] = out.result
	rec["hang"] = hang
	rec["msize"] = out.msize
	rec["payload"] = out.payload
	rec["ret"] = out.ret
	rec["operr"] = out.operr
	var later []vh13Frame
	for _, fr := range fake.frames {
		if t := msgType(fr.Type); t == msgTwrite || t == msgTread || t == msgTreaddir {
			later = append(later, fr)
		}
	}
	rec["frames"] = later
	rec["all"] = fake.frames
	rec["replies"] = fake.replies
	rec["answers"] = fake.answers
	return rec
}

func TestVerifC13(t *testing.T) {
	o := vhOpen(t)
	defer o.Close()
	r := vhRand()
	thorough := vhThorough()
	o.Emit(map[string]interface{}{"kind": "consts", "id": 0, "largestFixedSize": msgDotLRegistry.largestFixedSize,
		"headerLength": headerLength, "maximumLength": maximumLength,
		"tread": len(vh02Encode(1, &tread{})), "twrite0": len(vh02Encode(1, &twrite{})), "treaddir": len(vh02Encode(1, &treaddir{})),
		"rread0": len(vh02Encode(1, &rread{})), "rreaddir0": len(vh02Encode(1, &rreaddir{})), "rlerror": len(vh02Encode(1, &rlerror{}))})

	vh13Server(o, thorough)

	id := 100000
	reqs := []uint32{154, 1024, 8192, 65536}
	if !thorough {
		reqs = []uint32{154, 1024, 65536}
	}
	for _, req := range reqs {
		oldPay := roundDown(req-153, 512)
		anns := []uint32{req, req - 1, 0, 153, 154, 155, 665, 666, 1200, req + 100, req / 2, 1<<32 - 1,
			oldPay, oldPay + 11, oldPay + 22, oldPay + 23, 512 + 11, 512 + 22, 1024 + 15, 523, 524}
		for _, ann := range anns {
			m := req
			if ann < req {
				m = ann
			}
			pay := 0
			if m > 153 {
				pay = int(roundDown(m-153, 512))
			}
			ns := []int{0, 1, pay - 1, pay, pay + 1, 2*pay + 3, 3 * pay}
			if !thorough {
				ns = []int{0, pay, pay + 1, 2*pay + 3}
			}
			for _, n := range ns {
				if n < 0 {
					continue
				}
				vh13Client(o, &id, req, ann, "write", n, 0, 0)
				vh13Client(o, &id, req, ann, "read", n, n+5, 0)
				if m <= 153 {
					break
				}
			}
			if m <= 153 {
				continue
			}
			vh13Client(o, &id, req, ann, "write", 2*pay+7, 0, uint32(1+r.Intn(pay)))
			vh13Client(o, &id, req, ann, "read", 3*pay, pay+pay/2, 0)
			rdCounts := []uint32{0, 31, 32, m - 12, m - 11, m - 10, m, m + 1, 1 << 20, 1<<32 - 1}
			if !thorough {
				rdCounts = []uint32{32, m - 12, m - 11, m - 10, m + 1, 1<<32 - 1}
			}
			for _, cnt := range rdCounts {
				vh13Client(o, &id, req, ann, "readdir", int(cnt), 0, 0)
			}
			xs := []int{0, 1, pay, pay + 1, 2*pay + 1}
			if !thorough {
				xs = []int{0, pay + 1, 2*pay + 1}
			}
			for _, sz := range xs {
				vh13Client(o, &id, req, ann, "getxattr", 0, sz, 0)
			}
		}
	}
}
