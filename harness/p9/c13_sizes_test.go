package p9

// C13 correspondence harness: raw Tread/Treaddir against a real Server (size field of
// every reply), and a real Client against a fake server announcing a smaller msize
// (size of every frame it sends).

import (
	"encoding/binary"
	"io"
	"net"
	"testing"
	"time"

	"github.com/hugelgupf/p9/linux"
)

// ---- server side: a minimal backend -------------------------------------------------

type vh13FS struct {
	xattr    []byte
	fsize    int64
	names    []string
	honour   bool  // Readdir honours count (otherwise returns every entry from offset on)
	lastRet  []int // encoded sizes of the Dirents the last Readdir returned
	lastRead int   // len(p) of the last ReadAt
}

type vh13File struct {
	File // nil: any other method panics (the server answers EFAULT)
	fs   *vh13FS
	kind int // 0 root, 1 file, 2 directory
}

func (f *vh13File) qid() QID {
	t := TypeRegular
	if f.kind != 1 {
		t = TypeDir
	}
	return QID{Type: t, Path: uint64(f.kind + 1)}
}

func (f *vh13File) Attach() (File, error) { return &vh13File{fs: f.fs, kind: 0}, nil }

func (f *vh13File) Walk(names []string) ([]QID, File, error) {
	if len(names) == 0 {
		return nil, &vh13File{fs: f.fs, kind: f.kind}, nil
	}
	if len(names) != 1 || f.kind != 0 {
		return nil, nil, linux.ENOENT
	}
	var n *vh13File
	switch names[0] {
	case "f":
		n = &vh13File{fs: f.fs, kind: 1}
	case "d":
		n = &vh13File{fs: f.fs, kind: 2}
	default:
		return nil, nil, linux.ENOENT
	}
	return []QID{n.qid()}, n, nil
}

func (f *vh13File) WalkGetAttr([]string) ([]QID, File, AttrMask, Attr, error) {
	return nil, nil, AttrMask{}, Attr{}, linux.ENOSYS
}

func (f *vh13File) GetAttr(req AttrMask) (QID, AttrMask, Attr, error) {
	m := FileMode(0o755) | ModeDirectory
	if f.kind == 1 {
		m = FileMode(0o644) | ModeRegular
	}
	return f.qid(), AttrMask{Mode: true, Size: true}, Attr{Mode: m, Size: uint64(f.fs.fsize)}, nil
}

func (f *vh13File) GetXattr(name string) ([]byte, error) { return f.fs.xattr, nil }

func (f *vh13File) Open(mode OpenFlags) (QID, uint32, error) { return f.qid(), 0, nil }
func (f *vh13File) Close() error                             { return nil }
func (f *vh13File) Renamed(File, string)                     {}

func (f *vh13File) ReadAt(p []byte, offset int64) (int, error) {
	f.fs.lastRead = len(p)
	if offset >= f.fs.fsize {
		return 0, io.EOF
	}
	n := int64(len(p))
	if f.fs.fsize-offset < n {
		n = f.fs.fsize - offset
	}
	for i := int64(0); i < n; i++ {
		p[i] = byte(offset + i)
	}
	return int(n), nil
}

func (f *vh13File) Readdir(offset uint64, count uint32) (Dirents, error) {
	var out Dirents
	f.fs.lastRet = nil
	total := 0
	for i := int(offset); i < len(f.fs.names); i++ {
		sz := 24 + len(f.fs.names[i])
		if f.fs.honour && total+sz > int(count) {
			break
		}
		total += sz
		out = append(out, Dirent{QID: QID{Path: uint64(100 + i)}, Offset: uint64(i + 1), Type: TypeRegular, Name: f.fs.names[i]})
		f.fs.lastRet = append(f.fs.lastRet, sz)
	}
	return out, nil
}

type vh13Conn struct {
	c    net.Conn
	done chan struct{}
	tag  uint16
}

func (v *vh13Conn) rpc(typ byte, body []byte) (byte, []byte, uint32, error) {
	v.tag++
	if _, err := v.c.Write(vhFrame(typ, v.tag, body)); err != nil {
		return 0, nil, 0, err
	}
	v.c.SetReadDeadline(time.Now().Add(10 * time.Second))
	var hdr [7]byte
	if _, err := io.ReadFull(v.c, hdr[:]); err != nil {
		return 0, nil, 0, err
	}
	size := binary.LittleEndian.Uint32(hdr[:])
	if size < 7 || size > 64<<20 {
		return hdr[4], nil, size, io.ErrUnexpectedEOF
	}
	rb := make([]byte, size-7)
	if _, err := io.ReadFull(v.c, rb); err != nil {
		return hdr[4], nil, size, err
	}
	return hdr[4], rb, size, nil
}

// vh13Session: Tversion(msize), attach, walk+open the file (fid 1) and the directory (fid 2).
func vh13Session(fs *vh13FS, msize uint32) (*vh13Conn, uint32, bool) {
	a, b, err := vh02SocketPair()
	if err != nil {
		panic(err)
	}
	srv := NewServer(&vh13File{fs: fs})
	v := &vh13Conn{c: a, done: make(chan struct{})}
	go func() { srv.Handle(b, b); close(v.done) }()
	body := vhPutString(vhLE32(msize), "9P2000.L.Google.7")
	typ, rb, _, err := v.rpc(byte(msgTversion), body)
	if err != nil || typ != byte(msgRversion) || len(rb) < 4 {
		return v, 0, false
	}
	ann := binary.LittleEndian.Uint32(rb)
	att := append(vhLE32(0), vhLE32(uint32(noFID))...)
	att = vhPutString(att, "")
	att = vhPutString(att, "")
	att = append(att, vhLE32(0)...)
	if typ, _, _, err = v.rpc(byte(msgTattach), att); err != nil || typ != byte(msgRattach) {
		return v, ann, false
	}
	for i, name := range []string{"f", "d"} {
		w := append(vhLE32(0), vhLE32(uint32(i+1))...)
		w = append(w, vhLE16(1)...)
		w = vhPutString(w, name)
		if typ, _, _, err = v.rpc(byte(msgTwalk), w); err != nil || typ != byte(msgRwalk) {
			return v, ann, false
		}
		if typ, _, _, err = v.rpc(byte(msgTlopen), append(vhLE32(uint32(i+1)), vhLE32(0)...)); err != nil || typ != byte(msgRlopen) {
			return v, ann, false
		}
	}
	return v, ann, true
}

func (v *vh13Conn) close() {
	v.c.Close()
	select {
	case <-v.done:
	case <-time.After(10 * time.Second):
	}
}

func vh13Counts(m uint32) []uint32 {
	c := []uint32{0, 1, 12, m - 12, m - 11, m - 10, m - 1, m, m + 1, maximumLength - 11, maximumLength, maximumLength + 1, 1<<32 - 1, m / 2}
	seen := map[uint32]bool{}
	var out []uint32
	for _, x := range c {
		if !seen[x] {
			seen[x] = true
			out = append(out, x)
		}
	}
	return out
}

func vh13Server(o *vhOut, thorough bool) {
	msizes := []uint32{23, 24, 34, 35, 64, 153, 154, 665, 4096, 65536, maximumLength, 1<<32 - 1}
	if !thorough {
		msizes = []uint32{23, 35, 154, 4096, 65536, maximumLength, 1<<32 - 1}
	}
	id := 0
	for _, req := range msizes {
		eff := req
		if eff > maximumLength {
			eff = maximumLength
		}
		fsizes := []int64{0, 1, 100, int64(eff) - 12, int64(eff) - 11, int64(eff) - 10, int64(eff), int64(eff) + 100}
		if !thorough {
			fsizes = []int64{0, 100, int64(eff) - 11, int64(eff) + 100}
		}
		for _, fsz := range fsizes {
			if fsz < 0 {
				continue
			}
			fs := &vh13FS{fsize: fsz}
			v, ann, ok := vh13Session(fs, req)
			if !ok {
				id++
				o.Emit(map[string]interface{}{"kind": "ssetup", "id": id, "req": req, "ann": ann, "ok": false})
				v.close()
				continue
			}
			for _, cnt := range vh13Counts(eff) {
				for _, off := range []uint64{0, 7} {
					if off > 0 && cnt%5 != 0 {
						continue
					}
					body := append(vhLE32(1), vhLE64(off)...)
					body = append(body, vhLE32(cnt)...)
					fs.lastRead = -1
					typ, rb, size, err := v.rpc(byte(msgTread), body)
					id++
					rec := map[string]interface{}{"kind": "sread", "id": id, "req": req, "ann": ann, "count": cnt, "fsize": fsz, "off": off,
						"rtype": int(typ), "rsize": size, "rcount": -1, "err": err != nil, "asked": fs.lastRead}
					if err == nil && typ == byte(msgRread) && len(rb) >= 4 {
						rec["rcount"] = binary.LittleEndian.Uint32(rb)
						rec["bodylen"] = len(rb) - 4
					}
					o.Emit(rec)
					if err != nil {
						break
					}
				}
			}
			v.close()
		}
		// Tread on an xattr fid: values around msize-11, counts up to the value length and beyond
		if eff <= 1<<20 || thorough {
			vlens := []int64{0, 5, int64(eff) - 12, int64(eff) - 11, int64(eff) - 10, int64(eff), int64(eff) + 50, 2 * int64(eff)}
			if !thorough {
				vlens = []int64{0, int64(eff) - 11, int64(eff), int64(eff) + 50}
			}
			for _, vl := range vlens {
				if vl < 0 || vl > int64(maximumLength) { // Txattrwalk refuses values above maximumLength (EINVAL)
					continue
				}
				fs := &vh13FS{xattr: make([]byte, vl)}
				v, ann, ok := vh13Session(fs, req)
				if !ok {
					v.close()
					continue
				}
				w := append(vhLE32(1), vhLE32(3)...)
				w = vhPutString(w, "v")
				if typ, _, _, err := v.rpc(byte(msgTxattrwalk), w); err != nil || typ != byte(msgRxattrwalk) {
					id++
					o.Emit(map[string]interface{}{"kind": "ssetup", "id": id, "req": req, "ann": ann, "ok": false})
					v.close()
					continue
				}
				counts := append(vh13Counts(eff), uint32(vl), uint32(vl)+1, uint32(vl)-7)
				for _, cnt := range counts {
					for _, off := range []uint64{0, 7} {
						body := append(vhLE32(3), vhLE64(off)...)
						body = append(body, vhLE32(cnt)...)
						typ, rb, size, err := v.rpc(byte(msgTread), body)
						id++
						rec := map[string]interface{}{"kind": "sxread", "id": id, "req": req, "ann": ann, "count": cnt, "off": off, "vlen": vl,
							"rtype": int(typ), "rsize": size, "rcount": -1, "err": err != nil}
						if err == nil && typ == byte(msgRread) && len(rb) >= 4 {
							rec["rcount"] = binary.LittleEndian.Uint32(rb)
						}
						o.Emit(rec)
						if err != nil {
							break
						}
					}
				}
				v.close()
			}
		}
		// directories: entry names of mixed lengths; total size on both sides of the limit
		for _, honour := range []bool{false, true} {
			for _, nent := range []int{0, 1, 3, int(eff)/30 + 5, int(eff)/24 + 50} {
				if nent > 6000 && !(thorough && nent < 200000) {
					nent = 6000
				}
				names := make([]string, nent)
				for i := range names {
					names[i] = "e" + string(rune('a'+i%26)) + string(make([]byte, (i*7)%13))
				}
				fs := &vh13FS{names: names, honour: honour}
				v, ann, ok := vh13Session(fs, req)
				if !ok {
					v.close()
					continue
				}
				for _, cnt := range vh13Counts(eff) {
					body := append(vhLE32(2), vhLE64(0)...)
					body = append(body, vhLE32(cnt)...)
					typ, rb, size, err := v.rpc(byte(msgTreaddir), body)
					id++
					rec := map[string]interface{}{"kind": "sreaddir", "id": id, "req": req, "ann": ann, "count": cnt, "honour": honour, "nent": nent,
						"sizes": fs.lastRet, "rtype": int(typ), "rsize": size, "rcount": -1, "err": err != nil}
					if err == nil && typ == byte(msgRreaddir) && len(rb) >= 4 {
						rec["rcount"] = binary.LittleEndian.Uint32(rb)
						rec["bodylen"] = len(rb) - 4
					}
					o.Emit(rec)
					if err != nil {
						break
					}
				}
				v.close()
			}
		}
	}
}

// ---- client side: fake server ---------------------------------------------------------

type vh13Frame struct {
	Type  int    `json:"type"`
	Size  uint32 `json:"size"`
	Count uint32 `json:"count"`
}

type vh13Fake struct {
	announce uint32
	avail    int    // bytes a file / xattr has
	short    uint32 // if > 0: Rwrite acknowledges at most this many bytes
	frames   []vh13Frame
	answers  [][2]int // (n, failed) per Tread/Twrite, as the chunk loop sees them
	replies  []vh13Frame
}

func (f *vh13Fake) serve(c net.Conn) {
	defer c.Close()
	for {
		typ, tg, body, err := vhReadFrame(c, 20*time.Second)
		if err != nil {
			return
		}
		fr := vh13Frame{Type: int(typ), Size: uint32(7 + len(body))}
		var rt byte
		var rb []byte
		switch msgType(typ) {
		case msgTversion:
			rt = byte(msgRversion)
			rb = vhPutString(vhLE32(f.announce), "9P2000.L.Google.7")
		case msgTattach:
			rt = byte(msgRattach)
			rb = make([]byte, 13)
		case msgTxattrwalk:
			rt = byte(msgRxattrwalk)
			rb = vhLE64(uint64(f.avail))
		case msgTclunk:
			rt = byte(msgRclunk)
		case msgTwrite:
			cnt := binary.LittleEndian.Uint32(body[12:])
			fr.Count = cnt
			ack := cnt
			if f.short > 0 && ack > f.short {
				ack = f.short
			}
			f.answers = append(f.answers, [2]int{int(ack), 0})
			rt = byte(msgRwrite)
			rb = vhLE32(ack)
		case msgTread:
			off := binary.LittleEndian.Uint64(body[4:])
			cnt := binary.LittleEndian.Uint32(body[12:])
			fr.Count = cnt
			n := 0
			if int(off) < f.avail {
				n = f.avail - int(off)
			}
			if uint32(n) > cnt {
				n = int(cnt)
			}
			f.answers = append(f.answers, [2]int{n, 0})
			rt = byte(msgRread)
			rb = append(vhLE32(uint32(n)), make([]byte, n)...)
		case msgTreaddir:
			cnt := binary.LittleEndian.Uint32(body[12:])
			fr.Count = cnt
			// fill the count as far as whole 32-byte entries go
			var ents []byte
			for i := 0; len(ents)+32 <= int(cnt) && i < 20000; i++ {
				e := make([]byte, 13)
				e = append(e, vhLE64(uint64(i+1))...)
				e = append(e, 8)
				e = vhPutString(e, "entry"+string([]byte{byte('a' + i%26), byte('a' + (i/26)%26), byte('a' + (i/676)%26)}))
				ents = append(ents, e...)
			}
			rt = byte(msgRreaddir)
			rb = append(vhLE32(uint32(len(ents))), ents...)
		default:
			rt = byte(msgRlerror)
			rb = vhLE32(uint32(linux.ENOSYS))
		}
		f.frames = append(f.frames, fr)
		out := vhFrame(rt, tg, rb)
		f.replies = append(f.replies, vh13Frame{Type: int(rt), Size: uint32(len(out))})
		if _, err := c.Write(out); err != nil {
			return
		}
	}
}

func vh13Client(o *vhOut, id *int, req, announce uint32, op string, n int, avail int, short uint32) {
	cc, sc := net.Pipe()
	fake := &vh13Fake{announce: announce, avail: avail, short: short}
	done := make(chan struct{})
	go func() { fake.serve(sc); close(done) }()
	rec := map[string]interface{}{"kind": "client", "req": req, "announce": announce, "op": op, "n": n, "avail": avail, "short": short}
	type outT struct {
		result  string
		msize   uint32
		payload uint32
		ret     int
		operr   string
	}
	ch := make(chan outT, 1)
	// the whole client side runs under a watchdog: a client that stops answering (e.g. after it
	// refused an over-long reply) must not stall the harness; the frames it sent are still recorded
	go func() {
		var out outT
		c, err := NewClient(cc, WithMessageSize(req))
		if err != nil {
			out.result = "refused"
			if _, ok := err.(*ErrMessageTooLarge); ok {
				out.result = "toosmall"
			}
			ch <- out
			return
		}
		out.result = "ok"
		out.msize = c.messageSize
		out.payload = c.payloadSize
		root, err := c.Attach("")
		if err == nil {
			switch op {
			case "write":
				out.ret, err = root.WriteAt(make([]byte, n), 0)
			case "read":
				out.ret, err = root.ReadAt(make([]byte, n), 0)
			case "readdir":
				var d Dirents
				d, err = root.Readdir(0, uint32(n))
				out.ret = len(d)
			case "getxattr":
				var b []byte
				b, err = root.GetXattr("user.x")
				out.ret = len(b)
			}
		}
		if err != nil && err != io.EOF {
			out.operr = err.Error()
		}
		ch <- out
	}()
	var out outT
	hang := false
	select {
	case out = <-ch:
	case <-time.After(8 * time.Second):
		hang = true
		out.result = "ok"
	}
	cc.Close()
	sc.Close()
	<-done
	if hang {
		select {
		case out = <-ch:
		case <-time.After(2 * time.Second):
		}
		if out.result == "" {
			out.result = "ok"
		}
	}
	*id++
	rec["id"] = *id
	rec["result"] = out.result
	rec["hang"] = hang
	rec["msize"] = out.msize
	rec["payload"] = out.payload
	rec["ret"] = out.ret
	rec["operr"] = out.operr
	var later []vh13Frame
	for _, fr := range fake.frames {
		if t := msgType(fr.Type); t == msgTwrite || t == msgTread || t == msgTreaddir {
			later = append(later, fr)
		}
	}
	rec["frames"] = later
	rec["all"] = fake.frames
	rec["replies"] = fake.replies
	rec["answers"] = fake.answers
	o.Emit(rec)
}

func TestVerifC13(t *testing.T) {
	o := vhOpen(t)
	defer o.Close()
	r := vhRand()
	thorough := vhThorough()
	o.Emit(map[string]interface{}{"kind": "consts", "id": 0, "largestFixedSize": msgDotLRegistry.largestFixedSize,
		"headerLength": headerLength, "maximumLength": maximumLength,
		"tread": len(vh02Encode(1, &tread{})), "twrite0": len(vh02Encode(1, &twrite{})), "treaddir": len(vh02Encode(1, &treaddir{})),
		"rread0": len(vh02Encode(1, &rread{})), "rreaddir0": len(vh02Encode(1, &rreaddir{})), "rlerror": len(vh02Encode(1, &rlerror{}))})

	vh13Server(o, thorough)

	id := 100000
	reqs := []uint32{154, 1024, 8192, 65536}
	if !thorough {
		reqs = []uint32{154, 1024, 65536}
	}
	for _, req := range reqs {
		oldPay := roundDown(req-153, 512)
		anns := []uint32{req, req - 1, 0, 153, 154, 155, 665, 666, 1200, req + 100, req / 2, 1<<32 - 1,
			oldPay, oldPay + 11, oldPay + 22, oldPay + 23, 512 + 11, 512 + 22, 1024 + 15, 523, 524}
		for _, ann := range anns {
			m := req
			if ann < req {
				m = ann
			}
			pay := 0
			if m > 153 {
				pay = int(roundDown(m-153, 512))
			}
			ns := []int{0, 1, pay - 1, pay, pay + 1, 2*pay + 3, 3 * pay}
			if !thorough {
				ns = []int{0, pay, pay + 1, 2*pay + 3}
			}
			for _, n := range ns {
				if n < 0 {
					continue
				}
				vh13Client(o, &id, req, ann, "write", n, 0, 0)
				vh13Client(o, &id, req, ann, "read", n, n+5, 0)
				if m <= 153 {
					break
				}
			}
			if m <= 153 {
				continue
			}
			vh13Client(o, &id, req, ann, "write", 2*pay+7, 0, uint32(1+r.Intn(pay)))
			vh13Client(o, &id, req, ann, "read", 3*pay, pay+pay/2, 0)
			rdCounts := []uint32{0, 31, 32, m - 12, m - 11, m - 10, m, m + 1, 1 << 20, 1<<32 - 1}
			if !thorough {
				rdCounts = []uint32{32, m - 12, m - 11, m - 10, m + 1, 1<<32 - 1}
			}
			for _, cnt := range rdCounts {
				vh13Client(o, &id, req, ann, "readdir", int(cnt), 0, 0)
			}
			xs := []int{0, 1, pay, pay + 1, 2*pay + 1}
			if !thorough {
				xs = []int{0, pay + 1, 2*pay + 1}
			}
			for _, sz := range xs {
				vh13Client(o, &id, req, ann, "getxattr", 0, sz, 0)
			}
		}
	}
}
