package p9

// C14 harness: Rflush only after the flushed request has stopped executing.  A
// request is blocked inside a backend call made on its behalf (ReadAt, GetAttr,
// SetAttr, Walk, Close of a clunked or of a replaced fid), 1-3 flushes are sent
// (own tag, idle tag, answered tag, chained flush-of-flush, two flushes naming
// each other), gates are released in every order, with other traffic in between;
// the reader records, when each Rflush arrives, whether that backend call was
// still running.

import (
	"os"
	"testing"
)

func vh14Corpus() []vhloopScn {
	var l []vhloopScn
	add := func(name string, nfid int, steps ...vhloopStep) {
		l = append(l, vhloopScn{Name: name, NConn: 1, NFid: nfid, Steps: steps})
	}
	add("own", 1, vhloopSend(vhloopFlush(5, 5)))
	add("own-while-blocked", 1, vhloopSend(vhloopRead(1, 1)), vhloopSend(vhloopFlush(5, 5)), vhloopRel(1, 0))
	add("idle", 1, vhloopSend(vhloopFlush(5, 9)))
	add("answered", 1, vhloopSend(vhloopRead(1, -1)), vhloopSend(vhloopFlush(2, 1)))
	add("mutual", 1, vhloopSend(vhloopFlush(2, 3), vhloopFlush(3, 2)))
	add("mutual-while-blocked", 1, vhloopSend(vhloopRead(1, 1)), vhloopSend(vhloopFlush(2, 3), vhloopFlush(3, 2)), vhloopRel(1, 0))
	add("later", 1, vhloopSend(vhloopFlush(2, 3)), vhloopSend(vhloopRead(3, 1)), vhloopRel(1, 0)) // names a tag used only later: at once
	// one blocked request, 1..3 flushes of it, chained, with traffic in between, all release modes
	for mode := 0; mode <= 2; mode++ {
		add(vhloopName("one-flush-m%d", mode), 1, vhloopSend(vhloopRead(1, 1)), vhloopSend(vhloopFlush(2, 1)), vhloopSend(vhloopRead(9, -1)), vhloopRel(1, mode))
		add(vhloopName("two-flush-m%d", mode), 1, vhloopSend(vhloopRead(1, 1)), vhloopSend(vhloopFlush(2, 1)), vhloopSend(vhloopFlush(3, 1)), vhloopRel(1, mode))
		add(vhloopName("chain-m%d", mode), 1, vhloopSend(vhloopRead(1, 1)), vhloopSend(vhloopFlush(2, 1)), vhloopSend(vhloopFlush(3, 2)), vhloopSend(vhloopFlush(4, 3)),
			vhloopSend(vhloopRead(9, -1)), vhloopRel(1, mode))
		add(vhloopName("chain-b2b-m%d", mode), 1, vhloopSend(vhloopRead(1, 1), vhloopFlush(2, 1), vhloopFlush(3, 2)), vhloopRel(1, mode))
	}
	// the flushed request carries a boundary tag (0, 0xFFFE, NOTAG 0xFFFF); so does the flush
	for _, t := range []int{0, 65534, 65535} {
		add(vhloopName("boundary-tag%d", t), 1, vhloopSend(vhloopRead(t, 1)), vhloopSend(vhloopFlush(2, t)), vhloopSend(vhloopRead(9, -1)), vhloopSend(vhloopRead(9, -1)),
			vhloopSend(vhloopFlush(3, 2)), vhloopSend(vhloopRead(9, -1)), vhloopRel(1, 0), vhloopSend(vhloopRead(t, -1)))
		add(vhloopName("boundary-flushtag%d", t), 1, vhloopSend(vhloopRead(1, 1)), vhloopSend(vhloopFlush(t, 1)), vhloopSend(vhloopFlush(3, t)), vhloopSend(vhloopRead(9, -1)),
			vhloopRel(1, 0), vhloopSend(vhloopFlush(t, t)))
	}
	// two blocked requests and flushes of both, both release orders
	for _, ord := range [][]int{{1, 2}, {2, 1}} {
		add(vhloopName("two-blocked-%d%d", ord[0], ord[1]), 1, vhloopSend(vhloopRead(1, 1)), vhloopSend(vhloopRead(2, 2)),
			vhloopSend(vhloopFlush(3, 1)), vhloopSend(vhloopFlush(4, 2)), vhloopSend(vhloopFlush(5, 4)),
			vhloopRel(ord[0], 0), vhloopSend(vhloopRead(9, -1)), vhloopRel(ord[1], 0))
	}
	// flushed request types: every kind of request that reaches the backend, blocked inside the backend call made on
	// its behalf (for Tattach onto an occupied fid and Tclunk that is the Close of the replaced / clunked File).
	// fids: 0,1 regular open; 2,3 directories; 4 directory open; 5 regular not open; 6 symlink.  File k belongs to fid k.
	// Write-class requests hold the (shared) root node's write lock while gated, so the traffic in between is lock free.
	own := func(k string, fid, file int) vhloopFrame {
		return vhloopFrame{K: k, Tag: 1, Fid: fid, Fid2: 3, NewFid: 9, Gate: vhloopFileBase + file, Files: []int{file}}
	}
	kinds := []struct {
		name string
		pre  []vhloopStep
		f    vhloopFrame
	}{
		{"read", nil, vhloopReadF(1, 1, 11)},
		{"write", nil, vhloopFrame{K: "write", Tag: 1, Fid: 1, Gate: 12}},
		{"getattr", nil, vhloopWith(vhloopOnFile("getattr", 1, 1, 1, true), 1)},
		{"setattr", nil, vhloopWith(vhloopOnFile("setattr", 1, 1, 1, true), 1)},
		{"walk", nil, vhloopWith(vhloopOnFile("clone", 1, 1, 1, true), 1)},
		{"close-clunk", nil, vhloopWith(vhloopClunkF(1, 1, 1, true), 1)},
		{"close-replaced-fid", nil, vhloopWith(vhloopAttachOver(1, 1, 1, true), 1)},
		{"fsync", nil, own("fsync", 1, 1)},
		{"statfs", nil, own("statfs", 1, 1)},
		{"lock", nil, own("lock", 1, 1)},
		{"xattrwalk", nil, own("xattrwalk", 1, 1)},
		{"lopen", nil, own("lopen", 5, 5)},
		{"readlink", nil, own("readlink", 6, 6)},
		{"readdir", nil, own("readdir", 4, 4)},
		{"walk1", nil, own("walk1", 2, 2)},
		{"lcreate", nil, own("lcreate", 2, 2)},
		{"mkdir", nil, own("mkdir", 2, 2)},
		{"symlink", nil, own("symlink", 2, 2)},
		{"mknod", nil, own("mknod", 2, 2)},
		{"link", nil, vhloopFrame{K: "link", Tag: 1, Fid: 2, Fid2: 1, Gate: vhloopFileBase + 2, Files: []int{2}}},
		{"unlinkat", nil, own("unlinkat", 2, 2)},
		{"renameat", nil, own("renameat", 2, 2)},
		// Trename of a walked child: the backend call is RenameAt on the parent directory's File
		{"rename", []vhloopStep{vhloopSend(vhloopFrame{K: "walk1", Tag: 8, Fid: 2, NewFid: 9, Gate: -1})},
			vhloopFrame{K: "rename", Tag: 1, Fid: 9, Fid2: 3, Gate: vhloopFileBase + 2, Files: []int{2}}},
	}
	for _, k := range kinds {
		steps := append([]vhloopStep{}, k.pre...)
		steps = append(steps, vhloopSend(k.f), vhloopSend(vhloopFlush(2, 1)), vhloopSend(vhloopFlush(10, 777)), vhloopSend(vhloopFlush(3, 2)),
			vhloopSend(vhloopFrame{K: "badtype", Tag: 11}), vhloopSend(vhloopFlush(12, 777)),
			// the gate stays shut a little longer: a reply or Rflush that does not wait for the backend call then arrives
			// before the release even when the handler's goroutine is descheduled for a while (loaded machine)
			vhloopStep{Op: "hold", Mode: 30},
			vhloopRel(k.f.Gate, 0), vhloopSend(vhloopFlush(4, 1)))
		l = append(l, vhloopScn{Name: "flush-" + k.name, NConn: 1, NFid: 7, Kinds: "rrddDul", Steps: steps})
	}
	// the gate stays shut for a while: an Rflush that gives up waiting after some time arrives before the release
	for _, k := range kinds[:2] {
		l = append(l, vhloopScn{Name: "flush-" + k.name + "-held", NConn: 1, NFid: 7, Kinds: "rrddDul", Steps: []vhloopStep{
			vhloopSend(k.f), vhloopSend(vhloopFlush(2, 1)), vhloopSend(vhloopFlush(3, 2)), {Op: "hold", Mode: 200}, vhloopRel(k.f.Gate, 0)}})
	}
	// the flush's tag is itself in flight: dropped; the flushed request is answered once
	add("flush-dup-tag", 1, vhloopSend(vhloopRead(1, 1)), vhloopSend(vhloopFlush(1, 1)), vhloopSend(vhloopFlush(2, 1)), vhloopSend(vhloopFlush(2, 2)), vhloopRel(1, 0))
	// flush, then the flushed tag is re-used after its reply, then flushed again
	add("flush-reuse", 1, vhloopSend(vhloopRead(1, 1)), vhloopSend(vhloopFlush(2, 1)), vhloopRel(1, 0), vhloopSend(vhloopRead(1, 2)), vhloopSend(vhloopFlush(2, 1)), vhloopRel(2, 0))
	// a flush on another connection names the tag: tags are per connection, answered at once
	l = append(l, vhloopScn{Name: "flush-other-conn", NConn: 2, NFid: 1, Steps: []vhloopStep{
		vhloopSendC(0, vhloopRead(1, 1)), vhloopSendC(1, vhloopFlush(2, 1)), vhloopSendC(0, vhloopFlush(2, 1)), vhloopSendC(1, vhloopRead(1, -1)), vhloopRel(1, 0)}})
	return l
}

func TestVerifC14(t *testing.T) {
	out := vhOpen(t)
	defer out.Close()
	if p := os.Getenv("VERIF_REPLAY"); p != "" {
		if scn, ok := vhloopLoadReplay(p); ok {
			vhloopEmit(out, vhloopRun("C14", scn))
			return
		}
	}
	r := vhRand()
	for _, scn := range vh14Corpus() {
		if !vhloopEmit(out, vhloopRunB("C14", scn)) {
			return
		}
		scn.Frag = true
		scn.Name += "-frag"
		if !vhloopEmit(out, vhloopRunB("C14", scn)) {
			return
		}
	}
	nrand := 60
	if vhThorough() {
		nrand = 800
	}
	for k := 0; k < nrand; k++ {
		if !vhloopEmit(out, vhloopRunB("C14", vhloopRandomFlush(r, vhloopName("randflush%d", k)))) {
			return
		}
	}
}
