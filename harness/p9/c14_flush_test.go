package p9

// C14 harness: Rflush only after the flushed request has stopped executing.  A
// request is blocked inside a backend call made on its behalf (ReadAt, GetAttr,
// SetAttr, Walk, Close of a clunked or of a replaced fid), 1-3 flushes are sent
// (own tag, idle tag, answered tag, chained flush-of-flush, two flushes naming
// each other), gates are released in every order, with other traffic in between;
// the reader records, when each Rflush arrives, whether that backend call was
// still running.

import (
	"os"
	"testing"
)

func vh14Corpus() []vhloopScn {
	var l []vhloopScn
	add := func(name string, nfid int, steps ...vhloopStep) {
		l = append(l, vhloopScn{Name: name, NConn: 1, NFid: nfid, Steps: steps})
	}
	add("own", 1, vhloopSend(vhloopFlush(5, 5)))
	add("own-while-blocked", 1, vhloopSend(vhloopRead(1, 1)), vhloopSend(vhloopFlush(5, 5)), vhloopRel(1, 0))
	add("idle", 1, vhloopSend(vhloopFlush(5, 9)))
	add("answered", 1, vhloopSend(vhloopRead(1, -1)), vhloopSend(vhloopFlush(2, 1)))
	add("mutual", 1, vhloopSend(vhloopFlush(2, 3), vhloopFlush(3, 2)))
	add("mutual-while-blocked", 1, vhloopSend(vhloopRead(1, 1)), vhloopSend(vhloopFlush(2, 3), vhloopFlush(3, 2)), vhloopRel(1, 0))
	add("later", 1, vhloopSend(vhloopFlush(2, 3)), vhloopSend(vhloopRead(3, 1)), vhloopRel(1, 0)) // names a tag used only later: at once
	// one blocked request, 1..3 flushes of it, chained, with traffic in between, all release modes
	for mode := 0; mode <= 2; mode++ {
		add(vhloopName("one-flush-m%d", mode), 1, vhloopSend(vhloopRead(1, 1)), vhloopSend(vhloopFlush(2, 1)), vhloopSend(vhloopRead(9, -1)), vhloopRel(1, mode))
		add(vhloopName("two-flush-m%d", mode), 1, vhloopSend(vhloopRead(1, 1)), vhloopSend(vhloopFlush(2, 1)), vhloopSend(vhloopFlush(3, 1)), vhloopRel(1, mode))
		add(vhloopName("chain-m%d", mode), 1, vhloopSend(vhloopRead(1, 1)), vhloopSend(vhloopFlush(2, 1)), vhloopSend(vhloopFlush(3, 2)), vhloopSend(vhloopFlush(4, 3)),
			vhloopSend(vhloopRead(9, -1)), vhloopRel(1, mode))
		add(vhloopName("chain-b2b-m%d", mode), 1, vhloopSend(vhloopRead(1, 1), vhloopFlush(2, 1), vhloopFlush(3, 2)), vhloopRel(1, mode))
	}
	// the flushed request carries a boundary tag (0, 0xFFFE, NOTAG 0xFFFF); so does the flush
	for _, t := range []int{0, 65534, 65535} {
		add(vhloopName("boundary-tag%d", t), 1, vhloopSend(vhloopRead(t, 1)), vhloopSend(vhloopFlush(2, t)), vhloopSend(vhloopRead(9, -1)), vhloopSend(vhloopRead(9, -1)),
			vhloopSend(vhloopFlush(3, 2)), vhloopSend(vhloopRead(9, -1)), vhloopRel(1, 0), vhloopSend(vhloopRead(t, -1)))
		add(vhloopName("boundary-flushtag%d", t), 1, vhloopSend(vhloopRead(1, 1)), vhloopSend(vhloopFlush(t, 1)), vhloopSend(vhloopFlush(3, t)), vhloopSend(vhloopRead(9, -1)),
			vhloopRel(1, 0), vhloopSend(vhloopFlush(t, t)))
	}
	// two blocked requests and flushes of both, both release orders
	for _, ord := range [][]int{{1, 2}, {2, 1}} {
		add(vhloopName("two-blocked-%d%d", ord[0], ord[1]), 1, vhloopSend(vhloopRead(1, 1)), vhloopSend(vhloopRead(2, 2)),
			vhloopSend(vhloopFlush(3, 1)), vhloopSend(vhloopFlush(4, 2)), vhloopSend(vhloopFlush(5, 4)),
			vhloopRel(ord[0], 0), vhloopSend(vhloopRead(9, -1)), vhloopRel(ord[1], 0))
	}
	// flushed request types: blocked in GetAttr, SetAttr, Walk, in the Close of a clunked fid, and in the Close of
	// the File a Tattach onto an occupied fid replaces (a backend call made on behalf of that Tattach)
	kinds := []struct {
		name string
		f    vhloopFrame
	}{
		{"getattr", vhloopOnFile("getattr", 1, 1, 1, true)},
		{"setattr", vhloopOnFile("setattr", 1, 1, 1, true)},
		{"walk", vhloopOnFile("clone", 1, 1, 1, true)},
		{"close-clunk", vhloopClunkF(1, 1, 1, true)},
		{"close-replaced-fid", vhloopAttachOver(1, 1, 1, true)},
	}
	for _, k := range kinds {
		add("flush-"+k.name, 2, vhloopSend(k.f), vhloopSend(vhloopFlush(2, 1)), vhloopSend(vhloopFlush(10, 777)), vhloopSend(vhloopFlush(3, 2)),
			vhloopSend(vhloopFrame{K: "badtype", Tag: 11}), vhloopSend(vhloopFlush(12, 777)), vhloopRel(k.f.Gate, 0), vhloopSend(vhloopFlush(4, 1)))
	}
	// the flush's tag is itself in flight: dropped; the flushed request is answered once
	add("flush-dup-tag", 1, vhloopSend(vhloopRead(1, 1)), vhloopSend(vhloopFlush(1, 1)), vhloopSend(vhloopFlush(2, 1)), vhloopSend(vhloopFlush(2, 2)), vhloopRel(1, 0))
	// flush, then the flushed tag is re-used after its reply, then flushed again
	add("flush-reuse", 1, vhloopSend(vhloopRead(1, 1)), vhloopSend(vhloopFlush(2, 1)), vhloopRel(1, 0), vhloopSend(vhloopRead(1, 2)), vhloopSend(vhloopFlush(2, 1)), vhloopRel(2, 0))
	// a flush on another connection names the tag: tags are per connection, answered at once
	l = append(l, vhloopScn{Name: "flush-other-conn", NConn: 2, NFid: 1, Steps: []vhloopStep{
		vhloopSendC(0, vhloopRead(1, 1)), vhloopSendC(1, vhloopFlush(2, 1)), vhloopSendC(0, vhloopFlush(2, 1)), vhloopSendC(1, vhloopRead(1, -1)), vhloopRel(1, 0)}})
	return l
}

func TestVerifC14(t *testing.T) {
	out := vhOpen(t)
	defer out.Close()
	if p := os.Getenv("VERIF_REPLAY"); p != "" {
		if scn, ok := vhloopLoadReplay(p); ok {
			vhloopEmit(out, vhloopRun("C14", scn))
			return
		}
	}
	r := vhRand()
	for _, scn := range vh14Corpus() {
		if !vhloopEmit(out, vhloopRunB("C14", scn)) {
			return
		}
		scn.Frag = true
		scn.Name += "-frag"
		if !vhloopEmit(out, vhloopRunB("C14", scn)) {
			return
		}
	}
	nrand := 60
	if vhThorough() {
		nrand = 800
	}
	for k := 0; k < nrand; k++ {
		if !vhloopEmit(out, vhloopRunB("C14", vhloopRandomFlush(r, vhloopName("randflush%d", k)))) {
			return
		}
	}
}
