package p9

// C14 harness: Rflush only after the flushed request has stopped executing.  A
// request is blocked inside its backend call (gate), 1-3 flushes are sent (own tag,
// idle tag, answered tag, chained flush-of-flush, two flushes naming each other),
// gates are released in every order, with other traffic in between; the reader
// records, when each Rflush arrives, whether the flushed request was still inside
// the backend.

import (
	"os"
	"testing"
)

func vh14Corpus() []vhloopScn {
	var l []vhloopScn
	add := func(name string, nfid int, steps ...vhloopStep) {
		l = append(l, vhloopScn{Name: name, NFid: nfid, Steps: steps})
	}
	add("own", 1, vhloopSend(vhloopFlush(5, 5)))
	add("own-while-blocked", 1, vhloopSend(vhloopRead(1, 1)), vhloopSend(vhloopFlush(5, 5)), vhloopRel(1, 0))
	add("idle", 1, vhloopSend(vhloopFlush(5, 9)))
	add("answered", 1, vhloopSend(vhloopRead(1, -1)), vhloopSend(vhloopFlush(2, 1)))
	add("mutual", 1, vhloopSend(vhloopFlush(2, 3), vhloopFlush(3, 2)))
	add("mutual-while-blocked", 1, vhloopSend(vhloopRead(1, 1)), vhloopSend(vhloopFlush(2, 3), vhloopFlush(3, 2)), vhloopRel(1, 0))
	add("later", 1, vhloopSend(vhloopFlush(2, 3)), vhloopSend(vhloopRead(3, 1)), vhloopRel(1, 0)) // names a tag used only later: at once
	// one blocked request, 1..3 flushes of it, chained, with traffic in between, all release modes
	for mode := 0; mode <= 2; mode++ {
		add(vhloopName("one-flush-m%d", mode), 1, vhloopSend(vhloopRead(1, 1)), vhloopSend(vhloopFlush(2, 1)), vhloopSend(vhloopRead(9, -1)), vhloopRel(1, mode))
		add(vhloopName("two-flush-m%d", mode), 1, vhloopSend(vhloopRead(1, 1)), vhloopSend(vhloopFlush(2, 1)), vhloopSend(vhloopFlush(3, 1)), vhloopRel(1, mode))
		add(vhloopName("chain-m%d", mode), 1, vhloopSend(vhloopRead(1, 1)), vhloopSend(vhloopFlush(2, 1)), vhloopSend(vhloopFlush(3, 2)), vhloopSend(vhloopFlush(4, 3)),
			vhloopSend(vhloopRead(9, -1)), vhloopRel(1, mode))
		add(vhloopName("chain-b2b-m%d", mode), 1, vhloopSend(vhloopRead(1, 1), vhloopFlush(2, 1), vhloopFlush(3, 2)), vhloopRel(1, mode))
	}
	// two blocked requests and flushes of both, both release orders
	for _, ord := range [][]int{{1, 2}, {2, 1}} {
		add(vhloopName("two-blocked-%d%d", ord[0], ord[1]), 1, vhloopSend(vhloopRead(1, 1)), vhloopSend(vhloopRead(2, 2)),
			vhloopSend(vhloopFlush(3, 1)), vhloopSend(vhloopFlush(4, 2)), vhloopSend(vhloopFlush(5, 4)),
			vhloopRel(ord[0], 0), vhloopSend(vhloopRead(9, -1)), vhloopRel(ord[1], 0))
	}
	// flushed request types: a clunk blocked in Close
	add("flush-close", 2, vhloopSend(vhloopClunk(1, 1, true)), vhloopSend(vhloopFlush(2, 1)), vhloopSend(vhloopRead(3, -1)), vhloopRel(vhloopCloseBase+1, 0))
	// the flush's tag is itself in flight: dropped; the flushed request is answered once
	add("flush-dup-tag", 1, vhloopSend(vhloopRead(1, 1)), vhloopSend(vhloopFlush(1, 1)), vhloopSend(vhloopFlush(2, 1)), vhloopSend(vhloopFlush(2, 2)), vhloopRel(1, 0))
	// flush, then the flushed tag is re-used after its reply, then flushed again
	add("flush-reuse", 1, vhloopSend(vhloopRead(1, 1)), vhloopSend(vhloopFlush(2, 1)), vhloopRel(1, 0), vhloopSend(vhloopRead(1, 2)), vhloopSend(vhloopFlush(2, 1)), vhloopRel(2, 0))
	return l
}

func TestVerifC14(t *testing.T) {
	out := vhOpen(t)
	defer out.Close()
	if p := os.Getenv("VERIF_REPLAY"); p != "" {
		if scn, ok := vhloopLoadReplay(p); ok {
			if !vhloopEmit(out, vhloopRun("C14", scn)) {
				return
			}
			return
		}
	}
	r := vhRand()
	for _, scn := range vh14Corpus() {
		if !vhloopEmit(out, vhloopRunB("C14", scn)) {
			return
		}
		scn.Frag = true
		scn.Name += "-frag"
		if !vhloopEmit(out, vhloopRunB("C14", scn)) {
			return
		}
	}
	nrand := 80
	if vhThorough() {
		nrand = 800
	}
	for k := 0; k < nrand; k++ {
		if !vhloopEmit(out, vhloopRunB("C14", vhloopRandomFlush(r, vhloopName("randflush%d", k)))) {
			return
		}
	}
}
