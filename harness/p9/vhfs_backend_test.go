package p9

// vhfs: Go twin of /verif/coq/Refs/PathFS.v — an in-memory, deterministic,
// path-addressed backend (every File holds a path; Renamed rewrites it from
// parent.path/name) with inode ids visible through QID.Path, a log of every
// backend call, handles numbered in creation order and failure injection by
// call index.  Error precedence mirrors pfs_do / pfs_step line by line.

import (
	"strconv"
	"sync"

	"github.com/hugelgupf/p9/linux"
)

const vhfsBadQ = 1000

type vhfsFS struct {
	mu      sync.Mutex
	entries map[[2]int]int // (directory inode, name id) -> child inode
	dirs    map[int]bool
	nextIno int
	nextH   int
	calls   int
	inject  map[int]int
	wga     bool
	log     [][]int // one key per call, same encoding as Refs/Cases.v call_key

	// gate (vhfs_gated_test.go): the backend call matching gateKey parks after it took
	// effect, signals gateEntered and waits for gateRelease; watchKey's first call signals watched.
	gateKey     [3]int
	gateEntered chan struct{}
	gateRelease chan struct{}
	watchKey    [2]int
	watched     chan struct{}

	// fault (vhgRenamedPanic): the Renamed callback of the File with this handle panics, after it was logged
	panicRenamed int
}

type vhfsFile struct {
	fs   *vhfsFS
	id   int
	path []int
	fd   int // 0: not open
}

func vhfsNew(wga bool, inject map[int]int) *vhfsFS {
	return &vhfsFS{entries: map[[2]int]int{}, dirs: map[int]bool{1: true}, nextIno: 2, inject: inject, wga: wga, panicRenamed: -1}
}

func vhfsName(id int) string { return "n" + strconv.Itoa(id) }

func vhfsNameID(s string) int {
	if len(s) < 2 || s[0] != 'n' {
		return 9999
	}
	v, err := strconv.Atoi(s[1:])
	if err != nil {
		return 9999
	}
	return v
}

func vhfsOpt(names []string) (int, bool) {
	if len(names) == 0 {
		return 0, false
	}
	return vhfsNameID(names[0]) + 1, true
}

// begin logs the call and returns the injected code (0: none).
func (fs *vhfsFS) begin(key ...int) int {
	idx := fs.calls
	fs.calls++
	fs.log = append(fs.log, key)
	if fs.watched != nil && len(key) >= 2 && key[0] == fs.watchKey[0] && key[1] == fs.watchKey[1] {
		close(fs.watched)
		fs.watched = nil
	}
	if e, ok := fs.inject[idx]; ok {
		return e
	}
	return 0
}

// park is called WITHOUT fs.mu held, after the call took effect.
func (fs *vhfsFS) park(k0, k1, k2 int) {
	fs.mu.Lock()
	hit := fs.gateEntered != nil && fs.gateKey == [3]int{k0, k1, k2}
	var ent, rel chan struct{}
	if hit {
		ent, rel = fs.gateEntered, fs.gateRelease
		fs.gateEntered = nil
	}
	fs.mu.Unlock()
	if hit {
		close(ent)
		<-rel
	}
}

func (fs *vhfsFS) resolve(path []int) (int, bool) {
	cur := 1
	for _, nm := range path {
		c, ok := fs.entries[[2]int{cur, nm}]
		if !ok {
			return 0, false
		}
		cur = c
	}
	return cur, true
}

func (fs *vhfsFS) parentOf(i int) (int, bool) {
	for k, c := range fs.entries {
		if c == i {
			return k[0], true
		}
	}
	return 0, false
}

func (fs *vhfsFS) ancOrEq(a, i int) bool {
	for n := 0; n <= len(fs.entries)+1; n++ {
		if a == i {
			return true
		}
		p, ok := fs.parentOf(i)
		if !ok {
			return false
		}
		i = p
	}
	return false
}

func (fs *vhfsFS) alive(i int) bool { return fs.ancOrEq(1, i) }

func (fs *vhfsFS) qid(i int) QID {
	q := QID{Path: uint64(i)}
	if fs.dirs[i] {
		q.Type = TypeDir
	}
	return q
}

func (fs *vhfsFS) attr(i int) Attr {
	if fs.dirs[i] {
		return Attr{Mode: ModeDirectory | 0o755}
	}
	return Attr{Mode: ModeRegular | 0o644}
}

func (fs *vhfsFS) newFile(path []int, fd int) *vhfsFile {
	f := &vhfsFile{fs: fs, id: fs.nextH, path: append([]int{}, path...), fd: fd}
	fs.nextH++
	return f
}

func (fs *vhfsFS) newObj(d, nm int, dir bool) int {
	i := fs.nextIno
	fs.nextIno++
	fs.entries[[2]int{d, nm}] = i
	if dir {
		fs.dirs[i] = true
	}
	return i
}

type vhfsAttacher struct{ fs *vhfsFS }

func (a vhfsAttacher) Attach() (File, error) {
	fs := a.fs
	fs.mu.Lock()
	defer fs.mu.Unlock()
	if e := fs.begin(0, fs.nextH); e != 0 && e != vhfsBadQ {
		return nil, linux.Errno(e)
	}
	return fs.newFile(nil, 0), nil
}

// walkTo is PathFS.walk_to; returns (file, inode, errno).
func (f *vhfsFile) walkTo(names []string) (*vhfsFile, int, int) {
	fs := f.fs
	if len(names) == 0 {
		return fs.newFile(f.path, 0), 0, 0
	}
	p := append(append([]int{}, f.path...), vhfsNameID(names[0]))
	i, ok := fs.resolve(p)
	if !ok {
		return nil, 0, int(linux.ENOENT)
	}
	return fs.newFile(p, 0), i, 0
}

func (f *vhfsFile) qids(names []string, ino int, bad bool) []QID {
	var q []QID
	if len(names) > 0 {
		q = append(q, f.fs.qid(ino))
	}
	if bad {
		q = append(q, QID{}, QID{})
		if len(names) > 0 {
			q = q[:2]
		}
	}
	return q
}

func (f *vhfsFile) Walk(names []string) ([]QID, File, error) {
	q, nf, err := f.walkL(names)
	nm, _ := vhfsOpt(names)
	f.fs.park(1, f.id, nm)
	return q, nf, err
}

func (f *vhfsFile) walkL(names []string) ([]QID, File, error) {
	fs := f.fs
	fs.mu.Lock()
	defer fs.mu.Unlock()
	if len(names) > 1 {
		return nil, nil, linux.EINVAL
	}
	nm, _ := vhfsOpt(names)
	e := fs.begin(1, f.id, nm, fs.nextH)
	if e != 0 && e != vhfsBadQ {
		return nil, nil, linux.Errno(e)
	}
	nf, ino, errno := f.walkTo(names)
	if errno != 0 {
		return nil, nil, linux.Errno(errno)
	}
	return f.qids(names, ino, e == vhfsBadQ), nf, nil
}

func (f *vhfsFile) WalkGetAttr(names []string) ([]QID, File, AttrMask, Attr, error) {
	q, nf, m, a, err := f.walkGetAttrL(names)
	nm, _ := vhfsOpt(names)
	f.fs.park(2, f.id, nm)
	return q, nf, m, a, err
}

func (f *vhfsFile) walkGetAttrL(names []string) ([]QID, File, AttrMask, Attr, error) {
	fs := f.fs
	fs.mu.Lock()
	defer fs.mu.Unlock()
	if len(names) > 1 {
		return nil, nil, AttrMask{}, Attr{}, linux.EINVAL
	}
	nm, _ := vhfsOpt(names)
	e := fs.begin(2, f.id, nm, fs.nextH)
	if e != 0 && e != vhfsBadQ {
		return nil, nil, AttrMask{}, Attr{}, linux.Errno(e)
	}
	if !fs.wga {
		return nil, nil, AttrMask{}, Attr{}, linux.ENOSYS
	}
	if len(names) == 0 {
		i, ok := fs.resolve(f.path)
		if !ok {
			return nil, nil, AttrMask{}, Attr{}, linux.ENOENT
		}
		nf := fs.newFile(f.path, 0)
		return f.qids(names, i, e == vhfsBadQ), nf, AttrMaskAll, fs.attr(i), nil
	}
	nf, ino, errno := f.walkTo(names)
	if errno != 0 {
		return nil, nil, AttrMask{}, Attr{}, linux.Errno(errno)
	}
	return f.qids(names, ino, e == vhfsBadQ), nf, AttrMaskAll, fs.attr(ino), nil
}

func (f *vhfsFile) GetAttr(req AttrMask) (QID, AttrMask, Attr, error) {
	fs := f.fs
	fs.mu.Lock()
	defer fs.mu.Unlock()
	if e := fs.begin(3, f.id); e != 0 && e != vhfsBadQ {
		return QID{}, AttrMask{}, Attr{}, linux.Errno(e)
	}
	i, ok := fs.resolve(f.path)
	if !ok {
		return QID{}, AttrMask{}, Attr{}, linux.ENOENT
	}
	return fs.qid(i), AttrMaskAll, fs.attr(i), nil
}

func (f *vhfsFile) Open(mode OpenFlags) (QID, uint32, error) {
	fs := f.fs
	fs.mu.Lock()
	defer fs.mu.Unlock()
	if e := fs.begin(4, f.id, int(mode)); e != 0 && e != vhfsBadQ {
		return QID{}, 0, linux.Errno(e)
	}
	i, ok := fs.resolve(f.path)
	if !ok {
		return QID{}, 0, linux.ENOENT
	}
	f.fd = i
	return fs.qid(i), 0, nil
}

// mkObj is the common part of Create / Mkdir / Mknod.
func (f *vhfsFile) mkObj(nm int, dir bool) (int, int) {
	fs := f.fs
	d, ok := fs.resolve(f.path)
	if !ok {
		return 0, int(linux.ENOENT)
	}
	if !fs.dirs[d] {
		return 0, int(linux.ENOTDIR)
	}
	if _, ok := fs.entries[[2]int{d, nm}]; ok {
		return 0, int(linux.EEXIST)
	}
	return fs.newObj(d, nm, dir), 0
}

func (f *vhfsFile) Create(name string, flags OpenFlags, permissions FileMode, uid UID, gid GID) (File, QID, uint32, error) {
	nf, q, u, err := f.createL(name, flags)
	f.fs.park(5, f.id, vhfsNameID(name))
	return nf, q, u, err
}

func (f *vhfsFile) createL(name string, flags OpenFlags) (File, QID, uint32, error) {
	fs := f.fs
	fs.mu.Lock()
	defer fs.mu.Unlock()
	nm := vhfsNameID(name)
	if e := fs.begin(5, f.id, nm, fs.nextH); e != 0 && e != vhfsBadQ {
		return nil, QID{}, 0, linux.Errno(e)
	}
	i, errno := f.mkObj(nm, false)
	if errno != 0 {
		return nil, QID{}, 0, linux.Errno(errno)
	}
	nf := fs.newFile(append(append([]int{}, f.path...), nm), i)
	return nf, fs.qid(i), 0, nil
}

func (f *vhfsFile) mk(k int, name string) (QID, error) {
	fs := f.fs
	fs.mu.Lock()
	defer fs.mu.Unlock()
	nm := vhfsNameID(name)
	if e := fs.begin(6, k, f.id, nm); e != 0 && e != vhfsBadQ {
		return QID{}, linux.Errno(e)
	}
	if k >= 2 {
		return QID{}, linux.ENOSYS
	}
	if _, errno := f.mkObj(nm, k == 0); errno != 0 {
		return QID{}, linux.Errno(errno)
	}
	return QID{}, nil
}

func (f *vhfsFile) Mkdir(name string, permissions FileMode, uid UID, gid GID) (QID, error) {
	return f.mk(0, name)
}

func (f *vhfsFile) Mknod(name string, mode FileMode, major uint32, minor uint32, uid UID, gid GID) (QID, error) {
	return f.mk(1, name)
}

func (f *vhfsFile) Symlink(oldName string, newName string, uid UID, gid GID) (QID, error) {
	return f.mk(2, newName)
}

func (f *vhfsFile) Link(target File, newName string) error {
	fs := f.fs
	fs.mu.Lock()
	defer fs.mu.Unlock()
	if e := fs.begin(7, f.id, target.(*vhfsFile).id, vhfsNameID(newName)); e != 0 && e != vhfsBadQ {
		return linux.Errno(e)
	}
	return linux.EPERM
}

func (f *vhfsFile) UnlinkAt(name string, flags uint32) error {
	fs := f.fs
	fs.mu.Lock()
	defer fs.mu.Unlock()
	nm := vhfsNameID(name)
	if e := fs.begin(8, f.id, nm); e != 0 && e != vhfsBadQ {
		return linux.Errno(e)
	}
	d, ok := fs.resolve(f.path)
	if !ok {
		return linux.ENOENT
	}
	if _, ok := fs.entries[[2]int{d, nm}]; !ok {
		return linux.ENOENT
	}
	delete(fs.entries, [2]int{d, nm})
	return nil
}

func (f *vhfsFile) RenameAt(oldName string, newDir File, newName string) error {
	fs := f.fs
	fs.mu.Lock()
	defer fs.mu.Unlock()
	t := newDir.(*vhfsFile)
	old, nw := vhfsNameID(oldName), vhfsNameID(newName)
	if e := fs.begin(9, f.id, old, t.id, nw); e != 0 && e != vhfsBadQ {
		return linux.Errno(e)
	}
	d1, ok1 := fs.resolve(f.path)
	d2, ok2 := fs.resolve(t.path)
	if !ok1 || !ok2 {
		return linux.ENOENT
	}
	x, ok := fs.entries[[2]int{d1, old}]
	if !ok {
		return linux.ENOENT
	}
	if !fs.dirs[d2] {
		return linux.ENOTDIR
	}
	if fs.dirs[x] && fs.ancOrEq(x, d2) {
		return linux.EINVAL
	}
	if d1 == d2 && old == nw {
		return nil
	}
	if v, ok := fs.entries[[2]int{d2, nw}]; ok {
		if fs.ancOrEq(v, d1) {
			return linux.ENOTEMPTY
		}
		delete(fs.entries, [2]int{d2, nw})
	}
	delete(fs.entries, [2]int{d1, old})
	fs.entries[[2]int{d2, nw}] = x
	return nil
}

func (f *vhfsFile) Renamed(parent File, newName string) {
	fs := f.fs
	fs.mu.Lock()
	p := parent.(*vhfsFile)
	nm := vhfsNameID(newName)
	fs.begin(10, f.id, p.id, nm)
	boom := fs.panicRenamed == f.id
	if !boom {
		f.path = append(append([]int{}, p.path...), nm)
	}
	fs.mu.Unlock()
	if boom {
		panic("vhfs: injected panic in Renamed")
	}
	fs.park(10, f.id, 0)
}

func (f *vhfsFile) Close() error {
	fs := f.fs
	fs.mu.Lock()
	e := fs.begin(11, f.id)
	fs.mu.Unlock()
	fs.park(11, f.id, 0)
	if e != 0 && e != vhfsBadQ {
		return linux.Errno(e)
	}
	return nil
}

// use is PathFS's BUse: kinds 0..2 act on the open inode, the others resolve the path.
func (f *vhfsFile) use(k int) (int, error) {
	fs := f.fs
	fs.mu.Lock()
	defer fs.mu.Unlock()
	if e := fs.begin(12, k, f.id); e != 0 && e != vhfsBadQ {
		return 0, linux.Errno(e)
	}
	if k <= 2 {
		if f.fd == 0 {
			return 0, linux.EBADF
		}
		return f.fd, nil
	}
	i, ok := fs.resolve(f.path)
	if !ok {
		return 0, linux.ENOENT
	}
	return i, nil
}

func (f *vhfsFile) ReadAt(p []byte, offset int64) (int, error) {
	i, err := f.use(0)
	if err != nil {
		return 0, err
	}
	n := 0
	for ; n < 4 && n < len(p); n++ {
		p[n] = byte(i >> (8 * uint(n)))
	}
	return n, nil
}

func (f *vhfsFile) WriteAt(p []byte, offset int64) (int, error) {
	if _, err := f.use(1); err != nil {
		return 0, err
	}
	return len(p), nil
}

func (f *vhfsFile) FSync() error { _, err := f.use(2); return err }

func (f *vhfsFile) Readdir(offset uint64, count uint32) (Dirents, error) {
	_, err := f.use(3)
	return nil, err
}

func (f *vhfsFile) SetAttr(valid SetAttrMask, attr SetAttr) error { _, err := f.use(4); return err }

func (f *vhfsFile) StatFS() (FSStat, error) { _, err := f.use(5); return FSStat{}, err }

func (f *vhfsFile) Lock(pid int, locktype LockType, flags LockFlags, start, length uint64, client string) (LockStatus, error) {
	_, err := f.use(6)
	return LockStatusOK, err
}

func (f *vhfsFile) GetXattr(attr string) ([]byte, error) {
	if _, err := f.use(7); err != nil {
		return nil, err
	}
	return make([]byte, 8), nil
}

func (f *vhfsFile) ListXattrs() ([]string, error) {
	if _, err := f.use(7); err != nil {
		return nil, err
	}
	return nil, nil
}

func (f *vhfsFile) SetXattr(attr string, data []byte, flags XattrFlags) error {
	_, err := f.use(8)
	return err
}

func (f *vhfsFile) RemoveXattr(attr string) error { _, err := f.use(8); return err }

// never called by the server
func (f *vhfsFile) Rename(newDir File, newName string) error { return linux.ENOSYS }
func (f *vhfsFile) Readlink() (string, error)                { return "", linux.EINVAL }
