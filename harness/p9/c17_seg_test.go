package p9

// C17 correspondence harness: identical streams delivered under different
// segmentations through a scripted io.Reader, a unix SOCK_STREAM socket pair read
// directly (recvmsg path of vecnet) and the same behind a plain io.Reader.

import (
	"io"
	"math/rand"
	"testing"
	"time"
)

type vh17Case struct {
	Kind   string       `json:"kind"` // loop
	ID     int          `json:"id"`
	What   string       `json:"what"`
	Mode   int          `json:"mode"`
	MSize  uint32       `json:"msize"`
	Max    int          `json:"max"`
	Stream []int        `json:"stream"`
	Script []vh02Step   `json:"script"`
	Oracle []vh02Oracle `json:"oracle"`
	Events []vh02Event  `json:"events"`
	Reads  []int        `json:"reads"`
	Base   []vh02Event  `json:"base"`
	Chunks []int        `json:"chunks,omitempty"`
}

const vh17Max = 40

var vh17id int

func vh17Base(stream []byte, msize uint32) []vh02Event {
	rd := &vh02Reader{data: stream}
	return vh02Loop(rd, msize, func() int { return rd.pos }, vh17Max)
}

func vh17Scripted(o *vhOut, what string, msize uint32, stream []byte, base []vh02Event, orc []vh02Oracle, script []vh02Step) {
	rd := &vh02Reader{data: stream, script: script}
	evs := vh02Loop(rd, msize, func() int { return rd.pos }, vh17Max)
	vh17id++
	mx := []int{}
	for _, n := range rd.reads { // keep the evidence small: only the largest Read
		if len(mx) == 0 || n > mx[0] {
			mx = []int{n}
		}
	}
	o.Emit(vh17Case{Kind: "loop", ID: vh17id, What: what, Mode: 0, MSize: msize, Max: vh17Max, Stream: vhBytes(stream), Script: script,
		Oracle: orc, Events: evs, Reads: mx, Base: base})
}

func vh17StripConsumed(evs []vh02Event) []vh02Event {
	out := make([]vh02Event, len(evs))
	for i, e := range evs {
		e.Consumed = 0
		out[i] = e
	}
	return out
}

// vh17Socket writes the stream in the given chunks into one end of a socket pair and runs the
// recv loop on the other end: mode 1 = the *net.UnixConn itself (syscall.Conn: recvmsg path),
// mode 2 = hidden behind a plain io.Reader (generic path over real socket reads).
func vh17Socket(o *vhOut, what string, mode int, msize uint32, stream []byte, base []vh02Event, orc []vh02Oracle, chunks []int, pause time.Duration) {
	a, b, err := vh02SocketPair()
	if err != nil {
		panic(err)
	}
	go func() {
		off := 0
		for _, n := range chunks {
			if off >= len(stream) {
				break
			}
			if off+n > len(stream) {
				n = len(stream) - off
			}
			a.Write(stream[off : off+n])
			off += n
			time.Sleep(pause)
		}
		if off < len(stream) {
			a.Write(stream[off:])
		}
		a.Close()
	}()
	b.SetReadDeadline(time.Now().Add(20 * time.Second))
	var rd io.Reader = b
	if mode == 2 {
		rd = vh02Plain{b}
	}
	evs := vh02Loop(rd, msize, func() int { return 0 }, vh17Max)
	b.Close()
	vh17id++
	o.Emit(vh17Case{Kind: "loop", ID: vh17id, What: what, Mode: mode, MSize: msize, Max: vh17Max, Stream: vhBytes(stream),
		Oracle: orc, Events: vh17StripConsumed(evs), Base: vh17StripConsumed(base), Chunks: chunks})
}

func vh17Chunks(r *rand.Rand, n int) []int {
	var c []int
	switch r.Intn(3) {
	case 0:
		for i := 0; i < n && i < 300; i++ {
			c = append(c, 1)
		}
	case 1:
		for left := n; left > 0; {
			k := 1 + r.Intn(12)
			c = append(c, k)
			left -= k
		}
	default:
		for left := n; left > 0; {
			k := 1 + r.Intn(n)
			c = append(c, k)
			left -= k
		}
	}
	return c
}

func TestVerifC17(t *testing.T) {
	o := vhOpen(t)
	defer o.Close()
	r := vhRand()
	thorough := vhThorough()
	o.Emit(map[string]interface{}{"kind": "registry", "id": 0, "entries": vh02Registry(),
		"headerLength": headerLength, "maximumLength": maximumLength, "noTag": uint16(noTag)})

	corpus := vh02Corpus(r)
	var small [][]byte
	for _, f := range corpus {
		if len(f) <= 90 {
			small = append(small, f)
		}
	}
	mkStream := func(k int, withPayload, withBad, cut bool) []byte {
		var s []byte
		for j := 0; j < k; j++ {
			f := small[r.Intn(len(small))]
			if withPayload && r.Intn(2) == 0 {
				data := make([]byte, r.Intn(40))
				r.Read(data)
				if r.Intn(2) == 0 {
					f = vh02Encode(uint16(500+j), &twrite{fid: 1, Offset: uint64(j), Data: data})
				} else {
					f = vh02Encode(uint16(500+j), &rread{Data: data})
				}
			}
			if withBad && r.Intn(4) == 0 {
				f = vh02Mutate(r, f)
			}
			s = append(s, f...)
		}
		if cut && len(s) > 1 {
			s = s[:1+r.Intn(len(s)-1)]
		}
		return s
	}
	const msize = 65536

	// 1. short streams: every split point (two pieces), with and without EOF carried by the data
	nshort := 6
	if thorough {
		nshort = 40
	}
	for i := 0; i < nshort; i++ {
		s := mkStream(1+r.Intn(2), true, false, i%3 == 2)
		if len(s) > 110 {
			s = s[:110]
		}
		base := vh17Base(s, msize)
		orc := vh02Oracles(s, msize)
		for k := 1; k < len(s); k++ {
			vh17Scripted(o, "split", msize, s, base, orc, []vh02Step{{K: k, EOF: false}, {K: len(s), EOF: k%2 == 0}})
		}
		ones := make([]vh02Step, len(s)+3)
		for j := range ones {
			ones[j] = vh02Step{K: 1, EOF: j%2 == 0}
		}
		vh17Scripted(o, "bytes", msize, s, base, orc, ones)
	}
	// 2. longer streams, random cuts; sockets
	nlong := 60
	if thorough {
		nlong = 600
	}
	for i := 0; i < nlong; i++ {
		s := mkStream(2+r.Intn(6), true, i%2 == 0, i%5 == 4)
		base := vh17Base(s, msize)
		orc := vh02Oracles(s, msize)
		for j := 0; j < 3; j++ {
			vh17Scripted(o, "cut", msize, s, base, orc, vh02Cuts(r, len(s)))
		}
		if i%2 == 0 {
			vh17Socket(o, "socket-vec", 1, msize, s, base, orc, vh17Chunks(r, len(s)), 40*time.Microsecond)
			vh17Socket(o, "socket-generic", 2, msize, s, base, orc, vh17Chunks(r, len(s)), 40*time.Microsecond)
		}
		if i%3 == 0 { // a Read that fails with a non-EOF error (with or without data): connection error, never another message
			sc := vh02Cuts(r, len(s))
			sc[r.Intn(len(sc))].Err = true
			rd := &vh02Reader{data: s, script: sc}
			evs := vh02Loop(rd, msize, func() int { return rd.pos }, vh17Max)
			vh17id++
			o.Emit(vh17Case{Kind: "loop", ID: vh17id, What: "read-error", Mode: 3, MSize: msize, Max: vh17Max, Stream: vhBytes(s),
				Oracle: orc, Events: evs, Base: base})
		}
		if i%10 == 0 { // Reads that hand over nothing (0, nil): model comparison only
			sc := vh02Cuts(r, len(s))
			for j := range sc {
				if r.Intn(4) == 0 {
					sc[j].K = 0
				}
			}
			vh17Scripted(o, "zero-reads", msize, s, base, orc, sc)
		}
	}
	// 2b. gated writes: one segment carries the header, the whole fixed part and a strict prefix of the
	// payload (a single recvmsg then crosses the buffer boundary and ends inside the payload)
	ngate := 12
	if thorough {
		ngate = 100
	}
	for i := 0; i < ngate; i++ {
		data := make([]byte, 8+r.Intn(60))
		r.Read(data)
		var f []byte
		fixed := 16
		if i%2 == 0 {
			f = vh02Encode(uint16(700+i), &twrite{fid: 1, Offset: uint64(i), Data: data})
		} else {
			f = vh02Encode(uint16(700+i), &rread{Data: data})
			fixed = 4
		}
		s := append(append([]byte{}, f...), small[r.Intn(len(small))]...)
		base := vh17Base(s, msize)
		orc := vh02Oracles(s, msize)
		k := 1 + r.Intn(len(data)-1)
		first := 7 + fixed + k
		if i%3 == 2 { // header alone first, then fixed part + payload prefix
			vh17Socket(o, "socket-gated", 1, msize, s, base, orc, []int{7, fixed + k, len(s)}, 3*time.Millisecond)
		} else {
			vh17Socket(o, "socket-gated", 1, msize, s, base, orc, []int{first, len(s)}, 3*time.Millisecond)
		}
	}
	// 2c. every cut position of short two-vector frames (fixed part + payload) followed by a small frame:
	// the first segment ends at byte `cut` (inside the header, the fixed part, at the boundary, inside the
	// short payload), the rest follows after a pause; on the recvmsg path and behind a plain io.Reader
	for fi, f := range [][]byte{
		vh02Encode(811, &twrite{fid: 3, Offset: 9, Data: []byte{1, 2, 3, 4, 5, 6}}),
		vh02Encode(812, &rread{Data: []byte{9, 8, 7, 6, 5}}),
	} {
		s := append(append([]byte{}, f...), small[fi%len(small)]...)
		base := vh17Base(s, msize)
		orc := vh02Oracles(s, msize)
		for cut := 1; cut < len(f); cut++ {
			vh17Socket(o, "socket-everycut", 1, msize, s, base, orc, []int{cut, len(s)}, 2*time.Millisecond)
			if cut%4 == 1 {
				vh17Socket(o, "socket-everycut", 2, msize, s, base, orc, []int{cut, len(s)}, 2*time.Millisecond)
			}
		}
	}
	// 3. a large payload cut in many places, through the socket (kernel buffers smaller than the frame)
	big := make([]byte, 300000)
	r.Read(big)
	s := vh02Encode(9, &twrite{fid: 1, Offset: 0, Data: big})
	s = append(s, vh02Encode(10, &tclunk{fid: 1})...)
	rd := &vh02Reader{data: s}
	baseBig := vh02Loop(rd, 1<<20, func() int { return rd.pos }, vh17Max)
	for _, mode := range []int{1, 2} {
		a, b, err := vh02SocketPair()
		if err != nil {
			t.Fatal(err)
		}
		go func() {
			for off := 0; off < len(s); {
				n := 1 + r.Intn(70000)
				if off+n > len(s) {
					n = len(s) - off
				}
				a.Write(s[off : off+n])
				off += n
			}
			a.Close()
		}()
		var rdr io.Reader = b
		if mode == 2 {
			rdr = vh02Plain{b}
		}
		b.SetReadDeadline(time.Now().Add(30 * time.Second))
		evs := vh02Loop(rdr, 1<<20, func() int { return 0 }, vh17Max)
		b.Close()
		same := len(evs) == len(baseBig)
		for i := range evs {
			if !same {
				break
			}
			x, y := evs[i], baseBig[i]
			same = x.Kind == y.Kind && x.Tag == y.Tag && x.Typ == y.Typ && len(x.Payload) == len(y.Payload)
			for j := range x.Payload {
				if same && x.Payload[j] != y.Payload[j] {
					same = false
				}
			}
		}
		vh17id++
		o.Emit(map[string]interface{}{"kind": "bigsock", "id": vh17id, "mode": mode, "same": same, "nevents": len(evs), "len": len(s)})
	}
}
