package p9

// C01 at the connection: a real Client drives every File method once against a real Server
// (versions 0 and 7) through a tap that records the raw bytes of both directions.  Every
// captured frame must be exactly the 9P2000.L encoding of some message of its type byte
// (no leftover), and equal the encoding of the message the client was asked to send / the
// backend's answer where the harness knows it.  (Uses vhclStub / vhclVerConn of
// vhcl_common_test.go and the reflection helpers of c01_codec_test.go.)

import (
	"bytes"
	"encoding/binary"
	"encoding/hex"
	"net"
	"reflect"
	"runtime"
	"sync"
	"time"

	"github.com/u-root/uio/ulog"
)

type vh01Tap struct {
	net.Conn
	mu   sync.Mutex
	w, r []byte
}

func (t *vh01Tap) Write(b []byte) (int, error) {
	n, err := t.Conn.Write(b)
	t.mu.Lock()
	t.w = append(t.w, b[:n]...)
	t.mu.Unlock()
	return n, err
}

func (t *vh01Tap) Read(b []byte) (int, error) {
	n, err := t.Conn.Read(b)
	t.mu.Lock()
	t.r = append(t.r, b[:n]...)
	t.mu.Unlock()
	return n, err
}

func (t *vh01Tap) marks() (int, int) {
	t.mu.Lock()
	defer t.mu.Unlock()
	return len(t.w), len(t.r)
}

var (
	vh01cQID    = QID{Type: TypeDir, Version: 0x01020304, Path: 0x1112131415161718}
	vh01cFQID   = QID{Type: TypeRegular, Version: 0xfffffffe, Path: 0xfffffffffffffffe}
	vh01cValid  = AttrMask{Mode: true, UID: true, Size: true, MTime: true, DataVersion: true}
	vh01cAttr   = Attr{Mode: ModeDirectory | 0o755, UID: 1001, GID: 1002, NLink: 3, RDev: 0x0504, Size: 1 << 40, BlockSize: 4096, Blocks: 77, ATimeSeconds: 11, ATimeNanoSeconds: 12, MTimeSeconds: 13, MTimeNanoSeconds: 14, CTimeSeconds: 15, CTimeNanoSeconds: 16, BTimeSeconds: 17, BTimeNanoSeconds: 18, Gen: 19, DataVersion: 1<<64 - 1}
	vh01cStat   = FSStat{Type: 0x01021997, BlockSize: 4096, Blocks: 1 << 33, BlocksFree: 2, BlocksAvailable: 3, Files: 4, FilesFree: 5, FSID: 0xa1a2a3a4a5a6a7a8, NameLength: 255}
	vh01cData   = vh01Pattern(300, 9, 7)
	vh01cEnts   = Dirents{{QID: vh01cFQID, Offset: 1, Type: TypeRegular, Name: "x"}, {QID: vh01cQID, Offset: 2, Type: TypeDir, Name: "sub\xffdir"}, {QID: vh01cFQID, Offset: 1<<64 - 1, Type: TypeSymlink, Name: ""}}
	vh01cTarget = "../some/\x00target"
)

// vh01cFile answers every File method with fixed values.
type vh01cFile struct {
	vhclStub
	reg bool
}

func (f *vh01cFile) child(name string) *vh01cFile { return &vh01cFile{reg: name == "f"} }
func (f *vh01cFile) qa() (QID, Attr) {
	if f.reg {
		a := vh01cAttr
		a.Mode = ModeRegular | 0o644
		return vh01cFQID, a
	}
	return vh01cQID, vh01cAttr
}
func (f *vh01cFile) Walk(names []string) ([]QID, File, error) {
	q, nf, _, _, err := f.WalkGetAttr(names)
	return q, nf, err
}
func (f *vh01cFile) WalkGetAttr(names []string) ([]QID, File, AttrMask, Attr, error) {
	if len(names) == 0 {
		_, a := f.qa()
		return nil, &vh01cFile{reg: f.reg}, vh01cValid, a, nil
	}
	nf := f.child(names[len(names)-1])
	q, a := nf.qa()
	return []QID{q}, nf, vh01cValid, a, nil
}
func (f *vh01cFile) StatFS() (FSStat, error) { return vh01cStat, nil }
func (f *vh01cFile) GetAttr(AttrMask) (QID, AttrMask, Attr, error) {
	q, a := f.qa()
	return q, vh01cValid, a, nil
}
func (f *vh01cFile) SetAttr(SetAttrMask, SetAttr) error { return nil }
func (f *vh01cFile) Open(OpenFlags) (QID, uint32, error) {
	q, _ := f.qa()
	return q, 8192, nil
}
func (f *vh01cFile) ReadAt(p []byte, off int64) (int, error) { return copy(p, vh01cData), nil }
func (f *vh01cFile) WriteAt(p []byte, off int64) (int, error) { return len(p), nil }
func (f *vh01cFile) SetXattr(string, []byte, XattrFlags) error { return nil }
func (f *vh01cFile) GetXattr(string) ([]byte, error)           { return []byte("xattr-value"), nil }
func (f *vh01cFile) ListXattrs() ([]string, error)             { return []string{"user.a", "user.b"}, nil }
func (f *vh01cFile) RemoveXattr(string) error                  { return nil }
func (f *vh01cFile) FSync() error                              { return nil }
func (f *vh01cFile) Lock(int, LockType, LockFlags, uint64, uint64, string) (LockStatus, error) {
	return LockStatusBlocked, nil
}
func (f *vh01cFile) Create(string, OpenFlags, FileMode, UID, GID) (File, QID, uint32, error) {
	return &vh01cFile{reg: true}, vh01cFQID, 4096, nil
}
func (f *vh01cFile) Mkdir(string, FileMode, UID, GID) (QID, error)                 { return vh01cQID, nil }
func (f *vh01cFile) Symlink(string, string, UID, GID) (QID, error)                 { return vh01cFQID, nil }
func (f *vh01cFile) Link(File, string) error                                       { return nil }
func (f *vh01cFile) Mknod(string, FileMode, uint32, uint32, UID, GID) (QID, error) { return vh01cFQID, nil }
func (f *vh01cFile) RenameAt(string, File, string) error                           { return nil }
func (f *vh01cFile) UnlinkAt(string, uint32) error                                 { return nil }
func (f *vh01cFile) Readdir(uint64, uint32) (Dirents, error)                       { return vh01cEnts, nil }
func (f *vh01cFile) Readlink() (string, error)                                     { return vh01cTarget, nil }

// vh01Frames splits a captured byte stream into frames.
func vh01Frames(b []byte) [][]byte {
	var out [][]byte
	for len(b) >= 7 {
		n := int(binary.LittleEndian.Uint32(b))
		if n < 7 || n > len(b) {
			break
		}
		out = append(out, b[:n])
		b = b[n:]
	}
	if len(b) > 0 {
		out = append(out, b) // incomplete tail: reported as it is
	}
	return out
}

// vh01CopyFids sets every field of type fid in dst from src (same struct type).
func vh01CopyFids(dst, src reflect.Value) {
	for i := 0; i < dst.NumField(); i++ {
		d := vh01Settable(dst.Field(i))
		switch {
		case d.Type().Name() == "fid":
			d.SetUint(src.Field(i).Uint())
		case d.Kind() == reflect.Struct:
			vh01CopyFids(d, src.Field(i))
		}
	}
}

// vh01EmitFrame: a captured frame, with the message the harness expects it to be if it knows one.
func vh01EmitFrame(o *vhOut, frame []byte, dir string, step string, version int, want []message) {
	tg, m, err := recv(ulog.Null, bytes.NewReader(frame), maximumLength, func(_ tag, t msgType) (message, error) {
		if msgDotLRegistry.factories[t].create == nil {
			return nil, &ErrInvalidMsgType{t}
		}
		return msgDotLRegistry.factories[t].create(), nil
	})
	res := vh01Result(tg, m, err)
	if err == nil {
		for _, e := range want {
			if reflect.TypeOf(e) != reflect.TypeOf(m) {
				continue
			}
			vh01CopyFids(reflect.ValueOf(e).Elem(), reflect.ValueOf(m).Elem())
			o.Emit(map[string]interface{}{"k": "send", "typ": uint8(m.typ()), "tag": uint16(tg), "msize": maximumLength,
				"profile": "conn-" + dir, "step": step, "version": version, "sent": vh01DumpMsg(e), "wire": hex.EncodeToString(frame), "res": res})
			return
		}
	}
	o.Emit(map[string]interface{}{"k": "conn", "msize": maximumLength, "what": "conn-" + dir, "step": step, "version": version,
		"wire": hex.EncodeToString(frame), "res": res})
}

func vh01ConnScenario(o *vhOut, version int) {
	cc, sc := net.Pipe()
	srv := NewServer(vhclAttacher{f: func() (File, error) { return &vh01cFile{}, nil }})
	done := make(chan struct{})
	go func() { srv.Handle(sc, sc); close(done) }()
	tap := &vh01Tap{Conn: cc}
	defer func() {
		cc.Close()
		select {
		case <-done:
		case <-time.After(10 * time.Second):
		}
	}()
	wm, rm := 0, 0
	flush := func(step string, wantT, wantR []message) {
		w, r := tap.marks()
		tap.mu.Lock()
		tb, rb := append([]byte(nil), tap.w[wm:w]...), append([]byte(nil), tap.r[rm:r]...)
		tap.mu.Unlock()
		wm, rm = w, r
		for _, f := range vh01Frames(tb) {
			vh01EmitFrame(o, f, "T", step, version, wantT)
		}
		for _, f := range vh01Frames(rb) {
			vh01EmitFrame(o, f, "R", step, version, wantR)
		}
	}
	// The real client puts a finalizer (Close -> Tclunk) on every clientFile: each one obtained below stays
	// referenced until the capture is over, so that the GC cannot clunk it in the middle of a recording window.
	var keep []interface{}
	defer func() { runtime.KeepAlive(keep) }()
	c, err := NewClient(&vhclVerConn{Conn: tap, v: version}, WithMessageSize(1<<16))
	keep = append(keep, c)
	if err != nil {
		o.Emit(map[string]interface{}{"k": "conn-error", "what": "NewClient: " + err.Error()})
		return
	}
	flush("version", []message{&tversion{MSize: 1 << 16, Version: "9P2000.L.Google." + string(rune('0'+version))}},
		[]message{&rversion{MSize: 1 << 16, Version: versionString(version9P2000L, uint32(version))}})
	root, err := c.Attach("at/tach")
	if err != nil {
		o.Emit(map[string]interface{}{"k": "conn-error", "what": "Attach: " + err.Error()})
		return
	}
	keep = append(keep, root)
	flush("attach", []message{&tattach{Auth: tauth{Authenticationfid: noFID, AttachName: "at/tach", UserName: "", UID: NoUID}}}, []message{&rattach{QID: vh01cQID}})

	names := []string{"a", "b\xffb", "f"}
	_, file, _ := root.Walk(names)
	flush("walk", []message{&twalk{Names: names}}, []message{&rwalk{QIDs: []QID{vh01cQID, vh01cQID, vh01cFQID}}})
	_, dir, _, _, _ := root.WalkGetAttr([]string{"d"})
	flush("walkgetattr", []message{&twalkgetattr{Names: []string{"d"}}, &twalk{Names: []string{"d"}}, &tgetattr{AttrMask: AttrMaskAll}},
		[]message{&rwalkgetattr{Valid: vh01cValid, Attr: vh01cAttr, QIDs: []QID{vh01cQID}}, &rwalk{QIDs: []QID{vh01cQID}}, &rgetattr{Valid: vh01cValid, QID: vh01cQID, Attr: vh01cAttr}})
	_, clone, _ := root.Walk(nil)
	flush("clone", []message{&twalk{}}, []message{&rwalk{}})
	keep = append(keep, file, dir, clone)
	if file == nil || dir == nil || clone == nil {
		o.Emit(map[string]interface{}{"k": "conn-error", "what": "walks failed"})
		return
	}
	root.StatFS()
	flush("statfs", []message{&tstatfs{}}, []message{&rstatfs{FSStat: vh01cStat}})
	req := AttrMask{Mode: true, NLink: true, Size: true, BTime: true, DataVersion: true}
	dir.GetAttr(req)
	flush("getattr", []message{&tgetattr{AttrMask: req}}, []message{&rgetattr{Valid: vh01cValid, QID: vh01cQID, Attr: vh01cAttr}})
	sv := SetAttrMask{Permissions: true, Size: true, MTime: true, MTimeNotSystemTime: true}
	sa := SetAttr{Permissions: 0o104755, UID: 7, GID: NoGID, Size: 1<<63 + 5, ATimeSeconds: 1, ATimeNanoSeconds: 2, MTimeSeconds: 3, MTimeNanoSeconds: 999999999}
	file.SetAttr(sv, sa)
	flush("setattr", []message{&tsetattr{Valid: sv, SetAttr: sa}}, []message{&rsetattr{}})
	file.Open(ReadWrite)
	flush("open", []message{&tlopen{Flags: ReadWrite}}, []message{&rlopen{QID: vh01cFQID, IoUnit: 8192}})
	buf := make([]byte, 1000)
	file.ReadAt(buf, 1<<40+3)
	flush("read", []message{&tread{Offset: 1<<40 + 3, Count: 1000}}, []message{&rread{Data: vh01cData}})
	wdata := vh01Pattern(777, 200, 3)
	file.WriteAt(wdata, 1<<62)
	flush("write", []message{&twrite{Offset: 1 << 62, Data: wdata}}, []message{&rwrite{Count: 777}})
	file.FSync()
	flush("fsync", []message{&tfsync{}}, []message{&rfsync{}})
	file.Lock(-2, WriteLock, LockFlagsBlock|LockFlagsReclaim, 5, 1<<64-1, "client\x00id")
	flush("lock", []message{&tlock{Type: WriteLock, Flags: LockFlagsBlock | LockFlagsReclaim, Start: 5, Length: 1<<64 - 1, PID: -2, Client: "client\x00id"}},
		[]message{&rlock{Status: LockStatusBlocked}})
	perm := FileMode(0o167755) // type bits and bits above 0o7777 must not reach the wire
	dir.Mkdir("newdir", perm, 501, 502)
	flush("mkdir", []message{&tmkdir{Name: "newdir", Permissions: perm, GID: NoGID}, &tumkdir{tmkdir: tmkdir{Name: "newdir", Permissions: perm, GID: 502}, UID: 501}},
		[]message{&rmkdir{QID: vh01cQID}, &rumkdir{rmkdir{QID: vh01cQID}}})
	dir.Symlink(vh01cTarget, "lnk", 601, 602)
	flush("symlink", []message{&tsymlink{Name: "lnk", Target: vh01cTarget, GID: NoGID}, &tusymlink{tsymlink: tsymlink{Name: "lnk", Target: vh01cTarget, GID: 602}, UID: 601}},
		[]message{&rsymlink{QID: vh01cFQID}, &rusymlink{rsymlink{QID: vh01cFQID}}})
	dir.Mknod("node", ModeCharacterDevice|0o600, 1<<32-1, 1<<31, 701, 702)
	flush("mknod", []message{&tmknod{Name: "node", Mode: ModeCharacterDevice | 0o600, Major: 1<<32 - 1, Minor: 1 << 31, GID: NoGID},
		&tumknod{tmknod: tmknod{Name: "node", Mode: ModeCharacterDevice | 0o600, Major: 1<<32 - 1, Minor: 1 << 31, GID: 702}, UID: 701}},
		[]message{&rmknod{QID: vh01cFQID}, &rumknod{rmknod{QID: vh01cFQID}}})
	dir.Link(file, "hard")
	flush("link", []message{&tlink{Name: "hard"}}, []message{&rlink{}})
	dir.RenameAt("old", root, "new")
	flush("renameat", []message{&trenameat{OldName: "old", NewName: "new"}}, []message{&rrenameat{}})
	dir.UnlinkAt("gone", 0x200)
	flush("unlinkat", []message{&tunlinkat{Name: "gone", Flags: 0x200}}, []message{&runlinkat{}})
	file.Rename(dir, "renamed")
	flush("rename", []message{&trename{Name: "renamed"}}, []message{&rrename{}})
	file.Readlink()
	flush("readlink", []message{&treadlink{}}, []message{&rreadlink{Target: vh01cTarget}})
	clone.Open(ReadOnly)
	flush("opendir", []message{&tlopen{Flags: ReadOnly}}, []message{&rlopen{QID: vh01cQID, IoUnit: 8192}})
	clone.Readdir(1<<33, 4096)
	flush("readdir", []message{&treaddir{Offset: 1 << 33, Count: 4096}}, []message{&rreaddir{Count: 4096, Entries: vh01cEnts}})
	cf, _, _, _ := dir.Create("created", ReadWrite|0x8000, perm, 801, 802)
	flush("create", []message{&tlcreate{Name: "created", OpenFlags: ReadWrite | 0x8000, Permissions: perm, GID: NoGID},
		&tucreate{tlcreate: tlcreate{Name: "created", OpenFlags: ReadWrite | 0x8000, Permissions: perm, GID: 802}, UID: 801}},
		[]message{&rlcreate{rlopen{QID: vh01cFQID, IoUnit: 4096}}, &rucreate{rlcreate{rlopen{QID: vh01cFQID, IoUnit: 4096}}}})
	keep = append(keep, cf)
	root.SetXattr("user.x", []byte("value"), XattrCreate)
	flush("setxattr", []message{&txattrcreate{Name: "user.x", AttrSize: 5, Flags: uint32(XattrCreate)}}, nil)
	root.GetXattr("user.x")
	flush("getxattr", []message{&txattrwalk{Name: "user.x"}}, nil)
	root.ListXattrs()
	flush("listxattrs", nil, nil)
	file.Close()
	flush("close", []message{&tclunk{}}, []message{&rclunk{}})
	clone.(*clientFile).Remove()
	flush("remove", []message{&tremove{}}, []message{&rremove{}})
}
