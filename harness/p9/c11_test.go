package p9

// C11 correspondence harness: (a) the real chunk() driven by a scripted fn,
// (b) Client ReadAt/WriteAt through real client + real server + a sparse
// in-memory backend that answers short counts and errors from a script.

import (
	"fmt"
	"io"
	"math/rand"
	"testing"

	"github.com/hugelgupf/p9/linux"
)

type vh11Ans struct {
	N      int     `json:"n"`
	Err    vhclErr `json:"err"`
	Stored bool    `json:"stored,omitempty"` // the backend stores N bytes and then fails with Err
}

type vh11Call struct {
	Pos int   `json:"pos"`
	Len int   `json:"len"`
	Off int64 `json:"off"`
	N   int   `json:"n"`
	Err vhclErr `json:"err"`
}

func vh11Err(e vhclErr) error {
	switch e.K {
	case "nil":
		return nil
	case "eof":
		return io.EOF
	case "errno":
		return linux.Errno(e.N)
	}
	return fmt.Errorf("opaque")
}

// ---- (a) direct ----

func vh11Direct(o *vhOut, id int, r *rand.Rand, cs uint32, lenp int, off int64, over bool) {
	p := make([]byte, lenp)
	var tape []vh11Ans
	var calls []vh11Call
	fn := func(b []byte, at int64) (int, error) {
		a := vh11Ans{N: len(b), Err: vhclErr{K: "nil"}}
		switch x := r.Intn(100); {
		case x < 62:
		case x < 76 && len(b) > 0:
			a.N = r.Intn(len(b))
		case x < 84:
			a.N = 0
			a.Err = vhclErr{K: "errno", N: uint32(1 + r.Intn(130))}
		case x < 88:
			a.N = 0
			a.Err = vhclErr{K: "eof"}
		case x < 92 && len(b) > 0:
			a.N = r.Intn(len(b) + 1)
			a.Err = vhclErr{K: "errno", N: 5}
		case x < 96 && over:
			a.N = len(b) + 1 + r.Intn(3)
		}
		tape = append(tape, a)
		calls = append(calls, vh11Call{Pos: cap(p) - cap(b), Len: len(b), Off: at})
		return a.N, vh11Err(a.Err)
	}
	var n int
	var err error
	panicked := false
	func() {
		defer func() {
			if recover() != nil {
				panicked = true
			}
		}()
		n, err = chunk(cs, fn, p, off)
	}()
	o.Emit(map[string]interface{}{"kind": "direct", "id": id, "cs": cs, "lenp": lenp, "off": off, "tape": tape,
		"panicked": panicked, "n": n, "err": vhclClassify(err), "calls": calls, "content_ok": true})
}

// ---- (b) end to end ----

const vh11Page = 4096

type vh11File struct {
	vhclStub
	pages map[int64]*[vh11Page]byte
	size  int64
	tape  []vh11Ans // per data call: N = max bytes to accept/return (<0: all), Err
	calls []vh11Call
}

func (f *vh11File) get(i int64) byte {
	if i >= f.size {
		return 0
	}
	pg := f.pages[i/vh11Page]
	if pg == nil {
		return 0
	}
	return pg[i%vh11Page]
}

func (f *vh11File) put(i int64, b byte) {
	pg := f.pages[i/vh11Page]
	if pg == nil {
		pg = new([vh11Page]byte)
		f.pages[i/vh11Page] = pg
	}
	pg[i%vh11Page] = b
}

func (f *vh11File) next() vh11Ans {
	if len(f.tape) == 0 {
		return vh11Ans{N: -1, Err: vhclErr{K: "nil"}}
	}
	a := f.tape[0]
	f.tape = f.tape[1:]
	return a
}

func (f *vh11File) GetAttr(AttrMask) (QID, AttrMask, Attr, error) {
	return QID{Type: TypeRegular, Path: 11}, AttrMask{Mode: true, Size: true}, Attr{Mode: ModeRegular | 0o644, Size: uint64(f.size)}, nil
}
func (f *vh11File) Open(OpenFlags) (QID, uint32, error) { return QID{Type: TypeRegular, Path: 11}, 0, nil }

func (f *vh11File) WriteAt(p []byte, off int64) (int, error) {
	a := f.next()
	c := vh11Call{Len: len(p), Off: off, Err: a.Err}
	if a.Err.K != "nil" && !a.Stored {
		f.calls = append(f.calls, c)
		return 0, vh11Err(a.Err)
	}
	k := len(p)
	if a.N >= 0 && a.N < k {
		k = a.N
	}
	for i := 0; i < k; i++ {
		f.put(off+int64(i), p[i])
	}
	if a.Stored {
		if k > 0 && off+int64(k) > f.size {
			f.size = off + int64(k)
		}
		c.N = k
		f.calls = append(f.calls, c)
		return k, vh11Err(a.Err)
	}
	if k > 0 && off+int64(k) > f.size {
		f.size = off + int64(k)
	}
	c.N = k
	f.calls = append(f.calls, c)
	return k, nil
}

func (f *vh11File) ReadAt(p []byte, off int64) (int, error) {
	a := f.next()
	c := vh11Call{Len: len(p), Off: off, Err: a.Err}
	if a.Err.K != "nil" {
		f.calls = append(f.calls, c)
		return 0, vh11Err(a.Err)
	}
	k := len(p)
	if a.N >= 0 && a.N < k {
		k = a.N
	}
	if off >= f.size {
		k = 0
	} else if int64(k) > f.size-off {
		k = int(f.size - off)
	}
	for i := 0; i < k; i++ {
		p[i] = f.get(off + int64(i))
	}
	c.N = k
	f.calls = append(f.calls, c)
	if k < len(p) && off+int64(k) >= f.size {
		return k, io.EOF
	}
	return k, nil
}

func vh11NewFile(base int64, content []byte) *vh11File {
	f := &vh11File{pages: map[int64]*[vh11Page]byte{}}
	for i, b := range content {
		f.put(base+int64(i), b)
	}
	if len(content) > 0 {
		f.size = base + int64(len(content))
	}
	return f
}

type vh11Spec struct {
	msize uint32
	write bool
	lenp  int
	off   int64
	base  int64
	flen  int
	tape  []vh11Ans
	heavy bool
	grant uint32 // the server announces this msize instead of the requested one
}

func vh11PatternAC(a, c byte, n int) []byte {
	b := make([]byte, n)
	for i := range b {
		b[i] = a*byte(i) + c + byte(i>>8)
	}
	return b
}

func vh11Pattern(r *rand.Rand, n int) []byte {
	return vh11PatternAC(byte(r.Intn(256))|1, byte(r.Intn(256)), n)
}

// vh11Run performs one ReadAt/WriteAt; big runs are reported at length level only.
func vh11Run(t *testing.T, o *vhOut, id int, r *rand.Rand, s vh11Spec, big bool) {
	fa, fc, pa, pc := byte(r.Intn(256))|1, byte(r.Intn(256)), byte(r.Intn(256))|1, byte(r.Intn(256))
	content := vh11PatternAC(fa, fc, s.flen)
	f := vh11NewFile(s.base, content)
	f.tape = append([]vh11Ans(nil), s.tape...)
	pr, err := vhclPairGrant(vhclAttacher{func() (File, error) { return f, nil }}, s.msize, s.grant, -1)
	if err != nil {
		t.Fatalf("C11 pair msize=%d: %v", s.msize, err)
	}
	defer pr.Close()
	root, err := pr.c.Attach("")
	if err != nil {
		t.Fatalf("C11 attach: %v", err)
	}
	if _, _, err := root.Open(ReadWrite); err != nil {
		t.Fatalf("C11 open: %v", err)
	}
	p := vh11PatternAC(pa, pc, s.lenp)
	p0 := append([]byte(nil), p...)
	var n int
	if s.write {
		n, err = root.WriteAt(p, s.off)
	} else {
		n, err = root.ReadAt(p, s.off)
	}
	ce := vhclClassify(err)
	cs := pr.c.payloadSize
	o.Emit(map[string]interface{}{"kind": "payload", "id": id, "req": s.msize, "grant": s.grant, "msize": pr.c.messageSize, "cs": cs})
	kind := "read"
	if s.write {
		kind = "write"
	}
	if big {
		// client-level answers reconstructed from what the backend did
		var tape []vh11Ans
		var calls []vh11Call
		for _, c := range f.calls {
			a := vh11Ans{N: c.N, Err: c.Err}
			if c.Err.K != "nil" {
				a.N = 0
			} else if !s.write && c.N == 0 && c.Len > 0 {
				a.Err = vhclErr{K: "eof"}
			}
			tape = append(tape, a)
			calls = append(calls, vh11Call{Pos: int(c.Off - s.off), Len: c.Len, Off: c.Off})
		}
		ok := n >= 0 && n <= s.lenp
		if ok && s.write {
			for i := 0; i < n; i++ { // (bytes a failing request stored beyond n are not an error)
				if f.get(s.off+int64(i)) != p0[i] {
					ok = false
					break
				}
			}
		} else if ok {
			ref := vh11NewFile(s.base, content)
			for i := 0; i < s.lenp; i++ {
				want := p0[i]
				if i < n {
					want = ref.get(s.off + int64(i))
					if s.off+int64(i) >= ref.size {
						ok = false
					}
				}
				if p[i] != want {
					ok = false
					break
				}
			}
		}
		// "fills p up to end of file" / "n = len(p) when the backend accepts everything": with a backend that was not
		// scripted to answer short or to fail, the count is all there is (for the long runs this is evaluated here,
		// with the content; for the others in Coq: ChunkCases.fills_to_eof)
		if ok && len(s.tape) == 0 && s.lenp > 30000 {
			want := s.lenp
			if !s.write {
				avail := int64(0)
				if s.flen > 0 {
					avail = s.base + int64(s.flen) - s.off
				}
				if avail < 0 {
					avail = 0
				}
				if int64(want) > avail {
					want = int(avail)
				}
			}
			if n != want {
				ok = false
			}
		}
		if s.lenp <= 30000 { // (longer list literals overflow coqc's stack)
			// content compared in Coq: buffers and file given by their generator parameters
			stored := 0
			if len(f.calls) > 0 && f.calls[len(f.calls)-1].Err.K != "nil" {
				stored = f.calls[len(f.calls)-1].N
			}
			rec := map[string]interface{}{"kind": "big" + kind, "id": id, "msize": pr.c.messageSize, "cs": cs, "pa": pa, "pc": pc, "lenp": s.lenp, "off": s.off,
				"base": s.base, "fa": fa, "fc": fc, "flen": s.flen, "tape": tape, "stored": stored, "n": n, "err": ce, "calls": calls}
			if s.write {
				ws := s.off - 8
				if ws < 0 {
					ws = 0
				}
				win := make([]byte, int(s.off-ws)+s.lenp+8)
				for i := range win {
					win[i] = f.get(ws + int64(i))
				}
				rec["wstart"] = ws
				rec["window"] = vhBytes(win)
			} else {
				rec["buf_after"] = vhBytes(p)
			}
			o.Emit(rec)
			return
		}
		o.Emit(map[string]interface{}{"kind": "direct", "sub": kind, "id": id, "msize": pr.c.messageSize, "cs": cs, "lenp": s.lenp, "off": s.off,
			"tape": tape, "panicked": false, "n": n, "err": ce, "calls": calls, "content_ok": ok})
		return
	}
	rec := map[string]interface{}{"kind": kind, "id": id, "msize": pr.c.messageSize, "cs": cs, "p": vhBytes(p0), "off": s.off, "base": s.base,
		"file0": vhBytes(content), "tape": s.tape, "n": n, "err": ce, "calls": f.calls}
	if s.write {
		ws := s.off - 8
		if ws < 0 {
			ws = 0
		}
		win := make([]byte, int(s.off-ws)+s.lenp+8)
		for i := range win {
			win[i] = f.get(ws + int64(i))
		}
		rec["wstart"] = ws
		rec["window"] = vhBytes(win)
		rec["size_after"] = f.size
	} else {
		rec["buf_after"] = vhBytes(p)
	}
	o.Emit(rec)
}

func vh11Tape(r *rand.Rand, nchunks int, cs int) []vh11Ans {
	full := vh11Ans{N: -1, Err: vhclErr{K: "nil"}}
	switch r.Intn(6) {
	case 5: // the backend stores part of a chunk and then fails
		at := r.Intn(nchunks + 1)
		var t []vh11Ans
		for i := 0; i < at; i++ {
			t = append(t, full)
		}
		return append(t, vh11Ans{N: r.Intn(cs + 1), Err: vhclErr{K: "errno", N: uint32(1 + r.Intn(130))}, Stored: true})
	case 0, 1:
		return nil
	case 2: // short count at some chunk
		at := r.Intn(nchunks + 1)
		var t []vh11Ans
		for i := 0; i < at; i++ {
			t = append(t, full)
		}
		return append(t, vh11Ans{N: r.Intn(cs + 1), Err: vhclErr{K: "nil"}})
	case 3: // error at some chunk
		at := r.Intn(nchunks + 1)
		var t []vh11Ans
		for i := 0; i < at; i++ {
			t = append(t, full)
		}
		return append(t, vh11Ans{N: 0, Err: vhclErr{K: "errno", N: uint32(1 + r.Intn(130))}})
	default: // several short counts (only the first matters)
		var t []vh11Ans
		for i := 0; i <= nchunks; i++ {
			if r.Intn(3) == 0 {
				t = append(t, vh11Ans{N: r.Intn(cs + 2), Err: vhclErr{K: "nil"}})
			} else {
				t = append(t, full)
			}
		}
		return t
	}
}

func vh11Payload(msize uint32) int {
	return int(roundDown(msize-msgDotLRegistry.largestFixedSize, 512))
}

func TestVerifC11(t *testing.T) {
	o := vhOpen(t)
	defer o.Close()
	r := vhRand()
	id := 0
	// (0) ReadAt calls in flight together on one connection after a read that ended with zero bytes at end of file
	{
		ok, valid, detail := vhReadAfterEOFProbe(8)
		if !valid {
			t.Fatalf("C11 read-after-EOF probe could not run: %s", detail)
		}
		o.Emit(map[string]interface{}{"kind": "filled", "id": -1, "ok": ok, "detail": detail})
	}
	// (a) direct: fixed boundary corpus, then random
	for _, cs := range []uint32{1, 2, 3, 4, 7, 16} {
		for _, k := range []int{0, 1, 2, 3} {
			for _, d := range []int{-1, 0, 1} {
				lenp := k*int(cs) + d
				if lenp < 0 {
					continue
				}
				offs := []int64{0, 5, 1<<32 + 3, 1 << 62}
				if !vhThorough() { // two of the four offsets per combination, alternating
					offs = []int64{offs[(k+d+1)%2], offs[2+(k+d+1)%2]}
				}
				for _, off := range offs {
					vh11Direct(o, id, r, cs, lenp, off, false)
					id++
				}
			}
		}
	}
	nd := 150
	if vhThorough() {
		nd = 3000
	}
	for i := 0; i < nd; i++ {
		cs := uint32(1 + r.Intn(9))
		if r.Intn(8) == 0 {
			cs = uint32(1 + r.Intn(4000))
		}
		vh11Direct(o, id, r, cs, r.Intn(4*int(cs)+2), []int64{0, 1, 77, 1 << 31, 1<<32 + 1, 1 << 40, 1<<62 + 5}[r.Intn(7)], r.Intn(3) == 0)
		id++
	}
	// (b) end to end with content
	reps := 1
	if vhThorough() {
		reps = 3
	}
	for _, msize := range []uint32{154, 155, 156, 157, 160, 170, 665, 666, 667, 1177} {
		cs := vh11Payload(msize)
		for _, k := range []int{0, 1, 2, 3} {
			for _, d := range []int{-1, 0, 1} {
				lenp := k*cs + d
				if lenp < 0 || (cs >= 512 && k == 3 && !vhThorough()) {
					continue
				}
				for rep := 0; rep < reps; rep++ {
					for _, write := range []bool{true, false} {
						s := vh11Spec{msize: msize, write: write, lenp: lenp}
						s.flen = []int{0, 1, lenp / 2, lenp, lenp + 1, lenp + cs, 2*lenp + 3, cs, 2 * cs}[r.Intn(9)]
						switch r.Intn(7) {
						case 0:
							s.off = 0
						case 1:
							s.off = int64(r.Intn(s.flen + 1))
						case 2:
							s.off = int64(s.flen) // at EOF
						case 3:
							s.off = int64(s.flen + 1 + r.Intn(2*cs+2)) // after EOF
						case 4:
							s.base = 1<<32 + int64(r.Intn(100))
							s.off = s.base + int64(r.Intn(s.flen+2)) - 1
						case 5:
							s.base = 1<<40 + 7
							s.off = s.base + int64(s.flen) - int64(r.Intn(cs+1))
							if s.off < 0 {
								s.off = 0
							}
						default:
							s.off = int64(r.Intn(cs + 2))
						}
						if s.flen == 0 {
							s.base = 0
						}
						s.tape = vh11Tape(r, k+1, cs)
						vh11Run(t, o, id, r, s, false)
						id++
					}
				}
			}
		}
	}
	// (b2) the server announces a smaller msize than the client asked for: the chunks follow the announced one
	for _, g := range [][2]uint32{{65536, 160}, {8192, 666}, {65536, 2201}, {65536, 65030}} {
		cs := vh11Payload(g[1])
		for _, write := range []bool{true, false} {
			for _, lenp := range []int{cs + 1, 2*cs + 1} {
				if lenp > 70000 && !write {
					continue
				}
				s := vh11Spec{msize: g[0], grant: g[1], write: write, lenp: lenp, flen: lenp + 3, off: 1}
				vh11Run(t, o, id, r, s, cs > 1024)
				id++
			}
		}
	}
	// (c) end to end, larger msize up to 1 MiB and more: length level + content checked here
	// quick: up to 64 KiB (the length-level evaluation in Coq is unary); MiB-sized runs in the thorough tier
	// 131072: chunks of 130560 bytes (> 65535: a 16-bit count would show); 1 MiB: two runs in the quick tier
	bigs := []uint32{2201, 4096, 8192, 65536, 131072, 1 << 20}
	if vhThorough() {
		bigs = append(bigs, 4097, 1<<20+1)
	}
	for _, msize := range bigs {
		cs := vh11Payload(msize)
		for _, k := range []int{1, 2, 3} {
			for _, d := range []int{-1, 0, 1} {
				// unary numbers in the Coq evaluation: keep the MiB-sized runs few in the quick tier
				if msize >= 1<<20 && !vhThorough() {
					if !(k == 2 && d == 1) && !(k == 1 && d == 0) {
						continue
					}
				} else if !vhThorough() && ((msize >= 4096 && k == 3) || (msize >= 8192 && d != 0)) {
					continue
				}
				for _, write := range []bool{true, false} {
					lenp := k*cs + d
					s := vh11Spec{msize: msize, write: write, lenp: lenp}
					s.flen = []int{lenp, lenp + 5, lenp - cs/2, 2 * cs}[r.Intn(4)]
					if s.flen < 0 {
						s.flen = 0
					}
					s.off = []int64{0, 3, int64(cs), 1<<32 + 9}[r.Intn(4)]
					if s.off > 1<<32 {
						s.base = s.off - 2
					}
					s.tape = vh11Tape(r, k+1, cs)
					s.heavy = msize == 65536 && k == 2 && d == 1
					vh11Run(t, o, id, r, s, true)
					id++
				}
			}
		}
	}
}
