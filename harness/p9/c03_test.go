package p9

// C03 correspondence harness: every clientFile method x versions 0..7 x generated
// arguments through the real client, the real server and a recording backend
// whose answers (values and error kinds) come from the seed.

import (
	"errors"
	"fmt"
	"io"
	"io/fs"
	"math/rand"
	"net"
	"os"
	"reflect"
	"runtime"
	"runtime/debug"
	"strings"
	"sync"
	"syscall"
	"testing"
	"time"

	"github.com/hugelgupf/p9/linux"
)

// tagged value: {"n": "123"} | {"s": [bytes]} | {"l": [[bytes]]} | {"r": ["1",...]} | {"f": fid} | {"nameof": fid}
type vh03Val map[string]interface{}

func vh03N(n uint64) vh03Val   { return vh03Val{"n": fmt.Sprint(n)} }
func vh03S(s string) vh03Val   { return vh03Val{"s": vhBytes([]byte(s))} }
func vh03R(x ...uint64) vh03Val {
	var l []string
	for _, v := range x {
		l = append(l, fmt.Sprint(v))
	}
	return vh03Val{"r": l}
}
func vh03B(b bool) uint64 {
	if b {
		return 1
	}
	return 0
}
func vh03Mask(m AttrMask) vh03Val {
	return vh03R(vh03B(m.Mode), vh03B(m.NLink), vh03B(m.UID), vh03B(m.GID), vh03B(m.RDev), vh03B(m.ATime), vh03B(m.MTime), vh03B(m.CTime),
		vh03B(m.INo), vh03B(m.Size), vh03B(m.Blocks), vh03B(m.BTime), vh03B(m.Gen), vh03B(m.DataVersion))
}
func vh03SetMask(m SetAttrMask) vh03Val {
	return vh03R(vh03B(m.Permissions), vh03B(m.UID), vh03B(m.GID), vh03B(m.Size), vh03B(m.ATime), vh03B(m.MTime), vh03B(m.CTime),
		vh03B(m.ATimeNotSystemTime), vh03B(m.MTimeNotSystemTime))
}
func vh03SetAttr(a SetAttr) vh03Val {
	return vh03R(uint64(a.Permissions), uint64(a.UID), uint64(a.GID), a.Size, a.ATimeSeconds, a.ATimeNanoSeconds, a.MTimeSeconds, a.MTimeNanoSeconds)
}

type vh03Call struct {
	M    string    `json:"m"`
	On   int       `json:"on"` // backend handle
	Args []vh03Val `json:"args"`
}

type vh03World struct {
	mu     sync.Mutex
	log    []vh03Call
	next   int
	err    error  // answer of the next recorded call (nil: success)
	errFor string // if set, only calls of this method fail
	xval   []byte
	xnames []string
	ar     *rand.Rand // answers are drawn from here: every call answers different values
	walkQ  []QID      // QIDs answered by the walk calls of the window, in order
	walkV  AttrMask   // attributes answered by the last WalkGetAttr / GetAttr of the window
	walkA  Attr
	gate   chan struct{} // when set: the next backend RenameAt waits for it (once)
	inside chan struct{}
	ans    []vh03Val // the success values answered, flattened field by field
	record bool
}

type vh03File struct {
	vhclStub
	w      *vh03World
	h      int
	mode   FileMode
	name   string
	parent *vh03File
}

func (w *vh03World) newFile(mode FileMode, name string, parent *vh03File) *vh03File {
	w.mu.Lock()
	defer w.mu.Unlock()
	f := &vh03File{w: w, h: w.next, mode: mode, name: name, parent: parent}
	w.next++
	return f
}

// rec logs a call made while recording and returns the scripted error.
func (f *vh03File) rec(m string, args ...vh03Val) error {
	f.w.mu.Lock()
	defer f.w.mu.Unlock()
	if !f.w.record {
		return nil
	}
	f.w.log = append(f.w.log, vh03Call{M: m, On: f.h, Args: args})
	if f.w.errFor != "" && f.w.errFor != m {
		return nil
	}
	return f.w.err
}

func (f *vh03File) setAns(a ...interface{}) {
	f.w.mu.Lock()
	if f.w.record {
		f.w.ans = vh03Flat(a...)
	}
	f.w.mu.Unlock()
}

// vh03Flat flattens values field by field: integers and booleans as numbers, strings as bytes,
// slices as their length followed by their elements.
func vh03Flat(a ...interface{}) []vh03Val {
	out := []vh03Val{}
	var walk func(v reflect.Value)
	walk = func(v reflect.Value) {
		switch v.Kind() {
		case reflect.Bool:
			out = append(out, vh03N(vh03B(v.Bool())))
		case reflect.Int, reflect.Int8, reflect.Int16, reflect.Int32, reflect.Int64:
			out = append(out, vh03N(uint64(v.Int())))
		case reflect.Uint, reflect.Uint8, reflect.Uint16, reflect.Uint32, reflect.Uint64, reflect.Uintptr:
			out = append(out, vh03N(v.Uint()))
		case reflect.String:
			out = append(out, vh03S(v.String()))
		case reflect.Struct:
			for i := 0; i < v.NumField(); i++ {
				walk(v.Field(i))
			}
		case reflect.Slice, reflect.Array:
			out = append(out, vh03N(uint64(v.Len())))
			for i := 0; i < v.Len(); i++ {
				walk(v.Index(i))
			}
		case reflect.Interface, reflect.Ptr:
			if !v.IsNil() {
				walk(v.Elem())
			}
		}
	}
	for _, x := range a {
		walk(reflect.ValueOf(x))
	}
	return out
}

// ---- seeded answers: every backend call answers different values ----

func (w *vh03World) rnd() *rand.Rand {
	if w.ar == nil {
		w.ar = rand.New(rand.NewSource(1))
	}
	return w.ar
}

func (w *vh03World) rQID(t QIDType) QID {
	r := w.rnd()
	return QID{Type: t, Version: r.Uint32(), Path: vh03U64(r)}
}

func (w *vh03World) rMask() AttrMask {
	r := w.rnd()
	b := func() bool { return r.Intn(2) == 0 }
	return AttrMask{Mode: true, NLink: b(), UID: b(), GID: b(), RDev: b(), ATime: b(), MTime: b(), CTime: b(), INo: b(), Size: b(), Blocks: b(), BTime: b(), Gen: b(), DataVersion: b()}
}

func (w *vh03World) rAttr(mode FileMode) Attr {
	r := w.rnd()
	return Attr{Mode: mode.FileType() | FileMode(r.Intn(0o10000)), UID: UID(vh03U32(r)), GID: GID(vh03U32(r)), NLink: NLink(vh03U64(r)), RDev: Dev(vh03U64(r)), Size: vh03U64(r),
		BlockSize: vh03U64(r), Blocks: vh03U64(r), ATimeSeconds: vh03U64(r), ATimeNanoSeconds: vh03U64(r), MTimeSeconds: vh03U64(r), MTimeNanoSeconds: vh03U64(r),
		CTimeSeconds: vh03U64(r), CTimeNanoSeconds: vh03U64(r), BTimeSeconds: vh03U64(r), BTimeNanoSeconds: vh03U64(r), Gen: vh03U64(r), DataVersion: vh03U64(r)}
}

func (f *vh03File) qtype() QIDType {
	if f.mode.IsDir() {
		return TypeDir
	} else if f.mode.IsSymlink() {
		return TypeSymlink
	}
	return TypeRegular
}

func (f *vh03File) qid() QID {
	t := TypeRegular
	if f.mode.IsDir() {
		t = TypeDir
	} else if f.mode.IsSymlink() {
		t = TypeSymlink
	}
	return QID{Type: t, Version: 7, Path: uint64(1000 + f.h)}
}

func vh03Names(names []string) vh03Val {
	var l [][]int
	for _, n := range names {
		l = append(l, vhBytes([]byte(n)))
	}
	if l == nil {
		l = [][]int{}
	}
	return vh03Val{"l": l}
}

func (f *vh03File) child(name string) *vh03File {
	mode := FileMode(ModeRegular | 0o644)
	if len(name) > 0 && name[0] == 'd' {
		mode = ModeDirectory | 0o755
	} else if len(name) > 0 && name[0] == 'l' {
		mode = ModeSymlink | 0o777
	}
	return f.w.newFile(mode, name, f)
}

func (f *vh03File) Walk(names []string) ([]QID, File, error) {
	if err := f.rec("Walk", vh03Names(names)); err != nil {
		return nil, nil, err
	}
	if len(names) == 0 {
		c := f.w.newFile(f.mode, f.name, f.parent)
		return nil, c, nil
	}
	c := f.child(names[0])
	q := f.w.rQID(c.qtype())
	f.w.mu.Lock()
	if f.w.record {
		f.w.walkQ = append(f.w.walkQ, q)
	}
	f.w.mu.Unlock()
	return []QID{q}, c, nil
}

func (f *vh03File) WalkGetAttr(names []string) ([]QID, File, AttrMask, Attr, error) {
	if err := f.rec("WalkGetAttr", vh03Names(names)); err != nil {
		return nil, nil, AttrMask{}, Attr{}, err
	}
	var c *vh03File
	var qs []QID
	if len(names) == 0 {
		c = f.w.newFile(f.mode, f.name, f.parent)
	} else {
		c = f.child(names[0])
		qs = []QID{f.w.rQID(c.qtype())}
	}
	v, a := f.w.rMask(), f.w.rAttr(c.mode)
	f.w.mu.Lock()
	if f.w.record {
		f.w.walkQ = append(f.w.walkQ, qs...)
		f.w.walkV, f.w.walkA = v, a
	}
	f.w.mu.Unlock()
	return qs, c, v, a, nil
}

func (f *vh03File) GetAttr(req AttrMask) (QID, AttrMask, Attr, error) {
	if err := f.rec("GetAttr", vh03Mask(req)); err != nil {
		return QID{}, AttrMask{}, Attr{}, err
	}
	q, v, a := f.w.rQID(f.qtype()), f.w.rMask(), f.w.rAttr(f.mode)
	f.w.mu.Lock()
	if f.w.record {
		f.w.walkV, f.w.walkA = v, a
	}
	f.w.mu.Unlock()
	f.setAns(q, v, a)
	return q, v, a, nil
}

func (f *vh03File) SetAttr(valid SetAttrMask, attr SetAttr) error {
	return f.rec("SetAttr", vh03SetMask(valid), vh03SetAttr(attr))
}
func (f *vh03File) StatFS() (FSStat, error) {
	if err := f.rec("StatFS"); err != nil {
		return FSStat{}, err
	}
	r := f.w.rnd()
	s := FSStat{Type: vh03U32(r), BlockSize: vh03U32(r), Blocks: vh03U64(r), BlocksFree: vh03U64(r), BlocksAvailable: vh03U64(r), Files: vh03U64(r), FilesFree: vh03U64(r), FSID: vh03U64(r), NameLength: vh03U32(r)}
	f.setAns(s)
	return s, nil
}
func (f *vh03File) Open(flags OpenFlags) (QID, uint32, error) {
	if err := f.rec("Open", vh03N(uint64(flags))); err != nil {
		return QID{}, 0, err
	}
	q, u := f.w.rQID(f.qtype()), vh03U32(f.w.rnd())
	f.setAns(q, u)
	return q, u, nil
}
func (f *vh03File) FSync() error { return f.rec("FSync") }
func (f *vh03File) Lock(pid int, lt LockType, fl LockFlags, start, length uint64, client string) (LockStatus, error) {
	if err := f.rec("Lock", vh03N(uint64(pid)), vh03N(uint64(lt)), vh03N(uint64(fl)), vh03N(start), vh03N(length), vh03S(client)); err != nil {
		return LockStatusError, err
	}
	st := LockStatus(f.w.rnd().Intn(256))
	f.setAns(st)
	return st, nil
}
func (f *vh03File) Create(name string, flags OpenFlags, perm FileMode, uid UID, gid GID) (File, QID, uint32, error) {
	if err := f.rec("Create", vh03S(name), vh03N(uint64(flags)), vh03N(uint64(perm)), vh03N(uint64(uid)), vh03N(uint64(gid))); err != nil {
		return nil, QID{}, 0, err
	}
	c := f.w.newFile(ModeRegular|0o600, name, f)
	q, u := f.w.rQID(TypeRegular), vh03U32(f.w.rnd())
	f.setAns(q, u)
	return c, q, u, nil
}
func (f *vh03File) Mkdir(name string, perm FileMode, uid UID, gid GID) (QID, error) {
	if err := f.rec("Mkdir", vh03S(name), vh03N(uint64(perm)), vh03N(uint64(uid)), vh03N(uint64(gid))); err != nil {
		return QID{}, err
	}
	q := f.w.rQID(TypeDir)
	f.setAns(q)
	return q, nil
}
func (f *vh03File) Symlink(oldName, newName string, uid UID, gid GID) (QID, error) {
	if err := f.rec("Symlink", vh03S(oldName), vh03S(newName), vh03N(uint64(uid)), vh03N(uint64(gid))); err != nil {
		return QID{}, err
	}
	q := f.w.rQID(TypeSymlink)
	f.setAns(q)
	return q, nil
}
func (f *vh03File) Link(target File, newName string) error {
	h := -1
	if t, ok := target.(*vh03File); ok {
		h = t.h
	}
	return f.rec("Link", vh03Val{"h": h}, vh03S(newName))
}
func (f *vh03File) Mknod(name string, mode FileMode, major, minor uint32, uid UID, gid GID) (QID, error) {
	if err := f.rec("Mknod", vh03S(name), vh03N(uint64(mode)), vh03N(uint64(major)), vh03N(uint64(minor)), vh03N(uint64(uid)), vh03N(uint64(gid))); err != nil {
		return QID{}, err
	}
	q := f.w.rQID(QIDType(f.w.rnd().Intn(256)))
	f.setAns(q)
	return q, nil
}
func (f *vh03File) RenameAt(oldName string, newDir File, newName string) error {
	h := -1
	if t, ok := newDir.(*vh03File); ok {
		h = t.h
	}
	f.w.mu.Lock()
	g, in := f.w.gate, f.w.inside
	f.w.gate = nil
	f.w.mu.Unlock()
	if g != nil {
		close(in)
		<-g
	}
	return f.rec("RenameAt", vh03S(oldName), vh03Val{"h": h}, vh03S(newName))
}
func (f *vh03File) UnlinkAt(name string, flags uint32) error {
	return f.rec("UnlinkAt", vh03S(name), vh03N(uint64(flags)))
}
func (f *vh03File) Readdir(offset uint64, count uint32) (Dirents, error) {
	if err := f.rec("Readdir", vh03N(offset), vh03N(uint64(count))); err != nil {
		return nil, err
	}
	r := f.w.rnd()
	d := Dirents{}
	for k := r.Intn(4); k > 0; k-- {
		t := QIDType(r.Intn(256))
		d = append(d, Dirent{QID: f.w.rQID(t), Offset: vh03U64(r), Type: QIDType(r.Intn(256)), Name: vh03Name(r)})
	}
	f.setAns(d)
	return d, nil
}
func (f *vh03File) Readlink() (string, error) {
	if err := f.rec("Readlink"); err != nil {
		return "", err
	}
	t := vh03Name(f.w.rnd()) + "/" + vh03Name(f.w.rnd())
	f.setAns(t)
	return t, nil
}

func (f *vh03File) GetXattr(name string) ([]byte, error) {
	if err := f.rec("GetXattr", vh03S(name)); err != nil {
		return nil, err
	}
	return append([]byte(nil), f.w.xval...), nil
}
func (f *vh03File) ListXattrs() ([]string, error) {
	if err := f.rec("ListXattrs"); err != nil {
		return nil, err
	}
	return append([]string(nil), f.w.xnames...), nil
}
func (f *vh03File) Close() error { return f.rec("Close") }

// ---- error answers ----

type vh03Err struct {
	J   map[string]interface{}
	Err error
}

func vh03GenErr(r *rand.Rand, depth int) vh03Err {
	leaf := func() vh03Err {
		switch r.Intn(9) {
		case 0, 1:
			n := uint32(1 + r.Intn(133))
			if n == 38 {
				n = 39 // ENOSYS from WalkGetAttr makes the server fall back to Walk+GetAttr
			}
			return vh03Err{map[string]interface{}{"k": "linux", "n": n}, linux.Errno(n)}
		case 2, 3:
			n := []uint32{1, 2, 13, 17, 39, 22, 28, 95, 61}[r.Intn(9)]
			return vh03Err{map[string]interface{}{"k": "sys", "n": n}, syscall.Errno(n)}
		case 4:
			return vh03Err{map[string]interface{}{"k": "notexist"}, os.ErrNotExist}
		case 5:
			return vh03Err{map[string]interface{}{"k": "exist"}, os.ErrExist}
		case 6:
			return vh03Err{map[string]interface{}{"k": "permission"}, os.ErrPermission}
		case 7:
			return vh03Err{map[string]interface{}{"k": "invalid"}, os.ErrInvalid}
		}
		return vh03Err{map[string]interface{}{"k": "opaque"}, errors.New("opaque failure")}
	}
	if depth <= 0 || r.Intn(3) == 0 {
		return leaf()
	}
	switch r.Intn(3) {
	case 0:
		e := vh03GenErr(r, depth-1)
		return vh03Err{map[string]interface{}{"k": "wrap", "e": e.J}, fmt.Errorf("ctx: %w", e.Err)}
	case 1:
		e := vh03GenErr(r, depth-1)
		return vh03Err{map[string]interface{}{"k": "wrap", "e": e.J}, &fs.PathError{Op: "op", Path: "/p", Err: e.Err}}
	}
	n := 1 + r.Intn(3)
	var js []interface{}
	var es []error
	for i := 0; i < n; i++ {
		e := vh03GenErr(r, depth-1)
		js = append(js, e.J)
		es = append(es, e.Err)
	}
	return vh03Err{map[string]interface{}{"k": "join", "es": js}, errors.Join(es...)}
}

func vh03Name(r *rand.Rand) string {
	for {
		n := 1 + r.Intn(24)
		b := make([]byte, n)
		for i := range b {
			b[i] = byte(r.Intn(256))
			if b[i] == '/' {
				b[i] = '_'
			}
		}
		s := string(b)
		if s != "." && s != ".." {
			return s
		}
	}
}

func vh03U32(r *rand.Rand) uint32 {
	return []uint32{0, 1, 0o777, 0o7777, 0o17777, 0xffffffff, 0xfffffffe, 1 << 31, r.Uint32(), r.Uint32() | 0o7000, uint32(ModeDirectory) | 0o4755}[r.Intn(11)]
}
func vh03U64(r *rand.Rand) uint64 {
	return []uint64{0, 1, 1 << 32, 1<<63 - 1, 1 << 63, ^uint64(0), r.Uint64()}[r.Intn(7)]
}

var vh03Ops = []string{"Open", "Create", "Mkdir", "Symlink", "Mknod", "Link", "RenameAt", "UnlinkAt", "Rename", "Remove", "Readlink",
	"GetAttr", "SetAttr", "StatFS", "FSync", "Lock", "Readdir", "Walk", "SetXattr", "RemoveXattr", "Close"}

func vh03One(t *testing.T, o *vhOut, id int, r *rand.Rand, op string, version int, fail bool) {
	w := &vh03World{ar: rand.New(rand.NewSource(r.Int63()))}
	root := w.newFile(ModeDirectory|0o755, "", nil)
	pr, err := vhclPair(vhclAttacher{func() (File, error) { return root, nil }}, 8192, version)
	if err != nil {
		t.Fatalf("C03 pair v=%d: %v", version, err)
	}
	defer pr.Close()
	if int(pr.c.version) != version {
		t.Fatalf("C03: negotiated version %d, wanted %d", pr.c.version, version)
	}
	croot, err := pr.c.Attach("")
	if err != nil {
		t.Fatalf("C03 attach: %v", err)
	}
	vh03Hold(croot, pr)
	walk := func(name string) *clientFile {
		_, f, err := croot.Walk([]string{name})
		if err != nil {
			t.Fatalf("C03 walk %q: %v", name, err)
		}
		vh03Hold(f)
		return f.(*clientFile)
	}
	recvName := map[string]string{"Readlink": "l1", "Create": "d1", "Mkdir": "d1", "Symlink": "d1", "Mknod": "d1", "Link": "d1", "RenameAt": "d1",
		"UnlinkAt": "d1", "Readdir": "d1", "Walk": "d1"}[op]
	if recvName == "" {
		recvName = "f1"
	}
	recv := walk(recvName)
	other := walk("d2")
	otherF := walk("f2")
	if op == "FSync" {
		recv.Open(ReadWrite)
	}
	if op == "Readdir" {
		recv.Open(ReadOnly)
	}
	// backend handles: root 0, recv 1, d2 2, f2 3 (walks create one File each)
	h2fid := map[int]uint64{0: uint64(croot.(*clientFile).fid), 1: uint64(recv.fid), 2: uint64(other.fid), 3: uint64(otherF.fid)}
	var ans vh03Err
	w.mu.Lock()
	w.record = true
	if fail {
		ans = vh03GenErr(r, 3)
		w.err = ans.Err
	}
	w.mu.Unlock()

	params := map[string]vh03Val{}
	pfid := map[string]uint64{}
	ret := []vh03Val{}
	var cerr error
	name, name2 := vh03Name(r), vh03Name(r)
	switch op {
	case "Open":
		fl := OpenFlags(vh03U32(r))
		params["flags"] = vh03N(uint64(fl))
		var q QID
		var u uint32
		q, u, cerr = recv.Open(fl)
		ret = vh03Flat(q, u)
	case "Create":
		fl, pm, uid, gid := OpenFlags(vh03U32(r)), FileMode(vh03U32(r)), UID(vh03U32(r)), GID(vh03U32(r))
		params["name"], params["openFlags"], params["permissions"], params["uid"], params["gid"] = vh03S(name), vh03N(uint64(fl)), vh03N(uint64(pm)), vh03N(uint64(uid)), vh03N(uint64(gid))
		var q QID
		var u uint32
		_, q, u, cerr = recv.Create(name, fl, pm, uid, gid)
		ret = vh03Flat(q, u)
	case "Mkdir":
		pm, uid, gid := FileMode(vh03U32(r)), UID(vh03U32(r)), GID(vh03U32(r))
		params["name"], params["permissions"], params["uid"], params["gid"] = vh03S(name), vh03N(uint64(pm)), vh03N(uint64(uid)), vh03N(uint64(gid))
		var q QID
		q, cerr = recv.Mkdir(name, pm, uid, gid)
		ret = vh03Flat(q)
	case "Symlink":
		uid, gid := UID(vh03U32(r)), GID(vh03U32(r))
		target := vh03Name(r) + "/" + name2
		params["oldname"], params["newname"], params["uid"], params["gid"] = vh03S(target), vh03S(name), vh03N(uint64(uid)), vh03N(uint64(gid))
		var q QID
		q, cerr = recv.Symlink(target, name, uid, gid)
		ret = vh03Flat(q)
	case "Mknod":
		md, mj, mn, uid, gid := FileMode(vh03U32(r)), vh03U32(r), vh03U32(r), UID(vh03U32(r)), GID(vh03U32(r))
		params["name"], params["mode"], params["major"], params["minor"], params["uid"], params["gid"] = vh03S(name), vh03N(uint64(md)), vh03N(uint64(mj)), vh03N(uint64(mn)), vh03N(uint64(uid)), vh03N(uint64(gid))
		var q QID
		q, cerr = recv.Mknod(name, md, mj, mn, uid, gid)
		ret = vh03Flat(q)
	case "Link":
		params["newname"] = vh03S(name)
		pfid["target"] = uint64(otherF.fid)
		cerr = recv.Link(otherF, name)
	case "RenameAt":
		params["oldname"], params["newname"] = vh03S(name), vh03S(name2)
		pfid["newdir"] = uint64(other.fid)
		cerr = recv.RenameAt(name, other, name2)
	case "UnlinkAt":
		fl := vh03U32(r)
		params["name"], params["flags"] = vh03S(name), vh03N(uint64(fl))
		cerr = recv.UnlinkAt(name, fl)
	case "Rename":
		params["name"] = vh03S(name)
		pfid["dir"] = uint64(other.fid)
		cerr = recv.Rename(other, name)
	case "Remove":
		cerr = recv.Remove()
	case "Readlink":
		var s string
		s, cerr = recv.Readlink()
		ret = vh03Flat(s)
	case "GetAttr":
		m := AttrMask{Mode: r.Intn(2) == 0, NLink: r.Intn(2) == 0, UID: r.Intn(2) == 0, GID: r.Intn(2) == 0, RDev: r.Intn(2) == 0, ATime: r.Intn(2) == 0, MTime: r.Intn(2) == 0,
			CTime: r.Intn(2) == 0, INo: r.Intn(2) == 0, Size: r.Intn(2) == 0, Blocks: r.Intn(2) == 0, BTime: r.Intn(2) == 0, Gen: r.Intn(2) == 0, DataVersion: r.Intn(2) == 0}
		params["req"] = vh03Mask(m)
		q, v, a, e := recv.GetAttr(m)
		cerr = e
		ret = vh03Flat(q, v, a)
	case "SetAttr":
		m := SetAttrMask{Permissions: r.Intn(2) == 0, UID: r.Intn(2) == 0, GID: r.Intn(2) == 0, Size: r.Intn(2) == 0, ATime: r.Intn(2) == 0, MTime: r.Intn(2) == 0, CTime: r.Intn(2) == 0,
			ATimeNotSystemTime: r.Intn(2) == 0, MTimeNotSystemTime: r.Intn(2) == 0}
		a := SetAttr{Permissions: FileMode(vh03U32(r)), UID: UID(vh03U32(r)), GID: GID(vh03U32(r)), Size: vh03U64(r), ATimeSeconds: vh03U64(r), ATimeNanoSeconds: vh03U64(r), MTimeSeconds: vh03U64(r), MTimeNanoSeconds: vh03U64(r)}
		params["valid"], params["attr"] = vh03SetMask(m), vh03SetAttr(a)
		cerr = recv.SetAttr(m, a)
	case "StatFS":
		s, e := recv.StatFS()
		cerr = e
		ret = vh03Flat(s)
	case "FSync":
		cerr = recv.FSync()
	case "Lock":
		pid := int(int32(vh03U32(r)))
		lt, fl, st, ln := LockType(r.Intn(256)), LockFlags(vh03U32(r)), vh03U64(r), vh03U64(r)
		params["pid"], params["locktype"], params["flags"], params["start"], params["length"], params["client"] = vh03N(uint64(pid)), vh03N(uint64(lt)), vh03N(uint64(fl)), vh03N(st), vh03N(ln), vh03S(name)
		s, e := recv.Lock(pid, lt, fl, st, ln, name)
		cerr = e
		ret = vh03Flat(s)
	case "Readdir":
		off, cnt := vh03U64(r), vh03U32(r)
		params["offset"], params["count"] = vh03N(off), vh03N(uint64(cnt))
		d, e := recv.Readdir(off, cnt)
		cerr = e
		ret = vh03Flat(d)
		if cnt < 512 {
			// the reply is cut to whole entries within count bytes (C19): values are compared for roomy counts only
			ret = nil
		}
	case "Walk":
		var names []string
		for i := r.Intn(3); i > 0; i-- {
			names = append(names, "d"+vh03Name(r))
		}
		params["names"] = vh03Names(names)
		qs, nf, e := recv.Walk(names)
		cerr = e
		vh03Hold(nf)
		if qs == nil {
			qs = []QID{}
		}
		ret = vh03Flat(qs)
	case "Close":
		cerr = recv.Close()
	case "SetXattr":
		cerr = recv.SetXattr(name, []byte("v"), 0)
	case "RemoveXattr":
		cerr = recv.RemoveXattr(name)
	}
	w.mu.Lock()
	w.record = false
	log := append([]vh03Call(nil), w.log...)
	bans := w.ans
	if op == "Walk" { // what the backend answered for the components, in order
		bans = vh03Flat(append([]QID{}, w.walkQ...))
	}
	w.mu.Unlock()
	// translate backend handles to fids; Rename/Remove arrive on the parent under the entry's name
	type outCall struct {
		M    string      `json:"m"`
		On   interface{} `json:"on"`
		Args []vh03Val   `json:"args"`
	}
	var calls []outCall
	for _, c := range log {
		oc := outCall{M: c.M}
		if (op == "Rename" || op == "Remove") && c.On == 0 {
			oc.On = map[string]interface{}{"parentof": h2fid[1]}
		} else if fid, ok := h2fid[c.On]; ok {
			oc.On = map[string]interface{}{"fid": fid}
		} else {
			oc.On = map[string]interface{}{"walked": c.On} // a File produced by this very call's walk
		}
		for i, a := range c.Args {
			if h, ok := a["h"]; ok {
				a = vh03Val{"f": h2fid[h.(int)]}
			}
			if (op == "Rename" || op == "Remove") && i == 0 {
				if s, ok := a["s"]; ok && fmt.Sprint(s) == fmt.Sprint(vhBytes([]byte(recvName))) {
					a = vh03Val{"nameof": h2fid[1]}
				}
			}
			oc.Args = append(oc.Args, a)
		}
		calls = append(calls, oc)
	}
	rec := map[string]interface{}{"kind": "op", "id": id, "op": op, "version": version, "params": params, "pfid": pfid, "fid": uint64(recv.fid),
		"msize": pr.c.messageSize, "calls": calls, "err": vhclClassify(cerr), "fail": fail}
	if fail {
		rec["answer"] = ans.J
	} else {
		if ret == nil {
			ret, bans = []vh03Val{}, []vh03Val{}
		}
		if bans == nil {
			bans = []vh03Val{}
		}
		rec["ret"] = ret
		rec["ans"] = bans
	}
	o.Emit(rec)
}

// vh03Drop makes the client's Read return io.EOF once the dropAt-th Tread has been written completely.
type vh03Drop struct {
	net.Conn
	mu      sync.Mutex
	treads  int
	dropAt  int
	pending bool
	armed   bool
}

func (c *vh03Drop) Write(b []byte) (int, error) {
	c.mu.Lock()
	arm := false
	if len(b) == 7 && msgType(b[4]) == msgTread {
		c.treads++
		if c.treads == c.dropAt {
			c.pending = true
		}
	} else if c.pending {
		c.pending = false
		arm = true
	}
	c.mu.Unlock()
	n, err := c.Conn.Write(b)
	if arm {
		c.mu.Lock()
		c.armed = true
		c.mu.Unlock()
	}
	return n, err
}

func (c *vh03Drop) Read(b []byte) (int, error) {
	c.mu.Lock()
	a := c.armed
	c.mu.Unlock()
	if a {
		return 0, io.EOF
	}
	return c.Conn.Read(b)
}

// vh03Xattr: GetXattr / ListXattrs through real client + real server; optionally the connection drops with EOF
// while the value is being read.
func vh03Xattr(t *testing.T, o *vhOut, id int, r *rand.Rand, list bool, msize uint32, size int, drop int, fail bool) {
	w := &vh03World{}
	root := w.newFile(ModeDirectory|0o755, "", nil)
	var value []byte
	if list {
		for len(value) < size {
			n := vh03Name(r)
			b := []byte(n)
			for i := range b {
				if b[i] == 0 {
					b[i] = 1
				}
			}
			if len(value)+len(b)+1 > size {
				b = b[:size-len(value)-1]
				if len(b) == 0 {
					break
				}
			}
			w.xnames = append(w.xnames, string(b))
			value = append(append(value, b...), 0)
		}
		value = []byte(strings.Join(w.xnames, "\x00") + "\x00") // what the server serves for a listing
	} else {
		value = make([]byte, size)
		for i := range value {
			value[i] = byte(r.Intn(256))
		}
		w.xval = value
	}
	cc, sc := net.Pipe()
	srv := NewServer(vhclAttacher{func() (File, error) { return root, nil }})
	sdone := make(chan struct{})
	go func() { srv.Handle(sc, sc); close(sdone) }()
	dc := &vh03Drop{Conn: cc, dropAt: drop}
	cl, err := NewClient(dc, WithMessageSize(msize))
	if err != nil {
		t.Fatalf("C03 xattr client: %v", err)
	}
	croot, err := cl.Attach("")
	if err != nil {
		t.Fatalf("C03 xattr attach: %v", err)
	}
	vh03Hold(croot, cl)
	var ans vh03Err
	w.mu.Lock()
	w.record = true
	if fail {
		ans = vh03GenErr(r, 2)
		w.err = ans.Err
	}
	w.mu.Unlock()
	name := vh03Name(r)
	var got []byte
	var gotNames []string
	var cerr error
	ok := vhclWithin(10*time.Second, func() {
		if list {
			gotNames, cerr = croot.ListXattrs()
			if cerr == nil {
				got = []byte(strings.Join(gotNames, "\x00") + "\x00")
			}
		} else {
			got, cerr = croot.GetXattr(name)
		}
	})
	w.mu.Lock()
	w.record = false
	log := append([]vh03Call(nil), w.log...)
	w.mu.Unlock()
	cc.Close()
	<-sdone
	var calls []map[string]interface{}
	for _, c := range log {
		if c.M == "Close" {
			continue
		}
		calls = append(calls, map[string]interface{}{"m": c.M, "on": map[string]interface{}{"fid": uint64(croot.(*clientFile).fid)}, "args": c.Args})
	}
	dc.mu.Lock()
	if !dc.armed {
		drop = 0 // the value needed fewer reads than that: nothing was dropped
	}
	dc.mu.Unlock()
	rec := map[string]interface{}{"kind": "xattr", "id": id, "list": list, "cs": cl.payloadSize, "value": vhBytes(value), "drop": drop, "fail": fail,
		"name": vhBytes([]byte(name)), "fid": uint64(croot.(*clientFile).fid), "calls": calls, "returned": ok, "got": vhBytes(got), "got_nil": got == nil && gotNames == nil, "err": vhclClassify(cerr)}
	if fail {
		rec["answer"] = ans.J
	}
	o.Emit(rec)
}

// vh03Wga: WalkGetAttr at every version (below 2: Walk + GetAttr, Close when GetAttr failed).
func vh03Wga(t *testing.T, o *vhOut, id int, r *rand.Rand, version int, ncomp int, getattrFails bool) {
	w := &vh03World{ar: rand.New(rand.NewSource(r.Int63()))}
	root := w.newFile(ModeDirectory|0o755, "", nil)
	pr, err := vhclPair(vhclAttacher{func() (File, error) { return root, nil }}, 8192, version)
	if err != nil {
		t.Fatalf("C03 wga pair: %v", err)
	}
	defer pr.Close()
	croot, err := pr.c.Attach("")
	if err != nil {
		t.Fatalf("C03 wga attach: %v", err)
	}
	_, d, err := croot.Walk([]string{"d1"})
	if err != nil {
		t.Fatalf("C03 wga walk: %v", err)
	}
	vh03Hold(croot, d, pr)
	recv := d.(*clientFile)
	var names []string
	for i := 0; i < ncomp; i++ {
		names = append(names, "d"+vh03Name(r))
	}
	w.mu.Lock()
	w.record = true
	if getattrFails {
		w.err = linux.Errno(5)
		w.errFor = "GetAttr"
	}
	w.mu.Unlock()
	qs, nf, gv, ga, cerr := recv.WalkGetAttr(names)
	vh03Hold(nf)
	w.mu.Lock()
	w.record = false
	log := append([]vh03Call(nil), w.log...)
	ans := vh03Flat(append([]QID{}, w.walkQ...), w.walkV, w.walkA)
	w.mu.Unlock()
	ret := []vh03Val{}
	if cerr == nil {
		ret = vh03Flat(append([]QID{}, qs...), gv, ga)
	} else {
		ans = []vh03Val{}
	}
	var calls []map[string]interface{}
	target := -1
	for _, c := range log {
		if c.M == "GetAttr" {
			target = c.On
		}
	}
	for i, c := range log {
		if c.M == "Close" && c.On != target {
			continue // intermediate Files of the server's walk being released (C05)
		}
		on := map[string]interface{}{"walked": c.On}
		if c.On == 1 && i == 0 {
			on = map[string]interface{}{"fid": uint64(recv.fid)}
		}
		calls = append(calls, map[string]interface{}{"m": c.M, "on": on, "args": c.Args})
	}
	newfid := uint64(0)
	if nf != nil {
		newfid = uint64(nf.(*clientFile).fid)
	}
	o.Emit(map[string]interface{}{"kind": "wga", "id": id, "version": version, "names": vh03Names(names), "fid": uint64(recv.fid), "newfid": newfid,
		"getattr_fails": getattrFails, "calls": calls, "err": vhclClassify(cerr), "ret": ret, "ans": ans})
}

// vh03Rename2: "Rename arrives as RenameAt on the parent under the entry's CURRENT name": the entry is renamed
// (sequentially, or by a RenameAt that is still inside the backend when the Rename request arrives) and then
// renamed again through the same handle.
func vh03Rename2(t *testing.T, o *vhOut, id int, r *rand.Rand, version int, racing bool) {
	w := &vh03World{}
	root := w.newFile(ModeDirectory|0o755, "", nil)
	pr, err := vhclPair(vhclAttacher{func() (File, error) { return root, nil }}, 8192, version)
	if err != nil {
		t.Fatalf("C03 rename2 pair: %v", err)
	}
	defer pr.Close()
	croot, err := pr.c.Attach("")
	if err != nil {
		t.Fatalf("C03 rename2 attach: %v", err)
	}
	vh03Hold(croot, pr)
	walk := func(name string) *clientFile {
		_, f, err := croot.Walk([]string{name})
		if err != nil {
			t.Fatalf("C03 rename2 walk: %v", err)
		}
		vh03Hold(f)
		return f.(*clientFile)
	}
	recv := walk("f1") // handle 1
	d2 := walk("d2")   // handle 2
	first, second := "g"+vh03Name(r), "h"+vh03Name(r)
	if racing {
		w.mu.Lock()
		w.gate, w.inside = make(chan struct{}), make(chan struct{})
		g, in := w.gate, w.inside
		w.mu.Unlock()
		done1 := make(chan error, 1)
		go func() { done1 <- croot.RenameAt("f1", d2, first) }()
		<-in // the first rename is inside the backend, the server holds the rename lock
		w.mu.Lock()
		w.record = true
		w.mu.Unlock()
		done2 := make(chan error, 1)
		go func() { done2 <- recv.Rename(d2, second) }()
		time.Sleep(250 * time.Millisecond) // the second request has been received and waits for the lock
		close(g)
		if err := <-done1; err != nil {
			t.Fatalf("C03 rename2 first: %v", err)
		}
		err = <-done2
	} else {
		if err := recv.Rename(d2, first); err != nil {
			t.Fatalf("C03 rename2 first: %v", err)
		}
		w.mu.Lock()
		w.record = true
		w.mu.Unlock()
		err = recv.Rename(d2, second)
	}
	w.mu.Lock()
	w.record = false
	log := append([]vh03Call(nil), w.log...)
	w.mu.Unlock()
	var calls []map[string]interface{}
	for _, c := range log {
		if c.M != "RenameAt" || (racing && len(c.Args) > 0 && fmt.Sprint(c.Args[0]["s"]) == fmt.Sprint(vhBytes([]byte("f1")))) && c.On == 0 {
			continue // the first rename itself (recorded when it left the gate)
		}
		on := map[string]interface{}{"fid": uint64(0)}
		if c.On == 2 { // the entry's parent is d2 by now
			on = map[string]interface{}{"parentof": uint64(recv.fid)}
		}
		var args []vh03Val
		for i, a := range c.Args {
			if h, ok := a["h"]; ok {
				a = vh03Val{"f": map[int]uint64{0: uint64(croot.(*clientFile).fid), 1: uint64(recv.fid), 2: uint64(d2.fid)}[h.(int)]}
			}
			if i == 0 && fmt.Sprint(a["s"]) == fmt.Sprint(vhBytes([]byte(first))) {
				a = vh03Val{"nameof": uint64(recv.fid)}
			}
			args = append(args, a)
		}
		calls = append(calls, map[string]interface{}{"m": c.M, "on": on, "args": args})
	}
	sub := "sequential"
	if racing {
		sub = "racing"
	}
	o.Emit(map[string]interface{}{"kind": "op", "sub": "rename-again-" + sub, "id": id, "op": "Rename", "version": version,
		"params": map[string]vh03Val{"name": vh03S(second)}, "pfid": map[string]uint64{"dir": uint64(d2.fid)}, "fid": uint64(recv.fid),
		"msize": pr.c.messageSize, "calls": calls, "err": vhclClassify(err), "fail": false, "ret": []vh03Val{}, "ans": []vh03Val{}})
}

// vh03RenSeq: sequences through SEVERAL handles of the same directories.  Two handles each for the directories d1
// and d2, one handle f for an entry of d1; then renames of that entry — onto its own name through the other
// handle of its directory (a no-op: the entry is identified by path node and name, not by the handle that names
// the directory), within the directory, into the other directory — each followed by a SetAttr through f, which
// must reach f's File.  One observation: per step the backend calls and the error.
func vh03RenSeq(t *testing.T, o *vhOut, id int, r *rand.Rand, version int, nsteps int) {
	w := &vh03World{ar: rand.New(rand.NewSource(r.Int63()))}
	root := w.newFile(ModeDirectory|0o755, "", nil)
	pr, err := vhclPair(vhclAttacher{func() (File, error) { return root, nil }}, 8192, version)
	if err != nil {
		t.Fatalf("C03 renseq pair: %v", err)
	}
	defer pr.Close()
	croot, err := pr.c.Attach("")
	if err != nil {
		t.Fatalf("C03 renseq attach: %v", err)
	}
	vh03Hold(croot, pr)
	walk := func(from File, name string) *clientFile {
		_, f, err := from.Walk([]string{name})
		if err != nil {
			t.Fatalf("C03 renseq walk %q: %v", name, err)
		}
		vh03Hold(f)
		return f.(*clientFile)
	}
	// backend handles and model reference indices coincide: 0 root, 1 d1a, 2 d1b, 3 d2a, 4 d2b, 5 f
	h := []*clientFile{croot.(*clientFile), walk(croot, "d1"), walk(croot, "d1"), walk(croot, "d2"), walk(croot, "d2")}
	fname := "x" + vh03Name(r)
	f := walk(h[1], fname)
	h = append(h, f)
	fids := []uint64{}
	for _, x := range h {
		fids = append(fids, uint64(x.fid))
	}
	w.mu.Lock()
	w.record = true
	w.mu.Unlock()
	take := func() []map[string]interface{} {
		w.mu.Lock()
		log := append([]vh03Call(nil), w.log...)
		w.log = nil
		w.mu.Unlock()
		calls := []map[string]interface{}{}
		for _, c := range log {
			var args []vh03Val
			for _, a := range c.Args {
				if hh, ok := a["h"]; ok && hh.(int) >= 0 && hh.(int) < len(fids) {
					a = vh03Val{"f": fids[hh.(int)]}
				}
				args = append(args, a)
			}
			on := map[string]interface{}{"walked": c.On}
			if c.On >= 0 && c.On < len(fids) {
				on = map[string]interface{}{"fid": fids[c.On]}
			}
			calls = append(calls, map[string]interface{}{"m": c.M, "on": on, "args": args})
		}
		return calls
	}
	steps := []map[string]interface{}{}
	curDir, curName := 0, fname // curDir 0: d1 (handles 1,2), 1: d2 (handles 3,4)
	for k := 0; k < nsteps; k++ {
		a := 1 + 2*curDir + r.Intn(2) // a handle of the entry's directory
		b := 1 + 2*curDir + (a-1-2*curDir+1)%2
		oth := 1 + 2*(1-curDir) + r.Intn(2)
		newName := "y" + vh03Name(r)
		var st map[string]interface{}
		var cerr error
		op := r.Intn(6)
		// half of the renames to a new entry go to a name the client has LOOKED AT before (walked to and
		// clunked again, outside the recording): the server then still knows a path node for that name with
		// no fid under it, and the rename must behave exactly as for a name it never heard of
		if op >= 3 && r.Intn(2) == 0 {
			dir, nm := h[b], newName
			if op == 4 {
				dir = h[oth]
			} else if op == 5 {
				dir, nm = h[oth], curName
			}
			if _, vf, verr := dir.Walk([]string{nm}); verr == nil {
				vf.Close()
			}
			take()
		}
		switch op {
		case 0: // onto its own name, the directory named through two different handles
			cerr = h[a].RenameAt(curName, h[b], curName)
			st = map[string]interface{}{"op": "renameat", "d": a, "old": vhBytes([]byte(curName)), "d2": b, "new": vhBytes([]byte(curName))}
		case 1: // the same through File.Rename, with either handle of the directory
			cerr = f.Rename(h[b], curName)
			st = map[string]interface{}{"op": "rename", "f": 5, "d2": b, "new": vhBytes([]byte(curName))}
		case 2: // one handle
			cerr = h[a].RenameAt(curName, h[a], curName)
			st = map[string]interface{}{"op": "renameat", "d": a, "old": vhBytes([]byte(curName)), "d2": a, "new": vhBytes([]byte(curName))}
		case 3: // a new name in the same directory, through two handles
			cerr = h[a].RenameAt(curName, h[b], newName)
			st = map[string]interface{}{"op": "renameat", "d": a, "old": vhBytes([]byte(curName)), "d2": b, "new": vhBytes([]byte(newName))}
			curName = newName
		case 4: // into the other directory under a new name
			cerr = f.Rename(h[oth], newName)
			st = map[string]interface{}{"op": "rename", "f": 5, "d2": oth, "new": vhBytes([]byte(newName))}
			curName, curDir = newName, 1-curDir
		case 5: // into the other directory under the SAME name: another entry, a real rename
			cerr = h[a].RenameAt(curName, h[oth], curName)
			st = map[string]interface{}{"op": "renameat", "d": a, "old": vhBytes([]byte(curName)), "d2": oth, "new": vhBytes([]byte(curName))}
			curDir = 1 - curDir
		}
		st["calls"], st["err"] = take(), vhclClassify(cerr)
		steps = append(steps, st)
		m := SetAttrMask{Permissions: r.Intn(2) == 0, UID: r.Intn(2) == 0, GID: r.Intn(2) == 0, Size: r.Intn(2) == 0, ATime: r.Intn(2) == 0, MTime: r.Intn(2) == 0, CTime: r.Intn(2) == 0,
			ATimeNotSystemTime: r.Intn(2) == 0, MTimeNotSystemTime: r.Intn(2) == 0}
		at := SetAttr{Permissions: FileMode(vh03U32(r)) & 0o7777, UID: UID(vh03U32(r)), GID: GID(vh03U32(r)), Size: vh03U64(r), ATimeSeconds: vh03U64(r), ATimeNanoSeconds: vh03U64(r), MTimeSeconds: vh03U64(r), MTimeNanoSeconds: vh03U64(r)}
		cerr = f.SetAttr(m, at)
		steps = append(steps, map[string]interface{}{"op": "probe", "f": 5, "m": "SetAttr", "args": []vh03Val{vh03SetMask(m), vh03SetAttr(at)},
			"calls": take(), "err": vhclClassify(cerr)})
	}
	w.mu.Lock()
	w.record = false
	w.mu.Unlock()
	o.Emit(map[string]interface{}{"kind": "renseq", "id": id, "version": version, "fids": fids, "fname": vhBytes([]byte(fname)), "steps": steps})
}

// vh03Keep holds every client handle made by the harness until the test ends: clientFile has a finalizer
// that clunks it, and a finalizer running inside a recording window would add backend calls (Close) the
// operation under test never made.  The collector is also switched off for the duration of the test.
var vh03Keep []interface{}

func vh03Hold(x ...interface{}) { vh03Keep = append(vh03Keep, x...) }

func TestVerifC03(t *testing.T) {
	o := vhOpen(t)
	defer o.Close()
	defer debug.SetGCPercent(debug.SetGCPercent(-1))
	defer func() { runtime.KeepAlive(vh03Keep); vh03Keep = nil }()
	r := vhRand()
	reps := 1
	if vhThorough() {
		reps = 6
	}
	id := 0
	for _, op := range vh03Ops {
		for v := 0; v <= int(highestSupportedVersion); v++ {
			for rep := 0; rep < reps; rep++ {
				vh03One(t, o, id, r, op, v, false)
				id++
				vh03One(t, o, id, r, op, v, true)
				id++
			}
		}
	}
	// composed methods: GetXattr / ListXattrs (xattrwalk + chunked read + clunk), with the connection dropping
	// with EOF at every chunk; WalkGetAttr at every version
	for _, msize := range []uint32{160, 8192} {
		cs := int(roundDown(msize-msgDotLRegistry.largestFixedSize, 512))
		sizes := []int{0, 1, cs - 1, cs, cs + 1, 2*cs + 1, 3 * cs}
		if cs > 100 {
			sizes = []int{0, 1, 300, cs}
		}
		// values longer than ONE reply of this msize can carry (msize-11 bytes of Rread payload), whatever the chunk size is
		sizes = append(sizes, int(msize)-10, 2*int(msize)+3)
		for _, size := range sizes {
			if size < 0 {
				continue
			}
			chunks := (size + cs - 1) / cs
			for drop := 0; drop <= chunks; drop++ {
				for _, list := range []bool{false, true} {
					vh03Xattr(t, o, id, r, list, msize, size, drop, false)
					id++
				}
			}
			vh03Xattr(t, o, id, r, false, msize, size, 0, true)
			id++
		}
	}
	for v := 0; v <= int(highestSupportedVersion); v += 7 {
		vh03Rename2(t, o, id, r, v, false)
		id++
		for k := 0; k < 3; k++ {
			vh03Rename2(t, o, id, r, v, true)
			id++
		}
	}
	for v := 0; v <= int(highestSupportedVersion); v++ {
		for k := 0; k < 3*reps; k++ {
			vh03RenSeq(t, o, id, r, v, 5)
			id++
		}
	}
	for v := 0; v <= int(highestSupportedVersion); v++ {
		for ncomp := 0; ncomp <= 2; ncomp++ {
			vh03Wga(t, o, id, r, v, ncomp, false)
			id++
			vh03Wga(t, o, id, r, v, ncomp, true)
			id++
		}
	}
}
