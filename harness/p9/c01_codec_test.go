package p9

// C01 correspondence harness: every registered message type is filled by
// reflection with edge and random values, written with the real send() into a
// buffer and read back with the real recv(); frames are also mutated byte by
// byte and fed to the real recv().  One JSON observation per case; the Coq side
// (Codec/CodecCases.v) compares bytes with the protocol table's encoder and the
// delivered values with norm(sent).

import (
	"bytes"
	"encoding/binary"
	"encoding/hex"
	"math/rand"
	"reflect"
	"runtime"
	"strconv"
	"strings"
	"testing"
	"unsafe"

	"github.com/u-root/uio/ulog"
)

type vh01Hex struct {
	S string `json:"s"`
}
type vh01Bytes struct {
	B string `json:"b"`
}
type vh01List struct {
	L [][]interface{} `json:"l"`
}

func vh01Settable(f reflect.Value) reflect.Value {
	if f.CanSet() {
		return f
	}
	return reflect.NewAt(f.Type(), unsafe.Pointer(f.UnsafeAddr())).Elem()
}

// vh01Dump lists [path, value] for every leaf field (sub-structs flattened, channels skipped).
func vh01Dump(v reflect.Value, prefix string, out *[]interface{}) {
	t := v.Type()
	for i := 0; i < t.NumField(); i++ {
		f := v.Field(i)
		p := prefix + t.Field(i).Name
		switch f.Kind() {
		case reflect.Uint8, reflect.Uint16, reflect.Uint32, reflect.Uint64:
			*out = append(*out, []interface{}{p, f.Uint()})
		case reflect.Int8, reflect.Int16, reflect.Int32, reflect.Int64:
			bits := uint(f.Type().Bits())
			u := uint64(f.Int())
			if bits < 64 {
				u &= (uint64(1) << bits) - 1
			}
			*out = append(*out, []interface{}{p, u})
		case reflect.Bool:
			*out = append(*out, []interface{}{p, f.Bool()})
		case reflect.String:
			*out = append(*out, []interface{}{p, vh01Hex{hex.EncodeToString([]byte(f.String()))}})
		case reflect.Struct:
			vh01Dump(f, p+".", out)
		case reflect.Slice:
			switch f.Type().Elem().Kind() {
			case reflect.Uint8:
				*out = append(*out, []interface{}{p, vh01Bytes{hex.EncodeToString(f.Bytes())}})
			case reflect.String:
				l := vh01List{L: [][]interface{}{}}
				for j := 0; j < f.Len(); j++ {
					l.L = append(l.L, []interface{}{[]interface{}{p + "[]", vh01Hex{hex.EncodeToString([]byte(f.Index(j).String()))}}})
				}
				*out = append(*out, []interface{}{p, l})
			case reflect.Struct:
				l := vh01List{L: [][]interface{}{}}
				for j := 0; j < f.Len(); j++ {
					row := []interface{}{}
					vh01Dump(f.Index(j), p+"[].", &row)
					l.L = append(l.L, row)
				}
				*out = append(*out, []interface{}{p, l})
			}
		}
	}
}

// vh01Schema lists the leaf paths of a struct type in the order vh01Dump emits them.
func vh01Schema(t reflect.Type, prefix string, out *[]interface{}) {
	for i := 0; i < t.NumField(); i++ {
		ft := t.Field(i).Type
		p := prefix + t.Field(i).Name
		switch ft.Kind() {
		case reflect.Uint8, reflect.Uint16, reflect.Uint32, reflect.Uint64, reflect.Int8, reflect.Int16, reflect.Int32, reflect.Int64, reflect.Bool, reflect.String:
			*out = append(*out, p)
		case reflect.Struct:
			vh01Schema(ft, p+".", out)
		case reflect.Slice:
			switch ft.Elem().Kind() {
			case reflect.Uint8:
				*out = append(*out, p)
			case reflect.String:
				*out = append(*out, map[string]interface{}{"p": p, "cols": []interface{}{p + "[]"}})
			case reflect.Struct:
				cols := []interface{}{}
				vh01Schema(ft.Elem(), p+"[].", &cols)
				*out = append(*out, map[string]interface{}{"p": p, "cols": cols})
			}
		}
	}
}

func vh01DumpMsg(m message) []interface{} {
	out := []interface{}{}
	vh01Dump(reflect.ValueOf(m).Elem(), "", &out)
	return out
}

// value generator
type vh01Gen struct {
	r       *rand.Rand
	profile string // zero | max | edge | random | longstr | longlist | bigpay
	strLen  int    // for longstr
	listLen int    // for longlist
	payLen  int
	used    bool // the one long feature has been placed
}

var vh01Edges = []uint64{0, 1, 2, 127, 128, 255, 256, 4095, 4096, 0o7777, 0o10000, 0o100644, 32767, 32768, 65534, 65535, 65536,
	1<<31 - 1, 1 << 31, 1<<32 - 2, 1<<32 - 1, 1 << 32, 1<<63 - 1, 1 << 63, 1<<64 - 1}

func (g *vh01Gen) uint(bits uint) uint64 {
	mask := ^uint64(0)
	if bits < 64 {
		mask = (uint64(1) << bits) - 1
	}
	switch g.profile {
	case "zero":
		return 0
	case "max":
		return mask
	case "edge":
		return vh01Edges[g.r.Intn(len(vh01Edges))] & mask
	}
	switch g.r.Intn(4) {
	case 0:
		return vh01Edges[g.r.Intn(len(vh01Edges))] & mask
	case 1:
		return uint64(g.r.Intn(300))
	}
	return g.r.Uint64() & mask
}

// vh01Pattern: n bytes (a + b*i) mod 256
func vh01Pattern(n int, a, b byte) []byte {
	out := make([]byte, n)
	for i := range out {
		out[i] = a + b*byte(i)
	}
	return out
}

var vh01Names = []string{"", "a", ".", "..", "/", "a/b", "\x00", "a\x00b", "\xff\xfe", "\xc3\x28", "na\xefve", "ünï", " ", "\n"}

func (g *vh01Gen) str() string {
	switch g.profile {
	case "zero":
		return ""
	case "max":
		return "\xff"
	case "longstr":
		if !g.used {
			g.used = true
			return string(vh01Pattern(g.strLen, byte(g.r.Intn(256)), byte(g.r.Intn(256))))
		}
	}
	switch g.r.Intn(4) {
	case 0:
		return vh01Names[g.r.Intn(len(vh01Names))]
	case 1:
		b := make([]byte, g.r.Intn(24))
		g.r.Read(b)
		return string(b)
	case 2:
		return string(vh01Pattern(g.r.Intn(300), byte(g.r.Intn(256)), byte(g.r.Intn(4))))
	}
	b := make([]byte, 1+g.r.Intn(8))
	for i := range b {
		b[i] = "abcxyz019_-."[g.r.Intn(12)]
	}
	return string(b)
}

func (g *vh01Gen) listLenFor() int {
	switch g.profile {
	case "zero":
		return 0
	case "max":
		return 1
	case "longlist":
		if !g.used {
			g.used = true
			return g.listLen
		}
	}
	return []int{0, 1, 2, 3, 5, 16}[g.r.Intn(6)]
}

func (g *vh01Gen) fill(v reflect.Value) {
	t := v.Type()
	for i := 0; i < t.NumField(); i++ {
		f := vh01Settable(v.Field(i))
		switch f.Kind() {
		case reflect.Uint8, reflect.Uint16, reflect.Uint32, reflect.Uint64:
			bits := uint(f.Type().Bits())
			if f.Type().Name() == "fid" {
				bits = 32 // fids are 32 bits on the wire; larger values are outside the property
			}
			f.SetUint(g.uint(bits))
		case reflect.Int8, reflect.Int16, reflect.Int32, reflect.Int64:
			bits := uint(f.Type().Bits())
			u := g.uint(bits)
			f.SetInt(int64(u<<(64-bits)) >> (64 - bits))
		case reflect.Bool:
			switch g.profile {
			case "zero":
				f.SetBool(false)
			case "max":
				f.SetBool(true)
			default:
				f.SetBool(g.r.Intn(2) == 0)
			}
		case reflect.String:
			f.SetString(g.str())
		case reflect.Struct:
			g.fill(f)
		case reflect.Slice:
			switch f.Type().Elem().Kind() {
			case reflect.Uint8:
				if t.Field(i).Name == "payload" {
					continue // rreaddir: produced by encode
				}
				n := 0
				switch g.profile {
				case "zero":
				case "bigpay":
					n = g.payLen
				default:
					n = []int{0, 1, 2, 7, 64, 300, 4096}[g.r.Intn(7)]
				}
				if n <= 64 {
					b := make([]byte, n)
					g.r.Read(b)
					f.SetBytes(b)
				} else {
					f.SetBytes(vh01Pattern(n, byte(g.r.Intn(256)), byte(1+g.r.Intn(255))))
				}
			case reflect.String:
				n := g.listLenFor()
				s := reflect.MakeSlice(f.Type(), n, n)
				for j := 0; j < n; j++ {
					if n > 64 {
						s.Index(j).SetString(string(vh01Pattern(j%3, byte(j), 1)))
					} else {
						s.Index(j).SetString(g.str())
					}
				}
				f.Set(s)
			case reflect.Struct:
				n := g.listLenFor()
				s := reflect.MakeSlice(f.Type(), n, n)
				for j := 0; j < n; j++ {
					g.fill(s.Index(j))
				}
				f.Set(s)
			}
		}
	}
}

func vh01Result(tg tag, m message, err error) map[string]interface{} {
	if err == nil {
		return map[string]interface{}{"r": "ok", "tag": uint16(tg), "typ": uint8(m.typ()), "got": vh01DumpMsg(m)}
	}
	if _, ok := err.(ConnError); ok {
		return map[string]interface{}{"r": "conn"}
	}
	if _, ok := err.(*ErrInvalidMsgType); ok {
		return map[string]interface{}{"r": "unknown", "tag": uint16(tg)}
	}
	if err == ErrNoValidMessage {
		return map[string]interface{}{"r": "invalid"}
	}
	return map[string]interface{}{"r": "other:" + err.Error()}
}

func vh01Recv(wire []byte, msize uint32) map[string]interface{} {
	tg, m, err := recv(ulog.Null, bytes.NewReader(wire), msize, msgDotLRegistry.get)
	res := vh01Result(tg, m, err)
	if err == nil {
		// as the server does after replying: the next message of this type is decoded into this object
		msgDotLRegistry.put(m)
	}
	return res
}

// vh01Types lists the registered types; those registered by the package's own tests
// (constructor defined in a _test.go file) are returned separately and left alone.
func vh01Types() (ts []msgType, testOnly map[msgType]bool) {
	testOnly = map[msgType]bool{}
	for i := range msgDotLRegistry.factories {
		c := msgDotLRegistry.factories[i].create
		if c == nil {
			continue
		}
		file, _ := runtime.FuncForPC(reflect.ValueOf(c).Pointer()).FileLine(reflect.ValueOf(c).Pointer())
		if strings.HasSuffix(file, "_test.go") {
			testOnly[msgType(i)] = true
			continue
		}
		ts = append(ts, msgType(i))
	}
	return ts, testOnly
}

// vh01SendCase: fill, dump, real send, real recv.
func vh01SendCase(o *vhOut, t msgType, g *vh01Gen, tg tag, msize uint32) []byte {
	m := msgDotLRegistry.factories[t].create()
	g.fill(reflect.ValueOf(m).Elem())
	return vh01SendMsg(o, m, g.profile, tg, msize)
}

// vh01SendMsg: dump, real send, real recv of a prepared message.
func vh01SendMsg(o *vhOut, m message, profile string, tg tag, msize uint32) []byte {
	t := m.typ()
	g := &vh01Gen{profile: profile}
	sent := vh01DumpMsg(m) // before send: rreaddir.encode rewrites Count
	var buf bytes.Buffer
	if err := send(ulog.Null, &buf, tg, m); err != nil {
		panic(err)
	}
	wire := append([]byte(nil), buf.Bytes()...)
	o.Emit(map[string]interface{}{"k": "send", "typ": uint8(t), "tag": uint16(tg), "msize": msize, "profile": g.profile,
		"sent": sent, "wire": hex.EncodeToString(wire), "res": vh01Recv(wire, msize)})
	return wire
}

func vh01Raw(o *vhOut, wire []byte, msize uint32, what string) {
	o.Emit(map[string]interface{}{"k": "raw", "msize": msize, "what": what, "wire": hex.EncodeToString(wire), "res": vh01Recv(wire, msize)})
}

func TestVerifC01(t *testing.T) {
	o := vhOpen(t)
	defer o.Close()
	r := vhRand()
	thorough := vhThorough()
	types, testOnly := vh01Types()
	o.Emit(map[string]interface{}{"k": "registry", "types": func() []int {
		var l []int
		for _, t := range types {
			l = append(l, int(t))
		}
		return l
	}(), "largestFixedSize": msgDotLRegistry.largestFixedSize, "schema": func() map[string]interface{} {
		sc := map[string]interface{}{}
		for _, t := range types {
			l := []interface{}{}
			vh01Schema(reflect.TypeOf(msgDotLRegistry.factories[t].create()).Elem(), "", &l)
			sc[strconv.Itoa(int(t))] = l
		}
		return sc
	}()})
	tags := []tag{0, 1, 255, 256, 65534, noTag}
	nrandom := 2
	if thorough {
		nrandom = 40
	}
	for _, ty := range types {
		// boundary corpus first
		vh01SendCase(o, ty, &vh01Gen{r: r, profile: "zero"}, 0, maximumLength)
		vh01SendCase(o, ty, &vh01Gen{r: r, profile: "max"}, noTag, maximumLength)
		nedge := 2
		if thorough {
			nedge = 6
		}
		for i := 0; i < nedge; i++ {
			vh01SendCase(o, ty, &vh01Gen{r: r, profile: "edge"}, tags[r.Intn(len(tags))], maximumLength)
		}
		for i := 0; i < nrandom; i++ {
			vh01SendCase(o, ty, &vh01Gen{r: r, profile: "random"}, tag(r.Intn(65536)), maximumLength)
		}
		// long strings, lists and payloads (only where the type has such a field: the generator
		// places one long feature; types without it just give another random case)
		strLens := []int{256}
		if ty == msgTsymlink || ty == msgRreadlink || ty == msgTlock || ty == msgTauth || ty == msgTrenameat || ty == msgRwalkgetattr {
			strLens = []int{256, 65535}
		}
		if thorough || ty == msgTwalk || ty == msgTversion || ty == msgRreaddir {
			strLens = []int{255, 256, 32767, 32768, 65535}
		}
		listLens := []int{16, 1000}
		payLens := []int{65536}
		// an empty message after a full one: decoded into the object that held the full one
		vh01SendCase(o, ty, &vh01Gen{r: r, profile: "max"}, 3, maximumLength)
		vh01SendCase(o, ty, &vh01Gen{r: r, profile: "zero"}, 4, maximumLength)
		if thorough {
			listLens = append(listLens, 65535)
			payLens = append(payLens, 1<<20)
		}
		has := func(kind reflect.Kind, elem reflect.Kind) bool {
			found := false
			var walk func(tt reflect.Type)
			walk = func(tt reflect.Type) {
				for i := 0; i < tt.NumField(); i++ {
					ft := tt.Field(i).Type
					if ft.Kind() == reflect.Struct {
						walk(ft)
					}
					if ft.Kind() == kind && (kind != reflect.Slice || ft.Elem().Kind() == elem || (elem == reflect.Struct && ft.Elem().Kind() == reflect.Struct)) {
						if !(kind == reflect.Slice && elem == reflect.Uint8 && tt.Field(i).Name == "payload") {
							found = true
						}
					}
					if ft.Kind() == reflect.Slice && ft.Elem().Kind() == reflect.Struct && kind == reflect.String {
						walk(ft.Elem())
					}
				}
			}
			walk(reflect.TypeOf(msgDotLRegistry.factories[ty].create()).Elem())
			return found
		}
		if has(reflect.String, 0) {
			for _, n := range strLens {
				vh01SendCase(o, ty, &vh01Gen{r: r, profile: "longstr", strLen: n}, tag(r.Intn(65536)), maximumLength)
			}
		}
		if has(reflect.Slice, reflect.String) || has(reflect.Slice, reflect.Struct) {
			for _, n := range listLens {
				vh01SendCase(o, ty, &vh01Gen{r: r, profile: "longlist", listLen: n}, tag(r.Intn(65536)), maximumLength)
			}
		}
		if has(reflect.Slice, reflect.Uint8) {
			for _, n := range payLens {
				vh01SendCase(o, ty, &vh01Gen{r: r, profile: "bigpay", payLen: n}, tag(r.Intn(65536)), maximumLength)
			}
		}
		// a frame larger than msize is refused by recv
		{
			m := msgDotLRegistry.factories[ty].create()
			g := &vh01Gen{r: r, profile: "random"}
			g.fill(reflect.ValueOf(m).Elem())
			sent := vh01DumpMsg(m)
			var buf bytes.Buffer
			send(ulog.Null, &buf, 7, m)
			wire := append([]byte(nil), buf.Bytes()...)
			for _, ms := range []uint32{uint32(len(wire)), uint32(len(wire)) - 1} {
				o.Emit(map[string]interface{}{"k": "send", "typ": uint8(ty), "tag": 7, "msize": ms, "profile": "msize",
					"sent": sent, "wire": hex.EncodeToString(wire), "res": vh01Recv(wire, ms)})
			}
		}
		// foreign / malformed frames: start from a small real frame and overwrite bytes
		base := func() []byte {
			m := msgDotLRegistry.factories[ty].create()
			g := &vh01Gen{r: r, profile: "random"}
			if r.Intn(2) == 0 {
				g.profile = "max"
			}
			g.fill(reflect.ValueOf(m).Elem())
			var buf bytes.Buffer
			send(ulog.Null, &buf, tag(r.Intn(65536)), m)
			return append([]byte(nil), buf.Bytes()...)
		}
		reps := 1
		if thorough {
			reps = 3
		}
		for rep := 0; rep < reps; rep++ {
			w := base()
			if len(w) > 400 {
				continue
			}
			stride := 1
			if !thorough {
				stride = 1 + len(w)/16
			}
			for i := 7 + r.Intn(stride); i < len(w); i += stride {
				x := append([]byte(nil), w...)
				switch r.Intn(3) {
				case 0:
					x[i] = 0xff
				case 1:
					x[i] ^= byte(1 << uint(r.Intn(8)))
				default:
					x[i] = byte(r.Intn(256))
				}
				vh01Raw(o, x, maximumLength, "overwrite")
			}
			// trailing bytes after the last field (size adjusted), truncation, wrong sizes
			x := append(append([]byte(nil), w...), 1, 2, 3, 4)
			binary.LittleEndian.PutUint32(x, uint32(len(x)))
			vh01Raw(o, x, maximumLength, "trailing")
			if len(w) > 7 {
				x = append([]byte(nil), w[:len(w)-1]...)
				binary.LittleEndian.PutUint32(x, uint32(len(x)))
				vh01Raw(o, x, maximumLength, "short-body")
				vh01Raw(o, w[:len(w)-1], maximumLength, "short-stream")
			}
			x = append([]byte(nil), w...)
			binary.LittleEndian.PutUint32(x, uint32(r.Intn(7)))
			vh01Raw(o, x, maximumLength, "size<7")
			x = append([]byte(nil), w...)
			binary.LittleEndian.PutUint32(x, maximumLength+1)
			vh01Raw(o, x, maximumLength, "size>max")
			x = append([]byte(nil), w...)
			x[4] = byte(r.Intn(256))
			if !testOnly[msgType(x[4])] {
				vh01Raw(o, x, maximumLength, "type")
			}
		}
	}
	// Rreaddir: entries whose cumulative size meets Count exactly, one less, one more
	// (entries of 25, 26, 27 bytes: boundaries at 25, 51, 78)
	for _, count := range []uint32{0, 1, 24, 25, 26, 50, 51, 52, 77, 78, 79, 1000, 1<<32 - 1} {
		m := &rreaddir{Count: count, Entries: []Dirent{
			{QID: QID{Type: TypeDir, Version: 1, Path: 2}, Offset: 1, Type: TypeDir, Name: "a"},
			{QID: QID{Type: TypeRegular, Version: 3, Path: 4}, Offset: 2, Type: TypeRegular, Name: "bc"},
			{QID: QID{Type: TypeSymlink, Version: 5, Path: 6}, Offset: 3, Type: TypeSymlink, Name: "def"}}}
		vh01SendMsg(o, m, "exactfit", tag(count), maximumLength)
	}
	// Rreaddir carries the longest PREFIX that fits: an entry that does not fit followed by shorter ones that would
	// (sizes 25, 224, 25, 26; and the long one first)
	long := string(vh01Pattern(200, 'L', 0))
	for _, count := range []uint32{24, 25, 49, 50, 51, 76, 100, 248, 249, 250, 274, 275, 300} {
		for _, first := range []bool{false, true} {
			ents := []Dirent{
				{QID: QID{Type: TypeDir, Version: 1, Path: 2}, Offset: 1, Type: TypeDir, Name: "a"},
				{QID: QID{Type: TypeRegular, Version: 7, Path: 8}, Offset: 2, Type: TypeRegular, Name: long},
				{QID: QID{Type: TypeRegular, Version: 3, Path: 4}, Offset: 3, Type: TypeRegular, Name: "b"},
				{QID: QID{Type: TypeSymlink, Version: 5, Path: 6}, Offset: 4, Type: TypeSymlink, Name: "cd"}}
			if first {
				ents[0], ents[1] = ents[1], ents[0]
			}
			vh01SendMsg(o, &rreaddir{Count: count, Entries: ents}, "prefixfit", tag(count), maximumLength)
		}
	}
	// a real Client and a real Server talking, both directions captured
	for _, v := range []int{0, 7} {
		vh01ConnScenario(o, v)
	}
	// every type byte with an empty body and with a 13-byte body
	registered := map[msgType]bool{}
	for _, ty := range types {
		registered[ty] = true
	}
	for ty := 0; ty < 256; ty++ {
		if testOnly[msgType(ty)] || (!thorough && !registered[msgType(ty)] && ty%6 != 0) {
			continue
		}
		vh01Raw(o, vhFrame(byte(ty), 9, nil), maximumLength, "empty-body")
		vh01Raw(o, vhFrame(byte(ty), 9, vh01Pattern(13, byte(ty), 7)), maximumLength, "13-body")
	}
}
