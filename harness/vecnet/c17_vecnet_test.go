package vecnet

// C17 correspondence harness for vecnet.Buffers.ReadFrom: the same bytes under
// different segmentations through a scripted io.Reader (generic nested loops) and
// through a real unix SOCK_STREAM socket pair (recvmsg + iovec consumption).

import (
	"bufio"
	"encoding/json"
	"io"
	"math/rand"
	"net"
	"os"
	"strconv"
	"syscall"
	"testing"
	"time"
)

type vh17Step struct {
	K   int  `json:"k"`
	EOF bool `json:"eof"`
}

type vh17Reader struct {
	data   []byte
	pos    int
	script []vh17Step
	si     int
}

func (r *vh17Reader) Read(p []byte) (int, error) {
	if len(p) == 0 {
		return 0, nil
	}
	var st *vh17Step
	if r.si < len(r.script) {
		st = &r.script[r.si]
		r.si++
	}
	if r.pos >= len(r.data) {
		return 0, io.EOF
	}
	n := len(p)
	if rem := len(r.data) - r.pos; rem < n {
		n = rem
	}
	if st != nil && st.K < n {
		n = st.K
	}
	copy(p, r.data[r.pos:r.pos+n])
	r.pos += n
	if st != nil && st.EOF && n > 0 && r.pos == len(r.data) {
		return n, io.EOF
	}
	return n, nil
}

type vh17Obs struct {
	Kind     string     `json:"kind"` // vec
	ID       int        `json:"id"`
	What     string     `json:"what"`
	Mode     int        `json:"mode"` // 0 scripted io.Reader, 1 unix socket
	Bufs     []int      `json:"bufs"`
	Stream   []int      `json:"stream"`
	Script   []vh17Step `json:"script"`
	N        int64      `json:"n"`
	Err      int        `json:"err"` // 0 nil, 1 io.EOF, 2 other, 3 panic
	Contents [][]int    `json:"contents"`
	Chunks   []int      `json:"chunks,omitempty"`
}

func vh17Ints(b []byte) []int {
	out := make([]int, len(b))
	for i, c := range b {
		out[i] = int(c)
	}
	return out
}

func vh17Err(err error) int {
	switch err {
	case nil:
		return 0
	case io.EOF:
		return 1
	}
	return 2
}

func vh17ReadFrom(bufs Buffers, r io.Reader) (n int64, code int) {
	defer func() {
		if recover() != nil {
			code = 3
		}
	}()
	n, err := bufs.ReadFrom(r)
	return n, vh17Err(err)
}

func vh17Mk(lens []int) Buffers {
	bufs := make(Buffers, len(lens))
	for i, l := range lens {
		bufs[i] = make([]byte, l)
	}
	return bufs
}

func vh17Contents(orig [][]byte) [][]int {
	out := make([][]int, len(orig))
	for i, b := range orig {
		out[i] = vh17Ints(b)
	}
	return out
}

func vh17SocketPair() (*net.UnixConn, *net.UnixConn, error) {
	fds, err := syscall.Socketpair(syscall.AF_UNIX, syscall.SOCK_STREAM, 0)
	if err != nil {
		return nil, nil, err
	}
	mk := func(fd int) (*net.UnixConn, error) {
		f := os.NewFile(uintptr(fd), "vhsock")
		defer f.Close()
		c, err := net.FileConn(f)
		if err != nil {
			return nil, err
		}
		return c.(*net.UnixConn), nil
	}
	a, err := mk(fds[0])
	if err != nil {
		return nil, nil, err
	}
	b, err := mk(fds[1])
	if err != nil {
		return nil, nil, err
	}
	return a, b, nil
}

func TestVerifC17Vec(t *testing.T) {
	p := os.Getenv("VERIF_OUT")
	if p == "" {
		t.Skip("VERIF_OUT not set: not running under /verif/check")
	}
	f, err := os.OpenFile(p, os.O_CREATE|os.O_WRONLY|os.O_APPEND, 0o644)
	if err != nil {
		t.Fatal(err)
	}
	w := bufio.NewWriter(f)
	defer func() { w.Flush(); f.Close() }()
	id := 0
	emit := func(o vh17Obs) {
		id++
		o.ID = id
		b, _ := json.Marshal(o)
		w.Write(b)
		w.WriteByte('\n')
	}
	seed, err := strconv.ParseInt(os.Getenv("VERIF_SEED"), 10, 64)
	if err != nil {
		seed = 1
	}
	r := rand.New(rand.NewSource(seed))
	thorough := os.Getenv("VERIF_TIER") == "thorough"

	layouts := [][]int{{7}, {7, 4}, {4, 9}, {16, 30}, {1, 1, 1}, {0, 5}, {5, 0}, {5, 0, 3}, {64, 1}, {12}, {3, 2, 0}, {}}
	scripted := func(what string, lens []int, stream []byte, sc []vh17Step) {
		bufs := vh17Mk(lens)
		orig := make([][]byte, len(bufs))
		copy(orig, bufs)
		rd := &vh17Reader{data: stream, script: sc}
		n, code := vh17ReadFrom(bufs, rd)
		emit(vh17Obs{Kind: "vec", What: what, Mode: 0, Bufs: lens, Stream: vh17Ints(stream), Script: sc, N: n, Err: code, Contents: vh17Contents(orig)})
	}
	for _, lens := range layouts {
		total := 0
		for _, l := range lens {
			total += l
		}
		for _, extra := range []int{0, 3, -1, -total} {
			sl := total + extra
			if sl < 0 {
				continue
			}
			stream := make([]byte, sl)
			for i := range stream {
				stream[i] = byte(1 + r.Intn(255))
			}
			// every two-piece split, with and without EOF carried by the last data
			for k := 1; k < sl; k++ {
				scripted("split", lens, stream, []vh17Step{{K: k, EOF: k%2 == 0}, {K: sl, EOF: k%3 != 0}})
			}
			ones := make([]vh17Step, sl+2)
			for i := range ones {
				ones[i] = vh17Step{K: 1, EOF: i%2 == 1}
			}
			scripted("bytes", lens, stream, ones)
			scripted("whole", lens, stream, nil)
			scripted("whole-eof", lens, stream, []vh17Step{{K: sl + 1, EOF: true}, {K: sl + 1, EOF: true}})
			// a Read that hands over nothing with a nil error (model comparison only)
			scripted("zero-read", lens, stream, []vh17Step{{K: 2, EOF: false}, {K: 0, EOF: false}, {K: sl, EOF: false}})
		}
	}
	nrand := 150
	if thorough {
		nrand = 3000
	}
	for i := 0; i < nrand; i++ {
		nb := 1 + r.Intn(4)
		lens := make([]int, nb)
		total := 0
		for j := range lens {
			lens[j] = r.Intn(40)
			total += lens[j]
		}
		sl := total + r.Intn(7) - 3
		if sl < 0 {
			sl = 0
		}
		stream := make([]byte, sl)
		r.Read(stream)
		var sc []vh17Step
		for left := sl + 5; left > 0; {
			k := 1 + r.Intn(10)
			sc = append(sc, vh17Step{K: k, EOF: r.Intn(2) == 0})
			left -= k
		}
		scripted("random", lens, stream, sc)
	}
	// gated writes: the first segment fills buffer 0 and a strict prefix of buffer 1
	ngate := 16
	if thorough {
		ngate = 120
	}
	for i := 0; i < ngate; i++ {
		lens := []int{1 + r.Intn(20), 4 + r.Intn(60)}
		if i%4 == 3 {
			lens = append(lens, 1+r.Intn(10))
		}
		total := 0
		for _, l := range lens {
			total += l
		}
		stream := make([]byte, total)
		r.Read(stream)
		first := lens[0] + 1 + r.Intn(lens[1]-1)
		a, b, err := vh17SocketPair()
		if err != nil {
			t.Fatal(err)
		}
		go func() {
			a.Write(stream[:first])
			time.Sleep(3 * time.Millisecond)
			a.Write(stream[first:])
		}()
		b.SetReadDeadline(time.Now().Add(10 * time.Second))
		bufs := vh17Mk(lens)
		orig := make([][]byte, len(bufs))
		copy(orig, bufs)
		n, code := vh17ReadFrom(bufs, b)
		a.Close()
		b.Close()
		emit(vh17Obs{Kind: "vec", What: "socket-gated", Mode: 1, Bufs: lens, Stream: vh17Ints(stream), N: n, Err: code, Contents: vh17Contents(orig), Chunks: []int{first, total - first}})
	}
	// every cut position of short two- and three-buffer layouts (the shape of recv's [fixed part, payload]):
	// the first segment ends at byte `cut`, the rest follows after a pause, so that one recvmsg returns
	// exactly `cut` bytes: inside buffer 0, at the boundary, inside buffer 1 (short and long), inside buffer 2
	for _, lens := range [][]int{{4, 6}, {16, 5}, {3, 2, 4}, {4, 0, 5}} {
		total := 0
		for _, l := range lens {
			total += l
		}
		for cut := 1; cut < total; cut++ {
			stream := make([]byte, total)
			r.Read(stream)
			a, b, err := vh17SocketPair()
			if err != nil {
				t.Fatal(err)
			}
			cutc := cut
			go func() {
				a.Write(stream[:cutc])
				time.Sleep(2 * time.Millisecond)
				a.Write(stream[cutc:])
			}()
			b.SetReadDeadline(time.Now().Add(10 * time.Second))
			bufs := vh17Mk(lens)
			orig := make([][]byte, len(bufs))
			copy(orig, bufs)
			n, code := vh17ReadFrom(bufs, b)
			a.Close()
			b.Close()
			emit(vh17Obs{Kind: "vec", What: "socket-everycut", Mode: 1, Bufs: lens, Stream: vh17Ints(stream), N: n, Err: code, Contents: vh17Contents(orig), Chunks: []int{cut, total - cut}})
		}
	}
	// real socket pair: recvmsg path
	nsock := 60
	if thorough {
		nsock = 600
	}
	for i := 0; i < nsock; i++ {
		lens := layouts[i%len(layouts)]
		if i >= len(layouts)*2 {
			nb := 1 + r.Intn(3)
			lens = make([]int, nb)
			for j := range lens {
				lens[j] = r.Intn(200)
			}
		}
		total := 0
		for _, l := range lens {
			total += l
		}
		sl := total
		switch i % 4 {
		case 1:
			sl = total + 5
		case 2:
			if total > 0 {
				sl = r.Intn(total)
			}
		}
		stream := make([]byte, sl)
		r.Read(stream)
		a, b, err := vh17SocketPair()
		if err != nil {
			t.Fatal(err)
		}
		var chunks []int
		for left := sl; left > 0; {
			k := 1 + r.Intn(left)
			if i%3 == 0 {
				k = 1
			}
			chunks = append(chunks, k)
			left -= k
		}
		closeAfter := sl < total || i%2 == 0
		go func() {
			off := 0
			for _, k := range chunks {
				a.Write(stream[off : off+k])
				off += k
				time.Sleep(30 * time.Microsecond)
			}
			if closeAfter {
				a.Close()
			}
		}()
		b.SetReadDeadline(time.Now().Add(10 * time.Second))
		bufs := vh17Mk(lens)
		orig := make([][]byte, len(bufs))
		copy(orig, bufs)
		n, code := vh17ReadFrom(bufs, b)
		a.Close()
		b.Close()
		emit(vh17Obs{Kind: "vec", What: "socket", Mode: 1, Bufs: lens, Stream: vh17Ints(stream), N: n, Err: code, Contents: vh17Contents(orig), Chunks: chunks})
	}
}
