package linux

// C03: ExtractErrno over generated error chains (linux.Errno, syscall.Errno,
// os.Err*, *fs.PathError, fmt.Errorf("%w"), errors.Join, opaque).

import (
	"bufio"
	"encoding/json"
	"errors"
	"fmt"
	"io/fs"
	"math/rand"
	"os"
	"strconv"
	"syscall"
	"testing"
)

type vhl03Err struct {
	J   map[string]interface{}
	Err error
}

func vhl03Gen(r *rand.Rand, depth int) vhl03Err {
	leaf := func() vhl03Err {
		switch r.Intn(10) {
		case 0, 1:
			n := uint32(r.Intn(134))
			return vhl03Err{map[string]interface{}{"k": "linux", "n": n}, Errno(n)}
		case 2, 3:
			n := []uint32{0, 1, 2, 13, 17, 39, 22, 28, 95, 61, 11}[r.Intn(11)]
			return vhl03Err{map[string]interface{}{"k": "sys", "n": n}, syscall.Errno(n)}
		case 4:
			return vhl03Err{map[string]interface{}{"k": "notexist"}, os.ErrNotExist}
		case 5:
			return vhl03Err{map[string]interface{}{"k": "exist"}, os.ErrExist}
		case 6:
			return vhl03Err{map[string]interface{}{"k": "permission"}, os.ErrPermission}
		case 7:
			return vhl03Err{map[string]interface{}{"k": "invalid"}, os.ErrInvalid}
		}
		return vhl03Err{map[string]interface{}{"k": "opaque"}, errors.New("opaque failure")}
	}
	if depth <= 0 || r.Intn(4) == 0 {
		return leaf()
	}
	switch r.Intn(3) {
	case 0:
		e := vhl03Gen(r, depth-1)
		return vhl03Err{map[string]interface{}{"k": "wrap", "e": e.J}, fmt.Errorf("ctx: %w", e.Err)}
	case 1:
		e := vhl03Gen(r, depth-1)
		return vhl03Err{map[string]interface{}{"k": "wrap", "e": e.J}, &fs.PathError{Op: "op", Path: "/p", Err: e.Err}}
	}
	n := 1 + r.Intn(3)
	var js []interface{}
	var es []error
	for i := 0; i < n; i++ {
		e := vhl03Gen(r, depth-1)
		js = append(js, e.J)
		es = append(es, e.Err)
	}
	return vhl03Err{map[string]interface{}{"k": "join", "es": js}, errors.Join(es...)}
}

func TestVerifC03Errno(t *testing.T) {
	p := os.Getenv("VERIF_OUT")
	if p == "" {
		t.Skip("VERIF_OUT not set")
	}
	f, err := os.OpenFile(p, os.O_CREATE|os.O_WRONLY|os.O_APPEND, 0o644)
	if err != nil {
		t.Fatal(err)
	}
	defer f.Close()
	w := bufio.NewWriter(f)
	defer w.Flush()
	seed, _ := strconv.ParseInt(os.Getenv("VERIF_SEED"), 10, 64)
	r := rand.New(rand.NewSource(seed + 3))
	n := 400
	if os.Getenv("VERIF_TIER") == "thorough" {
		n = 12000
	}
	emit := func(e vhl03Err) {
		b, _ := json.Marshal(map[string]interface{}{"kind": "errno", "answer": e.J, "errno": uint32(ExtractErrno(e.Err))})
		w.Write(b)
		w.WriteByte('\n')
	}
	// fixed corpus: the two cases of commit f2c8a14 and their wrapped forms first
	for _, n := range []uint32{1, 39, 13, 17, 2, 22} {
		base := vhl03Err{map[string]interface{}{"k": "sys", "n": n}, syscall.Errno(n)}
		emit(base)
		emit(vhl03Err{map[string]interface{}{"k": "wrap", "e": base.J}, &fs.PathError{Op: "rmdir", Path: "/d", Err: base.Err}})
		emit(vhl03Err{map[string]interface{}{"k": "join", "es": []interface{}{map[string]interface{}{"k": "permission"}, base.J}}, errors.Join(os.ErrPermission, base.Err)})
	}
	for i := 0; i < n; i++ {
		emit(vhl03Gen(r, 4))
	}
}
