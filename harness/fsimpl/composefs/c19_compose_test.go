package composefs

// C19 harness, staticfs / composefs / nested mounts: paged listings through the
// File directly and through a real client and server, QIDs from Readdir, Walk
// and GetAttr; and scripted operation sequences on generated mount shapes whose
// every QID is compared with the model of fsimpl/qids.

import (
	"fmt"
	"math/rand"
	"net"
	"os"
	"path/filepath"
	"runtime"
	"sort"
	"testing"

	"sync"

	"github.com/hugelgupf/p9/fsimpl/localfs"
	"github.com/hugelgupf/p9/linux"
	"github.com/hugelgupf/p9/fsimpl/staticfs"
	"github.com/hugelgupf/p9/p9"
)

type vh19Ent struct {
	Name interface{} `json:"name"`
	Off  uint64      `json:"off"`
	QID  [3]uint64   `json:"qid"`
	Type uint8       `json:"type"`
}

type vh19Pages struct {
	Kind   string        `json:"kind"`
	FS     int           `json:"fs"`
	Remote bool          `json:"remote"`
	MSize  uint32        `json:"msize"`
	Count  uint32        `json:"count"`
	Names  []interface{} `json:"names"`
	WalkQ  [][3]uint64   `json:"walkq"`
	GetQ   [][3]uint64   `json:"getq"`
	Pages  [][]vh19Ent   `json:"pages"`
	Hit    bool          `json:"hit"`
	Err    string        `json:"err,omitempty"`
}

// vh19Mut is a mounted file whose own identity (QID version and/or path) changes while it is mounted: what a
// file that is modified (9P: the version moves on) or replaced on the host looks like to composefs.  All clones
// share the cell, as all Files of one host object would.
type vh19MutCell struct {
	mu sync.Mutex
	q  p9.QID
}

func (c *vh19MutCell) get() p9.QID { c.mu.Lock(); defer c.mu.Unlock(); return c.q }
func (c *vh19MutCell) set(q p9.QID) { c.mu.Lock(); c.q = q; c.mu.Unlock() }

type vh19Mut struct {
	p9.File
	cell *vh19MutCell
}

func vh19NewMut(q p9.QID) (vh19Mut, *vh19MutCell) {
	c := &vh19MutCell{q: q}
	return vh19Mut{File: staticfs.ReadOnlyFile("mutable"), cell: c}, c
}

func (f vh19Mut) Walk(names []string) ([]p9.QID, p9.File, error) {
	if len(names) == 0 {
		return nil, f, nil
	}
	return nil, nil, linux.ENOTDIR
}

func (f vh19Mut) WalkGetAttr(names []string) ([]p9.QID, p9.File, p9.AttrMask, p9.Attr, error) {
	return nil, nil, p9.AttrMask{}, p9.Attr{}, linux.ENOSYS
}

func (f vh19Mut) GetAttr(req p9.AttrMask) (p9.QID, p9.AttrMask, p9.Attr, error) {
	_, mask, attr, err := f.File.GetAttr(req)
	return f.cell.get(), mask, attr, err
}

func (f vh19Mut) Open(mode p9.OpenFlags) (p9.QID, uint32, error) {
	_, io, err := f.File.Open(mode)
	return f.cell.get(), io, err
}

func vh19Q(q p9.QID) [3]uint64 { return [3]uint64{uint64(q.Type), uint64(q.Version), q.Path} }

func vh19Name(r *rand.Rand, i int, max int) string {
	n := 1 + r.Intn(max)
	switch r.Intn(6) {
	case 0:
		n = 1 + r.Intn(3)
	case 1:
		n = max
	}
	if n == 1 && i < 20 {
		return string(rune('A' + i))
	}
	tag := fmt.Sprintf("%x~", i)
	if len(tag) > n {
		n = len(tag)
	}
	b := make([]byte, n)
	const alpha = "abcdefghijklmnopqrstuvwxyzABCDEFGHIJKLMNOPQRSTUVWXYZ0123456789-_.,+=@ "
	raw := r.Intn(10) == 0
	for j := range b {
		if raw {
			c := byte(1 + r.Intn(255))
			if c == '/' {
				c = '_'
			}
			b[j] = c
		} else {
			b[j] = alpha[r.Intn(len(alpha))]
		}
	}
	copy(b, tag)
	return string(b)
}

func vh19List(f p9.File, count uint32, maxPages int) (pages [][]vh19Ent, hit bool, err error) {
	var off uint64
	for {
		if len(pages) >= maxPages {
			return pages, true, nil
		}
		ents, e := f.Readdir(off, count)
		if e != nil {
			return pages, false, e
		}
		if len(ents) == 0 {
			return pages, false, nil
		}
		pg := make([]vh19Ent, len(ents))
		for i, d := range ents {
			pg[i] = vh19Ent{Name: vhfsName(d.Name), Off: d.Offset, QID: vh19Q(d.QID), Type: uint8(d.Type)}
		}
		pages = append(pages, pg)
		off = ents[len(ents)-1].Offset
	}
}

func vh19Remote(t *testing.T, a p9.Attacher, msize uint32) (p9.File, func()) {
	sc, cc := net.Pipe()
	srv := p9.NewServer(a)
	done := make(chan struct{})
	go func() { srv.Handle(sc, sc); close(done) }()
	c, err := p9.NewClient(cc, p9.WithMessageSize(msize))
	if err != nil {
		t.Fatalf("NewClient(msize=%d): %v", msize, err)
	}
	root, err := c.Attach("")
	if err != nil {
		t.Fatalf("attach: %v", err)
	}
	return root, func() { cc.Close(); sc.Close(); <-done }
}

// vh19Observe lists the directory reached from root by path and records Walk/GetAttr QIDs.
func vh19Observe(t *testing.T, out *vhfsOut, fs int, root p9.File, path []string, names []string, remote bool, msize, count uint32) {
	// The real client arms a finalizer on every clientFile (it clunks the fid): a File that is dropped
	// could be clunked by the GC in the middle of the listing.  Everything obtained here stays referenced
	// until the observation is complete and is then closed explicitly.
	var keep []p9.File
	defer func() {
		for _, f := range keep {
			f.Close()
		}
		runtime.KeepAlive(keep)
		runtime.KeepAlive(root)
	}()
	o := vh19Pages{Kind: "pages", FS: fs, Remote: remote, MSize: msize, Count: count}
	base := root
	for _, p := range path {
		_, nb, err := base.Walk([]string{p})
		if err != nil {
			t.Fatalf("walk to %v: %v", path, err)
		}
		keep = append(keep, nb)
		base = nb
	}
	_, d, err := base.Walk(nil)
	if err != nil {
		t.Fatalf("clone: %v", err)
	}
	if _, _, err := d.Open(p9.ReadOnly); err != nil {
		t.Fatalf("open: %v", err)
	}
	o.Pages, o.Hit, err = vh19List(d, count, len(names)+3)
	if err != nil {
		o.Err = err.Error()
	}
	d.Close()
	runtime.KeepAlive(d)
	for _, n := range names {
		o.Names = append(o.Names, vhfsName(n))
	}
	// a listing that failed (e.g. the connection broke on an oversized reply) is an observation, not a harness failure
	for _, n := range names {
		if o.Err != "" {
			break
		}
		qs, f, err := base.Walk([]string{n})
		if f != nil {
			keep = append(keep, f)
		}
		if err != nil || len(qs) != 1 {
			o.Err = fmt.Sprintf("walk %q: %v %v", n, qs, err)
			o.WalkQ, o.GetQ = nil, nil
			break
		}
		g, _, _, err := f.GetAttr(p9.AttrMask{Mode: true})
		if err != nil {
			o.Err = fmt.Sprintf("getattr %q: %v", n, err)
			o.WalkQ, o.GetQ = nil, nil
			break
		}
		o.WalkQ = append(o.WalkQ, vh19Q(qs[0]))
		o.GetQ = append(o.GetQ, vh19Q(g))
	}
	out.Emit(o)
}

func vh19Names(r *rand.Rand, n, maxName int) []string {
	names := make([]string, n)
	for i := range names {
		names[i] = vh19Name(r, i, maxName)
	}
	sort.Strings(names)
	return names
}

func vh19Static(t *testing.T, names []string) p9.Attacher {
	var opts []staticfs.Option
	for _, n := range names {
		opts = append(opts, staticfs.WithFile(n, "content of "+n))
	}
	a, err := staticfs.New(opts...)
	if err != nil {
		t.Fatal(err)
	}
	return a
}

func vh19MaxEnt(names []string) uint32 {
	m := 24
	for _, n := range names {
		if 24+len(n) > m {
			m = 24 + len(n)
		}
	}
	return uint32(m)
}

// one file system under test: how to build it, where the listed directory is, in which order it holds the names
type vh19FS struct {
	fs    int
	mk    func() p9.Attacher
	path  []string
	names []string
}

func TestVerifC19Compose(t *testing.T) {
	out := vhfsOpen(t)
	defer out.Close()
	r := vhfsRand()
	type cfg struct{ n, maxName int }
	cfgs := []cfg{{0, 8}, {1, 255}, {3, 255}, {9, 12}, {40, 255}, {150, 24}}
	if vhfsThorough() {
		cfgs = append(cfgs, cfg{2, 30}, cfg{64, 255}, cfg{300, 255}, cfg{1000, 40}, cfg{3000, 24})
	}
	for ci, c := range cfgs {
		names := vh19Names(r, c.n, c.maxName)
		var fss []vh19FS
		// staticfs alone
		fss = append(fss, vh19FS{1, func() p9.Attacher { return vh19Static(t, names) }, nil, names})
		// composefs root: every name a mount (files, and now and then a staticfs or an inner composefs)
		fss = append(fss, vh19FS{2, func() p9.Attacher {
			var opts []Opt
			var cells []*vh19MutCell
			for i, n := range names {
				switch i % 7 {
				case 1:
					// a file whose identity moves on after it was mounted (below): Readdir, Walk and GetAttr must all ask it
					m, c := vh19NewMut(p9.QID{Type: p9.TypeRegular, Version: 0, Path: uint64(100 + i)})
					cells = append(cells, c)
					opts = append(opts, WithFile(n, m))
				case 3:
					opts = append(opts, WithMount(n, vh19Static(t, []string{"x", "y"})))
				case 5:
					opts = append(opts, WithDir(n, WithFile("inner", staticfs.ReadOnlyFile("i"))))
				default:
					opts = append(opts, WithFile(n, staticfs.ReadOnlyFile("file "+n)))
				}
			}
			a, err := New(opts...)
			if err != nil {
				t.Fatal(err)
			}
			for i, c := range cells {
				q := c.get()
				q.Version += uint32(1 + i)
				if i%2 == 1 {
					q.Path += 1000000 // replaced by another object
				}
				c.set(q)
			}
			return a
		}, nil, names})
		// nested: outer composefs / "mid" inner composefs / "deep" staticfs with the names
		fss = append(fss, vh19FS{3, func() p9.Attacher {
			a, err := New(
				WithFile("a-file", staticfs.ReadOnlyFile("a")),
				WithDir("mid", WithFile("b-file", staticfs.ReadOnlyFile("b")), WithMount("deep", vh19Static(t, names))),
				WithMount("other", vh19Static(t, []string{"o1", "o2"})),
			)
			if err != nil {
				t.Fatal(err)
			}
			return a
		}, []string{"mid", "deep"}, names})
		// nested: a localfs directory mounted in an inner composefs (host order is the oracle)
		if ci%2 == 1 && c.n <= 300 {
			dir := t.TempDir()
			for _, n := range names {
				if err := os.WriteFile(filepath.Join(dir, n), nil, 0o644); err != nil {
					t.Fatal(err)
				}
			}
			f, err := os.Open(dir)
			if err != nil {
				t.Fatal(err)
			}
			host, err := f.Readdirnames(-1)
			f.Close()
			if err != nil || len(host) != len(names) {
				t.Fatalf("host order: %v (%d of %d)", err, len(host), len(names))
			}
			fss = append(fss, vh19FS{3, func() p9.Attacher {
				a, err := New(WithDir("mid", WithMount("loc", localfs.Attacher(dir))), WithFile("z", staticfs.ReadOnlyFile("z")))
				if err != nil {
					t.Fatal(err)
				}
				return a
			}, []string{"mid", "loc"}, host})
		}
		maxEnt := vh19MaxEnt(names)
		for _, f := range fss {
			counts := []uint32{1, 2, 3, 7, uint32(c.n), uint32(c.n) + 1, 1 << 20, 0xffffffff, 0}
			if !vhfsThorough() {
				counts = []uint32{1, 3, uint32(c.n), 0xffffffff, 0}
			}
			if c.n > 400 {
				counts = []uint32{4, 97, 0xffffffff}
			}
			for _, cnt := range counts {
				root, err := f.mk().Attach()
				if err != nil {
					t.Fatal(err)
				}
				vh19Observe(t, out, f.fs, root, f.path, f.names, false, 0, cnt)
			}
			mss := []uint32{maxEnt + 11, 4096, 65536}
			if !vhfsThorough() {
				mss = []uint32{maxEnt + 11, 4096, 8192}
			}
			for _, ms := range mss {
				if ms < 300 {
					ms = 300
				}
				cs := []uint32{maxEnt, 2*maxEnt - 1, 1000, ms - 11, ms, 1 << 20, maxEnt - 1, 0}
				if !vhfsThorough() {
					cs = []uint32{maxEnt, ms + 100, 1 << 20, maxEnt - 1}
				}
				if c.n > 400 {
					cs = []uint32{maxEnt, 4000, 1 << 20}
				}
				for _, cnt := range cs {
					root, closefn := vh19Remote(t, f.mk(), ms)
					vh19Observe(t, out, f.fs, root, f.path, f.names, true, ms, cnt)
					root.Close()
					closefn()
				}
			}
		}
	}
	// a large directory behind a mount: more entries than any table a QID mapper might want to bound (the
	// mapper must keep every path it ever handed out: the QIDs listed must still be the ones Walk and GetAttr
	// report after thousands of other files were seen through the same mapper).  Direct, one listing.
	{
		var names []string
		for i := 0; i < 4300; i++ {
			names = append(names, fmt.Sprintf("big%05d", i))
		}
		a, err := New(WithDir("mid", WithMount("deep", vh19Static(t, names))), WithFile("z", staticfs.ReadOnlyFile("z")))
		if err != nil {
			t.Fatal(err)
		}
		root, err := a.Attach()
		if err != nil {
			t.Fatal(err)
		}
		vh19Observe(t, out, 3, root, []string{"mid", "deep"}, names, false, 0, 0xffffffff)
	}
	vh19Qids(t, out, r)
}

// ---- scripted operation sequences on generated mount shapes ----

type vh19Leaf struct {
	Static bool      `json:"static"`
	Names  []string  `json:"names,omitempty"`
	Mut    bool      `json:"mut,omitempty"`
	Q      [3]uint64 `json:"q"`
	cell   *vh19MutCell
}
type vh19Mnt struct {
	Name  string    `json:"name"`
	Leaf  *vh19Leaf `json:"leaf,omitempty"`
	Sub   []vh19Mnt `json:"sub,omitempty"`
	IsSub bool      `json:"issub"`
}
type vh19Op struct {
	Bump bool      `json:"bump,omitempty"` // the top-level mount Name reports QID Q from now on
	Q    [3]uint64 `json:"q"`
	Read bool      `json:"read"`
	Path []string `json:"path"`
	Off  uint64   `json:"off"`
	Cnt  uint32   `json:"cnt"`
	Name string   `json:"name"`
}
type vh19Res struct {
	Kind string    `json:"kind"` // read | walk | nodir
	Ents []vh19Ent `json:"ents,omitempty"`
	OK   bool      `json:"ok"`
	QW   [3]uint64 `json:"qw"`
	QG   [3]uint64 `json:"qg"`
}
type vh19QCase struct {
	Kind  string    `json:"kind"`
	Shape []vh19Mnt `json:"shape"`
	Ops   []vh19Op  `json:"ops"`
	Res   []vh19Res `json:"res"`
}

func vh19SortedNames(r *rand.Rand, prefix string, n int) []string {
	m := map[string]bool{}
	for len(m) < n {
		m[fmt.Sprintf("%s%d", prefix, r.Intn(40))] = true
	}
	var out []string
	for k := range m {
		out = append(out, k)
	}
	sort.Strings(out)
	return out
}

func vh19GenLeaf(r *rand.Rand) *vh19Leaf {
	if r.Intn(2) == 0 {
		return &vh19Leaf{}
	}
	return &vh19Leaf{Static: true, Names: vh19SortedNames(r, "s", r.Intn(5))}
}

func vh19LeafOpt(t *testing.T, name string, l *vh19Leaf) Opt {
	if l.Mut {
		m, c := vh19NewMut(p9.QID{Type: p9.QIDType(l.Q[0]), Version: uint32(l.Q[1]), Path: l.Q[2]})
		l.cell = c
		return WithFile(name, m)
	}
	if !l.Static {
		return WithFile(name, staticfs.ReadOnlyFile("f"))
	}
	return WithMount(name, vh19Static(t, l.Names))
}

func vh19Qids(t *testing.T, out *vhfsOut, r *rand.Rand) {
	n := 40
	if vhfsThorough() {
		n = 400
	}
	for ci := 0; ci < n; ci++ {
		var shape []vh19Mnt
		for _, nm := range vh19SortedNames(r, "m", 1+r.Intn(5)) {
			if r.Intn(3) == 0 {
				var sub []vh19Mnt
				for _, sn := range vh19SortedNames(r, "i", 1+r.Intn(4)) {
					sub = append(sub, vh19Mnt{Name: sn, Leaf: vh19GenLeaf(r)})
				}
				shape = append(shape, vh19Mnt{Name: nm, Sub: sub, IsSub: true})
			} else if r.Intn(3) == 0 {
				shape = append(shape, vh19Mnt{Name: nm, Leaf: &vh19Leaf{Mut: true, Q: [3]uint64{0, uint64(r.Intn(3)), uint64(r.Intn(4))}}})
			} else {
				shape = append(shape, vh19Mnt{Name: nm, Leaf: vh19GenLeaf(r)})
			}
		}
		var muts []vh19Mnt
		for _, m := range shape {
			if !m.IsSub && m.Leaf.Mut {
				muts = append(muts, m)
			}
		}
		var opts []Opt
		for _, m := range shape {
			if m.IsSub {
				var in []Opt
				for _, s := range m.Sub {
					in = append(in, vh19LeafOpt(t, s.Name, s.Leaf))
				}
				opts = append(opts, WithDir(m.Name, in...))
			} else {
				opts = append(opts, vh19LeafOpt(t, m.Name, m.Leaf))
			}
		}
		fs, err := New(opts...)
		if err != nil {
			t.Fatal(err)
		}
		// is path a directory of the shape?
		isDir := func(path []string) (bool, []string) {
			switch len(path) {
			case 0:
				var ns []string
				for _, m := range shape {
					ns = append(ns, m.Name)
				}
				return true, ns
			case 1:
				for _, m := range shape {
					if m.Name == path[0] {
						if m.IsSub {
							var ns []string
							for _, s := range m.Sub {
								ns = append(ns, s.Name)
							}
							return true, ns
						}
						return m.Leaf.Static, m.Leaf.Names
					}
				}
			case 2:
				for _, m := range shape {
					if m.Name == path[0] && m.IsSub {
						for _, s := range m.Sub {
							if s.Name == path[1] {
								return s.Leaf.Static, s.Leaf.Names
							}
						}
					}
				}
			}
			return false, nil
		}
		pick := func(ns []string) string {
			if len(ns) == 0 || r.Intn(8) == 0 {
				return "nosuch"
			}
			return ns[r.Intn(len(ns))]
		}
		c := vh19QCase{Kind: "qids", Shape: shape}
		nops := 5 + r.Intn(30)
		for oi := 0; oi < nops; oi++ {
			if len(muts) > 0 && r.Intn(6) == 0 {
				// a mount's identity moves on: new version, now and then another path (replaced object, possibly one seen before)
				m := muts[r.Intn(len(muts))]
				q := m.Leaf.cell.get()
				q.Version = uint32(r.Intn(4))
				if r.Intn(2) == 0 {
					q.Path = uint64(r.Intn(4))
				}
				m.Leaf.cell.set(q)
				c.Ops = append(c.Ops, vh19Op{Bump: true, Name: m.Name, Q: vh19Q(q)})
				c.Res = append(c.Res, vh19Res{Kind: "bump"})
				continue
			}
			var path []string
			_, ns := isDir(nil)
			for d := r.Intn(3); d > 0; d-- {
				path = append(path, pick(ns))
				_, ns = isDir(path)
			}
			op := vh19Op{Read: r.Intn(2) == 0, Path: append([]string{}, path...)}
			if op.Read {
				op.Off = uint64(r.Intn(4))
				op.Cnt = uint32(r.Intn(5))
				if r.Intn(3) == 0 {
					op.Cnt = 1000
				}
			} else {
				_, ns := isDir(path)
				op.Name = pick(ns)
			}
			c.Ops = append(c.Ops, op)
			// navigate: one Walk per component
			root, _ := fs.Attach()
			var cur p9.File = root
			ok := true
			for _, p := range path {
				_, nf, err := cur.Walk([]string{p})
				if err != nil {
					ok = false
					break
				}
				cur = nf
			}
			if d, _ := isDir(path); !ok || !d {
				c.Res = append(c.Res, vh19Res{Kind: "nodir"})
				continue
			}
			if op.Read {
				ents, err := cur.Readdir(op.Off, op.Cnt)
				if err != nil {
					t.Fatalf("readdir: %v", err)
				}
				res := vh19Res{Kind: "read"}
				for _, d := range ents {
					res.Ents = append(res.Ents, vh19Ent{Name: d.Name, Off: d.Offset, QID: vh19Q(d.QID), Type: uint8(d.Type)})
				}
				c.Res = append(c.Res, res)
			} else {
				qs, f, err := cur.Walk([]string{op.Name})
				if err != nil {
					c.Res = append(c.Res, vh19Res{Kind: "walk"})
					continue
				}
				if len(qs) != 1 {
					t.Fatalf("walk %q returned %d qids", op.Name, len(qs))
				}
				g, _, _, err := f.GetAttr(p9.AttrMask{Mode: true})
				if err != nil {
					t.Fatalf("getattr: %v", err)
				}
				c.Res = append(c.Res, vh19Res{Kind: "walk", OK: true, QW: vh19Q(qs[0]), QG: vh19Q(g)})
			}
		}
		out.Emit(c)
	}
}
