package composefs

// C20 harness, concurrent QID lookups of fresh and known paths through
// composefs / staticfs (Readdir, Walk, GetAttr from many goroutines).

import (
	"fmt"
	"sync"
	"testing"

	"github.com/hugelgupf/p9/fsimpl/staticfs"
	"github.com/hugelgupf/p9/p9"
)

func vh20Static(t *testing.T, names []string) p9.Attacher {
	var opts []staticfs.Option
	for _, n := range names {
		opts = append(opts, staticfs.WithFile(n, "content of "+n))
	}
	a, err := staticfs.New(opts...)
	if err != nil {
		t.Fatal(err)
	}
	return a
}

func TestVerifC20FsConc(t *testing.T) {
	out := vhfsOpen(t)
	defer out.Close()
	rounds := 8
	if vhfsThorough() {
		rounds = 60
	}
	for round := 0; round < rounds; round++ {
		var names, snames []string
		for i := 0; i < 24; i++ {
			snames = append(snames, fmt.Sprintf("s%02d", i))
		}
		var opts []Opt
		for i := 0; i < 24; i++ {
			n := fmt.Sprintf("f%02d", i)
			names = append(names, n)
			opts = append(opts, WithFile(n, staticfs.ReadOnlyFile("x")))
		}
		opts = append(opts, WithMount("st", vh20Static(t, snames)),
			WithDir("sub", WithMount("deep", vh20Static(t, snames)), WithFile("g", staticfs.ReadOnlyFile("g"))))
		fs, err := New(opts...)
		if err != nil {
			t.Fatal(err)
		}
		type ob struct {
			Name string `json:"name"`
			Path uint64 `json:"path"`
		}
		var mu sync.Mutex
		var all []ob
		// a few names are looked up before the concurrent phase ("known")
		root, _ := fs.Attach()
		for _, n := range names[:6] {
			qs, _, err := root.Walk([]string{n})
			if err != nil {
				t.Fatal(err)
			}
			all = append(all, ob{n, qs[0].Path})
		}
		var wg sync.WaitGroup
		start := make(chan struct{})
		bars := make([]sync.WaitGroup, len(names)+len(snames))
		for i := range bars {
			bars[i].Add(16)
		}
		for w := 0; w < 16; w++ {
			w := w
			wg.Add(1)
			go func() {
				defer wg.Done()
				<-start
				var local []ob
				root, _ := fs.Attach()
				list := func(prefix string, d p9.File) {
					ents, err := d.Readdir(0, 1000)
					if err != nil {
						t.Errorf("readdir: %v", err)
						return
					}
					for _, e := range ents {
						local = append(local, ob{prefix + e.Name, e.QID.Path})
					}
				}
				walk := func(prefix string, d p9.File, n string) p9.File {
					qs, f, err := d.Walk([]string{n})
					if err != nil || len(qs) != 1 {
						t.Errorf("walk %s: %v", n, err)
						return nil
					}
					local = append(local, ob{prefix + n, qs[0].Path})
					g, _, _, err := f.GetAttr(p9.AttrMask{Mode: true})
					if err != nil {
						t.Errorf("getattr %s: %v", n, err)
						return f
					}
					local = append(local, ob{prefix + n, g.Path})
					return f
				}
				// rendezvous: everybody walks to the same fresh name at the same moment
				for i, n := range names {
					bars[i].Done()
					bars[i].Wait()
					walk("", root, n)
				}
				if st := walk("", root, "st"); st != nil {
					for i, n := range snames {
						bars[len(names)+i].Done()
						bars[len(names)+i].Wait()
						walk("st/", st, n)
					}
				}
				switch w % 4 {
				case 0:
					list("", root)
					if st := walk("", root, "st"); st != nil {
						list("st/", st)
					}
				case 1:
					for i := range names {
						walk("", root, names[(i+w)%len(names)])
					}
				case 2:
					if sub := walk("", root, "sub"); sub != nil {
						list("sub/", sub)
						if deep := walk("sub/", sub, "deep"); deep != nil {
							list("sub/deep/", deep)
							for _, n := range snames {
								walk("sub/deep/", deep, n)
							}
						}
					}
				default:
					if st := walk("", root, "st"); st != nil {
						for i := range snames {
							walk("st/", st, snames[(i*5+w)%len(snames)])
						}
					}
					list("", root)
				}
				mu.Lock()
				all = append(all, local...)
				mu.Unlock()
			}()
		}
		close(start)
		wg.Wait()
		out.Emit(map[string]interface{}{"kind": "fsconc", "obs": all})
	}
}
