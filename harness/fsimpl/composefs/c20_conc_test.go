package composefs

// C20 harness, concurrent QID lookups of fresh and known paths through
// composefs / staticfs (Readdir, Walk, GetAttr from many goroutines).

import (
	"fmt"
	"runtime"
	"sync"
	"sync/atomic"
	"testing"
	"time"

	"github.com/hugelgupf/p9/fsimpl/staticfs"
	"github.com/hugelgupf/p9/p9"
)

func vh20Static(t *testing.T, names []string) p9.Attacher {
	var opts []staticfs.Option
	for _, n := range names {
		opts = append(opts, staticfs.WithFile(n, "content of "+n))
	}
	a, err := staticfs.New(opts...)
	if err != nil {
		t.Fatal(err)
	}
	return a
}

func TestVerifC20FsConc(t *testing.T) {
	out := vhfsOpen(t)
	defer out.Close()
	rounds := 8
	if vhfsThorough() {
		rounds = 60
	}
	for round := 0; round < rounds; round++ {
		var names, snames []string
		for i := 0; i < 24; i++ {
			snames = append(snames, fmt.Sprintf("s%02d", i))
		}
		var opts []Opt
		for i := 0; i < 24; i++ {
			n := fmt.Sprintf("f%02d", i)
			names = append(names, n)
			opts = append(opts, WithFile(n, staticfs.ReadOnlyFile("x")))
		}
		opts = append(opts, WithMount("st", vh20Static(t, snames)),
			WithDir("sub", WithMount("deep", vh20Static(t, snames)), WithFile("g", staticfs.ReadOnlyFile("g"))))
		fs, err := New(opts...)
		if err != nil {
			t.Fatal(err)
		}
		type ob struct {
			Name string `json:"name"`
			Path uint64 `json:"path"`
		}
		var mu sync.Mutex
		var all []ob
		// a few names are looked up before the concurrent phase ("known")
		root, _ := fs.Attach()
		for _, n := range names[:6] {
			qs, _, err := root.Walk([]string{n})
			if err != nil {
				t.Fatal(err)
			}
			all = append(all, ob{n, qs[0].Path})
		}
		var wg sync.WaitGroup
		start := make(chan struct{})
		bars := make([]sync.WaitGroup, len(names)+len(snames))
		for i := range bars {
			bars[i].Add(16)
		}
		for w := 0; w < 16; w++ {
			w := w
			wg.Add(1)
			go func() {
				defer wg.Done()
				<-start
				var local []ob
				root, _ := fs.Attach()
				list := func(prefix string, d p9.File) {
					ents, err := d.Readdir(0, 1000)
					if err != nil {
						t.Errorf("readdir: %v", err)
						return
					}
					for _, e := range ents {
						local = append(local, ob{prefix + e.Name, e.QID.Path})
					}
				}
				walk := func(prefix string, d p9.File, n string) p9.File {
					qs, f, err := d.Walk([]string{n})
					if err != nil || len(qs) != 1 {
						t.Errorf("walk %s: %v", n, err)
						return nil
					}
					local = append(local, ob{prefix + n, qs[0].Path})
					g, _, _, err := f.GetAttr(p9.AttrMask{Mode: true})
					if err != nil {
						t.Errorf("getattr %s: %v", n, err)
						return f
					}
					local = append(local, ob{prefix + n, g.Path})
					// the QID Open reports names the same file
					if oq, _, err := f.Open(p9.ReadOnly); err == nil {
						local = append(local, ob{prefix + n, oq.Path})
					}
					return f
				}
				// rendezvous: everybody walks to the same fresh name at the same moment
				for i, n := range names {
					bars[i].Done()
					bars[i].Wait()
					walk("", root, n)
				}
				if st := walk("", root, "st"); st != nil {
					for i, n := range snames {
						bars[len(names)+i].Done()
						bars[len(names)+i].Wait()
						walk("st/", st, n)
					}
				}
				switch w % 4 {
				case 0:
					list("", root)
					if st := walk("", root, "st"); st != nil {
						list("st/", st)
					}
				case 1:
					for i := range names {
						walk("", root, names[(i+w)%len(names)])
					}
				case 2:
					if sub := walk("", root, "sub"); sub != nil {
						list("sub/", sub)
						if deep := walk("sub/", sub, "deep"); deep != nil {
							list("sub/deep/", deep)
							for _, n := range snames {
								walk("sub/deep/", deep, n)
							}
						}
					}
				default:
					if st := walk("", root, "st"); st != nil {
						for i := range snames {
							walk("st/", st, snames[(i*5+w)%len(snames)])
						}
					}
					list("", root)
				}
				mu.Lock()
				all = append(all, local...)
				mu.Unlock()
			}()
		}
		close(start)
		wg.Wait()
		out.Emit(map[string]interface{}{"kind": "fsconc", "obs": all})
	}
	vh20Probe(t, out)
}

// vh20Gate is a mounted File whose GetAttr holds its callers until vh20N of them are
// inside and then lets them all go at once, each with the same QID path that was never
// seen before (one new path per group).  The callers therefore enter Mapper.QIDFor of
// the mount's wrapper together, for a fresh source path: the interleaving in which a
// check-then-act QIDFor hands out two paths for one file.
type vh20Gate struct {
	p9.File // nil: only the methods below are used
	n       int64
	arrived int64
	on      int32
}

func (g *vh20Gate) Walk(names []string) ([]p9.QID, p9.File, error) {
	if len(names) != 0 {
		return nil, nil, fmt.Errorf("gate: not a directory")
	}
	return nil, g, nil
}

func (g *vh20Gate) Close() error { return nil }

func (g *vh20Gate) GetAttr(req p9.AttrMask) (p9.QID, p9.AttrMask, p9.Attr, error) {
	if atomic.LoadInt32(&g.on) == 0 {
		return p9.QID{Type: p9.TypeRegular, Path: 1}, req, p9.Attr{Mode: p9.ModeRegular | 0o444}, nil
	}
	k := atomic.AddInt64(&g.arrived, 1) - 1
	group := k / g.n
	target := (group + 1) * g.n
	deadline := time.Now().Add(2 * time.Second)
	for i := 0; atomic.LoadInt64(&g.arrived) < target; i++ {
		if i%1024 == 1023 {
			runtime.Gosched()
			if time.Now().After(deadline) {
				break
			}
		}
	}
	// Size tells the caller which group (= which source path) this call belonged to
	return p9.QID{Type: p9.TypeRegular, Path: 1000 + uint64(group)}, req, p9.Attr{Mode: p9.ModeRegular | 0o444, Size: uint64(group)}, nil
}

func vh20Probe(t *testing.T, out *vhfsOut) {
	workers := runtime.GOMAXPROCS(0)
	if workers > 8 {
		workers = 8
	}
	if workers < 2 {
		workers = 2
	}
	rounds := 3000
	if vhfsThorough() {
		rounds = 30000
	}
	gate := &vh20Gate{n: int64(workers)}
	fs, err := New(WithFile("gate", gate), WithFile("plain", staticfs.ReadOnlyFile("p")))
	if err != nil {
		t.Fatal(err)
	}
	root, _ := fs.Attach()
	_, wrapped, err := root.Walk([]string{"gate"}) // the mount's qid wrapper around the gate
	if err != nil {
		t.Fatal(err)
	}
	atomic.StoreInt32(&gate.on, 1)
	type pr struct{ group, path uint64 }
	res := make([][]pr, workers)
	var wg sync.WaitGroup
	limit := 6 * time.Second
	if vhfsThorough() {
		limit = 20 * time.Second
	}
	stop := time.Now().Add(limit)
	for w := 0; w < workers; w++ {
		w := w
		res[w] = make([]pr, 0, rounds)
		wg.Add(1)
		go func() {
			defer wg.Done()
			for r := 0; r < rounds && time.Now().Before(stop); r++ {
				q, _, attr, err := wrapped.GetAttr(p9.AttrMask{Mode: true, Size: true})
				if err != nil {
					t.Errorf("probe getattr: %v", err)
					return
				}
				res[w] = append(res[w], pr{attr.Size, q.Path})
			}
		}()
	}
	wg.Wait()
	atomic.StoreInt32(&gate.on, 0)
	// Every result is keyed by the group the gate put the call in (reported in Attr.Size), so a worker
	// that left a gate on its deadline cannot be confused with another group.  Report the first groups
	// and every group with a disagreement.
	type ob struct {
		Name string `json:"name"`
		Path uint64 `json:"path"`
	}
	byGroup := map[uint64][]uint64{}
	var order []uint64
	for _, x := range res {
		for _, e := range x {
			if _, ok := byGroup[e.group]; !ok {
				order = append(order, e.group)
			}
			byGroup[e.group] = append(byGroup[e.group], e.path)
		}
	}
	n := len(order)
	var all []ob
	bad := 0
	for i, g := range order {
		differ := false
		for _, p := range byGroup[g] {
			if p != byGroup[g][0] {
				differ = true
			}
		}
		if differ {
			bad++
		}
		if i < 40 || (differ && bad <= 20) {
			for _, p := range byGroup[g] {
				all = append(all, ob{fmt.Sprintf("gate#%d", g), p})
			}
		}
	}
	out.Emit(map[string]interface{}{"kind": "fsconc", "obs": all, "probe_rounds": n, "probe_workers": workers, "probe_disagreements": bad})
}
