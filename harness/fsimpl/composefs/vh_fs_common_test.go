package composefs

// Helpers of the /verif correspondence harness for this package (a copy of the
// small part of harness/p9/vh_common_test.go that is needed here).

import (
	"bufio"
	"encoding/json"
	"math/rand"
	"os"
	"strconv"
	"sync"
	"testing"
)

type vhfsOut struct {
	mu sync.Mutex
	f  *os.File
	w  *bufio.Writer
}

func vhfsOpen(t testing.TB) *vhfsOut {
	p := os.Getenv("VERIF_OUT")
	if p == "" {
		t.Skip("VERIF_OUT not set: not running under /verif/check")
	}
	f, err := os.OpenFile(p, os.O_CREATE|os.O_WRONLY|os.O_APPEND, 0o644)
	if err != nil {
		t.Fatal(err)
	}
	return &vhfsOut{f: f, w: bufio.NewWriterSize(f, 1<<20)}
}

func (o *vhfsOut) Emit(v interface{}) {
	b, err := json.Marshal(v)
	if err != nil {
		panic(err)
	}
	o.mu.Lock()
	o.w.Write(b)
	o.w.WriteByte('\n')
	o.mu.Unlock()
}

func (o *vhfsOut) Close() {
	o.mu.Lock()
	o.w.Flush()
	o.f.Close()
	o.mu.Unlock()
}

func vhfsSeed() int64 {
	s, err := strconv.ParseInt(os.Getenv("VERIF_SEED"), 10, 64)
	if err != nil {
		return 1
	}
	return s
}

func vhfsRand() *rand.Rand { return rand.New(rand.NewSource(vhfsSeed())) }

func vhfsThorough() bool { return os.Getenv("VERIF_TIER") == "thorough" }

func vhfsBytes(s string) []int {
	out := make([]int, len(s))
	for i := 0; i < len(s); i++ {
		out[i] = int(s[i])
	}
	return out
}

// vhfsName renders a name as a JSON string when it is printable ASCII, else as a list of byte values.
func vhfsName(s string) interface{} {
	for i := 0; i < len(s); i++ {
		if s[i] < 32 || s[i] > 126 || s[i] == '"' || s[i] == '\\' {
			return vhfsBytes(s)
		}
	}
	return s
}
