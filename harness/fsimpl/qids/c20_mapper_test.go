package qids

// C20 harness, qids.Mapper: several Mappers on one PathGenerator, a sequential
// history of QIDFor calls and then concurrent calls for known and fresh paths.

import (
	"math/rand"
	"sync"
	"testing"

	"github.com/hugelgupf/p9/p9"
)

func TestVerifC20Mapper(t *testing.T) {
	out := vhfsOpen(t)
	defer out.Close()
	r := vhfsRand()
	rounds := 12
	if vhfsThorough() {
		rounds = 40
	}
	for round := 0; round < rounds; round++ {
		g := &PathGenerator{}
		nm := 1 + r.Intn(5)
		ms := make([]*Mapper, nm)
		for i := range ms {
			ms[i] = NewMapper(g)
		}
		srcs := []uint64{0, 1, 2, 3, 1 << 39, 1 << 63, 1<<64 - 1}
		for i := 0; i < 10; i++ {
			srcs = append(srcs, r.Uint64()>>uint(r.Intn(64)))
		}
		var hist [][3]uint64
		for i := 0; i < 60; i++ {
			m := r.Intn(nm)
			s := srcs[r.Intn(len(srcs))]
			q := ms[m].QIDFor(p9.QID{Type: p9.TypeDir, Version: 7, Path: s})
			if q.Type != p9.TypeDir || q.Version != 7 {
				t.Fatalf("QIDFor changed type/version: %v", q)
			}
			hist = append(hist, [3]uint64{uint64(m), s, q.Path})
		}
		out.Emit(map[string]interface{}{"kind": "mapseq", "h": hist})
		for i := 0; i < 40; i++ {
			srcs = append(srcs, 1000+uint64(i))
		}
		var mu sync.Mutex
		var conc [][3]uint64
		var wg sync.WaitGroup
		start := make(chan struct{})
		const workers = 16
		// rendezvous: all workers ask for the same fresh (Mapper, path) at the same moment
		type fk struct {
			m int
			s uint64
		}
		var fresh []fk
		for i := 0; i < 48; i++ {
			fresh = append(fresh, fk{r.Intn(nm), 5000 + uint64(round*100+i)})
		}
		bars := make([]sync.WaitGroup, len(fresh))
		for i := range bars {
			bars[i].Add(workers)
		}
		for w := 0; w < workers; w++ {
			wr := rand.New(rand.NewSource(vhfsSeed()*7919 + int64(round*100+w)))
			wi := w
			wg.Add(1)
			go func() {
				defer wg.Done()
				<-start
				local := make([][3]uint64, 0, 100)
				for i, k := range fresh {
					bars[i].Done()
					bars[i].Wait()
					local = append(local, [3]uint64{uint64(k.m), k.s, ms[k.m].QIDFor(p9.QID{Path: k.s}).Path})
				}
				// every worker on ITS OWN Mapper (when there are several), all allocating fresh paths at the same moment:
				// the Mappers' mutexes do not order these calls, only the shared PathGenerator does
				for i := 0; i < 60 && nm > 1; i++ {
					m := wi % nm
					s := 1000000 + uint64(wi)*1000 + uint64(i)
					local = append(local, [3]uint64{uint64(m), s, ms[m].QIDFor(p9.QID{Path: s}).Path})
				}
				for i := 0; i < 50; i++ {
					m := wr.Intn(nm)
					s := srcs[wr.Intn(len(srcs))]
					local = append(local, [3]uint64{uint64(m), s, ms[m].QIDFor(p9.QID{Path: s}).Path})
				}
				mu.Lock()
				conc = append(conc, local...)
				mu.Unlock()
			}()
		}
		close(start)
		wg.Wait()
		out.Emit(map[string]interface{}{"kind": "mapconc", "h": hist, "c": conc})
	}
}
