package qids

// C16: qids.Mapper is shared by every File of a server: concurrent QIDFor calls must neither
// abort ("concurrent map writes") nor give two results for one path / one result for two.

import (
	"encoding/json"
	"os"
	"sync"
	"testing"

	"github.com/hugelgupf/p9/p9"
)

func TestVerifC16Mapper(t *testing.T) {
	outp := os.Getenv("VERIF_OUT")
	if outp == "" {
		t.Skip("VERIF_OUT not set")
	}
	m := NewMapper(&PathGenerator{})
	const workers, keys, rounds = 16, 64, 400
	res := make([][keys]uint64, workers)
	var wg sync.WaitGroup
	for w := 0; w < workers; w++ {
		wg.Add(1)
		go func(w int) {
			defer wg.Done()
			for r := 0; r < rounds; r++ {
				for k := 0; k < keys; k++ {
					q := m.QIDFor(p9.QID{Path: uint64(1000 + (k+w+r)%keys)})
					res[w][(k+w+r)%keys] = q.Path
				}
			}
		}(w)
	}
	wg.Wait()
	consistent := true
	seen := map[uint64]int{}
	for k := 0; k < keys; k++ {
		for w := 1; w < workers; w++ {
			if res[w][k] != res[0][k] {
				consistent = false
			}
		}
		if o, ok := seen[res[0][k]]; ok && o != k {
			consistent = false
		}
		seen[res[0][k]] = k
	}
	f, err := os.OpenFile(outp, os.O_CREATE|os.O_WRONLY|os.O_APPEND, 0o644)
	if err != nil {
		t.Fatal(err)
	}
	defer f.Close()
	b, _ := json.Marshal(map[string]interface{}{"kind": "mapper", "consistent": consistent, "workers": workers, "keys": keys})
	f.Write(append(b, '\n'))
}
