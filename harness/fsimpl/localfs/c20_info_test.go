package localfs

// C20 harness, Local.info at its use sites: QID type and path of real files of every
// kind that can be made without privileges (regular, directory, symlink, named pipe,
// unix socket, setuid/setgid/sticky variants) and of existing character and block
// devices under /dev, through info() directly, through Walk, GetAttr, Readdir and
// after Open (info on the opened file).

import (
	"net"
	"os"
	"path/filepath"
	"sort"
	"syscall"
	"testing"

	"github.com/hugelgupf/p9/p9"
)

type vh20InfoRow struct {
	Name   string    `json:"name"`
	StMode uint32    `json:"stmode"` // raw st_mode of lstat
	OsMode uint32    `json:"osmode"` // os.FileInfo.Mode() of lstat
	Attr   uint32    `json:"attrmode"`
	Dev    uint64    `json:"dev"`
	Ino    uint64    `json:"ino"`
	Types  [5]uint64 `json:"types"` // info, walk, getattr, readdir, info-after-open (999 = not applicable)
	Paths  [5]uint64 `json:"paths"`
}

const vh20NA = 999

func vh20InfoDir(t *testing.T, dir string, names []string, listable bool, out *vhfsOut) {
	root, err := Attacher(dir).Attach()
	if err != nil {
		t.Fatal(err)
	}
	listed := map[string]p9.Dirent{}
	if listable {
		_, d, _ := root.Walk(nil)
		if _, _, err := d.Open(p9.ReadOnly); err != nil {
			t.Fatal(err)
		}
		var off uint64
		for {
			ents, err := d.Readdir(off, 64)
			if err != nil {
				t.Fatal(err)
			}
			if len(ents) == 0 {
				break
			}
			for _, e := range ents {
				listed[e.Name] = e
			}
			off = ents[len(ents)-1].Offset
		}
		d.Close()
	}
	var rows []vh20InfoRow
	for _, n := range names {
		p := filepath.Join(dir, n)
		fi, err := os.Lstat(p)
		if err != nil {
			continue // not present on this host
		}
		st := fi.Sys().(*syscall.Stat_t)
		row := vh20InfoRow{Name: n, StMode: st.Mode, OsMode: uint32(fi.Mode()), Dev: uint64(st.Dev), Ino: st.Ino}
		for i := range row.Types {
			row.Types[i], row.Paths[i] = vh20NA, vh20NA
		}
		q, _, err := (&Local{path: p}).info()
		if err != nil {
			t.Fatalf("info %s: %v", p, err)
		}
		row.Types[0], row.Paths[0] = uint64(q.Type), q.Path
		qs, f, err := root.Walk([]string{n})
		if err != nil || len(qs) != 1 {
			t.Fatalf("walk %s: %v", n, err)
		}
		row.Types[1], row.Paths[1] = uint64(qs[0].Type), qs[0].Path
		g, _, attr, err := f.GetAttr(p9.AttrMask{Mode: true})
		if err != nil {
			t.Fatalf("getattr %s: %v", n, err)
		}
		row.Types[2], row.Paths[2] = uint64(g.Type), g.Path
		row.Attr = uint32(attr.Mode)
		if e, ok := listed[n]; ok {
			if e.Type != e.QID.Type {
				row.Types[3] = 1000 + uint64(e.Type) // Dirent.Type differs from its QID's type: never equal to a QID type
			} else {
				row.Types[3] = uint64(e.QID.Type)
			}
			row.Paths[3] = e.QID.Path
		}
		// info() on an opened file uses file.Stat() instead of Lstat(path): regular files and directories only
		if fi.Mode().IsRegular() || fi.IsDir() {
			if oq, _, err := f.Open(p9.ReadOnly); err == nil {
				row.Types[4], row.Paths[4] = uint64(oq.Type), oq.Path
				g2, _, _, err := f.GetAttr(p9.AttrMask{Mode: true})
				if err == nil && (g2.Type != oq.Type || g2.Path != oq.Path) {
					row.Types[4] = 2000
				}
			}
		}
		f.Close()
		rows = append(rows, row)
	}
	out.Emit(map[string]interface{}{"kind": "info", "dir": dir, "rows": rows})
}

func TestVerifC20Info(t *testing.T) {
	out := vhfsOpen(t)
	defer out.Close()
	dir := t.TempDir()
	mk := func(n string, f func(p string) error) string {
		if err := f(filepath.Join(dir, n)); err != nil {
			t.Fatalf("create %s: %v", n, err)
		}
		return n
	}
	var names []string
	names = append(names, mk("reg", func(p string) error { return os.WriteFile(p, []byte("x"), 0o644) }))
	names = append(names, mk("reg0", func(p string) error { return os.WriteFile(p, nil, 0) }))
	names = append(names, mk("dir", func(p string) error { return os.Mkdir(p, 0o755) }))
	names = append(names, mk("sym", func(p string) error { return os.Symlink("reg", p) }))
	names = append(names, mk("symdir", func(p string) error { return os.Symlink("dir", p) }))
	names = append(names, mk("dangling", func(p string) error { return os.Symlink("nowhere", p) }))
	names = append(names, mk("fifo", func(p string) error { return syscall.Mkfifo(p, 0o640) }))
	names = append(names, mk("sock", func(p string) error {
		ln, err := net.Listen("unix", p)
		if err != nil {
			return err
		}
		if ul, ok := ln.(*net.UnixListener); ok {
			ul.SetUnlinkOnClose(false)
		}
		return ln.Close()
	}))
	for i, m := range []os.FileMode{0o755 | os.ModeSetuid, 0o750 | os.ModeSetgid, 0o777 | os.ModeSticky, 0o7777&^0o7000 | os.ModeSetuid | os.ModeSetgid | os.ModeSticky} {
		m := m
		names = append(names, mk("bits"+string(rune('a'+i)), func(p string) error {
			if err := os.WriteFile(p, nil, 0o600); err != nil {
				return err
			}
			return os.Chmod(p, m)
		}))
		names = append(names, mk("dbits"+string(rune('a'+i)), func(p string) error {
			if err := os.Mkdir(p, 0o700); err != nil {
				return err
			}
			return os.Chmod(p, m)
		}))
	}
	sort.Strings(names)
	vh20InfoDir(t, dir, names, true, out)
	// existing devices: stat only (never opened); /dev is not listed (it may change under us)
	vh20InfoDir(t, "/dev", []string{"null", "zero", "full", "random", "urandom", "tty", "console", "loop0", "loop1", "sda", "vda", "nvme0n1", "shm", "stdin", "fd", "pts"}, false, out)
}
