package localfs

// C20 harness, localfs QID paths: the real encodeLikely and localToQid on chosen
// (dev, ino) pairs (fake os.FileInfo carrying a syscall.Stat_t), sequentially
// with repeats and from concurrent goroutines.

import (
	"math/rand"
	"os"
	"sync"
	"syscall"
	"testing"
	"time"

	"golang.org/x/sys/unix"
)

type vh20FI struct{ st *syscall.Stat_t }

func (vh20FI) Name() string       { return "x" }
func (vh20FI) Size() int64        { return 0 }
func (vh20FI) Mode() os.FileMode  { return 0o644 }
func (vh20FI) ModTime() time.Time { return time.Time{} }
func (vh20FI) IsDir() bool        { return false }
func (f vh20FI) Sys() interface{} { return f.st }

type vh20Pair struct{ Dev, Ino uint64 }

func vh20Look(t testing.TB, p vh20Pair) uint64 {
	q, err := localToQid("ignored", vh20FI{&syscall.Stat_t{Dev: p.Dev, Ino: p.Ino}})
	if err != nil {
		t.Fatalf("localToQid: %v", err)
	}
	return q
}

func vh20Pairs(r *rand.Rand, n int) []vh20Pair {
	majors := []uint32{0, 1, 2, 8, 0x400, 0x7ff, 0x800, 0xffe, 0xfff, 0x1000, 0x1001, 0xfffff, 0x100000, 0xffffffff}
	minors := []uint32{0, 1, 2, 0xff, 0x100, 0x400, 0x7ff, 0x800, 0xffe, 0xfff, 0x1000, 0x1001, 0xfffff, 0x100000, 0xffffffff}
	inos := []uint64{0, 1, 2, 1<<39 - 1, 1 << 39, 1<<39 + 1, 1 << 40, 1<<63 - 1, 1 << 63, 1<<64 - 1, 12345678}
	var devs []uint64
	for _, ma := range majors {
		for _, mi := range minors {
			devs = append(devs, unix.Mkdev(ma, mi))
		}
	}
	devs = append(devs, 1<<32, 1<<32|0x801, 1<<44, 1<<63, 1<<64-1, 0xffffffff, 0xfffff, 0x100000, 0xffffff, 0x1000000)
	var out []vh20Pair
	for i, d := range devs {
		if i < len(majors)*len(minors) {
			out = append(out, vh20Pair{d, 1}) // every major x minor combination with one inode: collisions show in the history
		}
		out = append(out, vh20Pair{d, inos[i%len(inos)]}, vh20Pair{d, inos[(i*7+3)%len(inos)]})
	}
	for _, i := range inos {
		out = append(out, vh20Pair{0x801, i}, vh20Pair{unix.Mkdev(0xfff, 0xfff), i}, vh20Pair{unix.Mkdev(0x1000, 0), i})
	}
	for len(out) < n {
		var d, i uint64
		switch r.Intn(4) {
		case 0:
			d = r.Uint64() >> uint(r.Intn(64))
		case 1:
			d = unix.Mkdev(uint32(r.Intn(1<<13)), uint32(r.Intn(1<<13)))
		case 2:
			d = uint64(r.Uint32()) & 0xffffff
		default:
			d = devs[r.Intn(len(devs))]
		}
		if r.Intn(3) == 0 {
			i = inos[r.Intn(len(inos))]
		} else {
			i = r.Uint64() >> uint(r.Intn(64))
		}
		out = append(out, vh20Pair{d, i})
	}
	return out
}

func TestVerifC20Local(t *testing.T) {
	out := vhfsOpen(t)
	defer out.Close()
	r := vhfsRand()
	n := 520
	if vhfsThorough() {
		n = 5000
	}
	pairs := vh20Pairs(r, n)
	for _, p := range pairs {
		q, ok := encodeLikely(p.Dev, p.Ino)
		out.Emit(map[string]interface{}{"kind": "enc", "dev": p.Dev, "ino": p.Ino, "ok": ok, "q": q})
	}
	// sequential history from process start, with repeats
	var hist [][3]uint64
	look := func(p vh20Pair) {
		hist = append(hist, [3]uint64{p.Dev, p.Ino, vh20Look(t, p)})
	}
	for i, p := range pairs {
		look(p)
		if i%3 == 0 {
			look(pairs[r.Intn(i+1)])
		}
		if i%5 == 0 {
			look(p)
		}
	}
	out.Emit(map[string]interface{}{"kind": "hist", "h": hist})
	// concurrent lookups of known and fresh pairs
	fresh := make([]vh20Pair, 0, 64)
	for i := 0; i < 64; i++ {
		fresh = append(fresh, vh20Pair{1<<32 | uint64(r.Intn(1<<20)), uint64(i) + 1<<50})
	}
	workers := 16
	per := 40
	if vhfsThorough() {
		per = 400
	}
	var mu sync.Mutex
	var conc [][3]uint64
	var wg sync.WaitGroup
	start := make(chan struct{})
	bars := make([]sync.WaitGroup, len(fresh))
	for i := range bars {
		bars[i].Add(workers)
	}
	for w := 0; w < workers; w++ {
		wr := rand.New(rand.NewSource(vhfsSeed()*1000 + int64(w)))
		wg.Add(1)
		go func() {
			defer wg.Done()
			<-start
			local := make([][3]uint64, 0, per+len(fresh))
			// rendezvous: all workers look the same fresh pair up at the same moment
			for i, p := range fresh {
				bars[i].Done()
				bars[i].Wait()
				local = append(local, [3]uint64{p.Dev, p.Ino, vh20Look(t, p)})
			}
			for i := 0; i < per; i++ {
				var p vh20Pair
				if wr.Intn(2) == 0 {
					p = fresh[wr.Intn(len(fresh))]
				} else {
					p = pairs[wr.Intn(len(pairs))]
				}
				local = append(local, [3]uint64{p.Dev, p.Ino, vh20Look(t, p)})
			}
			mu.Lock()
			conc = append(conc, local...)
			mu.Unlock()
		}()
	}
	close(start)
	wg.Wait()
	out.Emit(map[string]interface{}{"kind": "conc", "h": hist, "c": conc})
}
