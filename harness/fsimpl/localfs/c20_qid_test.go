package localfs

// C20 harness, localfs QID paths: the real encodeLikely and localToQid on chosen
// (dev, ino) pairs (fake os.FileInfo carrying a syscall.Stat_t), sequentially
// with repeats and from concurrent goroutines.

import (
	"math/rand"
	"os"
	"runtime"
	"sync"
	"sync/atomic"
	"syscall"
	"testing"
	"time"

	"golang.org/x/sys/unix"
)

type vh20FI struct{ st *syscall.Stat_t }

func (vh20FI) Name() string       { return "x" }
func (vh20FI) Size() int64        { return 0 }
func (vh20FI) Mode() os.FileMode  { return 0o644 }
func (vh20FI) ModTime() time.Time { return time.Time{} }
func (vh20FI) IsDir() bool        { return false }
func (f vh20FI) Sys() interface{} { return f.st }

type vh20Pair struct{ Dev, Ino uint64 }

func vh20Look(t testing.TB, p vh20Pair) uint64 {
	q, err := localToQid("ignored", vh20FI{&syscall.Stat_t{Dev: p.Dev, Ino: p.Ino}})
	if err != nil {
		t.Fatalf("localToQid: %v", err)
	}
	return q
}

func vh20Pairs(r *rand.Rand, n int) []vh20Pair {
	majors := []uint32{0, 1, 2, 8, 0x400, 0x7ff, 0x800, 0xffe, 0xfff, 0x1000, 0x1001, 0xfffff, 0x100000, 0xffffffff}
	minors := []uint32{0, 1, 2, 0xff, 0x100, 0x400, 0x7ff, 0x800, 0xffe, 0xfff, 0x1000, 0x1001, 0xfffff, 0x100000, 0xffffffff}
	inos := []uint64{0, 1, 2, 1<<39 - 1, 1 << 39, 1<<39 + 1, 1 << 40, 1<<63 - 1, 1 << 63, 1<<64 - 1, 12345678}
	var devs []uint64
	for _, ma := range majors {
		for _, mi := range minors {
			devs = append(devs, unix.Mkdev(ma, mi))
		}
	}
	devs = append(devs, 1<<32, 1<<32|0x801, 1<<44, 1<<63, 1<<64-1, 0xffffffff, 0xfffff, 0x100000, 0xffffff, 0x1000000)
	var out []vh20Pair
	for i, d := range devs {
		if i < len(majors)*len(minors) {
			out = append(out, vh20Pair{d, 1}) // every major x minor combination with one inode: collisions show in the history
		}
		out = append(out, vh20Pair{d, inos[i%len(inos)]}, vh20Pair{d, inos[(i*7+3)%len(inos)]})
	}
	for _, i := range inos {
		out = append(out, vh20Pair{0x801, i}, vh20Pair{unix.Mkdev(0xfff, 0xfff), i}, vh20Pair{unix.Mkdev(0x1000, 0), i})
	}
	for len(out) < n {
		var d, i uint64
		switch r.Intn(4) {
		case 0:
			d = r.Uint64() >> uint(r.Intn(64))
		case 1:
			d = unix.Mkdev(uint32(r.Intn(1<<13)), uint32(r.Intn(1<<13)))
		case 2:
			d = uint64(r.Uint32()) & 0xffffff
		default:
			d = devs[r.Intn(len(devs))]
		}
		if r.Intn(3) == 0 {
			i = inos[r.Intn(len(inos))]
		} else {
			i = r.Uint64() >> uint(r.Intn(64))
		}
		out = append(out, vh20Pair{d, i})
	}
	return out
}

func TestVerifC20Local(t *testing.T) {
	out := vhfsOpen(t)
	defer out.Close()
	r := vhfsRand()
	n := 520
	if vhfsThorough() {
		n = 5000
	}
	pairs := vh20Pairs(r, n)
	for _, p := range pairs {
		q, ok := encodeLikely(p.Dev, p.Ino)
		out.Emit(map[string]interface{}{"kind": "enc", "dev": p.Dev, "ino": p.Ino, "ok": ok, "q": q})
	}
	// sequential history from process start, with repeats
	var hist [][3]uint64
	look := func(p vh20Pair) {
		hist = append(hist, [3]uint64{p.Dev, p.Ino, vh20Look(t, p)})
	}
	for i, p := range pairs {
		look(p)
		if i%3 == 0 {
			look(pairs[r.Intn(i+1)])
		}
		if i%5 == 0 {
			look(p)
		}
	}
	out.Emit(map[string]interface{}{"kind": "hist", "h": hist})
	// concurrent lookups of known and fresh pairs
	fresh := make([]vh20Pair, 0, 64)
	for i := 0; i < 64; i++ {
		fresh = append(fresh, vh20Pair{1<<32 | uint64(r.Intn(1<<20)), uint64(i) + 1<<50})
	}
	workers := 16
	per := 40
	if vhfsThorough() {
		per = 400
	}
	var mu sync.Mutex
	var conc [][3]uint64
	var wg sync.WaitGroup
	start := make(chan struct{})
	bars := make([]sync.WaitGroup, len(fresh))
	for i := range bars {
		bars[i].Add(workers)
	}
	for w := 0; w < workers; w++ {
		wr := rand.New(rand.NewSource(vhfsSeed()*1000 + int64(w)))
		wg.Add(1)
		go func() {
			defer wg.Done()
			<-start
			local := make([][3]uint64, 0, per+len(fresh))
			// rendezvous: all workers look the same fresh pair up at the same moment
			for i, p := range fresh {
				bars[i].Done()
				bars[i].Wait()
				local = append(local, [3]uint64{p.Dev, p.Ino, vh20Look(t, p)})
			}
			for i := 0; i < per; i++ {
				var p vh20Pair
				if wr.Intn(2) == 0 {
					p = fresh[wr.Intn(len(fresh))]
				} else {
					p = pairs[wr.Intn(len(pairs))]
				}
				local = append(local, [3]uint64{p.Dev, p.Ino, vh20Look(t, p)})
			}
			mu.Lock()
			conc = append(conc, local...)
			mu.Unlock()
		}()
	}
	close(start)
	wg.Wait()
	out.Emit(map[string]interface{}{"kind": "conc", "h": hist, "c": conc})
	vh20FirstLookups(t, out, hist)
}

// vh20FirstLookups aims at the window between "looked the pair up: not there" and "stored a path for it": several
// goroutines leave a spin barrier together (all on a CPU, no scheduler hand-off as with a WaitGroup) and make the FIRST
// lookup of one fresh unlikely pair; one more lookup follows when they are done.  Every round uses a new pair.  All
// results of a round must be one path (check-then-act without a second look hands out two).  Emitted as one "conc"
// observation (prefix: the sequential history of this process): identical results of a round are recorded once.
func vh20FirstLookups(t *testing.T, out *vhfsOut, hist [][3]uint64) {
	rounds, budget := 3000, 6*time.Second
	if vhfsThorough() {
		rounds, budget = 40000, 40*time.Second
	}
	workers := runtime.GOMAXPROCS(0)
	if workers > 4 {
		workers = 4
	}
	if workers < 2 {
		workers = 2
	}
	deadline := time.Now().Add(budget)
	var conc [][3]uint64
	for rd := 0; rd < rounds && time.Now().Before(deadline); rd++ {
		p := vh20Pair{0x803, 1<<52 + 0x4d340000 + uint64(rd)}
		var ready, release int32
		var wg sync.WaitGroup
		got := make([]uint64, workers)
		for w := 0; w < workers; w++ {
			wg.Add(1)
			go func(w int) {
				defer wg.Done()
				fi := vh20FI{&syscall.Stat_t{Dev: p.Dev, Ino: p.Ino}}
				atomic.AddInt32(&ready, 1)
				for i := 0; atomic.LoadInt32(&release) == 0; i++ {
					if i%1024 == 1023 {
						runtime.Gosched()
					}
				}
				q, err := localToQid("ignored", fi)
				if err != nil {
					t.Errorf("localToQid: %v", err)
				}
				got[w] = q
			}(w)
		}
		for atomic.LoadInt32(&ready) != int32(workers) {
			runtime.Gosched()
		}
		atomic.StoreInt32(&release, 1)
		wg.Wait()
		got = append(got, vh20Look(t, p))
		seen := map[uint64]bool{}
		for _, q := range got {
			if !seen[q] {
				seen[q] = true
				conc = append(conc, [3]uint64{p.Dev, p.Ino, q})
			}
		}
	}
	out.Emit(map[string]interface{}{"kind": "conc", "h": hist, "c": conc, "first_lookup_rounds": true})
}
