package localfs

// C19 harness, localfs: paged listings of real temporary directories through
// Local.Readdir directly and through a real client and server, with the QIDs
// Walk and GetAttr report for every name.

import (
	"fmt"
	"math/rand"
	"net"
	"os"
	"path/filepath"
	"runtime"
	"syscall"
	"testing"

	"github.com/hugelgupf/p9/p9"
)

type vh19Ent struct {
	Name interface{} `json:"name"`
	Off  uint64      `json:"off"`
	QID  [3]uint64   `json:"qid"`
	Type uint8       `json:"type"`
}

type vh19Pages struct {
	Kind   string        `json:"kind"`
	FS     int           `json:"fs"`
	Remote bool          `json:"remote"`
	MSize  uint32        `json:"msize"`
	Count  uint32        `json:"count"`
	Names  []interface{} `json:"names"`
	WalkQ  [][3]uint64   `json:"walkq"`
	GetQ   [][3]uint64   `json:"getq"`
	Pages  [][]vh19Ent   `json:"pages"`
	Hit    bool          `json:"hit"`
	Err    string        `json:"err,omitempty"`
}

func vh19Q(q p9.QID) [3]uint64 { return [3]uint64{uint64(q.Type), uint64(q.Version), q.Path} }

// vh19Name: 1..max bytes; mostly printable ASCII, now and then arbitrary bytes (never '/' or NUL).
func vh19Name(r *rand.Rand, i int, max int) string {
	n := 1 + r.Intn(max)
	switch r.Intn(6) {
	case 0:
		n = 1 + r.Intn(3)
	case 1:
		n = max
	}
	b := make([]byte, n)
	const alpha = "abcdefghijklmnopqrstuvwxyzABCDEFGHIJKLMNOPQRSTUVWXYZ0123456789-_.,+=@ "
	raw := r.Intn(10) == 0
	for j := range b {
		if raw {
			c := byte(1 + r.Intn(255))
			if c == '/' {
				c = '_'
			}
			b[j] = c
		} else {
			b[j] = alpha[r.Intn(len(alpha))]
		}
	}
	// unique: the index leads the name; one-byte names come from a separate pool
	tag := fmt.Sprintf("%x~", i)
	if n == 1 && i < 20 {
		return string(rune('A' + i))
	}
	if len(tag) > n {
		n = len(tag)
		b = append(b, make([]byte, n)...)[:n]
	}
	copy(b, tag)
	s := string(b)
	return s
}

// vh19List pages through f (an opened directory) until an empty page.
func vh19List(f p9.File, count uint32, maxPages int) (pages [][]vh19Ent, hit bool, err error) {
	var off uint64
	for {
		if len(pages) >= maxPages {
			return pages, true, nil
		}
		ents, e := f.Readdir(off, count)
		if e != nil {
			return pages, false, e
		}
		if len(ents) == 0 {
			return pages, false, nil
		}
		pg := make([]vh19Ent, len(ents))
		for i, d := range ents {
			pg[i] = vh19Ent{Name: vhfsName(d.Name), Off: d.Offset, QID: vh19Q(d.QID), Type: uint8(d.Type)}
		}
		pages = append(pages, pg)
		off = ents[len(ents)-1].Offset
	}
}

func vh19MkDir(t *testing.T, r *rand.Rand, n int, maxName int) string {
	dir := t.TempDir()
	for i := 0; i < n; i++ {
		p := filepath.Join(dir, vh19Name(r, i, maxName))
		var err error
		switch r.Intn(14) {
		case 0:
			err = os.Mkdir(p, 0o755)
		case 1:
			err = os.Symlink("target", p)
		case 2: // named pipe
			err = syscall.Mkfifo(p, 0o640)
		case 3: // unix socket (bound, never accepted on); the path must fit sockaddr_un
			if len(p) < 100 {
				var ln net.Listener
				ln, err = net.Listen("unix", p)
				if err == nil {
					if ul, ok := ln.(*net.UnixListener); ok {
						ul.SetUnlinkOnClose(false)
					}
					ln.Close()
				}
			} else {
				err = syscall.Mkfifo(p, 0o600)
			}
		case 4: // setuid / setgid / sticky bits
			err = os.WriteFile(p, nil, 0o644)
			if err == nil {
				err = os.Chmod(p, []os.FileMode{0o755 | os.ModeSetuid, 0o750 | os.ModeSetgid, 0o777 | os.ModeSticky}[r.Intn(3)])
			}
		default:
			err = os.WriteFile(p, nil, 0o644)
		}
		if err != nil {
			t.Fatalf("create %q: %v", p, err)
		}
	}
	return dir
}

// vh19HostOrder: the names in the order the host returns them for one full read.
func vh19HostOrder(t *testing.T, dir string) []string {
	f, err := os.Open(dir)
	if err != nil {
		t.Fatal(err)
	}
	defer f.Close()
	names, err := f.Readdirnames(-1)
	if err != nil {
		t.Fatal(err)
	}
	return names
}

func vh19Remote(t *testing.T, a p9.Attacher, msize uint32) (p9.File, func()) {
	sc, cc := net.Pipe()
	srv := p9.NewServer(a)
	done := make(chan struct{})
	go func() { srv.Handle(sc, sc); close(done) }()
	c, err := p9.NewClient(cc, p9.WithMessageSize(msize))
	if err != nil {
		t.Fatalf("NewClient(msize=%d): %v", msize, err)
	}
	root, err := c.Attach("")
	if err != nil {
		t.Fatalf("attach: %v", err)
	}
	return root, func() { cc.Close(); sc.Close(); <-done }
}

// vh19Observe lists dir (File root = the directory itself) and records Walk/GetAttr QIDs.
func vh19Observe(t *testing.T, out *vhfsOut, fs int, root p9.File, names []string, remote bool, msize, count uint32) {
	// The real client arms a finalizer on every clientFile (it clunks the fid): a File that is dropped
	// could be clunked by the GC in the middle of the listing.  Everything obtained here stays referenced
	// until the observation is complete and is then closed explicitly.
	var keep []p9.File
	defer func() {
		for _, f := range keep {
			f.Close()
		}
		runtime.KeepAlive(keep)
		runtime.KeepAlive(root)
	}()
	o := vh19Pages{Kind: "pages", FS: fs, Remote: remote, MSize: msize, Count: count}
	_, d, err := root.Walk(nil)
	if err != nil {
		t.Fatalf("clone: %v", err)
	}
	if _, _, err := d.Open(p9.ReadOnly); err != nil {
		t.Fatalf("open: %v", err)
	}
	o.Pages, o.Hit, err = vh19List(d, count, len(names)+3)
	if err != nil {
		o.Err = err.Error()
	}
	d.Close()
	runtime.KeepAlive(d)
	for _, n := range names {
		o.Names = append(o.Names, vhfsName(n))
	}
	// a listing that failed (e.g. the connection broke on an oversized reply) is an observation, not a harness failure
	for _, n := range names {
		if o.Err != "" {
			break
		}
		qs, f, err := root.Walk([]string{n})
		if f != nil {
			keep = append(keep, f)
		}
		if err != nil || len(qs) != 1 {
			o.Err = fmt.Sprintf("walk %q: %v %v", n, qs, err)
			o.WalkQ, o.GetQ = nil, nil
			break
		}
		g, _, _, err := f.GetAttr(p9.AttrMask{Mode: true})
		if err != nil {
			o.Err = fmt.Sprintf("getattr %q: %v", n, err)
			o.WalkQ, o.GetQ = nil, nil
			break
		}
		o.WalkQ = append(o.WalkQ, vh19Q(qs[0]))
		o.GetQ = append(o.GetQ, vh19Q(g))
	}
	out.Emit(o)
}

func TestVerifC19Local(t *testing.T) {
	out := vhfsOpen(t)
	defer out.Close()
	r := vhfsRand()
	type cfg struct{ n, maxName int }
	cfgs := []cfg{{0, 8}, {1, 255}, {3, 255}, {5, 12}, {17, 40}, {40, 255}, {150, 20}}
	if vhfsThorough() {
		cfgs = append(cfgs, cfg{2, 30}, cfg{64, 255}, cfg{120, 60}, cfg{300, 255}, cfg{1000, 40}, cfg{3000, 24}, cfg{700, 120})
	}
	for _, c := range cfgs {
		dir := vh19MkDir(t, r, c.n, c.maxName)
		names := vh19HostOrder(t, dir)
		if len(names) != c.n {
			t.Fatalf("host lists %d names, created %d", len(names), c.n)
		}
		maxEnt := 24
		for _, n := range names {
			if 24+len(n) > maxEnt {
				maxEnt = 24 + len(n)
			}
		}
		// direct: count is the number of entries the File may return
		counts := []uint32{1, 2, 3, 7, uint32(c.n), uint32(c.n) + 1, 1 << 20, 0xffffffff, 0}
		if !vhfsThorough() {
			counts = []uint32{1, 2, 7, uint32(c.n), uint32(c.n) + 1, 0xffffffff, 0}
		}
		if c.n > 400 {
			counts = []uint32{4, 97, uint32(c.n) - 1, 0xffffffff}
		}
		for _, cnt := range counts {
			root, err := Attacher(dir).Attach()
			if err != nil {
				t.Fatal(err)
			}
			vh19Observe(t, out, 0, root, names, false, 0, cnt)
		}
		// remote: count is a byte budget, clamped by msize - 11
		msizes := []uint32{uint32(maxEnt) + 11, 512, 4096, 8192, 65536}
		if !vhfsThorough() {
			msizes = []uint32{uint32(maxEnt) + 11, 4096, 8192}
		}
		for _, ms := range msizes {
			if ms < 300 {
				ms = 300 // NewClient refuses an msize that cannot hold the largest fixed-size message
			}
			cs := []uint32{uint32(maxEnt), 2*uint32(maxEnt) - 1, 1000, ms - 11, ms, 1 << 20, uint32(maxEnt) - 1, 0}
			if !vhfsThorough() {
				cs = []uint32{uint32(maxEnt), 2*uint32(maxEnt) - 1, ms - 11, ms + 100, 1 << 20, uint32(maxEnt) - 1}
			}
			if c.n > 400 {
				cs = []uint32{uint32(maxEnt), 4000, 1 << 20}
			}
			for _, cnt := range cs {
				root, closefn := vh19Remote(t, Attacher(dir), ms)
				vh19Observe(t, out, 0, root, names, true, ms, cnt)
				root.Close()
				closefn()
			}
		}
	}
}
