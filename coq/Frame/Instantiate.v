(** The frame model of Frame/Model.v instantiated with the message layouts and the
    body decoder of Codec/ (C01's development, not modified): [lookup] and [decode_ok]
    are no longer parameters but computed from a layout registry, the two independently
    written models of transport.go recv are proved to agree on every byte stream, and
    C02's "delivered as a message carrying exactly the field values encoded in it" is
    stated with actual field values. *)
From Coq Require Import Arith NArith List Bool Lia ZifyN ZifyBool ZifyNat.
From P9V Require Import gen.ConstGen Frame.Model Frame.ListN Frame.FrameProofs.
Require P9V.Codec.Layout P9V.Codec.Frame P9V.Codec.FrameProofs P9V.Codec.Spec9P P9V.Codec.SpecProofs.
Import ListNotations.
Open Scope N_scope.

Module CF := P9V.Codec.Frame.
Module CL := P9V.Codec.Layout.

(** recv's lookup and decode verdict, from a registry of message layouts *)
Definition lookup_codec (tbl : CF.registry) (tag typ : N) : lookup_result :=
  match CF.lookup typ tbl with
  | None => LkUnknown
  | Some ml => match CF.fixed_size ml with Some fs => LkPayloader (N.of_nat fs) | None => LkPlain end
  end.

Definition decode_codec (tbl : CF.registry) (typ : N) (body pay : list N) : bool :=
  match CF.lookup typ tbl with
  | None => false
  | Some ml => match CF.recv_body ml (body ++ pay) with Some _ => true | None => false end
  end.

Lemma takeN_firstn s : forall n, takeN n s = firstn (N.to_nat n) s.
Proof.
  induction s as [|x s IH]; intros n; [now destruct (N.to_nat n)|].
  destruct (N.eq_dec n 0) as [->|Hn]; [now rewrite takeN_0|].
  rewrite takeN_cons by lia. replace (N.to_nat n) with (S (N.to_nat (n - 1))) by lia.
  cbn [firstn]. now rewrite IH.
Qed.

Lemma dropN_skipn s : forall n, dropN n s = skipn (N.to_nat n) s.
Proof.
  induction s as [|x s IH]; intros n; [now destruct (N.to_nat n)|].
  destruct (N.eq_dec n 0) as [->|Hn]; [now rewrite dropN_0|].
  rewrite dropN_cons by lia. replace (N.to_nat n) with (S (N.to_nat (n - 1))) by lia.
  cbn [skipn]. now rewrite IH.
Qed.

Lemma len_same (s : list N) : CL.len s = len s.
Proof. reflexivity. Qed.

Lemma shl8 n : N.shiftl n 8 = 256 * n.
Proof. rewrite N.shiftl_mul_pow2. change (2 ^ 8) with 256. lia. Qed.

(** once the frame is complete (or its header refused) the outcome does not depend on whether the
    peer has closed the stream *)
Lemma recv_complete_closed lookup dec closed msize s :
  7 <= len s -> (hdr_check msize (le32 s) = false \/ le32 s <= len s) ->
  Model.recv lookup dec closed msize s = Model.recv lookup dec true msize s.
Proof.
  intros H7 H. unfold Model.recv. rewrite headerLength_eq.
  destruct (N.ltb_spec (len s) 7); [lia|].
  destruct (hdr_check msize (le32 s)) eqn:Hc; cbn [negb]; [|reflexivity].
  destruct H as [H|H]; [discriminate|].
  destruct (plan_of lookup _ _ _); rewrite len_dropN;
    (destruct (N.leb_spec (le32 s - 7) (len s - 7)); [reflexivity|lia]).
Qed.

Section Agree.
  Variable tbl : CF.registry.
  Notation recv := (recv (lookup_codec tbl) (decode_codec tbl)).

  (** *** the two models of recv agree, on every stream and every msize:
      Codec's result determines this model's outcome, and what Codec leaves over is the stream
      after the bytes this model consumed *)
  Theorem recv_agrees msize s :
    match CF.recv msize tbl s with
    | CF.RConnErr => exists c, fst (recv true msize s) = ConnErr c
    | CF.RUnknown t rest =>
        CF.lookup (hdr_typ s) tbl = None /\
        exists c, fst (recv true msize s) = Reject t c /\ rest = dropN c s
    | CF.RInvalid rest => exists c, fst (recv true msize s) = Reject noTag c /\ rest = dropN c s
    | CF.ROk t ty mv rest =>
        exists b p c ml, fst (recv true msize s) = Deliver t ty b p c /\ rest = dropN c s /\
                         CF.lookup ty tbl = Some ml /\ CF.recv_body ml (b ++ p) = Some mv
    end.
  Proof.
    destruct s as [|a0 [|a1 [|a2 [|a3 [|ty [|t0 [|t1 r3]]]]]]];
      try (cbn; eexists; reflexivity).
    set (s := a0 :: a1 :: a2 :: a3 :: ty :: t0 :: t1 :: r3).
    assert (Hlen : len s = 7 + len r3) by (unfold s; rewrite !len_cons; lia).
    assert (Hsz : le32 s = a0 + 256 * a1 + 65536 * a2 + 16777216 * a3) by reflexivity.
    assert (Htag : hdr_tag s = t0 + 256 * t1) by reflexivity.
    assert (Htyp : hdr_typ s = ty) by reflexivity.
    assert (Hdrop : dropN 7 s = r3) by (unfold s; rewrite !dropN_cons by lia; apply dropN_0).
    unfold CF.recv. unfold s at 1. cbn [CL.le_dec].
    rewrite !shl8. replace (a0 + 256 * (a1 + 256 * (a2 + 256 * (a3 + 256 * 0)))) with (le32 s) by lia.
    replace (t0 + 256 * (t1 + 256 * 0)) with (hdr_tag s) by lia.
    unfold Model.recv. rewrite headerLength_eq, Hlen, Hdrop, Htyp.
    destruct (N.ltb_spec (7 + len r3) 7); [lia|].
    unfold CF.header_length, CF.maximum_length.
    destruct (hdr_check msize (le32 s)) eqn:Hc; cbn [negb].
    2:{ assert (Hbad : (le32 s <? 7) = true \/ ((4194304 <? le32 s) || (msize <? le32 s)) = true).
        { destruct (N.ltb_spec (le32 s) 7); [now left|right].
          destruct (N.ltb_spec 4194304 (le32 s)); [reflexivity|]. destruct (N.ltb_spec msize (le32 s)); [reflexivity|].
          exfalso. assert (hdr_check msize (le32 s) = true) by (apply (hdr_check_spec (lookup_codec tbl) (decode_codec tbl)); lia).
          congruence. }
        destruct Hbad as [->| ->]; [|destruct (le32 s <? 7)]; eexists; reflexivity. }
    pose proof (proj1 (hdr_check_spec (lookup_codec tbl) (decode_codec tbl) _ _) Hc) as (H7 & Hm & Hms).
    destruct (N.ltb_spec (le32 s) 7); [lia|].
    destruct (N.ltb_spec 4194304 (le32 s)); [lia|]. destruct (N.ltb_spec msize (le32 s)); [lia|]. cbn [orb].
    set (rem := le32 s - 7).
    assert (Hskip : skipn (N.to_nat rem) r3 = dropN rem r3) by (symmetry; apply dropN_skipn).
    assert (Hrest_ok : rem <= len r3 -> dropN rem r3 = dropN (le32 s) s).
    { intros _. rewrite <- Hdrop, dropN_add. f_equal. unfold rem. lia. }
    assert (Hrest_short : len r3 < rem -> dropN rem r3 = dropN (7 + len r3) s).
    { intros Hl. rewrite dropN_all by lia. rewrite dropN_all by lia. reflexivity. }
    unfold plan_of, lookup_codec.
    destruct (CF.lookup ty tbl) as [ml|] eqn:Hlk.
    - destruct (CF.fixed_size ml) as [fs|] eqn:Hfs.
      + (* payloader *)
        destruct (Nat.ltb_spec (N.to_nat rem) fs) as [Hts|Hts].
        * destruct (N.ltb_spec rem (N.of_nat fs)); [|lia]. cbn [fst]. rewrite Hskip.
          destruct (N.leb_spec rem (len r3)); eexists; (split; [reflexivity|]); auto.
        * destruct (N.ltb_spec rem (N.of_nat fs)); [lia|]. cbn [fst].
          destruct (Nat.ltb_spec (List.length r3) (N.to_nat rem)) as [Hsh|Hsh].
          { destruct (N.leb_spec rem (len r3)) as [Hle|Hle]; [unfold len in Hle; lia|]. eexists. reflexivity. }
          destruct (N.leb_spec rem (len r3)) as [Hle|Hle]; [|unfold len in Hle; lia].
          unfold finish, decode_codec. rewrite Hlk.
          assert (Hb : takeN (N.of_nat fs) r3 ++ takeN (rem - N.of_nat fs) (dropN (N.of_nat fs) r3) = firstn (N.to_nat rem) r3).
          { rewrite <- takeN_add, <- takeN_firstn. f_equal. lia. }
          rewrite Hb. destruct (CF.recv_body ml (firstn (N.to_nat rem) r3)) as [mv|] eqn:Hrb.
          -- exists (takeN (N.of_nat fs) r3), (takeN (rem - N.of_nat fs) (dropN (N.of_nat fs) r3)), (le32 s), ml.
             rewrite Hb, Hskip. repeat split; auto.
          -- exists (le32 s). rewrite Hskip. split; auto.
      + (* plain message: the whole body is the decode buffer *)
        cbn [fst].
        destruct (Nat.ltb_spec (List.length r3) (N.to_nat rem)) as [Hsh|Hsh].
        { destruct (N.leb_spec rem (len r3)) as [Hle|Hle]; [unfold len in Hle; lia|]. eexists. reflexivity. }
        destruct (N.leb_spec rem (len r3)) as [Hle|Hle]; [|unfold len in Hle; lia].
        unfold finish, decode_codec. rewrite Hlk.
        assert (Hb : takeN rem r3 ++ takeN (rem - rem) (dropN rem r3) = firstn (N.to_nat rem) r3).
        { rewrite N.sub_diag, takeN_0, app_nil_r. apply takeN_firstn. }
        rewrite Hb. destruct (CF.recv_body ml (firstn (N.to_nat rem) r3)) as [mv|] eqn:Hrb.
        * exists (takeN rem r3), (takeN (rem - rem) (dropN rem r3)), (le32 s), ml.
          rewrite Hb, Hskip. repeat split; auto.
        * exists (le32 s). rewrite Hskip. split; auto.
    - cbn [fst]. split; [reflexivity|]. rewrite Hskip.
      destruct (N.leb_spec rem (len r3)); eexists; (split; [reflexivity|]); auto.
  Qed.

  (** *** delivered = decoded from exactly the frame's own bytes: the message handed on is
      [recv_body layout body] where body is the size-7 bytes after the header *)
  Theorem deliver_values closed msize s t ty b p c :
    fst (recv closed msize s) = Deliver t ty b p c ->
    exists ml mv, CF.lookup ty tbl = Some ml /\ b ++ p = takeN (c - 7) (dropN 7 s) /\
                  CF.recv_body ml (takeN (c - 7) (dropN 7 s)) = Some mv.
  Proof.
    intros H. apply recv_deliver_exact in H. destruct H as (_ & _ & _ & _ & _ & Hb & Hd & _).
    unfold decode_codec in Hd. destruct (CF.lookup ty tbl) as [ml|]; [|discriminate].
    rewrite Hb in Hd. destruct (CF.recv_body ml _) as [mv|] eqn:E; [|discriminate]. eauto.
  Qed.

  (** *** ... and for a frame that [send] wrote those are exactly the field values encoded in it
      (up to the documented normalisation [mnorm]: permission bits masked, Rreaddir cut to whole entries) *)
  Theorem deliver_sent closed msize tag typ ml mv rest :
    CF.lookup typ tbl = Some ml -> CF.ml_ok ml = true -> CF.mwf ml mv = true -> tag < 65536 ->
    CF.frame_size ml mv <= msize -> CF.frame_size ml mv <= 4194304 ->
    exists b p, fst (recv closed msize (CF.send tag typ ml mv ++ rest)) = Deliver tag typ b p (CF.frame_size ml mv) /\
                CF.recv_body ml (b ++ p) = Some (CF.mnorm ml mv) /\
                dropN (CF.frame_size ml mv) (CF.send tag typ ml mv ++ rest) = rest.
  Proof.
    intros Hlk Hok Hwf Htag Hms Hmax.
    pose proof (P9V.Codec.FrameProofs.recv_send msize tbl tag typ ml mv rest Hlk Hok Hwf Htag Hms Hmax) as Hrs.
    pose proof (recv_agrees msize (CF.send tag typ ml mv ++ rest)) as Ha. rewrite Hrs in Ha.
    destruct Ha as (b & p & c & ml' & Hd & Hrest & Hlk' & Hrb).
    assert (ml' = ml) by congruence. subst ml'.
    pose proof (recv_deliver_exact _ _ _ _ _ _ _ _ _ _ Hd) as (Hc & Hcs & Hcl & _).
    pose proof (proj1 (hdr_check_spec (lookup_codec tbl) (decode_codec tbl) _ _) Hc) as (H7 & _ & _).
    assert (Hsize : c = CF.frame_size ml mv).
    { assert (Hl : len (dropN c (CF.send tag typ ml mv ++ rest)) = len rest) by now rewrite <- Hrest.
      rewrite len_dropN, len_app in Hl.
      assert (Hsend : len (CF.send tag typ ml mv) = CF.frame_size ml mv).
      { unfold CF.send, CF.frame_size. destruct (CF.send_body ml mv) as [d pp].
        rewrite !len_app. unfold CF.header_length. cbn [CL.le_enc]. rewrite !len_cons, len_nil. change (@CL.len N) with len. lia. }
      rewrite len_app in Hcl. lia. }
    exists b, p.
    assert (E : recv closed msize (CF.send tag typ ml mv ++ rest) = recv true msize (CF.send tag typ ml mv ++ rest)).
    { apply recv_complete_closed; [|right]; lia. }
    rewrite E.
    rewrite Hd, Hsize in *. repeat split; auto.
  Qed.
End Agree.

(** the protocol table of Codec/Spec9P.v (proved equal to the layouts generated from messages.go
    in Codec/GenCheck.v) gives the same lookup as the registry generated by FrameGen *)
Definition spec_lookup := lookup_codec P9V.Codec.Spec9P.spec_registry.
Definition spec_decode := decode_codec P9V.Codec.Spec9P.spec_registry.

(** *** the registry FrameGen reads from messages.go's init() and FixedSize methods and the protocol
    table of Codec/Spec9P.v describe the same lookup, for all 256 type numbers *)
From P9V Require Import gen.FrameGen.

Fixpoint assoc_reg (k : N) (l : list (N * option N)) : option (option N) :=
  match l with [] => None | (k', v) :: r => if k =? k' then Some v else assoc_reg k r end.

Definition framegen_lookup (tag typ : N) : lookup_result :=
  match assoc_reg typ frame_registry with
  | None => LkUnknown
  | Some None => LkPlain
  | Some (Some f) => LkPayloader f
  end.

Definition lookup_result_eqb (a b : lookup_result) : bool :=
  match a, b with
  | LkUnknown, LkUnknown | LkPlain, LkPlain => true
  | LkPayloader x, LkPayloader y => x =? y
  | _, _ => false
  end.

Definition all_types : list N := map N.of_nat (seq 0 256).

Lemma registries_agree_check :
  forallb (fun t => lookup_result_eqb (spec_lookup 0 t) (framegen_lookup 0 t)) all_types = true.
Proof. vm_compute. reflexivity. Qed.

Lemma lookup_result_eqb_eq a b : lookup_result_eqb a b = true -> a = b.
Proof. destruct a, b; cbn; try discriminate; auto. intros H. apply N.eqb_eq in H. now subst. Qed.

Theorem registries_agree tag typ : typ < 256 -> spec_lookup tag typ = framegen_lookup tag typ.
Proof.
  intros H. pose proof registries_agree_check as C. rewrite forallb_forall in C.
  apply lookup_result_eqb_eq. apply (C typ). unfold all_types. apply in_map_iff.
  exists (N.to_nat typ). split; [lia|]. apply in_seq. lia.
Qed.
