(** C13 -- the size arithmetic of the Go code, as go2coq ArithGen TRANSLATES it on every run
    (gen/ArithGen.v: connState.maxReplyPayload, roundDown, every assignment to Client.payloadSize,
    the final value of `count` in tread.handle / treaddir.handle / clientFile.Readdir), is the arithmetic
    the hand model Frame/Sizes.v uses, for every 32-bit value.  The theorems of Frame/SizesProofs.v therefore
    speak about what the source computes now; an edit of one of these expressions re-opens a proof here. *)
From Coq Require Import ZArith NArith List String Bool Lia ZifyN ZifyBool.
From P9V Require Import gen.ConstGen Base.GoArith gen.ArithGen Frame.Sizes Frame.SizesProofs.
Import ListNotations.
Ltac Zify.zify_post_hook ::= Z.div_mod_to_equations.
Local Open Scope Z_scope.

Definition is_u32 (n : N) : Prop := (n < 4294967296)%N.

Lemma gen_maxReplyPayload_ok : forall m, is_u32 m ->
  gen_maxReplyPayload (Z.of_N m) = Z.of_N (max_reply_payload m).
Proof.
  intros m Hm. unfold is_u32 in Hm.
  unfold gen_maxReplyPayload, max_reply_payload, replyOverhead, w32.
  change p9_maximumLength with 4194304%N. change p9_headerLength with 7%N.
  destruct (N.eqb_spec m 0) as [->|Hz]; [reflexivity|].
  destruct (Z.eqb_spec (Z.of_N m) 0) as [E|_]; [lia|].
  change (Z.of_N 7 + 4) with 11. change ((11 mod 4294967296)) with 11. change (7 + 4)%N with 11%N.
  destruct (Z.ltb_spec (Z.of_N m) 11) as [H|H]; destruct (N.ltb_spec m 11) as [H'|H']; lia.
Qed.

Lemma gen_roundDown_ok : forall p a, is_u32 p -> is_u32 a -> (0 < a)%N ->
  gen_roundDown (Z.of_N p) (Z.of_N a) = Z.of_N (round_down p a).
Proof.
  intros p a Hp Ha Hpos. unfold is_u32 in *. unfold gen_roundDown, round_down, gomod, w32.
  rewrite <- N2Z.inj_mod.
  destruct (Z.ltb_spec (Z.of_N a) (Z.of_N p)) as [H|H]; destruct (N.ltb_spec a p) as [H'|H']; try lia; cbn [andb]; [|reflexivity].
  destruct (Z.eqb_spec (Z.of_N (p mod a)) 0) as [E|E]; destruct (N.eqb_spec (p mod a) 0) as [E'|E']; try lia; cbn [negb]; [reflexivity|].
  assert (p mod a < a)%N by (apply N.mod_lt; lia).
  assert (p mod a <= p)%N by (apply N.mod_le; lia).
  rewrite Z.mod_small by lia. lia.
Qed.

(** every assignment to Client.payloadSize computes payload_size of the client's messageSize *)
Lemma gen_payloadSize_ok : Forall (fun f => forall m, is_u32 m ->
    f (Z.of_N m) (Z.of_N largestFixedSize) = Z.of_N (payload_size m)) gen_payloadSize_sites.
Proof.
  assert (G : forall m, is_u32 m ->
    gen_roundDown (w32 (Z.of_N m - Z.of_N largestFixedSize)) (w32 512) = Z.of_N (payload_size m)).
  { intros m Hm. unfold payload_size.
    assert (E : w32 (Z.of_N m - Z.of_N largestFixedSize) = Z.of_N (sub32 m largestFixedSize)).
    { unfold w32, sub32, u32, is_u32 in *. change largestFixedSize with 153%N. lia. }
    rewrite E. change (w32 512) with (Z.of_N 512).
    apply gen_roundDown_ok; unfold is_u32, sub32, u32 in *; [|lia|lia].
    apply N.mod_lt. lia. }
  unfold gen_payloadSize_sites. repeat constructor; intros m Hm; apply G; exact Hm.
Qed.
Lemma gen_payloadSize_sites_nonempty : gen_payloadSize_sites <> []. Proof. discriminate. Qed.

Lemma gen_tread_count_ok : forall c m, is_u32 c -> is_u32 m ->
  gen_tread_count (Z.of_N c) (Z.of_N m) = Z.of_N (N.min c (max_reply_payload m)).
Proof.
  intros c m Hc Hm. unfold gen_tread_count. rewrite gen_maxReplyPayload_ok by exact Hm.
  destruct (Z.ltb_spec (Z.of_N (max_reply_payload m)) (Z.of_N c)); lia.
Qed.
Lemma gen_treaddir_count_ok : forall c m, is_u32 c -> is_u32 m ->
  gen_treaddir_count (Z.of_N c) (Z.of_N m) = Z.of_N (N.min c (max_reply_payload m)).
Proof.
  intros c m Hc Hm. unfold gen_treaddir_count. rewrite gen_maxReplyPayload_ok by exact Hm.
  destruct (Z.ltb_spec (Z.of_N (max_reply_payload m)) (Z.of_N c)); lia.
Qed.
Lemma gen_readdir_count_ok : forall c m, is_u32 c -> is_u32 m ->
  gen_readdir_count (Z.of_N c) (Z.of_N m) = Z.of_N (readdir_count m c).
Proof.
  intros c m Hc Hm. unfold gen_readdir_count, readdir_count, sub32, replyOverhead, u32, w32, is_u32 in *.
  change p9_headerLength with 7%N. change (Z.of_N 7 + 4) with 11. change (11 mod 4294967296) with 11. change (7 + 4)%N with 11%N.
  assert (E : (Z.of_N m - 11) mod 4294967296 = Z.of_N ((m + 4294967296 - 11) mod 4294967296)) by lia.
  rewrite E.
  destruct (Z.ltb_spec (Z.of_N ((m + 4294967296 - 11) mod 4294967296)) (Z.of_N c));
    destruct (N.ltb_spec ((m + 4294967296 - 11) mod 4294967296) c); lia.
Qed.

(** where the clamped count and the raw request field are read (reviewed against Frame/Sizes.v:
    tread hands dataBuf[:count] to ReadAt and to the xattr copy, t.Count is read only by the ENOBUFS
    guard and the xattr range test; treaddir passes t.Count to the backend but puts the clamped count in
    the reply, which is what rreaddir.encode truncates to; the client sends the clamped count) *)
Definition tread_count_uses_reviewed : list string :=
  ["int(t.Count)"; "ref.file.ReadAt(dataBuf[:count], int64(t.Offset))"; "uint64(t.Count)"; "copy(dataBuf[:count], ref.pendingXattr.buf[t.Offset:])"]%string.
Definition treaddir_count_uses_reviewed : list string :=
  ["ref.file.Readdir(t.Offset, t.Count)"; "rreaddir{Count: count, Entries: entries}"]%string.
Definition readdir_count_uses_reviewed : list string :=
  ["c.client.sendRecv(&treaddir{Directory: c.fid, Offset: offset, Count: count}, &rreaddir)"]%string.
Lemma tie_tread_count_uses : gen_tread_count_uses = tread_count_uses_reviewed. Proof. reflexivity. Qed.
Lemma tie_treaddir_count_uses : gen_treaddir_count_uses = treaddir_count_uses_reviewed. Proof. reflexivity. Qed.
Lemma tie_readdir_count_uses : gen_readdir_count_uses = readdir_count_uses_reviewed. Proof. reflexivity. Qed.
(** ---- the property clauses, restated over the generated arithmetic ---- *)

(** server: header + count[4] + the data slice of the generated length fits in any negotiated msize *)
Theorem generated_server_clamps_fit : forall count m, is_u32 count -> is_u32 m -> (11 <= m)%N ->
  11 + gen_tread_count (Z.of_N count) (Z.of_N m) <= Z.of_N m /\
  11 + gen_treaddir_count (Z.of_N count) (Z.of_N m) <= Z.of_N m.
Proof.
  intros count m Hc Hm H11. rewrite gen_tread_count_ok, gen_treaddir_count_ok by assumption.
  rewrite max_reply_payload_le by exact H11. lia.
Qed.

(** client: a full chunk of the generated payload size plus the Twrite header, and the Rread it asks for,
    fit in the client's message size (which is above largestFixedSize, as NewClient demands) *)
Theorem generated_client_payload_fits : forall m, is_u32 m -> (largestFixedSize < m)%N ->
  Forall (fun f => 23 + f (Z.of_N m) (Z.of_N largestFixedSize) <= Z.of_N m /\ 0 < f (Z.of_N m) (Z.of_N largestFixedSize)) gen_payloadSize_sites.
Proof.
  intros m Hm Hl. eapply Forall_impl; [|exact gen_payloadSize_ok].
  intros f Hf. cbv beta in Hf. rewrite (Hf m Hm).
  pose proof (payload_size_bounds m) as B.
  unfold payload_size in *. change largestFixedSize with 153%N in *.
  assert (S : sub32 m 153 = (m - 153)%N) by (unfold sub32, u32, is_u32 in *; lia).
  rewrite S in *.
  pose proof (round_down_le (m - 153) 512). pose proof (round_down_pos (m - 153)).
  lia.
Qed.

(** client: the Rreaddir asked for fits *)
Theorem generated_client_readdir_fits : forall count m, is_u32 count -> is_u32 m -> (11 <= m)%N ->
  11 + gen_readdir_count (Z.of_N count) (Z.of_N m) <= Z.of_N m.
Proof.
  intros count m Hc Hm H11. rewrite gen_readdir_count_ok by assumption.
  unfold readdir_count, sub32, replyOverhead, u32, is_u32 in *. change p9_headerLength with 7%N.
  change (7 + 4)%N with 11%N.
  destruct (N.ltb_spec ((m + 4294967296 - 11) mod 4294967296) count); lia.
Qed.
