(** Lemmas about takeN / dropN / len (Frame/Model.v). *)
From Coq Require Import NArith List Bool Lia ZifyN ZifyBool ZifyNat.
From P9V Require Import Frame.Model.
Import ListNotations.
Open Scope N_scope.

Lemma len_nil : len [] = 0.
Proof. reflexivity. Qed.

Lemma len_cons x s : len (x :: s) = 1 + len s.
Proof. unfold len. cbn [length]. lia. Qed.

Lemma len_app a b : len (a ++ b) = len a + len b.
Proof. unfold len. rewrite app_length. lia. Qed.

Lemma len_0_nil s : len s = 0 -> s = [].
Proof. destruct s; [reflexivity|]. rewrite len_cons. lia. Qed.

Lemma takeN_0 s : takeN 0 s = [].
Proof. destruct s; reflexivity. Qed.

Lemma dropN_0 s : dropN 0 s = s.
Proof. destruct s; reflexivity. Qed.

Lemma takeN_cons n x s : 0 < n -> takeN n (x :: s) = x :: takeN (n - 1) s.
Proof.
  intros Hn. cbn [takeN]. destruct (N.eqb_spec n 0) as [E|E]; [lia|].
  now rewrite N.sub_1_r.
Qed.

Lemma dropN_cons n x s : 0 < n -> dropN n (x :: s) = dropN (n - 1) s.
Proof.
  intros Hn. cbn [dropN]. destruct (N.eqb_spec n 0) as [E|E]; [lia|].
  now rewrite N.sub_1_r.
Qed.

Lemma len_takeN s : forall n, len (takeN n s) = N.min n (len s).
Proof.
  induction s as [|x s IH]; intros n.
  - cbn [takeN]. rewrite len_nil. lia.
  - destruct (N.eq_dec n 0) as [->|Hn]; [rewrite takeN_0, len_nil; lia|].
    rewrite takeN_cons by lia. rewrite !len_cons, IH. lia.
Qed.

Lemma len_dropN s : forall n, len (dropN n s) = len s - n.
Proof.
  induction s as [|x s IH]; intros n.
  - cbn [dropN]. rewrite len_nil. lia.
  - destruct (N.eq_dec n 0) as [->|Hn]; [rewrite dropN_0; lia|].
    rewrite dropN_cons by lia. rewrite len_cons, IH. lia.
Qed.

Lemma takeN_dropN s : forall n, takeN n s ++ dropN n s = s.
Proof.
  induction s as [|x s IH]; intros n; [reflexivity|].
  destruct (N.eq_dec n 0) as [->|Hn]; [now rewrite takeN_0, dropN_0|].
  rewrite takeN_cons, dropN_cons by lia. cbn [app]. now rewrite IH.
Qed.

Lemma takeN_all s : forall n, len s <= n -> takeN n s = s.
Proof.
  induction s as [|x s IH]; intros n H; [reflexivity|].
  rewrite len_cons in H. rewrite takeN_cons by lia. rewrite IH by lia. reflexivity.
Qed.

Lemma dropN_all s : forall n, len s <= n -> dropN n s = [].
Proof.
  induction s as [|x s IH]; intros n H; [reflexivity|].
  rewrite len_cons in H. rewrite dropN_cons by lia. apply IH. lia.
Qed.

Lemma takeN_app a b : forall n, n <= len a -> takeN n (a ++ b) = takeN n a.
Proof.
  induction a as [|x a IH]; intros n H.
  - rewrite len_nil in H. assert (n = 0) as -> by lia. now rewrite !takeN_0.
  - destruct (N.eq_dec n 0) as [->|Hn]; [now rewrite !takeN_0|].
    rewrite len_cons in H. cbn [app]. rewrite !takeN_cons by lia. rewrite IH by lia. reflexivity.
Qed.

Lemma dropN_app a b : forall n, n <= len a -> dropN n (a ++ b) = dropN n a ++ b.
Proof.
  induction a as [|x a IH]; intros n H.
  - rewrite len_nil in H. assert (n = 0) as -> by lia. now rewrite !dropN_0.
  - destruct (N.eq_dec n 0) as [->|Hn]; [now rewrite !dropN_0|].
    rewrite len_cons in H. cbn [app]. rewrite !dropN_cons by lia. rewrite IH by lia. reflexivity.
Qed.

Lemma takeN_len_app a b : takeN (len a) (a ++ b) = a.
Proof. rewrite takeN_app by lia. apply takeN_all. lia. Qed.

Lemma dropN_len_app a b : dropN (len a) (a ++ b) = b.
Proof. rewrite dropN_app by lia. rewrite dropN_all by lia. reflexivity. Qed.

Lemma takeN_add s : forall a b, takeN (a + b) s = takeN a s ++ takeN b (dropN a s).
Proof.
  induction s as [|x s IH]; intros a b; [reflexivity|].
  destruct (N.eq_dec a 0) as [->|Ha]; [now rewrite takeN_0, dropN_0|].
  rewrite (takeN_cons a), (dropN_cons a), takeN_cons by lia. cbn [app].
  replace (a + b - 1) with ((a - 1) + b) by lia. now rewrite IH.
Qed.

Lemma dropN_add s : forall a b, dropN b (dropN a s) = dropN (a + b) s.
Proof.
  induction s as [|x s IH]; intros a b; [reflexivity|].
  destruct (N.eq_dec a 0) as [->|Ha]; [now rewrite dropN_0|].
  rewrite (dropN_cons a), (dropN_cons (a + b)) by lia.
  replace (a + b - 1) with ((a - 1) + b) by lia. apply IH.
Qed.

Lemma takeN_takeN s : forall a b, a <= b -> takeN a (takeN b s) = takeN a s.
Proof.
  induction s as [|x s IH]; intros a b H; [reflexivity|].
  destruct (N.eq_dec a 0) as [->|Ha]; [now rewrite !takeN_0|].
  rewrite (takeN_cons b), !(takeN_cons a) by lia. rewrite IH by lia. reflexivity.
Qed.

(** header fields depend only on the first seven bytes *)
Lemma le32_app a b : 4 <= len a -> le32 (a ++ b) = le32 a.
Proof.
  destruct a as [|a0 [|a1 [|a2 [|a3 a]]]]; rewrite ?len_cons, ?len_nil; intros H; try lia; reflexivity.
Qed.

Lemma hdr_tag_app a b : 7 <= len a -> hdr_tag (a ++ b) = hdr_tag a.
Proof.
  destruct a as [|a0 [|a1 [|a2 [|a3 [|a4 [|a5 [|a6 a]]]]]]]; rewrite ?len_cons, ?len_nil; intros H; try lia; reflexivity.
Qed.

Lemma hdr_typ_app a b : 7 <= len a -> hdr_typ (a ++ b) = hdr_typ a.
Proof.
  destruct a as [|a0 [|a1 [|a2 [|a3 [|a4 [|a5 [|a6 a]]]]]]]; rewrite ?len_cons, ?len_nil; intros H; try lia; reflexivity.
Qed.

Lemma le32_take4 s : le32 (takeN 4 s) = le32 s.
Proof.
  destruct s as [|a0 [|a1 [|a2 [|a3 s]]]]; try reflexivity.
Qed.

Lemma le32_takeN s n : 4 <= n -> le32 (takeN n s) = le32 s.
Proof.
  intros H. rewrite <- (le32_take4 (takeN n s)), takeN_takeN by lia. apply le32_take4.
Qed.

Lemma headerLength_eq : headerLength = 7.
Proof. reflexivity. Qed.
Lemma maximumLength_eq : maximumLength = 4194304.
Proof. reflexivity. Qed.
