(** C17: what recv obtains, and hence what it answers, does not depend on how the
    transport cuts the stream into Reads / recvmsg results. *)
From Coq Require Import NArith List Bool Lia ZifyN ZifyBool ZifyNat.
From P9V Require Import gen.ConstGen Frame.Model Frame.ListN Frame.FrameProofs Frame.Reader.
Import ListNotations.
Open Scope N_scope.

Definition pos_script (sc : script) : Prop := Forall (fun e : N * bool => 0 < fst e) sc.
Definition suffix_of (sc' sc : script) : Prop := exists pre, sc = pre ++ sc'.

Lemma suffix_refl sc : suffix_of sc sc.
Proof. now exists []. Qed.
Lemma suffix_cons e sc' sc : suffix_of sc' sc -> suffix_of sc' (e :: sc).
Proof. intros [pre ->]. now exists (e :: pre). Qed.
Lemma suffix_trans a b c : suffix_of a b -> suffix_of b c -> suffix_of a c.
Proof. intros [p ->] [q ->]. exists (q ++ p). now rewrite app_assoc. Qed.
Lemma suffix_nil sc : suffix_of [] sc.
Proof. exists sc. now rewrite app_nil_r. Qed.
Lemma pos_suffix sc' sc : suffix_of sc' sc -> pos_script sc -> pos_script sc'.
Proof. intros [pre ->] H. unfold pos_script in *. rewrite Forall_app in H. tauto. Qed.
Lemma ok_suffix p sc' sc : suffix_of sc' sc -> script_ok p sc -> script_ok p sc'.
Proof. destruct p; cbn; [apply pos_suffix|auto]. Qed.

Lemma dropN_takeN s : forall a b, dropN a (takeN b s) = takeN (b - a) (dropN a s).
Proof.
  induction s as [|x s IH]; intros a b; [reflexivity|].
  destruct (N.eq_dec b 0) as [->|Hb]; [now rewrite !takeN_0|].
  destruct (N.eq_dec a 0) as [->|Ha]; [now rewrite !dropN_0, N.sub_0_r|].
  rewrite (takeN_cons b), !(dropN_cons a) by lia. rewrite IH. f_equal. lia.
Qed.

Lemma hdr_tag_takeN s n : 7 <= n -> 7 <= len s -> hdr_tag (takeN n s) = hdr_tag s.
Proof.
  intros Hn Hs. rewrite <- (takeN_dropN s n) at 2. rewrite hdr_tag_app; [reflexivity|rewrite len_takeN; lia].
Qed.
Lemma hdr_typ_takeN s n : 7 <= n -> 7 <= len s -> hdr_typ (takeN n s) = hdr_typ s.
Proof.
  intros Hn Hs. rewrite <- (takeN_dropN s n) at 2. rewrite hdr_typ_app; [reflexivity|rewrite len_takeN; lia].
Qed.

(** the segmentation-independent answer of "obtain [want] bytes" *)
Definition fill_ideal (closed : bool) (want : N) (s : list N) (sc : script) : fillres :=
  if want <=? len s then FDone (takeN want s) (dropN want s) sc
  else if closed then FEof (len s) [] sc else FBlock.

Lemma fill_spec zero_eof closed : forall sc want s,
  (zero_eof = true -> pos_script sc) ->
  exists sc', suffix_of sc' sc /\ fill zero_eof closed sc want s = fill_ideal closed want s sc'.
Proof.
  induction sc as [|e sc IH]; intros want s Hpos; unfold fill_ideal.
  - exists []. split; [apply suffix_refl|]. cbn [fill].
    destruct (N.eqb_spec want 0) as [->|Hw]; [|reflexivity].
    destruct (N.leb_spec 0 (len s)); [|lia]. now rewrite takeN_0, dropN_0.
  - cbn [fill]. destruct (N.eqb_spec want 0) as [->|Hw].
    { exists (e :: sc). split; [apply suffix_refl|].
      destruct (N.leb_spec 0 (len s)); [|lia]. now rewrite takeN_0, dropN_0. }
    destruct s as [|x s].
    + cbn [read1]. rewrite len_nil. destruct (N.leb_spec want 0); [lia|].
      exists sc. split; [apply suffix_cons, suffix_refl|]. destruct closed; reflexivity.
    + cbn [read1]. set (s0 := x :: s). assert (Hs0 : 0 < len s0) by (unfold s0; rewrite len_cons; lia).
      set (n := N.min (fst e) (N.min want (len s0))).
      assert (Hn : len (takeN n s0) = n) by (rewrite len_takeN; lia).
      rewrite Hn. destruct (N.eqb_spec n 0) as [Hz|Hz].
      * (* nothing handed over: fst e = 0 *)
        assert (He : fst e = 0) by lia.
        assert (Hrest : dropN n s0 = s0) by (rewrite Hz; apply dropN_0).
        rewrite Hrest. replace (is_nil s0) with false by reflexivity. rewrite !andb_false_r. cbn [orb].
        destruct zero_eof.
        { specialize (Hpos eq_refl). inversion Hpos as [|? ? Hpe _]. lia. }
        destruct (IH want s0 (fun H => ltac:(discriminate))) as (sc' & Hsuf & ->).
        exists sc'. split; [apply suffix_cons, Hsuf|]. reflexivity.
      * destruct (N.leb_spec want n) as [Hwn|Hwn].
        { assert (n = want) as Hnw by lia. exists sc. split; [apply suffix_cons, suffix_refl|].
          destruct (N.leb_spec want (len s0)); [|lia]. now rewrite Hnw. }
        assert (Hpos' : zero_eof = true -> pos_script sc).
        { intros Hz'. specialize (Hpos Hz'). now inversion Hpos. }
        destruct (IH (want - n) (dropN n s0) Hpos') as (sc' & Hsuf & ->).
        exists sc'. split; [apply suffix_cons, Hsuf|]. unfold fill_ideal. rewrite len_dropN.
        destruct (N.leb_spec (want - n) (len s0 - n)); destruct (N.leb_spec want (len s0)); try lia.
        -- rewrite dropN_add, <- takeN_add. replace (n + (want - n)) with want by lia. reflexivity.
        -- destruct closed; [|reflexivity]. f_equal. lia.
Qed.

(** whatever the reader does -- including Reads that hand over nothing -- a buffer is either
    filled with exactly the next bytes of the stream or the fill fails; never anything else *)
Lemma fill_any zero_eof closed : forall sc want s,
  (exists sc', fill zero_eof closed sc want s = fill_ideal closed want s sc') \/
  (exists n r sc', fill zero_eof closed sc want s = FEof n r sc').
Proof.
  induction sc as [|e sc IH]; intros want s.
  - left. destruct (fill_spec zero_eof closed [] want s) as (sc' & _ & E); [intros _; constructor|]. eauto.
  - cbn [fill]. destruct (N.eqb_spec want 0) as [->|Hw].
    { left. exists (e :: sc). unfold fill_ideal.
      destruct (N.leb_spec 0 (len s)); [|lia]. now rewrite takeN_0, dropN_0. }
    destruct s as [|x s].
    + cbn [read1]. destruct closed.
      * right. rewrite len_nil. cbn [N.eqb orb]. eauto.
      * left. exists sc. unfold fill_ideal. rewrite len_nil.
        destruct (N.leb_spec want 0); [lia|reflexivity].
    + cbn [read1]. set (s0 := x :: s). assert (Hs0 : 0 < len s0) by (unfold s0; rewrite len_cons; lia).
      set (n := N.min (fst e) (N.min want (len s0))).
      assert (Hn : len (takeN n s0) = n) by (rewrite len_takeN; lia).
      rewrite Hn. destruct (N.eqb_spec n 0) as [Hz|Hz].
      * destruct (_ || zero_eof); [right; eauto|apply IH].
      * destruct (N.leb_spec want n) as [Hwn|Hwn].
        { left. assert (n = want) as Hnw by lia. exists sc. unfold fill_ideal.
          destruct (N.leb_spec want (len s0)); [|lia]. now rewrite Hnw. }
        destruct (IH (want - n) (dropN n s0)) as [(sc' & ->)|(m & r & sc' & ->)]; [|right; eauto].
        left. exists sc'. unfold fill_ideal. rewrite len_dropN.
        destruct (N.leb_spec (want - n) (len s0 - n)); destruct (N.leb_spec want (len s0)); try lia.
        -- rewrite dropN_add, <- takeN_add. replace (n + (want - n)) with want by lia. reflexivity.
        -- destruct closed; [|reflexivity]. f_equal. lia.
Qed.

Lemma readfrom_generic_any closed : forall bufs sc s,
  (exists sc', readfrom_generic closed sc bufs s = fill_ideal closed (sumN bufs) s sc') \/
  (exists n r sc', readfrom_generic closed sc bufs s = FEof n r sc').
Proof.
  induction bufs as [|b bs IH]; intros sc s.
  - left. exists sc. cbn [readfrom_generic sumN]. unfold fill_ideal.
    destruct (N.leb_spec 0 (len s)); [|lia]. now rewrite takeN_0, dropN_0.
  - cbn [readfrom_generic sumN].
    destruct (fill_any true closed sc b s) as [(sc1 & ->)|(n & r & sc1 & ->)]; [|right; eauto].
    unfold fill_ideal. destruct (N.leb_spec b (len s)) as [Hb|Hb].
    + destruct (IH sc1 (dropN b s)) as [(sc2 & ->)|(n & r & sc2 & ->)]; [|right; eauto].
      left. exists sc2. unfold fill_ideal. rewrite len_dropN, len_takeN.
      destruct (N.leb_spec (sumN bs) (len s - b)); destruct (N.leb_spec (b + sumN bs) (len s)); try lia.
      * now rewrite dropN_add, <- takeN_add.
      * destruct closed; [|reflexivity]. f_equal. lia.
    + left. exists sc1. unfold fill_ideal.
      destruct (N.leb_spec (b + sumN bs) (len s)); [lia|]. destruct closed; reflexivity.
Qed.

(** *** C17_fill, generic path: the nested loops of Buffers.ReadFrom *)
Lemma readfrom_generic_spec closed : forall bufs sc s,
  pos_script sc ->
  exists sc', suffix_of sc' sc /\ readfrom_generic closed sc bufs s = fill_ideal closed (sumN bufs) s sc'.
Proof.
  induction bufs as [|b bs IH]; intros sc s Hpos.
  - exists sc. split; [apply suffix_refl|]. cbn [readfrom_generic sumN]. unfold fill_ideal.
    destruct (N.leb_spec 0 (len s)); [|lia]. now rewrite takeN_0, dropN_0.
  - cbn [readfrom_generic sumN].
    destruct (fill_spec true closed sc b s (fun _ => Hpos)) as (sc1 & Hs1 & ->).
    unfold fill_ideal at 1. destruct (N.leb_spec b (len s)) as [Hb|Hb].
    + destruct (IH sc1 (dropN b s) (pos_suffix _ _ Hs1 Hpos)) as (sc2 & Hs2 & ->).
      exists sc2. split; [eapply suffix_trans; eauto|]. unfold fill_ideal. rewrite len_dropN, len_takeN.
      destruct (N.leb_spec (sumN bs) (len s - b)); destruct (N.leb_spec (b + sumN bs) (len s)); try lia.
      * now rewrite dropN_add, <- takeN_add.
      * destruct closed; [|reflexivity]. f_equal. lia.
    + exists sc1. split; [assumption|]. unfold fill_ideal.
      destruct (N.leb_spec (b + sumN bs) (len s)); [lia|]. destruct closed; reflexivity.
Qed.

Lemma consume_iov_spec : forall views cur,
  cur <= sumN views -> exists views', consume_iov cur views = Some views' /\ sumN views' = sumN views - cur.
Proof.
  induction views as [|b r IH]; intros cur H; cbn [sumN] in H.
  - assert (cur = 0) as -> by lia. exists []. split; [reflexivity|]. cbn. lia.
  - cbn [consume_iov]. destruct (N.eqb_spec cur 0) as [->|Hc].
    + exists (b :: r). split; [reflexivity|]. lia.
    + destruct (N.leb_spec b cur).
      * destruct (IH (cur - b)) as (v & -> & Hv); [lia|]. exists v. split; [reflexivity|]. cbn [sumN]. lia.
      * exists ((b - cur) :: r). split; [reflexivity|]. cbn [sumN]. lia.
Qed.

(** *** C17_fill, recvmsg path: any positive prefix per call, iovec consumption loop *)
Lemma readfrom_vec_spec closed : forall sc need views acc s,
  need = sumN views ->
  exists sc', suffix_of sc' sc /\
    readfrom_vec closed sc need views acc s =
      if need <=? len s then FDone (acc ++ takeN need s) (dropN need s) sc'
      else if closed then FEof (len acc + len s) [] sc' else FBlock.
Proof.
  induction sc as [|e sc IH]; intros need views acc s Hneed.
  - exists []. split; [apply suffix_refl|]. cbn [readfrom_vec].
    destruct (N.eqb_spec need 0) as [Hz|Hz].
    { rewrite Hz. destruct (N.leb_spec 0 (len s)); [|lia]. now rewrite takeN_0, dropN_0, app_nil_r. }
    rewrite <- Hneed. set (cur := N.min need (len s)).
    destruct (N.leb_spec need cur); destruct (N.leb_spec need (len s)); try lia.
    + destruct (consume_iov_spec views cur) as (v & -> & _); [lia|]. now replace cur with need by lia.
    + destruct closed; [|reflexivity]. replace cur with (len s) by lia. now rewrite dropN_all by lia.
  - cbn [readfrom_vec]. destruct (N.eqb_spec need 0) as [Hz|Hz].
    { exists (e :: sc). split; [apply suffix_refl|]. rewrite Hz.
      destruct (N.leb_spec 0 (len s)); [|lia]. now rewrite takeN_0, dropN_0, app_nil_r. }
    destruct s as [|x s].
    + exists sc. split; [apply suffix_cons, suffix_refl|]. rewrite len_nil.
      destruct (N.leb_spec need 0); [lia|]. destruct closed; [|reflexivity]. f_equal. lia.
    + set (s0 := x :: s). assert (Hs0 : 0 < len s0) by (unfold s0; rewrite len_cons; lia).
      rewrite <- Hneed. set (cur := N.min (fst e) (N.min need (len s0))).
      destruct (N.eqb_spec need 0); [lia|]. cbn [negb]. rewrite andb_true_r.
      destruct (N.eqb_spec cur 0) as [Hc|Hc].
      * destruct (IH need views acc s0 Hneed) as (sc' & Hsuf & ->).
        exists sc'. split; [apply suffix_cons, Hsuf|reflexivity].
      * destruct (consume_iov_spec views cur) as (v & -> & Hv); [lia|].
        destruct (IH (need - cur) v (acc ++ takeN cur s0) (dropN cur s0)) as (sc' & Hsuf & ->); [lia|].
        exists sc'. split; [apply suffix_cons, Hsuf|]. rewrite len_dropN, len_app, len_takeN.
        destruct (N.leb_spec (need - cur) (len s0 - cur)); destruct (N.leb_spec need (len s0)); try lia.
        -- rewrite dropN_add, <- app_assoc, <- takeN_add. replace (cur + (need - cur)) with need by lia. reflexivity.
        -- destruct closed; [|reflexivity]. f_equal. lia.
Qed.

Theorem read_bufs_spec p closed sc bufs s :
  script_ok p sc ->
  exists sc', suffix_of sc' sc /\ read_bufs p closed sc bufs s = fill_ideal closed (sumN bufs) s sc'.
Proof.
  destruct p; cbn [script_ok read_bufs]; intros H.
  - now apply readfrom_generic_spec.
  - destruct (readfrom_vec_spec closed sc (sumN bufs) bufs [] s eq_refl) as (sc' & Hs & ->).
    exists sc'. split; [assumption|]. unfold fill_ideal. cbn [app]. rewrite len_nil, N.add_0_l. reflexivity.
Qed.

Lemma discard_spec closed : forall sc left s,
  exists sc', suffix_of sc' sc /\
    discard closed sc left s =
      if left <=? len s then DGot left (dropN left s) sc'
      else if closed then DGot (len s) [] sc' else DBlock.
Proof.
  induction sc as [|e sc IH]; intros left s.
  - exists []. split; [apply suffix_refl|]. cbn [discard].
    destruct (N.eqb_spec left 0) as [->|Hz]; [|reflexivity].
    destruct (N.leb_spec 0 (len s)); [|lia]. now rewrite dropN_0.
  - cbn [discard]. destruct (N.eqb_spec left 0) as [->|Hz].
    { exists (e :: sc). split; [apply suffix_refl|]. destruct (N.leb_spec 0 (len s)); [|lia]. now rewrite dropN_0. }
    destruct s as [|x s].
    + exists sc. split; [apply suffix_cons, suffix_refl|]. cbn [read1]. rewrite len_nil.
      destruct (N.leb_spec left 0); [lia|]. destruct closed; reflexivity.
    + cbn [read1]. set (s0 := x :: s). assert (Hs0 : 0 < len s0) by (unfold s0; rewrite len_cons; lia).
      set (n := N.min (fst e) (N.min (N.min left discardChunk) (len s0))).
      assert (Hn : len (takeN n s0) = n) by (rewrite len_takeN; lia).
      assert (Hnl : n <= left) by lia.
      rewrite Hn. destruct (closed && snd e && is_nil (dropN n s0)) eqn:Heof.
      * (* data together with io.EOF: the stream is exhausted *)
        apply andb_true_iff in Heof. destruct Heof as [Hce Hnil]. apply andb_true_iff in Hce. destruct Hce as [-> _].
        assert (Hd : dropN n s0 = []) by (destruct (dropN n s0); [reflexivity|discriminate]).
        assert (Hlen : len s0 = n). { pose proof (len_dropN s0 n) as H. rewrite Hd, len_nil in H. lia. }
        exists sc. split; [apply suffix_cons, suffix_refl|]. rewrite Hd.
        destruct (N.leb_spec left (len s0)).
        -- assert (Hln : left = n) by lia. rewrite Hln. now rewrite Hd.
        -- now rewrite Hlen.
      * destruct (IH (left - n) (dropN n s0)) as (sc' & Hsuf & ->).
        exists sc'. split; [apply suffix_cons, Hsuf|]. rewrite len_dropN.
        destruct (N.leb_spec (left - n) (len s0 - n)); destruct (N.leb_spec left (len s0)); try lia.
        -- rewrite dropN_add. replace (n + (left - n)) with left by lia. reflexivity.
        -- destruct closed; [|reflexivity]. f_equal. lia.
Qed.

Section RecvRd.
  Variable lookup : N -> N -> lookup_result.
  Variable decode_ok : N -> list N -> list N -> bool.

  Notation recv := (recv lookup decode_ok).
  Notation recv_rd := (recv_rd lookup decode_ok).

  (** *** C17_recv_indep: over either path and any script, recv answers exactly as on the flat
      stream and leaves exactly the bytes after what it consumed *)
  Theorem recv_rd_spec p closed msize sc s :
    script_ok p sc ->
    exists sc', suffix_of sc' sc /\
      recv_rd p closed msize sc s =
        RR (fst (recv closed msize s)) (dropN (consumed (fst (recv closed msize s))) s) sc'.
  Proof.
    intros Hok. unfold Reader.recv_rd, Model.recv. rewrite headerLength_eq.
    destruct (fill_spec false closed sc 7 s (fun H => ltac:(discriminate))) as (sc1 & Hs1 & ->).
    unfold fill_ideal. destruct (N.leb_spec 7 (len s)) as [L|L]; destruct (N.ltb_spec (len s) 7) as [L'|L']; try lia.
    2:{ destruct closed; cbn [fst consumed].
        - exists sc1. split; [assumption|]. now rewrite dropN_all by lia.
        - exists sc. split; [apply suffix_refl|]. now rewrite dropN_0. }
    rewrite le32_takeN, hdr_tag_takeN, hdr_typ_takeN by lia.
    destruct (hdr_check msize (le32 s)) eqn:Hc; cbn [negb].
    2:{ exists sc1. split; [assumption|]. reflexivity. }
    pose proof (proj1 (hdr_check_spec lookup decode_ok _ _) Hc) as (H7 & Hm & Hsz).
    destruct (plan_of lookup _ _ _) as [t|fixed] eqn:Hp; cbn [fst].
    - destruct (discard_spec closed sc1 (le32 s - 7) (dropN 7 s)) as (sc2 & Hs2 & ->).
      rewrite len_dropN.
      destruct (N.leb_spec (le32 s - 7) (len s - 7)).
      + exists sc2. split; [eapply suffix_trans; eauto|]. cbn [consumed].
        rewrite dropN_add. replace (7 + (le32 s - 7)) with (le32 s) by lia. reflexivity.
      + destruct closed; cbn [consumed].
        * exists sc2. split; [eapply suffix_trans; eauto|]. now rewrite dropN_all by lia.
        * exists sc. split; [apply suffix_refl|]. now rewrite dropN_0.
    - pose proof (plan_body_le lookup decode_ok _ _ _ _ Hp) as Hf.
      destruct (read_bufs_spec p closed sc1 (body_bufs fixed (le32 s - 7)) (dropN 7 s)) as (sc2 & Hs2 & ->);
        [eapply ok_suffix; eauto|].
      rewrite (sum_body_bufs lookup decode_ok) by assumption. unfold fill_ideal. rewrite len_dropN.
      destruct (N.leb_spec (le32 s - 7) (len s - 7)).
      + exists sc2. split; [eapply suffix_trans; eauto|].
        rewrite takeN_takeN by lia. rewrite dropN_takeN.
        assert (Hcons : consumed (finish decode_ok (hdr_tag s) (hdr_typ s) (le32 s) (takeN fixed (dropN 7 s))
                                    (takeN (le32 s - 7 - fixed) (dropN fixed (dropN 7 s)))) = le32 s)
          by (unfold finish; destruct (decode_ok _ _ _); reflexivity).
        rewrite Hcons, (dropN_add s 7 (le32 s - 7)). replace (7 + (le32 s - 7)) with (le32 s) by lia. reflexivity.
      + destruct closed; cbn [consumed].
        * exists sc2. split; [eapply suffix_trans; eauto|]. now rewrite dropN_all by lia.
        * exists sc. split; [apply suffix_refl|]. now rewrite dropN_0.
  Qed.

  (** *** safety under any reader whatsoever on the generic path (Reads handing over nothing included):
      recv answers as on the flat stream, or gives up the connection; it never delivers or rejects
      anything else *)
  Theorem recv_rd_generic_safe closed msize sc s :
    (exists r sc', recv_rd PGeneric closed msize sc s = RR (fst (recv closed msize s)) r sc') \/
    (exists c r sc', recv_rd PGeneric closed msize sc s = RR (ConnErr c) r sc').
  Proof.
    unfold Reader.recv_rd, Model.recv. rewrite headerLength_eq.
    destruct (fill_spec false closed sc 7 s (fun H => ltac:(discriminate))) as (sc1 & Hs1 & ->).
    unfold fill_ideal. destruct (N.leb_spec 7 (len s)) as [L|L]; destruct (N.ltb_spec (len s) 7) as [L'|L']; try lia.
    2:{ destruct closed; cbn [fst]; left; eauto. }
    rewrite le32_takeN, hdr_tag_takeN, hdr_typ_takeN by lia.
    destruct (hdr_check msize (le32 s)) eqn:Hc; cbn [negb]; [|left; eauto].
    pose proof (proj1 (hdr_check_spec lookup decode_ok _ _) Hc) as (H7 & Hm & Hsz).
    destruct (plan_of lookup _ _ _) as [t|fixed] eqn:Hp; cbn [fst].
    - destruct (discard_spec closed sc1 (le32 s - 7) (dropN 7 s)) as (sc2 & Hs2 & ->).
      rewrite len_dropN. left.
      destruct (N.leb_spec (le32 s - 7) (len s - 7)).
      + replace (7 + (le32 s - 7)) with (le32 s) by lia. eauto.
      + destruct closed; eauto.
    - pose proof (plan_body_le lookup decode_ok _ _ _ _ Hp) as Hf. cbn [read_bufs].
      destruct (readfrom_generic_any closed (body_bufs fixed (le32 s - 7)) sc1 (dropN 7 s)) as [(sc2 & ->)|(n & r & sc2 & ->)];
        [|right; eauto].
      rewrite (sum_body_bufs lookup decode_ok) by assumption. unfold fill_ideal. rewrite len_dropN. left.
      destruct (N.leb_spec (le32 s - 7) (len s - 7)).
      + rewrite takeN_takeN by lia. rewrite dropN_takeN. eauto.
      + destruct closed; eauto.
  Qed.

  (** *** the whole receive loop: same events whatever the segmentation, on both paths *)
  Theorem serve_rd_spec p closed msize : forall n sc s,
    script_ok p sc ->
    serve_rd_fuel lookup decode_ok n p closed msize sc s = Some (serve_fuel lookup decode_ok n closed msize s).
  Proof.
    induction n as [|n IH]; intros sc s Hok; [reflexivity|].
    cbn [serve_rd_fuel serve_fuel].
    destruct (recv_rd_spec p closed msize sc s Hok) as (sc' & Hsuf & ->).
    pose proof (ok_suffix p _ _ Hsuf Hok) as Hok'.
    destruct (fst (recv closed msize s)) as [|c|t c|t ty b pl c]; try reflexivity; cbn [consumed];
      rewrite IH by assumption; reflexivity.
  Qed.

  Corollary serve_rd_indep p closed msize sc s :
    script_ok p sc -> serve_rd lookup decode_ok p closed msize sc s = Some (serve lookup decode_ok closed msize s).
  Proof. intros H. unfold serve_rd, serve. now apply serve_rd_spec. Qed.

  (** *** a stream that ends inside a frame: connection error (or, for a frame being thrown away,
      its rejection), never a delivery -- whatever the segmentation *)
  Corollary recv_rd_midframe p msize sc f k :
    script_ok p sc -> well_delimited msize f -> k < len f ->
    exists o r sc', recv_rd p true msize sc (takeN k f) = RR o r sc' /\
      match o with ConnErr c | Reject _ c => c = k | _ => False end.
  Proof.
    intros Hok Hw Hk.
    destruct (recv_rd_spec p true msize sc (takeN k f) Hok) as (sc' & _ & E).
    pose proof (recv_truncated lookup decode_ok true msize f k Hw Hk) as Ht.
    eexists _, _, _. split; [exact E|].
    destruct (fst (recv true msize (takeN k f))); try tauto; try discriminate.
  Qed.
End RecvRd.
