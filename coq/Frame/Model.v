(** Frame layer of p9/transport.go [recv] and the receive loop of p9/server.go
    [handleRequest], independent of message layouts (C02, C17).

    The model is parametrised by
      [lookup tag typ]   what [lookup(tag, t)] answers: unknown type, a plain message,
                         or a payloader with its [FixedSize()];
      [decode_ok typ body payload]   "m.decode(&dataBuf) did not overrun".
    Streams are [list N] (any N accepted as a byte).  Definitions only. *)
From Coq Require Import NArith List Bool.
From P9V Require Import gen.ConstGen.
Import ListNotations.
Open Scope N_scope.

Definition len (s : list N) : N := N.of_nat (length s).

(** [s[:n]] / [s[n:]] clipped to the length; recursion on the list so that a
    huge [n] costs nothing under vm_compute. *)
Fixpoint takeN (n : N) (s : list N) : list N :=
  match s with
  | [] => []
  | x :: r => if n =? 0 then [] else x :: takeN (N.pred n) r
  end.

Fixpoint dropN (n : N) (s : list N) : list N :=
  match s with
  | [] => []
  | x :: r => if n =? 0 then s else dropN (N.pred n) r
  end.

Fixpoint sumN (l : list N) : N :=
  match l with [] => 0 | x :: r => x + sumN r end.

Fixpoint maxN (l : list N) : N :=
  match l with [] => 0 | x :: r => N.max x (maxN r) end.

Definition is_nil (s : list N) : bool := match s with [] => true | _ => false end.

(** header fields: size[4] type[1] tag[2], little endian *)
Definition le32 (s : list N) : N :=
  match s with
  | a :: b :: c :: d :: _ => a + 256 * b + 65536 * c + 16777216 * d
  | _ => 0
  end.
Definition hdr_typ (s : list N) : N := nth 4 s 0.
Definition hdr_tag (s : list N) : N :=
  match s with
  | _ :: _ :: _ :: _ :: _ :: a :: b :: _ => a + 256 * b
  | _ => 0
  end.

Definition headerLength : N := p9_headerLength.
Definition maximumLength : N := p9_maximumLength.
Definition noTag : N := p9_noTag.
(** io.Discard's pooled scratch buffer (io.blackHolePool), Go standard library *)
Definition discardChunk : N := 8192.

Inductive lookup_result := LkUnknown | LkPlain | LkPayloader (fixed : N).

Inductive outcome :=
| NeedMore                                   (* blocked in a Read: the stream is open and has no more bytes *)
| ConnErr (consumed : N)                     (* ConnError{...}: the connection is given up *)
| Reject (tag : N) (consumed : N)            (* non-connection error returned with this tag *)
| Deliver (tag typ : N) (body payload : list N) (consumed : N).

Definition consumed (o : outcome) : N :=
  match o with
  | NeedMore => 0
  | ConnErr c | Reject _ c | Deliver _ _ _ _ c => c
  end.

(** size checks of recv, done before anything is allocated *)
Definition hdr_check (msize size : N) : bool :=
  (headerLength <=? size) && (size <=? maximumLength) && (size <=? msize).

(** what recv does with the [remaining = size-7] bytes after a good header *)
Inductive plan := PDiscard (tag : N) | PBody (fixed : N).

Definition nz (n : N) : list N := if n =? 0 then [] else [n].

(** buffers appended to [vecs]: fixed part ([appendBuffer]), then payload ([make(remaining-fixed)]) *)
Definition body_bufs (fixed remaining : N) : list N := nz fixed ++ nz (remaining - fixed).

Section Recv.
  Variable lookup : N -> N -> lookup_result.
  Variable decode_ok : N -> list N -> list N -> bool.

  Definition plan_of (tag typ remaining : N) : plan :=
    match lookup tag typ with
    | LkUnknown => PDiscard tag                        (* return tag, nil, err *)
    | LkPlain => PBody remaining
    | LkPayloader f => if remaining <? f then PDiscard noTag else PBody f
    end.

  Definition finish (tag typ size : N) (body pay : list N) : outcome :=
    if decode_ok typ body pay then Deliver tag typ body pay size else Reject noTag size.

  (** [recv] on the bytes that are (so far) available; [closed] says whether the
      peer has closed the stream after them.  Second component: the sizes of the
      buffers read into for this frame (header array first). *)
  Definition recv (closed : bool) (msize : N) (s : list N) : outcome * list N :=
    if len s <? headerLength then ((if closed then ConnErr (len s) else NeedMore), [headerLength])
    else
      let size := le32 s in
      if negb (hdr_check msize size) then (ConnErr headerLength, [headerLength])
      else
        let tag := hdr_tag s in
        let typ := hdr_typ s in
        let remaining := size - headerLength in
        let s' := dropN headerLength s in
        match plan_of tag typ remaining with
        | PDiscard t =>
            ((if remaining <=? len s' then Reject t size
              else if closed then Reject t (headerLength + len s') else NeedMore),
             headerLength :: nz (N.min remaining discardChunk))
        | PBody fixed =>
            ((if remaining <=? len s' then
                finish tag typ size (takeN fixed s') (takeN (remaining - fixed) (dropN fixed s'))
              else if closed then ConnErr (headerLength + len s') else NeedMore),
             headerLength :: body_bufs fixed remaining)
        end.

  (** the server's receive loop: what happens for each frame in turn *)
  Inductive event :=
  | EvDeliver (tag typ : N) (body payload : list N)    (* handled, one reply with this tag *)
  | EvRlerror (tag : N)                                (* send(tag, newErr(err)) and go on *)
  | EvShutdown                                         (* recvShutdown: Handle returns *)
  | EvWait.                                            (* blocked reading an open stream *)

  Fixpoint serve_fuel (n : nat) (closed : bool) (msize : N) (s : list N) : list event :=
    match n with
    | O => []
    | S n' =>
        match fst (recv closed msize s) with
        | NeedMore => [EvWait]
        | ConnErr _ => [EvShutdown]
        | Reject t c => EvRlerror t :: serve_fuel n' closed msize (dropN c s)
        | Deliver t ty b p c => EvDeliver t ty b p :: serve_fuel n' closed msize (dropN c s)
        end
    end.

  Definition serve (closed : bool) (msize : N) (s : list N) : list event :=
    serve_fuel (S (length s)) closed msize s.

  (** the event a well-delimited frame gives rise to, looked at alone *)
  Definition frame_event (msize : N) (f : list N) : event :=
    match fst (recv true msize f) with
    | Deliver t ty b p _ => EvDeliver t ty b p
    | Reject t _ => EvRlerror t
    | ConnErr _ => EvShutdown
    | NeedMore => EvWait
    end.

  (** what the server writes for an event: (reply tag, must it be an Rlerror?) -- handleRequest sends
      newErr(err) with the tag recv returned for a rejected frame; a delivered request is answered by
      its handler with the request's tag *)
  Definition reply_of (e : event) : list (N * bool) :=
    match e with
    | EvDeliver t _ _ _ => [(t, false)]
    | EvRlerror t => [(t, true)]
    | EvShutdown | EvWait => []
    end.
  Definition replies (evs : list event) : list (N * bool) := flat_map reply_of evs.

  (** the reply a well-delimited frame must get, read off the frame itself *)
  Definition frame_reply (f : list N) : N * bool :=
    let tag := hdr_tag f in
    let typ := hdr_typ f in
    let body := dropN headerLength f in
    match plan_of tag typ (len f - headerLength) with
    | PDiscard t => (t, true)                 (* unknown type: own tag; short fixed part: NOTAG *)
    | PBody fixed => if decode_ok typ (takeN fixed body) (dropN fixed body) then (tag, false) else (noTag, true)
    end.

  (** a frame whose size field is its length and passes the header checks *)
  Definition well_delimited (msize : N) (f : list N) : Prop :=
    le32 f = len f /\ hdr_check msize (len f) = true.
End Recv.
