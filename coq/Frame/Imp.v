(** A tiny imperative language for the iovec-advance code of vecnet/vecnet_linux.go
    readFromBuffersLinux (C17, C02): what go2coq VecGen emits, statement by statement, for the part of the
    receive loop that runs after each recvmsg.  State: integer variables (Go int; Z here, the values are
    buffer lengths) and [bufs], the lengths of the remaining (re-sliced) buffers.  Index and slice
    expressions panic as in Go.  Definitions only. *)
From Coq Require Import ZArith NArith List String Bool.
Import ListNotations.
Open Scope Z_scope.

Inductive iexp :=
| ILit (z : Z)
| IVar (x : string)
| ILenHead                       (* len(bufs[0]): panics when bufs is empty *)
| ILenBufs                       (* len(bufs) *)
| IAdd (a b : iexp)
| ISub (a b : iexp).

Inductive bexp :=
| BLe (a b : iexp)
| BLt (a b : iexp)
| BEq (a b : iexp)
| BNot (c : bexp)
| BAnd (c d : bexp)              (* short circuit, as Go's && *)
| BOr (c d : bexp).

Inductive stmt :=
| SSet (x : string) (e : iexp)                       (* x := e / x = e / x += e (as x = x + e) *)
| SDrop (e : iexp)                                   (* bufs = bufs[e:] *)
| SAdvHead (e : iexp)                                (* bufs[0] = bufs[0][e:] *)
| SIf (c : bexp) (t e : list stmt)
| SLoop (c : bexp) (body post : list stmt)           (* for ; c ; post { body } *)
| SBreak.

Definition env := list (string * Z).

Fixpoint getv (x : string) (e : env) : Z :=
  match e with [] => 0 | (y, v) :: r => if String.eqb x y then v else getv x r end.

Record st := { vars : env; bufs : list Z }.

Fixpoint evali (e : iexp) (s : st) : option Z :=
  match e with
  | ILit z => Some z
  | IVar x => Some (getv x (vars s))
  | ILenHead => match bufs s with [] => None | b :: _ => Some b end
  | ILenBufs => Some (Z.of_nat (List.length (bufs s)))
  | IAdd a b => match evali a s, evali b s with Some x, Some y => Some (x + y) | _, _ => None end
  | ISub a b => match evali a s, evali b s with Some x, Some y => Some (x - y) | _, _ => None end
  end.

Fixpoint evalb (c : bexp) (s : st) : option bool :=
  match c with
  | BLe a b => match evali a s, evali b s with Some x, Some y => Some (x <=? y) | _, _ => None end
  | BLt a b => match evali a s, evali b s with Some x, Some y => Some (x <? y) | _, _ => None end
  | BEq a b => match evali a s, evali b s with Some x, Some y => Some (x =? y) | _, _ => None end
  | BNot c => option_map negb (evalb c s)
  | BAnd c d => match evalb c s with Some true => evalb d s | o => o end
  | BOr c d => match evalb c s with Some false => evalb d s | o => o end
  end.

Inductive res := RNorm (s : st) | RBrk (s : st) | RPanicked | ROutOfFuel.

Fixpoint exec (fuel : nat) (s : stmt) (σ : st) {struct fuel} : res :=
  match fuel with
  | O => ROutOfFuel
  | S f =>
      let execs := fix execs (l : list stmt) (σ : st) : res :=
        match l with
        | [] => RNorm σ
        | s :: r => match exec f s σ with RNorm σ' => execs r σ' | o => o end
        end in
      match s with
      | SSet x e => match evali e σ with Some v => RNorm {| vars := (x, v) :: vars σ; bufs := bufs σ |} | None => RPanicked end
      | SDrop e =>
          match evali e σ with
          | Some k => if (k <? 0) || (Z.of_nat (List.length (bufs σ)) <? k) then RPanicked
                      else RNorm {| vars := vars σ; bufs := skipn (Z.to_nat k) (bufs σ) |}
          | None => RPanicked
          end
      | SAdvHead e =>
          match evali e σ, bufs σ with
          | Some k, b :: r => if (k <? 0) || (b <? k) then RPanicked else RNorm {| vars := vars σ; bufs := (b - k) :: r |}
          | _, _ => RPanicked
          end
      | SIf c t e =>
          match evalb c σ with Some true => execs t σ | Some false => execs e σ | None => RPanicked end
      | SLoop c body post =>
          match evalb c σ with
          | None => RPanicked
          | Some false => RNorm σ
          | Some true =>
              match execs body σ with
              | RNorm σ' => match execs post σ' with RNorm σ'' => exec f (SLoop c body post) σ'' | RBrk _ => RPanicked | o => o end
              | RBrk σ' => RNorm σ'
              | o => o
              end
          end
      | SBreak => RBrk σ
      end
  end.

Fixpoint execs (fuel : nat) (l : list stmt) (σ : st) : res :=
  match l with
  | [] => RNorm σ
  | s :: r => match exec fuel s σ with RNorm σ' => execs fuel r σ' | o => o end
  end.

(** the advance code run after a recvmsg that returned [cur] bytes into buffers of lengths [views]:
    [Some views'] the buffers it leaves for the retry; [None] a Go panic (or a loop that does not end) *)
Definition run_advance (prog : list stmt) (curname : string) (cur : N) (views : list N) : option (list N) :=
  match execs 64 prog {| vars := [(curname, Z.of_N cur)]; bufs := map Z.of_N views |} with
  | RNorm σ => Some (map Z.to_N (bufs σ))
  | _ => None
  end.
