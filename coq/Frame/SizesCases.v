(** Comparison of observed frame sizes (harness/p9/c13_sizes_test.go: raw Tread/Treaddir at a real
    Server; a real Client at a fake server) with Frame/Sizes.v, evaluated by vm_compute (C13). *)
From Coq Require Import NArith List Bool.
From P9V Require Import gen.ConstGen Frame.Sizes.
Import ListNotations.
Open Scope N_scope.

Inductive scase :=
| SConsts (largest hl maxlen tread twrite0 treaddir rread0 rreaddir0 rlerror : N)
| SSetup (ok : bool)
| SHist (hist : list tv) (announced : list N)          (* msize of each Rversion received, in order *)
    (* [hist]: the Tversions sent on this connection so far; [ann]: msize of the last Rversion that
       announced one, as observed; [err]: 0 answered, 1 connection lost, 2 no answer in time (confirmed 3x) *)
| SRead (hist : list tv) (ann count fsize off rtype rsize errno err : N) (rcount asked : option N)
| SXRead (hist : list tv) (ann count off vlen rtype rsize errno err : N) (rcount : option N)
| SReaddir (hist : list tv) (ann count : N) (sizes : list N) (rtype rsize err : N) (rcount : option N)
| SClient (req announce : N) (result : N)        (* 0 ok, 1 ErrMessageTooLarge, 2 other refusal, 3 the client stopped answering (watchdog, confirmed 3x) *)
          (msize payload : N)
          (op : N)                               (* 0 WriteAt, 1 ReadAt, 2 Readdir, 3 GetXattr *)
          (n avail : N)
          (frames : list (N * N * N))            (* Twrite/Tread/Treaddir sent: type, size, count *)
          (allsizes : list N)                    (* size of every frame sent after Tversion *)
          (answers : list (N * bool)).           (* what each Tread/Twrite was answered *)

(** [n] elements cycling through [pat] (long directory listings are written compactly) *)
Fixpoint cyc_aux (pat cur : list N) (n : nat) : list N :=
  match n with
  | O => []
  | S n' => match cur with
            | x :: r => x :: cyc_aux pat r n'
            | [] => match pat with x :: r => x :: cyc_aux pat r n' | [] => [] end
            end
  end.
Definition cyc (pat : list N) (n : N) : list N := cyc_aux pat pat (N.to_nat n).

Fixpoint list_eqb (a b : list N) : bool :=
  match a, b with
  | [], [] => true
  | x :: a', y :: b' => (x =? y) && list_eqb a' b'
  | _, _ => false
  end.

Definition opt_eqb (a : option N) (b : N) : bool := match a with Some x => x =? b | None => false end.

Definition agrees (c : scase) : bool :=
  match c with
  | SConsts l hl mx tr tw trd rr rrd rl =>
      (l =? largestFixedSize) && (hl =? p9_headerLength) && (mx =? p9_maximumLength) &&
      (tr =? tread_frame) && (tw =? twrite_frame 0) && (trd =? tread_frame) &&
      (rr =? rdata_frame 0) && (rrd =? rdata_frame 0) && (rl =? rlerrorFrame)
  | SSetup ok => ok                    (* every configuration used can be set up *)
  | SHist hist announced => list_eqb (snd (run_hist 0 hist)) announced
  | SRead hist ann count fsize off rtype rsize errno err rcount asked =>
      let cs := fst (run_hist 0 hist) in
      (err =? 0) && (ann =? cs) &&
      match tread_handle cs count (fsize - off) with
      | SData n => (rtype =? p9_msgRread) && (rsize =? replyOverhead + n) && opt_eqb rcount n &&
                   opt_eqb asked (N.min count (max_reply_payload cs))
      | SRlerror e => (rtype =? p9_msgRlerror) && (rsize =? rlerrorFrame) && (errno =? e)
      | SPanic => (rtype =? p9_msgRlerror) && (rsize =? rlerrorFrame) && (errno =? EFAULT)
      end
  | SXRead hist ann count off vlen rtype rsize errno err rcount =>
      let cs := fst (run_hist 0 hist) in
      (err =? 0) && (ann =? cs) &&
      match txread_handle cs count off vlen with
      | SData n => (rtype =? p9_msgRread) && (rsize =? replyOverhead + n) && opt_eqb rcount n
      | SRlerror e => (rtype =? p9_msgRlerror) && (rsize =? rlerrorFrame) && (errno =? e)
      | SPanic => (rtype =? p9_msgRlerror) && (rsize =? rlerrorFrame) && (errno =? EFAULT)
      end
  | SReaddir hist ann count sizes rtype rsize err rcount =>
      let cs := fst (run_hist 0 hist) in
      (err =? 0) && (ann =? cs) &&
      match treaddir_handle cs count sizes with
      | SData n => (rtype =? p9_msgRreaddir) && (rsize =? replyOverhead + n) && opt_eqb rcount n
      | _ => false
      end
  | SClient req announce result msize payload op n avail frames allsizes answers =>
      match adopt req announce with
      | None => result =? 1
      | Some m =>
          (result =? 0) && (msize =? m) && (payload =? payload_size m) &&
          let counts := map (fun f => snd f) frames in
          if op =? 0 then
            list_eqb counts (chunk_requests payload n answers) &&
            forallb (fun '(ty, sz, cnt) => (ty =? p9_msgTwrite) && (sz =? twrite_frame cnt)) frames
          else if op =? 1 then
            list_eqb counts (chunk_requests payload n answers) &&
            forallb (fun '(ty, sz, cnt) => (ty =? p9_msgTread) && (sz =? tread_frame)) frames
          else if op =? 2 then
            match frames with
            | [(ty, sz, cnt)] => (ty =? p9_msgTreaddir) && (sz =? tread_frame) && (cnt =? readdir_count m n)
            | _ => false
            end
          else
            list_eqb counts (if avail =? 0 then [] else chunk_requests payload avail answers)
      end
  end.

(** the property on the observed sizes only *)
Definition property_holds (c : scase) : bool :=
  match c with
  (* [ann] is what the peer saw announced last; a connection lost (err 1) means some reply could not be
     read as a frame; a confirmed stall (err 2) is not a size violation: it is reported through [agrees]
     (the model says the call returns).  A handler panic (Rlerror EFAULT) is a failure to shorten the data. *)
  | SRead _ ann _ _ _ _ rsize errno err _ _ => negb (err =? 1) && (rsize <=? ann) && negb (errno =? EFAULT)
  | SXRead _ ann _ _ _ _ rsize errno err _ => negb (err =? 1) && (rsize <=? ann) && negb (errno =? EFAULT)
  | SReaddir _ ann _ _ _ rsize err _ => negb (err =? 1) && (rsize <=? ann)
  | SClient req announce result _ _ _ _ _ frames allsizes _ =>
      if (result =? 0) || (result =? 3) then
        forallb (fun sz => sz <=? announce) allsizes &&
        forallb (fun '(ty, sz, cnt) =>
                   (sz <=? announce) &&
                   (if ty =? p9_msgTwrite then true else replyOverhead + cnt <=? announce)) frames
      else true
  | _ => true
  end.

Fixpoint failing (f : scase -> bool) (i : nat) (l : list scase) : list nat :=
  match l with
  | [] => []
  | c :: r => if f c then failing f (S i) r else i :: failing f (S i) r
  end.

Definition mismatches (l : list scase) : list nat := failing agrees 0 l.
Definition property_failures (l : list scase) : list nat := failing property_holds 0 l.
