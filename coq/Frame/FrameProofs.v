(** C02: theorems about [recv] / [serve] for every byte stream, every msize, every
    lookup function and every body decoder. *)
From Coq Require Import NArith List Bool Lia ZifyN ZifyBool ZifyNat.
From P9V Require Import gen.ConstGen Frame.Model Frame.ListN.
Import ListNotations.
Open Scope N_scope.

Section Proofs.
  Variable lookup : N -> N -> lookup_result.
  Variable decode_ok : N -> list N -> list N -> bool.

  Notation recv := (recv lookup decode_ok).
  Notation serve := (serve lookup decode_ok).
  Notation serve_fuel := (serve_fuel lookup decode_ok).
  Notation plan_of := (plan_of lookup).
  Notation frame_event := (frame_event lookup decode_ok).

  Lemma hdr_check_spec msize size :
    hdr_check msize size = true <-> 7 <= size /\ size <= 4194304 /\ size <= msize.
  Proof. unfold hdr_check. rewrite headerLength_eq, maximumLength_eq. lia. Qed.

  Lemma plan_body_le tag typ remaining fixed :
    plan_of tag typ remaining = PBody fixed -> fixed <= remaining.
  Proof.
    unfold Model.plan_of. destruct (lookup tag typ) as [| |f]; try discriminate.
    - intros [= <-]. lia.
    - destruct (N.ltb_spec remaining f); [discriminate|]. intros [= <-]. lia.
  Qed.

  Lemma sum_body_bufs fixed remaining : fixed <= remaining -> sumN (body_bufs fixed remaining) = remaining.
  Proof.
    intros H. unfold body_bufs, nz.
    destruct (N.eqb_spec fixed 0), (N.eqb_spec (remaining - fixed) 0); cbn [app sumN]; lia.
  Qed.

  Lemma finish_cases tag typ size b p :
    finish decode_ok tag typ size b p = Deliver tag typ b p size /\ decode_ok typ b p = true \/
    finish decode_ok tag typ size b p = Reject noTag size /\ decode_ok typ b p = false.
  Proof. unfold finish. destruct (decode_ok typ b p); auto. Qed.

  (** *** a complete frame with acceptable size is consumed exactly, delivered or rejected *)
  Theorem recv_consumed closed msize s :
    hdr_check msize (le32 s) = true -> le32 s <= len s ->
    (exists t ty b p, fst (recv closed msize s) = Deliver t ty b p (le32 s)) \/
    (exists t, fst (recv closed msize s) = Reject t (le32 s)).
  Proof.
    intros Hc Hl. pose proof (proj1 (hdr_check_spec _ _) Hc) as (H7 & _ & _).
    unfold Model.recv. rewrite headerLength_eq.
    destruct (N.ltb_spec (len s) 7); [lia|]. rewrite Hc. cbn [negb].
    destruct (plan_of _ _ _) as [t|fixed]; cbn [fst].
    - right. exists t. rewrite len_dropN. destruct (N.leb_spec (le32 s - 7) (len s - 7)); [reflexivity|lia].
    - rewrite len_dropN. destruct (N.leb_spec (le32 s - 7) (len s - 7)); [|lia].
      destruct (finish_cases (hdr_tag s) (hdr_typ s) (le32 s) (takeN fixed (dropN 7 s))
                  (takeN (le32 s - 7 - fixed) (dropN fixed (dropN 7 s)))) as [[-> _]|[-> _]]; eauto 10.
  Qed.

  (** *** a size below 7, above msize or above 4 MiB ends the connection after the 7 header bytes *)
  Theorem recv_bad_size closed msize s :
    7 <= len s -> hdr_check msize (le32 s) = false ->
    recv closed msize s = (ConnErr 7, [7]).
  Proof.
    intros H7 Hc. unfold Model.recv. rewrite headerLength_eq.
    destruct (N.ltb_spec (len s) 7); [lia|]. rewrite Hc. reflexivity.
  Qed.

  (** *** never waits when the stream is closed, the header is refused, or the frame is complete *)
  Theorem recv_no_wait closed msize s :
    closed = true \/ (7 <= len s /\ (hdr_check msize (le32 s) = false \/ le32 s <= len s)) ->
    fst (recv closed msize s) <> NeedMore.
  Proof.
    intros H. unfold Model.recv. rewrite headerLength_eq.
    destruct (N.ltb_spec (len s) 7) as [L|L].
    - destruct H as [->|[? _]]; [cbn; discriminate|lia].
    - destruct (hdr_check msize (le32 s)) eqn:Hc; cbn [negb]; [|cbn; discriminate].
      pose proof (proj1 (hdr_check_spec _ _) Hc) as (H7 & _ & _).
      destruct (plan_of _ _ _) as [t|fixed]; cbn [fst]; rewrite len_dropN.
      + destruct (N.leb_spec (le32 s - 7) (len s - 7)); [discriminate|].
        destruct H as [->|[_ [?|?]]]; [discriminate|discriminate|lia].
      + destruct (N.leb_spec (le32 s - 7) (len s - 7)).
        * unfold finish. destruct (decode_ok _ _ _); discriminate.
        * destruct H as [->|[_ [?|?]]]; [discriminate|discriminate|lia].
  Qed.

  (** *** the buffers read into for one frame never add up to more than max 7 (min msize 4MiB) *)
  Theorem recv_buffer_bound closed msize s :
    sumN (snd (recv closed msize s)) <= N.max 7 (N.min msize 4194304).
  Proof.
    unfold Model.recv. rewrite headerLength_eq.
    destruct (N.ltb_spec (len s) 7) as [L|L]; [cbn; lia|].
    destruct (hdr_check msize (le32 s)) eqn:Hc; cbn [negb]; [|cbn; lia].
    pose proof (proj1 (hdr_check_spec _ _) Hc) as (H7 & Hm & Hs).
    destruct (plan_of _ _ _) as [t|fixed] eqn:Hp; cbn [snd sumN].
    - unfold nz, discardChunk. destruct (N.eqb_spec (N.min (le32 s - 7) 8192) 0); cbn [sumN]; lia.
    - rewrite sum_body_bufs by (eapply plan_body_le; eauto). lia.
  Qed.

  (** each single buffer obeys the same bound *)
  Lemma maxN_le_sumN l : maxN l <= sumN l.
  Proof. induction l as [|x l IH]; cbn [maxN sumN]; lia. Qed.

  (** *** what a delivered message is made of: exactly the frame's own bytes *)
  Theorem recv_deliver_exact closed msize s t ty b p c :
    fst (recv closed msize s) = Deliver t ty b p c ->
    hdr_check msize (le32 s) = true /\ c = le32 s /\ c <= len s /\ t = hdr_tag s /\ ty = hdr_typ s /\
    b ++ p = takeN (c - 7) (dropN 7 s) /\ decode_ok ty b p = true /\
    (exists fixed, plan_of t ty (c - 7) = PBody fixed /\ b = takeN fixed (dropN 7 s)).
  Proof.
    unfold Model.recv. rewrite headerLength_eq.
    destruct (N.ltb_spec (len s) 7) as [L|L]; [destruct closed; discriminate|].
    destruct (hdr_check msize (le32 s)) eqn:Hc; cbn [negb]; [|discriminate].
    pose proof (proj1 (hdr_check_spec _ _) Hc) as (H7 & Hm & Hs).
    destruct (plan_of _ _ _) as [t'|fixed] eqn:Hp; cbn [fst]; rewrite len_dropN.
    - destruct (N.leb_spec (le32 s - 7) (len s - 7)); [discriminate|destruct closed; discriminate].
    - destruct (N.leb_spec (le32 s - 7) (len s - 7)); [|destruct closed; discriminate].
      unfold finish. destruct (decode_ok _ _ _) eqn:Hd; [|discriminate].
      intros [= <- <- <- <- <-]. pose proof (plan_body_le _ _ _ _ Hp) as Hf.
      repeat split; try lia; try assumption.
      + replace (le32 s - 7) with (fixed + (le32 s - 7 - fixed)) at 2 by lia. now rewrite takeN_add.
      + exists fixed. split; [assumption|reflexivity].
  Qed.

  (** *** the outcome for a well-delimited frame does not depend on what follows it *)
  Lemma recv_frame_app closed msize f rest :
    well_delimited msize f ->
    recv closed msize (f ++ rest) = recv true msize f.
  Proof.
    intros [Hsz Hc]. pose proof (proj1 (hdr_check_spec _ _) Hc) as (H7 & Hm & Hs).
    unfold Model.recv. rewrite headerLength_eq, len_app.
    destruct (N.ltb_spec (len f + len rest) 7); [lia|].
    destruct (N.ltb_spec (len f) 7); [lia|].
    rewrite le32_app, hdr_tag_app, hdr_typ_app by lia. rewrite Hsz, Hc. cbn [negb].
    rewrite dropN_app by lia.
    destruct (plan_of _ _ _) as [t|fixed] eqn:Hp; rewrite len_app, !len_dropN.
    - destruct (N.leb_spec (len f - 7) (len f - 7 + len rest)); [|lia].
      destruct (N.leb_spec (len f - 7) (len f - 7)); [reflexivity|lia].
    - destruct (N.leb_spec (len f - 7) (len f - 7 + len rest)); [|lia].
      destruct (N.leb_spec (len f - 7) (len f - 7)); [|lia].
      pose proof (plan_body_le _ _ _ _ Hp) as Hf.
      assert (Hl : len (dropN 7 f) = len f - 7) by apply len_dropN.
      rewrite takeN_app by lia. rewrite dropN_app by lia. rewrite takeN_app by (rewrite len_dropN; lia).
      reflexivity.
  Qed.

  Lemma recv_frame_consumed msize f :
    well_delimited msize f -> consumed (fst (recv true msize f)) = len f.
  Proof.
    intros [Hsz Hc].
    destruct (recv_consumed true msize f) as [(t & ty & b & p & ->)|(t & ->)]; rewrite ?Hsz; try assumption; try lia; cbn; congruence.
  Qed.

  (** Reject / Deliver consume at least the header, and never more than is there *)
  Lemma recv_progress closed msize s :
    match fst (recv closed msize s) with
    | Reject _ c | Deliver _ _ _ _ c => 7 <= c /\ c <= len s
    | _ => True
    end.
  Proof.
    unfold Model.recv. rewrite headerLength_eq.
    destruct (N.ltb_spec (len s) 7) as [L|L]; [destruct closed; exact I|].
    destruct (hdr_check msize (le32 s)) eqn:Hc; cbn [negb]; [|exact I].
    pose proof (proj1 (hdr_check_spec _ _) Hc) as (H7 & Hm & Hs).
    destruct (plan_of _ _ _) as [t|fixed]; cbn [fst]; rewrite len_dropN.
    - destruct (N.leb_spec (le32 s - 7) (len s - 7)); [lia|destruct closed; [lia|exact I]].
    - destruct (N.leb_spec (le32 s - 7) (len s - 7)); [|destruct closed; exact I].
      unfold finish. destruct (decode_ok _ _ _); lia.
  Qed.

  Lemma length_dropN_lt c s : 7 <= c -> c <= len s -> (length (dropN c s) < length s)%nat.
  Proof. intros H1 H2. pose proof (len_dropN s c) as H. unfold len in *. lia. Qed.

  Lemma serve_fuel_irrel closed msize : forall n m s,
    (length s < n)%nat -> (length s < m)%nat -> serve_fuel n closed msize s = serve_fuel m closed msize s.
  Proof.
    induction n as [|n IH]; intros m s Hn Hm; [lia|].
    destruct m as [|m]; [lia|]. cbn [Model.serve_fuel].
    pose proof (recv_progress closed msize s) as Hp.
    destruct (fst (recv closed msize s)) as [|c|t c|t ty b p c]; try reflexivity.
    - destruct Hp as [H1 H2]. pose proof (length_dropN_lt c s H1 H2). f_equal. apply IH; lia.
    - destruct Hp as [H1 H2]. pose proof (length_dropN_lt c s H1 H2). f_equal. apply IH; lia.
  Qed.

  (** *** resynchronisation: one frame *)
  Theorem serve_frame closed msize f rest :
    well_delimited msize f ->
    serve closed msize (f ++ rest) = frame_event msize f :: serve closed msize rest.
  Proof.
    intros Hw. remember (serve closed msize rest) as R eqn:HR.
    unfold Model.serve, Model.frame_event. cbn [Model.serve_fuel].
    rewrite (recv_frame_app closed msize f rest Hw).
    pose proof (recv_frame_consumed msize f Hw) as Hc.
    destruct Hw as [Hsz Hck].
    pose proof (proj1 (hdr_check_spec _ _) Hck) as (H7 & _ & _). unfold len in H7.
    destruct (recv_consumed true msize f) as [(t & ty & b & p & E)|(t & E)]; rewrite ?Hsz; try assumption; try lia;
      rewrite E in *; cbn [consumed] in Hc; rewrite Hsz, dropN_len_app; f_equal;
      subst R; unfold Model.serve; apply serve_fuel_irrel; rewrite ?app_length; lia.
  Qed.

  (** *** resynchronisation: any sequence of well-delimited frames, delivered or rejected in any mix,
      gives exactly one event per frame, in order, and then whatever the rest of the stream gives *)
  Theorem serve_frames closed msize fs rest :
    Forall (well_delimited msize) fs ->
    serve closed msize (concat fs ++ rest) = map (frame_event msize) fs ++ serve closed msize rest.
  Proof.
    induction 1 as [|f fs Hf Hfs IH]; [reflexivity|].
    cbn [concat map app]. rewrite <- app_assoc, serve_frame by assumption. now rewrite IH.
  Qed.

  (** the event of a well-delimited frame is a delivery or an Rlerror, never a shutdown or a wait *)
  Theorem frame_event_kind msize f :
    well_delimited msize f ->
    (exists t ty b p, frame_event msize f = EvDeliver t ty b p /\ b ++ p = dropN 7 f /\ decode_ok ty b p = true) \/
    (exists t, frame_event msize f = EvRlerror t).
  Proof.
    intros [Hsz Hc]. unfold Model.frame_event.
    destruct (recv_consumed true msize f) as [(t & ty & b & p & E)|(t & E)]; rewrite ?Hsz; try assumption; try lia.
    - left. exists t, ty, b, p. rewrite E. split; [reflexivity|].
      apply recv_deliver_exact in E. destruct E as (_ & _ & _ & _ & _ & Hb & Hd & _).
      rewrite Hsz in Hb. rewrite Hb. split; [|assumption]. apply takeN_all. rewrite len_dropN. lia.
    - right. exists t. now rewrite E.
  Qed.

  (** *** server level: which reply each frame gets.  Unknown type: Rlerror with the frame's own
      tag; body-level rejection (fixed part does not fit, decoder overruns): Rlerror with NOTAG;
      otherwise the request is handled and answered under its tag. *)
  Lemma frame_event_reply msize f :
    well_delimited msize f -> reply_of (frame_event msize f) = [frame_reply lookup decode_ok f].
  Proof.
    intros [Hsz Hc]. pose proof (proj1 (hdr_check_spec _ _) Hc) as (H7 & Hm & Hs).
    unfold Model.frame_event, Model.frame_reply, Model.recv. rewrite headerLength_eq.
    destruct (N.ltb_spec (len f) 7); [lia|]. rewrite Hsz, Hc. cbn [negb].
    destruct (plan_of _ _ _) as [t|fixed] eqn:Hp; cbn [fst]; rewrite len_dropN.
    - destruct (N.leb_spec (len f - 7) (len f - 7)); [reflexivity|lia].
    - destruct (N.leb_spec (len f - 7) (len f - 7)); [|lia].
      pose proof (plan_body_le _ _ _ _ Hp) as Hf.
      assert (Hpay : takeN (len f - 7 - fixed) (dropN fixed (dropN 7 f)) = dropN fixed (dropN 7 f))
        by (apply takeN_all; rewrite !len_dropN; lia).
      rewrite Hpay. unfold finish. destruct (decode_ok _ _ _); reflexivity.
  Qed.

  (** one reply per frame, in order, whatever mix of good and rejected frames; the frames after a
      rejected one are still served *)
  Theorem serve_replies closed msize fs rest :
    Forall (well_delimited msize) fs ->
    replies (serve closed msize (concat fs ++ rest)) =
      map (frame_reply lookup decode_ok) fs ++ replies (serve closed msize rest).
  Proof.
    intros H. rewrite serve_frames by assumption. unfold Model.replies. rewrite flat_map_app. f_equal.
    induction H as [|f fs Hf Hfs IH]; [reflexivity|].
    cbn [map flat_map]. rewrite frame_event_reply by assumption. cbn [app]. now rewrite IH.
  Qed.

  (** *** a refused size field shuts the connection down: nothing after it is served *)
  Theorem serve_bad_size closed msize s :
    7 <= len s -> hdr_check msize (le32 s) = false -> serve closed msize s = [EvShutdown].
  Proof.
    intros H7 Hc. unfold Model.serve. cbn [Model.serve_fuel]. now rewrite recv_bad_size.
  Qed.

  (** *** truncation at every offset: a strict prefix of a frame is never delivered *)
  Theorem recv_truncated closed msize f k :
    well_delimited msize f -> k < len f ->
    match fst (recv closed msize (takeN k f)) with
    | Deliver _ _ _ _ _ => False
    | NeedMore => closed = false
    | ConnErr c => closed = true /\ c = k
    | Reject _ c => closed = true /\ c = k
    end.
  Proof.
    intros [Hsz Hc] Hk. pose proof (proj1 (hdr_check_spec _ _) Hc) as (H7 & Hm & Hs).
    unfold Model.recv. rewrite headerLength_eq, len_takeN.
    destruct (N.ltb_spec (N.min k (len f)) 7) as [L|L].
    - destruct closed; cbn [fst]; [split; [reflexivity|lia]|reflexivity].
    - rewrite le32_takeN by lia. rewrite Hsz, Hc. cbn [negb].
      destruct (plan_of _ _ _) as [t|fixed]; cbn [fst]; rewrite len_dropN, len_takeN.
      + destruct (N.leb_spec (len f - 7) (N.min k (len f) - 7)); [lia|].
        destruct closed; [split; [reflexivity|lia]|reflexivity].
      + destruct (N.leb_spec (len f - 7) (N.min k (len f) - 7)); [lia|].
        destruct closed; [split; [reflexivity|lia]|reflexivity].
  Qed.

  (** *** totality and classification: recv answers on every stream, in one of four ways, and a
      closed stream never leaves it waiting *)
  Theorem recv_total closed msize s :
    exists o bufs, recv closed msize s = (o, bufs) /\ (closed = true -> o <> NeedMore) /\ consumed o <= len s.
  Proof.
    exists (fst (recv closed msize s)), (snd (recv closed msize s)).
    split; [apply surjective_pairing|]. split.
    - intros ->. apply recv_no_wait. now left.
    - pose proof (recv_progress closed msize s) as Hp.
      unfold Model.recv in *. rewrite headerLength_eq in *.
      destruct (N.ltb_spec (len s) 7) as [L|L]; [destruct closed; cbn [consumed fst]; lia|].
      destruct (hdr_check msize (le32 s)) eqn:Hc; cbn [negb] in *; [|cbn [consumed fst]; lia].
      destruct (plan_of _ _ _) as [t|fixed]; cbn [fst] in *; rewrite len_dropN in *.
      + destruct (N.leb_spec (le32 s - 7) (len s - 7)); cbn [consumed]; [lia|destruct closed; cbn [consumed fst]; lia].
      + destruct (N.leb_spec (le32 s - 7) (len s - 7)); [|destruct closed; cbn [consumed fst]; lia].
        revert Hp. unfold finish. destruct (decode_ok _ _ _); cbn [consumed fst]; lia.
  Qed.
End Proofs.
