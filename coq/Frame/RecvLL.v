(** C02 "never panics", as a statement instead of by construction: recv written with Go's PARTIAL operations
    -- uint32 subtraction that wraps (size - headerLength, remaining - fixedSize), the slice expression
    data[:size] on the pooled buffer (run-time panic when size exceeds the slice), make sized by a wrapped
    difference -- and an explicit panic outcome [LPanic]; proved equal to [LVal] of the total model
    Frame/Model.v recv on every stream, msize, pool content and lookup: the panic outcome is unreachable
    and no difference wraps.  (The decoders' own bounds checks: buffer.go primitives are matched exactly by
    go2coq CodecGen -- codecA's obligation -- and modelled by the option monad of Codec/Layout.v.) *)
From Coq Require Import NArith List Bool Lia ZifyN ZifyBool ZifyNat.
From P9V Require Import gen.ConstGen Frame.Model Frame.ListN Frame.FrameProofs.
Import ListNotations.
Open Scope N_scope.

Inductive ll (A : Type) := LPanic | LVal (a : A).
Arguments LPanic {A}.
Arguments LVal {A} a.

Definition u32 : N := 4294967296.
Definition sub32 (a b : N) : N := (a + u32 - b) mod u32.          (* uint32 a - b *)

(** data[:n] -- panics when n > len(data) (the pooled slices have cap = len) *)
Definition slice_to (data : list N) (n : N) : ll (list N) :=
  if len data <? n then LPanic else LVal (takeN n data).

Definition zeros (n : N) : list N := repeat 0 (N.to_nat n).

(** appendBuffer(size) on the pooled slice [pool]: the slice that becomes dataBuf.data and a read vector *)
Definition append_buffer (pool : list N) (size : N) : ll (list N) :=
  if len pool <? size then LVal (zeros size) else slice_to pool size.

(** vecs.ReadFrom on one vector, once the bytes are there: every byte of the vector is overwritten *)
Definition read_into (buf src : list N) : list N := takeN (len buf) src.

Section LL.
  Variable lookup : N -> N -> lookup_result.
  Variable decode_ok : N -> list N -> list N -> bool.

  Definition discard_out (closed : bool) (t size remaining : N) (s' : list N) : outcome * list N :=
    ((if remaining <=? len s' then Reject t size
      else if closed then Reject t (headerLength + len s') else NeedMore),
     headerLength :: nz (N.min remaining discardChunk)).

  Definition recv_ll (closed : bool) (msize : N) (pool : list N) (s : list N) : ll (outcome * list N) :=
    if len s <? headerLength then LVal ((if closed then ConnErr (len s) else NeedMore), [headerLength])
    else
      let size := le32 s in
      if size <? headerLength then LVal (ConnErr headerLength, [headerLength])
      else if (maximumLength <? size) || (msize <? size) then LVal (ConnErr headerLength, [headerLength])
      else
        let tag := hdr_tag s in
        let typ := hdr_typ s in
        let remaining := sub32 size headerLength in
        let s' := dropN headerLength s in
        match lookup tag typ with
        | LkUnknown => LVal (discard_out closed tag size remaining s')
        | LkPlain =>
            match (if remaining =? 0 then LVal [] else append_buffer pool remaining) with
            | LPanic => LPanic
            | LVal buf =>
                LVal ((if len buf <=? len s' then finish decode_ok tag typ size (read_into buf s') []
                       else if closed then ConnErr (headerLength + len s') else NeedMore),
                      headerLength :: nz (len buf))
            end
        | LkPayloader f =>
            if remaining <? f then LVal (discard_out closed noTag size remaining s')
            else
              match (if f =? 0 then LVal [] else append_buffer pool f) with
              | LPanic => LPanic
              | LVal buf =>
                  let plen := sub32 remaining f in                 (* make([]byte, remaining-fixedSize) *)
                  LVal ((if len buf + plen <=? len s' then
                           finish decode_ok tag typ size (read_into buf s') (takeN plen (dropN (len buf) s'))
                         else if closed then ConnErr (headerLength + len s') else NeedMore),
                        headerLength :: nz (len buf) ++ nz plen)
              end
        end.

  Lemma len_zeros n : len (zeros n) = n.
  Proof. unfold len, zeros. rewrite repeat_length. lia. Qed.

  Lemma append_buffer_ok pool n : exists buf, append_buffer pool n = LVal buf /\ len buf = n.
  Proof.
    unfold append_buffer, slice_to. destruct (N.ltb_spec (len pool) n) as [H|H].
    - eexists. split; [reflexivity|apply len_zeros].
    - eexists. split; [reflexivity|]. rewrite len_takeN. lia.
  Qed.

  Lemma sub32_exact a b : b <= a -> a < u32 -> sub32 a b = a - b.
  Proof.
    intros H1 H2. unfold sub32. replace (a + u32 - b) with ((a - b) + 1 * u32) by lia.
    rewrite N.mod_add by (unfold u32; lia). apply N.mod_small. lia.
  Qed.

  (** no panic, no wrap: the partial-operation version IS the total model, everywhere *)
  Theorem recv_ll_total closed msize pool s :
    recv_ll closed msize pool s = LVal (recv lookup decode_ok closed msize s).
  Proof.
    unfold recv_ll, recv. destruct (len s <? headerLength); [reflexivity|].
    unfold hdr_check. rewrite headerLength_eq, maximumLength_eq.
    destruct (N.ltb_spec (le32 s) 7) as [H7|H7].
    { destruct (N.leb_spec 7 (le32 s)); [lia|reflexivity]. }
    destruct (N.leb_spec 7 (le32 s)); [|lia]. cbn [andb].
    destruct (N.ltb_spec 4194304 (le32 s)) as [Hm|Hm].
    { destruct (N.leb_spec (le32 s) 4194304); [lia|reflexivity]. }
    destruct (N.leb_spec (le32 s) 4194304); [|lia]. cbn [orb andb].
    destruct (N.ltb_spec msize (le32 s)) as [Hs|Hs].
    { destruct (N.leb_spec (le32 s) msize); [lia|reflexivity]. }
    destruct (N.leb_spec (le32 s) msize); [|lia]. cbn [negb].
    rewrite (sub32_exact (le32 s) 7) by (unfold u32; lia).
    set (rem := le32 s - 7). set (s' := dropN 7 s).
    unfold plan_of. destruct (lookup (hdr_tag s) (hdr_typ s)) as [| |f].
    - reflexivity.
    - (* plain *)
      destruct (N.eqb_spec rem 0) as [E|E].
      + rewrite E. rewrite len_nil. unfold body_bufs, nz. cbn [N.eqb N.sub app].
        destruct (N.leb_spec 0 (len s')); [|lia]. unfold read_into. rewrite len_nil, !takeN_0. reflexivity.
      + destruct (append_buffer_ok pool rem) as (buf & -> & Hl). rewrite Hl.
        unfold read_into. rewrite Hl, N.sub_diag, takeN_0.
        unfold body_bufs. rewrite N.sub_diag. unfold nz at 3. cbn [N.eqb]. rewrite app_nil_r. reflexivity.
    - (* payloader *)
      destruct (N.ltb_spec rem f) as [Hf|Hf]; [reflexivity|].
      rewrite (sub32_exact rem f) by (unfold u32, rem; lia).
      destruct (N.eqb_spec f 0) as [E|E].
      + subst f. rewrite len_nil. unfold read_into. rewrite len_nil, !takeN_0, dropN_0, N.sub_0_r, N.add_0_l.
        unfold body_bufs. rewrite N.sub_0_r. reflexivity.
      + destruct (append_buffer_ok pool f) as (buf & -> & Hl). rewrite Hl.
        unfold read_into. rewrite Hl. replace (f + (rem - f)) with rem by lia. reflexivity.
  Qed.

  Corollary recv_never_panics closed msize pool s : recv_ll closed msize pool s <> LPanic.
  Proof. rewrite recv_ll_total. discriminate. Qed.
End LL.

(** the statement is not vacuous: with the msize / 4 MiB test moved after the subtraction, or the pooled slice cut
    without the length test, the same operations do panic / wrap *)
Example slice_to_panics : slice_to [1; 2; 3] 4 = LPanic.
Proof. reflexivity. Qed.
Example sub32_wraps : sub32 3 7 = 4294967292.
Proof. reflexivity. Qed.
