(** C02: the frame model (Frame/Model.v recv) with its decode step instantiated by the generated
    decode programs run the way recv runs them (Codec/Reuse.v recv_into: recycled object, pooled
    scratch buffer of arbitrary previous content cut to the body) -- and the table obligation that
    makes Frame/DecodeProg.v apply to every registered message type. *)
From Coq Require Import Arith NArith List String Bool Lia ZifyN ZifyBool ZifyNat.
From P9V Require Import Codec.Layout Codec.Frame Codec.Reuse Codec.ReuseProofs gen.CodecGen Codec.GenCheck
  Frame.Model Frame.Instantiate Frame.DecodeProg.
Import ListNotations.
Open Scope N_scope.

Definition good_gen (g : gen_msg) : bool :=
  match layout_of (gm_dec g) with Some ml => good g ml | None => false end.

(** obligation over gen/CodecGen.v: every registered decode program is the canonical program of its
    layout (up to resets / loop guards), never assigns its payload field, and FixedSize() is the size of
    the fixed fields + the 4-byte count *)
Lemma all_good : forallb good_gen gen_msgs = true.
Proof. vm_compute. reflexivity. Qed.

Definition dec_entry (g : gen_msg) : list (N * mlayout) :=
  match layout_of (gm_dec g) with Some ml => [(gm_typ g, ml)] | None => [] end.

(** the registry of decode layouts read off the decode programs *)
Definition gen_dec_registry : registry := flat_map dec_entry gen_msgs.

Lemma lookup_gen typ : forall l, forallb good_gen l = true ->
  Frame.lookup typ (flat_map dec_entry l) =
    match gen_find typ l with Some g => layout_of (gm_dec g) | None => None end.
Proof.
  induction l as [|g l IH]; intros H; [reflexivity|].
  cbn [forallb] in H. apply andb_true_iff in H as [Hg Hl].
  cbn [flat_map gen_find]. unfold dec_entry at 1. unfold good_gen in Hg.
  destruct (layout_of (gm_dec g)) as [ml|] eqn:E; [|discriminate].
  cbn [app Frame.lookup]. destruct (gm_typ g =? typ); [now rewrite E|now apply IH].
Qed.

(** m.decode as recv runs it: the program of the frame's type, into the object [old typ] the cache handed
    out, through a pooled buffer whose previous content is [dirty] *)
Definition decode_prog (old : N -> store) (dirty : list N) (typ : N) (body pay : list N) : bool :=
  match gen_find typ gen_msgs with
  | Some g => is_some (recv_into g (old typ) dirty (body ++ pay))
  | None => false
  end.

(** ... accepts exactly what the layout decoder accepts on exactly those bytes, whatever the object and the
    pool held: a body too short for its fields, a count that disagrees with the payload, a string running
    past the end are rejected -- never completed from bytes outside the frame *)
Theorem decode_prog_is_codec old dirty typ body pay :
  decode_prog old dirty typ body pay = decode_codec gen_dec_registry typ body pay.
Proof.
  unfold decode_prog, decode_codec, gen_dec_registry. rewrite (lookup_gen typ gen_msgs all_good).
  destruct (gen_find typ gen_msgs) as [g|] eqn:Eg; [|reflexivity].
  assert (Hin : In g gen_msgs).
  { clear - Eg. induction gen_msgs as [|h l IH]; [discriminate|]. cbn [gen_find] in Eg.
    destruct (gm_typ h =? typ); [inversion Eg; now left|right; auto]. }
  pose proof all_good as G. rewrite forallb_forall in G. specialize (G g Hin). unfold good_gen in G.
  destruct (layout_of (gm_dec g)) as [ml|]; [|discriminate].
  rewrite (recv_into_is_recv_body g ml (old typ) dirty (body ++ pay) G).
  destruct (recv_body ml (body ++ pay)); reflexivity.
Qed.

Lemma recv_ext lookup d1 d2 : (forall t b p, d1 t b p = d2 t b p) ->
  forall closed msize s, recv lookup d1 closed msize s = recv lookup d2 closed msize s.
Proof.
  intros H closed msize s. unfold recv, finish.
  destruct (len s <? headerLength); [reflexivity|].
  destruct (negb (hdr_check msize (le32 s))); [reflexivity|].
  destruct (plan_of lookup _ _ _); [reflexivity|]. now rewrite H.
Qed.

Lemma serve_fuel_ext lookup d1 d2 : (forall t b p, d1 t b p = d2 t b p) ->
  forall n closed msize s, serve_fuel lookup d1 n closed msize s = serve_fuel lookup d2 n closed msize s.
Proof.
  intros H. induction n as [|n IH]; intros closed msize s; [reflexivity|].
  cbn [serve_fuel]. rewrite (recv_ext lookup d1 d2 H).
  destruct (fst (recv lookup d2 closed msize s)); try reflexivity; now rewrite IH.
Qed.

(** recv, and the whole receive loop, with the decode programs = with the layout decoder: every theorem of
    Properties/C02.v stated for [decode_codec tbl] (deliver_values, deliver_sent, models_agree ...) holds of
    the generated programs, for every stream, object state and pool content *)
Theorem recv_with_programs old dirty closed msize s :
  recv (lookup_codec gen_dec_registry) (decode_prog old dirty) closed msize s =
  recv (lookup_codec gen_dec_registry) (decode_codec gen_dec_registry) closed msize s.
Proof. apply recv_ext. intros. apply decode_prog_is_codec. Qed.

Theorem serve_with_programs old dirty closed msize s :
  serve (lookup_codec gen_dec_registry) (decode_prog old dirty) closed msize s =
  serve (lookup_codec gen_dec_registry) (decode_codec gen_dec_registry) closed msize s.
Proof. apply serve_fuel_ext. intros. apply decode_prog_is_codec. Qed.

(** in particular nothing recv delivers depends on what the pool or the recycled object held *)
Corollary recv_pool_independent old dirty old' dirty' closed msize s :
  recv (lookup_codec gen_dec_registry) (decode_prog old dirty) closed msize s =
  recv (lookup_codec gen_dec_registry) (decode_prog old' dirty') closed msize s.
Proof. now rewrite !recv_with_programs. Qed.

(** *** the buffer handed to decode.  recv's appendBuffer limits the pooled slice to the body
    ([data = data[:size]]); [recv_into] models that by [firstn (length body) (fill dirty body)].  The variant
    that hands the WHOLE pooled slice to the decoder (seeded change C02-m3) is expressible -- and wrong: *)
Definition recv_into_unsliced (g : gen_msg) (old : store) (dirty body : list N) : option store :=
  decode_into EmptyString (gm_dec g) old (fill dirty body).

(** a Tversion whose body is only msize[4] is rejected by recv for every pool content, but the unsliced
    variant completes it with the version string a previous message left in the pooled buffer *)
Definition stale_pool : list N := [1; 1; 1; 1; 8; 0; 57; 80; 50; 48; 48; 48; 46; 76].   (* ....  len=8 "9P2000.L" *)

Theorem unsliced_buffer_refuted :
  In gen_msg_msgTversion gen_msgs /\
  (forall old dirty, recv_into gen_msg_msgTversion old dirty [0; 32; 0; 0] = None) /\
  is_some (recv_into_unsliced gen_msg_msgTversion [] stale_pool [0; 32; 0; 0]) = true.
Proof.
  split; [|split].
  - vm_compute. tauto.
  - intros old dirty.
    assert (G : good gen_msg_msgTversion {| ml_fixed := [("MSize"%string, KS (KInt 4)); ("Version"%string, KS KStr)]; ml_pay := PNone |} = true)
      by (vm_compute; reflexivity).
    pose proof (recv_into_is_recv_body _ _ old dirty [0; 32; 0; 0] G) as H.
    destruct (recv_into gen_msg_msgTversion old dirty [0; 32; 0; 0]); [discriminate H|reflexivity].
  - vm_compute. reflexivity.
Qed.
