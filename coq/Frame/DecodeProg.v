(** C02, inside the decoders: the decode PROGRAMS go2coq CodecGen reads off the Go decode methods
    (gen/CodecGen.v [gm_dec], semantics Codec/Reuse.v [run] / [recv_into]: decoding into a recycled
    object, from a pooled scratch buffer with arbitrary previous content, sliced to the body) are
    run on exactly the frame's body, and their verdict -- delivered or rejected -- is proved equal,
    for every byte string, to the verdict of the layout decoder [recv_body] that the frame theorems
    (Frame/Instantiate.v) and the differential's property predicate use.

    Route: a verdict-only interpreter [vrun] (bytes and the local count n, no object);
    [run] and [vrun] agree whenever no statement overwrites the payload field (run_vrun);
    [vrun] of the canonical program of a layout is the layout decoder (vrun_flatten);
    the generated program of every registered type IS that canonical program up to [:0] resets and
    the overrun guard of append loops, which do not touch the bytes (table obligation, vm_compute). *)
From Coq Require Import Arith NArith List String Bool Lia ZifyN ZifyBool ZifyNat.
From P9V Require Import Codec.Layout Codec.LayoutProofs Codec.Frame Codec.Reuse Codec.ReuseProofs
  gen.CodecGen Codec.GenCheck.
Import ListNotations.
Open Scope N_scope.

Definition is_some {A} (o : option A) : bool := match o with Some _ => true | None => false end.

(** ** verdict-only interpreter: [paylen] = length of the payload slice the object holds *)
Definition vstep (paylen : N) (st : dstmt) (d : N * list N) : option (N * list N) :=
  let '(n, bs) := d in
  match st with
  | DAssign _ k => match dec_s k bs with Some (_, r) => Some (n, r) | None => None end
  | DMask _ w _ => match le_dec w bs with Some (_, r) => Some (n, r) | None => None end
  | DLen16 => match le_dec 2 bs with Some (m, r) => Some (m, r) | None => None end
  | DReset _ => Some (n, bs)
  | DLoop _ elem _ => match dec_rows elem (N.to_nat n) bs with Some (_, r) => Some (n, r) | None => None end
  | DCountCheck _ _ =>
      match le_dec 4 bs with
      | Some (count, r) => if count =? paylen mod 2 ^ 32 then Some (n, r) else None
      | None => None
      end
  | DDirents _ _ _ _ => match le_dec 4 bs with Some (_, r) => Some (n, r) | None => None end
  end.

Fixpoint vrun (paylen : N) (prog : list dstmt) (d : N * list N) : option (N * list N) :=
  match prog with
  | [] => Some d
  | st :: r => match vstep paylen st d with Some d' => vrun paylen r d' | None => None end
  end.

(** a statement that leaves the payload field alone (and a count check that reads it) *)
Definition stable (payload : string) (st : dstmt) : bool :=
  match st with
  | DAssign p _ | DReset p | DLoop p _ _ => negb (String.eqb p payload)
  | DMask _ _ bits => negb (existsb (String.eqb payload) (map snd bits))
  | DLen16 => true
  | DCountCheck _ p => String.eqb p payload
  | DDirents c e _ _ => negb (String.eqb c payload) && negb (String.eqb e payload)
  end.

Lemma get_set_other p q v s : String.eqb q p = false -> get p (set q v s) = get p s.
Proof. intros H. rewrite get_set. now rewrite H. Qed.

Lemma get_set_bits_other p bits m : forall s,
  existsb (String.eqb p) (map snd bits) = false -> get p (set_bits bits m s) = get p s.
Proof.
  induction bits as [|[pos name] bits IH]; intros s H; [reflexivity|].
  cbn [map snd existsb] in H. apply orb_false_iff in H as [H1 H2].
  cbn [set_bits]. rewrite get_set_other; [now apply IH|]. now rewrite String.eqb_sym.
Qed.

Lemma run_vrun payload pay : forall prog s n bs,
  forallb (stable payload) prog = true -> bytes_of (get payload s) = pay ->
  match run payload prog (s, n, bs), vrun (len pay) prog (n, bs) with
  | Some (_, n', r), Some (n'', r') => n' = n'' /\ r = r'
  | None, None => True
  | _, _ => False
  end.
Proof.
  induction prog as [|st prog IH]; intros s n bs Hst Hp; [cbn; auto|].
  cbn [forallb] in Hst. apply andb_true_iff in Hst as [H1 Hst].
  cbn [run vrun]. destruct st; cbn [step vstep stable] in *.
  - destruct (dec_s k bs) as [[v r]|]; [|exact I].
    apply IH; [exact Hst|]. rewrite get_set_other; [exact Hp|]. now apply negb_true_iff in H1.
  - destruct (le_dec w bs) as [[m r]|]; [|exact I].
    apply IH; [exact Hst|]. rewrite get_set_bits_other; [exact Hp|]. now apply negb_true_iff in H1.
  - destruct (le_dec 2 bs) as [[m r]|]; [|exact I]. now apply IH.
  - apply IH; [exact Hst|]. rewrite get_set_other; [exact Hp|]. now apply negb_true_iff in H1.
  - destruct (dec_rows elem (N.to_nat n) bs) as [[rows r]|]; [|exact I].
    apply IH; [exact Hst|]. rewrite get_set_other; [exact Hp|]. now apply negb_true_iff in H1.
  - apply String.eqb_eq in H1. subst p.
    destruct (le_dec 4 bs) as [[count r]|]; [|exact I]. rewrite Hp.
    destruct (count =? len pay mod 2 ^ 32); [|exact I]. now apply IH.
  - apply andb_true_iff in H1 as [Hc He]. apply negb_true_iff in Hc, He.
    destruct (le_dec 4 bs) as [[count r]|]; [|exact I].
    apply IH; [exact Hst|]. rewrite get_set_other by exact He. rewrite get_set_other by exact Hc. exact Hp.
Qed.

(** ** the canonical program of a layout *)
Definition flat_field (f : string * kind) : list dstmt :=
  match f with
  | (p, KS (KMask w bits)) => [DMask p w bits]
  | (p, KS k) => [DAssign p k]
  | (p, KList16 e) => [DLen16; DLoop p e true]
  end.

Definition flat_tail (pk : pkind) : list dstmt :=
  match pk with
  | PNone => []
  | PData c d => [DCountCheck c d]
  | PDirents c e entry => [DDirents c e entry true]
  end.

Definition flatten (ml : mlayout) : list dstmt := flat_map flat_field (ml_fixed ml) ++ flat_tail (ml_pay ml).

(** [:0] resets and the overrun guards of append loops / the reset flag of the Rreaddir loop concern the
    object, not the bytes *)
Definition strip1 (st : dstmt) : list dstmt :=
  match st with
  | DReset _ => []
  | DLoop p e _ => [DLoop p e true]
  | DDirents c e entry _ => [DDirents c e entry true]
  | s => [s]
  end.
Definition strip (prog : list dstmt) : list dstmt := flat_map strip1 prog.

Lemma vrun_strip paylen : forall prog d, vrun paylen (strip prog) d = vrun paylen prog d.
Proof.
  induction prog as [|st prog IH]; intros [n bs]; [reflexivity|].
  unfold strip in *. cbn [flat_map]. destruct st; cbn [strip1 app vrun vstep].
  - destruct (dec_s k bs) as [[? ?]|]; [apply IH|reflexivity].
  - destruct (le_dec w bs) as [[? ?]|]; [apply IH|reflexivity].
  - destruct (le_dec 2 bs) as [[? ?]|]; [apply IH|reflexivity].
  - apply IH.
  - destruct (dec_rows elem (N.to_nat n) bs) as [[? ?]|]; [apply IH|reflexivity].
  - destruct (le_dec 4 bs) as [[count ?]|]; [|reflexivity].
    destruct (count =? paylen mod 2 ^ 32); [apply IH|reflexivity].
  - destruct (le_dec 4 bs) as [[? ?]|]; [apply IH|reflexivity].
Qed.

Lemma vrun_app paylen a : forall b d,
  vrun paylen (a ++ b) d = match vrun paylen a d with Some d' => vrun paylen b d' | None => None end.
Proof.
  induction a as [|st a IH]; intros b d; [reflexivity|].
  cbn [app vrun]. destruct (vstep paylen st d); [apply IH|reflexivity].
Qed.

Lemma vrun_fields paylen : forall l n bs,
  match vrun paylen (flat_map flat_field l) (n, bs), dec_fields l bs with
  | Some (_, r), Some (_, r') => r = r'
  | None, None => True
  | _, _ => False
  end.
Proof.
  induction l as [|[p k] l IH]; intros n bs; [cbn; reflexivity|].
  cbn [flat_map dec_fields]. rewrite vrun_app.
  destruct k as [s|e].
  - assert (E : match vrun paylen (flat_field (p, KS s)) (n, bs), dec_s s bs with
                | Some (n', r), Some (_, r') => n' = n /\ r = r' | None, None => True | _, _ => False end).
    { destruct s; cbn [flat_field vrun vstep dec_s].
      - destruct (le_dec w bs) as [[? ?]|]; auto.
      - destruct (le_dec 4 bs) as [[? ?]|]; auto.
      - destruct (le_dec 2 bs) as [[m r0]|]; auto. destruct (take (N.to_nat m) r0) as [[? ?]|]; auto.
      - destruct (le_dec w bs) as [[? ?]|]; auto. }
    cbn [dec]. destruct (vrun paylen (flat_field (p, KS s)) (n, bs)) as [[n' r]|], (dec_s s bs) as [[v r']|];
      try contradiction; [|exact I].
    destruct E as [-> ->]. specialize (IH n r'). destruct (vrun paylen _ (n, r')) as [[? ?]|], (dec_fields l r') as [[? ?]|]; auto.
  - cbn [flat_field vrun vstep dec]. destruct (le_dec 2 bs) as [[m r]|]; [|exact I].
    cbn [vrun vstep]. destruct (dec_rows e (N.to_nat m) r) as [[rows r']|]; [|exact I].
    specialize (IH m r'). destruct (vrun paylen _ (m, r')) as [[? ?]|], (dec_fields l r') as [[? ?]|]; auto.
Qed.

(** static layouts consume exactly their size *)
Lemma dec_s_static k bs v r n : dec_s k bs = Some (v, r) -> static_s k = Some n -> List.length bs = (n + List.length r)%nat.
Proof.
  destruct k; cbn [dec_s static_s]; intros H Hs; try discriminate; inversion Hs; subst;
    match type of H with context [le_dec ?w bs] => destruct (le_dec w bs) as [[m r0]|] eqn:E; [|discriminate] end;
    inversion H; subst; eapply le_dec_length; eauto.
Qed.

Lemma dec_fields_static : forall l bs vs r n,
  dec_fields l bs = Some (vs, r) -> static_fields l = Some n -> List.length bs = (n + List.length r)%nat.
Proof.
  induction l as [|[p k] l IH]; intros bs vs r n H Hs.
  - cbn in *. inversion H; inversion Hs; subst. reflexivity.
  - cbn [dec_fields static_fields] in *. destruct k as [s|e]; [|discriminate].
    destruct (static_s s) as [a|] eqn:Ea; [|discriminate]. destruct (static_fields l) as [b|] eqn:Eb; [|discriminate].
    inversion Hs; subst n. cbn [dec] in H. destruct (dec_s s bs) as [[v r1]|] eqn:E1; [|discriminate].
    destruct (dec_fields l r1) as [[vs' r2]|] eqn:E2; [|discriminate]. inversion H; subst.
    pose proof (dec_s_static _ _ _ _ _ E1 Ea). pose proof (IH _ _ _ _ E2 eq_refl). lia.
Qed.

(** ** what recv does with a registered type (Codec/Reuse.v recv_into), as a verdict *)
Definition fsn_of (g : gen_msg) : nat := N.to_nat (match gm_fixed_size g with Some fs => fs | None => 0 end).

(** table conditions on one generated message, all decidable *)
Definition prog_eqb_strip (a b : list dstmt) : bool :=
  (fix go (a b : list dstmt) : bool :=
     match a, b with
     | [], [] => true
     | DAssign p k :: a', DAssign q k' :: b' => String.eqb p q && skind_eqb k k' && go a' b'
     | DMask p w bits :: a', DMask q w' bits' :: b' => String.eqb p q && Nat.eqb w w' && bits_eqb bits bits' && go a' b'
     | DLen16 :: a', DLen16 :: b' => go a' b'
     | DLoop p e _ :: a', DLoop q e' _ :: b' => String.eqb p q && slayout_eqb e e' && go a' b'
     | DCountCheck c p :: a', DCountCheck c' q :: b' => String.eqb c c' && String.eqb p q && go a' b'
     | DDirents c e en _ :: a', DDirents c' e' en' _ :: b' => String.eqb c c' && String.eqb e e' && slayout_eqb en en' && go a' b'
     | _, _ => false
     end) (strip a) (strip b).

Definition good (g : gen_msg) (ml : mlayout) : bool :=
  prog_eqb_strip (gm_dec g) (flatten ml) &&
  forallb (stable (payload_name g)) (gm_dec g) &&
  match gm_payload g, ml_pay ml with
  | None, PNone => true
  | Some _, PNone => false
  | None, _ => false
  | Some _, _ => match fixed_size ml with Some fs => Nat.eqb (fsn_of g) fs | None => false end
  end.

Lemma strip_strip prog : strip (strip prog) = strip prog.
Proof.
  unfold strip. induction prog as [|st prog IH]; [reflexivity|].
  cbn [flat_map]. rewrite flat_map_app, IH. destruct st; reflexivity.
Qed.

Lemma prog_eqb_strip_vrun paylen a b : prog_eqb_strip a b = true -> forall d, vrun paylen a d = vrun paylen b d.
Proof.
  intros H d. rewrite <- (vrun_strip paylen a), <- (vrun_strip paylen b).
  unfold prog_eqb_strip in H. revert H d. generalize (strip a) (strip b). clear a b.
  induction l as [|x a IH]; intros [|y b] H d; try reflexivity.
  { discriminate. }
  { destruct x; discriminate. }
  destruct d as [n bs].
  destruct x, y; try discriminate; repeat (apply andb_true_iff in H as [H ?]);
    repeat match goal with
           | E : String.eqb _ _ = true |- _ => apply String.eqb_eq in E; subst
           | E : skind_eqb _ _ = true |- _ => apply skind_eqb_eq in E; subst
           | E : slayout_eqb _ _ = true |- _ => apply slayout_eqb_eq in E; subst
           | E : bits_eqb _ _ = true |- _ => apply bits_eqb_eq in E; subst
           | E : Nat.eqb _ _ = true |- _ => apply Nat.eqb_eq in E; subst
           end;
    cbn [vrun vstep];
    try (match goal with |- context [match ?x with Some _ => _ | None => _ end] => destruct x as [[? ?]|] end);
    try reflexivity; try (apply IH; assumption);
    try (match goal with |- context [if ?c then _ else _] => destruct c end; [apply IH; assumption|reflexivity]).
Qed.

(** *** the decode program of a type, run by recv on a body of any length, into any object, from a
    pooled buffer of any previous content, accepts exactly the bodies the layout decoder accepts *)
Theorem recv_into_is_recv_body g ml old dirty body :
  good g ml = true -> is_some (recv_into g old dirty body) = is_some (recv_body ml body).
Proof.
  unfold good. intros H. apply andb_true_iff in H as [H Hpay]. apply andb_true_iff in H as [Heq Hst].
  unfold recv_into, recv_body, payload_name, fsn_of in *.
  destruct (gm_payload g) as [p|] eqn:Ep.
  - (* payloader *)
    destruct (ml_pay ml) as [|c d|c e entry] eqn:Epk; [discriminate| |];
      (destruct (fixed_size ml) as [fs|] eqn:Efs; [|discriminate]; apply Nat.eqb_eq in Hpay;
       set (fsn := N.to_nat (match gm_fixed_size g with Some f => f | None => 0 end)) in *; subst fs;
       assert (Hstat : static_fields (ml_fixed ml) = Some (fsn - 4)%nat /\ (4 <= fsn)%nat)
         by (unfold fixed_size in Efs; rewrite Epk in Efs; destruct (static_fields (ml_fixed ml)) as [k|]; [|discriminate];
             inversion Efs; split; [f_equal; lia|lia]);
       destruct Hstat as [Hstat H4];
       destruct (Nat.ltb_spec (List.length body) fsn) as [Hshort|Hlong]).
    + (* short body: the layout decoder cannot succeed either *)
      cbn [is_some]. rewrite firstn_all2 by lia.
      destruct (dec_fields (ml_fixed ml) body) as [[vs r]|] eqn:Ed; [|reflexivity].
      pose proof (dec_fields_static _ _ _ _ _ Ed Hstat). rewrite le_dec_short by lia. reflexivity.
    + rewrite recv_payload_eq.
      assert (Hlen : List.length (firstn fsn body) = fsn) by (apply firstn_length_le; exact Hlong).
      rewrite (firstn_fill_n fsn _ _ Hlen). unfold decode_into.
      pose proof (run_vrun p (skipn fsn body) (gm_dec g) (set p (OBytes (skipn fsn body)) old) 0 (firstn fsn body) Hst) as R.
      rewrite get_set, String.eqb_refl in R. specialize (R eq_refl).
      rewrite (prog_eqb_strip_vrun _ _ _ Heq) in R. unfold flatten in R. rewrite Epk, vrun_app in R. cbn [flat_tail] in R.
      pose proof (vrun_fields (len (skipn fsn body)) (ml_fixed ml) 0 (firstn fsn body)) as F.
      destruct (vrun (len (skipn fsn body)) (flat_map flat_field (ml_fixed ml)) (0, firstn fsn body)) as [[n1 r1]|],
               (dec_fields (ml_fixed ml) (firstn fsn body)) as [[vs r']|]; try contradiction.
      * subst r'. cbn [vrun vstep] in R. destruct (le_dec 4 r1) as [[count r2]|].
        -- destruct (count =? len (skipn fsn body) mod 2 ^ 32);
             destruct (run p (gm_dec g) _) as [[[? ?] ?]|]; try contradiction; reflexivity.
        -- destruct (run p (gm_dec g) _) as [[[? ?] ?]|]; try contradiction; reflexivity.
      * destruct (run p (gm_dec g) _) as [[[? ?] ?]|]; try contradiction; reflexivity.
    + cbn [is_some]. rewrite firstn_all2 by lia.
      destruct (dec_fields (ml_fixed ml) body) as [[vs r]|] eqn:Ed; [|reflexivity].
      pose proof (dec_fields_static _ _ _ _ _ Ed Hstat). rewrite le_dec_short by lia. reflexivity.
    + rewrite recv_payload_eq.
      assert (Hlen : List.length (firstn fsn body) = fsn) by (apply firstn_length_le; exact Hlong).
      rewrite (firstn_fill_n fsn _ _ Hlen). unfold decode_into.
      pose proof (run_vrun p (skipn fsn body) (gm_dec g) (set p (OBytes (skipn fsn body)) old) 0 (firstn fsn body) Hst) as R.
      rewrite get_set, String.eqb_refl in R. specialize (R eq_refl).
      rewrite (prog_eqb_strip_vrun _ _ _ Heq) in R. unfold flatten in R. rewrite Epk, vrun_app in R. cbn [flat_tail] in R.
      pose proof (vrun_fields (len (skipn fsn body)) (ml_fixed ml) 0 (firstn fsn body)) as F.
      destruct (vrun (len (skipn fsn body)) (flat_map flat_field (ml_fixed ml)) (0, firstn fsn body)) as [[n1 r1]|],
               (dec_fields (ml_fixed ml) (firstn fsn body)) as [[vs r']|]; try contradiction.
      * subst r'. cbn [vrun vstep] in R. destruct (le_dec 4 r1) as [[count r2]|];
          destruct (run p (gm_dec g) _) as [[[? ?] ?]|]; try contradiction; reflexivity.
      * destruct (run p (gm_dec g) _) as [[[? ?] ?]|]; try contradiction; reflexivity.
  - (* plain message: the whole body is the decode buffer *)
    destruct (ml_pay ml) eqn:Epk; try discriminate.
    rewrite firstn_fill. unfold decode_into.
    pose proof (run_vrun EmptyString [] (gm_dec g) old 0 body Hst) as R.
    assert (Hb : forall pay, bytes_of (get EmptyString old) = pay ->
                 match run EmptyString (gm_dec g) (old, 0, body), vrun (len pay) (gm_dec g) (0, body) with
                 | Some (_, n', r), Some (n'', r') => n' = n'' /\ r = r' | None, None => True | _, _ => False end)
      by (intros pay Hp; apply run_vrun; assumption).
    specialize (Hb _ eq_refl). rewrite (prog_eqb_strip_vrun _ _ _ Heq) in Hb.
    unfold flatten in Hb. rewrite Epk in Hb. cbn [flat_tail] in Hb. rewrite app_nil_r in Hb.
    pose proof (vrun_fields (len (bytes_of (get EmptyString old))) (ml_fixed ml) 0 body) as F.
    destruct (vrun _ (flat_map flat_field (ml_fixed ml)) (0, body)) as [[n1 r1]|],
             (dec_fields (ml_fixed ml) body) as [[vs r']|]; try contradiction;
      destruct (run EmptyString (gm_dec g) _) as [[[? ?] ?]|]; try contradiction; reflexivity.
Qed.
