(** Tie of the iovec-advance model (Frame/Reader.v [consume_iov]) to the source: the statements go2coq
    VecGen reads off vecnet/vecnet_linux.go readFromBuffersLinux (gen/VecGen.v), RUN by the interpreter of
    Frame/Imp.v, leave exactly the buffers [consume_iov] leaves -- for every list of at most 3 buffers of
    lengths 0..4 and every byte count cur a recvmsg can return into them (0..sum).  The comparison is
    semantic: renaming locals or rewriting the loop equivalently passes, advancing by the wrong amount
    (or indexing an empty bufs) fails.  It is exhaustive over that finite universe, NOT a theorem for all
    buffer lists: the theorems of C17 are about [consume_iov]; this is the obligation that re-opens when
    the Go loop changes. *)
From Coq Require Import ZArith NArith List String Bool Lia ZifyN ZifyNat.
From P9V Require Import Frame.Model Frame.Reader Frame.Imp gen.VecGen.
Import ListNotations.
Open Scope N_scope.

Definition lens_0_4 : list N := [0; 1; 2; 3; 4].

Fixpoint lists_upto (n : nat) : list (list N) :=
  match n with
  | O => [[]]
  | S n' => [] :: flat_map (fun l => map (fun x => x :: l) lens_0_4) (filter (fun l => Nat.eqb (List.length l) n') (lists_upto n'))
            ++ filter (fun l => negb (Nat.eqb (List.length l) O)) (lists_upto n')
  end.

Definition universe : list (list N) := lists_upto 3.

Definition curs (views : list N) : list N := map N.of_nat (seq 0 (S (N.to_nat (sumN views)))).

Fixpoint lN_eqb (a b : list N) : bool :=
  match a, b with
  | [], [] => true
  | x :: a', y :: b' => (x =? y) && lN_eqb a' b'
  | _, _ => false
  end.

Definition advance_agrees (prog : list stmt) (cn : string) (views : list N) (cur : N) : bool :=
  match run_advance prog cn cur views, consume_iov cur views with
  | Some a, Some b => lN_eqb a b
  | None, None => true
  | _, _ => false
  end.

Definition advance_tie (prog : list stmt) (cn : string) : bool :=
  forallb (fun v => forallb (advance_agrees prog cn v) (curs v)) universe.

(** the obligation over the generated program *)
Lemma vec_advance_tie : advance_tie vec_advance vec_cur_name = true.
Proof. vm_compute. reflexivity. Qed.

Lemma universe_has : In [4; 3] universe /\ In [2; 0; 3] universe /\ (156 <= List.length universe)%nat.
Proof. vm_compute. repeat split; auto 400. Qed.

Theorem vec_advance_agrees views cur :
  In views universe -> cur <= sumN views ->
  match run_advance vec_advance vec_cur_name cur views, consume_iov cur views with
  | Some a, Some b => a = b
  | None, None => True
  | _, _ => False
  end.
Proof.
  intros Hin Hc. pose proof vec_advance_tie as T. unfold advance_tie in T.
  rewrite forallb_forall in T. specialize (T views Hin). rewrite forallb_forall in T.
  assert (Hi : In cur (curs views)).
  { unfold curs. apply in_map_iff. exists (N.to_nat cur). split; [apply N2Nat.id|]. apply in_seq.
    lia. }
  specialize (T cur Hi). unfold advance_agrees in T.
  destruct (run_advance _ _ _ _) as [a|], (consume_iov _ _) as [b|]; try discriminate; auto.
  clear - T. revert b T. induction a as [|x a IH]; intros [|y b] T; cbn in T; try discriminate; auto.
  apply andb_true_iff in T as [E T]. apply N.eqb_eq in E. subst. f_equal. auto.
Qed.

(** the two seeded rewrites of record are told apart by the same comparison:
    C17-m3 compares each buffer with the recvmsg total instead of what is left of it,
    C02-m4 advances the partly filled buffer by the total *)
Definition m3_advance : list stmt :=
  [SSet "left" (IVar "cur");
   SLoop (BLt (ILit 0) (IVar "left"))
     [SIf (BLe ILenHead (IVar "cur"))
        [SSet "left" (ISub (IVar "left") ILenHead); SDrop (ILit 1)]
        [SAdvHead (IVar "left"); SBreak]] []]%string.

Definition m4_advance : list stmt :=
  [SSet "filled" (ILit 0);
   SLoop (BAnd (BLt (ILit 0) ILenBufs) (BLe (IAdd (IVar "filled") ILenHead) (IVar "cur")))
     [SSet "filled" (IAdd (IVar "filled") ILenHead); SDrop (ILit 1)] [];
   SIf (BLt (IVar "filled") (IVar "cur")) [SAdvHead (IVar "cur")] []]%string.

Theorem seeded_rewrites_refuted :
  advance_tie m3_advance "cur" = false /\ advance_tie m4_advance "cur" = false /\
  run_advance m3_advance "cur" 6 [4; 3] = Some [] /\ consume_iov 6 [4; 3] = Some [1] /\
  run_advance m4_advance "cur" 5 [4; 3] = None.
Proof. vm_compute. repeat split; reflexivity. Qed.

(** an equivalent rewrite (countdown variable, strict comparison first) passes *)
Definition countdown_advance : list stmt :=
  [SSet "left" (IVar "cur");
   SLoop (BLt (ILit 0) (IVar "left"))
     [SIf (BLt (IVar "left") ILenHead)
        [SAdvHead (IVar "left"); SSet "left" (ILit 0)]
        [SSet "left" (ISub (IVar "left") ILenHead); SDrop (ILit 1)]] []]%string.

Theorem equivalent_rewrite_passes : advance_tie countdown_advance "cur" = true.
Proof. vm_compute. reflexivity. Qed.
