(** C13: frame sizes of Rread / Rreaddir on the server (handlers.go tread/treaddir,
    server.go maxReplyPayload, messages.go rreaddir.encode) and of the client's
    Tread / Twrite / Treaddir (client.go payloadSize, client_file.go chunk, Readdir).
    Integers are N; Go's uint32 subtraction is written with its wrap-around.
    Definitions only. *)
From Coq Require Import NArith List Bool.
From P9V Require Import gen.ConstGen.
Import ListNotations.
Open Scope N_scope.

Definition u32 : N := 4294967296.
Definition sub32 (a b : N) : N := (a + u32 - b) mod u32.      (* uint32 a - b *)

(** msgDotLRegistry.largestFixedSize as computed by register(): Frame/SizesGen.v recomputes it
    from the generated message layouts (gen/CodecGen.v) and proves it equal to this number
    (C13_largest_fixed_size); the harness also reads the Go value and the cases file compares *)
Definition largestFixedSize : N := 153.

(** frame overheads: size[4] type[1] tag[2] + count[4] for Rread / Rreaddir;
    + fid[4] offset[8] count[4] for Tread / Twrite / Treaddir *)
Definition replyOverhead : N := p9_headerLength + 4.
Definition requestOverhead : N := p9_headerLength + 16.
Definition rlerrorFrame : N := p9_headerLength + 4.

(** ** server *)

(** connState.maxReplyPayload *)
Definition max_reply_payload (cs_msize : N) : N :=
  let m := if cs_msize =? 0 then p9_maximumLength else cs_msize in
  if m <? replyOverhead then 0 else m - replyOverhead.

Definition ENOBUFS : N := 105.
Definition EINVAL : N := 22.
Definition EFAULT : N := 14.

Inductive sreply :=
| SRlerror (errno : N)     (* Rlerror, 11 bytes on the wire *)
| SData (n : N)            (* Rread / Rreaddir with n payload bytes *)
| SPanic.                  (* run-time panic in the handler (answered Rlerror EFAULT by connState.handle) *)

Definition sreply_frame (r : sreply) : N :=
  match r with
  | SRlerror _ | SPanic => rlerrorFrame
  | SData n => replyOverhead + n
  end.

(** tread.handle on an opened, readable fid: [avail] = bytes the file has from
    the requested offset on (what ReadAt returns is min(len(p), avail)).
    [cs_msize] = connState.messageSize = length of the pooled read buffers. *)
Definition tread_handle (cs_msize count avail : N) : sreply :=
  if p9_maximumLength <? count then SRlerror ENOBUFS
  else
    let c := N.min count (max_reply_payload cs_msize) in
    if cs_msize =? 0 then SPanic                                   (* no Tversion yet: readBufPool.New is nil *)
    else if cs_msize <? c then SPanic                              (* dataBuf[:count] beyond the buffer *)
    else SData (N.min c avail).

(** tread.handle on an xattr fid (Txattrwalk bound it to a value of [vlen] bytes); [off] is the
    64-bit Offset as decoded.  Count 0 is only accepted for an empty value; then (commit 7f754bf)
    [size := uint64(len(buf)); t.Offset > size || uint64(t.Count) > size - t.Offset] => EINVAL -- the
    subtraction cannot wrap because Offset <= size at that point; then
    copy(dataBuf[:count], buf[Offset:]) with the clamped count (both slice expressions can panic). *)
Definition txread_handle (cs_msize count off vlen : N) : sreply :=
  if p9_maximumLength <? count then SRlerror ENOBUFS
  else
    let c := N.min count (max_reply_payload cs_msize) in
    if cs_msize =? 0 then SPanic
    else if count =? 0 then (if vlen =? 0 then SData 0 else SRlerror EINVAL)
    else if (vlen <? off) || (vlen - off <? count) then SRlerror EINVAL
    else if cs_msize <? c then SPanic                                       (* dataBuf[:count] *)
    else if vlen <? off then SPanic                                         (* buf[Offset:] *)
    else SData (N.min c (vlen - off)).

(** what the code did before 7f754bf, kept to state what was wrong: the 64-bit sum wraps *)
Definition u64 : N := 18446744073709551616.
Definition txread_handle_wrapping (cs_msize count off vlen : N) : sreply :=
  if p9_maximumLength <? count then SRlerror ENOBUFS
  else
    let c := N.min count (max_reply_payload cs_msize) in
    if cs_msize =? 0 then SPanic
    else if count =? 0 then (if vlen =? 0 then SData 0 else SRlerror EINVAL)
    else if vlen <? (off + count) mod u64 then SRlerror EINVAL
    else if cs_msize <? c then SPanic
    else if vlen <? off then SPanic
    else SData (N.min c (vlen - off)).

(** ** the session: which msize is in force.  tversion.handle stores min(msize, 4 MiB) in
    connState.messageSize and announces it -- unless msize is 0 or the version string is not a
    9P2000.L one, when it answers Rversion{0, "unknown"} and leaves the state alone.  [ok] = the
    version string is acceptable (C12's parser; here an input). *)
Inductive tv := TV (msize : N) (ok : bool).

Definition tversion_step (cs : N) (t : tv) : N * N :=        (* new messageSize, msize in the Rversion *)
  match t with
  | TV m ok => if (m =? 0) || negb ok then (cs, 0) else (N.min m p9_maximumLength, N.min m p9_maximumLength)
  end.

Fixpoint run_hist (cs : N) (h : list tv) : N * list N :=
  match h with
  | [] => (cs, [])
  | t :: r => let '(cs1, a) := tversion_step cs t in let '(cs2, l) := run_hist cs1 r in (cs2, a :: l)
  end.

(** "the msize it announced": the msize of the last Rversion that announced one (an "unknown"
    Rversion carries 0 and changes nothing); [dflt] when there was none *)
Fixpoint last_announced (dflt : N) (replies : list N) : N :=
  match replies with
  | [] => dflt
  | a :: r => last_announced (if a =? 0 then dflt else a) r
  end.

(** rreaddir.encode: entries are appended while the running total stays <= Count;
    [sizes] = encoded size of each Dirent the backend returned *)
Fixpoint rreaddir_payload (count cum : N) (sizes : list N) : N :=
  match sizes with
  | [] => cum
  | d :: r => if count <? cum + d then cum else rreaddir_payload count (cum + d) r
  end.

(** treaddir.handle + encode *)
Definition treaddir_handle (cs_msize count : N) (sizes : list N) : sreply :=
  SData (rreaddir_payload (N.min count (max_reply_payload cs_msize)) 0 sizes).

(** ** client *)

Definition round_down (p align : N) : N :=
  if (align <? p) && negb (p mod align =? 0) then p - p mod align else p.

(** Client.payloadSize for a client whose messageSize is [msize] *)
Definition payload_size (msize : N) : N := round_down (sub32 msize largestFixedSize) 512.

(** NewClient's adoption of Rversion.MSize: [None] = ErrMessageTooLarge *)
Definition adopt (own announced : N) : option N :=
  if announced <? own then (if announced <=? largestFixedSize then None else Some announced) else Some own.

(** The lengths of the slices [chunk] passes to fn, given what each call returned
    ((n, failed?)); stops like the Go loop (error, short count, done), and also when
    the answers run out or fn claimed more than was asked (Go panics). *)
Fixpoint chunk_calls (cs plen total : N) (answers : list (N * bool)) : list N :=
  if total =? plen then [] else
  if plen <? total then [] else
  let req := if plen <? total + cs then plen - total else cs in
  match answers with
  | [] => [req]
  | (n, failed) :: r =>
      req :: (if failed then [] else if n <? cs then [] else chunk_calls cs plen (total + n) r)
  end.

Definition chunk_requests (cs plen : N) (answers : list (N * bool)) : list N :=
  if plen =? 0 then [0] else chunk_calls cs plen 0 answers.

(** clientFile.Readdir's clamp *)
Definition readdir_count (msize count : N) : N :=
  let mx := sub32 msize replyOverhead in if mx <? count then mx else count.

Definition twrite_frame (n : N) : N := requestOverhead + n.
Definition tread_frame : N := requestOverhead.
Definition rdata_frame (n : N) : N := replyOverhead + n.
