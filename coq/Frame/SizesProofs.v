(** C13: arithmetic theorems, for all msize / count / file sizes / entry lists. *)
From Coq Require Import ZArith NArith List Bool Lia ZifyN ZifyBool ZifyNat.
From P9V Require Import gen.ConstGen Frame.Sizes.
Import ListNotations.
Open Scope N_scope.
Ltac Zify.zify_post_hook ::= Z.div_mod_to_equations.

Lemma replyOverhead_eq : replyOverhead = 11. Proof. reflexivity. Qed.
Lemma requestOverhead_eq : requestOverhead = 23. Proof. reflexivity. Qed.
Lemma rlerrorFrame_eq : rlerrorFrame = 11. Proof. reflexivity. Qed.
Lemma maxlen_eq : p9_maximumLength = 4194304. Proof. reflexivity. Qed.
Lemma largest_eq : largestFixedSize = 153. Proof. reflexivity. Qed.
Lemma u32_eq : u32 = 4294967296. Proof. reflexivity. Qed.

Lemma max_reply_payload_le m : 11 <= m -> max_reply_payload m = m - 11.
Proof.
  intros H. unfold max_reply_payload. rewrite replyOverhead_eq.
  destruct (N.eqb_spec m 0); [lia|]. destruct (N.ltb_spec m 11); lia.
Qed.

Lemma max_reply_payload_0 : max_reply_payload 0 = 4194304 - 11.
Proof. reflexivity. Qed.

(** *** Rread: the frame never exceeds the announced msize, whatever the count; the handler
    does not panic; the data is min(count, msize-11, available) *)
Theorem rread_fits m count avail :
  11 <= m ->
  sreply_frame (tread_handle m count avail) <= m /\
  tread_handle m count avail <> SPanic /\
  (count <= 4194304 -> tread_handle m count avail = SData (N.min (N.min count (m - 11)) avail)).
Proof.
  intros H. unfold tread_handle. rewrite max_reply_payload_le by assumption. rewrite maxlen_eq.
  destruct (N.ltb_spec 4194304 count) as [Hc|Hc].
  - cbn [sreply_frame]. rewrite rlerrorFrame_eq. repeat split; try lia; discriminate.
  - destruct (N.eqb_spec m 0); [lia|].
    destruct (N.ltb_spec m (N.min count (m - 11))); [lia|].
    cbn [sreply_frame]. rewrite replyOverhead_eq. repeat split; try lia; discriminate.
Qed.

(** *** Rread on an xattr fid: same bound, and no panic for ANY offset (in particular the whole
    uint64 range) and any count *)
Theorem xread_fits m count off vlen :
  11 <= m ->
  sreply_frame (txread_handle m count off vlen) <= m /\ txread_handle m count off vlen <> SPanic.
Proof.
  intros H. unfold txread_handle. rewrite max_reply_payload_le by assumption. rewrite maxlen_eq.
  destruct (N.ltb_spec 4194304 count); [cbn [sreply_frame]; rewrite rlerrorFrame_eq; split; [lia|discriminate]|].
  destruct (N.eqb_spec m 0); [lia|].
  destruct (N.eqb_spec count 0).
  { destruct (vlen =? 0); cbn [sreply_frame]; rewrite ?rlerrorFrame_eq, ?replyOverhead_eq; split; try lia; discriminate. }
  destruct (N.ltb_spec vlen off); cbn [orb]; [cbn [sreply_frame]; rewrite rlerrorFrame_eq; split; [lia|discriminate]|].
  destruct (N.ltb_spec (vlen - off) count); [cbn [sreply_frame]; rewrite rlerrorFrame_eq; split; [lia|discriminate]|].
  destruct (N.ltb_spec m (N.min count (m - 11))); [lia|].
  cbn [sreply_frame]. rewrite replyOverhead_eq. split; [lia|discriminate].
Qed.

(** the check as it was before 7f754bf let a wrapping Offset+Count through to buf[Offset:] *)
Lemma xread_wrapping_refuted :
  txread_handle_wrapping 4096 2 18446744073709551615 10 = SPanic /\
  txread_handle 4096 2 18446744073709551615 10 = SRlerror EINVAL.
Proof. split; vm_compute; reflexivity. Qed.

Lemma rreaddir_payload_le count : forall sizes cum, cum <= count -> rreaddir_payload count cum sizes <= count.
Proof.
  induction sizes as [|d r IH]; intros cum H; cbn [rreaddir_payload]; [assumption|].
  destruct (N.ltb_spec count (cum + d)); [assumption|]. apply IH. assumption.
Qed.

(** the payload consists of whole entries: it is the total of a prefix of the list, and the
    next entry (if any) would not have fitted *)
Lemma rreaddir_payload_prefix count : forall sizes cum,
  exists k, rreaddir_payload count cum sizes = cum + fold_right N.add 0 (firstn k sizes) /\
            (k <= length sizes)%nat /\
            ((k < length sizes)%nat -> count < cum + fold_right N.add 0 (firstn (S k) sizes)).
Proof.
  induction sizes as [|d r IH]; intros cum; cbn [rreaddir_payload].
  - exists 0%nat. cbn. repeat split; lia.
  - destruct (N.ltb_spec count (cum + d)) as [Hc|Hc].
    + exists 0%nat. cbn [firstn fold_right length]. repeat split; lia.
    + destruct (IH (cum + d)) as (k & -> & Hk & Hn). exists (S k).
      cbn [firstn fold_right length]. repeat split; try lia.
      intros Hlt. specialize (Hn ltac:(lia)). cbn [firstn fold_right] in Hn. lia.
Qed.

(** *** Rreaddir: the frame never exceeds the announced msize, whatever count and entries *)
Theorem rreaddir_fits m count sizes :
  11 <= m -> sreply_frame (treaddir_handle m count sizes) <= m.
Proof.
  intros H. unfold treaddir_handle. cbn [sreply_frame]. rewrite replyOverhead_eq.
  pose proof (rreaddir_payload_le (N.min count (max_reply_payload m)) sizes 0 ltac:(lia)) as Hp.
  rewrite max_reply_payload_le in * by assumption. lia.
Qed.

(** before any Tversion (messageSize 0) the limit is maximumLength *)
Theorem rreaddir_fits_unnegotiated count sizes :
  sreply_frame (treaddir_handle 0 count sizes) <= 4194304.
Proof.
  unfold treaddir_handle. cbn [sreply_frame]. rewrite replyOverhead_eq.
  pose proof (rreaddir_payload_le (N.min count (max_reply_payload 0)) sizes 0 ltac:(lia)) as Hp.
  rewrite max_reply_payload_0 in *. lia.
Qed.

Theorem rreaddir_within_count m count sizes :
  match treaddir_handle m count sizes with SData n => n <= count | _ => False end.
Proof.
  unfold treaddir_handle.
  pose proof (rreaddir_payload_le (N.min count (max_reply_payload m)) sizes 0 ltac:(lia)). lia.
Qed.

(** ** client *)

Lemma round_down_le p a : round_down p a <= p.
Proof. unfold round_down. destruct (_ && _); lia. Qed.

Lemma round_down_pos p : 0 < p -> 0 < round_down p 512.
Proof.
  intros H. unfold round_down.
  destruct (N.ltb_spec 512 p); cbn [andb]; [|lia].
  destruct (N.eqb_spec (p mod 512) 0); cbn [negb]; lia.
Qed.

Lemma payload_size_bounds m :
  153 < m -> m < 4294967296 -> 0 < payload_size m /\ payload_size m <= m - 153.
Proof.
  intros H1 H2. unfold payload_size.
  assert (E : sub32 m largestFixedSize = m - 153) by (unfold sub32; rewrite largest_eq, u32_eq; lia).
  rewrite E. split; [apply round_down_pos; lia|apply round_down_le].
Qed.

Lemma adopt_spec own announced m :
  153 < own -> adopt own announced = Some m -> m = N.min own announced /\ 153 < m.
Proof.
  unfold adopt. rewrite largest_eq. intros Ho.
  destruct (N.ltb_spec announced own).
  - destruct (N.leb_spec announced 153); [discriminate|]. intros [= <-]. lia.
  - intros [= <-]. lia.
Qed.

Lemma chunk_calls_le cs plen : forall answers total,
  Forall (fun r => r <= cs /\ r <= plen) (chunk_calls cs plen total answers).
Proof.
  induction answers as [|[n failed] r IH]; intros total; cbn [chunk_calls];
    (destruct (N.eqb_spec total plen); [constructor|]);
    (destruct (N.ltb_spec plen total); [constructor|]).
  - constructor; [destruct (N.ltb_spec plen (total + cs)); lia|constructor].
  - constructor; [destruct (N.ltb_spec plen (total + cs)); lia|].
    destruct failed; [constructor|]. destruct (N.ltb_spec n cs); [constructor|apply IH].
Qed.

Lemma chunk_requests_le cs plen answers :
  Forall (fun r => r <= cs /\ r <= plen) (chunk_requests cs plen answers).
Proof.
  unfold chunk_requests. destruct (N.eqb_spec plen 0).
  - constructor; [lia|constructor].
  - apply chunk_calls_le.
Qed.

(** *** every Twrite the client sends, every Tread it sends and the Rread a server answers with
    (at most the count asked for) fit in the msize the server announced *)
Theorem client_io_fits own announced m plen answers :
  153 < own -> own < 4294967296 -> adopt own announced = Some m ->
  m <= announced /\
  Forall (fun r => twrite_frame r <= m /\ tread_frame <= m /\ forall n, n <= r -> rdata_frame n <= m)
         (chunk_requests (payload_size m) plen answers).
Proof.
  intros Ho Hu Ha. destruct (adopt_spec _ _ _ Ho Ha) as [Hm H153].
  split; [lia|].
  pose proof (payload_size_bounds m H153 ltac:(lia)) as [_ Hp].
  eapply Forall_impl; [|apply chunk_requests_le].
  intros r [Hr _]. unfold twrite_frame, tread_frame, rdata_frame.
  rewrite requestOverhead_eq, replyOverhead_eq. repeat split; try lia; intros n Hn; lia.
Qed.

(** *** Readdir: the clamped count makes the Treaddir and the fullest reply a server may send fit *)
Theorem client_readdir_fits own announced m count :
  153 < own -> own < 4294967296 -> adopt own announced = Some m ->
  m <= announced /\ readdir_count m count <= count /\ tread_frame <= m /\
  forall n, n <= readdir_count m count -> rdata_frame n <= m.
Proof.
  intros Ho Hu Ha. destruct (adopt_spec _ _ _ Ho Ha) as [Hm H153].
  unfold readdir_count, tread_frame, rdata_frame, sub32.
  rewrite requestOverhead_eq, replyOverhead_eq, u32_eq.
  assert (E : (m + 4294967296 - 11) mod 4294967296 = m - 11) by lia. rewrite E.
  destruct (N.ltb_spec (m - 11) count); repeat split; try lia; intros n Hn; lia.
Qed.

(** end to end: this client against this server (same negotiated msize) *)
Theorem readdir_end_to_end m count sizes :
  153 < m -> m < 4294967296 ->
  sreply_frame (treaddir_handle m (readdir_count m count) sizes) <= m.
Proof. intros H1 H2. apply rreaddir_fits. lia. Qed.

(** ** sessions: after any history of Tversions the msize in force is the last one announced *)
Lemma run_hist_announced : forall h cs,
  fst (run_hist cs h) = last_announced cs (snd (run_hist cs h)).
Proof.
  induction h as [|[m ok] r IH]; intros cs; [reflexivity|].
  cbn [run_hist tversion_step].
  destruct ((m =? 0) || negb ok) eqn:E.
  - specialize (IH cs). destruct (run_hist cs r) as [cs2 l]. cbn [fst snd last_announced] in *. exact IH.
  - specialize (IH (N.min m p9_maximumLength)). destruct (run_hist (N.min m p9_maximumLength) r) as [cs2 l].
    cbn [fst snd last_announced] in *.
    apply orb_false_iff in E. destruct E as [Em _]. apply N.eqb_neq in Em.
    rewrite maxlen_eq in *. destruct (N.eqb_spec (N.min m 4194304) 0); [lia|]. exact IH.
Qed.

Lemma last_announced_le_max : forall l d, d <= 4194304 -> Forall (fun a => a <= 4194304) l -> last_announced d l <= 4194304.
Proof.
  induction l as [|a r IH]; intros d Hd Hl; [exact Hd|]. inversion Hl; subst. cbn [last_announced].
  apply IH; [destruct (a =? 0); assumption|assumption].
Qed.

(** *** over histories: whatever Tversions came before (smaller, larger, refused ones in between),
    every Rread / Rreaddir / xattr Rread fits the msize of the last Rversion that announced one *)
Theorem session_fits h count avail off vlen sizes :
  let cs := fst (run_hist 0 h) in
  let ann := last_announced 0 (snd (run_hist 0 h)) in
  11 <= ann ->
  sreply_frame (tread_handle cs count avail) <= ann /\
  sreply_frame (txread_handle cs count off vlen) <= ann /\
  sreply_frame (treaddir_handle cs count sizes) <= ann /\
  tread_handle cs count avail <> SPanic /\ txread_handle cs count off vlen <> SPanic.
Proof.
  cbn zeta. rewrite run_hist_announced. intros H.
  pose proof (rread_fits _ count avail H) as (H1 & H2 & _).
  pose proof (xread_fits _ count off vlen H) as (H3 & H4).
  pose proof (rreaddir_fits _ count sizes H). tauto.
Qed.

