(** Operational model of how recv obtains its bytes (C17): a reader is the stream
    plus a script saying how many bytes each successive Read / recvmsg hands
    over.  Models io.ReadAtLeast (header), vecnet.Buffers.ReadFrom generic nested
    loops, vecnet readFromBuffersLinux (recvmsg + iovec consumption), and
    io.Copy(ioutil.Discard, io.LimitReader(r, remaining)).  Definitions only. *)
From Coq Require Import NArith List Bool.
From P9V Require Import gen.ConstGen Frame.Model.
Import ListNotations.
Open Scope N_scope.

(** one script entry: at most [k] bytes are handed over by the next Read;
    [true]: if that Read hands over the last byte of a closed stream it returns
    io.EOF together with the data.  When the script is used up every Read hands
    over as much as asked for and available. *)
Definition script := list (N * bool).

Inductive rd := RdBlock | RdGot (got : list N) (eof : bool) (rest : list N).

(** r.Read(p) with len(p) = want > 0 *)
Definition read1 (closed : bool) (e : N * bool) (want : N) (s : list N) : rd :=
  match s with
  | [] => if closed then RdGot [] true [] else RdBlock
  | _ :: _ =>
      let n := N.min (fst e) (N.min want (len s)) in
      let rest := dropN n s in
      RdGot (takeN n s) (closed && snd e && is_nil rest) rest
  end.

Inductive fillres :=
| FBlock
| FDone (got rest : list N) (sc : script)
| FEof (n : N) (rest : list N) (sc : script)     (* error after n bytes of this buffer *)
| FPanic.

(** Fill one buffer of [want] bytes by repeated Read(buf[filled:]).
    [zero_eof = true]: the inner loop of vecnet's generic ReadFrom, which turns a
    (0, nil) Read into io.EOF and drops an io.EOF that came with data;
    [zero_eof = false]: io.ReadAtLeast, which just reads again after (0, nil). *)
Fixpoint fill (zero_eof closed : bool) (sc : script) (want : N) (s : list N) {struct sc} : fillres :=
  if want =? 0 then FDone [] s sc else
  match sc with
  | [] =>
      if want <=? len s then FDone (takeN want s) (dropN want s) []
      else if closed then FEof (len s) [] [] else FBlock
  | e :: sc' =>
      match read1 closed e want s with
      | RdBlock => FBlock
      | RdGot got eof rest =>
          let n := len got in
          if n =? 0 then
            (if eof || zero_eof then FEof 0 rest sc' else fill zero_eof closed sc' want s)
          else if want <=? n then FDone got rest sc'
          else match fill zero_eof closed sc' (want - n) rest with
               | FDone g r c => FDone (got ++ g) r c
               | FEof m r c => FEof (n + m) r c
               | other => other
               end
      end
  end.

(** vecnet.Buffers.ReadFrom, generic path: outer loop over the buffers *)
Fixpoint readfrom_generic (closed : bool) (sc : script) (bufs : list N) (s : list N) : fillres :=
  match bufs with
  | [] => FDone [] s sc
  | b :: bs =>
      match fill true closed sc b s with
      | FDone g r c =>
          match readfrom_generic closed c bs r with
          | FDone g' r' c' => FDone (g ++ g') r' c'
          | FEof m r' c' => FEof (len g + m) r' c'
          | other => other
          end
      | other => other
      end
  end.

(** iovec consumption loop of readFromBuffersLinux, on the lengths of the
    (re-sliced) buffers; [None] = bufs[0] indexed on an empty slice *)
Fixpoint consume_iov (cur : N) (views : list N) : option (list N) :=
  if cur =? 0 then Some views else
  match views with
  | [] => None
  | b :: r => if b <=? cur then consume_iov (cur - b) r else Some ((b - cur) :: r)
  end.

(** readFromBuffersLinux: [need] = length - n; recvmsg scatters into the current
    views in order, which is modelled by appending to [acc].  A script entry 0 is
    EAGAIN (retried inside RawConn.Read). *)
Fixpoint readfrom_vec (closed : bool) (sc : script) (need : N) (views : list N) (acc s : list N) {struct sc} : fillres :=
  if need =? 0 then FDone acc s sc else
  match sc with
  | [] =>
      let cur := N.min (sumN views) (len s) in
      if need <=? cur then
        match consume_iov cur views with Some _ => FDone (acc ++ takeN cur s) (dropN cur s) [] | None => FPanic end
      else if closed then FEof (len acc + cur) (dropN cur s) [] else FBlock
  | e :: sc' =>
      match s with
      | [] => if closed then FEof (len acc) [] sc' else FBlock
      | _ :: _ =>
          let cur := N.min (fst e) (N.min (sumN views) (len s)) in
          if (cur =? 0) && negb (sumN views =? 0) then readfrom_vec closed sc' need views acc s
          else if cur =? 0 then FEof (len acc) s sc'          (* no iovec: recvmsg returns 0 => io.EOF *)
          else match consume_iov cur views with
               | None => FPanic
               | Some views' => readfrom_vec closed sc' (need - cur) views' (acc ++ takeN cur s) (dropN cur s)
               end
      end
  end.

(** io.Copy(ioutil.Discard, io.LimitReader(r, left)): Reads of min(left, 8192) until left = 0 or
    an error (which recv ignores); result: how many bytes were thrown away *)
Inductive discres := DBlock | DGot (n : N) (rest : list N) (sc : script).

Fixpoint discard (closed : bool) (sc : script) (left : N) (s : list N) {struct sc} : discres :=
  if left =? 0 then DGot 0 s sc else
  match sc with
  | [] =>
      if left <=? len s then DGot left (dropN left s) []
      else if closed then DGot (len s) [] [] else DBlock
  | e :: sc' =>
      match read1 closed e (N.min left discardChunk) s with
      | RdBlock => DBlock
      | RdGot got eof rest =>
          if eof then DGot (len got) rest sc'
          else match discard closed sc' (left - len got) rest with
               | DGot m r c => DGot (len got + m) r c
               | DBlock => DBlock
               end
      end
  end.

Inductive path := PGeneric | PVec.

Definition read_bufs (p : path) (closed : bool) (sc : script) (bufs : list N) (s : list N) : fillres :=
  match p with
  | PGeneric => readfrom_generic closed sc bufs s
  | PVec => readfrom_vec closed sc (sumN bufs) bufs [] s
  end.

Inductive rres := RR (o : outcome) (rest : list N) (sc : script) | RPanic.

Section RecvRd.
  Variable lookup : N -> N -> lookup_result.
  Variable decode_ok : N -> list N -> list N -> bool.

  (** recv, reading through the scripted reader *)
  Definition recv_rd (p : path) (closed : bool) (msize : N) (sc : script) (s : list N) : rres :=
    match fill false closed sc headerLength s with
    | FBlock => RR NeedMore s sc
    | FPanic => RPanic
    | FEof n r c => RR (ConnErr n) r c
    | FDone hdr s1 sc1 =>
        let size := le32 hdr in
        if negb (hdr_check msize size) then RR (ConnErr headerLength) s1 sc1
        else
          let tag := hdr_tag hdr in
          let typ := hdr_typ hdr in
          let remaining := size - headerLength in
          match plan_of lookup tag typ remaining with
          | PDiscard t =>
              match discard closed sc1 remaining s1 with
              | DBlock => RR NeedMore s sc
              | DGot n r c => RR (Reject t (headerLength + n)) r c
              end
          | PBody fixed =>
              match read_bufs p closed sc1 (body_bufs fixed remaining) s1 with
              | FBlock => RR NeedMore s sc
              | FPanic => RPanic
              | FEof n r c => RR (ConnErr (headerLength + n)) r c
              | FDone acc r c => RR (finish decode_ok tag typ size (takeN fixed acc) (dropN fixed acc)) r c
              end
          end
    end.

  (** the receive loop over the scripted reader *)
  Fixpoint serve_rd_fuel (n : nat) (p : path) (closed : bool) (msize : N) (sc : script) (s : list N) : option (list event) :=
    match n with
    | O => Some []
    | S n' =>
        match recv_rd p closed msize sc s with
        | RPanic => None
        | RR NeedMore _ _ => Some [EvWait]
        | RR (ConnErr _) _ _ => Some [EvShutdown]
        | RR (Reject t _) r c => option_map (cons (EvRlerror t)) (serve_rd_fuel n' p closed msize c r)
        | RR (Deliver t ty b pl _) r c => option_map (cons (EvDeliver t ty b pl)) (serve_rd_fuel n' p closed msize c r)
        end
    end.

  Definition serve_rd (p : path) (closed : bool) (msize : N) (sc : script) (s : list N) : option (list event) :=
    serve_rd_fuel (S (length s)) p closed msize sc s.
End RecvRd.

(** generic path: every scripted Read hands over at least one byte (a "split of the stream") *)
Definition script_ok (p : path) (sc : script) : Prop :=
  match p with
  | PGeneric => Forall (fun e => 0 < fst e) sc
  | PVec => True
  end.
