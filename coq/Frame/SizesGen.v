(** C13: msgDotLRegistry.largestFixedSize recomputed from the layouts go2coq reads off
    messages.go (gen/CodecGen.v), instead of being a hand constant.

    messages.go register(): largestFixedSize = max over all registered types of calculateSize(fn()),
    calculateSize(m) = FixedSize() for a payloader, else the length of the encoding of the zero
    value (m.encode into an empty buffer).  The zero value of a layout encodes every integer / mask
    field in its width, a string as its 2-byte length, a list as its 2-byte count. *)
From Coq Require Import Arith NArith List Bool String Lia ZifyN ZifyNat.
From P9V Require Import gen.ConstGen gen.CodecGen Codec.Layout Codec.LayoutProofs Codec.Frame Codec.Reuse Frame.Sizes.
Import ListNotations.
Open Scope N_scope.

Definition zero_s (k : skind) : sval :=
  match k with
  | KInt _ | KPerm => VInt 0
  | KStr => VStr []
  | KMask _ bits => VMask (map (fun _ => false) bits)
  end.

Definition zero_k (k : kind) : val :=
  match k with KS s => VS (zero_s s) | KList16 _ => VList [] end.

Definition zero_vals (l : layout) : list val := map (fun nk => zero_k (snd nk)) l.

(** bytes the zero value occupies, read off the layout *)
Definition zero_size_s (k : skind) : N :=
  match k with KInt w => N.of_nat w | KPerm => 4 | KStr => 2 | KMask w _ => N.of_nat w end.
Definition zero_size_k (k : kind) : N :=
  match k with KS s => zero_size_s s | KList16 _ => 2 end.
Fixpoint zero_size (l : layout) : N :=
  match l with [] => 0 | (_, k) :: r => zero_size_k k + zero_size r end.

(** ... is the length of what the encoder writes for it *)
Lemma zero_size_is_encoding l : Layout.len (enc_fields l (zero_vals l)) = zero_size l.
Proof.
  unfold Layout.len. induction l as [|[n k] l IH]; [reflexivity|].
  cbn [zero_vals map enc_fields zero_size snd]. fold (zero_vals l).
  rewrite app_length, Nat2N.inj_add, IH. f_equal.
  destruct k as [s|e]; cbn [zero_k enc zero_size_k].
  - destruct s; cbn [zero_s enc_s zero_size_s]; rewrite ?app_length, ?le_enc_length; cbn [List.length]; lia.
  - cbn [enc_rows flat_map]. rewrite app_length, le_enc_length. cbn [List.length]. lia.
Qed.

(** calculateSize of one registered type *)
Definition calculate_size (g : gen_msg) : N :=
  match gm_fixed_size g with
  | Some f => f
  | None => zero_size (ml_fixed (gm_enc g))
  end.

Definition largest_from_layouts : N := fold_right N.max 0 (map calculate_size gen_msgs).

(** the number the client model (Frame/Sizes.v payload_size, adopt) works with IS the one the
    registry computes from the message layouts of the source *)
Theorem largest_fixed_size_from_layouts : largest_from_layouts = largestFixedSize.
Proof. vm_compute. reflexivity. Qed.

Lemma fold_max_ge (l : list N) x : In x l -> x <= fold_right N.max 0 l.
Proof.
  induction l as [|y l IH]; [intros []|]. intros [->|H]; cbn [fold_right]; [lia|].
  specialize (IH H). lia.
Qed.

(** it bounds the encoded fixed part of EVERY registered message, payloaders included ... *)
Theorem largest_bounds_every_type g : In g gen_msgs -> calculate_size g <= largest_from_layouts.
Proof. intros H. apply fold_max_ge. now apply in_map. Qed.

(** ... and -- what the client clause of C13 really needs -- it leaves room for the 7-byte header
    plus the fixed part of every payload-carrying message (Twrite 16, Rread / Rreaddir 4): FixedSize()
    does not include the header, so "largest over the payloaders only" would NOT do *)
Definition payloaders_fit : bool :=
  forallb (fun g => match gm_fixed_size g with
                    | Some f => p9_headerLength + f <=? largest_from_layouts
                    | None => true
                    end) gen_msgs.

Lemma payloaders_fit_ok : payloaders_fit = true.
Proof. vm_compute. reflexivity. Qed.

Theorem largest_covers_payloaders g f :
  In g gen_msgs -> gm_fixed_size g = Some f -> p9_headerLength + f <= largestFixedSize.
Proof.
  intros Hin Hf. pose proof payloaders_fit_ok as H. unfold payloaders_fit in H.
  rewrite forallb_forall in H. specialize (H g Hin). rewrite Hf in H.
  apply N.leb_le in H. now rewrite <- largest_fixed_size_from_layouts.
Qed.

(** the overheads Frame/Sizes.v uses are those FixedSize values + the header *)
Definition fixed_of_typ (t : N) : option N :=
  match find (fun g => gm_typ g =? t) gen_msgs with Some g => gm_fixed_size g | None => None end.

Theorem overheads_from_layouts :
  fixed_of_typ p9_msgTwrite = Some (requestOverhead - p9_headerLength) /\
  fixed_of_typ p9_msgRread = Some (replyOverhead - p9_headerLength) /\
  fixed_of_typ p9_msgRreaddir = Some (replyOverhead - p9_headerLength).
Proof. repeat split; vm_compute; reflexivity. Qed.

(** the mutant of record: sizing from the payloaders alone gives 16, and then a full Twrite chunk
    at msize 154 is 161 bytes *)
Definition largest_payloaders_only : N :=
  fold_right N.max 0 (map (fun g => match gm_fixed_size g with Some f => f | None => 0 end) gen_msgs).

Theorem payloaders_only_refuted :
  largest_payloaders_only = 16 /\
  let p := round_down (sub32 154 largest_payloaders_only) 512 in twrite_frame p = 161.
Proof. split; vm_compute; reflexivity. Qed.
