(** C13 meets C02: a Tread / Treaddir can only reach its handler when the msize in force is at
    least 23, because recv refuses any frame longer than msize and the protocol table's decoder
    needs the 16 bytes fid[4] offset[8] count[4].  This discharges, inside C13's own cone, the
    hypothesis "11 <= msize" of the server theorems for every request that is actually served. *)
From Coq Require Import NArith List Bool Lia ZifyN ZifyBool ZifyNat.
From P9V Require Import gen.ConstGen Frame.Model Frame.ListN Frame.FrameProofs Frame.Instantiate.
Import ListNotations.
Open Scope N_scope.

Definition is_read_request (typ : N) : bool := (typ =? p9_msgTread) || (typ =? p9_msgTreaddir).

Lemma read_request_body_16 typ body :
  is_read_request typ = true -> spec_decode typ body [] = true -> 16 <= len body.
Proof.
  intros Ht Hd.
  destruct (N.le_gt_cases 16 (len body)) as [H|H]; [exact H|exfalso].
  unfold is_read_request in Ht. apply orb_true_iff in Ht.
  do 16 (destruct body as [|? body]; [destruct Ht as [Ht|Ht]; apply N.eqb_eq in Ht; subst typ; vm_compute in Hd; discriminate|]).
  rewrite !len_cons in H. lia.
Qed.

Theorem read_request_needs_23 closed msize s t ty b p c :
  fst (recv spec_lookup spec_decode closed msize s) = Deliver t ty b p c ->
  is_read_request ty = true -> 23 <= c /\ c <= msize /\ 23 <= msize.
Proof.
  intros H Ht. apply recv_deliver_exact in H.
  destruct H as (Hc & Hcs & Hcl & _ & _ & Hb & Hd & _).
  pose proof (proj1 (hdr_check_spec spec_lookup spec_decode _ _) Hc) as (H7 & _ & Hms).
  assert (Hl : len (b ++ p) <= c - 7) by (rewrite Hb, len_takeN; lia).
  assert (H16 : 16 <= len (b ++ p)).
  { unfold spec_decode, decode_codec in Hd.
    apply (read_request_body_16 ty (b ++ p) Ht). unfold spec_decode, decode_codec. now rewrite app_nil_r. }
  subst c. lia.
Qed.
