(** Comparison of what the real recv / Server.Handle / vecnet.Buffers.ReadFrom did
    (observations written by the c02 and c17 harness files under harness/p9 and harness/vecnet) with the
    models of Frame/Model.v and Frame/Reader.v, evaluated by vm_compute (C02, C17). *)
From Coq Require Import NArith List Bool String Ascii.
From P9V Require Import gen.ConstGen gen.FrameGen Frame.Model Frame.Reader Frame.Instantiate.
Import ListNotations.
Open Scope N_scope.

(** byte strings in the cases files are written as hex string literals (fast to parse) *)
Definition hexval (a : Ascii.ascii) : N :=
  let n := Ascii.N_of_ascii a in
  if (48 <=? n) && (n <=? 57) then n - 48 else if (97 <=? n) && (n <=? 102) then n - 87 else 0.
Fixpoint hx (s : String.string) : list N :=
  match s with
  | String.String a (String.String b r) => (16 * hexval a + hexval b) :: hx r
  | _ => []
  end.

(** recv's lookup = msgDotLRegistry.get, from the generated registry table *)
Fixpoint assocN {A} (k : N) (l : list (N * A)) : option A :=
  match l with [] => None | (k', v) :: r => if k =? k' then Some v else assocN k r end.

(** [extra]: types registered only by the package's own _test.go files (transport_test.go registers
    msgTypeBadDecode), present in the registry while the harness runs; supplied by the check *)
Section WithExtra.
Variable extra : list (N * option N).

Definition lookup_reg (tag typ : N) : lookup_result :=
  match assocN typ (extra ++ frame_registry) with
  | None => LkUnknown
  | Some None => LkPlain
  | Some (Some f) => LkPayloader f
  end.

Fixpoint list_eqb (a b : list N) : bool :=
  match a, b with
  | [], [] => true
  | x :: a', y :: b' => (x =? y) && list_eqb a' b'
  | _, _ => false
  end.

(** the decoder's verdict, as observed by calling m.decode directly on the body *)
Definition oracle := list (N * list N * bool).
Fixpoint oracle_ok (tbl : oracle) (typ : N) (body pay : list N) : bool :=
  match tbl with
  | [] => false
  | (ty, bytes, ok) :: r => if (ty =? typ) && list_eqb bytes (body ++ pay) then ok else oracle_ok r typ body pay
  end.

(** the decoder's verdict according to the protocol table (Codec/Spec9P.v, C01's decoder [recv_body]) --
    NOT taken from the implementation; the test-only type(s) in [extra] (badDecode) always overrun *)
Definition dec_spec (typ : N) (body pay : list N) : bool :=
  match assocN typ extra with
  | Some _ => false
  | None => spec_decode typ body pay
  end.

(** the implementation's own verdicts (m.decode called directly) must be the table's *)
Definition oracle_is_spec (tbl : oracle) : bool :=
  forallb (fun '(ty, bytes, ok) =>
             match plan_of lookup_reg 0 ty (len bytes) with
             | PBody fixed => Bool.eqb ok (dec_spec ty (takeN fixed bytes) (dropN fixed bytes))
             | PDiscard _ => negb ok
             end) tbl.

(** oracle entries given as slices (typ, offset, length, verdict) of the stream *)
Definition slice_oracle (stream : list N) (l : list (N * N * N * bool)) : oracle :=
  map (fun '(ty, off, ln, ok) => (ty, takeN ln (dropN off stream), ok)) l.

(** observed event of one recv call: kind 0 conn error, 1 non-connection error, 2 message, 3 Go panic *)
Inductive obs_event := OEv (kind tag typ : N) (haspay : bool) (payload : list N) (consumed : N).

Definition ev_kind (e : obs_event) : N := match e with OEv k _ _ _ _ _ => k end.
Definition ev_consumed (e : obs_event) : N := match e with OEv _ _ _ _ _ c => c end.
Definition ev_tag' (e : obs_event) : N := match e with OEv _ t _ _ _ _ => t end.
Definition ev_typ' (e : obs_event) : N := match e with OEv _ _ ty _ _ _ => ty end.

Definition obs_eqb (a b : obs_event) : bool :=
  match a, b with
  | OEv k t ty hp p c, OEv k' t' ty' hp' p' c' =>
      (k =? k') && (t =? t') && (ty =? ty') && Bool.eqb hp hp' && list_eqb p p' && (c =? c')
  end.

Fixpoint obs_list_eqb (a b : list obs_event) : bool :=
  match a, b with
  | [], [] => true
  | x :: a', y :: b' => obs_eqb x y && obs_list_eqb a' b'
  | _, _ => false
  end.

Definition is_payloader (typ : N) : bool :=
  match lookup_reg 0 typ with LkPayloader _ => true | _ => false end.

(** [nc]: consumption not observable (socket modes: recvmsg bypasses any counting wrapper) *)
Definition outcome_agrees (nc : bool) (o : outcome) (e : obs_event) : bool :=
  match o, e with
  | ConnErr c, OEv k t _ _ _ c' => (k =? 0) && (t =? noTag) && (nc || (c =? c'))
  | Reject t c, OEv k t' _ _ _ c' => (k =? 1) && (t =? t') && (nc || (c =? c'))
  | Deliver t ty b p c, OEv k t' ty' hp p' c' =>
      (k =? 2) && (t =? t') && (ty =? ty') && (nc || (c =? c')) && Bool.eqb hp (is_payloader ty) &&
      (if hp then list_eqb p p' else true)
  | NeedMore, _ => false
  end.

Definition stops (o : outcome) : bool := match o with ConnErr _ | NeedMore => true | _ => false end.

(** the recv loop of the harness (stops after a connection error or [n] calls), on the flat stream ... *)
Fixpoint run_flat_l (lk : N -> N -> lookup_result) (n : nat) (msize : N) (s : list N) : list outcome :=
  match n with
  | O => []
  | S n' =>
      let o := fst (recv lk dec_spec true msize s) in
      o :: (if stops o then [] else run_flat_l lk n' msize (dropN (consumed o) s))
  end.
Definition run_flat (tbl : oracle) := run_flat_l lookup_reg.

(** ... and through the scripted reader *)
Fixpoint run_rd (tbl : oracle) (n : nat) (p : path) (msize : N) (sc : script) (s : list N) : option (list outcome) :=
  match n with
  | O => Some []
  | S n' =>
      match recv_rd lookup_reg dec_spec p true msize sc s with
      | RPanic => None
      | RR o r c => if stops o then Some [o] else option_map (cons o) (run_rd tbl n' p msize c r)
      end
  end.

Fixpoint outcomes_agree (nc : bool) (os : list outcome) (es : list obs_event) : bool :=
  match os, es with
  | [], [] => true
  | o :: os', e :: es' => outcome_agrees nc o e && outcomes_agree nc os' es'
  | _, _ => false
  end.

(** Read(p) lengths of a reader that always hands over everything asked for, one complete frame *)
Fixpoint chunks (fuel : nat) (left : N) : list N :=
  match fuel with
  | O => []
  | S f => if left =? 0 then [] else N.min left discardChunk :: chunks f (left - N.min left discardChunk)
  end.

Definition expected_reads (msize : N) (s : list N) : option (list N) :=
  if len s <? 7 then None else
  let size := le32 s in
  if negb (hdr_check msize size) then Some [7] else
  if len s <? size then None else
  match plan_of lookup_reg (hdr_tag s) (hdr_typ s) (size - 7) with
  | PDiscard _ => Some (7 :: chunks 600 (size - 7))
  | PBody fixed => Some (7 :: body_bufs fixed (size - 7))
  end.

Definition script_positive (sc : script) : bool := forallb (fun e => 0 <? fst e) sc.

Definition bound (msize : N) : N := N.max 7 (N.min msize maximumLength).

Definition is_nil' (r : list obs_event) : bool := match r with [] => true | _ => false end.

(** what the property says about one stream, evaluated on the observed events only:
    walk the stream by its size fields *)
Fixpoint walk_ok_l (lk : N -> N -> lookup_result) (msize : N) (s : list N) (evs : list obs_event) : bool :=
  match evs with
  | [] => true
  | e :: r =>
      if ev_kind e =? 3 then false                                            (* Go panic *)
      else if len s <? 7 then (ev_kind e =? 0) && is_nil' r                   (* stream ends in the header *)
      else
        let size := le32 s in
        if negb (hdr_check msize size) then (ev_kind e =? 0) && (ev_consumed e =? 7) && is_nil' r
        else if size <=? len s then
          (* a complete frame: delivered iff the protocol table's decoder accepts exactly these bytes
             ("carrying exactly the field values encoded in it, or rejected": unknown type, fixed part
             does not fit, inconsistent counts, short body); consumed = declared size either way *)
          let body := takeN (size - 7) (dropN 7 s) in
          (match plan_of lk (hdr_tag s) (hdr_typ s) (size - 7) with
           | PDiscard t => (ev_kind e =? 1) && (ev_tag' e =? t)
           | PBody fixed =>
               if dec_spec (hdr_typ s) (takeN fixed body) (dropN fixed body)
               then (ev_kind e =? 2) && (ev_tag' e =? hdr_tag s) && (ev_typ' e =? hdr_typ s)
               else (ev_kind e =? 1) && (ev_tag' e =? noTag)
           end) &&
          (ev_consumed e =? size) && walk_ok_l lk msize (dropN size s) r
        else (* the stream ends inside this frame: a connection error; the rejection of a frame that was
                being thrown away (unknown type, fixed part does not fit) may still be reported; never a
                message and never a decoder verdict on a body that did not arrive *)
          ((ev_kind e =? 0) ||
           ((ev_kind e =? 1) && match plan_of lk (hdr_tag s) (hdr_typ s) (size - 7) with PDiscard _ => true | _ => false end)) &&
          (ev_consumed e <=? len s) && walk_ok_l lk msize (dropN (ev_consumed e) s) r
  end.
Definition walk_ok := walk_ok_l lookup_reg.

(** frames a server must answer: well-delimited ones before the first refused / incomplete header;
    with each its type, tag and the reply the protocol table demands (tag, must be Rlerror) *)
Fixpoint walk_frames (fuel : nat) (msize : N) (s : list N) : list (N * N * (N * bool)) :=
  match fuel with
  | O => []
  | S f =>
      if len s <? 7 then [] else
      let size := le32 s in
      if negb (hdr_check msize size) then [] else
      if len s <? size then [] else
        (hdr_typ s, hdr_tag s, frame_reply lookup_reg dec_spec (takeN size s)) :: walk_frames f msize (dropN size s)
  end.

(** does the stream end inside a frame whose header was acceptable?  (recv then throws the
    bytes away and, for an unknown type or a short fixed part, still reports the rejection) *)
Fixpoint walk_tail (fuel : nat) (msize : N) (s : list N) : bool :=
  match fuel with
  | O => false
  | S f =>
      if len s <? 7 then false else
      let size := le32 s in
      if negb (hdr_check msize size) then false else
      if len s <? size then true else walk_tail f msize (dropN size s)
  end.

Fixpoint count_tag (t : N) (l : list N) : nat :=
  match l with [] => O | x :: r => ((if x =? t then 1 else 0) + count_tag t r)%nat end.

Definition same_multiset (a b : list N) : bool :=
  forallb (fun t => Nat.eqb (count_tag t a) (count_tag t b)) (a ++ b).

Fixpoint nodup_tags (l : list N) : bool :=
  match l with [] => true | x :: r => Nat.eqb (count_tag x r) 0 && nodup_tags r end.

Definition ev_tag (e : event) : option N :=
  match e with EvDeliver t _ _ _ => Some t | EvRlerror t => Some t | _ => None end.

Fixpoint opt_tags (l : list event) : list N :=
  match l with [] => [] | e :: r => match ev_tag e with Some t => t :: opt_tags r | None => opt_tags r end end.

Definition rtyp (r : N * N * N) : N := fst (fst r).
Definition rtag (r : N * N * N) : N := snd (fst r).
Definition rerrno (r : N * N * N) : N := snd r.

Definition rlerror_tags (l : list event) : list N :=
  flat_map (fun e => match e with EvRlerror t => [t] | _ => [] end) l.
Definition delivered (l : list event) : list (N * N) :=
  flat_map (fun e => match e with EvDeliver t ty _ _ => [(ty, t)] | _ => [] end) l.

(** segment-fill result of vecnet.Buffers.ReadFrom: err 0 nil, 1 io.EOF, 2 other *)
Fixpoint split_bufs (lens : list N) (acc : list N) : list (list N) :=
  match lens with [] => [] | b :: r => takeN b acc :: split_bufs r (dropN b acc) end.

Inductive fcase :=
| CRegistry (entries : list (N * option N)) (hl maxlen notag : N)
| CLoop (mode : N)            (* 0 scripted io.Reader; 1 unix socket (recvmsg path); 2 unix socket behind a plain io.Reader;
                                 3 scripted io.Reader with an injected non-EOF error (no model: property only) *)
        (msize : N) (max : nat) (stream : list N) (sc : script) (otbl : list (N * N * N * bool))
        (events : list obs_event) (reads : list N)
        (has_base : bool) (base : list obs_event)      (* the same stream received unsegmented *)
| CBig (msize size avail : N) (kind consumed maxread : N)
| CSession (msize : N) (stream : list N) (otbl : list (N * N * N * bool)) (replies : list (N * N * N))   (* type, tag, errno of an Rlerror *)
           (hang returned verok : bool)
| CVec (mode : N)             (* 0 scripted io.Reader, 1 unix socket *)
       (bufs : list N) (stream : list N) (sc : script) (n err : N) (contents : list (list N))
| CClient (msize : N) (max : nat) (stream : list N) (pending : list (N * N))   (* client-side recv: (tag, expected R type) *)
          (events : list obs_event)
| CAlloc (msize : N) (stream : list N) (alloc : N)     (* bytes allocated (runtime TotalAlloc) during one recv *)
| CReneg (announced size : N) (answered returned : bool)   (* a frame of [size] bytes sent after the Rversion announcing [announced] *)
| CFlag (ok : bool).           (* a comparison made by the harness itself (300 KB payload through a socket) *)

Fixpoint reg_eqb (a b : list (N * option N)) : bool :=
  match a, b with
  | [], [] => true
  | (t, o) :: a', (t', o') :: b' =>
      (t =? t') && match o, o' with None, None => true | Some x, Some y => x =? y | _, _ => false end && reg_eqb a' b'
  | _, _ => false
  end.

Definition sess_msize (msize : N) : N := N.min msize maximumLength.

(** a session the model does not speak about: a Tversion inside the stream changes msize while
    later frames are already being received; a tag reused while a DELIVERED request with that tag may
    still be in flight is legitimately ignored.  A frame the decoder rejects is answered from the receive
    path before the next frame is read and never activates its tag, so its tag (its own for an unknown
    type, NOTAG for a bad body) may be used again by any later frame, which must then be answered. *)
Definition sess_skip (frames : list (N * N)) : bool :=
  existsb (fun f => fst f =? p9_msgTversion) frames || negb (nodup_tags (map snd frames)).
(** the frames of a walk the decoder does not reject (plus every Tversion) *)
Definition accepted_frames (frames : list (N * N * (N * bool))) : list (N * N) :=
  map fst (filter (fun f => negb (snd (snd f)) || (fst (fst f) =? p9_msgTversion)) frames).

(** a frame sent after the connection's msize was renegotiated: it is judged by the msize announced in the
    last Rversion (accepted and answered iff its size passes the header check against that value) *)
Definition reneg_answered (announced size : N) : bool := hdr_check announced size.

(** Allocation observed during one recv (buffers, the message, everything the decoder builds):
    at most 64 x the accepted frame size + 64 KiB, and 64 KiB when the header is refused.
    64: a decoded Go value is larger than its wire form -- worst case a list of empty strings, 2 bytes
    on the wire, a 16-byte string header in memory, times up to 5 for the cumulative cost of append's
    1.25x growth = 40x; 64 KiB: the pooled 8 KiB discard buffer, dataPool buffers, the message object,
    reader bookkeeping.  Since size <= min(msize, 4 MiB) this is a bound in terms of msize. *)
Definition alloc_bound (msize : N) (s : list N) : N :=
  if len s <? 7 then 65536
  else if hdr_check msize (le32 s) then 64 * le32 s + 65536 else 65536.

(** an injected read error: the same events as unsegmented up to some point, then a connection error *)
(** same message / same rejection; the bytes consumed may differ for a rejected frame whose discarding
    was cut short by the error (recv ignores errors while discarding and reports the rejection) *)
Definition obs_same (a b : obs_event) : bool :=
  match a, b with
  | OEv k t ty hp p c, OEv k' t' ty' hp' p' c' =>
      (k =? k') && (t =? t') && (ty =? ty') && Bool.eqb hp hp' && list_eqb p p' && ((k =? 1) || (c =? c'))
  end.

Fixpoint prefix_then_conn (evs base : list obs_event) : bool :=
  match evs with
  | [] => false
  | [e] => (ev_kind e =? 0) || match base with [b] => obs_same e b | _ => false end
  | e :: r => match base with b :: br => obs_same e b && prefix_then_conn r br | [] => false end
  end.

(** the lookup of Client.handleOne: no call pending under this tag => ErrUnexpectedTag; an Rlerror is
    always accepted; any other type must be the one the call expects *)
Definition lookup_client (pending : list (N * N)) (tag typ : N) : lookup_result :=
  match assocN tag pending with
  | None => LkUnknown
  | Some expected =>
      if typ =? p9_msgRlerror then LkPlain
      else if typ =? expected then lookup_reg tag typ else LkUnknown
  end.

(** Client.handleOne over the stream: a delivered reply retires its call; a rejected frame fails every
    pending call (handleOne broadcasts the error and clears the table); the rejection's tag is not visible *)
Fixpoint run_client (n : nat) (msize : N) (pending : list (N * N)) (s : list N) : list outcome :=
  match n with
  | O => []
  | S n' =>
      let o := fst (recv (lookup_client pending) dec_spec true msize s) in
      o :: match o with
           | Deliver t _ _ _ c => run_client n' msize (filter (fun x => negb (fst x =? t)) pending) (dropN c s)
           | Reject _ c => run_client n' msize [] (dropN c s)
           | _ => []
           end
  end.

Definition client_agrees (o : outcome) (e : obs_event) : bool :=
  match o, e with
  | Reject _ c, OEv k _ _ _ _ c' => (k =? 1) && (c =? c')
  | _, _ => outcome_agrees false o e
  end.

Fixpoint clients_agree (os : list outcome) (es : list obs_event) : bool :=
  match os, es with
  | [], [] => true
  | o :: os', e :: es' => client_agrees o e && clients_agree os' es'
  | _, _ => false
  end.

Definition agrees (c : fcase) : bool :=
  match c with
  | CRegistry entries hl mx nt =>
      reg_eqb entries frame_registry && (hl =? headerLength) && (mx =? maximumLength) && (nt =? noTag)
  | CLoop mode msize max stream sc otbl events reads _ _ =>
      let tbl := slice_oracle stream otbl in
      let flat_ok := outcomes_agree (negb (mode =? 0)) (run_flat tbl max msize stream) events in
      if mode =? 3 then true else
      if mode =? 0 then
        match run_rd tbl max PGeneric msize sc stream with
        | Some os => outcomes_agree false os events
        | None => false
        end &&
        (if script_positive sc then flat_ok else true) && oracle_is_spec tbl &&
        (if is_nil' events then true else
         match sc, max, expected_reads msize stream with
         | [], 1%nat, Some l => list_eqb l reads
         | _, _, _ => true
         end)
      else flat_ok
  | CBig msize size avail kind consumed maxread =>
      (* no byte-level evaluation: header decision and consumption only *)
      if negb (hdr_check msize size) then (kind =? 0) && (consumed =? 7)
      else if size <=? avail then ((kind =? 1) || (kind =? 2)) && (consumed =? size)
      else negb (kind =? 2) && (consumed =? avail)
  | CSession msize stream otbl replies hang returned verok =>
      let tbl := slice_oracle stream otbl in
      let evs := serve lookup_reg dec_spec true (sess_msize msize) stream in
      if sess_skip (delivered evs) then true else
      negb hang && returned && verok &&
      (* one reply per served frame, under the tag the model predicts (unknown type: the frame's own
         tag, body-level rejection: NOTAG); rejections are Rlerror EIO *)
      same_multiset (opt_tags evs) (map rtag replies) &&
      forallb (fun t => Nat.leb (count_tag t (rlerror_tags evs))
                                (count_tag t (map rtag (filter (fun r => (rtyp r =? p9_msgRlerror) && (rerrno r =? 5)) replies))))
              (rlerror_tags evs)
  | CVec mode bufs stream sc n err contents =>
      let r := if mode =? 0 then readfrom_generic true sc bufs stream
               else readfrom_vec true [] (sumN bufs) bufs [] stream in
      match r with
      | FDone acc _ _ => (err =? 0) && (n =? sumN bufs) && list_eqb (List.concat contents) acc
      | FEof m _ _ => (err =? 1) && (n =? m) && list_eqb (takeN m (List.concat contents)) (takeN m stream)
      | _ => false
      end
  | CClient msize max stream pending events =>
      clients_agree (run_client max msize pending stream) events
  | CAlloc _ _ _ => true
  | CReneg announced size answered returned => Bool.eqb answered (reneg_answered announced size) && returned
  | CFlag _ => true
  end.

Definition property_holds (c : fcase) : bool :=
  match c with
  | CRegistry _ _ _ _ => true
  | CLoop mode msize max stream sc tbl events reads has_base base =>
      (* a Read handing over (0, nil) is outside the property's quantifier (not a split of the stream) *)
      (if (mode =? 0) && script_positive sc then walk_ok msize stream events
       else negb (existsb (fun e => ev_kind e =? 3) events)) &&
      forallb (fun n => n <=? bound msize) reads &&
      (* C17: same messages and payload bytes as the unsegmented stream *)
      (if mode =? 3 then prefix_then_conn events base
       else if has_base && script_positive sc then obs_list_eqb events base else true)
  | CBig msize size avail kind consumed maxread =>
      negb (kind =? 3) && (maxread <=? bound msize) &&
      (if negb (hdr_check msize size) then (kind =? 0) && (consumed =? 7)
       else if size <=? avail then consumed =? size else negb (kind =? 2))
  | CSession msize stream tbl replies hang returned verok =>
      let frames := walk_frames 200 (sess_msize msize) stream in
      let ftags := map (fun f => snd (fst f)) frames in
      let expect := map (fun f => snd f) frames in            (* (reply tag, must be Rlerror) *)
      negb hang && returned &&
      (if sess_skip (accepted_frames frames) then true else
       let tail := walk_tail 200 (sess_msize msize) stream in
       (Nat.eqb (List.length replies) (List.length frames) ||
        (tail && Nat.eqb (List.length replies) (S (List.length frames)))) &&
       (* every frame is answered under the tag the table demands; rejected ones by Rlerror *)
       forallb (fun x : N * bool => Nat.leb (count_tag (fst x) (map fst expect)) (count_tag (fst x) (map rtag replies))) expect &&
       forallb (fun x : N * bool => if snd x then
                           Nat.leb (count_tag (fst x) (map fst (filter (fun y : N * bool => snd y) expect)))
                                   (count_tag (fst x) (map rtag (filter (fun r => rtyp r =? p9_msgRlerror) replies)))
                         else true) expect &&
       forallb (fun r => let t := rtag r in
                         (Nat.leb (count_tag t (map rtag replies)) (count_tag t (map fst expect))) ||
                         (tail && (rtyp r =? p9_msgRlerror))) replies)
  | CVec mode bufs stream sc n err contents =>
      if negb (script_positive sc) then true else
      if sumN bufs <=? len stream then
        (err =? 0) && (n =? sumN bufs) && list_eqb (List.concat contents) (takeN (sumN bufs) stream)
      else (err =? 1)
  | CClient msize max stream pending events =>
      negb (existsb (fun e => ev_kind e =? 3) events) &&
      match events with
      | [] => true
      | OEv k t ty hp p c :: _ =>
          (* the first frame, judged by the protocol table with the initial pending calls; a rejection's tag
             is not observable through handleOne: take the one the table demands *)
          let t' := if k =? 1 then
                      match plan_of (lookup_client pending) (hdr_tag stream) (hdr_typ stream) (le32 stream - 7) with
                      | PDiscard x => x | PBody _ => noTag end
                    else t in
          walk_ok_l (lookup_client pending) msize stream [OEv k t' ty hp p c]
      end
  | CAlloc msize stream alloc => alloc <=? alloc_bound msize stream
  | CReneg announced size answered returned => Bool.eqb answered (reneg_answered announced size) && returned
  | CFlag ok => ok
  end.

Fixpoint failing (f : fcase -> bool) (i : nat) (l : list fcase) : list nat :=
  match l with
  | [] => []
  | c :: r => if f c then failing f (S i) r else i :: failing f (S i) r
  end.

Definition mismatches (l : list fcase) : list nat := failing agrees 0 l.
Definition property_failures (l : list fcase) : list nat := failing property_holds 0 l.
End WithExtra.
