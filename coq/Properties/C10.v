(** C10 — client multiplexing: distinct tags/fids, replies reach their own caller, no hang.
    Statements only; proofs in Client/PoolProofs.v, Client/Fids.v, Client/MuxProofs.v.

    Mux theorems quantify over every reachable state of the interleaving model
    Client/Mux.v — every schedule of any number n of concurrent calls and every
    sequence of transport events (replies in any order, unknown tags, wrong
    types, receive errors, undecodable bodies, send failures).  The model is
    instantiated with what go2coq reads from the source (ClientGen): sendRecv
    registers pending[t] before send, withdraws it when send fails (dca25c9) and
    does not recycle the withdrawn response; handleOne completes only the
    response its lookup accepted the frame for (79e8d00).  The peer is
    ARBITRARY: frames with any tag may arrive at any time (replies to requests
    never completely sent, duplicated or forged replies). *)
From Coq Require Import ZArith NArith Arith List Bool String.
From P9V Require Import gen.ConstGen gen.ClientGen Client.Pool Client.PoolProofs Client.Fids Client.Mux Client.MuxProofs Client.MuxToken Client.SourceShape Client.ClientModel Client.ClientProofs Client.PoolPrims gen.PoolGen Client.PoolTie.
Import ListNotations.
Open Scope nat_scope.

(** ---- allocator ---- *)

(** For every Get/Put sequence in which only outstanding values are put back (and none twice): the
    outstanding values are pairwise distinct and lie in [start0, limit). *)
Theorem C10_pool : forall start0 limit ops pf out res,
  (start0 <= limit < two64)%N ->
  pool_run (mkpool [] start0 limit) [] ops = Some (pf, out, res) ->
  NoDup out /\ Forall (fun v => start0 <= v < limit)%N out.
Proof.
  intros start0 limit ops pf out res Hr Hrun.
  destruct (pool_run_inv start0 ops _ _ _ _ _ (pinv_init start0 limit Hr) Hrun) as [Hinv Hl].
  cbn in Hl. rewrite <- Hl. now apply pinv_out.
Qed.
Print Assumptions C10_pool.

(** ... hence the tag pool never hands out NOTAG and the fid pool never NOFID (limits from the source) *)
Theorem C10_pool_never_sentinel : forall limit ops pf out res,
  (limit = p9_noTag \/ limit = p9_noFID)%N ->
  pool_run (mkpool [] 1%N limit) [] ops = Some (pf, out, res) ->
  Forall (fun v => v <> limit /\ v <> 0%N) out.
Proof.
  intros limit ops pf out res Hl Hrun.
  assert (Hr : (1 <= limit < two64)%N) by (destruct Hl as [-> | ->]; vm_compute; split; congruence).
  destruct (C10_pool 1%N limit ops pf out res Hr Hrun) as [_ Hf].
  eapply Forall_impl; [|exact Hf]. cbn. intros v [A B]. split; intros E; subst v.
  - now apply N.lt_irrefl in B.
  - apply N.le_ngt in A. apply A. reflexivity.
Qed.
Print Assumptions C10_pool_never_sentinel.

(** the bounds NewClient gives the two pools, read from the source: start 1, limit noTag / noFID — so the two
    instances of the theorem above are the client's pools *)
Theorem C10_client_pools :
  newclient_pools = [("tagPool", "1", "uint64(noTag)"); ("fidPool", "1", "uint64(noFID)")].
Proof. reflexivity. Qed.

(** TIE BY TRANSLATION: gen/PoolGen.v holds pool.Get and pool.Put as go2coq TRANSLATED them from p9/pool.go on
    this run (symbolic execution of the bodies over the Go slice: index, re-slice, append, start++ with the
    uint64 wrap; operations that would panic yield None) -- they ARE Pool.pool_get / Pool.pool_put for every
    pool state (the model keeps the stack head-first: [rev]), never panic, and run between mu.Lock and the
    deferred / final mu.Unlock, which is what lets the sequential allocator model stand for concurrent callers *)
Theorem C10_source_pool_get_is_model : forall p,
  gen_pool_Get (rev (p_cache p)) (Z.of_N (p_start p)) (Z.of_N (p_limit p)) = Some (enc_get (pool_get p)).
Proof. exact gen_pool_Get_is_model. Qed.
Print Assumptions C10_source_pool_get_is_model.
Theorem C10_source_pool_put_is_model : forall p v,
  gen_pool_Put (rev (p_cache p)) (Z.of_N (p_start p)) (Z.of_N (p_limit p)) (Z.of_N v)
  = Some (rev (p_cache (pool_put p v)), Z.of_N (p_start (pool_put p v))).
Proof. exact gen_pool_Put_is_model. Qed.
Theorem C10_source_pool_locked : gen_pool_Get_locked = true /\ gen_pool_Put_locked = true.
Proof. exact gen_pool_locked. Qed.

(** ... and over SEQUENCES: driving the translated Get / Put through any operation sequence (Client/PoolTie.gen_run:
    the same discipline as [pool_run]) is [pool_run] on the model; so the allocator theorem holds of the
    translated code itself: for every disciplined Get/Put sequence run on what p9/pool.go says, no step panics
    and the outstanding values are pairwise distinct and lie in [start0, limit) *)
Theorem C10_source_pool_run_is_model : forall ops p out,
  gen_run (rev (p_cache p)) (Z.of_N (p_start p)) (Z.of_N (p_limit p)) out ops = enc_run (pool_run p out ops).
Proof. exact gen_run_is_model. Qed.
Print Assumptions C10_source_pool_run_is_model.
Theorem C10_source_pool : forall start0 limit ops c s out res,
  (start0 <= limit < two64)%N ->
  gen_run [] (Z.of_N start0) (Z.of_N limit) [] ops = Some (c, s, out, res) ->
  NoDup out /\ Forall (fun v => start0 <= v < limit)%N out.
Proof.
  intros start0 limit ops c s out res Hr H.
  pose proof (gen_run_is_model ops (mkpool [] start0 limit) []) as T. cbn [p_cache p_start p_limit rev] in T.
  rewrite T in H. destruct (pool_run (mkpool [] start0 limit) [] ops) as [[[pf o] rs]|] eqn:E; [|discriminate].
  cbn in H. inversion H; subst. exact (C10_pool start0 limit ops pf out res Hr E).
Qed.
Print Assumptions C10_source_pool.

(** Get fails only when every value of the range is outstanding *)
Theorem C10_pool_exhausted : forall start0 limit ops pf out res,
  (start0 <= limit < two64)%N ->
  pool_run (mkpool [] start0 limit) [] ops = Some (pf, out, res) ->
  fst (pool_get pf) = None -> forall v, (start0 <= v < limit)%N -> In v out.
Proof.
  intros start0 limit ops pf out res Hr Hrun Hg v Hv.
  destruct (pool_run_inv start0 ops _ _ _ _ _ (pinv_init start0 limit Hr) Hrun) as [Hinv Hl].
  destruct (pool_get pf) as [[x|] p'] eqn:E; [discriminate|].
  destruct (get_none _ _ _ _ Hinv E) as [_ H]. apply H. cbn in Hl. now rewrite Hl.
Qed.
Print Assumptions C10_pool_exhausted.

(** fid freshness: whatever the sequence of binding requests (answered, refused, or failed in any
    other way with the server having bound the fid or not) and of Close/Remove (confirmed or failed),
    a fid handed to a new File is not bound at the server.  No assumption on how requests fail:
    after anything but Rlerror the fid is leaked, never reused (commit 28ed22f). *)
Theorem C10_fid_fresh : forall evs limit,
  (1 <= limit < two64)%N ->
  Forall (fun x => snd x = false /\ match fst x with Some f => (1 <= f < limit)%N | None => True end)
         (fid_run (String.eqb release_fid_policy "refused") (mkpool [] 1%N limit) [] [] evs).
Proof.
  intros evs limit Hr. apply (fid_fresh 1%N evs (mkpool [] 1%N limit) [] []).
  - now apply pinv_init.
  - constructor.
  - intros f [].
Qed.
Print Assumptions C10_fid_fresh.

(** with the former policy (Put after any failure) a bound fid is handed out again *)
Theorem C10_fid_recycle_refuted :
  fid_run false (mkpool [] 1%N 4294967295%N) [] [] [FBind (BLost true); FBind BOk] = [(Some 1%N, false); (Some 1%N, true)].
Proof. exact fid_reuse_refuted. Qed.

(** the Get/Put sites of the fid pool in the client (table read from client_file.go): Get in Attach, Walk,
    WalkGetAttr (and, as reviewed text, xattrWalkRead), each followed on failure by releaseFID; Put(c.fid) only in
    Close and Remove after the exchange succeeded; releaseFID puts back only on Rlerror *)
Theorem C10_fid_sites :
  map gm_name (filter gm_fid_get spec_methods) = ["Attach"; "Walk"; "WalkGetAttr"] /\
  forallb (fun m => forallb (fun s => String.eqb (gs_put_on_err s) "refused") (gm_sends m)) (filter gm_fid_get spec_methods) = true /\
  forallb (fun m => forallb (fun s => String.eqb (gs_put_on_err s) "") (gm_sends m)) (filter (fun m => negb (gm_fid_get m)) spec_methods) = true /\
  map gm_name (filter gm_fid_put_ok spec_methods) = ["Close"; "Remove"] /\
  forallb (fun m => String.eqb (gm_guard m) "cas") (filter gm_fid_put_ok spec_methods) = true /\
  ClientGen.release_fid_policy = "refused" /\ ClientGen.methods = spec_methods /\
  src_Client_releaseFID = ["if _, ok := err.(linux.Errno); ok { c.fidPool.Put(id) }"].
Proof.
  destruct fid_sites as (A & B & C & D & E & F). repeat split; auto; try exact gen_is_spec.
Qed.

(** ---- multiplexing ---- *)

(** the functions the interleaving model restates are, statement by statement, the reviewed ones; in particular the
    tag is given back by a deferred Put (only when the call returns), pending[t] is registered before send, and
    waitAndRecv is the select loop the steps AWaitDone / AWaitToken stand for *)
Theorem C10_source_bodies :
  src_Client_sendRecv = spec_src_Client_sendRecv /\ src_Client_handleOne = spec_src_Client_handleOne /\
  src_Client_waitAndRecv = spec_src_Client_waitAndRecv /\
  filter (mentions "tagPool") spec_src_Client_sendRecv = ["t, ok := c.tagPool.Get()"; "defer c.tagPool.Put(t)"].
Proof. repeat split. Qed.

(** ---- the hand-over of the receive token (waitAndRecv), read from the statement structure of the source ----
    go2coq enumerates the paths through the `case c.recvr <- true:` branch (release / handleOne / return / polls of
    done) and refuses anything else; every path releases the token exactly once; [waitandrecv_rechecks_done]: every
    path looks at done again after taking the token and before entering handleOne.  The interleaving model with this
    flag as a parameter ([MuxToken.step_t]) is Mux.step exactly when the flag is true, so all theorems below are
    about the code as read ... *)
Theorem C10_token_handover :
  waitandrecv_rechecks_done = true /\
  forall wd keep chk mk m a, step_t waitandrecv_rechecks_done wd keep chk mk m a = step wd keep chk mk m a.
Proof. split; [reflexivity|]. intros. apply step_t_recheck. Qed.
Print Assumptions C10_token_handover.

(** ... and without the re-check (seeded change C10-m3) a call whose reply was delivered before it reached the
    select, with the token free, can take the token and then sits in recv with its reply in hand and nothing
    outstanding: it never returns.  With the re-check the same state only allows it to return its reply. *)
Theorem C10_token_recheck_needed :
  (exists m, run_t false true true true true (init 2) (trace_late ++ [AWaitToken 0]) = Some m /\ stuck_in_recv m 0) /\
  (exists m, run true true true true (init 2) trace_late = Some m /\
             step true true true true m (AWaitToken 0) = None /\
             exists m', step true true true true m (AWaitDone 0) = Some m' /\ get (thr m') 0 = TDone 1 0 (ROk 1 0 0)).
Proof. exact token_recheck_needed. Qed.

(** what the source does; reverting dca25c9 / 79e8d00 (or registering after send) makes these obligations fail *)
Lemma C10_source_shape :
  sendrecv_registers_before_send = true /\ sendrecv_withdraws = true /\
  sendrecv_keeps_withdrawn = true /\ handleone_checks_found = true /\ recv_error_marks_dead = true.
Proof. repeat split. Qed.

(** [mark] := recv_error_marks_dead: the receiver remembers a connection error and no call is registered
    afterwards (commit 91df8ef).  The invariant theorems below hold for both values of the flag. *)
Definition mark : bool := recv_error_marks_dead.

Definition reachable (n : nat) (m : mst) : Prop :=
  reach sendrecv_withdraws sendrecv_keeps_withdrawn handleone_checks_found mark n m.

Lemma reachable_inv n m : reachable n m -> Inv m.
Proof. exact (reach_inv mark n m). Qed.

(** the invariant, in every reachable state.  NOTE (by construction): that running calls hold pairwise distinct TAGS
    is the enabledness guard of AStart ([fresh]): the model takes it from the allocator — C10_pool for the pool
    C10_client_pools describes, with the discipline C10_source_bodies shows (one Get, one deferred Put).  What the
    invariant adds: distinct response SLOTS, every pending slot is owned by exactly one running call and its done channel is empty, so
    no send on done ever blocks; at most one call holds the receive token; a withdrawn slot is never
    held again *)
Theorem C10_invariant : forall n m, reachable n m -> Inv m.
Proof. exact reachable_inv. Qed.
Print Assumptions C10_invariant.

(** no reachable state has a call blocked in a channel send or crashed — for an arbitrary peer
    (this is the former C10_send_race_refuted turned positive) *)
Theorem C10_never_blocked : forall n m i, reachable n m ->
  get (thr m) i <> TBlocked /\ get (thr m) i <> TPanic.
Proof. intros n m i H. apply (I_good m (reachable_inv n m H)). Qed.
Print Assumptions C10_never_blocked.

(** a reply that arrives while its call withdraws is dropped; the receiver goes on, the call returns an error *)
Theorem C10_send_race_harmless :
  exists m, run true true true false (init 2) trace_race = Some m /\ get (thr m) 1 = TWait 2 1 /\
            get (thr m) 0 = TDone 1 0 RFail /\ token m = false.
Proof. exact race_dropped. Qed.

(** routing / no foreign data: a call that returns a reply returns the frame that carried its own tag,
    decoded into the message object of its own response slot, which it held itself when the frame was
    accepted — no call receives another call's data *)
Theorem C10_route : forall n m i t s t' s' o, reachable n m ->
  get (thr m) i = TDone t s (ROk t' s' o) -> t' = t /\ s' = s /\ o = i.
Proof. intros n m i t s t' s' o H Hd. exact (I_done m (reachable_inv n m H) _ _ _ _ Hd). Qed.
Print Assumptions C10_route.

Theorem C10_no_foreign_data : forall n m i t s r, reachable n m ->
  live (get (thr m) i) = Some (t, s) -> full m s = Some r -> routed i t s r.
Proof.
  intros n m i t s r H Hl Hf. pose proof (reachable_inv n m H) as HI.
  destruct (I_live m HI _ _ _ Hl) as [Hin|(r' & Hf' & Hr)].
  - destruct (I_pend m HI _ _ Hin). congruence.
  - congruence.
Qed.
Print Assumptions C10_no_foreign_data.

(** the reply wakes only the call that registered the tag: pending slots have exactly one owner *)
Theorem C10_one_owner : forall n m t s i j, reachable n m -> In (t, s) (pend m) ->
  live (get (thr m) i) = Some (t, s) -> live (get (thr m) j) = Some (t, s) -> i = j.
Proof.
  intros n m t s i j H Hin Hi Hj. destruct (Nat.eq_dec i j) as [|Hne]; auto.
  destruct (I_distinct m (reachable_inv n m H) _ _ _ _ _ _ Hne Hi Hj). congruence.
Qed.

(** fail-all *)
Theorem C10_fail_all : forall n m a m', reachable n m -> fatal_action m a ->
  step true true true mark m a = Some m' ->
  pend m' = [] /\ forall t0 s0, In (t0, s0) (pend m) -> full m' s0 = Some RFail.
Proof. exact (fail_all mark). Qed.
Print Assumptions C10_fail_all.

(** no-stuck *)
Theorem C10_no_stuck : forall n m i t s, reachable n m -> get (thr m) i = TWait t s ->
  (exists r, full m s = Some r /\ routed i t s r /\ step true true true mark m (AWaitDone i) <> None) \/
  (In (t, s) (pend m) /\ full m s = None /\
   ((token m = false /\ step true true true mark m (AWaitToken i) <> None) \/
    (token m = true /\ exists j, j <> i /\ holder (get (thr m) j)))).
Proof. exact (no_stuck mark). Qed.
Print Assumptions C10_no_stuck.

(** later calls fail: once the connection is dead (every send and every receive fails from then on —
    [dead_forever]), a call that had not started can only return an error, whatever happens next *)
Theorem C10_later_fail : forall n m i, reachable n m -> dead m = true -> get (thr m) i = TIdle ->
  forall tr m' t s r, run true true true mark m tr = Some m' -> get (thr m') i = TDone t s r -> r = RFail.
Proof. exact (later_fail mark). Qed.
Print Assumptions C10_later_fail.

(** a connection error reported by recv itself (bad header, over-long frame, read error): if the receiver remembers
    it, every call that has not started fails, whatever the peer and the transport do afterwards ... *)
Theorem C10_later_fail_after_recv_error : forall n m j m1 i,
  reach true true true true n m -> step true true true true m (ARecvErr j) = Some m1 -> get (thr m1) i = TIdle ->
  forall tr m' t s r, run true true true true m1 tr = Some m' -> get (thr m') i = TDone t s r -> r = RFail.
Proof. exact later_fail_after_recv_error. Qed.
Print Assumptions C10_later_fail_after_recv_error.

(** ... before commit 91df8ef it was forgotten: a later call was sent and waited in recv on a connection the client
    had declared broken (on the real code it hung: fixes/C10-recv-error-not-remembered.md) *)
Theorem C10_recv_error_forgotten_refuted :
  exists m, run true true true false (init 2) trace_forgotten = Some m /\
            get (thr m) 0 = TDone 1 0 RFail /\ get (thr m) 1 = TRecv 1 0 /\ dead m = false.
Proof. exact recv_error_forgotten. Qed.

(** each fix is needed: without the withdrawal the broadcaster blocks for good on a recycled slot; without
    the re-check in handleOne a nil *response is dereferenced; with the re-check but a recycled slot a new
    call is completed with a reply decoded into another call's message *)
Theorem C10_stale_entry_refuted :
  exists m, run false false true false (init 2) trace_stale = Some m /\ get (thr m) 1 = TBlocked.
Proof. exact stale_blocks. Qed.

Theorem C10_unchecked_completion_refuted :
  exists m, run true false false false (init 2) trace_race = Some m /\ get (thr m) 1 = TPanic.
Proof. exact race_panics. Qed.

Theorem C10_recycled_slot_refuted :
  exists m, run true false true false (init 3) trace_aba = Some m /\ get (thr m) 2 = TDone 1 0 (ROk 1 0 0).
Proof. exact aba_foreign. Qed.
Print Assumptions C10_recycled_slot_refuted.

(** the hypotheses are satisfiable: a reachable state with two calls in flight, one of them receiving;
    and a reachable dead state with an idle call *)
Example C10_ex_reachable :
  exists m, reachable 3 m /\ get (thr m) 0 = TRecv 1 0 /\ get (thr m) 1 = TWait 2 1 /\ List.length (pend m) = 2 /\
            exists m2, reachable 3 m2 /\ dead m2 = true /\ get (thr m2) 2 = TIdle.
Proof.
  eexists. split; [|split; [|split; [|split]]].
  - eapply run_reach with (tr := [AStart 0 1 0; AStart 1 2 1; ASendOk 0; ASendOk 1; AWaitToken 0]); [apply reach_init|].
    vm_compute. reflexivity.
  - reflexivity.
  - reflexivity.
  - reflexivity.
  - eexists. split; [|split].
    + eapply run_reach with (tr := [AStart 0 1 0; ASendOk 0; AKill]); [apply reach_init|]. vm_compute. reflexivity.
    + reflexivity.
    + reflexivity.
Qed.
