(** C10 — client multiplexing: distinct tags/fids, replies reach their own caller, no hang.
    Statements only; proofs in Client/PoolProofs.v, Client/Fids.v, Client/MuxProofs.v.

    Mux theorems quantify over every reachable state of the interleaving model
    Client/Mux.v — every schedule of any number n of concurrent calls and every
    sequence of transport events (replies in any order, unknown tags, wrong
    types, receive errors, undecodable bodies, send failures).  The model is
    instantiated with [wd := ClientGen.sendrecv_withdraws] (read from the
    source: does sendRecv withdraw its pending entry when send fails) and with
    [honest := true]: a frame carrying tag t is delivered only once the request
    that registered t has been sent.  Without that restriction the model reaches
    a nil dereference: C10_send_race_refuted (see /verif/fixes/C10-reply-during-failed-send.md). *)
From Coq Require Import NArith Arith List Bool.
From P9V Require Import gen.ConstGen gen.ClientGen Client.Pool Client.PoolProofs Client.Fids Client.Mux Client.MuxProofs.
Import ListNotations.
Open Scope nat_scope.

(** ---- allocator ---- *)

(** For every Get/Put sequence in which only outstanding values are put back (and none twice): the
    outstanding values are pairwise distinct and lie in [start0, limit). *)
Theorem C10_pool : forall start0 limit ops pf out res,
  (start0 <= limit < two64)%N ->
  pool_run (mkpool [] start0 limit) [] ops = Some (pf, out, res) ->
  NoDup out /\ Forall (fun v => start0 <= v < limit)%N out.
Proof.
  intros start0 limit ops pf out res Hr Hrun.
  destruct (pool_run_inv start0 ops _ _ _ _ _ (pinv_init start0 limit Hr) Hrun) as [Hinv Hl].
  cbn in Hl. rewrite <- Hl. now apply pinv_out.
Qed.
Print Assumptions C10_pool.

(** ... hence the tag pool never hands out NOTAG and the fid pool never NOFID (limits from the source) *)
Theorem C10_pool_never_sentinel : forall limit ops pf out res,
  (limit = p9_noTag \/ limit = p9_noFID)%N ->
  pool_run (mkpool [] 1%N limit) [] ops = Some (pf, out, res) ->
  Forall (fun v => v <> limit /\ v <> 0%N) out.
Proof.
  intros limit ops pf out res Hl Hrun.
  assert (Hr : (1 <= limit < two64)%N) by (destruct Hl as [-> | ->]; vm_compute; split; congruence).
  destruct (C10_pool 1%N limit ops pf out res Hr Hrun) as [_ Hf].
  eapply Forall_impl; [|exact Hf]. cbn. intros v [A B]. split; intros E; subst v.
  - now apply N.lt_irrefl in B.
  - apply N.le_ngt in A. apply A. reflexivity.
Qed.
Print Assumptions C10_pool_never_sentinel.

(** Get fails only when every value of the range is outstanding *)
Theorem C10_pool_exhausted : forall start0 limit ops pf out res,
  (start0 <= limit < two64)%N ->
  pool_run (mkpool [] start0 limit) [] ops = Some (pf, out, res) ->
  fst (pool_get pf) = None -> forall v, (start0 <= v < limit)%N -> In v out.
Proof.
  intros start0 limit ops pf out res Hr Hrun Hg v Hv.
  destruct (pool_run_inv start0 ops _ _ _ _ _ (pinv_init start0 limit Hr) Hrun) as [Hinv Hl].
  destruct (pool_get pf) as [[x|] p'] eqn:E; [discriminate|].
  destruct (get_none _ _ _ _ Hinv E) as [_ H]. apply H. cbn in Hl. now rewrite Hl.
Qed.
Print Assumptions C10_pool_exhausted.

(** fid freshness: whatever the sequence of binding requests (answered or refused) and of
    Close/Remove (confirmed or failed), a fid handed to a new File is not bound at the server *)
Theorem C10_fid_fresh : forall evs limit,
  (1 <= limit < two64)%N ->
  Forall (fun x => snd x = false /\ match fst x with Some f => (1 <= f < limit)%N | None => True end)
         (fid_run (mkpool [] 1%N limit) [] [] evs).
Proof.
  intros evs limit Hr. apply (fid_fresh 1%N evs (mkpool [] 1%N limit) [] []).
  - now apply pinv_init.
  - constructor.
  - intros f [].
Qed.
Print Assumptions C10_fid_fresh.

(** ---- multiplexing ---- *)

(** the source withdraws (commit dca25c9); reverting it makes this obligation fail *)
Lemma C10_source_withdraws : sendrecv_withdraws = true.
Proof. reflexivity. Qed.

Definition reachable (n : nat) (m : mst) : Prop := reach sendrecv_withdraws true n m.

Lemma reachable_inv n m : reachable n m -> Inv m.
Proof. unfold reachable. rewrite C10_source_withdraws. apply reach_inv. Qed.

(** the invariant, in every reachable state: running calls hold pairwise distinct tags and response
    slots; every pending slot is owned by exactly one running call and its done channel is empty, so
    no send on done ever blocks; at most one call holds the receive token *)
Theorem C10_invariant : forall n m, reachable n m -> Inv m.
Proof. exact reachable_inv. Qed.
Print Assumptions C10_invariant.

(** no reachable state has a call blocked in a channel send or crashed *)
Theorem C10_never_blocked : forall n m i, reachable n m ->
  get (thr m) i <> TBlocked /\ get (thr m) i <> TPanic.
Proof. intros n m i H. apply (I_good m (reachable_inv n m H)). Qed.
Print Assumptions C10_never_blocked.

(** routing: a call that returns a reply returns the frame that carried its own tag, decoded into its
    own response slot; and while it waits, a value in its done channel is its own *)
Theorem C10_route : forall n m i t s t' s', reachable n m ->
  get (thr m) i = TDone t s (ROk t' s') -> t' = t /\ s' = s.
Proof. intros n m i t s t' s' H Hd. exact (I_done m (reachable_inv n m H) _ _ _ _ Hd). Qed.
Print Assumptions C10_route.

(** the reply wakes only the call that registered the tag: pending slots have exactly one owner *)
Theorem C10_one_owner : forall n m t s i j, reachable n m -> In (t, s) (pend m) ->
  live (get (thr m) i) = Some (t, s) -> live (get (thr m) j) = Some (t, s) -> i = j.
Proof.
  intros n m t s i j H Hin Hi Hj. destruct (Nat.eq_dec i j) as [|Hne]; auto.
  destruct (I_distinct m (reachable_inv n m H) _ _ _ _ _ _ Hne Hi Hj). congruence.
Qed.

(** fail-all *)
Theorem C10_fail_all : forall n m a m', reachable n m -> fatal_action m a ->
  step sendrecv_withdraws true m a = Some m' ->
  pend m' = [] /\ forall t0 s0, In (t0, s0) (pend m) -> full m' s0 = Some RFail.
Proof. unfold reachable. rewrite C10_source_withdraws. exact fail_all. Qed.
Print Assumptions C10_fail_all.

(** no-stuck *)
Theorem C10_no_stuck : forall n m i t s, reachable n m -> get (thr m) i = TWait t s ->
  (exists r, full m s = Some r /\ routed t s r /\ step true true m (AWaitDone i) <> None) \/
  (In (t, s) (pend m) /\ full m s = None /\
   ((token m = false /\ step true true m (AWaitToken i) <> None) \/
    (token m = true /\ exists j, j <> i /\ holder (get (thr m) j)))).
Proof. unfold reachable. rewrite C10_source_withdraws. exact no_stuck. Qed.
Print Assumptions C10_no_stuck.

(** C10_later_fail is not proved in Coq (the model has no "connection dead" flag): _partial.
    It is covered by the harness only (calls after a fatal fault must return an error). *)

(** without the withdrawal (dca25c9 reverted) the broadcaster blocks for good on a recycled slot *)
Theorem C10_stale_entry_refuted :
  exists m, run false true (init 2) trace_stale = Some m /\ get (thr m) 1 = TBlocked.
Proof. exact stale_blocks. Qed.

(** a reply carrying the tag of a call whose send is failing at that moment: nil dereference in handleOne *)
Theorem C10_send_race_refuted :
  exists m, run true false (init 2) trace_race = Some m /\ get (thr m) 1 = TPanic.
Proof. exact race_panics. Qed.
Print Assumptions C10_send_race_refuted.

(** the hypotheses are satisfiable: a reachable state with two calls in flight, one of them receiving *)
Example C10_ex_reachable :
  exists m, reachable 2 m /\ get (thr m) 0 = TRecv 1 0 /\ get (thr m) 1 = TWait 2 1 /\ length (pend m) = 2.
Proof.
  unfold reachable. rewrite C10_source_withdraws.
  eexists. split.
  - eapply run_reach with (tr := [AStart 0 1 0; AStart 1 2 1; ASendOk 0; ASendOk 1; AWaitToken 0]); [apply reach_init|].
    vm_compute. reflexivity.
  - repeat split.
Qed.
