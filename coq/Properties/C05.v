(** C05 — File lifecycle.  Statements only; proofs are in Refs/RefProofs.v,
    Refs/RefStep.v, Refs/LifeProofs.v and Refs/FenceProofs.v.  All theorems hold for
    EVERY backend [bstep] (every success/failure choice of every backend call).

    [RefInv]:  refs r = #fid-table entries -> r + #transient holders of r
                        + #live fidRefs whose parent is r + #live xattr fidRefs borrowing r,
    every counted reference points at an existing fidRef, one table entry per key. *)
From Coq Require Import List Arith Bool ZArith.
From P9V Require Import Refs.Model Refs.PathFS Refs.Cases Refs.RefProofs Refs.RefStep Refs.FenceProofs.
Import ListNotations.

(** C05_inv: for every history of requests from the initial state and every backend, the reference-count
    invariant holds and, unless a run-time panic was flagged, no transient reference is left over. *)
Theorem C05_inv : forall B bstep ops (b : B),
  let s := snd (run B bstep ops (init_state B b)) in
  RefInv B s /\ (s_panic B s = false -> s_held B s = []).
Proof. exact history_inv. Qed.
Print Assumptions C05_inv.

(** ... preserved by every single request from any state satisfying it (all 20 request kinds, incl.
    n-component walks failing at any component, clone, fid replacement, create-rebinding, xattr fids,
    rename/unlink of referenced entries, disconnect); [led [] []]: the ledger of transient references
    is left as found (more only if a panic was flagged) *)
Theorem C05_inv_step : forall B bstep o s d,
  RefInvD B s d -> RefInvD B (snd (step B bstep o s)) d /\ led B [] [] s (snd (step B bstep o s)).
Proof. intros B bstep o s d H. apply (step_ok B bstep o s d H). intros x []. Qed.
Print Assumptions C05_inv_step.

(** The DecRef cascade pays exactly one owed reference [r] and never runs out of fuel: each
    continuing step turns a live fidRef into a dead one, so #live + 1 steps suffice - no acyclicity
    of the parent links is needed for termination (the model's fuel is #fidRefs + 2). *)
Theorem C05_cascade : forall B bstep fuel r s d,
  RefInvD B s (r :: d) -> live_count B s < fuel ->
  let s' := snd (decref B bstep fuel r s) in
  RefInvD B s' d /\ live_count B s' <= live_count B s /\ s_oof B s' = s_oof B s /\ keeps B s s'.
Proof. exact decref_inv2. Qed.
Print Assumptions C05_cascade.

Theorem C05_fuel_suffices : forall B s, live_count B s < fuel_of B s.
Proof. exact fuel_enough. Qed.
Print Assumptions C05_fuel_suffices.

(** PARTIAL: C05_error_paths for one walk component (walkOne, all of its error paths, both walk
    flavours, wrong QID count): a failing walkOne leaves no File behind - either no handle was
    handed out or the last backend call closes it.  Missing: the release of the chain of
    fidRefs of the components walked before the failing one, and Tattach. *)
Theorem C05_error_paths_partial : forall B bstep from_h from_node nm getattr s,
  let nh := s_nexth B s in
  let r := walk_one B bstep from_h from_node nm getattr s in
  match fst r with
  | WOk h _ _ => h = nh /\ s_nexth B (snd r) = S nh
  | WFail _ => s_nexth B (snd r) = nh \/ (s_nexth B (snd r) = S nh /\ hd_error (s_log B (snd r)) = Some (BClose nh))
  end.
Proof. exact walk_one_handles. Qed.
Print Assumptions C05_error_paths_partial.

(** The hypotheses are satisfiable and the properties hold on a concrete history (a test, not the claim):
    xattr fid borrowing a File, failed 3-component walk, fid replacement, disconnect. *)
Definition c05_sample : list op :=
  [OAttach 0 0 []; OMk 0 0 0 1; OWalk 0 0 1 [1] false; OXattrWalk 0 1 2; OClunk 0 1; OGetAttr 0 2;
   OWalk 0 0 3 [1; 2; 3] false; OWalk 0 0 2 [] true; OStop 0].
Example C05_sample_ok :
  let s := snd (run pfs pfs_step c05_sample (init_state pfs (pfs_init false []))) in
  s_oof pfs s = false /\ s_panic pfs s = false /\ s_held pfs s = [] /\
  lifecycle_ok [] (rev (s_log pfs s)) = true /\ all_closed_once (s_nexth pfs s) (s_log pfs s) = true /\ s_nexth pfs s = 4.
Proof. vm_compute. repeat split; reflexivity. Qed.
