(** C05 — File lifecycle.  Statements only; proofs are in Refs/RefProofs.v and
    Refs/FenceProofs.v.  All theorems hold for EVERY backend [bstep] (every
    success/failure choice of every backend call) and every state.

    Proved: the reference-count invariant [RefInv]
        refs r = #fid-table entries -> r + #transient holders of r
                 + #live fidRefs whose parent is r + #live xattr fidRefs borrowing r
    (with every counted reference pointing at an existing fidRef and the fid
    table having one entry per key) is established by the initial state and
    preserved by every reference-count primitive of the server: LookupFID's
    IncRef, the deferred DecRef WITH ITS WHOLE CASCADE (xattrOf, parent,
    removeChild, Close), InsertFID over a bound fid, DeleteFID, new fidRefs
    (clone / Tlcreate / Txattrwalk taking a reference on the parent or origin,
    doWalk's hand-over of the walk reference), renameChildTo's re-parenting; and
    by the complete handlers of Tgetattr, Tstatfs, Tlock, Tread, Twrite, Tfsync,
    Tsetattr, Treaddir, Treadlink, Tmkdir/Tmknod/Tsymlink, Tlopen, Txattrcreate,
    Tclunk and the disconnect (connState.stop).
    PARTIAL (named so below): the composition of the proved primitives through
    the control flow of Tattach, Twalk(getattr), Tlcreate, Tremove, Tlink,
    Tunlinkat, Trename, Trenameat, Txattrwalk - hence the induction over whole
    histories - is not closed; C05_closed_once / C05_no_use_after_close /
    C05_disconnect are therefore NOT derived in Coq: they are evaluated on the
    observed backend call log of the real server on every run
    (Refs/Cases.v: lifecycle_ok, all_closed_once) and the model is compared
    with the real server step by step.  Out-of-fuel outcomes of the cascade are
    excluded by hypothesis ([s_oof = false]); the lemma that the fuel suffices
    (parent chains are acyclic, assumption B2) is not proved. *)
From Coq Require Import List Arith Bool ZArith.
From P9V Require Import Refs.Model Refs.PathFS Refs.Cases Refs.RefProofs Refs.FenceProofs.
Import ListNotations.

Theorem C05_inv_init : forall B (b : B), RefInv B (init_state B b).
Proof. exact init_inv. Qed.
Print Assumptions C05_inv_init.

(** DecRef with its cascade pays exactly one owed reference [r] ([d]: further owed references) *)
Theorem C05_inv_decref_cascade : forall B bstep fuel r s d,
  RefInvD B s (r :: d) -> s_oof B (snd (decref B bstep fuel r s)) = false ->
  RefInvD B (snd (decref B bstep fuel r s)) d.
Proof. exact decref_inv. Qed.
Print Assumptions C05_inv_decref_cascade.

Theorem C05_inv_lookup : forall B s d r, RefInvD B s d -> 0 < C B s r -> RefInvD B (hold B r s) d.
Proof. exact hold_inv. Qed.
Print Assumptions C05_inv_lookup.

Theorem C05_inv_deferred_decref : forall B bstep s d r,
  RefInvD B s d -> In r (s_held B s) -> s_oof B (release B bstep r s) = false -> RefInvD B (release B bstep r s) d.
Proof. exact release_inv. Qed.
Print Assumptions C05_inv_deferred_decref.

(** InsertFID, also over a bound fid (the replaced fidRef is dropped, possibly closed) *)
Theorem C05_inv_insert_fid : forall B bstep s d c fid r,
  RefInvD B s d -> 0 < C B s r -> s_oof B (insert_fid B bstep c fid r s) = false ->
  RefInvD B (insert_fid B bstep c fid r s) d.
Proof. exact insert_fid_inv. Qed.
Print Assumptions C05_inv_insert_fid.

Theorem C05_inv_delete_fid : forall B bstep s d c fid,
  RefInvD B s d -> s_oof B (snd (delete_fid B bstep c fid s)) = false -> RefInvD B (snd (delete_fid B bstep c fid s)) d.
Proof. exact delete_fid_inv. Qed.
Print Assumptions C05_inv_delete_fid.

Theorem C05_inv_new_ref : forall B s d x,
  RefInvD B s d ->
  (forall p, fr_parent x = Some p -> 0 < C B s p /\ fr_xattrOf x = None) ->
  (forall o, fr_xattrOf x = Some o -> 0 < C B s o) ->
  RefInvD B (snd (new_ref_inc B x s)) d.
Proof. exact new_ref_inc_inv. Qed.
Print Assumptions C05_inv_new_ref.

Theorem C05_inv_walk_handover : forall B s d wr x,
  RefInvD B s d -> In wr (s_held B s) -> fr_parent x = Some wr -> fr_xattrOf x = None ->
  RefInvD B (snd (new_ref_handover B wr x s)) d.
Proof. exact new_ref_handover_inv. Qed.
Print Assumptions C05_inv_walk_handover.

Theorem C05_inv_reparent : forall B s d r p tgt,
  RefInvD B s d -> 0 < C B s r -> fr_parent (get_ref B s r) = Some p -> 0 < C B s tgt ->
  RefInvD B (incref B tgt (set_ref B r (fr_with_parent (get_ref B s r) (Some tgt)) s)) (p :: d).
Proof. exact reparent_inv. Qed.
Print Assumptions C05_inv_reparent.

(** PARTIAL: C05_inv for whole requests, 11 of the 20 request kinds (see header for what is missing) *)
Theorem C05_inv_partial : forall B bstep o s,
  match o with
  | OGetAttr _ _ | OUse _ _ _ | OSetAttr _ _ | OMk _ _ _ _ | OReadlink _ _
  | OIO _ _ _ | OReaddir _ _ | OOpen _ _ _ | OXattrCreate _ _ | OClunk _ _ | OStop _ => True
  | _ => False
  end ->
  RefInv B s -> s_oof B (snd (step B bstep o s)) = false -> RefInv B (snd (step B bstep o s)).
Proof. exact bracket_ops_inv. Qed.
Print Assumptions C05_inv_partial.

(** PARTIAL: C05_error_paths for one walk component (walkOne, all of its error paths, both walk
    flavours, wrong QID count): a failing walkOne leaves no File behind - either no handle was
    handed out or the last backend call closes it.  Missing: the release of the chain of
    fidRefs of the components walked before the failing one, and Tattach. *)
Theorem C05_error_paths_partial : forall B bstep from_h from_node nm getattr s,
  let nh := s_nexth B s in
  let r := walk_one B bstep from_h from_node nm getattr s in
  match fst r with
  | WOk h _ _ => h = nh /\ s_nexth B (snd r) = S nh
  | WFail _ => s_nexth B (snd r) = nh \/ (s_nexth B (snd r) = S nh /\ hd_error (s_log B (snd r)) = Some (BClose nh))
  end.
Proof. exact walk_one_handles. Qed.
Print Assumptions C05_error_paths_partial.

(** The hypotheses are satisfiable and the properties hold on a concrete history (a test, not the claim):
    xattr fid borrowing a File, failed 3-component walk, fid replacement, disconnect. *)
Definition c05_sample : list op :=
  [OAttach 0 0 []; OMk 0 0 0 1; OWalk 0 0 1 [1] false; OXattrWalk 0 1 2; OClunk 0 1; OGetAttr 0 2;
   OWalk 0 0 3 [1; 2; 3] false; OWalk 0 0 2 [] true; OStop 0].
Example C05_sample_ok :
  let s := snd (run pfs pfs_step c05_sample (init_state pfs (pfs_init false []))) in
  s_oof pfs s = false /\ s_panic pfs s = false /\ s_held pfs s = [] /\
  lifecycle_ok [] (rev (s_log pfs s)) = true /\ all_closed_once (s_nexth pfs s) (s_log pfs s) = true /\ s_nexth pfs s = 4.
Proof. vm_compute. repeat split; reflexivity. Qed.
