(** C05 — File lifecycle.  Statements only; proofs are in Refs/RefProofs.v,
    Refs/RefStep.v, Refs/LifeProofs.v and Refs/FenceProofs.v.  All theorems hold for
    EVERY backend [bstep] (every success/failure choice of every backend call).

    [RefInv]:  refs r = #fid-table entries -> r + #transient holders of r
                        + #live fidRefs whose parent is r + #live xattr fidRefs borrowing r,
    every counted reference points at an existing fidRef, one table entry per key. *)
From Coq Require Import List Arith Bool ZArith.
From P9V Require Import Refs.Model Refs.PathFS Refs.Cases Refs.RefProofs Refs.RefStep Refs.LifeProofs Refs.LifeStep Refs.ErrPaths Refs.Disconnect Refs.Ordered Refs.Ranked Refs.RankedFs Refs.FenceProofs.
Import ListNotations.

(** C05_inv: for every history of requests from the initial state and every backend, the reference-count
    invariant holds and, unless a run-time panic was flagged, no transient reference is left over. *)
Theorem C05_inv : forall B bstep ops (b : B),
  let s := snd (run B bstep ops (init_state B b)) in
  RefInv B s /\ (s_panic B s = false -> s_held B s = []).
Proof. exact RefStep.history_inv. Qed.
Print Assumptions C05_inv.

(** ... preserved by every single request from any state satisfying it (all 20 request kinds, incl.
    n-component walks failing at any component, clone, fid replacement, create-rebinding, xattr fids,
    rename/unlink of referenced entries, disconnect); [led [] []]: the ledger of transient references
    is left as found (more only if a panic was flagged) *)
Theorem C05_inv_step : forall B bstep o s d,
  RefInvD B s d -> RefInvD B (snd (step B bstep o s)) d /\ led B [] [] s (snd (step B bstep o s)).
Proof. intros B bstep o s d H. apply (RefStep.step_ok B bstep o s d H). intros x []. Qed.
Print Assumptions C05_inv_step.

(** The DecRef cascade pays exactly one owed reference [r] and never runs out of fuel: each
    continuing step turns a live fidRef into a dead one, so #live + 1 steps suffice - no acyclicity
    of the parent links is needed for termination (the model's fuel is #fidRefs + 2). *)
Theorem C05_cascade : forall B bstep fuel r s d,
  RefInvD B s (r :: d) -> live_count B s < fuel ->
  let s' := snd (decref B bstep fuel r s) in
  RefInvD B s' d /\ live_count B s' <= live_count B s /\ s_oof B s' = s_oof B s /\ keeps B s s'.
Proof. exact decref_inv2. Qed.
Print Assumptions C05_cascade.

Theorem C05_fuel_suffices : forall B s, live_count B s < fuel_of B s.
Proof. exact fuel_enough. Qed.
Print Assumptions C05_fuel_suffices.

(** [KInv] (Refs/LifeProofs.v): every handle the backend returned is owned by exactly one fidRef (xattr
    fidRefs borrow their origin's File and are younger than it), live owners' Files are not closed, dead
    owners' Files are closed, the Close calls in the log are pairwise different, every returned handle is
    owned or closed.  It holds, with [RefInv], after every history, for every backend: *)
Theorem C05_life_inv : forall B bstep ops (b : B),
  let s := snd (run B bstep ops (init_state B b)) in
  RefInv B s /\ KInv B s None /\ wf_log (s_log B s) /\ (s_panic B s = false -> s_held B s = []).
Proof. exact history_life. Qed.
Print Assumptions C05_life_inv.

(** C05_closed_once: for every history and backend, no File is closed twice *)
Theorem C05_closed_once : forall B bstep ops (b : B) h,
  close_count h (s_log B (snd (run B bstep ops (init_state B b)))) <= 1.
Proof.
  intros B bstep ops b h. destruct (history_life B bstep ops b) as (_ & K & _ & _). exact (closed_once B _ None h K).
Qed.
Print Assumptions C05_closed_once.

(** C05_closed_iff_unreferenced: for every history and backend, a handle has been closed iff it was
    returned by the backend and no live fidRef owns it (its owner's count reached 0) *)
Theorem C05_closed_iff_unreferenced : forall B bstep ops (b : B) h,
  let s := snd (run B bstep ops (init_state B b)) in
  closed B s h <->
  h < s_nexth B s /\ forall r, r < len B s -> owner (get_ref B s r) -> fr_file (get_ref B s r) = h -> live (get_ref B s r) = false.
Proof.
  intros B bstep ops b h. cbv zeta. destruct (history_life B bstep ops b) as (_ & K & _ & _).
  exact (closed_iff_no_live_owner B _ h K).
Qed.
Print Assumptions C05_closed_iff_unreferenced.

(** (One-request theorem, any state.)  C05_disconnect, part 1: connState.stop (OStop c) removes every fid-table entry of connection c and
    nothing else is added; so once every connection that holds a fid has been stopped, no fid is bound. *)
Theorem C05_stop_empties_table : forall B bstep c (s : sstate B) k,
  In k (fkeys B (snd (step B bstep (OStop c) s))) -> In k (fkeys B s) /\ fst k <> c.
Proof. intros B bstep c s k. exact (stop_clears B bstep c s k). Qed.
Print Assumptions C05_stop_empties_table.

(** C05_disconnect: for every history and backend, followed by the disconnect of every connection that
    still holds a fid: no fid is bound any more and - unless a run-time panic was flagged - every File the
    backend ever returned has been closed EXACTLY once, PROVIDED [ranked]: the parent / xattr-origin links
    of the live fidRefs are well founded.  [ranked] is a hypothesis, not proved: it is genuinely false for a
    backend that lets a directory be renamed below itself (violating assumption B2: then two live fidRefs
    become each other's ancestors, keep each other alive after the last fid is gone, and their Files leak).
    It follows from [ordered] (parent id < own id), which is PROVED for rename-free histories
    (C05_disconnect_rename_free below).
    Deriving it for all histories from B2 needs [tree_inv] (proved, Refs/TreeStep.v), [tree_closed] and
    "a detached node is never re-attached" (both not proved); see coq/Refs/HANDOVER.md. *)
Theorem C05_disconnect : forall B bstep ops (b : B) cs,
  let s0 := snd (run B bstep ops (init_state B b)) in
  let s := snd (run B bstep (map OStop cs) s0) in
  (forall k, In k (fkeys B s0) -> In (fst k) cs) ->
  s_fids B s = [] /\
  (s_panic B s = false -> ranked B s -> forall h, h < s_nexth B s -> close_count h (s_log B s) = 1).
Proof. exact disconnect_closes_all. Qed.
Print Assumptions C05_disconnect.

(** C05_disconnect WITHOUT hypothesis on the parent links, for every backend, for every history that
    contains no Trename / Trenameat (they may fail or succeed elsewhere - they just must not occur): fr_parent
    is written only when a fidRef is created (parent = an existing, hence older, fidRef) and by renameChildTo's
    callback, so parent ids stay smaller than child ids ([Ordered.ordered_all], Refs/Ordered.v). *)
Theorem C05_disconnect_rename_free : forall B bstep ops (b : B) cs,
  Forall no_rename ops ->
  let s0 := snd (run B bstep ops (init_state B b)) in
  let s := snd (run B bstep (map OStop cs) s0) in
  (forall k, In k (fkeys B s0) -> In (fst k) cs) ->
  s_fids B s = [] /\
  (s_panic B s = false -> forall h, h < s_nexth B s -> close_count h (s_log B s) = 1).
Proof. exact disconnect_rename_free. Qed.
Print Assumptions C05_disconnect_rename_free.

(** C05_disconnect for histories WITH renames.
    (1) Any backend: the conclusion holds for every history whose renames are [Ranked.rsafe]: whenever a
    Trename/Trenameat passes the server's guards and the backend lets it happen, none of the fidRefs
    registered under the moved name is the target directory's fidRef or one of its ancestors (parent links).
    This is what assumption B2 has to deliver; it is stated on the server state just before the request
    because connecting the backend's notion of "below" with the server's tree IS path coherence
    (C08_coherent), which is proved for PathFS only.
    (2) PathFS (C05_B2_pathfs, C05_disconnect_pathfs): [rsafe] is discharged from the backend's own check
    (CoherentRenFs.b2_paths: RenameAt is refused when source path ++ [old] is a prefix of the target path),
    pathB's coherence invariant (which also excludes the path-tree panics for PathFS histories) and
    C08_tree_inv; no hypothesis is left: every File is closed exactly once, after every PathFS history.
    (3) C05_disconnect_refuted: against a backend without the B2 check the conclusion is false. *)
Theorem C05_disconnect_rsafe : forall B bstep ops (b : B) cs,
  rsafe_history B bstep ops (init_state B b) ->
  let s0 := snd (run B bstep ops (init_state B b)) in
  let s := snd (run B bstep (map OStop cs) s0) in
  (forall k, In k (fkeys B s0) -> In (fst k) cs) ->
  s_fids B s = [] /\
  (s_panic B s = false -> forall h, h < s_nexth B s -> close_count h (s_log B s) = 1).
Proof. exact disconnect_rsafe. Qed.
Print Assumptions C05_disconnect_rsafe.

Theorem C05_B2_pathfs : forall ops wga inj, rsafe_history pfs pfs_step ops (init_state pfs (pfs_init wga inj)).
Proof. exact rsafe_history_pfs. Qed.
Print Assumptions C05_B2_pathfs.

Theorem C05_disconnect_pathfs : forall ops wga inj cs,
  let s0 := snd (run pfs pfs_step ops (init_state pfs (pfs_init wga inj))) in
  let s := snd (run pfs pfs_step (map OStop cs) s0) in
  (forall k, In k (fkeys pfs s0) -> In (fst k) cs) ->
  s_fids pfs s = [] /\ s_panic pfs s = false /\
  forall h, h < s_nexth pfs s -> close_count h (s_log pfs s) = 1.
Proof. exact disconnect_pfs. Qed.
Print Assumptions C05_disconnect_pathfs.

Theorem C05_disconnect_refuted :
  let s0 := snd (run unit yes_step cyc_ops (init_state unit tt)) in
  let s := snd (run unit yes_step (map OStop [0]) s0) in
  (forall k, In k (fkeys unit s0) -> In (fst k) [0]) /\ s_fids unit s = [] /\ s_panic unit s = false /\
  s_nexth unit s = 3 /\ close_count 1 (s_log unit s) = 0 /\ close_count 2 (s_log unit s) = 0 /\
  map (fun x => (fr_refs x, fr_parent x)) (s_refs unit s) = [(0%Z, None); (1%Z, Some 2); (1%Z, Some 1)] /\
  ~ ranked unit s.
Proof. exact disconnect_refuted. Qed.
Print Assumptions C05_disconnect_refuted.

Theorem C05_ordered_ranked : forall B bstep ops (b : B),
  let s := snd (run B bstep ops (init_state B b)) in ordered B s -> ranked B s.
Proof.
  intros B bstep ops b. cbv zeta. destruct (history_life B bstep ops b) as (_ & K & _ & _). apply ordered_ranked. exact K.
Qed.
Print Assumptions C05_ordered_ranked.

(** C05_no_use_after_close, for every history and backend, for every File method: in the backend call
    log (newest first) no call to the left of a Close uses the closed handle - as the File it is invoked
    on or as a File argument (Link target, RenameAt directory, Renamed parent).  [uses] lists both.
    (Renamed notifications are covered since 9811ebc: notifyNameChange holds a reference on every fidRef
    it notifies and skips those being destroyed.) *)
Theorem C05_no_use_after_close : forall B bstep ops (b : B) l1 h l2 c,
  s_log B (snd (run B bstep ops (init_state B b))) = l1 ++ BClose h :: l2 -> In c l1 -> ~ In h (uses c).
Proof.
  intros B bstep ops b l1 h l2 c E. destruct (history_life B bstep ops b) as (_ & _ & W & _). rewrite E in W.
  exact (wf_log_no_use_after_close l1 h l2 c W).
Qed.
Print Assumptions C05_no_use_after_close.

(** C05_error_paths for Twalk / Twalkgetattr, after every history and for every backend: a walk that fails -
    at whatever component (zero-name clone included) and for whatever reason: backend error at any of its
    calls, wrong QID count, walking through a non-directory or a deleted directory, EBUSY, unknown fid -
    has, when it is answered, closed exactly once every File the backend returned during the request. *)
Theorem C05_error_paths : forall B bstep ops (b : B) c fid newfid names g,
  let s := snd (run B bstep ops (init_state B b)) in
  let r := step B bstep (OWalk c fid newfid names g) s in
  s_panic B s = false -> fst (fst r) <> 0 -> s_panic B (snd r) = false ->
  forall h, s_nexth B s <= h -> h < s_nexth B (snd r) -> close_count h (s_log B (snd r)) = 1.
Proof.
  intros B bstep ops b c fid newfid names g. cbv zeta. destruct (history_life B bstep ops b) as (I & K & W & H).
  intros Hp. exact (walk_error_closes_all B bstep c fid newfid names g _ I K W (H Hp)).
Qed.
Print Assumptions C05_error_paths.

(** C05_error_paths for Tattach, after every history and for every backend: an attach that fails - the
    backend's Attach fails, GetAttr on the new root fails, or the walk fails at whatever component and for
    whatever reason - has, when it is answered, closed exactly once every File the backend returned during
    the request, the root File included.  (The Go branch "!valid.Mode" takes the same exit as a GetAttr
    error; the model's GetAttr answers always carry a Mode, so that branch is covered only as that exit.) *)
Theorem C05_error_paths_attach : forall B bstep ops (b : B) c fid names,
  let s := snd (run B bstep ops (init_state B b)) in
  let r := step B bstep (OAttach c fid names) s in
  s_panic B s = false -> fst (fst r) <> 0 -> s_panic B (snd r) = false ->
  forall h, s_nexth B s <= h -> h < s_nexth B (snd r) -> close_count h (s_log B (snd r)) = 1.
Proof.
  intros B bstep ops b c fid names. cbv zeta. destruct (history_life B bstep ops b) as (I & K & W & H).
  intros Hp. exact (attach_error_closes_all B bstep c fid names _ I K W (H Hp)).
Qed.
Print Assumptions C05_error_paths_attach.

(** (One-step unfolding of the model's walkOne, not a history theorem.)  The building block shared by Twalk and Tattach: a failing walkOne (all of its error paths, both walk
    flavours, wrong QID count) leaves no File behind - either no handle was handed out or the last
    backend call closes it. *)
Theorem C05_walk_one_handles : forall B bstep from_h from_node nm getattr s,
  let nh := s_nexth B s in
  let r := walk_one B bstep from_h from_node nm getattr s in
  match fst r with
  | WOk h _ _ => h = nh /\ s_nexth B (snd r) = S nh
  | WFail _ => s_nexth B (snd r) = nh \/ (s_nexth B (snd r) = S nh /\ hd_error (s_log B (snd r)) = Some (BClose nh))
  end.
Proof. exact walk_one_handles. Qed.
Print Assumptions C05_walk_one_handles.

(** The hypotheses are satisfiable and the properties hold on a concrete history (a test, not the claim):
    xattr fid borrowing a File, failed 3-component walk, fid replacement, disconnect. *)
Definition c05_sample : list op :=
  [OAttach 0 0 []; OMk 0 0 0 1; OWalk 0 0 1 [1] false; OXattrWalk 0 1 2; OClunk 0 1; OGetAttr 0 2;
   OWalk 0 0 3 [1; 2; 3] false; OWalk 0 0 2 [] true; OStop 0].
Example C05_sample_ok :
  let s := snd (run pfs pfs_step c05_sample (init_state pfs (pfs_init false []))) in
  s_oof pfs s = false /\ s_panic pfs s = false /\ s_held pfs s = [] /\
  lifecycle_ok [] (rev (s_log pfs s)) = true /\ all_closed_once (s_nexth pfs s) (s_log pfs s) = true /\ s_nexth pfs s = 4 /\ s_fids pfs s = [].
Proof. vm_compute. repeat split; reflexivity. Qed.

(* --- round 5: static tie of the reference-counting code to the model --- *)
From Coq Require Import String.
From P9V Require gen.RefsGen Refs.GenTie.
Local Open Scope string_scope.
(** C05_code_skeleton: the event skeletons RefsGen extracts on every run from fidRef.DecRef, notifyDelete,
    fidRef.markChildDeleted, notifyNameChange, fidRef.renameChildTo, connState.stop / LookupFID / InsertFID /
    DeleteFID and doWalk (calls of the
    reference / path-tree / File operations in order, each with receiver, arguments, path condition incl.
    early returns, and closure / defer / loop context; locals substituted away) equal the table of
    Refs/GenTie.v that was reviewed against Refs/Model.v function by function.  An equality with a reviewed
    table (not a semantics of Go): it pins WHICH of these calls are made, in which order and under which
    guards; the behaviour is tied by the differential. *)
Theorem C05_code_skeleton : P9V.gen.RefsGen.refs_skeleton = P9V.Refs.GenTie.expected_skeleton.
Proof. exact P9V.Refs.GenTie.refs_skeleton_reviewed. Qed.
Print Assumptions C05_code_skeleton.

(** Read off the GENERATED table: DecRef drops the parent reference (removeChild, parent.DecRef) when the count
    reaches zero and a parent exists - under no other condition, in particular whatever Close returned (the
    model's [decref] continues after an [AErr]); Close itself runs iff the count reached zero on a fidRef
    that owns its File. *)
Theorem C05_decref_drops_parent_unconditionally :
  let l := P9V.Refs.GenTie.events_of "fidRef.DecRef" P9V.gen.RefsGen.refs_skeleton in
  map (fun e => (P9V.Refs.GenTie.ev_name e, P9V.Refs.GenTie.ev_recv e, P9V.Refs.GenTie.ev_cond e))
      (filter (fun e => P9V.Refs.GenTie.is_ev "removeChild" "$r.parent.pathNode" e || P9V.Refs.GenTie.is_ev "DecRef" "$r.parent" e) l) =
  [("removeChild", "$r.parent.pathNode", ["(#0==0)"; "($r.parent!=nil)"]); ("DecRef", "$r.parent", ["(#0==0)"; "($r.parent!=nil)"])]%string /\
  map (fun e => (P9V.Refs.GenTie.ev_name e, P9V.Refs.GenTie.ev_cond e)) (filter (P9V.Refs.GenTie.is_ev "Close" "$r.file") l) =
  [("Close", ["(#0==0)"; "($r.xattrOf==nil)"])]%string.
Proof. exact P9V.Refs.GenTie.decref_drops_parent_unconditionally. Qed.
Print Assumptions C05_decref_drops_parent_unconditionally.

(** Read off the generated table: a clone takes its reference on the origin's parent whenever there is one,
    deleted entry or not; only nameFor / addChild are skipped for a deleted entry (model: [new_ref_inc] before
    the [is_deleted] test of [do_walk]) - the reference DecRef will drop is always taken. *)
Theorem C05_clone_takes_parent_reference :
  let l := P9V.Refs.GenTie.events_of "doWalk" P9V.gen.RefsGen.refs_skeleton in
  map P9V.Refs.GenTie.ev_cond (filter (P9V.Refs.GenTie.is_ev "IncRef" "$p1.parent") l) = [["(len($p2)==0)"; "($p1.xattrOf==nil)"; "(#2.4==nil)"; "!#4"]]%string /\
  map P9V.Refs.GenTie.ev_cond (filter (P9V.Refs.GenTie.is_ev "addChild" "$p1.parent.pathNode") l) = [["(len($p2)==0)"; "($p1.xattrOf==nil)"; "(#2.4==nil)"; "!#4"; "!#5"]]%string /\
  map (fun e => (P9V.Refs.GenTie.ev_name e, P9V.Refs.GenTie.ev_recv e)) (firstn 2 (skipn 4 l)) = [("hasParent", "$p1"); ("isDeleted", "#3")]%string.
Proof. exact P9V.Refs.GenTie.clone_takes_parent_reference. Qed.
Print Assumptions C05_clone_takes_parent_reference.

(** Read off the generated table: the references renameChildTo takes for the Renamed notifications are dropped
    by a DEFERRED loop registered before notifyNameChange runs, so a panic inside a Renamed callback does not
    leak them (9cb54ca).  Backend panics are outside the model (no panic answer in [bans]): the clause
    "every remaining File is closed once at disconnect" after such a panic is TESTED by the fault scenario
    vhgRenamedPanic (panic injected into the Renamed of a File one / two levels below a renamed directory, then
    every connection dropped; every File closed exactly once), not proved. *)
Theorem C05_held_references_released_by_defer :
  let l := P9V.Refs.GenTie.events_of "fidRef.renameChildTo" P9V.gen.RefsGen.refs_skeleton in
  map (fun e => (P9V.Refs.GenTie.ev_name e, P9V.Refs.GenTie.ev_recv e, P9V.Refs.GenTie.ev_args e, P9V.Refs.GenTie.ev_cond e, P9V.Refs.GenTie.ev_ctx e)) (skipn 9 l) =
  [("DecRef", "each1(var0)", [], ["(#1!=nil)"], ["defer"; "range var0"]);
   ("notifyNameChange", "", ["#1"; "var0"], ["(#1!=nil)"], [])]%string.
Proof. exact P9V.Refs.GenTie.held_references_released_by_defer. Qed.
Print Assumptions C05_held_references_released_by_defer.
