(** C18 — no carry-over between messages through recycled objects and buffers.
    Only statements, each closed by [exact] of a lemma proved under Codec/, followed by
    Print Assumptions.

    Reading guide.  [gm_dec g] is the statement program go2coq reads off the Go decode method
    of a registered message type (Codec/Reuse.v: assignments, [:0] resets, append loops,
    payload length checks, the Rreaddir loop); [decode_into] runs it on an object in an
    ARBITRARY prior state [old] (whatever the cache or pool handed out); [recv_into] adds what
    recv does around it (payload slice kept or replaced, pooled decode buffer with arbitrary
    prior content).  [covers2] is the syntactic condition: every field the program reads
    (append target, payload length) was defined before, and every field of the struct is
    defined at the end (or overwritten by the receiver right after recv: tflush.wait). *)
From Coq Require Import NArith String List Bool.
From P9V Require Import Codec.Layout Codec.Frame Codec.Reuse Codec.ReuseProofs Codec.Pool Codec.PoolProofs Codec.PoolConc Codec.PoolConcProofs Codec.GenCheckReuse gen.CodecGen.
Import ListNotations.
Open Scope N_scope.
Open Scope list_scope.

(** The content of a decoded message is a function of its own frame alone: for every program
    that covers its fields, every two prior object states, every byte sequence. *)
Theorem C18_independent : forall payload pre post prog fields,
  covers2 payload pre post prog fields = true ->
  forall old old' bytes, agree_on pre old old' ->
  match decode_into payload prog old bytes, decode_into payload prog old' bytes with
  | Some s, Some s' => forall f, In f fields -> mem f post = false -> get f s = get f s'
  | None, None => True
  | _, _ => False
  end.
Proof. exact decode_into_independent. Qed.
Print Assumptions C18_independent.

(** ... including what recv does around decode: any prior payload slice, any prior content of
    the pooled decode buffer. *)
Theorem C18_recv_independent : forall g post,
  covers2 (payload_name g) (match gm_payload g with Some p => [p] | None => [] end) post (gm_dec g) (gm_fields g) = true ->
  forall old old' dirty dirty' body,
  match recv_into g old dirty body, recv_into g old' dirty' body with
  | Some s, Some s' => forall f, In f (gm_fields g) -> mem f post = false -> get f s = get f s'
  | None, None => True
  | _, _ => False
  end.
Proof. exact recv_into_independent. Qed.
Print Assumptions C18_recv_independent.

(** Generated-table obligation: the decode program of every registered type covers every field
    of its struct (re-checked whenever a decode body, a struct or the registry changes). *)
Theorem C18_covers : forall g, In g gen_msgs -> covers_gen g = true.
Proof. exact covers_registered. Qed.
Print Assumptions C18_covers.

(** Together: for every registered message type, recv into a recycled object gives, field by
    field, what recv into any other object gives. *)
Theorem C18_registered_types_independent : forall g, In g gen_msgs ->
  forall old old' dirty dirty' body,
  match recv_into g old dirty body, recv_into g old' dirty' body with
  | Some s, Some s' => forall f, In f (gm_fields g) -> mem f (post_of g) = false -> get f s = get f s'
  | None, None => True
  | _, _ => False
  end.
Proof. intros g Hg. exact (recv_into_independent g (post_of g) (covers_registered g Hg)). Qed.
Print Assumptions C18_registered_types_independent.

(** the only fields left to the receiver are tflush.wait (set to nil / TagDone by handleRequest) *)
Theorem C18_receiver_resets : gen_receiver_resets = [("tflush"%string, ["wait"%string])].
Proof. reflexivity. Qed.
Print Assumptions C18_receiver_resets.

(** registry.put leaves no payload in a cached object.  This holds BY CONSTRUCTION of the model's
    [put] (Reuse.v); its tie to the source is that go2coq matches the body of registry.put
    (SetPayload(nil) before the object is cached) and refuses anything else. *)
Theorem C18_payload_cleared : forall g s p, gm_payload g = Some p -> get p (put g s) = Some (OBytes []).
Proof. exact put_clears. Qed.
Print Assumptions C18_payload_cleared.

(** Pooled decode buffer (Codec/Pool.v: recv's appendBuffer with a pooled slice of ARBITRARY previous
    content, sliced to the size read from the stream, then filled by ReadFrom or recv fails): what
    decode sees is the same for every previous content ... *)
Theorem C18_pool_independent : forall prev prev' size stream,
  recv_buffer prev size stream = recv_buffer prev' size stream.
Proof. exact recv_buffer_independent. Qed.
Print Assumptions C18_pool_independent.

(** ... namely the next [size] bytes of the stream and nothing else ... *)
Theorem C18_pool_buffer_is_stream : forall prev size stream b rest,
  recv_buffer prev size stream = Some (b, rest) -> stream = b ++ rest /\ List.length b = size.
Proof. exact recv_buffer_is_stream. Qed.

(** ... and the statement is not vacuous: keeping the slice's capacity visible (buffer{data: data[:cap]})
    is refuted in the same model. *)
Theorem C18_pool_stale_refuted :
  exists prev prev' size stream, recv_buffer_stale prev size stream <> recv_buffer_stale prev' size stream.
Proof. exact recv_buffer_stale_refuted. Qed.

(** The same for appendBuffer as go2coq READS it (gen_recv_view: which view of the pooled buffer decides growth,
    is handed to m.decode, is filled by ReadFrom; Pool.v recv_buffer_g interprets any such triple, with the
    bytes between length and capacity of the pooled buffer modelled too): for the views the source uses, what
    decode sees is independent of all previous content ... *)
Theorem C18_pool_generated_independent : forall cmp dec rd, gen_recv_view = Some (cmp, dec, rd) ->
  forall prev hid prev' hid' size stream,
  recv_buffer_g cmp dec rd prev hid size stream = recv_buffer_g cmp dec rd prev' hid' size stream.
Proof. exact recv_generated_independent. Qed.
Print Assumptions C18_pool_generated_independent.

(** ... and every other view handed to decode leaks (so the obligation recv_slices_spec is what carries it) *)
Theorem C18_pool_generated_stale_refuted : forall cmp dec, dec <> SFirst ->
  exists prev hid prev' hid' size stream,
    recv_buffer_g cmp dec SFirst prev hid size stream <> recv_buffer_g cmp dec SFirst prev' hid' size stream.
Proof. exact recv_buffer_g_stale_refuted. Qed.

(** the payload slice a recycled payloader still holds: kept if of the right length, else replaced,
    then filled — equal to the received bytes either way (model of the branch in recv; by list reasoning) *)
Theorem C18_payload_slice : forall old data, recv_payload old data = data.
Proof. exact recv_payload_eq. Qed.

(** Read replies.  Along ANY sequence of Treads on a connection, with honest backends and with lazy
    ones that report more than they wrote, each reply carries exactly the bytes the backend produced
    for that request followed by zeros up to the count it reported: the pooled buffer starts zeroed
    and PayloadCleanup re-zeroes Data before every Put (inductive invariant). *)
Theorem C18_read_data : forall msize cs b, zero_buf b -> List.length b = msize ->
  Forall (call_ok msize) cs -> treads true b cs = map intended cs.
Proof. exact treads_replies. Qed.
Print Assumptions C18_read_data.

(** honest backends (io.ReaderAt: all n reported bytes written): reply = the backend's bytes, with or
    without the zeroing; *)
Theorem C18_read_data_honest : forall cs b clean, Forall (fun c => List.length (fst c) = snd c) cs ->
  treads clean b cs = map fst cs.
Proof. exact treads_honest. Qed.

(** without the zeroing a lazy read after a longer one returns the earlier request's bytes *)
Theorem C18_read_data_needs_cleanup_refuted :
  exists b cs, zero_buf b /\ Forall (call_ok (List.length b)) cs /\ treads false b cs <> map intended cs.
Proof. exact treads_without_cleanup_refuted. Qed.

(** Read replies under CONCURRENCY (Codec/PoolConc.v).  [gen_read_prog] is the sequence of pool operations
    go2coq reads off tread.handle, send and rreadServerPayloader.PayloadCleanup (obligation: it is
    Get, ReadAt, send, zeroing, Put).  Buffers have identity, the pool is a list of identities (a double Put
    makes a duplicate), Get returns ANY pooled buffer or a new one.  For any number of Treads in flight on a
    connection, every interleaving of their steps, every choice of the pool, honest and lazy backends: a reply
    that reaches the wire carries exactly what the backend meant for that request. *)
Theorem C18_read_data_concurrent : forall msize calls, (forall i, call_ok msize (calls i)) ->
  forall sc i r, reply_of msize calls gen_read_prog sc i = Some r -> r = intended (calls i).
Proof. exact read_prog_safe. Qed.
Print Assumptions C18_read_data_concurrent.

(** ... because no two requests in flight ever hold the same buffer *)
Theorem C18_read_buffers_exclusive : forall msize calls, (forall i, call_ok msize (calls i)) ->
  forall sc i j b, i <> j ->
  let s := crun msize calls (cinit spec_ops) sc in
  owns (th s i) b -> owns (th s j) b -> False.
Proof. exact pool_conc_exclusive. Qed.

(** the model can express the leak: a Put before the reply is sent (defer Put in tread.handle) hands two
    requests in flight the same memory; without the zeroing a lazy backend shows an earlier request's bytes *)
Theorem C18_read_early_put_refuted :
  exists msize calls sc i r, (forall j, call_ok msize (calls j)) /\ reply_of msize calls bad_ops sc i = Some r /\ r <> intended (calls i).
Proof. exact pool_conc_early_put_refuted. Qed.

Theorem C18_read_no_zeroing_refuted :
  exists msize calls sc i r, (forall j, call_ok msize (calls j)) /\ reply_of msize calls [OGet; ORead; OSend; OPut] sc i = Some r /\ r <> intended (calls i).
Proof. exact pool_conc_no_zero_refuted. Qed.

(** the three places of the source the pool model stands for have the modelled shape (generated facts):
    recv cuts the pooled slice to the exact size; tread.handle replies Data = buf[:n] for the n ReadAt
    reported; PayloadCleanup zeroes Data before readBufPool.Put and zeros/pooled buffers have one size *)
Theorem C18_pool_facts :
  gen_recv_buffer_exact = true /\ gen_rread_data_is_n = true /\ gen_cleanup_zeroes_before_put = true.
Proof. exact pool_facts. Qed.

(** every list decoder stops at the first element that does not fit *)
Theorem C18_loops_guarded : forallb (fun g => loops_guarded (gm_dec g)) gen_msgs = true.
Proof. exact all_loops_guarded. Qed.

(** hypotheses are satisfiable, and the condition is not vacuous: Twalk's program covers its
    fields; the same program without the reset does not, and then a stale name list shows *)
Definition twalk_prog : list dstmt :=
  [DAssign "fid" (KInt 4); DAssign "newFID" (KInt 4); DLen16; DReset "Names"; DLoop "Names" [("Names[]"%string, KStr)] true].
Definition twalk_prog_noreset : list dstmt :=
  [DAssign "fid" (KInt 4); DAssign "newFID" (KInt 4); DLen16; DLoop "Names" [("Names[]"%string, KStr)] true].

Example C18_ex_covers :
  covers2 "" [] [] twalk_prog ["fid"; "newFID"; "Names"]%string = true /\
  covers2 "" [] [] twalk_prog_noreset ["fid"; "newFID"; "Names"]%string = false.
Proof. split; reflexivity. Qed.

Example C18_ex_stale_names :
  let old := [("Names"%string, ORows [[VStr [111; 108; 100]]])] in
  let frame := [1;0;0;0; 2;0;0;0; 1;0; 1;0;97] in
  option_map (get "Names") (decode_into "" twalk_prog old frame) = Some (Some (ORows [[VStr [97]]])) /\
  option_map (get "Names") (decode_into "" twalk_prog_noreset old frame) = Some (Some (ORows [[VStr [111; 108; 100]]; [VStr [97]]])).
Proof. split; vm_compute; reflexivity. Qed.
