(** C13 — the negotiated msize is never exceeded by either peer.
    Statements only; proofs in Frame/SizesProofs.v (pure arithmetic over N, all values). *)
From Coq Require Import ZArith NArith List Bool.
From Coq Require String.
From P9V Require Import gen.ConstGen gen.CodecGen Codec.Reuse Frame.Sizes Frame.SizesProofs Frame.Model Frame.Instantiate Frame.SizesLink Frame.SizesGen.
From P9V Require Import Base.GoArith gen.ArithGen Frame.ArithTie.
Import ListNotations.
Open Scope N_scope.

(** Rread: for every announced msize m >= 11 (a Tread is itself 23 bytes, so recv admits none
    below 23), every count 0..2^32-1 and beyond, every amount of data available: the reply frame
    is at most m, the handler does not panic, and the data is shortened to min(count, m-11, avail) *)
Theorem C13_rread : forall m count avail,
  11 <= m ->
  sreply_frame (tread_handle m count avail) <= m /\
  tread_handle m count avail <> SPanic /\
  (count <= 4194304 -> tread_handle m count avail = SData (N.min (N.min count (m - 11)) avail)).
Proof. exact rread_fits. Qed.
Print Assumptions C13_rread.

(** why "11 <= m" costs nothing: a Tread / Treaddir only reaches its handler when recv delivered it, and
    recv (C02's model with the protocol table's decoder) delivers one only if the msize in force is >= 23 *)
Theorem C13_request_needs_23 : forall closed msize s t ty b p c,
  fst (recv spec_lookup spec_decode closed msize s) = Deliver t ty b p c ->
  is_read_request ty = true -> 23 <= c /\ c <= msize /\ 23 <= msize.
Proof. exact read_request_needs_23. Qed.
Print Assumptions C13_request_needs_23.

(** the same for a Tread on an xattr fid: value of any length, ANY offset (all of uint64 and beyond) *)
Theorem C13_rread_xattr : forall m count off vlen,
  11 <= m ->
  sreply_frame (txread_handle m count off vlen) <= m /\ txread_handle m count off vlen <> SPanic.
Proof. exact xread_fits. Qed.
Print Assumptions C13_rread_xattr.

(** Offset + Count wrapping in 64 bits: refused (EINVAL) since 7f754bf; before, it reached buf[Offset:] *)
Theorem C13_xattr_wrap_refuted_before_fix :
  txread_handle_wrapping 4096 2 18446744073709551615 10 = SPanic /\
  txread_handle 4096 2 18446744073709551615 10 = SRlerror EINVAL.
Proof. exact xread_wrapping_refuted. Qed.

(** "the msize it announced", read over a whole session: after ANY history of Tversions (smaller,
    larger, refused ones in between) connState.messageSize is the msize of the last Rversion that
    announced one ... *)
Theorem C13_session_msize : forall h cs,
  fst (run_hist cs h) = last_announced cs (snd (run_hist cs h)).
Proof. exact run_hist_announced. Qed.
Print Assumptions C13_session_msize.

(** ... and every Rread, xattr Rread and Rreaddir sent afterwards fits THAT msize; no handler panics *)
Theorem C13_session : forall h count avail off vlen sizes,
  let cs := fst (run_hist 0 h) in
  let ann := last_announced 0 (snd (run_hist 0 h)) in
  11 <= ann ->
  sreply_frame (tread_handle cs count avail) <= ann /\
  sreply_frame (txread_handle cs count off vlen) <= ann /\
  sreply_frame (treaddir_handle cs count sizes) <= ann /\
  tread_handle cs count avail <> SPanic /\ txread_handle cs count off vlen <> SPanic.
Proof. exact session_fits. Qed.
Print Assumptions C13_session.

(** Rreaddir: whatever count and whatever entries the backend returned *)
Theorem C13_rreaddir : forall m count sizes,
  11 <= m -> sreply_frame (treaddir_handle m count sizes) <= m.
Proof. exact rreaddir_fits. Qed.
Print Assumptions C13_rreaddir.

Theorem C13_rreaddir_unnegotiated : forall count sizes,
  sreply_frame (treaddir_handle 0 count sizes) <= 4194304.
Proof. exact rreaddir_fits_unnegotiated. Qed.

(** the listing is shortened to whole entries: the payload is the total of a prefix of the entry
    sizes, within count, and the next entry would not have fitted *)
Theorem C13_rreaddir_whole_entries : forall count sizes cum,
  exists k, rreaddir_payload count cum sizes = cum + fold_right N.add 0 (firstn k sizes) /\
            (k <= length sizes)%nat /\
            ((k < length sizes)%nat -> count < cum + fold_right N.add 0 (firstn (S k) sizes)).
Proof. exact rreaddir_payload_prefix. Qed.
Print Assumptions C13_rreaddir_whole_entries.

(** client: messageSize after NewClient = min(own, announced) (refused when that is <= 153);
    for every buffer length and every sequence of answers, each Twrite (23 + chunk), each Tread
    (23) and any Rread answering it with at most the count asked (11 + n) fits in it *)
Theorem C13_client_io : forall own announced m plen answers,
  153 < own -> own < 4294967296 -> adopt own announced = Some m ->
  m <= announced /\
  Forall (fun r => twrite_frame r <= m /\ tread_frame <= m /\ forall n, n <= r -> rdata_frame n <= m)
         (chunk_requests (payload_size m) plen answers).
Proof. exact client_io_fits. Qed.
Print Assumptions C13_client_io.

Theorem C13_payload_size : forall m,
  153 < m -> m < 4294967296 -> 0 < payload_size m /\ payload_size m <= m - 153.
Proof. exact payload_size_bounds. Qed.

(** where the client's 153 comes from: msgDotLRegistry.largestFixedSize = max over ALL registered types of
    calculateSize (FixedSize() of a payloader, else the encoded length of the zero value), recomputed here from the
    layouts go2coq reads off messages.go (gen/CodecGen.v) -- not a hand constant; the harness additionally
    compares the value the running registry holds *)
Theorem C13_largest_fixed_size : largest_from_layouts = largestFixedSize.
Proof. exact largest_fixed_size_from_layouts. Qed.
Print Assumptions C13_largest_fixed_size.

(** ... and what the client clause needs of it: header + fixed part of every payload-carrying message
    (Twrite 23, Rread / Rreaddir 11) fits below it, for every registered payloader.  FixedSize() excludes
    the 7-byte header, so a maximum over the payloaders alone (16) does not have this property: *)
Theorem C13_largest_covers_payloaders : forall g f,
  In g gen_msgs -> gm_fixed_size g = Some f -> p9_headerLength + f <= largestFixedSize.
Proof. exact largest_covers_payloaders. Qed.
Print Assumptions C13_largest_covers_payloaders.

Theorem C13_overheads_from_layouts :
  fixed_of_typ p9_msgTwrite = Some (requestOverhead - p9_headerLength) /\
  fixed_of_typ p9_msgRread = Some (replyOverhead - p9_headerLength) /\
  fixed_of_typ p9_msgRreaddir = Some (replyOverhead - p9_headerLength).
Proof. exact overheads_from_layouts. Qed.
Print Assumptions C13_overheads_from_layouts.

Theorem C13_largest_payloaders_only_refuted :
  largest_payloaders_only = 16 /\
  let p := round_down (sub32 154 largest_payloaders_only) 512 in twrite_frame p = 161.
Proof. exact payloaders_only_refuted. Qed.
Print Assumptions C13_largest_payloaders_only_refuted.

(** client Readdir: the count sent is min(count, m-11); request and fullest possible reply fit *)
Theorem C13_client_readdir : forall own announced m count,
  153 < own -> own < 4294967296 -> adopt own announced = Some m ->
  m <= announced /\ readdir_count m count <= count /\ tread_frame <= m /\
  forall n, n <= readdir_count m count -> rdata_frame n <= m.
Proof. exact client_readdir_fits. Qed.
Print Assumptions C13_client_readdir.

(** this client against this server *)
Theorem C13_readdir_end_to_end : forall m count sizes,
  153 < m -> m < 4294967296 ->
  sreply_frame (treaddir_handle m (readdir_count m count) sizes) <= m.
Proof. exact readdir_end_to_end. Qed.
Print Assumptions C13_readdir_end_to_end.

(** hypotheses are satisfiable / sample evaluations *)
Example C13_adopt_example : adopt 65536 8192 = Some 8192 /\ payload_size 8192 = 7680.
Proof. split; reflexivity. Qed.
Example C13_rread_example : tread_handle 4096 4294967295 100 = SRlerror ENOBUFS /\ tread_handle 4096 4096 100000 = SData 4085.
Proof. split; reflexivity. Qed.
Example C13_hist_example :
  run_hist 0 [TV 65536 true; TV 0 true; TV 4096 true; TV 8192 false] = (4096, [65536; 0; 4096; 0]) /\
  last_announced 0 [65536; 0; 4096; 0] = 4096.
Proof. split; reflexivity. Qed.
Print Assumptions C13_rreaddir_unnegotiated.
Print Assumptions C13_payload_size.

(** ---- the arithmetic of the SOURCE (translated by go2coq ArithGen on every run, gen/ArithGen.v) ----
    connState.maxReplyPayload, roundDown, every assignment to Client.payloadSize and the final value of
    `count` in tread.handle / treaddir.handle / clientFile.Readdir are Gallina functions over Z with Go's
    uint32 wrap-around at every operation; they equal the hand model's functions for every 32-bit value
    (no sampling), so the theorems above are theorems about what the code computes now. *)
Theorem C13_source_arithmetic_is_model :
  (forall m, is_u32 m -> gen_maxReplyPayload (Z.of_N m) = Z.of_N (max_reply_payload m)) /\
  (forall p a, is_u32 p -> is_u32 a -> 0 < a -> gen_roundDown (Z.of_N p) (Z.of_N a) = Z.of_N (round_down p a)) /\
  Forall (fun f => forall m, is_u32 m -> f (Z.of_N m) (Z.of_N largestFixedSize) = Z.of_N (payload_size m)) gen_payloadSize_sites /\
  (forall c m, is_u32 c -> is_u32 m -> gen_tread_count (Z.of_N c) (Z.of_N m) = Z.of_N (N.min c (max_reply_payload m))) /\
  (forall c m, is_u32 c -> is_u32 m -> gen_treaddir_count (Z.of_N c) (Z.of_N m) = Z.of_N (N.min c (max_reply_payload m))) /\
  (forall c m, is_u32 c -> is_u32 m -> gen_readdir_count (Z.of_N c) (Z.of_N m) = Z.of_N (readdir_count m c)).
Proof.
  exact (conj gen_maxReplyPayload_ok (conj gen_roundDown_ok (conj gen_payloadSize_ok
        (conj gen_tread_count_ok (conj gen_treaddir_count_ok gen_readdir_count_ok))))).
Qed.
Print Assumptions C13_source_arithmetic_is_model.

(** the property's two clauses over the translated arithmetic: whatever count a Tread/Treaddir asks for
    (all 2^32 values) and whatever msize >= 11 is in force, header + count[4] + data of the length the
    source computes fit; the client's chunk size leaves room for the 23-byte Twrite header and is
    positive; the count the client sends in Treaddir leaves room for the 11-byte reply header *)
Theorem C13_source_server_clamps_fit : forall count m, is_u32 count -> is_u32 m -> 11 <= m ->
  (11 + gen_tread_count (Z.of_N count) (Z.of_N m) <= Z.of_N m /\
   11 + gen_treaddir_count (Z.of_N count) (Z.of_N m) <= Z.of_N m)%Z.
Proof. exact generated_server_clamps_fit. Qed.
Print Assumptions C13_source_server_clamps_fit.
Theorem C13_source_client_payload_fits : forall m, is_u32 m -> largestFixedSize < m ->
  Forall (fun f => (23 + f (Z.of_N m) (Z.of_N largestFixedSize) <= Z.of_N m /\ 0 < f (Z.of_N m) (Z.of_N largestFixedSize))%Z) gen_payloadSize_sites.
Proof. exact generated_client_payload_fits. Qed.
Print Assumptions C13_source_client_payload_fits.
Theorem C13_source_client_readdir_fits : forall count m, is_u32 count -> is_u32 m -> 11 <= m ->
  (11 + gen_readdir_count (Z.of_N count) (Z.of_N m) <= Z.of_N m)%Z.
Proof. exact generated_client_readdir_fits. Qed.
Print Assumptions C13_source_client_readdir_fits.

(** where the clamped count is used and where the raw request field is still read: the generated lists equal
    the reviewed tables of Frame/ArithTie.v (tread hands dataBuf[:count] to ReadAt and to the xattr copy and reads
    t.Count only in the ENOBUFS guard and the xattr range test; treaddir puts the clamped count in the reply;
    the client sends the clamped count) *)
Theorem C13_source_count_uses :
  gen_tread_count_uses = tread_count_uses_reviewed /\
  gen_treaddir_count_uses = treaddir_count_uses_reviewed /\
  gen_readdir_count_uses = readdir_count_uses_reviewed.
Proof. exact (conj tie_tread_count_uses (conj tie_treaddir_count_uses tie_readdir_count_uses)). Qed.
Print Assumptions C13_source_count_uses.

Example C13_ex_source_arithmetic :
  gen_maxReplyPayload 8192 = 8181%Z /\ gen_maxReplyPayload 0 = 4194293%Z /\ gen_maxReplyPayload 5 = 0%Z /\
  gen_tread_count 4294967295 8192 = 8181%Z /\ gen_readdir_count 70000 65536 = 65525%Z /\
  map (fun f => f 65536 153)%Z gen_payloadSize_sites = [65024; 65024]%Z.
Proof. vm_compute. repeat split. Qed.
