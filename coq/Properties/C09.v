(** C09 -- name confinement.  Statements only; proofs in Server/NameProofs.v and Server/SummaryProofs.v. *)
From Coq Require Import NArith List String Ascii Bool.
From P9V Require Import Base.Str gen.ConstGen gen.HandlerGen Server.State Server.Msg Server.Handlers
  Server.Summaries Server.NameProofs Server.SummaryProofs Server.Refine Server.DirsHist.
From P9V Require Import Server.SafeNamePrims gen.SafeNameGen Server.SafeNameTie.
Import ListNotations.
Open Scope N_scope.

(** checkSafeName accepts exactly: not empty, not ".", not "..", no '/' (all strings, by induction) *)
Theorem C09_checkSafeName : forall s,
  safe_nameb s = true <-> (s <> ""%string /\ s <> "."%string /\ s <> ".."%string /\ ~ In "/"%char (list_ascii_of_string s)).
Proof. exact safe_nameb_spec. Qed.
Print Assumptions C09_checkSafeName.

(** TIE BY TRANSLATION: gen/SafeNameGen.v holds checkSafeName as go2coq TRANSLATED it from p9/handlers.go on this
    run (true = nil, false = an error); it IS [safe_nameb], for every string (strings.Contains is the substring
    search of Server/SafeNamePrims.v: a hand model of the standard library, trusted) *)
Theorem C09_source_checkSafeName_is_model : forall s, gen_checkSafeName s = safe_nameb s.
Proof. exact gen_checkSafeName_is_model. Qed.
Print Assumptions C09_source_checkSafeName_is_model.
(** ... so the four-clause characterisation is a statement about the translated code *)
Theorem C09_source_checkSafeName : forall s,
  gen_checkSafeName s = true <-> (s <> ""%string /\ s <> "."%string /\ s <> ".."%string /\ ~ In "/"%char (list_ascii_of_string s)).
Proof. intros s. rewrite gen_checkSafeName_is_model. exact (safe_nameb_spec s). Qed.
Print Assumptions C09_source_checkSafeName.

(** from any state whose path tree holds safe names, for every request and every oracle tape:
    every path-component argument of every backend call is safe, and every Walk/WalkGetAttr call
    carries at most one name (one component at a time) *)
Theorem C09_safe_names : forall s c m tape, names_ok s ->
  forall call ans, In (call, ans) (log_of (step s c m tape)) ->
    (forall n, In n (bc_names call) -> safe_name n) /\
    (is_walk call = true -> (List.length (bc_names call) <= 1)%nat).
Proof. exact safe_names_step. Qed.
Print Assumptions C09_safe_names.

(** ... and that hypothesis holds after every history (all requests, all tapes, from NewServer) *)
Theorem C09_safe_names_every_history : forall h c m tape,
  forall call ans, In (call, ans) (log_of (step (NameProofs.run init_state h) c m tape)) ->
    (forall n, In n (bc_names call) -> safe_name n) /\
    (is_walk call = true -> (List.length (bc_names call) <= 1)%nat).
Proof. exact safe_names_history. Qed.
Print Assumptions C09_safe_names_every_history.

(** an unsafe name in a checked field is refused with EINVAL before anything happens: same state,
    no backend call, tape untouched (create, mkdir, symlink, link, mknod, rename, renameat, unlinkat) *)
Theorem C09_unsafe_rejected : forall s c m k tape,
  kind_of m = Some k -> forallb safe_nameb (names_of m) = false ->
  step s c m tape = (s, RErr linux_EINVAL, [], tape).
Proof. exact unsafe_rejected. Qed.
Print Assumptions C09_unsafe_rejected.

(** walk components (Twalk, Twalkgetattr, and the split attach name) are checked before the first
    component is walked: doWalk with an unsafe component fails with EINVAL without any effect *)
Theorem C09_walk_unsafe : forall ref names ga w,
  forallb safe_nameb names = false -> do_walk ref names ga w = (Ok (inl (eno linux_EINVAL)), w).
Proof. exact do_walk_unsafe. Qed.

(** ONLY THROUGH DIRECTORIES, for every history: in every request of every history from NewServer, with every
    backend answer tape (errors and panics at any call index included), the receiver File of EVERY Walk /
    WalkGetAttr call that carries a name -- walk components of Twalk / Twalkgetattr and of the split attach
    name, the first component included -- is the File of an allocated fidRef whose RECORDED type is a
    directory ([dirfile]).  The recorded type is what the backend reported when the File was obtained
    ([C09_recorded_type_is_reported] below for walked components; Tattach records GetAttr's answer; Tlcreate
    records ModeRegular; Txattrwalk records no type, so an xattr fid is never walked from).
    Proof: Server/DirsHist.v, an invariant over the world (state + call log) carried through every
    primitive and handler. *)
Theorem C09_dirs_only_every_history : forall h c m tape call ans,
  In (call, ans) (log_of (step (NameProofs.run init_state h) c m tape)) -> named_walk call = true ->
  dirfile (state_of (step (NameProofs.run init_state h) c m tape)) (bc_h call).
Proof. exact dirs_only_history. Qed.
Print Assumptions C09_dirs_only_every_history.
(** the same from any state in which unallocated fidRef slots are empty *)
Theorem C09_dirs_only : forall s c m tape, refs_below s ->
  forall call ans, In (call, ans) (log_of (step s c m tape)) -> named_walk call = true ->
    dirfile (state_of (step s c m tape)) (bc_h call).
Proof. exact dirs_only_step. Qed.
Print Assumptions C09_dirs_only.

(** only through directories, PER STEP of the component loop (kept: it says what happens INSTEAD -- EINVAL, no call; the history theorem above says no such call is ever in a log):
    before EVERY component (the first included) the walk reference's recorded type is tested; if it is not a directory the component is not walked -- no Walk or
    WalkGetAttr call is made on it, the request fails with EINVAL (all states, all tapes) *)
Theorem C09_dirs_only_step : forall n rest walk qids last w,
  is_dir (fr_mode (get_ref (w_st w) walk)) = false ->
  walk_loop (n :: rest) walk qids last w = (dec_ref_ walk ;; fail linux_EINVAL)%m w.
Proof. exact walk_needs_dir. Qed.
Print Assumptions C09_dirs_only_step.
(** ... and the type recorded for the fidRef of each walked component is the one the backend reported
    for that component (so "directory" means: reported ModeDirectory by WalkGetAttr / GetAttr) *)
Theorem C09_recorded_type_is_reported : forall n rest walk qids last w,
  is_dir (fr_mode (get_ref (w_st w) walk)) = true -> is_deleted (w_st w) walk = false ->
  walk_loop (n :: rest) walk qids last w =
  (let wfr := get_ref (w_st w) walk in
   r <- walk_one true (fr_file wfr) (fr_node wfr) [n] ;;
   match r with
   | inl e => dec_ref_ walk ;; ret (inl e)
   | inr (q, h, a) =>
       node <- node_for (fr_node wfr) n ;;
       nr <- new_ref (plain_ref h (ftype (bv_mode a)) node (Some walk)) ;;
       add_child (fr_node wfr) nr n ;; incref nr ;; walk_loop rest nr (qids ++ q)%list a
   end)%m w.
Proof. exact walk_records_reported_type. Qed.
(** every multi-component request (Twalk, Twalkgetattr, the split attach name) goes through that loop *)
Theorem C09_walks_use_the_loop : forall ref n rest ga w,
  forallb safe_nameb (n :: rest) = true ->
  do_walk ref (n :: rest) ga w = (incref ref ;; walk_loop (n :: rest) ref [] v0)%m w.
Proof. exact do_walk_is_walk_loop. Qed.

(** attach names: "" and "/" attach the root; a//b, /../x, a/./b, a/ have an unsafe component *)
Theorem C09_attach_names :
  strip_slash "" = ""%string /\ strip_slash "/" = ""%string /\
  forallb safe_nameb (split_on slash (strip_slash "a//b")) = false /\
  forallb safe_nameb (split_on slash (strip_slash "/../x")) = false /\
  forallb safe_nameb (split_on slash (strip_slash "a/./b")) = false /\
  forallb safe_nameb (split_on slash (strip_slash "a/")) = false /\
  forallb safe_nameb (split_on slash (strip_slash "/d1/f1")) = true.
Proof. exact attach_name_examples. Qed.

(** every component of a split attach name that passes is a safe name, whatever the string *)
Theorem C09_attach_components : forall an n,
  forallb safe_nameb (split_on slash (strip_slash an)) = true ->
  In n (split_on slash (strip_slash an)) -> safe_name n.
Proof. exact attach_components_safe. Qed.
Print Assumptions C09_attach_components.

(** tie to the source: the handler traces read from handlers.go/server.go are the ones the model
    stands for, and every string field of a T-message that is a path component is checked *)
Theorem C09_source_fields_checked : all_fields_checked = true.
Proof. exact HandlerGen_all_name_fields_checked. Qed.
Theorem C09_source_matches_model : handler_traces_alpha = model_traces.
Proof. exact HandlerGen_matches_model. Qed.
Print Assumptions C09_source_matches_model.

(** the hypothesis of C09_safe_names is satisfiable by a non-trivial state: after attaching "/d1/f1" *)
Example C09_example :
  let tape := [AVal v0 []; AVal (mkV [1] true p9_ModeDirectory 0 []) [];
               AVal (mkV [2] true p9_ModeDirectory 0 []) []; AVal (mkV [3] true p9_ModeRegular 0 []) []] in
  let r := step init_state 0 (Tattach 0 p9_noFID "u" "/d1/f1" 0) tape in
  reply_of r = ROk p9_msgRattach [1] "" /\ names_ok (state_of r) /\ List.length (log_of r) = 4%nat.
Proof. vm_compute. repeat split; repeat constructor. Qed.
