(** C08 — placeholder while the proofs are being written. *)
From Coq Require Import List Arith Bool.
From P9V Require Import Refs.Model Refs.PathFS.
Import ListNotations.
