(** C08 — path coherence and fencing.  Statements only; proofs are in
    Refs/FenceProofs.v, Refs/TreeStep.v.  All theorems hold for every backend and every state.

    Proved: fencing.  A request through a fid whose path node carries the
    deleted mark is refused by the guard - EINVAL, ENOENT for a walk to a child -
    and the handler body makes no backend call (the state is exactly
    LookupFID; deferred DecRef, which calls nothing while the fid table holds the
    fidRef); markChildDeleted (Tunlinkat, Tremove, rename over an existing name)
    leaves the name without a path node, so a fid bound later to a new file of
    that name gets a fresh node that is not deleted.  Tgetattr, Tread/Twrite/
    Tfsync and Tclunk do not read the deleted mark at all (Refs/Model.v:
    do_getattr, do_io, do_clunk).
    Proved for every history and backend: C08_tree_inv (Refs/TreeInv.v, TreeProofs.v, TreeStep.v).
    PARTIAL (pathB's section at the end; Refs/Coherent*.v, Refs/Notified*.v): C08_coherent,
    C08_notified.  What is not proved is covered on every run by the differential only: the model,
    composed with PathFS, is compared with the real server and the Go twin of PathFS step by step,
    GetAttr through every bound fid after each change, and the server's path tree is dumped and
    compared, childRefs against childRefNames included. *)
From Coq Require Import List Arith Bool ZArith.
From P9V Require Import Refs.Model Refs.PathFS Refs.Cases Refs.RefProofs Refs.FenceProofs.
From P9V Require Refs.TreeInv Refs.TreeStep.
Import ListNotations.

(** C08_tree_inv, for every history of requests from the initial state and every backend (no assumption):
    childRefs and childRefNames agree and the sets are duplicate free; a registered fidRef is live, has a
    parent whose node is the registering node and its own node is that node's childNodes[name]; a live,
    non-deleted fidRef with a parent is registered in its parent's node; ids are in range, xattr fidRefs
    have no parent; a node is the child of at most one (node, name) and the root of none ([tree_ok],
    Refs/TreeInv.v; proof: Refs/TreeProofs.v, Refs/TreeStep.v).  "deleted is downward closed" and "no
    panic of the path-tree code" ([tree_closed]) need an acyclic childNodes graph (assumption B2) and are
    NOT proved: with a backend that lets a directory move into its own subtree the graph becomes cyclic
    and notifyDelete can mark the target directory of a later rename itself. *)
Theorem C08_tree_inv : forall B (bstep : B -> bcall -> B * bans) ops (b : B),
  TreeInv.tree_ok B (snd (run B bstep ops (init_state B b))).
Proof. exact TreeStep.tree_inv_history. Qed.
Print Assumptions C08_tree_inv.

(** The C08_fenced* theorems, C08_unlinked_name_has_no_node, C08_later_binding_fresh, C08_notified_partial and
    C08_xattr_clone_refused are PER-REQUEST statements about an arbitrary state (unfoldings of the handler's
    guard / of one primitive), not history theorems; C08_fenced_subtree is an induction over the node graph of an
    arbitrary state.  The history theorems of this file are C08_tree_inv and pathB's C08_coherent /
    C08_no_tree_panic / C08_notified_states.
    Tlopen, Tlcreate, Tmkdir/Tmknod/Tsymlink, Tsetattr, Treaddir, Tunlinkat, Txattrwalk, Txattrcreate: *)
Theorem C08_fenced : forall B bstep o c fid r s,
  fenced1 o c fid -> alookup peqb (c, fid) (s_fids B s) = Some r -> is_deleted B s r = true ->
  step B bstep o s = (rerr EINVAL, release B bstep r (hold B r s)).
Proof. exact fenced_single. Qed.
Print Assumptions C08_fenced.

Theorem C08_fenced_walk : forall B bstep c fid newfid nm rest g r s,
  alookup peqb (c, fid) (s_fids B s) = Some r -> is_deleted B s r = true ->
  is_dir (fr_mode (get_ref B s r)) = true -> fr_opened (get_ref B s r) && (fid =? newfid) = false ->
  step B bstep (OWalk c fid newfid (nm :: rest) g) s =
    (rerr ENOENT, release B bstep r (release B bstep r (hold B r (hold B r s)))).
Proof. exact fenced_walk. Qed.
Print Assumptions C08_fenced_walk.

(** the bracket LookupFID; deferred DecRef reaches the backend with nothing *)
Theorem C08_fenced_no_backend_call : forall B bstep r s,
  (0 < fr_refs (get_ref B s r))%Z -> s_log B (release B bstep r (hold B r s)) = s_log B s.
Proof. exact bracket_no_call. Qed.
Print Assumptions C08_fenced_no_backend_call.

(** PARTIAL (two-fid requests): the guard of Tlink; Trename/Trenameat have the same guard
    ([is_deleted] of either fid first, Refs/Model.v do_rename/do_renameat) - not restated. *)
Theorem C08_fenced_link_partial : forall B bstep s r t nm,
  is_deleted B s r = true ->
  guarded_call B bstep r (dir_guard B s r) (BLink (fr_file (get_ref B s r)) (fr_file (get_ref B s t)) nm) s = (rerr EINVAL, s).
Proof. exact fenced_link_body. Qed.
Print Assumptions C08_fenced_link_partial.

(** C08_fenced, completeness of the marking: after markChildDeleted (Tunlinkat, Tremove, rename over an
    existing name) every path node at or below the victim - [reach]: along childNodes edges, in the tree
    from which the victim entry has been detached - carries the deleted mark, and every fidRef whose node
    is there is fenced.  No assumption on the shape of the node graph (the fuel, #nodes + 1, covers every
    simple path; [k <= #nodes]). *)
Theorem C08_fenced_subtree : forall B bstep n nm v k r s,
  alookup Nat.eqb nm (pn_nodes (get_node B s n)) = Some v -> v < length (s_nodes B s) ->
  reach B (detached B bstep n nm s) v (fr_node (get_ref B s r)) k -> k <= length (s_nodes B s) ->
  is_deleted B (mark_child_deleted B bstep n nm s) r = true.
Proof. exact fenced_below_victim. Qed.
Print Assumptions C08_fenced_subtree.

Theorem C08_unlinked_name_has_no_node : forall B bstep n nm s,
  n < length (s_nodes B s) ->
  alookup Nat.eqb nm (pn_nodes (get_node B (mark_child_deleted B bstep n nm s) n)) = None.
Proof. exact unlinked_name_has_no_node. Qed.
Print Assumptions C08_unlinked_name_has_no_node.

Theorem C08_later_binding_fresh : forall B n nm s,
  alookup Nat.eqb nm (pn_nodes (get_node B s n)) = None -> n < length (s_nodes B s) ->
  let '(c, s') := path_node_for B n nm s in
  c = length (s_nodes B s) /\ pn_deleted (get_node B s' c) = false.
Proof. exact fresh_node_not_deleted. Qed.
Print Assumptions C08_later_binding_fresh.

(** PARTIAL: C08_notified for the refs AT the moved entry only: each is told its new parent File and
    name.  Missing: that these are exactly the refs at the entry, the refs below it, parents first. *)
Theorem C08_notified_partial : forall B bstep tgt newnm r p s,
  fr_parent (get_ref B s r) = Some p ->
  exists s2 s3, rename_cb B bstep tgt newnm r s = snd (decref_ B bstep p s3) /\
                hd_error (s_log B s3) = Some (BRenamed (fr_file (get_ref B s2 r)) (fr_file (get_ref B s2 tgt)) newnm).
Proof. exact rename_cb_notifies. Qed.
Print Assumptions C08_notified_partial.

(** Concrete history (a test, not the claim): /1/2 with fids on both levels and a file below;
    the ancestor is renamed, then the subtree is moved up, then unlinked.  Every GetAttr reaches the
    object the fid was bound to (inode 2, 3, 4); after the unlink the fid below is fenced (EINVAL,
    Tlopen) while GetAttr through it still reaches the backend (ENOENT); a new file of the same name
    is unaffected. *)
Definition c08_sample : list op :=
  [OAttach 0 0 []; OMk 0 0 0 1; OWalk 0 0 1 [1] false; OMk 0 0 1 2; OWalk 0 1 2 [2] false; OWalk 0 2 3 [] false; OCreate 0 3 3 2;
   ORenameAt 0 0 1 0 0; OGetAttr 0 1; OGetAttr 0 2; OGetAttr 0 3;
   ORenameAt 0 1 2 0 2; OGetAttr 0 2; OGetAttr 0 3;
   OUnlinkAt 0 0 2; OOpen 0 2 0; OGetAttr 0 3; OMk 0 0 0 2; OWalk 0 0 4 [2] false; OGetAttr 0 4; OOpen 0 4 0].
Example C08_sample_ok :
  map (fun r => r) (skipn 7 (fst (run pfs pfs_step c08_sample (init_state pfs (pfs_init true []))))) =
  [(0, 0); (0, 2); (0, 3); (0, 4);  (0, 0); (0, 3); (0, 4);  (0, 0); (EINVAL, 0); (ENOENT, 0); (0, 0); (0, 1); (0, 5); (0, 5)].
Proof. vm_compute. reflexivity. Qed.

(** Formerly refuted (finding C08:xattr-clone-unregistered, fixed in /repo by e2b9169): the clone of an xattr
    fid would be a fidRef outside the path tree that is never told about renames.  It is now refused:
    EINVAL, no backend call in the handler, no fid bound. *)
Theorem C08_xattr_clone_refused : forall B bstep c fid newfid g r o s,
  alookup peqb (c, fid) (s_fids B s) = Some r -> fr_xattrOf (get_ref B s r) = Some o ->
  fr_opened (get_ref B s r) && (fid =? newfid) = false ->
  step B bstep (OWalk c fid newfid [] g) s = (rerr EINVAL, release B bstep r (hold B r s)).
Proof. exact xattr_clone_refused. Qed.
Print Assumptions C08_xattr_clone_refused.

(** the former witness: the clone is refused, fid 3 stays unbound (EBADF), the xattr fid follows the rename *)
Definition c08_xattr_clone : list op :=
  [OAttach 0 0 []; OMk 0 0 0 1; OWalk 0 0 1 [1] false; OXattrWalk 0 1 2; OWalk 0 2 3 [] false; OGetAttr 0 3;
   ORenameAt 0 0 1 0 2; OGetAttr 0 1; OGetAttr 0 2; OGetAttr 0 3].
Example C08_xattr_clone_sample :
  let '(replies, s) := run pfs pfs_step c08_xattr_clone (init_state pfs (pfs_init true [])) in
  skipn 4 replies = [(EINVAL, 0); (EBADF, 0); (0, 0); (0, 2); (0, 2); (EBADF, 0)] /\ s_nexth pfs s = 2.
Proof. vm_compute. split; reflexivity. Qed.

(* --- pathB --- *)
From P9V Require Refs.CoherentDefs Refs.CoherentHist Refs.NotifiedDeep Refs.NotifiedRename Refs.CoherentRename Refs.CoherentRenFrame.
(** C08_coherent against PathFS (Refs/Coherent*.v).  [run_g] runs the history and keeps the ghost list g:
    g[r] = the inode the File path of fidRef r resolved to at the end of the request that created r
    (bind time).  [coherent s g]: every live, non-fenced fidRef r (owning its File or, for an xattr fid,
    borrowing it) has  resolve fs (path_of (file r)) = Some (g[r]).  Sequential histories from the initial
    state, PathFS as the only writer (B4), any WalkGetAttr setting, any failure injection; ALL request kinds:
    attach, walk, clone, create, open, clunk, stop, xattrwalk/create, mkdir/mknod/symlink, link, getattr-like,
    I/O, Tunlinkat, Tremove, and Trename / Trenameat in every variant (same or other directory, a leaf or a
    directory with fidRefs at any depth below it, over an existing target or not).  Rename: PathFS and the
    node tree undergo the same MOVE (CoherentTree.move_*; B2 comes from PathFS's refusal, CoherentRenFs.b2_paths);
    the victim subtree is fenced first; level 0 is told target-path/new-name (CoherentRenLoop), every level
    below parent-path/name in pre-order (NotifiedDeep.notified_below_be + CoherentRenDeep.deep_pure: induction on
    depth, "when a node is reached every fidRef whose node it is already has the node's path").
    NO hypothesis: the class of histories is exactly - PathFS backend (Refs/PathFS.v), any WalkGetAttr setting,
    any errno / bad-QID injection list (PathFS has no panic injection: backend panics are outside this class),
    sequential, from the initial state.  For these histories the run-time panics of the path-tree code
    (nameFor, addChild, addPathNodeFor, removeChild, nil parent, trename's assertion) are unreachable
    ([C08_no_tree_panic]; Refs/CoherentPanic*.v: every set_panic site of Refs/Model.v is excluded), which the
    proof needs because the model's renameChildTo skips notifyNameChange once the panic flag is set.
    tree_ok is C08_tree_inv (serverB); "a live non-fenced fidRef has a non-fenced parent" is part of [Good]. *)
Theorem C08_coherent : forall ops wga inj,
  let r := P9V.Refs.CoherentDefs.run_g ops (init_state pfs (pfs_init wga inj)) [] in
  P9V.Refs.CoherentDefs.coherent (fst r) (snd r).
Proof.
  intros ops wga inj. apply P9V.Refs.CoherentHist.coherent_history_u.
  intros pre post E. apply TreeStep.tree_inv_history.
Qed.
Print Assumptions C08_coherent.

Theorem C08_no_tree_panic : forall ops wga inj,
  s_panic pfs (snd (run pfs pfs_step ops (init_state pfs (pfs_init wga inj)))) = false.
Proof.
  intros ops wga inj. apply P9V.Refs.NotifiedRename.reach_inv_history.
  intros pre post E. apply TreeStep.tree_inv_history.
Qed.
Print Assumptions C08_no_tree_panic.

(** the same without using C08_tree_inv: every request kind except Tunlinkat / Tremove / Trename / Trenameat *)
Theorem C08_coherent_partial : forall ops wga inj,
  Forall P9V.Refs.CoherentHist.covered ops ->
  let r := P9V.Refs.CoherentDefs.run_g ops (init_state pfs (pfs_init wga inj)) [] in
  P9V.Refs.CoherentDefs.coherent (fst r) (snd r).
Proof. exact P9V.Refs.CoherentHist.coherent_history_covered. Qed.
Print Assumptions C08_coherent_partial.
(** C08_notified (Refs/NotifiedRename.v, PathFS backend), for the renameChildTo of a Trename / Trenameat whose
    RenameAt the backend accepted, from any state satisfying the invariants (count invariant RefInvD, tree_ok,
    CoherentDefs.Good; [C08_notified_states]: EVERY state of EVERY PathFS history - same class as C08_coherent, no
    hypothesis - and LookupFID keeps them), the request ending without the panic flag (always: C08_no_tree_panic):
    the Renamed calls in the log ([rcalls] = the log filtered to Renamed, oldest first) are exactly
      (level 0) Renamed(File of q, File of the TARGET, NEW NAME) for every fidRef q registered under the old
                name before the request ([regd]; all are live and have a parent whose node is the source
                directory; none dies before it is visited), in childRefs order, THEN
      (below)   [deep_calls] = the calls of notifyNameChange on the moved node: C08_notified_below_partial /
                C08_notified_below_members - every registered live fidRef in a node at or below the moved node
                is told (its File, its PARENT's File, its registered NAME), a node's childRefs before its child
                nodes (pre-order).
    So a level-0 fidRef's new parent is the rename target, and a fidRef registered in node n (its parent's
    node is n, tree_ok T_reg) is told after all fidRefs of n's parent node.
    "Parent told earlier" as positions in the log: [C08_notified_parents_first] - for a node m' at or below the
    moved node and each child node m of it, the calls for the fidRefs registered in m' (the parents: their node
    is m) all come before the calls for the fidRefs registered in m (T_reg: their parent's node is m); the
    level-0 calls come before everything below (the parents of the fidRefs registered in the moved node are
    level-0 fidRefs; the parent of a level-0 fidRef is the target, which is told nothing).
    PARTIAL in one respect: the list below the moved node
    is expressed on the state after level 0 ([CoherentRename.SC]: same nodes and registrations at or below the
    moved node except that dead fidRefs are unregistered) rather than on the state before the request; and the
    statement is for PathFS, not for every backend (the calls do not depend on the backend's answers). *)
Theorem C08_notified : forall s d g xr t old new,
  RefInvD pfs s d -> P9V.Refs.TreeInv.tree_ok pfs s -> P9V.Refs.CoherentDefs.Good s g -> 0 < RefStep.hc pfs s t ->
  xr < length (s_refs pfs s) -> P9V.Refs.CoherentDefs.live s xr -> P9V.Refs.CoherentDefs.tref s xr -> P9V.Refs.CoherentDefs.nonf s xr ->
  P9V.Refs.CoherentDefs.tref s t -> P9V.Refs.CoherentDefs.nonf s t ->
  (fr_node (get_ref pfs s xr), old) <> (fr_node (get_ref pfs s t), new) ->
  let r := bcall_ pfs pfs_step (BRenameAt (fr_file (get_ref pfs s xr)) old (fr_file (get_ref pfs s t)) new) s in
  (forall e, fst r <> AErr e) ->
  let res := rename_child_to pfs pfs_step (fr_node (get_ref pfs s xr)) old t new (snd r) in
  s_panic pfs res = false ->
  P9V.Refs.CoherentRenFrame.rcalls res = P9V.Refs.CoherentRenFrame.rcalls s
     ++ map (fun q => BRenamed (fr_file (get_ref pfs s q)) (fr_file (get_ref pfs s t)) new)
            (P9V.Refs.NotifiedRename.regd s (fr_node (get_ref pfs s xr)) old)
     ++ P9V.Refs.CoherentRename.deep_calls s xr t old new (snd r) /\
  (forall q, In q (P9V.Refs.NotifiedRename.regd s (fr_node (get_ref pfs s xr)) old) ->
     q < length (s_refs pfs s) /\ P9V.Refs.CoherentDefs.live s q /\
     exists p, fr_parent (get_ref pfs s q) = Some p /\ fr_node (get_ref pfs s p) = fr_node (get_ref pfs s xr)).
Proof. exact P9V.Refs.NotifiedRename.notified_rename. Qed.
Print Assumptions C08_notified.

Theorem C08_notified_states : forall ops wga inj,
  P9V.Refs.NotifiedRename.reach_inv (snd (run pfs pfs_step ops (init_state pfs (pfs_init wga inj)))).
Proof.
  intros ops wga inj. apply P9V.Refs.NotifiedRename.reach_inv_history.
  intros pre post E. apply TreeStep.tree_inv_history.
Qed.
Print Assumptions C08_notified_states.

Theorem C08_notified_parents_first : forall B s k fuel n m' x m,
  P9V.Refs.NotifiedDeep.down B s n m' k -> In (x, m) (pn_nodes (get_node B s m')) -> S k < fuel ->
  exists A Bm C, flat_map (P9V.Refs.NotifiedDeep.tell B s) (P9V.Refs.NotifiedDeep.below B fuel s n) =
    A ++ flat_map (P9V.Refs.NotifiedDeep.tell B s) (P9V.Refs.NotifiedDeep.regs_of (get_node B s m')) ++ Bm ++
         flat_map (P9V.Refs.NotifiedDeep.tell B s) (P9V.Refs.NotifiedDeep.regs_of (get_node B s m)) ++ C.
Proof. exact P9V.Refs.NotifiedDeep.told_order. Qed.
Print Assumptions C08_notified_parents_first.

(** the part below the moved entry, every state and every backend (Refs/NotifiedDeep.v) *)
Theorem C08_notified_below_partial : forall B bstep fuel n held s,
  let s' := snd (notify_name_change B bstep fuel n (held, s)) in
  P9V.Refs.NotifiedDeep.calls B s' =
    P9V.Refs.NotifiedDeep.calls B s ++ flat_map (P9V.Refs.NotifiedDeep.tell B s) (P9V.Refs.NotifiedDeep.below B fuel s n) /\
  P9V.Refs.NotifiedDeep.frame B s s'.
Proof. exact P9V.Refs.NotifiedDeep.notified_below. Qed.
Print Assumptions C08_notified_below_partial.

Theorem C08_notified_below_members : forall B fuel s n e,
  In e (P9V.Refs.NotifiedDeep.below B fuel s n) <->
  exists k c, k < fuel /\ P9V.Refs.NotifiedDeep.down B s n c k /\ In e (P9V.Refs.NotifiedDeep.regs_of (get_node B s c)).
Proof. exact P9V.Refs.NotifiedDeep.in_below. Qed.
Print Assumptions C08_notified_below_members.
(* --- end pathB --- *)

(* --- round 5: the atomicity of binding requests with respect to renames --- *)
From P9V Require Refs.BindSplit.
(** Every history theorem above is about the SEQUENTIAL model: a request that binds a new File (clone, walk,
    Tlcreate) runs atomically.  In the code this is Server.renameMu: the backend call that makes the File and
    the registration of the new fidRef sit in one safelyRead / safelyWrite, a rename takes renameMu for
    writing.  It is an ASSUMPTION of this file (tested on every run by the gated scenario vhgRenameVsBind:
    a rename issued while the binding request is parked inside its backend call), made expressible here:
    [BindSplit.clone_begin] = LookupFID, guards, walkOne(nil); [BindSplit.clone_finish] = the rest, reading
    the origin's parent and name at that moment.
    C08_clone_split: run back to back, the two segments ARE the model's zero-name Twalk / Twalkgetattr, for
    every backend and every state (the split adds no behaviour). *)
Theorem C08_clone_split : forall B bstep c fid newfid g s,
  P9V.Refs.BindSplit.clone_seq B bstep c fid newfid g s = step B bstep (OWalk c fid newfid [] g) s.
Proof. exact P9V.Refs.BindSplit.clone_split_seq. Qed.
Print Assumptions C08_clone_split.

(** C08_clone_overtaken_refuted: without that atomicity C08_coherent is false.  PathFS, fid 1 on /n1 (inode 2),
    clone of fid 1 onto fid 2, Trenameat /n1 -> /n3 on a second connection.  Either sequential order: GetAttr
    through fid 2 answers inode 2.  Rename between the segments: GetAttr through fid 2 answers ENOENT (the object
    is alive at /n3) and the only File told about the rename is the origin's. *)
Theorem C08_clone_overtaken_refuted : forall wga g,
  P9V.Refs.BindSplit.bs_order wga g true = (0, 2) /\ P9V.Refs.BindSplit.bs_order wga g false = (0, 2) /\
  P9V.Refs.BindSplit.bs_overtaken wga g = ((ENOENT, 0), [BRenamed 1 2 3]).
Proof. exact P9V.Refs.BindSplit.clone_overtaken_refuted. Qed.
Print Assumptions C08_clone_overtaken_refuted.

(* --- round 5: static tie of the notification / clone code to the model --- *)
From Coq Require Import String.
From P9V Require gen.RefsGen Refs.GenTie.
Local Open Scope string_scope.
(** C08_code_skeleton: see C05_code_skeleton (Properties/C05.v) - the generated event skeletons of
    notifyNameChange, renameChildTo, markChildDeleted, notifyDelete, doWalk, DecRef, stop = the reviewed table. *)
Theorem C08_code_skeleton : P9V.gen.RefsGen.refs_skeleton = P9V.Refs.GenTie.expected_skeleton.
Proof. exact P9V.Refs.GenTie.refs_skeleton_reviewed. Qed.
Print Assumptions C08_code_skeleton.

(** Read off the GENERATED table: notifyNameChange tells the fidRefs registered in a node (Renamed(parent File,
    registered name), only after a successful TryIncRef) BEFORE it recurses into the child nodes - the code-side
    counterpart of C08_notified_parents_first (model: fold over pn_refs, then over pn_nodes). *)
Theorem C08_notify_parents_first_code :
  let l := P9V.Refs.GenTie.events_of "notifyNameChange" P9V.gen.RefsGen.refs_skeleton in
  map (fun e => (P9V.Refs.GenTie.ev_name e, P9V.Refs.GenTie.ev_recv e, P9V.Refs.GenTie.ev_args e, P9V.Refs.GenTie.ev_cond e)) l =
  [("forEachChildRef", "$p0", ["<fn>"], []); ("TryIncRef", "$0.0", [], []);
   ("Renamed", "$0.0.file", ["$0.0.parent.file"; "$0.1"], ["#1"]);
   ("forEachChildNode", "$p0", ["<fn>"], []); ("notifyNameChange", "", ["$3.0"; "$p1"], [])]%string.
Proof. exact P9V.Refs.GenTie.notify_parents_first. Qed.
Print Assumptions C08_notify_parents_first_code.

(** Read off the generated table: in doWalk's clone the backend copy (walkOne, nil names), the new fidRef built
    from the origin's parent, nameFor / addChild and the IncRefs are all inside the closure of ONE safelyRead
    of the origin (renameMu.R + the node's opMu.R) - the atomicity C08_clone_split assumes and
    C08_clone_overtaken_refuted shows necessary. *)
Theorem C08_clone_is_one_critical_section :
  let l := P9V.Refs.GenTie.events_of "doWalk" P9V.gen.RefsGen.refs_skeleton in
  map (fun e => (P9V.Refs.GenTie.ev_name e, P9V.Refs.GenTie.ev_recv e)) (firstn 2 (skipn 1 l)) = [("safelyRead", "$p1"); ("walkOne", "")]%string /\
  forallb (fun e => P9V.Refs.GenTie.strs_eqb (P9V.Refs.GenTie.ev_ctx e) ["fn#1:safelyRead"%string]) (firstn 8 (skipn 2 l)) = true /\
  map P9V.Refs.GenTie.ev_name (firstn 8 (skipn 2 l)) = ["walkOne"; "new fidRef"; "hasParent"; "isDeleted"; "nameFor"; "addChild"; "IncRef"; "IncRef"]%string.
Proof. exact P9V.Refs.GenTie.clone_is_one_critical_section. Qed.
Print Assumptions C08_clone_is_one_critical_section.
