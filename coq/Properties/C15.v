(** C15 -- fault containment.  Statements only; proofs in Server/NameProofs.v, Server/FaultProofs.v.

    Proved for all states / requests / tapes: a panic at any backend call index is answered EFAULT
    (nothing in any handler swallows it); a failing call of a single-call request is answered with
    ExtractErrno of the error and leaves the fid table alone; every request leaves a state from which
    the next one (any connection) is served.  For multi-call requests (walks, attach, rename, remove, clunk with xattr) the
    reply is ExtractErrno of the FIRST failing call ([C15_first_fault_reply], round 5).  NOT proved here (covered by the
    differential Server/Cases.v [c15_step] on every run, with faults injected at backend call indices of real
    histories): that the Files obtained during the failed request are closed, beyond the walkOne fallback
    ([C15_obtained_closed_partial]; needs exact counts of the fresh fidRefs on top of Server/Ledger.v);
    the table-unchanged clause IS proved for every request kind and call index ([C15_error_keeps_table]).  Lock release on abort is the lock model's (C07/C16), not this sequential one. *)
From Coq Require Import NArith List String Bool.
From P9V Require Import Base.Str gen.ConstGen gen.HandlerGen Server.State Server.Msg Server.Handlers
  Server.Summaries Server.NameProofs Server.SummaryProofs Server.FaultProofs Server.TableFrame Server.TableErr Server.Cases Server.FaultHist.
From P9V Require Refs.Model Refs.Cases Refs.LifeStep Refs.ErrPaths.
Import ListNotations.
Open Scope N_scope.

(** a backend call that panics, at ANY call index of ANY request, from any reachable state and
    with any tape: the handler panics too (nothing swallows it) and connState.handle's recover
    answers Rlerror EFAULT *)
Theorem C15_panic_reply : forall s c m tape call, names_ok s ->
  In (call, APanic) (log_of (step s c m tape)) -> reply_of (step s c m tape) = RErr linux_EFAULT.
Proof. intros s c m tape call Hs Hin. exact (panic_reply s c m tape call Hin Hs). Qed.
Print Assumptions C15_panic_reply.

(** a failing backend call of a single-call request (open, create, mkdir, symlink, link, mknod,
    unlinkat, readlink, read, write, getattr, setattr, readdir, fsync, statfs, lock, xattrwalk) is
    answered with Rlerror (ExtractErrno e): the model's reply after the guards, for every error
    value e the call may return (EOF for read/readdir excepted) *)
Theorem C15_error_reply_body : forall c m r t w v e rest,
  single_call m = true -> w_tape w = AVal v e :: rest -> is_err e = true -> tolerated m e = false ->
  exists w', body c m r t w = (Ok (inl e), w') /\ st_fids (w_st w') = st_fids (w_st w)
             /\ w_tape w' = rest /\ List.length (w_log w') = S (List.length (w_log w)).
Proof. exact body_error. Qed.
Print Assumptions C15_error_reply_body.

(** REPLY = ERRNO OF THE FIRST FAILING CALL, every request kind and call index (Server/FaultHist.v): walk of n
    components failing at component i incl. the WalkGetAttr -> ENOSYS -> Walk + GetAttr fallback, attach =
    Attach + GetAttr + walk, rename / renameat, remove, xattrwalk, lcreate, clunk with a pending xattr, read /
    readdir (EOF exempt).  [first_fault] (Server/Cases.v, the function the harness evaluates on OBSERVED logs)
    skips Close and Renamed calls, the ENOSYS of WalkGetAttr and EOF of ReadAt / Readdir.  No state invariant
    is assumed.  Hypotheses: the handler itself does not panic (a model panic -- nil parent, exhausted DecRef
    fuel, missing buffer pool -- is answered EFAULT, see the corollary), and for Tclunk / Tremove no Close of
    the request reported an error (for Tclunk a Close error takes precedence over the xattr error in the
    code; that refinement of the statement is what [c15_step] checks on every run and is not proved). *)
Theorem C15_first_fault_reply : forall s c m tape e,
  fst (handler c m (mkW s tape [])) <> Panic ->
  match m with Tclunk _ | Tremove _ => close_errors (log_of (step s c m tape)) = [] | _ => True end ->
  first_fault (log_of (step s c m tape)) = Some e ->
  reply_of (step s c m tape) = RErr (extract_errno e).
Proof. exact first_fault_reply. Qed.
Print Assumptions C15_first_fault_reply.
Theorem C15_first_fault_reply_or_efault : forall s c m tape e,
  match m with Tclunk _ | Tremove _ => close_errors (log_of (step s c m tape)) = [] | _ => True end ->
  first_fault (log_of (step s c m tape)) = Some e ->
  reply_of (step s c m tape) = RErr (extract_errno e) \/ reply_of (step s c m tape) = RErr linux_EFAULT.
Proof. exact first_fault_reply_or_efault. Qed.
Print Assumptions C15_first_fault_reply_or_efault.

(** FILES OBTAINED DURING THE FAILED REQUEST ARE CLOSED -- PARTIAL: proved for the Walk + GetAttr fallback
    (walkOne): when GetAttr on the File just obtained fails, that File is closed before the error is returned.
    MISSING: walkOne's Close on a wrong QID count, Tattach failing at GetAttr, and the whole-request statement
    (the chain of fresh fidRefs of a multi-component walk dies with `dec_ref_ walk`: needs exact reference
    counts of fresh fidRefs on top of Server/Ledger.v).  The clause is evaluated on every observed faulted
    request by [c15_step] ([created_handles] / [closed_in]); C05 proves it on its own model. *)
Theorem C15_obtained_closed_partial : forall ga from node names w e w',
  w_log w = [] ->
  walk_plain ga from node names w = (Ok (inl e), w') ->
  forall h, In h (created_handles (rev (w_log w')) (st_next_handle (w_st w))) ->
            closed_in (map fst (rev (w_log w'))) h = true.
Proof. exact obtained_closed_partial. Qed.
Print Assumptions C15_obtained_closed_partial.

(** ... THE WHOLE-REQUEST STATEMENT, on the reference-count model of C05 (Refs/Model.v, the model whose state
    carries exact reference counts; tied to the code by C05's differential with failures injected at every
    backend call index): after EVERY history and for EVERY backend, a Twalk / Twalkgetattr / Tattach that is
    answered with an error - a backend error at whichever of its calls, a wrong QID count, a non-directory
    or deleted directory on the way, EBUSY, an unknown fid - has closed, exactly once, every File the
    backend handed out during that request.  These are the only requests that can fail after obtaining a
    File (Tlcreate obtains its File from the one call that can fail; Txattrwalk borrows the origin's File).
    Hypotheses: no backend panic (the property's clause is about errors). *)
Theorem C15_obtained_closed_walk : forall B bstep ops (b : B) c fid newfid names g,
  let s := snd (Refs.Model.run B bstep ops (Refs.Model.init_state B b)) in
  let r := Refs.Model.step B bstep (Refs.Model.OWalk c fid newfid names g) s in
  Refs.Model.s_panic B s = false -> fst (fst r) <> 0%nat -> Refs.Model.s_panic B (snd r) = false ->
  forall h, (Refs.Model.s_nexth B s <= h)%nat -> (h < Refs.Model.s_nexth B (snd r))%nat ->
    Refs.Cases.close_count h (Refs.Model.s_log B (snd r)) = 1%nat.
Proof.
  intros B bstep ops b c fid newfid names g. cbv zeta.
  destruct (Refs.LifeStep.history_life B bstep ops b) as (I & K & W & H).
  intros Hp. exact (Refs.ErrPaths.walk_error_closes_all B bstep c fid newfid names g _ I K W (H Hp)).
Qed.
Print Assumptions C15_obtained_closed_walk.
Theorem C15_obtained_closed_attach : forall B bstep ops (b : B) c fid names,
  let s := snd (Refs.Model.run B bstep ops (Refs.Model.init_state B b)) in
  let r := Refs.Model.step B bstep (Refs.Model.OAttach c fid names) s in
  Refs.Model.s_panic B s = false -> fst (fst r) <> 0%nat -> Refs.Model.s_panic B (snd r) = false ->
  forall h, (Refs.Model.s_nexth B s <= h)%nat -> (h < Refs.Model.s_nexth B (snd r))%nat ->
    Refs.Cases.close_count h (Refs.Model.s_log B (snd r)) = 1%nat.
Proof.
  intros B bstep ops b c fid names. cbv zeta.
  destruct (Refs.LifeStep.history_life B bstep ops b) as (I & K & W & H).
  intros Hp. exact (Refs.ErrPaths.attach_error_closes_all B bstep c fid names _ I K W (H Hp)).
Qed.
Print Assumptions C15_obtained_closed_attach.

(** requests refused from the session state (unsafe name, unbound fid, Tauth, auth-fid attach) are
    exact no-ops of the model: same state, no backend call -- nothing a fault could act on *)
Theorem C15_refused_is_noop : forall s c m k tape,
  kind_of m = Some k ->
  (forallb safe_nameb (names_of m) = false \/
   (forallb safe_nameb (names_of m) = true /\ tlookup (c, fid1_of m) (st_fids s) = None)) ->
  exists e, step s c m tape = (s, RErr e, [], tape).
Proof.
  intros s c m k tape Hk [Hn|[Hn Hu]]; eexists; [eapply unsafe_rejected|eapply unbound_ebadf]; eauto.
Qed.

(** the fid table changes only at the fids a request may bind or unbind, whatever the backend does
    (errors and panics at any call index included): every other fid of every connection keeps its fidRef *)
Theorem C15_other_fids_untouched : forall s c m tape c' f',
  touches c m (c', f') = false ->
  tlookup (c', f') (st_fids (fst (fst (fst (step s c m tape))))) = tlookup (c', f') (st_fids s).
Proof. exact other_fids_untouched. Qed.
Print Assumptions C15_other_fids_untouched.

(** after an ERROR reply (any errno other than the EFAULT of a panic), at whatever backend call index the
    error struck and for every request kind (walk of n components failing at component i, attach, lcreate,
    rename/renameat, xattrwalk, ...), the fid table is exactly as before the request *)
Theorem C15_error_keeps_table : forall s c m tape e,
  unbinds m = false -> snd (fst (fst (step s c m tape))) = RErr e -> e <> linux_EFAULT ->
  st_fids (fst (fst (fst (step s c m tape)))) = st_fids s.
Proof. exact error_keeps_table. Qed.
Print Assumptions C15_error_keeps_table.
(** ... Tclunk still unbinds its fid, whatever it reports (unless it panicked before DeleteFID) *)
Theorem C15_clunk_unbinds : forall s c f tape,
  snd (fst (fst (step s c (Tclunk f) tape))) <> RErr linux_EFAULT ->
  tlookup (c, f) (st_fids (fst (fst (fst (step s c (Tclunk f) tape))))) = None.
Proof. exact clunk_unbinds. Qed.

(** continued service: whatever happened before (errors, panics), the next request is answered
    from a state satisfying the invariant again -- on any connection *)
Theorem C15_continued_service : forall h c m tape,
  names_ok (state_of (step (NameProofs.run init_state h) c m tape)).
Proof. intros. apply step_inv, names_ok_reachable. Qed.

(** ExtractErrno: an errno anywhere in the wrap/join tree wins over os.Err* sentinels; wrapping does not matter *)
Theorem C15_extract_errno_first : forall pre n post,
  first_linux pre = None -> extract_errno (pre ++ LLinux n :: post)%list = n.
Proof. exact extract_linux_first. Qed.

(** tie to the source: connState.handle recovers and answers EFAULT; every LookupFID is released by a deferred DecRef *)
Theorem C15_source_recover :
  find (fun e => String.eqb (fst e) "connState.handle") handler_traces_alpha =
  Some ("connState.handle"%string,
        ["defer:func"; "if:_v2 == nil"; "recover"; "seterr:_v2:EFAULT"; "endif"; "enddefer";
         "if:_v5"; "delegate:_v4.handle(_v0)"; "else"; "seterr:_v2:ENOSYS"; "endif"; "return:"]%string).
Proof. exact source_recover. Qed.
Theorem C15_source_lookups_deferred : forallb (fun e => lookups_deferred (snd e)) handler_traces_alpha = true.
Proof. exact HandlerGen_lookups_deferred. Qed.

(** locks: every Lock/RLock site of handlers.go, path_tree.go and the fid-table functions of server.go
    is released by a deferred unlock, or has no call that can fail between Lock and Unlock; so a
    request that ends in a panic (any backend call, any index) holds nothing afterwards *)
Theorem C15_locks_released : locks_released = true /\ lock_sites_alpha = lock_sites_expected.
Proof. split; [exact HandlerGen_locks_released|exact HandlerGen_lock_sites]. Qed.

(** satisfiable: a panic in the second component of a walk *)
Example C15_example :
  let s := state_of (step init_state 0 (Tattach 0 p9_noFID "u" "" 0) [AVal v0 []; AVal (mkV [1] true p9_ModeDirectory 0 []) []]) in
  let r := step s 0 (Twalk 0 1 ["d1"; "f1"]%string) [AVal (mkV [2] true p9_ModeDirectory 0 []) []; APanic] in
  reply_of r = RErr linux_EFAULT /\ tlookup (0, 1) (st_fids (state_of r)) = None.
Proof. vm_compute. split; reflexivity. Qed.
