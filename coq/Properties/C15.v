(** C15 -- fault containment.  Statements only; proofs in Server/NameProofs.v. *)
From Coq Require Import NArith List String Bool.
From P9V Require Import Base.Str gen.ConstGen gen.HandlerGen Server.State Server.Msg Server.Handlers
  Server.Summaries Server.NameProofs Server.SummaryProofs.
Import ListNotations.
Open Scope N_scope.

(** a backend call that panics, at ANY call index of ANY request, from any reachable state and
    with any tape: the handler panics too (nothing swallows it) and connState.handle's recover
    answers Rlerror EFAULT *)
Theorem C15_panic_reply : forall s c m tape call, names_ok s ->
  In (call, APanic) (log_of (step s c m tape)) -> reply_of (step s c m tape) = RErr linux_EFAULT.
Proof. intros s c m tape call Hs Hin. exact (panic_reply s c m tape call Hin Hs). Qed.
Print Assumptions C15_panic_reply.

(** continued service: whatever happened before (errors, panics), the next request is answered
    from a state satisfying the invariant again -- on any connection *)
Theorem C15_continued_service : forall h c m tape,
  names_ok (state_of (step (run init_state h) c m tape)).
Proof. intros. apply step_inv, names_ok_reachable. Qed.

(** tie to the source: every LookupFID is released by a deferred DecRef *)
Theorem C15_source_lookups_deferred : forallb (fun e => lookups_deferred (snd e)) handler_traces = true.
Proof. exact HandlerGen_lookups_deferred. Qed.

(** satisfiable: a panic in the second component of a walk *)
Example C15_example :
  let s := state_of (step init_state 0 (Tattach 0 p9_noFID "u" "" 0) [AVal v0 []; AVal (mkV [1] true p9_ModeDirectory 0 []) []]) in
  let r := step s 0 (Twalk 0 1 ["d1"; "f1"]%string) [AVal (mkV [2] true p9_ModeDirectory 0 []) []; APanic] in
  reply_of r = RErr linux_EFAULT /\ tlookup (0, 1) (st_fids (state_of r)) = None.
Proof. vm_compute. split; reflexivity. Qed.
