(** C14 — Rflush only after the flushed request has stopped executing.  Statements only;
    proofs in Loop/Proofs.v over the interleaving model Loop/Model.v (all frame lists, all
    reachable states, any number of flushes, chained flushes, flushes naming each other). *)
From Coq Require Import NArith List Bool Arith Relations String.
From P9V Require Import Loop.Model Loop.Proofs Loop.Tie Loop.Variants gen.LoopGen.
Import ListNotations.
Open Scope list_scope.

(** State form: whenever the handler of a Tflush (frame i, OldTag = old) has returned — in
    particular whenever its Rflush is on the wire — no request received BEFORE it with tag
    old is inside handle (neither in a backend call, nor between calls, nor before ClearTag). *)
Theorem C14_after_done_state : forall inp s i j t old k, reachable inp s ->
  nth_error inp i = Some (FReq t (KFlush old)) -> j < i -> nth_error inp j = Some (FReq old k) ->
  returned (pc s i) = true -> running (pc s j) = false.
Proof. intros inp s i j t old k R. apply flush_after_done. now apply reachable_Inv. Qed.
Print Assumptions C14_after_done_state.

(** History form, as the property reads: if request j (tag old) had been accepted — e.g. was
    executing inside a backend call — at some point s1, and later (s2) the Rflush of a flush
    i > j naming old is written, then j has passed ClearTag at s2, i.e. its handle returned,
    and at every later state s3 no backend call on its behalf is running or starts. *)
Theorem C14_after_done : forall inp s1 s2 i j t old k r, reachable inp s1 -> steps inp s1 s2 ->
  nth_error inp i = Some (FReq t (KFlush old)) -> j < i -> nth_error inp j = Some (FReq old k) ->
  pc s1 j = RBack ->
  In (i, r) (replies s2) \/ returned (pc s2 i) = true ->
  cleared (pc s2 j) = true /\
  forall s3, steps inp s2 s3 -> cleared (pc s3 j) = true /\ pc s3 j <> RBack /\ (forall w, pc s3 j <> RRun w).
Proof.
  intros inp s1 s2 i j t old k r R Hs Hfi Hlt Hfj Hb Hw.
  pose proof (reachable_Inv inp s1 R) as I1.
  eapply (flush_after_done_steps inp s1 s2 i j); eauto.
  - rewrite Hb. reflexivity.
  - destruct Hw as [Hin|Hr]; [|exact Hr].
    pose proof (steps_Inv inp s1 s2 I1 Hs) as I2. apply (I_rep inp s2 I2) in Hin. rewrite Hin. reflexivity.
Qed.
Print Assumptions C14_after_done.

(** A flush of its own tag, of an idle tag or of an already answered tag (no earlier request
    with that tag is inside handle) can return at once, whatever else is blocked. *)
Theorem C14_at_once : forall inp s i w t old, reachable inp s ->
  pc s i = RRun w -> nth_error inp i = Some (FReq t (KFlush old)) ->
  (old = t \/ forall j k, j < i -> nth_error inp j = Some (FReq old k) -> running (pc s j) = false) ->
  exists s', exec inp (LPass i) s = Some s'.
Proof. intros inp s i w t old R. apply flush_at_once. now apply reachable_Inv. Qed.
Print Assumptions C14_at_once.

(** ... and it IS answered at once: from that state the Rflush gets written by server steps alone
    (no backend call has to return, no other request has to move except the holder of sendMu). *)
Theorem C14_at_once_answered : forall inp s i w t old, reachable inp s ->
  pc s i = RRun w -> nth_error inp i = Some (FReq t (KFlush old)) ->
  (old = t \/ forall j k, j < i -> nth_error inp j = Some (FReq old k) -> running (pc s j) = false) ->
  exists ls s', forallb progress_label ls = true /\ run inp ls s = Some s' /\ send_over s' i rflush_reply /\
                (wbroken s = false -> In (i, rflush_reply) (replies s')).
Proof.
  intros inp s i w t old R Hp Hf Hc. pose proof (reachable_Inv inp s R) as I.
  destruct (flush_completes inp s i w t old I Hp Hf Hc) as (ls & s' & H1 & H2 & H3 & H4).
  exists ls, s'. repeat split; auto. intros Hb.
  apply (send_over_unbroken inp s' i _ (run_Inv inp ls s s' I H2)); [congruence|exact H3].
Qed.
Print Assumptions C14_at_once_answered.

(** A flush waits only for a request received before it: the wait-for relation is acyclic in
    every reachable state (two flushes naming each other cannot block each other). *)
Theorem C14_waits_only_for_earlier : forall inp s i c, reachable inp s -> waits_for s i c -> c < i.
Proof. intros inp s i c R. apply (waits_for_lt inp). now apply reachable_Inv. Qed.
Theorem C14_wait_acyclic : forall inp s i, reachable inp s -> ~ clos_trans nat (waits_for s) i i.
Proof. intros inp s i R. apply (waits_acyclic inp). now apply reachable_Inv. Qed.
Print Assumptions C14_wait_acyclic.

(** Every flush is answered unless (transitively) waiting for a backend call that has not
    returned: C06_progress specialised. *)
Theorem C14_flush_answered : forall inp s i t old, reachable inp s ->
  nth_error inp i = Some (FReq t (KFlush old)) -> final (pc s i) = false -> ~ waits_back s i ->
  exists l s', progress_label l = true /\ exec inp l s = Some s'.
Proof. intros inp s i t old R _. apply progress_at. now apply reachable_Inv. Qed.

(* NOTE: in Loop/Model.v itself "never cancels, duplicates or suppresses" and "no backend call on its behalf outside handle"
   hold because the model has no step that could do otherwise; C14_no_effect below is therefore C06 restated.  The
   statements WITH content are C14_flushed_request_answered / C14_no_call_outside_handler / C14_detached_call_refutes /
   C14_suppressed_reply_refutes further down (Loop/Variants.v: the model widened so that detaching a backend call and
   skipping a flushed request's reply are expressible, proved unreachable for the flag values the code has, and proved
   fatal otherwise); the flag values are tied to the source by C14_tie_no_background_work (no go statement / timer /
   worker hand-off in package p9 and the module packages it imports, except the receiver hand-off and the accept loop),
   C14_tie_reply_path (ClearTag, lock, send, unlock, put, return after handle, under no condition) and C14_tie_tflush_handle
   (wait on the captured channel; return Rflush).  The harness checks the same on the observed frames and backend log:
   exactly one reply of its own type or Rlerror for the flushed request ([solicited]); every File method records enter
   and exit, at each observed Rflush none on behalf of the flushed request is running, none begins later, and the Rflush
   does not precede the release of the gate the request is held at - event order, no timing. *)
(** No effect on the flushed request: it still gets exactly one reply, of its own type —
    the flush neither cancels, duplicates nor suppresses it (its steps never consult a later
    request, and the reply log has at most one entry per request). *)
Theorem C14_no_effect : forall inp s j, reachable inp s ->
  NoDup (map fst (replies s)) /\
  (forall r, In (j, r) (replies s) <-> pc s j = RDone r) /\
  (forall r, pc s j = RDone r -> exists f, nth_error inp j = Some f /\ reply_ok f r) /\
  (final (pc s j) = false -> ~ waits_back s j -> exists l s', progress_label l = true /\ exec inp l s = Some s').
Proof.
  intros inp s j R. pose proof (reachable_Inv inp s R) as I. split; [apply I|]. split; [apply I|]. split.
  - intros r. now apply done_reply_ok.
  - now apply progress_at.
Qed.
Print Assumptions C14_no_effect.

(** The same clauses as statements with content, on the model widened by what it cannot otherwise express
    (Loop/Variants.v: ghost lists of backend calls running outside their handler, of requests captured by a flush, of
    skipped replies; flags v_guard / v_detach / v_suppress).  With the flags as in the code ([faithful] - tied by
    C14_tie_capture, C14_tie_no_background_work, C14_tie_reply_path) the widened model has exactly the behaviours of
    Loop/Model.v, no backend call ever runs outside its request's handler, and a request that a Tflush captured is
    answered exactly once, with its own kind of reply, whenever its goroutine is through and the peer still reads -
    for all inputs and interleavings. *)
Theorem C14_flushed_request_answered : forall inp vs c, vreachable faithful inp vs -> In c (flushed vs) ->
  final (pc (base vs) c) = true -> wbroken (base vs) = false ->
  exists r, In (c, r) (replies (base vs)) /\ NoDup (map fst (replies (base vs))) /\
            exists f, nth_error inp c = Some f /\ reply_ok f r.
Proof. exact faithful_flushed_answered. Qed.
Print Assumptions C14_flushed_request_answered.
Theorem C14_no_call_outside_handler : forall inp vs, vreachable faithful inp vs ->
  reachable inp (base vs) /\ det vs = [] /\ skipped vs = [] /\ (forall c, In c (flushed vs) -> accepted (pc (base vs) c) = true).
Proof. exact faithful_sound. Qed.
Print Assumptions C14_no_call_outside_handler.
(** Each of the two tied facts is needed: if a handler can leave a backend call running (a go statement, timer or worker
    hand-off anywhere below it; seeded C14-m4, audit HIGH 1), an Rflush is written while a call made on behalf of the
    flushed request still runs; if the reply path may skip the send for a flushed request (seeded C14-m3), the flushed
    request ends unanswered although the peer reads. *)
Theorem C14_detached_call_refutes : exists vs,
  vreachable v_detaching [FReq 1 KOp; FReq 2 (KFlush 1)] vs /\
  In (1, rflush_reply) (replies (base vs)) /\ In 0 (det vs) /\ cleared (pc (base vs) 0) = true.
Proof. exact detached_call_outlives_rflush. Qed.
Theorem C14_suppressed_reply_refutes : exists vs,
  vreachable v_suppressing [FReq 1 KOp; FReq 2 (KFlush 1)] vs /\
  (forall i, i < 2 -> final (pc (base vs) i) = true) /\ replies (base vs) = [(1, rflush_reply)] /\
  wbroken (base vs) = false /\ In 0 (flushed vs) /\ In 0 (skipped vs).
Proof. exact suppressed_reply_never_sent. Qed.
Print Assumptions C14_suppressed_reply_refutes.
Theorem C14_tie_reply_path : reply_path_unconditional = true.
Proof. exact tie_reply_path_unconditional. Qed.

(** Ties to the source. *)
Theorem C14_tie_capture : capture_under_recvMu = true /\ capture_guarded = true /\
  starttag_before_capture = true /\ capture_before_spawn = true /\ wait_set_only_in_handleRequest = true.
Proof. exact (conj tie_capture_under_recvMu (conj tie_capture_guarded (conj tie_starttag_before_capture (conj tie_capture_before_spawn tie_wait_set_only_in_handleRequest)))). Qed.
Theorem C14_tie_tflush_handle : body_tflush_handle = ["if t.wait != nil { <-t.wait }"; "return &rflush{}"]%string.
Proof. exact tie_tflush_handle. Qed.
Theorem C14_tie_cleartag : cleartag_after_handle = true /\ cleartag_before_send = true /\
  body_connState_ClearTag = ["cs.tagMu.Lock()"; "defer cs.tagMu.Unlock()"; "v0, v1 := cs.tags[v2]"; "if !v1 { panic(""unused tag cleared"") }"; "delete(cs.tags, v2)"; "close(v0)"]%string /\
  body_connState_TagDone = ["cs.tagMu.Lock()"; "defer cs.tagMu.Unlock()"; "v0, v1 := cs.tags[v2]"; "if !v1 { return nil }"; "return v0"]%string.
Proof. exact (conj tie_cleartag_after_handle (conj tie_cleartag_before_send (conj tie_ClearTag tie_TagDone))). Qed.
(** every backend call made on behalf of a request happens inside its handle: no non-test file of package p9
    (nor of the module packages it imports: internal, linux, vecnet) starts a goroutine except the receiver
    hand-off and the accept loop, none uses a timer, and the only channel sends are the client's completion
    signals and the message pool - so a handler cannot detach work, directly or through a helper *)
Theorem C14_tie_no_background_work :
  go_sites = ["server.go:connState.handleRequest"; "server.go:Server.ServeContext"; "server.go:Server.ServeContext"]%string /\ timer_sites = [] /\
  chan_send_sites = ["client.go:Client.handleOne"; "client.go:Client.handleOne"; "client.go:Client.waitAndRecv"; "messages.go:registry.put"]%string.
Proof. exact (conj tie_go_sites (conj tie_timer_sites tie_chan_send_sites)). Qed.
Theorem C14_tie_events : handleRequest_events = expected_events.
Proof. exact tie_events. Qed.

(** Non-vacuity: request 0 (tag 1) blocked in the backend, flush 1 (tag 2, old 1) waits, flush 2
    (tag 3, old 2: chained) waits for flush 1, flush 3 names its own tag and is answered at once. *)
Definition ex_inp : list frame := [FReq 1 KOp; FReq 2 (KFlush 1); FReq 3 (KFlush 2); FReq 4 (KFlush 4)].
Definition ex_recv (i : nat) : list label := [LInc; LRecv; LStart i; LCapture i; LSpawn i rflush_reply].
Definition ex_send (i : nat) : list label := [LClear i; LLock i; LChunk i; LUnlock i].
Definition ex_run1 : list label :=
  ex_recv 0 ++ [LEnter 0] ++ ex_recv 1 ++ ex_recv 2 ++ ex_recv 3 ++ [LPass 3] ++ ex_send 3.
Example C14_ex_blocked : exists s, run ex_inp ex_run1 init = Some s /\
  pc s 0 = RBack /\ pc s 1 = RRun (Some 0) /\ pc s 2 = RRun (Some 1) /\ replies s = [(3, rflush_reply)] /\
  exec ex_inp (LPass 1) s = None /\ exec ex_inp (LPass 2) s = None.
Proof. eexists. vm_compute. repeat split. Qed.
Example C14_ex_released : exists s,
  run ex_inp (ex_run1 ++ [LExit 0; LReturn 0 (mkReply RMatch 1); LClear 0; LPass 1] ++ ex_send 1 ++ [LPass 2] ++ ex_send 2 ++ [LLock 0; LChunk 0; LChunk 0; LUnlock 0]) init = Some s /\
  replies s = [(3, rflush_reply); (1, rflush_reply); (2, rflush_reply); (0, mkReply RMatch 1)].
Proof. eexists. vm_compute. repeat split. Qed.
