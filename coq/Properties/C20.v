(** C20 — QID identity and mode/type mapping are stable and injective.
    Only statements; proofs in Fsx/QidArith.v, QidConc.v, MapperConc.v,
    QidMapProofs.v, Mode.v. *)
From Coq Require Import NArith String List Bool.
From P9V Require Import Base.Str gen.ConstGen gen.FsGen20 Fsx.Readdir Fsx.Qid Fsx.QidArith Fsx.QidConc Fsx.MapperConc
     Fsx.QidMap Fsx.QidMapProofs Fsx.Mode Fsx.ModeProofs Fsx.LocalQidStable Fsx.LocalInfo Fsx.FsGenSpec20.
Import ListNotations.
Open Scope list_scope.
Open Scope N_scope.

(** localfs, compact encoding: injective on uint64 pairs, and below 2^63 *)
Theorem C20_likely_inj : forall d i d' i' q,
  d < two64 -> i < two64 -> d' < two64 -> i' < two64 ->
  encodeLikely d i = Some q -> encodeLikely d' i' = Some q -> d = d' /\ i = i'.
Proof. exact encodeLikely_inj. Qed.
Print Assumptions C20_likely_inj.

Theorem C20_likely_below : forall d i q, d < two64 -> i < two64 -> encodeLikely d i = Some q -> q < 2 ^ 63.
Proof. exact encodeLikely_below. Qed.
Print Assumptions C20_likely_below.

(** localfs, fallback table, every interleaving: [keys] are the unlikely pairs
    looked up by any number of concurrent localToQid calls, [sched] and [sched2]
    any schedules of their Load / Add / LoadOrStore steps.  A result that was
    returned stays; the same pair gets the same path, different pairs different
    paths; every path is above 2^63, hence never a compact encoding. *)
Theorem C20_fallback : forall keys sched sched2 i j k k' r r',
  N.of_nat (length sched + length sched2) < 2 ^ 63 ->     (* fewer than 2^63 steps, hence allocations: nextQid (uint64, modelled with wrap) stays below 2^64 *)
  let s := frun (finit keys) sched in
  let s2 := frun s sched2 in
  nth_error (f_thr s) i = Some (FDone k r) ->
  nth_error (f_thr s2) j = Some (FDone k' r') ->
  nth_error (f_thr s2) i = Some (FDone k r) /\ (k = k' <-> r = r') /\ 2 ^ 63 < r /\ 2 ^ 63 < r'.
Proof. exact fallback_all_interleavings. Qed.
Print Assumptions C20_fallback.

(** localfs, the whole localToQid on every sequential history [h1], [h2] of
    lookups of any pairs (likely or not): one path per pair for good, and
    distinct pairs never share a path (compact or allocated) *)
Theorem C20_local_stable_injective : forall h1 h2 d i d' i' r r' t1 n1 t2 n2 t3 n3 t4 n4,
  N.of_nat (length h1 + length h2) + 2 < 2 ^ 63 ->        (* fewer than 2^63 calls *)
  d < two64 -> i < two64 -> d' < two64 -> i' < two64 ->
  lrun [] next0 h1 = (t1, n1) -> local_to_qid t1 n1 d i = (r, t2, n2) ->
  lrun t2 n2 h2 = (t3, n3) -> local_to_qid t3 n3 d' i' = (r', t4, n4) ->
  ((d, i) = (d', i') <-> r = r').
Proof. exact local_to_qid_stable_injective. Qed.
Print Assumptions C20_local_stable_injective.

(** the uninterleaved function is the three steps of the interleaving model *)
Theorem C20_local_steps : forall t n d i, encodeLikely d i = None ->
  forall thr0, let s := mkF t n (FStart (d, i) :: thr0) in
  let s' := frun s [0%nat; 0%nat; 0%nat] in
  let '(r, t', n') := local_to_qid t n d i in
  f_tbl s' = t' /\ f_next s' = n' /\ nth_error (f_thr s') 0 = Some (FDone (d, i) r).
Proof. exact local_to_qid_is_run. Qed.
Print Assumptions C20_local_steps.

(** qids.Mapper (staticfs, composefs): every interleaving of concurrent QIDFor
    calls on any Mappers of one generator, each call being
    Lock / lookup / NewPath / store / Unlock steps: a returned path stays, the
    same (Mapper, source path) gets the same path, different ones different
    paths, never path 0 *)
Theorem C20_mapper : forall reqs sched sched2 i j m k r m' k' r',
  N.of_nat (length sched + length sched2) < two64 ->      (* fewer than 2^64 steps: PathGenerator.uids (uint64, modelled with wrap) does not wrap *)
  let s := crun true (cinit reqs) sched in
  let s2 := crun true s sched2 in
  nth_error (c_thr s) i = Some (MDone m k r) ->
  nth_error (c_thr s2) j = Some (MDone m' k' r') ->
  nth_error (c_thr s2) i = Some (MDone m k r) /\ ((m, k) = (m', k') <-> r = r') /\ 0 < r /\ 0 < r'.
Proof. exact mapper_all_interleavings. Qed.
Print Assumptions C20_mapper.

(** the lock discipline: never two calls between Lock and Unlock of one Mapper
    (so [paths] is never accessed concurrently) *)
Theorem C20_mapper_mutex : forall reqs sched i j p p' m,
  N.of_nat (length sched) < two64 ->
  let s := crun true (cinit reqs) sched in
  nth_error (c_thr s) i = Some p -> nth_error (c_thr s) j = Some p' ->
  holds p = Some m -> holds p' = Some m -> i = j.
Proof. exact mapper_mutex. Qed.
Print Assumptions C20_mapper_mutex.

(** sequential histories, Mappers on several generators, type and version kept *)
Theorem C20_mapper_seq : forall h1 h2 m q r s1 m' q' r' s2,
  N.of_nat (length h1 + length h2) + 2 < two64 ->         (* fewer than 2^64 QIDFor calls *)
  qid_for (run_history m_init h1) m q = (r, s1) ->
  qid_for (run_history s1 h2) m' q' = (r', s2) ->
  (m' = m -> q_path q' = q_path q -> q_path r' = q_path r) /\
  (fst m' = fst m -> q_path r' = q_path r -> m' = m /\ q_path q' = q_path q) /\
  0 < q_path r /\ q_type r = q_type q /\ q_version r = q_version q.
Proof. exact mapper_stable_injective. Qed.
Print Assumptions C20_mapper_seq.

(** what the bounds are for: at the bound the uint64 counters wrap, and a wrapped
    fallback counter hands out paths below 2^63 (inside the compact range) *)
Theorem C20_wrap_needs_bound : inc64 (two64 - 1) = 0 /\ fst (fst (local_to_qid [] (two64 - 1) 0x100000801 7)) = 0.
Proof. vm_compute. split; reflexivity. Qed.
Print Assumptions C20_wrap_needs_bound.

(** what the fixes repaired *)
Theorem C20_mapper_unlocked_refuted :
  let s := crun false (cinit [(0%nat, 5); (0%nat, 5)]) [0; 0; 1; 1; 0; 1; 0; 1; 0; 1]%nat in
  nth_error (c_thr s) 0 = Some (MDone 0 5 1) /\ nth_error (c_thr s) 1 = Some (MDone 0 5 2).
Proof. exact mapper_unlocked_refuted. Qed.
Print Assumptions C20_mapper_unlocked_refuted.
Theorem C20_ptrkey_refuted :
  let '(r1, t1, n1) := local_to_qid_ptrkey [] next0 0x100000801 7 in
  let '(r2, _, _) := local_to_qid_ptrkey t1 n1 0x100000801 7 in
  r1 <> r2.
Proof. exact ptrkey_refuted. Qed.
Print Assumptions C20_ptrkey_refuted.
(** the miss path must look again atomically with the insertion (LoadOrStore): a table that is read under a read lock
    and then written under the write lock WITHOUT a second look gives two concurrent first lookups of one pair two
    paths (threads 0 and 1), and every later lookup (thread 2) the second of them *)
Theorem C20_unchecked_store_refuted :
  let k := (0x100000801, 7) in
  let s := frun_unchecked (finit [k; k; k]) [0; 1; 0; 1; 2]%nat in
  f_thr s = [FDone k (next0 + 1); FDone k (next0 + 2); FDone k (next0 + 2)].
Proof. exact unchecked_store_refuted. Qed.
Print Assumptions C20_unchecked_store_refuted.

(** modes: for all 7 valid types and all 12-bit permission values (4096, incl.
    setuid, setgid, sticky) OSMode then ModeFromOS is the identity *)
Theorem C20_mode_roundtrip : forall t p, In t valid_types -> p < 4096 ->
  ModeFromOS (OSMode (N.lor t p)) = N.lor t p.
Proof. exact mode_roundtrip. Qed.
Print Assumptions C20_mode_roundtrip.

(** and the QID type is the one the table in p9.go gives the file type, before
    and after the round trip; for any mode word it depends on the type bits only *)
Theorem C20_qidtype : forall t p, In t valid_types -> p < 4096 ->
  FileType (N.lor t p) = t /\ QIDType (N.lor t p) = qidtype_of_type t /\
  QIDType (ModeFromOS (OSMode (N.lor t p))) = QIDType (N.lor t p).
Proof. exact qidtype_matches. Qed.
Print Assumptions C20_qidtype.
Theorem C20_qidtype_any : forall m, QIDType m = qidtype_of_type (FileType m).
Proof. exact qidtype_of_filetype. Qed.
Print Assumptions C20_qidtype_any.

(** localfs, at the use site (Local.info): for every kind of file (7 types) and every
    permission word, the FileMode derived from the (l)stat result is the st_mode
    itself — what GetAttr reports as Attr.Mode — and the QID type info() computes
    is the one of that file type *)
Theorem C20_info_type : forall t p, In t valid_types -> p < 4096 ->
  ModeFromOS (os_mode_of_stat (N.lor t p)) = N.lor t p /\
  info_type (N.lor t p) = qidtype_of_type t /\ info_type (N.lor t p) = QIDType (N.lor t p).
Proof. exact stat_mode_and_type. Qed.
Print Assumptions C20_info_type.

(** and info() is what Readdir, Walk and GetAttr hand out, unchanged and the same at every call *)
Theorem C20_info_use_sites : forall t0 n0 s qe t1 n1 h1 t2 n2 qw t3 n3 h2 t4 n4 qg t5 n5,
  local_entry_qid t0 n0 s = (qe, t1, n1) -> info_run t1 n1 h1 = (t2, n2) ->
  local_walk_qid t2 n2 s = (qw, t3, n3) -> info_run t3 n3 h2 = (t4, n4) ->
  local_getattr_qid t4 n4 s = (qg, t5, n5) ->
  qw = qe /\ qg = qe /\ q_type qe = info_type (st_mode s).
Proof. exact local_readdir_walk_getattr_agree. Qed.
Print Assumptions C20_info_use_sites.

(** the hand models of Mode.v are the decision tables go2coq reads from p9.go
    (ModeFromOS, OSMode, QIDType), for every mode word *)
Theorem C20_mode_tables : forall w,
  ModeFromOS w = ModeFromOS_tbl w /\ OSMode w = OSMode_tbl w /\ QIDType w = QIDType_tbl w.
Proof. intros w. split; [apply ModeFromOS_is_table|split; [apply OSMode_is_table|apply QIDType_is_table]]. Qed.
Print Assumptions C20_mode_tables.

(** the source the models transcribe is the one in the tree; Mapper.paths is only
    touched by functions that start with m.mu.Lock(); defer m.mu.Unlock() *)
Theorem C20_source_shape : fs_qid_shape_ok = true.
Proof. exact qid_shape_ok. Qed.
Print Assumptions C20_source_shape.
Theorem C20_paths_guarded : fs_mapper_paths_guarded = true.
Proof. reflexivity. Qed.
Print Assumptions C20_paths_guarded.

(** non-vacuity *)
Example C20_ex_likely :
  encodeLikely 0x801 12345 = Some (12345 + 1 * 2 ^ 39 + 8 * 2 ^ 51) /\ encodeLikely 0x1000000 1 = None.
Proof. vm_compute. split; reflexivity. Qed.
Example C20_ex_fallback :
  let s := frun (finit [(0x100000801, 7); (0x100000801, 7); (5, 2 ^ 40)]) [0; 1; 2; 0; 1; 2; 1; 0; 2]%nat in
  f_thr s = [FDone (0x100000801, 7) (2 ^ 63 + 2); FDone (0x100000801, 7) (2 ^ 63 + 2); FDone (5, 2 ^ 40) (2 ^ 63 + 3)].
Proof. vm_compute. reflexivity. Qed.
Example C20_ex_mapper :
  let s := crun true (cinit [(0%nat, 5); (0%nat, 5); (1%nat, 5)]) [0; 1; 2; 0; 2; 1; 0; 2; 0; 2; 0; 2; 1; 1; 1; 1]%nat in
  c_thr s = [MDone 0 5 1; MDone 0 5 1; MDone 1 5 2].
Proof. vm_compute. reflexivity. Qed.
Example C20_ex_mode : ModeFromOS (OSMode (N.lor p9_ModeDirectory 4077)) = N.lor p9_ModeDirectory 4077
                      /\ In p9_ModeDirectory valid_types.
Proof. vm_compute. split; [reflexivity|tauto]. Qed.
