(** C12 — version and msize negotiation.  Only statements, each closed by [exact]
    of a lemma proved in Fs/VersionProofs.v, followed by Print Assumptions. *)
From Coq Require Import NArith String List.
From P9V Require Import Base.Str gen.ConstGen Fs.Version Fs.VersionProofs Fs.VersionDigits Fs.VersionText Fs.VersionPrims gen.VersionGen Fs.VersionTie.
Import ListNotations.
Open Scope string_scope.
Open Scope N_scope.

(** A Tversion always gets an Rversion (the model's reply type has no error
    alternative); it is ("unknown", 0) when msize is 0 or the string is not a
    9P2000.L / 9P2000.L.Google.N version ... *)
Theorem C12_unknown : forall msize s,
  msize = 0 \/ (forall n, parse_version s <> Some (V9P2000L, n)) ->
  tversion_handle msize s = ((0, "unknown"), None).
Proof. exact tversion_unknown. Qed.
Print Assumptions C12_unknown.

(** ... otherwise msize = min(requested, 4 MiB), version = canonical spelling of
    min(N, 7), and that is what the connection state records. *)
Theorem C12_ok : forall msize s n,
  msize <> 0 -> parse_version s = Some (V9P2000L, n) ->
  tversion_handle msize s =
    ((N.min msize p9_maximumLength, version_string V9P2000L (N.min n p9_highestSupportedVersion)),
     Some (N.min msize p9_maximumLength, N.min n p9_highestSupportedVersion)).
Proof. exact tversion_ok. Qed.
Print Assumptions C12_ok.

(** which strings are 9P2000.L versions: exactly "9P2000.L" and
    "9P2000.L.Google.<decimal below 2^32>" (any number of leading zeros; no
    sign, underscore or blank; other dialects have number 0 and are refused) *)
Theorem C12_dotL_shape : forall s n,
  parse_version s = Some (V9P2000L, n) ->
  (s = "9P2000.L" /\ n = 0) \/
  (exists d, s = "9P2000.L.Google." ++ d /\ parse_uint32 d = Some n).
Proof. exact parse_version_dotL_shape. Qed.
Print Assumptions C12_dotL_shape.

Theorem C12_other_dialects : forall s b n,
  parse_version s = Some (b, n) -> b <> V9P2000L -> n = 0 /\ s = base_string b.
Proof. exact parse_version_bases. Qed.
Print Assumptions C12_other_dialects.

(** the decimal part, read elementarily: non-empty, digits '0'..'9' only, left-to-right value, below 2^32 *)
Theorem C12_number_is_digits : forall d, parse_uint32 d = parse_uint32_spec d.
Proof. exact parse_uint32_is_spec. Qed.
Print Assumptions C12_number_is_digits.

Theorem C12_number_range : forall d n, parse_uint32 d = Some n -> n < 4294967296.
Proof. exact parse_uint32_range. Qed.
Theorem C12_no_sign : forall d, parse_uint32 (String "+" d) = None /\ parse_uint32 (String "-" d) = None.
Proof. intros d; split; [exact (parse_uint32_plus d)|exact (parse_uint32_minus d)]. Qed.
Theorem C12_leading_zero : forall d n, parse_uint32 d = Some n -> parse_uint32 (String "0" d) = Some n.
Proof. exact parse_uint32_leading_zero. Qed.
Print Assumptions C12_leading_zero.

(** canonical spelling parses back to the same number, for every 32-bit N; plain "9P2000.L" for 0 *)
Theorem C12_canon : forall n, n < 4294967296 ->
  parse_version (version_string V9P2000L n) = Some (V9P2000L, n).
Proof. exact canon_roundtrip. Qed.
Print Assumptions C12_canon.
Theorem C12_canon_zero : version_string V9P2000L 0 = "9P2000.L".
Proof. exact canon_zero. Qed.

(** whatever the request, the reply's version string is "unknown" with msize 0,
    or parses back to exactly the number the server now uses *)
Theorem C12_reply_parses_back : forall msize s m v st,
  tversion_handle msize s = ((m, v), st) ->
  (v = "unknown" /\ m = 0 /\ st = None) \/
  (exists n, st = Some (m, n) /\ parse_version v = Some (V9P2000L, n) /\
             n <= p9_highestSupportedVersion /\ m = N.min msize p9_maximumLength /\ m <> 0).
Proof. exact tversion_reply_parses. Qed.
Print Assumptions C12_reply_parses_back.

(** the server clause read off the text, independently of the model's parser and printer ([handle_clause]: the request
    names a .L version iff it is "9P2000.L" or the Google prefix + digits with value below 2^32 by the elementary fold;
    the reply's version must be CANONICAL as a string — plain "9P2000.L" or prefix + digits not starting with '0' — and
    name min(N, highest); msize = min(requested, maximum); "unknown"/0 otherwise).  This predicate is what the check
    evaluates on every observed Tversion/Rversion pair.  The two readings of the grammar coincide for every string, the
    model's reply satisfies the clause for every request, and whatever satisfies the clause is pinned down as stated. *)
Theorem C12_grammar_readings_agree : forall s,
  dotL_number s = match parse_version s with Some (V9P2000L, n) => Some n | _ => None end.
Proof. exact dotL_number_is_parse. Qed.
Print Assumptions C12_grammar_readings_agree.
Theorem C12_reply_is_clause : forall msize s,
  let '((m, v), st) := tversion_handle msize s in handle_clause msize s m v st = true.
Proof. exact handle_clause_model. Qed.
Print Assumptions C12_reply_is_clause.
Theorem C12_clause_meaning : forall msize s rm rv st,
  handle_clause msize s rm rv st = true ->
  (rm = 0 /\ rv = "unknown" /\ st = None /\ (msize = 0 \/ forall n, parse_version s <> Some (V9P2000L, n))) \/
  (exists n, msize <> 0 /\ parse_version s = Some (V9P2000L, n) /\ rm = N.min msize p9_maximumLength /\
             canonical rv = true /\ parse_version rv = Some (V9P2000L, N.min n p9_highestSupportedVersion) /\
             st = Some (rm, N.min n p9_highestSupportedVersion)).
Proof. exact handle_clause_names. Qed.
Print Assumptions C12_clause_meaning.
(** non-canonical spellings of a supported number are not canonical: echoing the request is refused by the clause *)
Example C12_ex_echo_refused :
  handle_clause 4096 "9P2000.L.Google.007" 4096 "9P2000.L.Google.007" (Some (4096, 7)) = false
  /\ handle_clause 4096 "9P2000.L.Google.0" 4096 "9P2000.L.Google.0" (Some (4096, 0)) = false
  /\ handle_clause 4096 "9P2000.L.Google.007" 4096 "9P2000.L.Google.7" (Some (4096, 7)) = true
  /\ handle_clause 4096 "9P2000.L.Google.0" 4096 "9P2000.L" (Some (4096, 0)) = true.
Proof. vm_compute. repeat split. Qed.

(** whole sessions: every Tversion of a connection (first or later) is answered by the same function of the
    request alone, so it always gets its Rversion; the state is the one of the last accepted request *)
Theorem C12_session : forall st reqs,
  session_run st reqs = (last_accepted st reqs, map (fun q => fst (tversion_handle (fst q) (snd q))) reqs).
Proof. exact session_run_spec. Qed.
Print Assumptions C12_session.
Theorem C12_session_all_answered : forall st reqs, List.length (snd (session_run st reqs)) = List.length reqs.
Proof. exact session_reply_count. Qed.
(** ... and after any session the server uses exactly the msize and version of an Rversion it sent (the last accepted one) *)
Theorem C12_session_state_announced : forall st reqs,
  let '(st', replies) := session_run st reqs in
  st' = st \/
  exists m v, In (m, v) replies /\ cs_msize st' = m /\ m <> 0 /\
              parse_version v = Some (V9P2000L, cs_version st') /\ cs_version st' <= p9_highestSupportedVersion.
Proof. exact session_state_announced. Qed.
Print Assumptions C12_session_state_announced.
(** Note: "a Tversion never gets an error" holds of [tversion_handle] by the shape of its result (the handler has no
    error return); what can still produce Rlerror or end the connection is the frame layer (a frame longer than the
    current msize, an undecodable body, a tag still in flight): that is C02/C06, and [wire_session] states the one
    interaction with C12 (a Tversion frame longer than the msize negotiated so far ends the connection). *)

(** a client can only start from a message size above every fixed part *)
Theorem C12_with_message_size : forall m m', with_message_size m = Some m' -> largestFixedSize < m'.
Proof. exact with_message_size_large. Qed.

(** NewClient: if it returns a client, the last reply was an Rversion whose
    string is a 9P2000.L version, and the client uses that version, the smaller
    of its own and the announced msize, and the payload size computed from it *)
Theorem C12_client_adopts : forall fuel req msize replies sent v m p,
  new_client fuel req msize replies = (sent, NCOk v m p) ->
  exists rm rv,
    nth_error replies (List.length sent - 1) = Some (VRversion rm rv) /\
    parse_version rv = Some (V9P2000L, v) /\
    m = (if rm <? msize then rm else msize) /\ p = payload_of m /\
    (rm < msize -> largestFixedSize < rm).
Proof. exact new_client_ok. Qed.
Print Assumptions C12_client_adopts.

(** with the adopted sizes every Twrite (23 + chunk) and every Rread (11 + chunk) fits *)
Theorem C12_payload_fits : forall m, largestFixedSize < m ->
  23 + payload_of m <= m /\ 11 + payload_of m <= m.
Proof. exact payload_fits. Qed.
Print Assumptions C12_payload_fits.

(** every Tversion the client sends carries its msize and the canonical spelling of a version <= the one it started from *)
Theorem C12_client_requests : forall fuel req msize replies,
  Forall (fun '(m, s) => m = msize /\ exists k, k <= req /\ s = version_string V9P2000L k)
         (fst (new_client fuel req msize replies)).
Proof. exact new_client_requests. Qed.
Print Assumptions C12_client_requests.

(** non-vacuity: concrete inputs meeting the hypotheses *)
Example C12_ex_ok :
  tversion_handle 70000 "9P2000.L.Google.0012" = ((70000, "9P2000.L.Google.7"), Some (70000, 7)).
Proof. vm_compute. reflexivity. Qed.
Example C12_ex_big :
  tversion_handle 4294967295 "9P2000.L.Google.3" = ((4194304, "9P2000.L.Google.3"), Some (4194304, 3)).
Proof. vm_compute. reflexivity. Qed.
Example C12_ex_unknown :
  tversion_handle 8192 "9P2000.L.Google.4294967296" = ((0, "unknown"), None)
  /\ tversion_handle 8192 "9P2000.L.Google.+1" = ((0, "unknown"), None)
  /\ tversion_handle 8192 "9P2000.u" = ((0, "unknown"), None)
  /\ tversion_handle 0 "9P2000.L" = ((0, "unknown"), None).
Proof. vm_compute. repeat split. Qed.
Example C12_ex_client :
  new_client_top 65536 [VErr 11; VRversion 8192 "9P2000.L.Google.6"]
  = ([(65536, "9P2000.L.Google.7"); (65536, "9P2000.L.Google.6")], NCOk 6 8192 7680).
Proof. vm_compute. reflexivity. Qed.
Example C12_ex_session :
  session_run cstate0 [(8192, "9P2000.L.Google.7"); (0, "9P2000.L"); (4096, "9P2000.L.Google.2"); (100, "9P2000.u")]
  = ({| cs_msize := 4096; cs_version := 2 |},
     [(8192, "9P2000.L.Google.7"); (0, "unknown"); (4096, "9P2000.L.Google.2"); (0, "unknown")]).
Proof. vm_compute. reflexivity. Qed.

(** TIE BY TRANSLATION: gen/VersionGen.v holds parseVersion and versionString as go2coq TRANSLATED them from
    p9/version.go on this run (switch over the literal strings, strings.Split, the length and field tests in
    source order, strconv.ParseUint with the base and bit size the source passes, the values returned);
    they ARE the model's functions, for every string and number -- so every theorem above about
    [parse_version] / [version_string] is a theorem about what the source says.  The library calls are the
    named primitives of Fs/VersionPrims.v (hand models, trusted). *)
Theorem C12_source_parse_is_model : forall s, gen_parseVersion s = enc_parse (parse_version s).
Proof. exact gen_parseVersion_is_model. Qed.
Print Assumptions C12_source_parse_is_model.
Theorem C12_source_versionString_is_model : forall b v, gen_versionString (base_string b) v = version_string b v.
Proof. exact gen_versionString_is_model. Qed.
Print Assumptions C12_source_versionString_is_model.
Theorem C12_source_canon : forall n, n < 4294967296 ->
  gen_parseVersion (gen_versionString "9P2000.L" n) = ("9P2000.L", n, true).
Proof. exact source_canon_roundtrip. Qed.
Print Assumptions C12_source_canon.
