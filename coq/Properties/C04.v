(** C04 -- session state machine (statements; extended below as proofs land). *)
From Coq Require Import NArith List String Bool.
From P9V Require Import Base.Str gen.ConstGen gen.HandlerGen Server.State Server.Msg Server.SessionSpec Server.Handlers
  Server.Summaries Server.NameProofs Server.SummaryProofs.
Import ListNotations.
Open Scope N_scope.

Theorem C04_source_matches_model : handler_traces = model_traces.
Proof. exact HandlerGen_matches_model. Qed.
Print Assumptions C04_source_matches_model.
